/-
  Netcode liveness, steady state (helper lemmas for Props/C18U.lean):
  Part A — a connected CLIENT survives whole traces of client operations as long as it is fresh at every `update`
           (client-side analogue of NcLive2 Part A);
  Part B — keep-alive traffic alone keeps an established session alive on both ends (rounds of NcLive2 Part B);
  Part C — a silent peer is reported exactly once.
-/
import RenetVerif.Lemmas.NcLive2
namespace RenetVerif.NcLive3
open RenetVerif RenetVerif.Netcode RenetVerif.Netcode.NS RenetVerif.NcLive2

/-! ## Part A : a fresh connected client survives every trace -/

/-- the operations of `NetcodeClient` (Netcode/Client.lean) other than `disconnect`: `update(d)`, `process_packet` on
    ANY bytes, `generate_payload_packet`.  (The remaining functions of the model client are constructors / pure
    observers.) -/
inductive COp where
  | update (d : Nat)
  | packet (buf : Bytes)
  | sendPayload (p : Bytes)
  deriving Repr, DecidableEq

/-- what an operation returns to the caller -/
inductive COut where
  /-- `update`: the datagram to send, if any -/
  | sent (o : Option (Bytes × Addr))
  /-- `process_packet`: the payload surfaced, if any -/
  | received (p : Option Bytes)
  /-- `generate_payload_packet`: `Ok((addr, datagram))` / `Err(e)` (state unchanged) -/
  | payload (r : Addr × Bytes)
  | payloadErr (e : NetcodeError)
  deriving Repr

/-- one client operation; `none` = the call unwound -/
def cstep (a : AEAD) (c : NetcodeClient) : COp → Option (COut × NetcodeClient)
  | .update d =>
    match c.update a d with
    | .ok (o, c') => some (.sent o, c')
    | _ => none
  | .packet buf =>
    match c.processPacket a buf with
    | .ok (p, c') => some (.received p, c')
    | _ => none
  | .sendPayload p =>
    match c.generatePayloadPacket a p with
    | .ok (r, c') => some (.payload r, c')
    | .err e => some (.payloadErr e, c)
    | .panic _ => none

/-- run a trace, collecting the results; `none` = an operation unwound -/
def runCOps (a : AEAD) : NetcodeClient → List COp → Option (List COut × NetcodeClient)
  | c, [] => some ([], c)
  | c, op :: rest =>
    match cstep a c op with
    | some (r, c') => (runCOps a c' rest).map fun x => (r :: x.1, x.2)
    | none => none

/-- `Packet::decode` as `NetcodeClient::process_packet` calls it: the token's protocol id, the server-to-client key,
    the client's replay window -/
def cDecode (a : AEAD) (c : NetcodeClient) (buf : Bytes) : Res NetcodeError (Nat × Packet) × Option RP :=
  Packet.decode a buf c.connectToken.protocolId (some c.connectToken.serverToClientKey) (some c.replayProtection)

/-- the datagram is **authentic for the client**: it decodes — under the server-to-client key, with the sequence number
    passing the client's replay window — to a KeepAlive or a Payload -/
def CAuthentic (a : AEAD) (c : NetcodeClient) (buf : Bytes) : Prop :=
  ∃ sq pk, (cDecode a c buf).1 = .ok (sq, pk) ∧ (pk.packetType = .keepAlive ∨ pk.packetType = .payload)

/-- … to a Disconnect packet -/
def CAuthDisconnect (a : AEAD) (c : NetcodeClient) (buf : Bytes) : Prop :=
  ∃ sq, (cDecode a c buf).1 = .ok (sq, .disconnect)

def cAuthenticB (a : AEAD) (c : NetcodeClient) (buf : Bytes) : Bool :=
  match (cDecode a c buf).1 with
  | .ok (_, pk) => decide (pk.packetType = .keepAlive) || decide (pk.packetType = .payload)
  | _ => false

def cAuthDisconnectB (a : AEAD) (c : NetcodeClient) (buf : Bytes) : Bool :=
  match (cDecode a c buf).1 with
  | .ok (_, .disconnect) => true
  | _ => false

theorem cAuthenticB_iff {a : AEAD} {c : NetcodeClient} {buf : Bytes} :
    cAuthenticB a c buf = true ↔ CAuthentic a c buf := by
  unfold cAuthenticB CAuthentic
  cases (cDecode a c buf).1 with
  | panic m => simp
  | err e => simp
  | ok sp =>
    obtain ⟨sq, pk⟩ := sp
    simp only [Bool.or_eq_true, decide_eq_true_eq, Res.ok.injEq, Prod.mk.injEq]
    constructor
    · intro h; exact ⟨sq, pk, ⟨rfl, rfl⟩, h⟩
    · rintro ⟨_, _, ⟨_, rfl⟩, h⟩; exact h

theorem cAuthDisconnectB_iff {a : AEAD} {c : NetcodeClient} {buf : Bytes} :
    cAuthDisconnectB a c buf = true ↔ CAuthDisconnect a c buf := by
  unfold cAuthDisconnectB CAuthDisconnect
  cases (cDecode a c buf).1 with
  | panic m => simp
  | err e => simp
  | ok sp =>
    obtain ⟨sq, pk⟩ := sp
    cases pk <;> simp

/-- an authentic datagram is one whose body the AEAD opened under the server-to-client key (nonce = its sequence
    number, AAD = version ‖ protocol id ‖ prefix byte) **and** whose sequence number the client's replay window had
    not seen -/
theorem cAuthentic_opens {a : AEAD} {c : NetcodeClient} {buf : Bytes} (h : CAuthentic a c buf) :
    ∃ ty plain, Packet.SealedOpen a buf c.connectToken.protocolId c.connectToken.serverToClientKey ty plain ∧
      (ty = .keepAlive ∨ ty = .payload) ∧
      c.replayProtection.alreadyReceived (Packet.wireSeq buf) = false := by
  obtain ⟨sq, pk, hdec, hk⟩ := h
  have hd : cDecode a c buf = (.ok (sq, pk), (cDecode a c buf).2) := by rw [← hdec]
  unfold cDecode at hd
  rcases Packet.decode_ok hd with ⟨_, _, _, _, hpk, _⟩ | ⟨k, ty, plain, hkey, hso, hdup, hsq, hread, _⟩
  · rcases hk with hk | hk <;> rw [hk] at hpk <;> cases hpk
  · cases hkey
    have hty : pk.packetType = ty := (Packet.read_ok hread).2.1
    refine ⟨ty, plain, hso, by rw [← hty]; exact hk, ?_⟩
    rw [Packet.isDup_some] at hdup
    have hp : ty.applyReplayProtection = true := by
      rw [← hty]; rcases hk with hk | hk <;> rw [hk] <;> rfl
    rw [hp, Bool.true_and] at hdup
    rw [← hsq]; exact hdup

/-- what no operation of a connected client changes (token — hence keys, protocol id, timeout —, id, server address …);
    sequence number and clock only grow -/
structure CKeeps (c c' : NetcodeClient) : Prop where
  tok : c'.connectToken = c.connectToken
  id : c'.clientId = c.clientId
  srv : c'.serverAddr = c.serverAddr
  idx : c'.serverAddrIndex = c.serverAddrIndex
  start : c'.connectStartTime = c.connectStartTime
  rate : c'.sendRate = c.sendRate
  maxc : c'.maxClients = c.maxClients
  cidx : c'.clientIndex = c.clientIndex
  seq : c.sequence ≤ c'.sequence
  clock : c.currentTime ≤ c'.currentTime

theorem CKeeps.refl (c : NetcodeClient) : CKeeps c c :=
  ⟨rfl, rfl, rfl, rfl, rfl, rfl, rfl, rfl, Nat.le_refl _, Nat.le_refl _⟩
theorem CKeeps.trans {c1 c2 c3 : NetcodeClient} (h1 : CKeeps c1 c2) (h2 : CKeeps c2 c3) : CKeeps c1 c3 :=
  ⟨h2.1.trans h1.1, h2.2.trans h1.2, h2.3.trans h1.3, h2.4.trans h1.4, h2.5.trans h1.5, h2.6.trans h1.6,
    h2.7.trans h1.7, h2.8.trans h1.8, Nat.le_trans h1.9 h2.9, Nat.le_trans h1.10 h2.10⟩

/-- **`process_packet` on a connected client, any bytes**: either the datagram is an authentic Disconnect, or the
    client stays connected and its receive timer becomes `now` exactly when the datagram is authentic (KeepAlive /
    Payload), and stays what it was otherwise (forged, replayed, malformed, other kinds). -/
theorem pp_connected {a : AEAD} {c c' : NetcodeClient} {buf : Bytes} {r : Option Bytes} (hst : c.state = .connected)
    (h : c.processPacket a buf = .ok (r, c')) :
    CKeeps c c' ∧ c'.currentTime = c.currentTime ∧ c'.sequence = c.sequence ∧
      c'.lastPacketSendTime = c.lastPacketSendTime ∧
    ((cAuthDisconnectB a c buf = true ∧ c'.state = .disconnected .disconnectedByServer) ∨
     (cAuthDisconnectB a c buf = false ∧ c'.state = .connected ∧
       c'.lastPacketReceivedTime = if cAuthenticB a c buf then c.currentTime else c.lastPacketReceivedTime)) := by
  unfold NetcodeClient.processPacket at h
  unfold cAuthDisconnectB cAuthenticB cDecode
  generalize Packet.decode a buf c.connectToken.protocolId (some c.connectToken.serverToClientKey)
    (some c.replayProtection) = dr at h ⊢
  obtain ⟨r', rp⟩ := dr
  dsimp only at h ⊢
  cases r' with
  | panic m => cases h
  | err e =>
    cases h
    exact ⟨⟨rfl, rfl, rfl, rfl, rfl, rfl, rfl, rfl, Nat.le_refl _, Nat.le_refl _⟩, rfl, rfl, rfl, Or.inr ⟨rfl, hst, rfl⟩⟩
  | ok sp =>
    obtain ⟨sq, pk⟩ := sp
    dsimp only at h ⊢
    cases pk <;> simp only [hst] at h <;> cases h <;>
      exact ⟨⟨rfl, rfl, rfl, rfl, rfl, rfl, rfl, rfl, Nat.le_refl _, Nat.le_refl _⟩, rfl, rfl, rfl,
        by first | exact Or.inl ⟨rfl, rfl⟩ | exact Or.inr ⟨rfl, hst, rfl⟩ | exact Or.inr ⟨rfl, rfl, rfl⟩⟩

/-- what `generate_packet` leaves alone -/
def GPKeeps (c : NetcodeClient) (r : Option (Bytes × Addr) × NetcodeClient) : Prop :=
  r.2.state = c.state ∧ CKeeps c r.2 ∧ r.2.currentTime = c.currentTime ∧
    r.2.lastPacketReceivedTime = c.lastPacketReceivedTime ∧ r.2.replayProtection = c.replayProtection

theorem generatePacket_keeps (a : AEAD) (c : NetcodeClient) : (c.generatePacket a).Post (GPKeeps c) := by
  have base : GPKeeps c (none, c) := ⟨rfl, CKeeps.refl c, rfl, rfl, rfl⟩
  unfold NetcodeClient.generatePacket
  refine Res.post_bind fun tooSoon _ => ?_
  split
  · exact Res.post_pure base
  · cases hst : c.state with
    | disconnected r =>
      simp only [Bool.false_eq_true, ↓reduceIte, hst]
      exact Res.post_pure base
    | sendingConnectionRequest =>
      simp only [↓reduceIte]
      split
      · exact Res.post_panic
      · exact Res.post_pure ⟨hst.symm, ⟨rfl, rfl, rfl, rfl, rfl, rfl, rfl, rfl, Nat.le_refl _, Nat.le_refl _⟩, rfl, rfl, rfl⟩
      · refine Res.post_bind fun sq hsq => Res.post_pure ?_
        have := incU64_eq_ok hsq
        exact ⟨hst.symm, ⟨rfl, rfl, rfl, rfl, rfl, rfl, rfl, rfl, by show c.sequence ≤ sq; omega, Nat.le_refl _⟩, rfl, rfl, rfl⟩
    | sendingConnectionResponse =>
      simp only [↓reduceIte]
      split
      · exact Res.post_panic
      · exact Res.post_pure ⟨hst.symm, ⟨rfl, rfl, rfl, rfl, rfl, rfl, rfl, rfl, Nat.le_refl _, Nat.le_refl _⟩, rfl, rfl, rfl⟩
      · refine Res.post_bind fun sq hsq => Res.post_pure ?_
        have := incU64_eq_ok hsq
        exact ⟨hst.symm, ⟨rfl, rfl, rfl, rfl, rfl, rfl, rfl, rfl, by show c.sequence ≤ sq; omega, Nat.le_refl _⟩, rfl, rfl, rfl⟩
    | connected =>
      simp only [↓reduceIte]
      split
      · exact Res.post_panic
      · exact Res.post_pure ⟨hst.symm, ⟨rfl, rfl, rfl, rfl, rfl, rfl, rfl, rfl, Nat.le_refl _, Nat.le_refl _⟩, rfl, rfl, rfl⟩
      · refine Res.post_bind fun sq hsq => Res.post_pure ?_
        have := incU64_eq_ok hsq
        exact ⟨hst.symm, ⟨rfl, rfl, rfl, rfl, rfl, rfl, rfl, rfl, by show c.sequence ≤ sq; omega, Nat.le_refl _⟩, rfl, rfl, rfl⟩

/-- the client is **fresh** for an `update(d)` when the most recent authentic packet dates from `last`: the token's
    timeout is not positive (no time-out at all — `connect_token.timeout_seconds > 0 && …` in client.rs), or the new
    clock value is at most `last + timeout` (the test in client.rs is the strict `last + timeout < now`) -/
def CFreshFor (c : NetcodeClient) (last d : Nat) : Prop :=
  c.connectToken.timeoutSeconds ≤ 0 ∨ c.currentTime + d ≤ last + fromSecs c.connectToken.timeoutSeconds.toNat

instance (c : NetcodeClient) (last d : Nat) : Decidable (CFreshFor c last d) := by unfold CFreshFor; infer_instance

/-- **`update(d)` on a connected, fresh client**: it stays connected; clock `+ d`; receive timer and window untouched -/
theorem update_connected {a : AEAD} {c c' : NetcodeClient} {d last : Nat} {o : Option (Bytes × Addr)}
    (hst : c.state = .connected) (hlast : last ≤ c.lastPacketReceivedTime) (hfr : CFreshFor c last d)
    (h : c.update a d = .ok (o, c')) :
    c'.state = .connected ∧ CKeeps c c' ∧ c'.currentTime = c.currentTime + d ∧
      c'.lastPacketReceivedTime = c.lastPacketReceivedTime ∧ c'.replayProtection = c.replayProtection := by
  unfold NetcodeClient.update NetcodeClient.updateInternalState at h
  generalize hd : (durAdd c.currentTime d _ : Res Empty Nat) = X at h
  rcases durAdd_out hd with rfl | ⟨rfl, _⟩
  · simp only [bind_ok'] at h
    have hto : (if c.connectToken.timeoutSeconds > 0 then do
          let deadline ← (durAdd c.lastPacketReceivedTime (fromSecs c.connectToken.timeoutSeconds.toNat)
                           "client.rs update_internal_state: last_packet_received_time + timeout" : Res Empty Nat)
          pure (decide (deadline < c.currentTime + d))
        else pure false : Res Empty Bool) = .ok false ∨
        ∃ m, (if c.connectToken.timeoutSeconds > 0 then do
          let deadline ← (durAdd c.lastPacketReceivedTime (fromSecs c.connectToken.timeoutSeconds.toNat)
                           "client.rs update_internal_state: last_packet_received_time + timeout" : Res Empty Nat)
          pure (decide (deadline < c.currentTime + d))
        else pure false : Res Empty Bool) = .panic m := by
      by_cases ht : c.connectToken.timeoutSeconds > 0
      · rw [if_pos ht]
        generalize hd2 : (durAdd c.lastPacketReceivedTime (fromSecs c.connectToken.timeoutSeconds.toNat) _ : Res Empty Nat) = Y
        rcases durAdd_out hd2 with rfl | ⟨rfl, _⟩
        · left
          simp only [bind_ok', pure_eq']
          have : ¬ c.lastPacketReceivedTime + fromSecs c.connectToken.timeoutSeconds.toNat < c.currentTime + d := by
            rcases hfr with h1 | h1 <;> omega
          rw [decide_eq_false this]
        · right; exact ⟨_, rfl⟩
      · rw [if_neg ht]; left; rfl
    rcases hto with e | ⟨m, e⟩
    · rw [e] at h
      simp only [bind_ok', hst, Bool.false_eq_true, if_false, pure_eq'] at h
      obtain ⟨h1, h2, h3, h4, h5⟩ := generatePacket_keeps a _ _ h
      exact ⟨h1, ⟨h2.1, h2.2, h2.3, h2.4, h2.5, h2.6, h2.7, h2.8, h2.9, Nat.le_trans (Nat.le_add_right _ _) h2.10⟩,
        h3, h4, h5⟩
    · rw [e] at h; cases h
  · cases h

/-- **`generate_payload_packet` on a connected client**: only the sequence number and the send timer change -/
theorem sendPayload_connected {a : AEAD} {c c' : NetcodeClient} {p : Bytes} {r : Addr × Bytes}
    (h : c.generatePayloadPacket a p = .ok (r, c')) :
    c'.state = c.state ∧ CKeeps c c' ∧ c'.currentTime = c.currentTime ∧
      c'.lastPacketReceivedTime = c.lastPacketReceivedTime ∧ c'.replayProtection = c.replayProtection := by
  unfold NetcodeClient.generatePayloadPacket at h
  split at h
  · cases h
  · split at h
    · cases h
    · cases he : (Packet.payload p).encode a C.NETCODE_MAX_PACKET_BYTES c.connectToken.protocolId
          (some (c.sequence, c.connectToken.clientToServerKey)) with
      | err e => rw [he] at h; cases h
      | panic m => rw [he] at h; cases h
      | ok out =>
        rw [he] at h
        simp only [bind_ok'] at h
        cases hq : (incU64 c.sequence "client.rs generate_payload_packet: sequence += 1" : NRes Nat) with
        | err e => rw [hq] at h; cases h
        | panic m => rw [hq] at h; cases h
        | ok sq =>
          rw [hq] at h
          simp only [bind_ok', pure_eq', Res.ok.injEq, Prod.mk.injEq] at h
          obtain ⟨_, rfl⟩ := h
          have := incU64_eq_ok hq
          exact ⟨rfl, ⟨rfl, rfl, rfl, rfl, rfl, rfl, rfl, rfl, by show c.sequence ≤ sq; omega, Nat.le_refl _⟩, rfl, rfl, rfl⟩

/-! ### traces -/

/-- the operation is an authentic KeepAlive / Payload datagram (the only thing that moves the ghost timer) -/
def cRefreshes (a : AEAD) (c : NetcodeClient) : COp → Bool
  | .packet buf => cAuthenticB a c buf
  | _ => false

/-- What the trace hypothesis of `client_never_timed_out` demands of one operation, executed in state `c` when the
    most recent authentic packet (or the connection) dates from `last`:
    * at `update(d)` the client is fresh: `now + d ≤ last + timeout`, or the token's timeout is not positive;
    * a datagram is not an authentic Disconnect packet of the server.
    Everything else (any other bytes, payloads to send) is unconstrained. -/
def cOpAllowed (a : AEAD) (c : NetcodeClient) (last : Nat) : COp → Bool
  | .update d => decide (CFreshFor c last d)
  | .packet buf => !cAuthDisconnectB a c buf
  | .sendPayload _ => true

/-- the ghost timer after one more operation: the time of the most recent authentic packet -/
def cLastAfter (a : AEAD) (c : NetcodeClient) (last : Nat) (op : COp) : Nat :=
  if cRefreshes a c op then c.currentTime else last

/-- `cOpAllowed` along a whole trace, the ghost timer following the authentic packets (a trace ends where an
    operation unwinds) -/
def cFreshB (a : AEAD) : NetcodeClient → Nat → List COp → Bool
  | _, _, [] => true
  | c, last, op :: rest =>
    cOpAllowed a c last op &&
      match cstep a c op with
      | some (_, c') => cFreshB a c' (cLastAfter a c last op) rest
      | none => true

/-- the trace hypothesis of `client_never_timed_out` -/
def CFresh (a : AEAD) (c : NetcodeClient) (last : Nat) (ops : List COp) : Prop := cFreshB a c last ops = true

instance (a : AEAD) (c : NetcodeClient) (last : Nat) (ops : List COp) : Decidable (CFresh a c last ops) := by
  unfold CFresh; infer_instance

/-- the ghost timer at the end of a trace -/
def cLastRun (a : AEAD) : NetcodeClient → Nat → List COp → Nat
  | _, last, [] => last
  | c, last, op :: rest =>
    match cstep a c op with
    | some (_, c') => cLastRun a c' (cLastAfter a c last op) rest
    | none => last

theorem cFresh_nil (a : AEAD) (c : NetcodeClient) (last : Nat) : CFresh a c last [] := rfl

theorem cFresh_cons {a : AEAD} {c : NetcodeClient} {last : Nat} {op : COp} {rest : List COp} :
    CFresh a c last (op :: rest) ↔
      cOpAllowed a c last op = true ∧
      ∀ r c', cstep a c op = some (r, c') → CFresh a c' (cLastAfter a c last op) rest := by
  unfold CFresh
  simp only [cFreshB, Bool.and_eq_true]
  constructor
  · rintro ⟨h1, h2⟩
    refine ⟨h1, fun r c' hs => ?_⟩
    rw [hs] at h2; exact h2
  · rintro ⟨h1, h2⟩
    refine ⟨h1, ?_⟩
    cases hs : cstep a c op with
    | none => rfl
    | some x => obtain ⟨r, c'⟩ := x; exact h2 r c' hs

theorem runCOps_cons {a : AEAD} {c c'' : NetcodeClient} {op : COp} {rest : List COp} {rs : List COut}
    (h : runCOps a c (op :: rest) = some (rs, c'')) :
    ∃ r c' rs', cstep a c op = some (r, c') ∧ runCOps a c' rest = some (rs', c'') ∧ rs = r :: rs' := by
  simp only [runCOps] at h
  cases hs : cstep a c op with
  | none => rw [hs] at h; cases h
  | some x =>
    obtain ⟨r, c'⟩ := x
    rw [hs] at h
    simp only [Option.map_eq_some_iff, Prod.mk.injEq] at h
    obtain ⟨⟨rs', c3⟩, h1, rfl, rfl⟩ := h
    exact ⟨r, c', rs', rfl, h1, rfl⟩

theorem runCOps_append {a : AEAD} : ∀ {l1 l2 : List COp} {c c'' : NetcodeClient} {rs : List COut},
    runCOps a c (l1 ++ l2) = some (rs, c'') →
    ∃ rs1 c' rs2, runCOps a c l1 = some (rs1, c') ∧ runCOps a c' l2 = some (rs2, c'') ∧ rs = rs1 ++ rs2
  | [], l2, c, c'', rs, h => ⟨[], c, rs, rfl, h, rfl⟩
  | op :: l1, l2, c, c'', rs, h => by
    obtain ⟨r, c1, rs', hs, hr, rfl⟩ := runCOps_cons (rest := l1 ++ l2) h
    obtain ⟨rs1, c', rs2, h1, h2, rfl⟩ := runCOps_append hr
    refine ⟨r :: rs1, c', rs2, ?_, h2, rfl⟩
    simp only [runCOps, hs, h1, Option.map_some]

/-- `CFresh` is closed under prefixes -/
theorem cFresh_prefix {a : AEAD} : ∀ {l1 l2 : List COp} {c : NetcodeClient} {last : Nat},
    CFresh a c last (l1 ++ l2) → CFresh a c last l1
  | [], _, c, last, _ => cFresh_nil a c last
  | op :: l1, l2, c, last, h => by
    rw [List.cons_append, cFresh_cons] at h
    rw [cFresh_cons]
    exact ⟨h.1, fun r c' hs => cFresh_prefix (h.2 r c' hs)⟩

theorem cLastAfter_packet (a : AEAD) (c : NetcodeClient) (last : Nat) (buf : Bytes) :
    cLastAfter a c last (.packet buf) = if cAuthenticB a c buf = true then c.currentTime else last := rfl

/-- **one allowed operation keeps the client connected**, with its token (keys, protocol id, timeout), id and
    server address; the receive timer is at least the ghost timer — and *equal* to it if it was before: forged /
    replayed datagrams move neither. -/
theorem cstep_keeps {a : AEAD} {c c' : NetcodeClient} {op : COp} {r : COut} {last : Nat}
    (hst : c.state = .connected) (hlast : last ≤ c.lastPacketReceivedTime)
    (hal : cOpAllowed a c last op = true) (h : cstep a c op = some (r, c')) :
    c'.state = .connected ∧ CKeeps c c' ∧ cLastAfter a c last op ≤ c'.lastPacketReceivedTime ∧
      (last = c.lastPacketReceivedTime → cLastAfter a c last op = c'.lastPacketReceivedTime) := by
  cases op with
  | update d =>
    simp only [cOpAllowed, decide_eq_true_eq] at hal
    simp only [cstep] at h
    cases hu : c.update a d with
    | ok x =>
      obtain ⟨o, c1⟩ := x
      rw [hu] at h
      simp only [Option.some.injEq, Prod.mk.injEq] at h
      obtain ⟨_, rfl⟩ := h
      obtain ⟨h1, h2, _, h4, _⟩ := update_connected hst hlast hal hu
      have hla : cLastAfter a c last (.update d) = last := rfl
      rw [hla, h4]
      exact ⟨h1, h2, hlast, id⟩
    | err e => exact e.elim
    | panic m => rw [hu] at h; cases h
  | packet buf =>
    simp only [cOpAllowed, Bool.not_eq_true'] at hal
    simp only [cstep] at h
    cases hp : c.processPacket a buf with
    | ok x =>
      obtain ⟨o, c1⟩ := x
      rw [hp] at h
      simp only [Option.some.injEq, Prod.mk.injEq] at h
      obtain ⟨_, rfl⟩ := h
      obtain ⟨h1, _, _, _, h5⟩ := pp_connected hst hp
      rcases h5 with ⟨hd, _⟩ | ⟨_, h6, h7⟩
      · rw [hal] at hd; cases hd
      · refine ⟨h6, h1, ?_, ?_⟩
        · rw [cLastAfter_packet, h7]
          by_cases hb : cAuthenticB a c buf = true
          · rw [if_pos hb, if_pos hb]; exact Nat.le_refl _
          · rw [if_neg hb, if_neg hb]; exact hlast
        · intro e
          rw [cLastAfter_packet, h7, e]
    | err e => exact e.elim
    | panic m => rw [hp] at h; cases h
  | sendPayload p =>
    have hla : cLastAfter a c last (.sendPayload p) = last := rfl
    rw [hla]
    simp only [cstep] at h
    cases hp : c.generatePayloadPacket a p with
    | ok x =>
      obtain ⟨o, c1⟩ := x
      rw [hp] at h
      simp only [Option.some.injEq, Prod.mk.injEq] at h
      obtain ⟨_, rfl⟩ := h
      obtain ⟨h1, h2, _, h4, _⟩ := sendPayload_connected hp
      rw [h4]
      exact ⟨h1.trans hst, h2, hlast, id⟩
    | err e =>
      rw [hp] at h
      simp only [Option.some.injEq, Prod.mk.injEq] at h
      obtain ⟨_, rfl⟩ := h
      exact ⟨hst, CKeeps.refl c, hlast, id⟩
    | panic m => rw [hp] at h; cases h

/-- **the induction over a whole trace** -/
theorem crun_keeps {a : AEAD} : ∀ (ops : List COp) {c c' : NetcodeClient} {last : Nat} {rs : List COut},
    c.state = .connected → last ≤ c.lastPacketReceivedTime → CFresh a c last ops → runCOps a c ops = some (rs, c') →
    c'.state = .connected ∧ CKeeps c c' ∧ cLastRun a c last ops ≤ c'.lastPacketReceivedTime ∧
      (last = c.lastPacketReceivedTime → cLastRun a c last ops = c'.lastPacketReceivedTime)
  | [], c, c', last, rs, hst, hlast, _, hrun => by
    simp only [runCOps, Option.some.injEq, Prod.mk.injEq] at hrun
    obtain ⟨_, rfl⟩ := hrun
    exact ⟨hst, CKeeps.refl c, hlast, id⟩
  | op :: rest, c, c', last, rs, hst, hlast, hfr, hrun => by
    obtain ⟨r, c1, rs', hs, hr, rfl⟩ := runCOps_cons hrun
    obtain ⟨hal, hrest⟩ := cFresh_cons.mp hfr
    obtain ⟨hst1, hk1, hl1, he1⟩ := cstep_keeps hst hlast hal hs
    obtain ⟨hst', hk', hl', he'⟩ := crun_keeps rest hst1 hl1 (hrest r c1 hs) hr
    simp only [cLastRun, hs]
    exact ⟨hst', hk1.trans hk', hl', fun e => he' (he1 e)⟩

/-! ## Part B : keep-alive traffic keeps both ends of an established session alive -/

/-- the replay window stays open above the sender's next sequence number -/
theorem fresh_above_advance {rp : RP} {n : Nat} (h : ∀ k, n ≤ k → rp.alreadyReceived k = false) :
    ∀ k, n + 1 ≤ k → (rp.advance n).alreadyReceived k = false := by
  intro k hk
  obtain ⟨h1, h2⟩ := (RP.alreadyReceived_false_iff rp k).mp (h k (by omega))
  rw [RP.alreadyReceived_false_iff]
  refine ⟨?_, ?_⟩
  · rw [RP.advance_mr]
    intro hh
    apply h1
    refine ⟨hh.1, ?_⟩
    have := hh.2
    omega
  · by_cases hm : k % 256 = n % 256
    · right; rw [RP.advance_at_eqmod _ _ _ hm]; omega
    · rw [RP.advance_at_other _ _ _ hm]; exact h2

/-- `update_internal_state` of a connected client that is not timed out: only the clock moves
    (`NS.client_no_timeout` without the connect-start side condition) -/
theorem uis_connected {c : NetcodeClient} {d : Nat} (hst : c.state = .connected)
    (hclock : c.currentTime + d ≤ DURATION_MAX)
    (hrecv : c.lastPacketReceivedTime + fromSecs c.connectToken.timeoutSeconds.toNat ≤ DURATION_MAX)
    (hto : ¬ CTimedOut c (c.currentTime + d)) :
    c.updateInternalState d = .ok (none, { c with currentTime := c.currentTime + d }) := by
  unfold NetcodeClient.updateInternalState
  rw [durAdd_ok _ hclock]
  simp only [bind_ok']
  rw [client_timedOut_eq c (c.currentTime + d) hrecv]
  simp only [bind_ok', hst, decide_eq_false hto, Bool.false_eq_true, if_false, pure_eq']

/-- the keep-alive a connected client emits -/
def kaUp (a : AEAD) (c : NetcodeClient) : Bytes :=
  Packet.sealedBytes a (.keepAlive 0 0) c.connectToken.protocolId c.sequence c.connectToken.clientToServerKey

/-- `generate_packet` of a connected client whose send-rate gate is open: a keep-alive, sealed under the
    client-to-server key with the current sequence number -/
theorem generatePacket_connected (a : AEAD) {c : NetcodeClient} (hst : c.state = .connected)
    (hgate : ∀ tm, c.lastPacketSendTime = some tm → tm ≤ c.currentTime ∧ c.sendRate ≤ c.currentTime - tm)
    (hseq : c.sequence < U64_MAX) :
    c.generatePacket a = .ok (some (kaUp a c, c.serverAddr),
      { c with lastPacketSendTime := some c.currentTime, sequence := c.sequence + 1 }) := by
  have hen : (Packet.keepAlive 0 0).encode a C.NETCODE_MAX_PACKET_BYTES c.connectToken.protocolId
      (some (c.sequence, c.connectToken.clientToServerKey)) = .ok (kaUp a c) := by
    rw [Packet.encode_sealed_eq a _ _ _ _ _ (by simp [Packet.packetType])]
    have h1 := Packet.sbr_le c.sequence
    rw [if_pos]
    · rfl
    · simp only [Packet.body, List.length_append, leBytes_length]
      have : C.NETCODE_MAX_PACKET_BYTES = 1400 := rfl
      omega
  rcases c with ⟨st, f2, f3, ls, f5, f6, f7, f8, f9, f10, f11, f12, f13, f14, f15, f16⟩
  simp only at hst hgate hseq hen
  subst hst
  unfold NetcodeClient.generatePacket
  cases ls with
  | none => simp only [pure_eq', bind_ok', Bool.false_eq_true, if_false, if_true, hen, incU64_ok _ hseq]
  | some tm =>
    obtain ⟨h1, h2⟩ := hgate tm rfl
    simp only [csub_ok _ h1, pure_eq', bind_ok', decide_eq_false (Nat.not_lt.mpr h2), Bool.false_eq_true, if_false,
      if_true, hen, incU64_ok _ hseq]

/-- **`update(d)` of a connected client that is fresh and whose gate is open**: clock `+ d`, keep-alive out -/
theorem update_connected_sends (a : AEAD) {c : NetcodeClient} {d : Nat} (hst : c.state = .connected)
    (hclock : c.currentTime + d + fromSecs c.connectToken.timeoutSeconds.toNat ≤ DURATION_MAX)
    (hrecv : c.lastPacketReceivedTime ≤ c.currentTime)
    (hfr : CFreshFor c c.lastPacketReceivedTime d)
    (hle : ∀ tm, c.lastPacketSendTime = some tm → tm ≤ c.currentTime) (hg : GateOpen c d)
    (hseq : c.sequence < U64_MAX) :
    c.update a d = .ok (some (kaUp a c, c.serverAddr), cliSent c d) := by
  have hto : ¬ CTimedOut c (c.currentTime + d) := by
    rintro ⟨h1, h2⟩
    rcases hfr with h | h <;> omega
  unfold NetcodeClient.update
  rw [uis_connected hst (by omega) (by omega) hto]
  simp only [bind_ok']
  exact generatePacket_connected a (c := { c with currentTime := c.currentTime + d }) hst
    (fun tm e => ⟨by have := hle tm e; show tm ≤ c.currentTime + d; omega, hg tm e⟩) hseq

/-- **the client's keep-alive reaches the server**: the session's receive timer becomes `now`, its window advances -/
theorem pp_keepalive_up (a : AEAD) (hl : a.Laws) {s : NetcodeServer} {addr : Addr} {i seq ci mc : Nat} {cn : Connection}
    (hi : ServerInv s) (hc : At s.clients i cn) (had : cn.addr = addr) (hseq : seq < 2 ^ 64) (hci : ci < 2 ^ 32)
    (hmc : mc < 2 ^ 32) (hfresh : cn.replayProtection.alreadyReceived seq = false) :
    s.processPacket a addr (Packet.sealedBytes a (.keepAlive ci mc) s.protocolId seq cn.receiveKey) =
      .ok (.none,
        { s with clients := s.clients.set i (some (refreshed cn (cn.replayProtection.advance seq) s.currentTime)) }) := by
  have hfa : findClientByAddr s.clients addr = some (i, cn) := hi.slots.findAddr_iff.mpr ⟨had, hc⟩
  have hst := hi.slots.conn i cn hc
  have hdec := Packet.decode_sealedBytes a (.keepAlive ci mc) s.protocolId seq cn.receiveKey hl hseq
    (by simp [Packet.packetType]) ⟨hci, hmc⟩ (some cn.replayProtection)
    (by simp [Packet.isDup, Packet.packetType, PacketType.applyReplayProtection, hfresh])
  have hlen : ¬ (Packet.sealedBytes a (.keepAlive ci mc) s.protocolId seq cn.receiveKey).length <
      2 + C.NETCODE_MAC_BYTES := by
    rw [Packet.sealed_length _ _ _ _ _ hl]
    have := Packet.sbr_pos seq
    simp only [Packet.mac_eq]; omega
  unfold NetcodeServer.processPacket NetcodeServer.processPacketInternal
  rw [if_neg hlen]
  simp only [hfa, hdec, Packet.stepWindow, Packet.packetType, PacketType.applyReplayProtection, Option.map_some,
    if_true, Option.getD_some, hst, List.set_set, refreshed]

/-- **the server's keep-alive reaches the connected client**: its receive timer becomes `now`, its window advances -/
theorem pp_keepalive_down (a : AEAD) (hl : a.Laws) {c : NetcodeClient} {s : NetcodeServer} {p : Connection} {i : Nat}
    (hst : c.state = .connected) (hkey : c.connectToken.serverToClientKey = p.sendKey)
    (hpid : c.connectToken.protocolId = s.protocolId) (hseq : p.sequence < 2 ^ 64)
    (hfresh : c.replayProtection.alreadyReceived p.sequence = false) :
    c.processPacket a (connectKeepAlive a s p i) =
      .ok (none, { c with replayProtection := c.replayProtection.advance p.sequence
                          lastPacketReceivedTime := c.currentTime }) := by
  have hdec := Packet.decode_sealedBytes a (.keepAlive (i % 2 ^ 32) (s.maxClients % 2 ^ 32))
    s.protocolId p.sequence p.sendKey hl hseq (by simp [Packet.packetType])
    ⟨Nat.mod_lt _ (by decide), Nat.mod_lt _ (by decide)⟩ (some c.replayProtection)
    (by simp [Packet.isDup, Packet.packetType, PacketType.applyReplayProtection, hfresh])
  unfold NetcodeClient.processPacket
  rw [hkey, hpid]
  unfold connectKeepAlive
  rw [hdec]
  simp only [Packet.stepWindow, Packet.packetType, PacketType.applyReplayProtection, Option.map_some,
    if_true, Option.getD_some, hst]

/-! ### rounds with their server results -/

/-- `NcLive2.round`, also returning what the server reported: the result of `process_packet` on the client's datagram
    (`None` if none arrived) and the result of `update_client` -/
def roundEv (a : AEAD) (addr me : Addr) (id : Nat) (f : Fate) (d : Nat) (w : NetcodeClient × NetcodeServer) :
    Option ((NetcodeClient × NetcodeServer) × List ServerResult) :=
  match w.2.update d, w.1.update a d with
  | .ok s1, .ok (out, c1) =>
    match up a addr me f out s1 with
    | some (r, s2) =>
      match s2.updateClient a id with
      | .ok (r', s3) => (down a addr f r r' c1).map fun c3 => ((c3, s3), [r, r'])
      | _ => none
    | none => none
  | _, _ => none

/-- a schedule of rounds, with the server's reports -/
def runRoundsEv (a : AEAD) (addr me : Addr) (id : Nat) :
    List (Fate × Nat) → NetcodeClient × NetcodeServer → Option ((NetcodeClient × NetcodeServer) × List ServerResult)
  | [], w => some (w, [])
  | (f, d) :: rest, w =>
    (roundEv a addr me id f d w).bind fun x => (runRoundsEv a addr me id rest x.1).map fun y => (y.1, x.2 ++ y.2)

theorem round_of_roundEv (a : AEAD) (addr me : Addr) (id : Nat) (f : Fate) (d : Nat) (w : NetcodeClient × NetcodeServer) :
    round a addr me id f d w = (roundEv a addr me id f d w).map (·.1) := by
  unfold round roundEv
  cases w.2.update d with
  | ok s1 =>
    cases w.1.update a d with
    | ok oc =>
      obtain ⟨out, c1⟩ := oc
      dsimp only
      cases up a addr me f out s1 with
      | some rs =>
        obtain ⟨r, s2⟩ := rs
        dsimp only
        cases s2.updateClient a id with
        | ok x =>
          obtain ⟨r', s3⟩ := x
          dsimp only
          rw [Option.map_map]
          rfl
        | err e => rfl
        | panic m => rfl
      | none => rfl
    | err e => rfl
    | panic m => rfl
  | err e => rfl
  | panic m => rfl

theorem runRounds_of_ev (a : AEAD) (addr me : Addr) (id : Nat) : ∀ (sched : List (Fate × Nat))
    (w : NetcodeClient × NetcodeServer),
    runRounds a addr me id sched w = (runRoundsEv a addr me id sched w).map (·.1)
  | [], w => rfl
  | (f, d) :: rest, w => by
    simp only [runRounds, runRoundsEv, round_of_roundEv]
    cases roundEv a addr me id f d w with
    | none => rfl
    | some x =>
      simp only [Option.map_some, Option.bind_some, runRounds_of_ev a addr me id rest x.1, Option.map_map]
      rfl

theorem runRounds_two {a : AEAD} {addr me : Addr} {id : Nat} {f₁ f₂ : Fate} {d₁ d₂ : Nat}
    {w w₁ w₂ : NetcodeClient × NetcodeServer} (h₁ : round a addr me id f₁ d₁ w = some w₁)
    (h₂ : round a addr me id f₂ d₂ w₁ = some w₂) : runRounds a addr me id [(f₁, d₁), (f₂, d₂)] w = some w₂ := by
  simp only [runRounds, h₁, Option.bind_some, h₂]

theorem roundEv_intro {a : AEAD} {addr me : Addr} {id : Nat} {f : Fate} {d : Nat} {c c1 c3 : NetcodeClient}
    {s s1 s2 s3 : NetcodeServer} {out : Option (Bytes × Addr)} {r r' : ServerResult}
    (h1 : s.update d = .ok s1) (h2 : c.update a d = .ok (out, c1)) (h3 : up a addr me f out s1 = some (r, s2))
    (h4 : s2.updateClient a id = .ok (r', s3)) (h5 : down a addr f r r' c1 = some c3) :
    roundEv a addr me id f d (c, s) = some ((c3, s3), [r, r']) := by
  simp only [roundEv, h1, h2, h3, h4, h5, Option.map_some]

/-! ### the steady-state invariant -/

/-- `elapsed` nanoseconds of silence do not exceed the token's timeout (`timeout_seconds ≤ 0`: no time-out at all) -/
def Within (tmo : Int) (elapsed : Nat) : Prop := tmo ≤ 0 ∨ elapsed ≤ fromSecs tmo.toNat

instance (tmo : Int) (elapsed : Nat) : Decidable (Within tmo elapsed) := by unfold Within; infer_instance

/-- **Both ends of the session of token `t` are up and in step.**  `c0` fixes what never changes on the client
    (connect token, send rate); `addr` is where the server sees the client, `me` the server's address.
    * client: `Connected`, talking to `me`, token keys = the keys sealed in `t`, protocol id = the server's, timers
      not in the future, it heard the server at most `ec` ago, `N` more packets fit its sequence number;
    * server: `ServerInv`, a slot holds the session with the token's identity (`identT`), it heard the client at most
      `es` ago, `N` more packets fit the session's sequence number;
    * the two replay windows are open above the peer's next sequence number. -/
structure Steady (a : AEAD) (addr me : Addr) (t : PrivateConnectToken) (expire : Nat) (c0 : NetcodeClient)
    (ec es N : Nat) (c : NetcodeClient) (s : NetcodeServer) : Prop where
  cst : c.state = .connected
  inv : ServerInv s
  tok : c.connectToken = c0.connectToken
  rate : c.sendRate = c0.sendRate
  srv : c.serverAddr = me
  pid : c0.connectToken.protocolId = s.protocolId
  c2s : c0.connectToken.clientToServerKey = t.clientToServerKey
  s2c : c0.connectToken.serverToClientKey = t.serverToClientKey
  sendLe : ∀ tm, c.lastPacketSendTime = some tm → tm ≤ c.currentTime
  recvLe : c.lastPacketReceivedTime ≤ c.currentTime
  heard : c.currentTime ≤ c.lastPacketReceivedTime + ec
  cseq : c.sequence + N < U64_MAX
  sess : ∃ i cn, At s.clients i cn ∧ ident cn = identT addr expire t ∧
    (∀ k, c.sequence ≤ k → cn.replayProtection.alreadyReceived k = false) ∧
    (∀ k, cn.sequence ≤ k → c.replayProtection.alreadyReceived k = false) ∧
    s.currentTime ≤ cn.lastPacketReceivedTime + es ∧ cn.sequence + N < U64_MAX

section SteadyS
variable {a : AEAD} {addr me : Addr} {t : PrivateConnectToken} {expire : Nat} {c0 : NetcodeClient}

theorem Steady.established {ec es N : Nat} {c : NetcodeClient} {s : NetcodeServer}
    (h : Steady a addr me t expire c0 ec es N c s) : Established addr t expire c s := by
  obtain ⟨i, cn, h1, h2, _⟩ := h.sess
  exact ⟨h.cst, h.inv, i, cn, h1, h2⟩

theorem Steady.weaken {ec es N ec' es' N' : Nat} {c : NetcodeClient} {s : NetcodeServer}
    (h : Steady a addr me t expire c0 ec es N c s) (h1 : ec ≤ ec') (h2 : es ≤ es') (h3 : N' ≤ N) :
    Steady a addr me t expire c0 ec' es' N' c s := by
  obtain ⟨i, cn, e1, e2, e3, e4, e5, e6⟩ := h.sess
  exact ⟨h.cst, h.inv, h.tok, h.rate, h.srv, h.pid, h.c2s, h.s2c, h.sendLe, h.recvLe, by have := h.heard; omega,
    by have := h.cseq; omega, i, cn, e1, e2, e3, e4, by omega, by omega⟩

/-- **One round of at least the send rate on an established session**, whatever its fate.
    The client's `update(d)` passes the time-out test (`hcf`: it heard the server at most `ec` ago and `ec + d` is
    within its timeout) and, the gate being open (`hrc`), emits a keep-alive.  Unless the round is `upLost` the
    server's `process_packet` accepts it and refreshes the session; `update_client` then does not time the session
    out (refreshed just now, or `hsf`) and, its send timer being due (`hrs`), emits a keep-alive, which a `delivered`
    round hands to the client.  Both ends are still up; the silence counters are reset by what arrived. -/
theorem steady_round (hl : a.Laws) {c : NetcodeClient} {s : NetcodeServer} {ec es N d : Nat} {f : Fate}
    (h : Steady a addr me t expire c0 ec es (N + 1) c s)
    (hrc : c0.sendRate ≤ d) (hrs : C.NETCODE_SEND_RATE_NS ≤ d)
    (hcf : Within c0.connectToken.timeoutSeconds (ec + d))
    (hsf : f = .upLost → Within t.timeoutSeconds (es + d))
    (hcclk : c.currentTime + d + fromSecs c0.connectToken.timeoutSeconds.toNat ≤ DURATION_MAX)
    (hsclk : s.currentTime + d + fromSecs (2 ^ 31) ≤ DURATION_MAX) :
    ∃ c' s' ka, roundEv a addr me t.clientId f d (c, s) = some ((c', s'), [.none, .packetToSend addr ka]) ∧
      Steady a addr me t expire c0 (if f = .delivered then 0 else ec + d) (if f = .upLost then es + d else 0) N c' s' ∧
      c'.currentTime = c.currentTime + d ∧ s'.currentTime = s.currentTime + d := by
  have hU : U64_MAX = 2 ^ 64 - 1 := rfl
  obtain ⟨i, cn, hat, hid, hwu, hwd, hsh, hsq⟩ := h.sess
  obtain ⟨f1, f2, f3, f4, f5, f6, f7⟩ := identT_fields hid
  have hcs := h.cseq; have hheard := h.heard; have hrl := h.recvLe
  -- both clocks
  have hsu : s.update d = .ok (srvTick s d) := server_update_eq (by omega)
  have hinv1 : ServerInv (srvTick s d) := update_inv h.inv hsu
  have hat1 : At (srvTick s d).clients i cn := hat
  -- the client's keep-alive
  have hfr : CFreshFor c c.lastPacketReceivedTime d := by
    unfold CFreshFor
    rw [h.tok]
    rcases hcf with e | e
    · exact Or.inl e
    · exact Or.inr (by omega)
  have hcu := update_connected_sends a (c := c) (d := d) h.cst (by rw [h.tok]; exact hcclk) hrl hfr h.sendLe
    (gateOpen_of_rate (by rw [h.rate]; exact hrc) h.sendLe) (by omega)
  have hka : kaUp a c = Packet.sealedBytes a (.keepAlive 0 0) (srvTick s d).protocolId c.sequence cn.receiveKey := by
    unfold kaUp; rw [h.tok, h.pid, h.c2s, f5]
  rw [h.srv] at hcu
  -- the way up
  obtain ⟨s2, cn2, hup, hinv2, hat2, hid2, hsq2, hsend2, hw2, ht2, hp2, hr2⟩ : ∃ s2 cn2,
      up a addr me f (some (kaUp a c, me)) (srvTick s d) = some (.none, s2) ∧ ServerInv s2 ∧ At s2.clients i cn2 ∧
      ident cn2 = ident cn ∧ cn2.sequence = cn.sequence ∧ cn2.lastPacketSendTime = cn.lastPacketSendTime ∧
      (∀ k, c.sequence + 1 ≤ k → cn2.replayProtection.alreadyReceived k = false) ∧
      s2.currentTime = s.currentTime + d ∧ s2.protocolId = s.protocolId ∧
      s2.currentTime ≤ cn2.lastPacketReceivedTime + (if f = .upLost then es + d else 0) := by
    by_cases hf : f = .upLost
    · refine ⟨srvTick s d, cn, up_lost a addr me _ (Or.inl hf), hinv1, hat1, rfl, rfl, rfl,
        fun k hk => hwu k (by omega), rfl, rfl, ?_⟩
      rw [if_pos hf]
      show s.currentTime + d ≤ _
      omega
    · have hpp := pp_keepalive_up a hl (s := srvTick s d) (addr := addr) (seq := c.sequence) (ci := 0) (mc := 0)
        hinv1 hat1 f2 (by omega) (by decide) (by decide) (hwu _ (Nat.le_refl _))
      rw [← hka] at hpp
      refine ⟨_, _, up_arrives a addr me hf hpp, ppOut_inv hinv1 (pp_ok hinv1 hpp), at_set_self (at_lt hat1), rfl, rfl,
        rfl, fresh_above_advance hwu, rfl, rfl, ?_⟩
      rw [if_neg hf]
      exact Nat.le_refl _
  -- the server's tick: not timed out, keep-alive due
  have hidc2 : cn2.clientId = t.clientId := by rw [ident_id hid2]; exact f1
  have htm2 : cn2.timeoutSeconds = t.timeoutSeconds := by
    have := congrArg Ident.timeoutSeconds hid2
    simp only [ident] at this
    rw [this, f6]
  have hnt : ¬ TimedOut cn2 s2.currentTime := by
    rintro ⟨e1, e2⟩
    rw [htm2] at e1 e2
    by_cases hf : f = .upLost
    · rw [if_pos hf] at hr2
      rcases hsf hf with e | e <;> omega
    · rw [if_neg hf] at hr2; omega
  have hsend := (h.inv.slotsOK i cn hat).send
  have htick := NcLive2.updateClient_due a hinv2 hat2 hidc2 hnt (by rw [ht2]; exact hsclk) (by rw [hsq2]; omega)
    (by rw [hsend2, ht2]; omega)
  have had2 : cn2.addr = addr := by
    have := congrArg Ident.addr hid2
    simp only [ident] at this
    rw [this, f2]
  rw [had2] at htick
  have hinv3 := updateClient_inv hinv2 htick
  have hat3 : At (s2.clients.set i (some (sentKeepAlive cn2 s2.currentTime))) i (sentKeepAlive cn2 s2.currentTime) :=
    at_set_self (at_lt hat2)
  have hsk2 : cn2.sendKey = t.serverToClientKey := by
    have := congrArg Ident.sendKey hid2
    simp only [ident] at this
    rw [this, f4]
  -- the way down
  obtain ⟨c3, hdown, hc3⟩ : ∃ c3, down a addr f .none (.packetToSend addr (connectKeepAlive a s2 cn2 i)) (cliSent c d) =
      some c3 ∧ c3.state = .connected ∧ c3.connectToken = c.connectToken ∧ c3.sendRate = c.sendRate ∧
      c3.serverAddr = c.serverAddr ∧ c3.lastPacketSendTime = some (c.currentTime + d) ∧
      c3.currentTime = c.currentTime + d ∧ c3.sequence = c.sequence + 1 ∧
      (c3.lastPacketReceivedTime = c.lastPacketReceivedTime ∨ c3.lastPacketReceivedTime = c.currentTime + d) ∧
      c3.currentTime ≤ c3.lastPacketReceivedTime + (if f = .delivered then 0 else ec + d) ∧
      (∀ k, cn.sequence + 1 ≤ k → c3.replayProtection.alreadyReceived k = false) := by
    by_cases hf : f = .delivered
    · subst hf
      have hkd := pp_keepalive_down a hl (c := cliSent c d) (s := s2) (p := cn2) (i := i) h.cst
        (by show c.connectToken.serverToClientKey = _; rw [h.tok, h.s2c, hsk2])
        (by show c.connectToken.protocolId = _; rw [h.tok, h.pid, hp2]) (by rw [hsq2]; omega)
        (by rw [hsq2]; exact hwd _ (Nat.le_refl _))
      refine ⟨_, down_second a addr rfl (by simp [answerTo]) hkd, h.cst, rfl, rfl, rfl, rfl, rfl, rfl, Or.inr rfl, ?_, ?_⟩
      · simp only [if_true]; exact Nat.le_refl _
      · rw [hsq2]; exact fresh_above_advance hwd
    · refine ⟨cliSent c d, down_lossy a addr hf _ _ _, h.cst, rfl, rfl, rfl, rfl, rfl, rfl, Or.inl rfl, ?_,
        fun k hk => hwd k (by omega)⟩
      rw [if_neg hf]
      show c.currentTime + d ≤ c.lastPacketReceivedTime + (ec + d)
      omega
  obtain ⟨g1, g2, g3, g4, g5, g6, g7, g8, g9, g10⟩ := hc3
  refine ⟨c3, _, _, roundEv_intro hsu hcu hup htick hdown, ?_, g6, ht2⟩
  refine ⟨g1, hinv3, g2.trans h.tok, g3.trans h.rate, g4.trans h.srv, by rw [h.pid, ← hp2], h.c2s, h.s2c, ?_, ?_, g9,
    by rw [g7]; omega, i, _, hat3, hid2.trans hid, ?_, ?_, ?_, ?_⟩
  · intro tm e; rw [g5] at e; cases e; rw [g6]; exact Nat.le_refl _
  · rcases g8 with e | e <;> rw [e, g6] <;> omega
  · intro k hk; rw [g7] at hk; exact hw2 k hk
  · intro k hk
    exact g10 k (by rw [← hsq2]; exact hk)
  · exact hr2
  · show cn2.sequence + 1 + N < U64_MAX
    rw [hsq2]; omega

end SteadyS

/-! ### schedules -/

/-- **the condition on a schedule of rounds** for a session whose client heard the server `ec` ago and whose server
    heard the client `es` ago: every round is at least both send rates long (so each side's gate is open and a
    keep-alive goes out), the client's silence — reset by every `delivered` round — stays within the client's timeout
    `tc`, and whenever a round's datagram is lost on the way up the server's silence — reset by every round that is
    not `upLost` — stays within the server's timeout `ts`.  (A `downLost` round needs nothing of the server: it
    checks its timer in `update_client`, after the keep-alive of the same round arrived.) -/
def schedOKb (rate : Nat) (tc ts : Int) : Nat → Nat → List (Fate × Nat) → Bool
  | _, _, [] => true
  | ec, es, (f, d) :: rest =>
    decide (rate ≤ d) && decide (C.NETCODE_SEND_RATE_NS ≤ d) && decide (Within tc (ec + d)) &&
      decide (f = .upLost → Within ts (es + d)) &&
      schedOKb rate tc ts (if f = .delivered then 0 else ec + d) (if f = .upLost then es + d else 0) rest

def SchedOK (rate : Nat) (tc ts : Int) (ec es : Nat) (sched : List (Fate × Nat)) : Prop :=
  schedOKb rate tc ts ec es sched = true

instance (rate : Nat) (tc ts : Int) (ec es : Nat) (sched : List (Fate × Nat)) : Decidable (SchedOK rate tc ts ec es sched) := by
  unfold SchedOK; infer_instance

theorem schedOK_cons {rate : Nat} {tc ts : Int} {ec es d : Nat} {f : Fate} {rest : List (Fate × Nat)} :
    SchedOK rate tc ts ec es ((f, d) :: rest) ↔
      rate ≤ d ∧ C.NETCODE_SEND_RATE_NS ≤ d ∧ Within tc (ec + d) ∧ (f = .upLost → Within ts (es + d)) ∧
      SchedOK rate tc ts (if f = .delivered then 0 else ec + d) (if f = .upLost then es + d else 0) rest := by
  unfold SchedOK
  simp only [schedOKb, Bool.and_eq_true, decide_eq_true_eq, and_assoc]

/-- the two silence counters after a schedule -/
def silence : Nat → Nat → List (Fate × Nat) → Nat × Nat
  | ec, es, [] => (ec, es)
  | ec, es, (f, d) :: rest => silence (if f = .delivered then 0 else ec + d) (if f = .upLost then es + d else 0) rest

/-- every round of at least both send rates, all delivered, the first within the client's timeout counted from when
    it last heard the server, the others within the timeout: the schedule is fine -/
theorem schedOK_replicate {rate : Nat} {tc ts : Int} {d : Nat} (hr : rate ≤ d) (hs : C.NETCODE_SEND_RATE_NS ≤ d)
    (hd : Within tc d) : ∀ (n : Nat) {ec es : Nat}, Within tc (ec + d) →
    SchedOK rate tc ts ec es (List.replicate n (.delivered, d))
  | 0, _, _, _ => rfl
  | n + 1, ec, es, h => by
    rw [List.replicate_succ, schedOK_cons]
    refine ⟨hr, hs, h, fun e => (by cases e), ?_⟩
    simp only [if_true]
    exact schedOK_replicate hr hs hd n (by rw [Nat.zero_add]; exact hd)

/-- `SchedOK` is closed under prefixes -/
theorem schedOK_prefix {rate : Nat} {tc ts : Int} : ∀ {l1 l2 : List (Fate × Nat)} {ec es : Nat},
    SchedOK rate tc ts ec es (l1 ++ l2) → SchedOK rate tc ts ec es l1
  | [], _, _, _, _ => rfl
  | (f, d) :: l1, l2, ec, es, h => by
    rw [List.cons_append, schedOK_cons] at h
    rw [schedOK_cons]
    exact ⟨h.1, h.2.1, h.2.2.1, h.2.2.2.1, schedOK_prefix h.2.2.2.2⟩

theorem totalTime_replicate (f : Fate) (d : Nat) : ∀ n, totalTime (List.replicate n (f, d)) = n * d
  | 0 => by simp [totalTime]
  | n + 1 => by rw [List.replicate_succ, totalTime, totalTime_replicate f d n, Nat.succ_mul]; omega

section SteadyRun
variable {a : AEAD} {addr me : Addr} {t : PrivateConnectToken} {expire : Nat} {c0 : NetcodeClient}

/-- what the server may report in a steady round: nothing, or a keep-alive for the client -/
def Quiet (addr : Addr) (r : ServerResult) : Prop := r = .none ∨ ∃ ka, r = .packetToSend addr ka

/-- **any schedule satisfying `SchedOK` keeps the session up** -/
theorem steady_run (hl : a.Laws) : ∀ (sched : List (Fate × Nat)) {c : NetcodeClient} {s : NetcodeServer} {ec es N : Nat},
    Steady a addr me t expire c0 ec es (N + sched.length) c s →
    SchedOK c0.sendRate c0.connectToken.timeoutSeconds t.timeoutSeconds ec es sched →
    c.currentTime + totalTime sched + fromSecs c0.connectToken.timeoutSeconds.toNat ≤ DURATION_MAX →
    s.currentTime + totalTime sched + fromSecs (2 ^ 31) ≤ DURATION_MAX →
    ∃ c' s' evs, runRoundsEv a addr me t.clientId sched (c, s) = some ((c', s'), evs) ∧
      Steady a addr me t expire c0 (silence ec es sched).1 (silence ec es sched).2 N c' s' ∧
      c'.currentTime = c.currentTime + totalTime sched ∧ s'.currentTime = s.currentTime + totalTime sched ∧
      (∀ r ∈ evs, Quiet addr r) ∧ evs.length = 2 * sched.length
  | [], c, s, ec, es, N, h, _, _, _ => ⟨c, s, [], rfl, h, rfl, rfl, fun _ hr => (by cases hr), rfl⟩
  | (f, d) :: rest, c, s, ec, es, N, h, hok, hcc, hsc => by
    obtain ⟨h1, h2, h3, h4, h5⟩ := schedOK_cons.mp hok
    simp only [totalTime] at hcc hsc ⊢
    have h' : Steady a addr me t expire c0 ec es (N + rest.length + 1) c s := h
    obtain ⟨c1, s1, ka, hr, hst1, ht1, hs1⟩ := steady_round hl h' h1 h2 h3 h4 (by omega) (by omega)
    obtain ⟨c2, s2, evs, hr2, hst2, ht2, hs2, hq2, hl2⟩ := steady_run hl rest hst1 h5 (by rw [ht1]; omega) (by rw [hs1]; omega)
    refine ⟨c2, s2, [.none, .packetToSend addr ka] ++ evs, ?_, hst2, by rw [ht2, ht1]; omega, by rw [hs2, hs1]; omega, ?_, ?_⟩
    · simp only [runRoundsEv, hr, Option.bind_some, hr2, Option.map_some]
    · intro r hr'
      simp only [List.cons_append, List.nil_append, List.mem_cons] at hr'
      rcases hr' with rfl | rfl | hr'
      · exact Or.inl rfl
      · exact Or.inr ⟨ka, rfl⟩
      · exact hq2 r hr'
    · simp only [List.cons_append, List.nil_append, List.length_cons, hl2]; omega

end SteadyRun

/-! ### from `Established` -/

/-- what `session_stays_alive` needs of an established pair beyond `NcLive2.Established`: the client's token carries
    the keys sealed in `t` and the server's protocol id, it talks to this server, its timers are not in the future,
    and the two replay windows are open above the peer's next sequence number (true right after the handshake:
    `Steady` is what the handshake rounds establish, see `handshake_steady`) -/
structure Linked (me : Addr) (t : PrivateConnectToken) (c : NetcodeClient) (s : NetcodeServer) : Prop where
  pid : c.connectToken.protocolId = s.protocolId
  c2s : c.connectToken.clientToServerKey = t.clientToServerKey
  s2c : c.connectToken.serverToClientKey = t.serverToClientKey
  srv : c.serverAddr = me
  sendLe : ∀ tm, c.lastPacketSendTime = some tm → tm ≤ c.currentTime
  recvLe : c.lastPacketReceivedTime ≤ c.currentTime
  up : ∀ cn, findClientById s.clients t.clientId = some cn →
    ∀ k, c.sequence ≤ k → cn.replayProtection.alreadyReceived k = false
  down : ∀ cn, findClientById s.clients t.clientId = some cn →
    ∀ k, cn.sequence ≤ k → c.replayProtection.alreadyReceived k = false

theorem steady_of_established {a : AEAD} {addr me : Addr} {t : PrivateConnectToken} {expire : Nat} {c : NetcodeClient}
    {s : NetcodeServer} {ec es N : Nat} (hE : Established addr t expire c s) (hL : Linked me t c s)
    (hec : c.currentTime ≤ c.lastPacketReceivedTime + ec) (hcN : c.sequence + N < U64_MAX)
    (hsN : ∀ cn, findClientById s.clients t.clientId = some cn →
      cn.sequence + N < U64_MAX ∧ s.currentTime ≤ cn.lastPacketReceivedTime + es) :
    Steady a addr me t expire c ec es N c s := by
  obtain ⟨h1, h2, i, cn, h3, h4⟩ := hE
  have hf : findClientById s.clients t.clientId = some cn :=
    h2.slots.findById_iff.mpr ⟨(identT_fields h4).1, i, h3⟩
  exact ⟨h1, h2, rfl, rfl, hL.srv, hL.pid, hL.c2s, hL.s2c, hL.sendLe, hL.recvLe, hec, hcN, i, cn, h3, h4, hL.up cn hf,
    hL.down cn hf, (hsN cn hf).2, (hsN cn hf).1⟩

theorem Steady.linked {a : AEAD} {addr me : Addr} {t : PrivateConnectToken} {expire : Nat} {c0 c : NetcodeClient}
    {s : NetcodeServer} {ec es N : Nat} (h : Steady a addr me t expire c0 ec es N c s) : Linked me t c s := by
  obtain ⟨i, cn, h3, h4, h5, h6, _⟩ := h.sess
  have hf : findClientById s.clients t.clientId = some cn :=
    h.inv.slots.findById_iff.mpr ⟨(identT_fields h4).1, i, h3⟩
  refine ⟨by rw [h.tok]; exact h.pid, by rw [h.tok]; exact h.c2s, by rw [h.tok]; exact h.s2c, h.srv, h.sendLe, h.recvLe,
    ?_, ?_⟩
  · intro cn' e; rw [hf] at e; cases e; exact h5
  · intro cn' e; rw [hf] at e; cases e; exact h6

/-! ### the handshake rounds establish `Steady` -/

section Handshake
variable {a : AEAD} {s0 : NetcodeServer} {addr me : Addr} {t : PrivateConnectToken} {expire : Nat} {xnonce : Bytes}

theorem Steady.rebase {c0 c0' : NetcodeClient} {ec es N : Nat} {c : NetcodeClient} {s : NetcodeServer}
    (h : Steady a addr me t expire c0 ec es N c s) (h1 : c0.connectToken = c0'.connectToken)
    (h2 : c0.sendRate = c0'.sendRate) : Steady a addr me t expire c0' ec es N c s :=
  ⟨h.cst, h.inv, h.tok.trans h1, h.rate.trans h2, h.srv, by rw [← h1]; exact h.pid, by rw [← h1]; exact h.c2s,
    by rw [← h1]; exact h.s2c, h.sendLe, h.recvLe, h.heard, h.cseq, h.sess⟩

/-- `NcLive2.round_req_delivered`, exposing the half-open session the server created (fresh replay window) -/
theorem round_req_delivered_pending (hT : TokOK a s0 t expire xnonce) {c : NetcodeClient} {s : NetcodeServer} {T N d : Nat}
    (hc : CliReq a s0 t expire xnonce c) (hs : SrvOpen a s0 addr t expire xnonce s)
    (hb : Budget t expire c s T (N + 1)) (hd : d ≤ T) (hme : c.serverAddr = me) (hg : GateOpen c d) :
    ∃ c' s', round a addr me t.clientId .delivered d (c, s) = some (c', s') ∧ CliResp a s0 t expire xnonce c' ∧
      SrvOpen a s0 addr t expire xnonce s' ∧
      pendingFind s'.pendingClients addr = some (mkPending (s.currentTime + d) addr expire t) ∧
      Budget t expire c' s' (T - d) N ∧ c'.lastPacketSendTime = none ∧ c'.serverAddr = me ∧
      c'.sendRate = c.sendRate ∧ c'.connectToken = c.connectToken ∧ c'.currentTime = c.currentTime + d ∧
      s'.currentTime = s.currentTime + d := by
  have hU : U64_MAX = 2 ^ 64 - 1 := rfl
  have e1 := hb.sclock; have e2 := hb.sexp; have e4 := hb.cseq; have e5 := hb.gseq; have e6 := hb.chseq
  have hcu := update_sends_request a hT.laws hc.tok hT.wf hT.xn hc.st hb.cb hd (by omega) hc.sendLe hg
  rw [hme] at hcu
  have hc1 : CliReq a s0 t expire xnonce (cliSent c d) :=
    ⟨hc.st, hc.tok, fun tm e => by simp only [Option.some.injEq] at e; subst e; exact Nat.le_refl _, hc.rp⟩
  obtain ⟨hsu, hs1, _⟩ := srv_idle_round hs (d := d) (by omega)
  obtain ⟨s2, hpp, hs2, hpf, hcs, hgs, htm⟩ := hs1.request hT (by show s.globalSequence < _; omega)
    (by show s.challengeSequence < _; omega) (Nat.lt_of_le_of_lt (asSecs_mono (by show s.currentTime + d ≤ s.currentTime + T; omega)) e2)
  have hchal := progress_challenge a hT.laws (c := cliSent c d) (s := srvTick s d) (t := t) hc1.st hc1.tok.s2c
    (hc1.tok.pid.trans hs.cfg.protocolId.symm) (by show s.globalSequence < 2 ^ 64; omega)
    (by show s.challengeSequence + 1 < 2 ^ 64; omega) hT.wf.userData
  have hcb : CBudget (clientChallenged a (srvTick s d) t (cliSent c d)) (T - d) :=
    hb.cb.step hd rfl rfl rfl (Or.inr rfl)
  refine ⟨_, s2, round_intro hsu hcu (up_arrives a addr me (by decide) hpp) hs2.idle
    (down_first a addr (by simp [answerTo]) rfl hchal), ?_, hs2, hpf, ?_, rfl, hme, rfl, rfl, rfl, htm⟩
  · exact ⟨rfl, hc1.tok, (fun tm e => by cases e), hc1.rp, by show s.challengeSequence + 1 < 2 ^ 64; omega,
      challengeToken_cfg a hs1.cfg _ _ _⟩
  · exact hb.step hd hcb htm (Nat.le_refl _) (by rw [hgs]; exact Nat.le_refl _) (by rw [hcs]; exact Nat.le_refl _)

/-- `NcLive2.round_resp_delivered`, with the full steady-state invariant as its conclusion -/
theorem round_resp_delivered_steady (hT : TokOK a s0 t expire xnonce) {c : NetcodeClient} {s : NetcodeServer} {T N d : Nat}
    {p : Connection} (hc : CliResp a s0 t expire xnonce c) (hs : SrvOpen a s0 addr t expire xnonce s)
    (hpf : pendingFind s.pendingClients addr = some p) (hpi : ident p = identT addr expire t)
    (hprp : ∀ k, p.replayProtection.alreadyReceived k = false)
    (hb : Budget t expire c s T (N + 1)) (hd : d ≤ T) (hme : c.serverAddr = me) (hg : GateOpen c d) :
    ∃ c' s', round a addr me t.clientId .delivered d (c, s) = some (c', s') ∧
      Steady a addr me t expire c 0 0 N c' s' ∧
      c'.currentTime = c.currentTime + d ∧ s'.currentTime = s.currentTime + d := by
  have hU : U64_MAX = 2 ^ 64 - 1 := rfl
  have htd : c.challengeTokenData.length = 300 := by
    rw [hc.td]; exact challengeToken_length a hT.laws s0 t.clientId hT.wf.userData _
  have e1 := hb.sclock; have e2 := hb.sexp; have e4 := hb.cseq; have e5 := hb.gseq; have e6 := hb.chseq
  have hcu := update_sends_response a hT.laws hc.st htd hb.cb hd (by omega) hc.sendLe hg
  rw [hme, responseBytes_eq hc] at hcu
  have hs1 := hs.tick (d := d) (by omega)
  obtain ⟨f1, f2, f3, f4, f5, f6, f7⟩ := identT_fields hpi
  have hexp : asSecs (s.currentTime + d) ≤ expire := Nat.le_of_lt (Nat.lt_of_le_of_lt (asSecs_mono (by omega)) e2)
  have hpf1 := pending_survives_tick (d := d) hpf (by rw [f7]; exact hexp)
  obtain ⟨i, hfree, hpp⟩ := hs1.connect hT hpf1 hpi (by show s.globalSequence < _; omega)
    (by show s.challengeSequence < _; omega) hc.cs (by show c.sequence < 2 ^ 64; omega)
  have hinv2 := ppOut_inv hs1.inv (pp_ok hs1.inv hpp)
  have hps : p.sequence = 0 := (hs1.inv.pend (addr, p) (NS.pendingFind_mem hpf1)).seq
  have hlt : i < (srvTick s d).clients.length := (List.getElem?_eq_some_iff.mp hfree).1
  have hat : At ((srvTick s d).clients.set i (some (promoted p p.replayProtection (srvTick s d).currentTime))) i
      (promoted p p.replayProtection (srvTick s d).currentTime) := at_set_self hlt
  have hq := updateClient_quiet a hinv2 hat f1 (no_spurious_timeout (Or.inr (Nat.le_add_right _ _)))
    (by show s.currentTime + d + _ ≤ _; omega) (by show p.sequence + 1 < U64_MAX; omega)
    (by show s.currentTime + d < s.currentTime + d + C.NETCODE_SEND_RATE_NS; have := send_rate_pos; omega)
  have hka := progress_keepalive a hT.laws (c := cliSent c d) (s := srvTick s d) (p := p) (i := i) hc.st
    (hc.tok.s2c.trans f4.symm) (hc.tok.pid.trans hs.cfg.protocolId.symm) (by rw [hps]; decide) (hc.rp _)
  have hsu : s.update d = .ok (srvTick s d) := server_update_eq (by omega)
  refine ⟨_, _, round_intro hsu hcu (up_arrives a addr me (by decide) hpp) hq
    (down_first a addr (by simp [answerTo]) rfl hka), ?_, rfl, rfl⟩
  refine ⟨rfl, hinv2, rfl, rfl, hme, hc.tok.pid.trans hs.cfg.protocolId.symm, hc.tok.c2s, hc.tok.s2c, ?_, Nat.le_refl _,
    Nat.le_refl _, by show c.sequence + 1 + N < U64_MAX; omega, i, _, hat, hpi, fun k _ => hprp k, ?_, Nat.le_refl _, ?_⟩
  · intro tm e
    simp only [Option.some.injEq] at e
    subst e
    exact Nat.le_refl _
  · exact fresh_above_advance (fun k _ => hc.rp k)
  · show p.sequence + 1 + N < U64_MAX; omega

/-- **the two handshake rounds of `C18T.handshake_through_update` end in the steady state**: silence counters 0 on
    both sides, `N` further packets fit both sequence numbers -/
theorem handshake_steady (hT : TokOK a s0 t expire xnonce) {c0 : NetcodeClient} {s : NetcodeServer} {d₁ d₂ N : Nat}
    (hc : CliReq a s0 t expire xnonce c0) (hsend : c0.lastPacketSendTime = none) (hme : c0.serverAddr = me)
    (hs : SrvOpen a s0 addr t expire xnonce s) (hb : Budget t expire c0 s (d₁ + d₂) (N + 2)) :
    ∃ c1 s1 c2 s2, round a addr me t.clientId .delivered d₁ (c0, s) = some (c1, s1) ∧
      round a addr me t.clientId .delivered d₂ (c1, s1) = some (c2, s2) ∧
      Steady a addr me t expire c0 0 0 N c2 s2 ∧
      c2.currentTime = c0.currentTime + d₁ + d₂ ∧ s2.currentTime = s.currentTime + d₁ + d₂ := by
  obtain ⟨c1, s1, hr1, hc1, hs1, hpf, hb1, hls1, hme1, hrate1, htok1, ht1, hst1⟩ :=
    round_req_delivered_pending (me := me) (N := N + 1) hT hc hs hb (Nat.le_add_right _ _) hme (gateOpen_of_none hsend)
  have e : d₁ + d₂ - d₁ = d₂ := by omega
  rw [e] at hb1
  obtain ⟨c2, s2, hr2, hst, ht2, hst2⟩ := round_resp_delivered_steady (me := me) (N := N) hT hc1 hs1 hpf rfl
    (fun k => rp_new_fresh k) hb1 (Nat.le_refl _) hme1 (gateOpen_of_none hls1)
  exact ⟨c1, s1, c2, s2, hr1, hr2, hst.rebase htok1 hrate1, by rw [ht2, ht1], by rw [hst2, hst1]⟩

end Handshake

/-! ## Part C : a time-out is reported exactly once -/

/-- no slot holds a session of client `id` -/
def NotConn (id : Nat) (cl : Slots) : Prop := ∀ i c, At cl i c → c.clientId ≠ id

theorem notConn_isClientConnected {s : NetcodeServer} {id : Nat} (h : NotConn id s.clients) :
    s.isClientConnected id = false := by
  cases hb : s.isClientConnected id with
  | false => rfl
  | true =>
    obtain ⟨i, c, hc, hid⟩ := isClientConnected_iff.mp hb
    exact absurd hid (h i c hc)

theorem notConn_updateClient (a : AEAD) {s : NetcodeServer} {id : Nat} (h : NotConn id s.clients) :
    s.updateClient a id = .ok (.none, s) :=
  updateClient_absent a (findSlot_none.mpr (findById_none.mpr h))

/-- **while `id` is not connected no operation reports `ClientDisconnected id`**, and `id` stays unconnected unless
    the operation reports `ClientConnected id` (a new handshake completed) -/
theorem step_notConn {a : AEAD} {s s' : NetcodeServer} {op : Op} {r : ServerResult} {id : Nat} (hi : ServerInv s)
    (hn : NotConn id s.clients) (h : step a s op = some (r, s')) :
    (∀ ad o, r ≠ .clientDisconnected id ad o) ∧
    ((∀ ad ud ka, r ≠ .clientConnected id ad ud ka) → NotConn id s'.clients) := by
  have same : sessions s'.clients = sessions s.clients → NotConn id s'.clients := by
    intro hs i c' hc'
    obtain ⟨c, hc, hident⟩ := at_sessions hs hc'
    rw [← ident_id hident]
    exact hn i c hc
  rcases step_table hi h with ht | ⟨rfl, n, hg⟩
  · cases r with
    | clientConnected id' ad ud ka =>
      refine ⟨fun _ _ e => (by cases e), fun hne => ?_⟩
      obtain ⟨i, c, _, hset, hid, _⟩ := ht
      intro j cj hj
      rw [hset] at hj
      rcases at_set_some hj with ⟨_, rfl⟩ | ⟨_, hj'⟩
      · rw [hid]
        intro e
        exact hne ad ud ka (by rw [e])
      · exact hn j cj hj'
    | clientDisconnected id' ad o =>
      obtain ⟨i, c, hc, hid, _, hset⟩ := ht
      refine ⟨?_, fun _ => ?_⟩
      · intro ad' o' e
        simp only [ServerResult.clientDisconnected.injEq] at e
        exact hn i c hc (by rw [hid, e.1])
      · intro j cj hj
        rw [hset] at hj
        exact hn j cj (at_set_none hj).1
    | none => exact ⟨fun _ _ e => (by cases e), fun _ => same ht⟩
    | packetToSend ad p => exact ⟨fun _ _ e => (by cases e), fun _ => same ht⟩
    | payload id' p => exact ⟨fun _ _ e => (by cases e), fun _ => same ht⟩
  · refine ⟨fun _ _ e => (by cases e), fun _ => ?_⟩
    intro j cj hj
    rw [hg] at hj
    exact hn j cj (at_append_none.mp hj)

/-- … along a whole trace -/
theorem run_notConn {a : AEAD} {id : Nat} : ∀ (ops : List Op) {s s' : NetcodeServer} {rs : List ServerResult},
    ServerInv s → NotConn id s.clients → runOps a s ops = some (rs, s') →
    (∀ ad ud ka, ServerResult.clientConnected id ad ud ka ∉ rs) →
    (∀ ad o, ServerResult.clientDisconnected id ad o ∉ rs) ∧ NotConn id s'.clients ∧ ServerInv s'
  | [], s, s', rs, hi, hn, hrun, _ => by
    simp only [runOps, Option.some.injEq, Prod.mk.injEq] at hrun
    obtain ⟨rfl, rfl⟩ := hrun
    exact ⟨fun _ _ h => (by cases h), hn, hi⟩
  | op :: rest, s, s', rs, hi, hn, hrun, hnc => by
    obtain ⟨r, s1, rs', hs, hr, rfl⟩ := runOps_cons hrun
    obtain ⟨h1, h2⟩ := step_notConn hi hn hs
    have hn1 := h2 fun ad ud ka e => hnc ad ud ka (by rw [e]; exact List.mem_cons_self)
    obtain ⟨h3, h4, h5⟩ := run_notConn rest (step_inv hi hs) hn1 hr
      (fun ad ud ka hm => hnc ad ud ka (List.mem_cons_of_mem _ hm))
    refine ⟨?_, h4, h5⟩
    intro ad o hm
    simp only [List.mem_cons] at hm
    rcases hm with e | hm
    · exact h1 ad o e.symm
    · exact h3 ad o hm

/-- after the slot of a session was freed its id is not connected -/
theorem notConn_dropped {s : NetcodeServer} {i : Nat} {c : Connection} (hi : ServerInv s) (hc : At s.clients i c) :
    NotConn c.clientId (s.clients.set i none) := by
  intro j cj hj
  obtain ⟨hj', hne⟩ := at_set_none hj
  intro e
  exact hne (hi.slots.ids i j c cj hc hj' e.symm)

end RenetVerif.NcLive3
