/-
  Netcode (renetcode) wire round trips, AEAD binding and nonce discipline: the lemmas behind
  Props/C16N.lean (netcode half of C16) and Props/C17.lean.

  Part A  little-endian codecs, cursor reader, bounded writer
  Part B  prefix byte / sequence bytes, `Packet.write`/`read`, exact form of `Packet.encode`, round trips
  Part C  tokens: address array, `ConnectToken`, `PrivateConnectToken`, `ChallengeToken`
  Part D  what `decode` hands to the AEAD (binding), truncation, tampering = forgery
  Part E  ghost seal log of the client, nonce discipline
  Part F  ghost seal log of the server, session / handshake nonce discipline
          (at the end: completeness of the server instrumentation, re-encoding of connect tokens)

  Everything lives in the namespace `RenetVerif.NcAead`, so that no name clashes with the other lemma files
  about the same model; nothing of the model is modified.
-/
import RenetVerif.Netcode.Client
import RenetVerif.Netcode.Server
namespace RenetVerif.NcAead
open RenetVerif RenetVerif.Netcode

/-! ## Part A : little-endian codecs, cursor reader, bounded writer -/

@[simp] theorem leBytes_length (n k : Nat) : (leBytes n k).length = k := by
  induction k generalizing n with
  | zero => rfl
  | succ k ih => simp [leBytes, ih]

theorem leVal_lt (b : Bytes) : leVal b < 256 ^ b.length := by
  induction b with
  | nil => simp [leVal]
  | cons x r ih =>
    have hx : x.toNat < 256 := x.toNat_lt
    simp only [leVal, List.length_cons, Nat.pow_succ]
    omega

theorem leVal_leBytes (n k : Nat) : leVal (leBytes n k) = n % 256 ^ k := by
  induction k generalizing n with
  | zero => simp [leBytes, leVal, Nat.mod_one]
  | succ k ih =>
    simp only [leBytes, leVal, ih, UInt8.toNat_ofNat']
    have : n % 256 % (2 ^ 7 * 2) = n % 256 := by omega
    rw [this, Nat.pow_succ, Nat.mul_comm (256 ^ k) 256, Nat.mod_mul]

theorem leVal_leBytes_of_lt {n k : Nat} (h : n < 256 ^ k) : leVal (leBytes n k) = n := by
  rw [leVal_leBytes, Nat.mod_eq_of_lt h]

/-- the decoder's integer is re-encoded to the very bytes it was read from -/
theorem leBytes_leVal (b : Bytes) : leBytes (leVal b) b.length = b := by
  induction b with
  | nil => rfl
  | cons x r ih =>
    have hx : x.toNat < 256 := x.toNat_lt
    simp only [leVal, List.length_cons, leBytes]
    have h1 : (x.toNat + 256 * leVal r) % 256 = x.toNat := by omega
    have h2 : (x.toNat + 256 * leVal r) / 256 = leVal r := by omega
    rw [h1, h2, ih]
    simp

theorem leBytes_inj {n m k : Nat} (hn : n < 256 ^ k) (hm : m < 256 ^ k) (h : leBytes n k = leBytes m k) : n = m := by
  have := congrArg leVal h
  rwa [leVal_leBytes_of_lt hn, leVal_leBytes_of_lt hm] at this

theorem leVal_inj {b c : Bytes} (hl : b.length = c.length) (h : leVal b = leVal c) : b = c := by
  rw [← leBytes_leVal b, ← leBytes_leVal c, h, hl]

theorem take_leBytes (n : Nat) {k m : Nat} (h : k ≤ m) : (leBytes n m).take k = leBytes n k := by
  induction k generalizing n m with
  | zero => simp [leBytes]
  | succ k ih =>
    cases m with
    | zero => omega
    | succ m => simp [leBytes, ih (n / 256) (Nat.le_of_succ_le_succ h)]

theorem readN_append (b r : Bytes) : readN b.length (b ++ r) = some (b, r) := by
  simp [readN]

theorem readN_append' {n : Nat} (b r : Bytes) (h : b.length = n) : readN n (b ++ r) = some (b, r) := by
  subst h; exact readN_append b r

theorem readN_some {n : Nat} {src b r : Bytes} (h : readN n src = some (b, r)) :
    n ≤ src.length ∧ b = src.take n ∧ r = src.drop n ∧ b.length = n ∧ src = b ++ r := by
  unfold readN at h
  split at h
  · cases h
  · cases h
    refine ⟨by omega, rfl, rfl, ?_, (List.take_append_drop n src).symm⟩
    simp [List.length_take]; omega

theorem readU_some {n : Nat} {src r : Bytes} {v : Nat} (h : readU n src = some (v, r)) :
    ∃ b, b.length = n ∧ src = b ++ r ∧ v = leVal b ∧ v < 256 ^ n := by
  unfold readU at h
  cases hr : readN n src with
  | none => rw [hr] at h; cases h
  | some p =>
    obtain ⟨b, r'⟩ := p
    rw [hr] at h; cases h
    obtain ⟨_, _, _, h4, h5⟩ := readN_some hr
    refine ⟨b, h4, h5, rfl, ?_⟩
    have := leVal_lt b; rw [h4] at this; exact this

theorem readU_leBytes {n k : Nat} (r : Bytes) (h : n < 256 ^ k) : readU k (leBytes n k ++ r) = some (n, r) := by
  unfold readU
  rw [readN_append' _ _ (leBytes_length n k)]
  simp [leVal_leBytes_of_lt h]

theorem readU8_leBytes {n : Nat} (r : Bytes) (h : n < 256) : readU8 (leBytes n 1 ++ r) = some (n, r) :=
  readU_leBytes r (by simpa using h)
theorem readU16_leBytes {n : Nat} (r : Bytes) (h : n < 65536) : readU16 (leBytes n 2 ++ r) = some (n, r) :=
  readU_leBytes r (by simpa using h)
theorem readU32_leBytes {n : Nat} (r : Bytes) (h : n < 2 ^ 32) : readU32 (leBytes n 4 ++ r) = some (n, r) :=
  readU_leBytes r (by simpa using h)
theorem readU64_leBytes {n : Nat} (r : Bytes) (h : n < 2 ^ 64) : readU64 (leBytes n 8 ++ r) = some (n, r) :=
  readU_leBytes r (by simpa using h)

/-- `i32` round trip through its little-endian bytes -/
theorem i32le_length (t : Int) : (i32le t).length = 4 := by simp [i32le]

theorem readI32_i32le {t : Int} (r : Bytes) (h1 : -(2 ^ 31 : Int) ≤ t) (h2 : t < 2 ^ 31) :
    readI32 (i32le t ++ r) = some (t, r) := by
  unfold readI32 i32le
  have hv : (t % (2 ^ 32 : Int)).toNat < 256 ^ 4 := by omega
  rw [readU_leBytes r hv]
  simp only [i32OfU32, Option.some.injEq, Prod.mk.injEq, and_true]
  split <;> omega

theorem io?_ok {α} {o : Option α} {x : α} (h : io? o = .ok x) : o = some x := by
  cases o with
  | none => simp [io?] at h
  | some y => simp only [io?, Res.ok.injEq] at h; rw [h]

theorem io?_ne_panic {α} (o : Option α) (m : String) : io? o ≠ .panic m := by
  cases o <;> simp [io?]

namespace Wr
theorem writeAll_eq (w : Netcode.Wr) (b : Bytes) :
    w.writeAll b = if w.out.length + b.length ≤ w.cap then some ⟨w.cap, w.out ++ b⟩ else none := rfl

theorem writeAll_append (w : Netcode.Wr) (b1 b2 : Bytes) :
    (w.writeAll b1 >>= fun w => w.writeAll b2) = w.writeAll (b1 ++ b2) := by
  simp only [writeAll_eq]
  by_cases h1 : w.out.length + b1.length ≤ w.cap
  · simp only [h1, if_true, Option.bind_eq_bind, Option.bind_some, List.length_append, List.append_assoc]
    by_cases h2 : w.out.length + b1.length + b2.length ≤ w.cap
    · have : w.out.length + (b1.length + b2.length) ≤ w.cap := by omega
      simp [h2, this]
    · have : ¬ w.out.length + (b1.length + b2.length) ≤ w.cap := by omega
      simp [h2, this]
  · have : ¬ w.out.length + (b1 ++ b2).length ≤ w.cap := by simp; omega
    simp only [h1, this, if_false]; rfl

theorem writeAll_nil (w : Netcode.Wr) (hw : w.out.length ≤ w.cap) : w.writeAll [] = some w := by
  simp [writeAll_eq, hw]
end Wr

namespace Packet
open Netcode.Packet

theorem sbr_go_bounds (s k : Nat) : 1 ≤ sequenceBytesRequired.go s k ∧ sequenceBytesRequired.go s k ≤ max 1 k := by
  induction k with
  | zero => simp [sequenceBytesRequired.go]
  | succ k ih =>
    unfold sequenceBytesRequired.go
    split
    · omega
    · omega

theorem lt_pow_of_digit_zero {s k : Nat} (h : s < 256 ^ (k + 1)) (hz : s / 256 ^ k % 256 = 0) : s < 256 ^ k := by
  have hd : s / 256 ^ k < 256 := by
    rw [Nat.div_lt_iff_lt_mul (Nat.pow_pos (by decide))]
    rw [Nat.pow_succ, Nat.mul_comm] at h; exact h
  have : s / 256 ^ k = 0 := by
    generalize s / 256 ^ k = d at hz hd; omega
  rcases Nat.div_eq_zero_iff.1 this with h' | h'
  · have := Nat.pow_pos (n := k) (show 0 < 256 by decide); omega
  · exact h'

theorem sbr_go_lt (s k : Nat) (h : s < 256 ^ k) : s < 256 ^ sequenceBytesRequired.go s k := by
  induction k with
  | zero => simp [sequenceBytesRequired.go] at *; omega
  | succ k ih =>
    unfold sequenceBytesRequired.go
    split
    · exact h
    · rename_i hz
      have hz : s / 256 ^ k % 256 = 0 := by simpa using hz
      exact ih (lt_pow_of_digit_zero h hz)

/-- minimality: more than one byte is announced only if the top announced byte is non-zero -/
theorem sbr_go_min (s k : Nat) (h : 1 < sequenceBytesRequired.go s k) :
    256 ^ (sequenceBytesRequired.go s k - 1) ≤ s := by
  induction k with
  | zero => simp [sequenceBytesRequired.go] at h
  | succ k ih =>
    unfold sequenceBytesRequired.go at h ⊢
    split
    · rename_i hz
      simp only [Nat.add_sub_cancel]
      have hp := Nat.pow_pos (n := k) (show 0 < 256 by decide)
      by_cases hlt : s < 256 ^ k
      · rw [Nat.div_eq_of_lt hlt] at hz; simp at hz
      · omega
    · rename_i hz
      rw [if_neg hz] at h
      exact ih h

theorem sbr_pos (s : Nat) : 1 ≤ sequenceBytesRequired s := (sbr_go_bounds s 8).1
theorem sbr_le (s : Nat) : sequenceBytesRequired s ≤ 8 := by
  have := (sbr_go_bounds s 8).2; unfold sequenceBytesRequired; omega
theorem sbr_lt {s : Nat} (h : s < 2 ^ 64) : s < 256 ^ sequenceBytesRequired s :=
  sbr_go_lt s 8 (by simpa using h)
theorem sbr_min {s : Nat} (h : 1 < sequenceBytesRequired s) : 256 ^ (sequenceBytesRequired s - 1) ≤ s :=
  sbr_go_min s 8 h

/-- the sequence bytes `write_sequence` emits -/
def seqBytes (seq : Nat) : Bytes := (leBytes seq 8).take (sequenceBytesRequired seq)

theorem seqBytes_eq (seq : Nat) : seqBytes seq = leBytes seq (sequenceBytesRequired seq) :=
  take_leBytes seq (sbr_le seq)

@[simp] theorem seqBytes_length (seq : Nat) : (seqBytes seq).length = sequenceBytesRequired seq := by
  rw [seqBytes_eq, leBytes_length]

theorem readSequence_leBytes {seq k : Nat} (rest : Bytes) (hk : k ≤ 8) (h : seq < 256 ^ k) :
    readSequence (leBytes seq k ++ rest) k = some (seq, rest) := by
  unfold readSequence
  rw [if_neg (by omega), readN_append' _ _ (leBytes_length seq k)]
  simp [leVal_leBytes_of_lt h]

theorem readSequence_seqBytes {seq : Nat} (rest : Bytes) (h : seq < 2 ^ 64) :
    readSequence (seqBytes seq ++ rest) (sequenceBytesRequired seq) = some (seq, rest) := by
  rw [seqBytes_eq]; exact readSequence_leBytes rest (sbr_le seq) (sbr_lt h)

theorem readSequence_zero (rest : Bytes) : readSequence rest 0 = some (0, rest) := by
  simp [readSequence, readN, leVal]

theorem readSequence_some {src body : Bytes} {len sq : Nat} (h : readSequence src len = some (sq, body)) :
    len ≤ 8 ∧ ∃ sb, sb.length = len ∧ src = sb ++ body ∧ sq = leVal sb := by
  unfold readSequence at h
  split at h
  · cases h
  · cases hn : readN len src with
    | none => rw [hn] at h; cases h
    | some p =>
      obtain ⟨b, r⟩ := p
      rw [hn] at h
      simp only [Option.some.injEq, Prod.mk.injEq] at h
      obtain ⟨_, _, _, h4, h5⟩ := readN_some hn
      obtain ⟨rfl, rfl⟩ := h
      exact ⟨by omega, b, h4, h5, rfl⟩

/-! ### prefix byte -/
theorem id_le (p : Netcode.Packet) : p.id ≤ 6 := by cases p <;> simp [Netcode.Packet.id, packetType, PacketType.toNat]

theorem fromU8_toNat (ty : PacketType) : PacketType.fromU8 ty.toNat = .ok ty := by cases ty <;> rfl

theorem fromU8_ok {v : Nat} {ty : PacketType} (h : PacketType.fromU8 v = .ok ty) : v = ty.toNat := by
  unfold PacketType.fromU8 at h
  split at h <;> cases h <;> rfl

theorem decodePrefix_encodePrefix (p : Netcode.Packet) (seq : Nat) :
    decodePrefix (encodePrefix p.id seq) = (p.id, sequenceBytesRequired seq) := by
  have h1 := id_le p
  have h2 := sbr_le seq
  simp only [decodePrefix, encodePrefix, UInt8.toNat_ofNat', Prod.mk.injEq]
  omega

/-! ### `Packet.write` / `Packet.read` -/

/-- the bytes `Packet::write` produces -/
def body : Netcode.Packet → Bytes
  | .connectionRequest v pid e x d => v ++ (leBytes pid 8 ++ (leBytes e 8 ++ (x ++ d)))
  | .challenge s d | .response s d => leBytes s 8 ++ d
  | .keepAlive i m => leBytes i 4 ++ leBytes m 4
  | .payload b => b
  | .connectionDenied | .disconnect => []

theorem write_eq (p : Netcode.Packet) (w : Netcode.Wr) (hw : w.out.length ≤ w.cap) : p.write w = w.writeAll (body p) := by
  cases p <;> simp only [write, body, Wr.writeAll_append]
  all_goals (simp [Wr.writeAll_eq, hw])

/-- `Packet::read` inverts `Packet::write` on well-formed packets (trailing bytes are ignored for every kind
    but the payload, whose body is the whole rest) -/
theorem read_body (p : Netcode.Packet) (h : p.WF) (rest : Bytes) (hr : p.packetType = .payload → rest = []) :
    Netcode.Packet.read p.packetType (body p ++ rest) = .ok p := by
  cases p with
  | payload b => simp [packetType] at hr; subst hr; simp [Netcode.Packet.read, packetType, body]
  | connectionDenied => rfl
  | disconnect => rfl
  | keepAlive i m =>
    obtain ⟨h1, h2⟩ := h
    simp only [Netcode.Packet.read, packetType, body, List.append_assoc]
    simp [readU32_leBytes _ h1, readU32_leBytes _ h2, io?]
  | challenge s d =>
    obtain ⟨h1, h2⟩ := h
    simp only [Netcode.Packet.read, packetType, body, List.append_assoc]
    simp [readU64_leBytes _ h1, readN_append' d rest h2, io?]
  | response s d =>
    obtain ⟨h1, h2⟩ := h
    simp only [Netcode.Packet.read, packetType, body, List.append_assoc]
    simp [readU64_leBytes _ h1, readN_append' d rest h2, io?]
  | connectionRequest v pid e x d =>
    obtain ⟨h1, h2, h3, h4, h5⟩ := h
    simp only [Netcode.Packet.read, packetType, body, List.append_assoc]
    simp [readN_append' v _ h1, readU64_leBytes _ h2, readU64_leBytes _ h3, readN_append' x _ h4,
      readN_append' d rest h5, io?]


end Packet
namespace Packet
open Netcode.Packet

/-- the datagram `Packet::encode` produces for a sealed kind: prefix ‖ sequence bytes ‖ seal(body) -/
def sealedDatagram (a : AEAD) (p : Netcode.Packet) (proto seq : Nat) (key : Bytes) : Bytes :=
  encodePrefix p.id seq ::
    (seqBytes seq ++ a.seal key (nonce seq) (additionalData (encodePrefix p.id seq) proto) (body p))

theorem encode_nonreq (a : AEAD) (p : Netcode.Packet) (cap proto seq : Nat) (key : Bytes)
    (hp : p.packetType ≠ .connectionRequest) :
    p.encode a cap proto (some (seq, key)) =
      (do
        let pfx := encodePrefix p.id seq
        let w ← io? ((Netcode.Wr.new cap).writeAll [pfx])
        let (w, _) := writeSequence w seq
        let start := w.pos
        let w ← io? (p.write w)
        let «end» := w.pos
        if cap < «end» + C.NETCODE_MAC_BYTES then .err .ioError
        else
          let aad := additionalData pfx proto
          pure (w.out.take start ++ sealBody a key seq aad (w.out.drop start))) := by
  cases p <;> first | rfl | exact absurd rfl hp

/-- Exact form of `Packet::encode` for the six sealed kinds: it succeeds iff prefix, sequence bytes, body and
    tag fit into the buffer, and then returns `sealedDatagram`; a short write of the sequence bytes
    (which `write_sequence` does not report) always ends in `IoError`. -/
theorem encode_eq (a : AEAD) (p : Netcode.Packet) (cap proto seq : Nat) (key : Bytes)
    (hp : p.packetType ≠ .connectionRequest) :
    p.encode a cap proto (some (seq, key)) =
      if 1 + sequenceBytesRequired seq + (body p).length + 16 ≤ cap then .ok (sealedDatagram a p proto seq key)
      else .err .ioError := by
  rw [encode_nonreq a p cap proto seq key hp]
  have hs1 := sbr_pos seq
  by_cases h0 : cap = 0
  · subst h0; simp [Netcode.Wr.new, Wr.writeAll_eq, io?]
  · have hw1 : (Netcode.Wr.new cap).writeAll [encodePrefix p.id seq] = some ⟨cap, [encodePrefix p.id seq]⟩ := by
      simp [Netcode.Wr.new, Wr.writeAll_eq]; omega
    simp only [hw1, io?, Res.bind_ok, writeSequence, Netcode.Wr.write, ← seqBytes.eq_1, seqBytes_length,
      List.length_cons, List.length_nil, Netcode.Wr.pos]
    by_cases hfit : sequenceBytesRequired seq ≤ cap - 1
    · rw [Nat.min_eq_left hfit]
      have ht : (seqBytes seq).take (sequenceBytesRequired seq) = seqBytes seq := by
        rw [← seqBytes_length seq, List.take_length]
      simp only [ht]
      rw [write_eq _ _ (by simp; omega)]
      simp only [Wr.writeAll_eq, List.length_append, List.length_cons, List.length_nil, seqBytes_length]
      by_cases hb : 0 + 1 + sequenceBytesRequired seq + (body p).length ≤ cap
      · simp only [hb, if_true, Res.bind_ok, List.length_append, List.length_cons, List.length_nil, seqBytes_length]
        by_cases ht : 1 + sequenceBytesRequired seq + (body p).length + 16 ≤ cap
        · have : ¬ cap < 0 + 1 + sequenceBytesRequired seq + (body p).length + C.NETCODE_MAC_BYTES := by
            simp [C.NETCODE_MAC_BYTES, RenetVerif.C.NETCODE_MAC_BYTES]; omega
          simp only [this, ht, if_true, if_false, Res.pure_eq, sealedDatagram, sealBody]
          congr 1
          have e2 : 0 + 1 + sequenceBytesRequired seq = ([encodePrefix p.id seq] ++ seqBytes seq).length := by simp; omega
          rw [e2, List.take_left', List.drop_left']
          · simp
          · rfl
          · rfl
        · have : cap < 0 + 1 + sequenceBytesRequired seq + (body p).length + C.NETCODE_MAC_BYTES := by
            simp [C.NETCODE_MAC_BYTES, RenetVerif.C.NETCODE_MAC_BYTES]; omega
          simp only [this, ht, if_true, if_false]
      · have : ¬ 1 + sequenceBytesRequired seq + (body p).length + 16 ≤ cap := by omega
        simp only [hb, this, if_false]; rfl
    · -- short write of the sequence bytes: the cursor is at the end of the buffer
      have hmin : min (sequenceBytesRequired seq) (cap - 1) = cap - 1 := by omega
      rw [hmin]
      have hneg : ¬ 1 + sequenceBytesRequired seq + (body p).length + 16 ≤ cap := by omega
      rw [if_neg hneg]
      have hlen : ([encodePrefix p.id seq] ++ (seqBytes seq).take (cap - 1)).length = cap := by
        simp [List.length_take]; omega
      rw [write_eq _ _ (by simp only [hlen]; exact Nat.le_refl _)]
      simp only [Wr.writeAll_eq, hlen]
      by_cases hb : cap + (body p).length ≤ cap
      · simp only [hb, if_true, Res.bind_ok, List.length_append, hlen]
        have : cap < cap + (body p).length + C.NETCODE_MAC_BYTES := by
          simp [C.NETCODE_MAC_BYTES, RenetVerif.C.NETCODE_MAC_BYTES]; omega
        simp only [this, if_true]
      · simp only [hb, if_false]; rfl

/-- a connection request is written in the clear: type byte 0 (no sequence length) ‖ body -/
theorem encode_request_eq (a : AEAD) (v : Bytes) (pid e : Nat) (x d : Bytes) (cap proto : Nat) (crypto : Option (Nat × Bytes)) :
    (Netcode.Packet.connectionRequest v pid e x d).encode a cap proto crypto =
      if 1 + (body (.connectionRequest v pid e x d)).length ≤ cap then .ok (0 :: body (.connectionRequest v pid e x d))
      else .err .ioError := by
  simp only [Netcode.Packet.encode, Netcode.Packet.id, packetType, PacketType.toNat]
  by_cases h0 : cap = 0
  · subst h0; simp [Netcode.Wr.new, Wr.writeAll_eq, io?]
  · have hw1 : (Netcode.Wr.new cap).writeAll [UInt8.ofNat 0] = some ⟨cap, [0]⟩ := by
      simp [Netcode.Wr.new, Wr.writeAll_eq]; omega
    simp only [hw1, io?, Res.bind_ok]
    rw [write_eq _ _ (by simp; omega)]
    simp only [Wr.writeAll_eq, List.length_cons, List.length_nil]
    by_cases hb : 0 + 1 + (body (.connectionRequest v pid e x d)).length ≤ cap
    · have : 1 + (body (.connectionRequest v pid e x d)).length ≤ cap := by omega
      simp [hb]
    · have : ¬ 1 + (body (.connectionRequest v pid e x d)).length ≤ cap := by omega
      simp only [hb, if_false]; rfl

/-- what the replay window becomes when a protected packet is accepted -/
def rpAfter (rp : Option RP) (ty : PacketType) (sq : Nat) : Option RP :=
  match rp with
  | some w => if ty.applyReplayProtection then some (w.advance sq) else some w
  | none => none

/-- the duplicate test of `Packet.decode` -/
def dupCheck (rp : Option RP) (ty : PacketType) (sq : Nat) : Bool :=
  match rp with
  | some w => ty.applyReplayProtection && w.alreadyReceived sq
  | none => false

/-- `Packet.decode` with the prefix split and the two window computations named -/
theorem decode_eq (a : AEAD) (buffer : Bytes) (pid : Nat) (key : Option Bytes) (rp : Option RP) :
    Netcode.Packet.decode a buffer pid key rp =
    if buffer.length < 2 + C.NETCODE_MAC_BYTES then (.err .packetTooSmall, rp) else
    match buffer with
    | [] => (.panic "packet.rs decode: buffer[0]", rp)
    | pfx :: rest =>
      match PacketType.fromU8 (pfx.toNat % 16) with
      | .err e => (.err e, rp)
      | .panic s => (.panic s, rp)
      | .ok ty =>
        if ty = .connectionRequest then
          (do let p ← Netcode.Packet.read .connectionRequest rest; pure (0, p), rp)
        else match key with
        | none => (.err .unavailablePrivateKey, rp)
        | some key =>
          match readSequence rest (pfx.toNat / 16) with
          | none => (.err .ioError, rp)
          | some (sequence, body) =>
            if buffer.length < 1 + pfx.toNat / 16 + C.NETCODE_MAC_BYTES then (.err .packetTooSmall, rp) else
            if dupCheck rp ty sequence then (.err .duplicatedSequence, rp) else
            match openBody a key sequence (additionalData pfx pid) body with
            | .err e => (.err e, rp)
            | .panic s => (.panic s, rp)
            | .ok plain => (do let p ← Netcode.Packet.read ty plain; pure (sequence, p), rpAfter rp ty sequence) := by
  unfold Netcode.Packet.decode dupCheck rpAfter decodePrefix
  rfl

theorem id_eq (p : Netcode.Packet) : p.id = p.packetType.toNat := rfl

/-- `decode` on a datagram that is long enough, of a sealed kind and not a duplicate: everything is decided
    by one call of `open` on (key, nonce(sequence bytes), version‖protocol‖prefix, rest). -/
theorem decode_split (a : AEAD) (pfx : UInt8) (sb ct : Bytes) (ty : PacketType) (proto : Nat) (key : Bytes)
    (rp : Option RP) (hty : PacketType.fromU8 (pfx.toNat % 16) = .ok ty) (hreq : ty ≠ .connectionRequest)
    (hsb : sb.length = pfx.toNat / 16) (hsb8 : sb.length ≤ 8) (hct : 16 ≤ ct.length)
    (hlen : 17 ≤ sb.length + ct.length) (hdup : dupCheck rp ty (leVal sb) = false) :
    Netcode.Packet.decode a (pfx :: (sb ++ ct)) proto (some key) rp =
      match a.open key (nonce (leVal sb)) (additionalData pfx proto) ct with
      | none => (.err .cryptoError, rp)
      | some plain => (do let p ← Netcode.Packet.read ty plain; pure (leVal sb, p), rpAfter rp ty (leVal sb)) := by
  rw [decode_eq]
  rw [if_neg (by simp [C.NETCODE_MAC_BYTES, RenetVerif.C.NETCODE_MAC_BYTES]; omega)]
  have hrs : readSequence (sb ++ ct) (pfx.toNat / 16) = some (leVal sb, ct) := by
    unfold readSequence
    rw [if_neg (by omega), ← hsb, readN_append]
  simp only [hty, if_neg hreq, hrs]
  rw [if_neg (by simp [C.NETCODE_MAC_BYTES, RenetVerif.C.NETCODE_MAC_BYTES]; omega)]
  simp only [hdup, Bool.false_eq_true, if_false]
  unfold openBody
  rw [if_neg (by simp [C.NETCODE_MAC_BYTES, RenetVerif.C.NETCODE_MAC_BYTES]; omega)]
  cases a.open key (nonce (leVal sb)) (additionalData pfx proto) ct <;> rfl

theorem leVal_seqBytes {seq : Nat} (h : seq < 2 ^ 64) : leVal (seqBytes seq) = seq := by
  rw [seqBytes_eq, leVal_leBytes_of_lt (sbr_lt h)]

/-- Round trip of the six sealed kinds, with the replay window in the picture: the datagram `encode`
    produces is accepted by `decode` under the same key and protocol id, gives back the sequence and the
    packet, and advances the window exactly for the protected kinds — unless the window rejects the
    sequence as a duplicate. -/
theorem decode_sealedDatagram (a : AEAD) (hl : a.Laws) (p : Netcode.Packet) (proto seq : Nat) (key : Bytes)
    (hp : p.packetType ≠ .connectionRequest) (hwf : p.WF) (hseq : seq < 2 ^ 64) (rp : Option RP)
    (hdup : dupCheck rp p.packetType seq = false) :
    Netcode.Packet.decode a (sealedDatagram a p proto seq key) proto (some key) rp =
      (.ok (seq, p), rpAfter rp p.packetType seq) := by
  have hpfx := decodePrefix_encodePrefix p seq
  simp only [decodePrefix, Prod.mk.injEq] at hpfx
  unfold sealedDatagram
  rw [decode_split a _ _ _ p.packetType proto key rp (by rw [hpfx.1]; exact fromU8_toNat _) hp
    (by rw [hpfx.2, seqBytes_length]) (by rw [seqBytes_length]; exact sbr_le seq)
    (by rw [hl.seal_length]; omega) (by rw [hl.seal_length, seqBytes_length]; have := sbr_pos seq; omega)
    (by rw [leVal_seqBytes hseq]; exact hdup)]
  rw [leVal_seqBytes hseq, hl.open_seal]
  have hr := read_body p hwf [] (fun _ => rfl)
  rw [List.append_nil] at hr
  simp [hr]

/-- … and of the connection request (unencrypted, no sequence: the decoder reports sequence 0) -/
theorem decode_request (a : AEAD) (v : Bytes) (pid e : Nat) (x d : Bytes) (proto : Nat) (key : Option Bytes)
    (rp : Option RP) (hwf : (Netcode.Packet.connectionRequest v pid e x d).WF) :
    Netcode.Packet.decode a (0 :: body (.connectionRequest v pid e x d)) proto key rp =
      (.ok (0, .connectionRequest v pid e x d), rp) := by
  rw [decode_eq]
  obtain ⟨h1, h2, h3, h4, h5⟩ := hwf
  rw [if_neg (by simp [body, h1, h4, h5, C.NETCODE_MAC_BYTES, RenetVerif.C.NETCODE_MAC_BYTES,
    C.NETCODE_CONNECT_TOKEN_PRIVATE_BYTES, RenetVerif.C.NETCODE_CONNECT_TOKEN_PRIVATE_BYTES]; omega)]
  have hr := read_body (.connectionRequest v pid e x d) ⟨h1, h2, h3, h4, h5⟩ [] (by simp [packetType])
  rw [List.append_nil] at hr
  simp only [packetType] at hr
  simp [PacketType.fromU8, hr]

end Packet

namespace Packet
open Netcode.Packet

/-- Everything `Packet::read` returns is well-formed, of the requested kind, and its canonical body is a
    prefix of what was read (the whole of it for a payload). -/
theorem read_ok {ty : PacketType} {src : Bytes} {p : Netcode.Packet} (h : Netcode.Packet.read ty src = .ok p) :
    p.packetType = ty ∧ p.WF ∧ ∃ rest, src = body p ++ rest ∧ (ty = .payload → rest = []) := by
  unfold Netcode.Packet.read at h
  split at h
  · rename_i hty
    cases h; subst hty
    exact ⟨rfl, trivial, [], by simp [body], fun _ => rfl⟩
  · rename_i hne
    cases ty with
    | payload => exact absurd rfl hne
    | connectionDenied => cases h; exact ⟨rfl, trivial, src, rfl, fun hh => by cases hh⟩
    | disconnect => cases h; exact ⟨rfl, trivial, src, rfl, fun hh => by cases hh⟩
    | connectionRequest =>
      simp only at h
      have h := io?_ok h
      simp only [Option.bind_eq_bind, Option.bind_eq_some_iff, Option.pure_def, Option.some.injEq,
        Prod.exists] at h
      obtain ⟨v, r1, h1, pid, r2, h2, e, r3, h3, x, r4, h4, d, r5, h5, rfl⟩ := h
      obtain ⟨_, _, _, l1, e1⟩ := readN_some h1
      obtain ⟨b2, l2, e2, rfl, hlt2⟩ := readU_some h2
      obtain ⟨b3, l3, e3, rfl, hlt3⟩ := readU_some h3
      obtain ⟨_, _, _, l4, e4⟩ := readN_some h4
      obtain ⟨_, _, _, l5, e5⟩ := readN_some h5
      refine ⟨rfl, ⟨l1, by simpa using hlt2, by simpa using hlt3, l4, l5⟩, r5, ?_, fun hh => by cases hh⟩
      have q2 : leBytes (leVal b2) 8 = b2 := by rw [← l2]; exact leBytes_leVal b2
      have q3 : leBytes (leVal b3) 8 = b3 := by rw [← l3]; exact leBytes_leVal b3
      simp only [body]
      rw [e1, e2, e3, e4, e5, q2, q3]
      simp
    | challenge =>
      simp only at h
      have h := io?_ok h
      simp only [Option.bind_eq_bind, Option.bind_eq_some_iff, Option.pure_def, Option.some.injEq,
        Prod.exists] at h
      obtain ⟨s, r1, h1, d, r2, h2, rfl⟩ := h
      obtain ⟨b1, l1, e1, rfl, hlt1⟩ := readU_some h1
      obtain ⟨_, _, _, l2, e2⟩ := readN_some h2
      refine ⟨rfl, ⟨by simpa using hlt1, l2⟩, r2, ?_, fun hh => by cases hh⟩
      have q1 : leBytes (leVal b1) 8 = b1 := by rw [← l1]; exact leBytes_leVal b1
      simp only [body]
      rw [e1, e2, q1]; simp
    | response =>
      simp only at h
      have h := io?_ok h
      simp only [Option.bind_eq_bind, Option.bind_eq_some_iff, Option.pure_def, Option.some.injEq,
        Prod.exists] at h
      obtain ⟨s, r1, h1, d, r2, h2, rfl⟩ := h
      obtain ⟨b1, l1, e1, rfl, hlt1⟩ := readU_some h1
      obtain ⟨_, _, _, l2, e2⟩ := readN_some h2
      refine ⟨rfl, ⟨by simpa using hlt1, l2⟩, r2, ?_, fun hh => by cases hh⟩
      have q1 : leBytes (leVal b1) 8 = b1 := by rw [← l1]; exact leBytes_leVal b1
      simp only [body]
      rw [e1, e2, q1]; simp
    | keepAlive =>
      simp only at h
      have h := io?_ok h
      simp only [Option.bind_eq_bind, Option.bind_eq_some_iff, Option.pure_def, Option.some.injEq,
        Prod.exists] at h
      obtain ⟨i, r1, h1, m, r2, h2, rfl⟩ := h
      obtain ⟨b1, l1, e1, rfl, hlt1⟩ := readU_some h1
      obtain ⟨b2, l2, e2, rfl, hlt2⟩ := readU_some h2
      refine ⟨rfl, ⟨by simpa using hlt1, by simpa using hlt2⟩, r2, ?_, fun hh => by cases hh⟩
      have q1 : leBytes (leVal b1) 4 = b1 := by rw [← l1]; exact leBytes_leVal b1
      have q2 : leBytes (leVal b2) 4 = b2 := by rw [← l2]; exact leBytes_leVal b2
      simp only [body]
      rw [e1, e2, q1, q2]; simp

/-- Everything a successful `Packet::decode` tells.  Either the datagram is an (unsealed) connection request, or
    it splits as prefix ‖ sequence bytes ‖ ciphertext where the ciphertext opened under the given key with
    nonce = the datagram's own sequence bytes and AAD = version ‖ protocol id ‖ the datagram's own prefix byte. -/
theorem decode_ok {a : AEAD} {buffer : Bytes} {proto : Nat} {key : Option Bytes} {rp rp' : Option RP} {sq : Nat}
    {p : Netcode.Packet} (h : Netcode.Packet.decode a buffer proto key rp = (.ok (sq, p), rp')) :
    18 ≤ buffer.length ∧ ∃ pfx rest, buffer = pfx :: rest ∧
      ((PacketType.fromU8 (pfx.toNat % 16) = .ok .connectionRequest ∧ sq = 0 ∧ rp' = rp ∧
          Netcode.Packet.read .connectionRequest rest = .ok p) ∨
       (∃ ty k sb ct plain, PacketType.fromU8 (pfx.toNat % 16) = .ok ty ∧ ty ≠ .connectionRequest ∧ key = some k ∧
          rest = sb ++ ct ∧ sb.length = pfx.toNat / 16 ∧ sb.length ≤ 8 ∧ 16 ≤ ct.length ∧ sq = leVal sb ∧
          dupCheck rp ty sq = false ∧
          a.open k (nonce sq) (additionalData pfx proto) ct = some plain ∧
          Netcode.Packet.read ty plain = .ok p ∧ rp' = rpAfter rp ty sq)) := by
  rw [decode_eq] at h
  split at h
  · cases h
  · rename_i hlen
    refine ⟨by simp [C.NETCODE_MAC_BYTES, RenetVerif.C.NETCODE_MAC_BYTES] at hlen; omega, ?_⟩
    cases buffer with
    | nil => cases h
    | cons pfx rest =>
      refine ⟨pfx, rest, rfl, ?_⟩
      simp only at h
      cases hty : PacketType.fromU8 (pfx.toNat % 16) with
      | err e => rw [hty] at h; cases h
      | panic m => rw [hty] at h; cases h
      | ok ty =>
        rw [hty] at h
        simp only at h
        split at h
        · rename_i hreq
          subst hreq
          left
          simp only [Prod.mk.injEq] at h
          obtain ⟨h1, h2⟩ := h
          cases hr : Netcode.Packet.read .connectionRequest rest with
          | err e => rw [hr] at h1; cases h1
          | panic m => rw [hr] at h1; cases h1
          | ok q =>
            rw [hr] at h1
            simp only [Res.bind_ok, Res.pure_eq, Res.ok.injEq, Prod.mk.injEq] at h1
            obtain ⟨rfl, rfl⟩ := h1
            exact ⟨rfl, rfl, h2.symm, rfl⟩
        · rename_i hne
          right
          cases key with
          | none => cases h
          | some k =>
            simp only at h
            cases hs : readSequence rest (pfx.toNat / 16) with
            | none => rw [hs] at h; cases h
            | some sbq =>
              obtain ⟨sq0, ct⟩ := sbq
              rw [hs] at h
              simp only at h
              obtain ⟨hl8, sb, hsbl, hrest, hsq0⟩ := readSequence_some hs
              split at h
              · cases h
              · rename_i hl2
                split at h
                · cases h
                · rename_i hdup
                  have hct : 16 ≤ ct.length := by
                    simp only [hrest, List.length_cons, List.length_append, C.NETCODE_MAC_BYTES,
                      RenetVerif.C.NETCODE_MAC_BYTES] at hl2
                    omega
                  unfold openBody at h
                  rw [if_neg (by simp [C.NETCODE_MAC_BYTES, RenetVerif.C.NETCODE_MAC_BYTES]; omega)] at h
                  cases ho : a.open k (nonce sq0) (additionalData pfx proto) ct with
                  | none => rw [ho] at h; cases h
                  | some plain =>
                    rw [ho] at h
                    simp only [Prod.mk.injEq] at h
                    obtain ⟨h1, h2⟩ := h
                    cases hr : Netcode.Packet.read ty plain with
                    | err e => rw [hr] at h1; cases h1
                    | panic m => rw [hr] at h1; cases h1
                    | ok q =>
                      rw [hr] at h1
                      simp only [Res.bind_ok, Res.pure_eq, Res.ok.injEq, Prod.mk.injEq] at h1
                      obtain ⟨rfl, rfl⟩ := h1
                      refine ⟨ty, k, sb, ct, plain, rfl, hne, rfl, hrest, hsbl, by omega, hct, hsq0, ?_, ho, hr, h2.symm⟩
                      simpa using hdup

theorem leVal_lt_u64 {sb : Bytes} (h : sb.length ≤ 8) : leVal sb < 2 ^ 64 := by
  have h1 := leVal_lt sb
  have h2 : 256 ^ sb.length ≤ 256 ^ 8 := Nat.pow_le_pow_right (by decide) h
  have h3 : (256 : Nat) ^ 8 = 2 ^ 64 := by decide
  omega

/-- Decoder outputs are well-formed (every field has the width of its Rust type). -/
theorem decode_wf {a : AEAD} {buffer : Bytes} {proto : Nat} {key : Option Bytes} {rp rp' : Option RP} {sq : Nat}
    {p : Netcode.Packet} (h : Netcode.Packet.decode a buffer proto key rp = (.ok (sq, p), rp')) :
    p.WF ∧ sq < 2 ^ 64 := by
  obtain ⟨_, pfx, rest, _, h | h⟩ := decode_ok h
  · obtain ⟨_, rfl, _, hr⟩ := h
    exact ⟨(read_ok hr).2.1, by decide⟩
  · obtain ⟨ty, k, sb, ct, plain, _, _, _, _, _, h8, _, rfl, _, _, hr, _⟩ := h
    exact ⟨(read_ok hr).2.1, leVal_lt_u64 h8⟩

/-- Any datagram that decodes re-encodes (same sequence, key, protocol id; any buffer at least 8 bytes larger
    than the datagram: the canonical encoding may spend up to 8 sequence bytes where the datagram spent
    fewer) to bytes that decode to the same sequence and packet. -/
theorem decode_reencode {a : AEAD} (hl : a.Laws) {buffer : Bytes} {proto : Nat} {key : Option Bytes}
    {rp rp' : Option RP} {sq : Nat} {p : Netcode.Packet}
    (h : Netcode.Packet.decode a buffer proto key rp = (.ok (sq, p), rp')) (cap : Nat) (hcap : buffer.length + 8 ≤ cap) :
    ∃ bytes', p.encode a cap proto (key.map fun k => (sq, k)) = .ok bytes' ∧
      Netcode.Packet.decode a bytes' proto key none = (.ok (sq, p), none) := by
  obtain ⟨hwf, hsq⟩ := decode_wf h
  obtain ⟨_, pfx, rest, hbuf, h | h⟩ := decode_ok h
  · obtain ⟨_, rfl, _, hr⟩ := h
    obtain ⟨hty, _, rest', hrest, _⟩ := read_ok hr
    cases p with
    | connectionRequest v pid e x d =>
      refine ⟨0 :: body (.connectionRequest v pid e x d), ?_, decode_request a v pid e x d proto key none hwf⟩
      rw [encode_request_eq, if_pos]
      have : rest.length = (body (.connectionRequest v pid e x d)).length + rest'.length := by
        rw [hrest, List.length_append]
      simp only [hbuf, List.length_cons] at hcap
      omega
    | _ => simp [packetType] at hty
  · obtain ⟨ty, k, sb, ct, plain, _, hne, rfl, hrest, _, h8, _, rfl, _, ho, hr, _⟩ := h
    obtain ⟨hty, _, rest', hplain, _⟩ := read_ok hr
    subst hty
    refine ⟨sealedDatagram a p proto (leVal sb) k, ?_, ?_⟩
    · simp only [Option.map_some]
      rw [encode_eq a p cap proto (leVal sb) k hne, if_pos]
      have h1 := hl.open_length _ _ _ _ _ ho
      have h2 : plain.length = (body p).length + rest'.length := by rw [hplain, List.length_append]
      have h3 := sbr_le (leVal sb)
      simp only [hbuf, hrest, List.length_cons, List.length_append] at hcap
      omega
    · exact decode_sealedDatagram a hl p proto (leVal sb) k hne hwf hsq none rfl

end Packet

/-! ## Part C : tokens -/
namespace Token

/-- the bytes of one address entry: type byte ‖ ip ‖ port (LE) -/
def addrBytes : Addr → Bytes
  | .v4 ip port => leBytes C.NETCODE_ADDRESS_IPV4 1 ++ (ip ++ leBytes port 2)
  | .v6 ip port => leBytes C.NETCODE_ADDRESS_IPV6 1 ++ (ip ++ leBytes port 2)

def hostsBytes : List Addr → Bytes
  | [] => []
  | h :: rest => addrBytes h ++ hostsBytes rest

/-- the bytes `write_server_addresses` produces -/
def addrsBytes (addrs : AddrArray) : Bytes :=
  leBytes (addrs.filterMap fun x => x).length 4 ++ hostsBytes (addrs.filterMap fun x => x)

theorem Wr.writeAll_some_le {w w' : Netcode.Wr} {b : Bytes} (h : w.writeAll b = some w') : w'.out.length ≤ w'.cap := by
  rw [Wr.writeAll_eq] at h
  split at h
  · cases h; simpa using by assumption
  · cases h

theorem go_eq (hosts : List Addr) (w : Netcode.Wr) (hw : w.out.length ≤ w.cap) :
    writeServerAddresses.go w hosts = w.writeAll (hostsBytes hosts) := by
  induction hosts generalizing w with
  | nil => simp [writeServerAddresses.go, hostsBytes, Wr.writeAll_eq, hw]
  | cons h rest ih =>
    have hstep : writeServerAddresses.go w (h :: rest) =
        (w.writeAll (addrBytes h) >>= fun w' => writeServerAddresses.go w' rest) := by
      cases h <;>
        simp only [writeServerAddresses.go, addrBytes, Addr.port, ← Wr.writeAll_append, Option.bind_eq_bind,
          Option.bind_assoc]
    rw [hstep, hostsBytes, ← Wr.writeAll_append]
    cases hq : w.writeAll (addrBytes h) with
    | none => rfl
    | some w' =>
      simp only [Option.bind_eq_bind, Option.bind_some]
      exact ih w' (Wr.writeAll_some_le hq)

theorem writeServerAddresses_eq (addrs : AddrArray) (w : Netcode.Wr) :
    writeServerAddresses w addrs = w.writeAll (addrsBytes addrs) := by
  unfold addrsBytes
  rw [← Wr.writeAll_append]
  show (w.writeAll (leBytes (addrs.filterMap fun x => x).length 4) >>= fun w =>
    writeServerAddresses.go w (addrs.filterMap fun x => x)) = _
  cases hq : w.writeAll (leBytes (addrs.filterMap fun x => x).length 4) with
  | none => rfl
  | some w' =>
    simp only [Option.bind_eq_bind, Option.bind_some]
    exact go_eq _ w' (Wr.writeAll_some_le hq)

/-- reading back `n` address entries -/
theorem readAddrLoop_hostsBytes (hosts : List Addr) (hwf : ∀ x ∈ hosts, x.WF) (rest : Bytes) :
    readAddrLoop hosts.length (hostsBytes hosts ++ rest) = some (hosts.map some, rest) := by
  induction hosts with
  | nil => rfl
  | cons h tl ih =>
    have hh := hwf h (by simp)
    have ih := ih (fun x hx => hwf x (by simp [hx]))
    cases h with
    | v4 ip port =>
      obtain ⟨h1, h2⟩ := hh
      simp only [List.length_cons, readAddrLoop, hostsBytes, addrBytes, List.append_assoc]
      rw [readU8_leBytes _ (by decide)]
      simp only [Option.bind_eq_bind, Option.bind_some, if_true]
      rw [readN_append' ip _ h1]
      simp only [Option.bind_some]
      rw [readU16_leBytes _ h2]
      simp [ih]
    | v6 ip port =>
      obtain ⟨h1, h2⟩ := hh
      simp only [List.length_cons, readAddrLoop, hostsBytes, addrBytes, List.append_assoc]
      rw [readU8_leBytes _ (by decide)]
      simp only [Option.bind_eq_bind, Option.bind_some]
      rw [if_pos trivial]
      rw [readN_append' ip _ h1]
      simp only [Option.bind_some]
      rw [readU16_leBytes _ h2]
      have hne : C.NETCODE_ADDRESS_IPV6 ≠ C.NETCODE_ADDRESS_IPV4 := by decide
      simp [ih, hne]

/-- prefix-compact address array: `n ≥ 1` hosts in slots `0..n-1`, nothing behind them
    (the only shape `generate` builds; `write` does not record the positions of empty slots) -/
def Compact (addrs : AddrArray) : Prop :=
  ∃ hosts : List Addr, hosts ≠ [] ∧ hosts.length ≤ C.NETCODE_TOKEN_MAX_ADDRESSES ∧ (∀ x ∈ hosts, x.WF) ∧
    addrs = hosts.map some ++ List.replicate (C.NETCODE_TOKEN_MAX_ADDRESSES - hosts.length) none

theorem filterMap_compact (hosts : List Addr) (n : Nat) :
    (hosts.map some ++ List.replicate n (none : Option Addr)).filterMap (fun x => x) = hosts := by
  induction hosts with
  | nil => induction n with
    | zero => rfl
    | succ n ih => simp [List.replicate_succ]
  | cons h tl ih => simpa using ih

theorem readServerAddresses_addrsBytes {addrs : AddrArray} (h : Compact addrs) (rest : Bytes) :
    readServerAddresses (addrsBytes addrs ++ rest) = some (addrs, rest) := by
  obtain ⟨hosts, hne, hlen, hwf, rfl⟩ := h
  unfold readServerAddresses addrsBytes
  rw [filterMap_compact, List.append_assoc]
  have h32 : C.NETCODE_TOKEN_MAX_ADDRESSES = 32 := rfl
  rw [readU32_leBytes _ (by omega)]
  simp only [Option.bind_eq_bind, Option.bind_some]
  rw [Nat.min_eq_left hlen, readAddrLoop_hostsBytes hosts hwf]
  simp only [Option.bind_some, List.length_map]
  cases hosts with
  | nil => exact absurd rfl hne
  | cons h tl => rfl

theorem addrBytes_length {x : Addr} (h : x.WF) : (addrBytes x).length ≤ 19 := by
  cases x <;> obtain ⟨h1, _⟩ := h <;> simp [addrBytes, h1]

theorem hostsBytes_length (hosts : List Addr) (h : ∀ x ∈ hosts, x.WF) : (hostsBytes hosts).length ≤ 19 * hosts.length := by
  induction hosts with
  | nil => simp [hostsBytes]
  | cons x tl ih =>
    have := addrBytes_length (h x (by simp))
    have := ih (fun y hy => h y (by simp [hy]))
    simp only [hostsBytes, List.length_append, List.length_cons]; omega

theorem addrsBytes_length {addrs : AddrArray} (h : Compact addrs) : (addrsBytes addrs).length ≤ 612 := by
  obtain ⟨hosts, _, hlen, hwf, rfl⟩ := h
  have h32 : C.NETCODE_TOKEN_MAX_ADDRESSES = 32 := rfl
  have := hostsBytes_length hosts hwf
  simp only [addrsBytes, filterMap_compact, List.length_append, leBytes_length]; omega

/-- the bytes `ConnectToken::write` produces -/
def ctBytes (t : ConnectToken) : Bytes :=
  leBytes t.clientId 8 ++ (t.versionInfo ++ (leBytes t.protocolId 8 ++ (leBytes t.createTimestamp 8 ++
  (leBytes t.expireTimestamp 8 ++ (t.xnonce ++ (t.privateData ++ (i32le t.timeoutSeconds ++
  (addrsBytes t.serverAddresses ++ (t.clientToServerKey ++ t.serverToClientKey)))))))))

theorem ct_writeTo_eq (t : ConnectToken) (w : Netcode.Wr) : t.writeTo w = w.writeAll (ctBytes t) := by
  simp only [ConnectToken.writeTo, writeServerAddresses_eq, Wr.writeAll_append, ctBytes]

/-- What a connect token must satisfy to survive `write`/`read`: the field widths of its Rust type
    (`ConnectToken.WF` of the model), the library's version string (`read` rejects any other), and a
    prefix-compact, non-empty address array. -/
structure CTokenWF (t : ConnectToken) : Prop where
  base : t.WF
  version : t.versionInfo = C.NETCODE_VERSION_INFO
  compact : Compact t.serverAddresses

theorem ctBytes_length {t : ConnectToken} (h : CTokenWF t) : (ctBytes t).length ≤ ConnectToken.MAX_BYTES := by
  obtain ⟨⟨_, h2, _, _, _, h6, _, _, h9, h10, h11, _, _⟩, _, hc⟩ := h
  have := addrsBytes_length hc
  simp only [ctBytes, List.length_append, leBytes_length, h2, h6, h9, h10, h11, i32le_length,
    C.NETCODE_CONNECT_TOKEN_XNONCE_BYTES, RenetVerif.C.NETCODE_CONNECT_TOKEN_XNONCE_BYTES,
    C.NETCODE_CONNECT_TOKEN_PRIVATE_BYTES, RenetVerif.C.NETCODE_CONNECT_TOKEN_PRIVATE_BYTES,
    C.NETCODE_KEY_BYTES, RenetVerif.C.NETCODE_KEY_BYTES, ConnectToken.MAX_BYTES]
  omega

theorem ct_write_eq {t : ConnectToken} (h : CTokenWF t) : t.write = .ok (ctBytes t) := by
  have := ctBytes_length h
  unfold ConnectToken.write
  rw [ct_writeTo_eq, Wr.writeAll_eq, if_pos (by simp [Netcode.Wr.new]; omega)]
  simp [io?, Netcode.Wr.new]

theorem ct_read_bytes {t : ConnectToken} (h : CTokenWF t) (rest : Bytes) :
    ConnectToken.read (ctBytes t ++ rest) = .ok t := by
  obtain ⟨⟨h1, h2, h3, h4, h5, h6, _, _, h9, h10, h11, h12, h13⟩, hv, hc⟩ := h
  unfold ConnectToken.read ctBytes
  simp only [List.append_assoc]
  rw [readU64_leBytes _ h1]
  simp only [io?, Res.bind_ok]
  rw [readN_append' _ _ h2]
  simp only [Res.bind_ok, hv, ne_eq, not_true_eq_false, if_false]
  rw [readU64_leBytes _ h3]
  simp only [Res.bind_ok]
  rw [readU64_leBytes _ h4]
  simp only [Res.bind_ok]
  rw [readU64_leBytes _ h5]
  simp only [Res.bind_ok]
  rw [readN_append' _ _ h6]
  simp only [Res.bind_ok]
  rw [readN_append' _ _ h11]
  simp only [Res.bind_ok]
  rw [readI32_i32le _ h12 h13]
  simp only [Res.bind_ok]
  rw [readServerAddresses_addrsBytes hc]
  simp only [Res.bind_ok]
  rw [readN_append' _ _ h9]
  simp only [Res.bind_ok]
  rw [readN_append' _ _ h10]
  simp only [Res.bind_ok, Res.pure_eq, ← hv]

/-! ### private connect token -/

def ptBytes (t : PrivateConnectToken) : Bytes :=
  leBytes t.clientId 8 ++ (i32le t.timeoutSeconds ++ (addrsBytes t.serverAddresses ++
  (t.clientToServerKey ++ (t.serverToClientKey ++ t.userData))))

structure PTokenWF (t : PrivateConnectToken) : Prop where
  clientId : t.clientId < 2 ^ 64
  timeout_lo : -(2 ^ 31 : Int) ≤ t.timeoutSeconds
  timeout_hi : t.timeoutSeconds < 2 ^ 31
  compact : Compact t.serverAddresses
  c2s : t.clientToServerKey.length = 32
  s2c : t.serverToClientKey.length = 32
  userData : t.userData.length = 256

theorem pt_writeTo_eq (t : PrivateConnectToken) (w : Netcode.Wr) : t.writeTo w = w.writeAll (ptBytes t) := by
  simp only [PrivateConnectToken.writeTo, writeServerAddresses_eq, Wr.writeAll_append, ptBytes]

theorem ptBytes_length {t : PrivateConnectToken} (h : PTokenWF t) : (ptBytes t).length ≤ 944 := by
  have := addrsBytes_length h.compact
  simp only [ptBytes, List.length_append, leBytes_length, i32le_length, h.c2s, h.s2c, h.userData]
  omega

theorem pt_read_bytes {t : PrivateConnectToken} (h : PTokenWF t) (rest : Bytes) :
    PrivateConnectToken.read (ptBytes t ++ rest) = some t := by
  unfold PrivateConnectToken.read ptBytes
  simp only [List.append_assoc]
  rw [readU64_leBytes _ h.clientId]
  simp only [Option.bind_eq_bind, Option.bind_some]
  rw [readI32_i32le _ h.timeout_lo h.timeout_hi]
  simp only [Option.bind_some]
  rw [readServerAddresses_addrsBytes h.compact]
  simp only [Option.bind_some]
  rw [readN_append' _ _ h.c2s]
  simp only [Option.bind_some]
  rw [readN_append' _ _ h.s2c]
  simp only [Option.bind_some]
  rw [readN_append' _ _ h.userData]
  rfl

/-- zero-padded plaintext of a fixed-size sealed record: `take n (b ++ zeros)` -/
theorem take_pad (b : Bytes) (n m : Nat) (hb : b.length ≤ n) (hn : n ≤ m) :
    (b ++ List.replicate (m - b.length) (0 : UInt8)).take n = b ++ List.replicate (n - b.length) 0 := by
  rw [List.take_append, List.take_of_length_le hb, List.take_replicate]
  congr 2; omega

/-- the plaintext `PrivateConnectToken::encode` seals: the serialised token, zero-padded to 1008 bytes -/
def ptPlain (t : PrivateConnectToken) : Bytes := ptBytes t ++ List.replicate (1008 - (ptBytes t).length) 0

theorem pt_encode_eq (a : AEAD) {t : PrivateConnectToken} (h : PTokenWF t) (proto expire : Nat) (xnonce key : Bytes) :
    t.encode a proto expire xnonce key =
      .ok (a.xseal key xnonce (PrivateConnectToken.additionalData proto expire) (ptPlain t)) := by
  have hlen := ptBytes_length h
  unfold PrivateConnectToken.encode
  rw [pt_writeTo_eq, Wr.writeAll_eq,
    if_pos (by simp [Netcode.Wr.new, C.NETCODE_CONNECT_TOKEN_PRIVATE_BYTES, RenetVerif.C.NETCODE_CONNECT_TOKEN_PRIVATE_BYTES]; omega)]
  simp only [Netcode.Wr.new, List.nil_append, C.NETCODE_CONNECT_TOKEN_PRIVATE_BYTES,
    RenetVerif.C.NETCODE_CONNECT_TOKEN_PRIVATE_BYTES, C.NETCODE_MAC_BYTES, RenetVerif.C.NETCODE_MAC_BYTES]
  rw [take_pad _ 1008 1024 (by omega) (by omega)]
  rfl

/-- seal/open round trip of the private connect token -/
theorem pt_decode_encode (a : AEAD) (hl : a.Laws) {t : PrivateConnectToken} (h : PTokenWF t) (proto expire : Nat)
    (xnonce key : Bytes) :
    PrivateConnectToken.decode a (a.xseal key xnonce (PrivateConnectToken.additionalData proto expire) (ptPlain t))
      proto expire xnonce key = .ok t := by
  unfold PrivateConnectToken.decode
  rw [if_neg (by rw [hl.xseal_length]; simp [C.NETCODE_MAC_BYTES, RenetVerif.C.NETCODE_MAC_BYTES]), hl.xopen_xseal]
  simp only [ptPlain, List.append_assoc]
  rw [pt_read_bytes h]

theorem ptPlain_length {t : PrivateConnectToken} (h : PTokenWF t) : (ptPlain t).length = 1008 := by
  have := ptBytes_length h
  simp [ptPlain]; omega

/-! ### challenge token -/

def chPlain (clientId : Nat) (userData : Bytes) : Bytes :=
  (leBytes clientId 8 ++ userData) ++ List.replicate (284 - (leBytes clientId 8 ++ userData).length) 0

theorem ch_generate_eq (a : AEAD) (clientId : Nat) (userData : Bytes) (hud : userData.length = 256)
    (cseq : Nat) (ckey : Bytes) :
    ChallengeToken.generate a clientId userData cseq ckey =
      .ok (.challenge cseq (a.seal ckey (Netcode.Packet.nonce cseq) [] (chPlain clientId userData))) := by
  unfold ChallengeToken.generate
  have h300 : C.NETCODE_CHALLENGE_TOKEN_BYTES = 300 := rfl
  have h16 : C.NETCODE_MAC_BYTES = 16 := rfl
  rw [Wr.writeAll_eq, if_pos (by simp [Netcode.Wr.new, h300])]
  simp only [io?, Res.bind_ok]
  rw [Wr.writeAll_eq, if_pos (by simp [Netcode.Wr.new, h300, hud])]
  simp only [Res.bind_ok, Netcode.Wr.new, List.nil_append, h300, h16, Res.pure_eq, Netcode.Packet.sealBody]
  rw [take_pad _ 284 300 (by simp [hud]) (by omega)]
  rfl

theorem ch_decode_generate (a : AEAD) (hl : a.Laws) (clientId : Nat) (userData : Bytes) (hc : clientId < 2 ^ 64)
    (hud : userData.length = 256) (cseq : Nat) (ckey : Bytes) :
    ChallengeToken.decode a (a.seal ckey (Netcode.Packet.nonce cseq) [] (chPlain clientId userData)) cseq ckey =
      .ok ⟨clientId, userData⟩ := by
  unfold ChallengeToken.decode Netcode.Packet.openBody
  rw [if_neg (by rw [hl.seal_length]; simp [C.NETCODE_MAC_BYTES, RenetVerif.C.NETCODE_MAC_BYTES]), hl.open_seal]
  simp only [Res.bind_ok, chPlain, List.append_assoc]
  rw [readU64_leBytes _ hc]
  simp only [Option.bind_eq_bind, Option.bind_some]
  rw [readN_append' _ _ (show userData.length = C.NETCODE_USER_DATA_BYTES from hud)]
  rfl

end Token

namespace Token

/-! ### what `generate` builds is well-formed -/

theorem pt_generate_wf {clientId : Nat} {timeout : Int} {addrs : List Addr} {ud c2s s2c : Bytes}
    {t : PrivateConnectToken}
    (hg : PrivateConnectToken.generate clientId timeout addrs ud c2s s2c = .ok t)
    (hc : clientId < 2 ^ 64) (ht1 : -(2 ^ 31 : Int) ≤ timeout) (ht2 : timeout < 2 ^ 31)
    (ha : ∀ x ∈ addrs, x.WF) (hud : ud.length = 256) (hk1 : c2s.length = 32) (hk2 : s2c.length = 32) :
    PTokenWF t := by
  unfold PrivateConnectToken.generate at hg
  split at hg
  · cases hg
  · rename_i hlen
    split at hg
    · cases hg
    · rename_i hne
      cases hg
      refine ⟨hc, ht1, ht2, ⟨addrs, ?_, by omega, ha, rfl⟩, hk1, hk2, hud⟩
      intro h; subst h; simp at hne

theorem compact_length {addrs : AddrArray} (h : Compact addrs) : addrs.length = C.NETCODE_TOKEN_MAX_ADDRESSES := by
  obtain ⟨hosts, _, hlen, _, rfl⟩ := h
  simp; omega

theorem compact_wf {addrs : AddrArray} (h : Compact addrs) : ∀ a ∈ addrs, ∀ x, a = some x → x.WF := by
  obtain ⟨hosts, _, _, hwf, rfl⟩ := h
  intro a ha x hx
  subst hx
  simp only [List.mem_append, List.mem_map, List.mem_replicate] at ha
  rcases ha with ⟨y, hy, h⟩ | ⟨_, h⟩
  · cases h; exact hwf _ hy
  · cases h

theorem ct_generate_wf (a : AEAD) (hl : a.Laws) {now proto expireSecs clientId : Nat} {timeout : Int}
    {addrs : List Addr} {ud c2s s2c xnonce key : Bytes} {t : ConnectToken}
    (hg : ConnectToken.generate a now proto expireSecs clientId timeout addrs ud c2s s2c xnonce key = .ok t)
    (hp : proto < 2 ^ 64)
    (hc : clientId < 2 ^ 64) (ht1 : -(2 ^ 31 : Int) ≤ timeout) (ht2 : timeout < 2 ^ 31)
    (ha : ∀ x ∈ addrs, x.WF) (hud : ud.length = 256) (hk1 : c2s.length = 32) (hk2 : s2c.length = 32)
    (hx : xnonce.length = 24) :
    CTokenWF t := by
  unfold ConnectToken.generate at hg
  simp only at hg
  split at hg
  · cases hg
  · rename_i hexp
    cases hpg : PrivateConnectToken.generate clientId timeout addrs ud c2s s2c with
    | err e => rw [hpg] at hg; cases hg
    | panic m => rw [hpg] at hg; cases hg
    | ok pt =>
      rw [hpg] at hg
      have hpt := pt_generate_wf hpg hc ht1 ht2 ha hud hk1 hk2
      simp only [Res.bind_ok, pt_encode_eq a hpt, Res.pure_eq, Res.ok.injEq] at hg
      subst hg
      have hu : U64_MAX = 2 ^ 64 - 1 := rfl
      have hs : asSecs now ≤ asSecs now + expireSecs := Nat.le_add_right _ _
      refine ⟨⟨hc, rfl, hp, by dsimp only; omega, by dsimp only; omega, hx, compact_length hpt.compact, compact_wf hpt.compact, hk1, hk2, ?_,
        ht1, ht2⟩, rfl, hpt.compact⟩
      simp only
      rw [hl.xseal_length, ptPlain_length hpt]; rfl

/-! ### the write format does not record *which* slots are empty -/

/-- A token whose address array has a hole (slot 1 empty, slot 2 used) does not round-trip:
    `write_server_addresses` emits the two present addresses back to back and `read_server_addresses` puts
    them into slots 0 and 1.  (The library never builds such an array: `generate` fills a prefix, and — since the
    repair of D19 — `read` returns prefix-compact arrays only, `readServerAddresses_compact`.) -/
theorem hole_not_roundtrip :
    let a1 := Addr.v4 [127, 0, 0, 1] 5000
    let a2 := Addr.v6 (List.replicate 16 1) 6000
    let holed : AddrArray := [some a1, none, some a2] ++ List.replicate 29 none
    readServerAddresses (addrsBytes holed) = some ([some a1, some a2] ++ List.replicate 30 none, []) := by
  decide +kernel

end Token

/-! ## Part D : what reaches the AEAD -/
namespace Bind
open Netcode.Packet Packet

/-- The AEAD call `Packet::decode` makes for a datagram of a sealed kind, as a function of the datagram and
    the protocol id alone: (sequence read from the datagram's own sequence bytes, AAD, ciphertext ‖ tag).
    `none`: the prefix announces more sequence bytes than 8 or than there are. -/
def openInput (buf : Bytes) (proto : Nat) : Option (Nat × Bytes × Bytes) :=
  match buf with
  | [] => none
  | pfx :: rest =>
    if 8 < pfx.toNat / 16 ∨ rest.length < pfx.toNat / 16 then none
    else some (leVal (rest.take (pfx.toNat / 16)), additionalData pfx proto, rest.drop (pfx.toNat / 16))

theorem openInput_cons (pfx : UInt8) (sb ct : Bytes) (proto : Nat) (h1 : sb.length = pfx.toNat / 16) (h2 : sb.length ≤ 8) :
    openInput (pfx :: (sb ++ ct)) proto = some (leVal sb, additionalData pfx proto, ct) := by
  unfold openInput
  simp only
  rw [if_neg (by simp; omega), ← h1]
  simp

/-- **Binding.**  `decode` surfaces a packet of a sealed kind only through a successful `open` whose inputs
    cover every bit of the datagram — prefix byte → AAD, sequence bytes → nonce, all the rest → ciphertext ‖ tag
    — together with the key and the protocol id. -/
theorem decode_binds {a : AEAD} {buf : Bytes} {proto : Nat} {key : Bytes} {rp rp' : Option RP} {seq : Nat}
    {p : Netcode.Packet} (h : Netcode.Packet.decode a buf proto (some key) rp = (.ok (seq, p), rp'))
    (hp : p.packetType ≠ .connectionRequest) :
    ∃ pfx sb ct body, buf = pfx :: (sb ++ ct) ∧ sb.length = pfx.toNat / 16 ∧ sb.length ≤ 8 ∧ seq = leVal sb ∧
      16 ≤ ct.length ∧ PacketType.fromU8 (pfx.toNat % 16) = .ok p.packetType ∧
      openInput buf proto = some (seq, additionalData pfx proto, ct) ∧
      a.open key (nonce seq) (additionalData pfx proto) ct = some body ∧
      Netcode.Packet.read p.packetType body = .ok p := by
  obtain ⟨_, pfx, rest, hbuf, h | h⟩ := decode_ok h
  · obtain ⟨_, _, _, hr⟩ := h
    exact absurd (read_ok hr).1 hp
  · obtain ⟨ty, k, sb, ct, plain, hty, _, hk, hrest, hsb, h8, hct, hsq, _, ho, hr, _⟩ := h
    cases hk
    have := (read_ok hr).1
    subst this
    subst hrest hbuf hsq
    exact ⟨pfx, sb, ct, plain, rfl, hsb, h8, rfl, hct, hty, openInput_cons pfx sb ct proto hsb h8, ho, hr⟩

/-- contrapositive, per datagram: if the AEAD refuses the tuple computed from the datagram, `decode` returns
    no packet of a sealed kind, whatever the replay window -/
theorem decode_rejects_of_open_none {a : AEAD} {buf : Bytes} {proto : Nat} {key : Bytes} {s : Nat} {ad c : Bytes}
    (hi : openInput buf proto = some (s, ad, c)) (ho : a.open key (nonce s) ad c = none)
    (rp rp' : Option RP) (seq : Nat) (p : Netcode.Packet)
    (h : Netcode.Packet.decode a buf proto (some key) rp = (.ok (seq, p), rp')) :
    p.packetType = .connectionRequest := by
  apply Classical.byContradiction
  intro hp
  obtain ⟨pfx, sb, ct, body, _, _, _, _, _, _, hi', ho', _⟩ := decode_binds h hp
  rw [hi] at hi'
  cases hi'
  rw [ho] at ho'
  cases ho'

theorem nonce_inj {s s' : Nat} (h1 : s < 2 ^ 64) (h2 : s' < 2 ^ 64) (h : nonce s = nonce s') : s = s' := by
  unfold nonce at h
  exact leBytes_inj (by simpa using h1) (by simpa using h2) (List.append_cancel_left h)

theorem additionalData_inj {pfx pfx' : UInt8} {proto proto' : Nat} (h1 : proto < 2 ^ 64) (h2 : proto' < 2 ^ 64)
    (h : additionalData pfx proto = additionalData pfx' proto') : pfx = pfx' ∧ proto = proto' := by
  unfold additionalData at h
  rw [List.append_assoc, List.append_assoc] at h
  have h := List.append_cancel_left h
  obtain ⟨h3, h4⟩ := List.append_inj h (by simp)
  exact ⟨by simpa using h4, leBytes_inj (by simpa using h1) (by simpa using h2) h3⟩

theorem openInput_seq_lt {buf : Bytes} {proto s : Nat} {ad c : Bytes} (h : openInput buf proto = some (s, ad, c)) :
    s < 2 ^ 64 := by
  unfold openInput at h
  split at h
  · cases h
  · split at h
    · cases h
    · rename_i hn
      cases h
      apply leVal_lt_u64
      simp [List.length_take]; omega

/-- The map datagram ↦ (sequence, AAD, ciphertext) is injective, jointly with the protocol id: two different
    (datagram, protocol id) pairs never lead to the same AEAD call. -/
theorem openInput_inj {buf buf' : Bytes} {proto proto' : Nat} {x : Nat × Bytes × Bytes}
    (hp : proto < 2 ^ 64) (hp' : proto' < 2 ^ 64)
    (h : openInput buf proto = some x) (h' : openInput buf' proto' = some x) : buf = buf' ∧ proto = proto' := by
  unfold openInput at h h'
  cases buf with
  | nil => cases h
  | cons pfx rest =>
  cases buf' with
  | nil => cases h'
  | cons pfx' rest' =>
    simp only at h h'
    split at h
    · cases h
    · rename_i hn
      split at h'
      · cases h'
      · rename_i hn'
        cases h
        simp only [Option.some.injEq, Prod.mk.injEq] at h'
        obtain ⟨hv, had, hct⟩ := h'
        obtain ⟨rfl, rfl⟩ := additionalData_inj hp' hp had
        refine ⟨?_, rfl⟩
        congr 1
        have ht : rest'.take (pfx'.toNat / 16) = rest.take (pfx'.toNat / 16) :=
          leVal_inj (by simp [List.length_take]; omega) hv
        rw [← List.take_append_drop (pfx'.toNat / 16) rest, ← List.take_append_drop (pfx'.toNat / 16) rest', ht, hct]

end Bind

namespace Bind
open Netcode.Packet Packet

/-- the AEAD tuple (key, nonce, aad, ciphertext ‖ tag) behind a sealed datagram -/
def sealedTuple (a : AEAD) (p : Netcode.Packet) (proto seq : Nat) (key : Bytes) : Bytes × Bytes × Bytes × Bytes :=
  (key, nonce seq, additionalData (encodePrefix p.id seq) proto,
    a.seal key (nonce seq) (additionalData (encodePrefix p.id seq) proto) (body p))

theorem openInput_sealedDatagram (a : AEAD) (p : Netcode.Packet) (proto seq : Nat) (key : Bytes) (hseq : seq < 2 ^ 64) :
    openInput (sealedDatagram a p proto seq key) proto =
      some (seq, additionalData (encodePrefix p.id seq) proto,
        a.seal key (nonce seq) (additionalData (encodePrefix p.id seq) proto) (body p)) := by
  have hpfx := decodePrefix_encodePrefix p seq
  simp only [decodePrefix, Prod.mk.injEq] at hpfx
  unfold sealedDatagram
  rw [openInput_cons _ _ _ _ (by rw [hpfx.2, seqBytes_length]) (by rw [seqBytes_length]; exact sbr_le seq),
    leVal_seqBytes hseq]

/-- **Tampering is forgery.**  Let `D` be the datagram sealed for packet `p` (sequence `seq`, key `key`, protocol
    id `proto`).  If *any* triple (datagram, key, protocol id) other than (`D`, `key`, `proto`) — a bit flipped
    anywhere in `D`, `D` truncated or extended, another key, another protocol id — makes `decode` surface a
    packet of a sealed kind, then the AEAD has opened a tuple (key, nonce, aad, ciphertext) different from the
    one that was sealed: an AEAD forgery.  No property of the AEAD is assumed. -/
theorem tamper_is_forgery (a : AEAD) (p : Netcode.Packet) (proto seq : Nat) (key : Bytes)
    (hseq : seq < 2 ^ 64) (hproto : proto < 2 ^ 64)
    {buf' key' : Bytes} {proto' : Nat} (hproto' : proto' < 2 ^ 64)
    (hne : (buf', key', proto') ≠ (sealedDatagram a p proto seq key, key, proto))
    {rp rp' : Option RP} {seq' : Nat} {p' : Netcode.Packet}
    (h : Netcode.Packet.decode a buf' proto' (some key') rp = (.ok (seq', p'), rp'))
    (hp' : p'.packetType ≠ .connectionRequest) :
    ∃ n' ad' c' plain', a.open key' n' ad' c' = some plain' ∧ (key', n', ad', c') ≠ sealedTuple a p proto seq key := by
  obtain ⟨pfx, sb, ct, plain, _, _, h8, hsq, _, _, hi, ho, _⟩ := decode_binds h hp'
  refine ⟨nonce seq', additionalData pfx proto', ct, plain, ho, ?_⟩
  intro heq
  apply hne
  simp only [sealedTuple, Prod.mk.injEq] at heq
  obtain ⟨hk, hn, had, hc⟩ := heq
  have hs' : seq' < 2 ^ 64 := by rw [hsq]; exact leVal_lt_u64 h8
  have hs := nonce_inj hs' hseq hn
  subst hs
  have hi0 := openInput_sealedDatagram a p proto seq' key hseq
  rw [had, hc] at hi
  obtain ⟨hb, hpr⟩ := openInput_inj hproto' hproto hi hi0
  rw [hb, hk, hpr]

/-! ### truncation -/

theorem decode_short (a : AEAD) (buf : Bytes) (proto : Nat) (key : Option Bytes) (rp : Option RP)
    (h : buf.length < 18) : Netcode.Packet.decode a buf proto key rp = (.err .packetTooSmall, rp) := by
  rw [decode_eq, if_pos (by simp [C.NETCODE_MAC_BYTES, RenetVerif.C.NETCODE_MAC_BYTES]; omega)]

/-- A datagram of a sealed kind that is shorter than prefix + announced sequence bytes + tag is rejected
    before the AEAD is consulted (the result does not mention `a`): `PacketTooSmall`, or `IoError` when the
    prefix announces more than 8 sequence bytes. -/
theorem decode_truncated (a : AEAD) (pfx : UInt8) (rest : Bytes) (proto : Nat) (key : Bytes) (rp : Option RP)
    (ty : PacketType) (hty : PacketType.fromU8 (pfx.toNat % 16) = .ok ty) (hreq : ty ≠ .connectionRequest)
    (h : (pfx :: rest).length < 1 + pfx.toNat / 16 + 16) :
    Netcode.Packet.decode a (pfx :: rest) proto (some key) rp =
      (.err (if (pfx :: rest).length < 18 ∨ pfx.toNat / 16 ≤ 8 then .packetTooSmall else .ioError), rp) := by
  rw [decode_eq]
  by_cases h18 : (pfx :: rest).length < 18
  · rw [if_pos (by simp [C.NETCODE_MAC_BYTES, RenetVerif.C.NETCODE_MAC_BYTES] at *; omega), if_pos (Or.inl h18)]
  · rw [if_neg (by simp [C.NETCODE_MAC_BYTES, RenetVerif.C.NETCODE_MAC_BYTES] at *; omega)]
    simp only [hty, if_neg hreq]
    by_cases h8 : pfx.toNat / 16 ≤ 8
    · rw [if_pos (Or.inr h8)]
      cases hs : readSequence rest (pfx.toNat / 16) with
      | none =>
        exfalso
        unfold readSequence at hs
        rw [if_neg (by omega)] at hs
        cases hn : readN (pfx.toNat / 16) rest with
        | none =>
          unfold readN at hn
          split at hn
          · simp only [List.length_cons] at h18; omega
          · cases hn
        | some x => rw [hn] at hs; cases hs
      | some x =>
        simp only
        rw [if_pos (by simp [C.NETCODE_MAC_BYTES, RenetVerif.C.NETCODE_MAC_BYTES] at *; omega)]
    · have : ¬ ((pfx :: rest).length < 18 ∨ pfx.toNat / 16 ≤ 8) := by omega
      rw [if_neg this]
      have : readSequence rest (pfx.toNat / 16) = none := by
        unfold readSequence; rw [if_pos (by omega)]
      rw [this]

/-! ### tokens -/

/-- `PrivateConnectToken::decode` surfaces a token only through `xopen(connect key, xnonce,
    version ‖ protocol id ‖ expiry, the whole 1024-byte sealed part)`. -/
theorem pt_decode_binds {a : AEAD} {buf : Bytes} {proto expire : Nat} {xnonce key : Bytes} {t : PrivateConnectToken}
    (h : PrivateConnectToken.decode a buf proto expire xnonce key = .ok t) :
    16 ≤ buf.length ∧ ∃ plain, a.xopen key xnonce (PrivateConnectToken.additionalData proto expire) buf = some plain ∧
      PrivateConnectToken.read (plain ++ buf.drop plain.length) = some t := by
  unfold PrivateConnectToken.decode at h
  split at h
  · cases h
  · rename_i hl
    refine ⟨by simp [C.NETCODE_MAC_BYTES, RenetVerif.C.NETCODE_MAC_BYTES] at hl; omega, ?_⟩
    split at h
    · cases h
    · rename_i plain ho
      refine ⟨plain, ho, ?_⟩
      split at h
      · cases h
      · rename_i t' hr
        cases h; exact hr

theorem pt_decode_err_of_xopen_none {a : AEAD} {buf : Bytes} {proto expire : Nat} {xnonce key : Bytes}
    (hl : 16 ≤ buf.length) (ho : a.xopen key xnonce (PrivateConnectToken.additionalData proto expire) buf = none) :
    PrivateConnectToken.decode a buf proto expire xnonce key = .err .cryptoError := by
  unfold PrivateConnectToken.decode
  rw [if_neg (by simp [C.NETCODE_MAC_BYTES, RenetVerif.C.NETCODE_MAC_BYTES]; omega), ho]

/-- the token AAD determines protocol id and expiry -/
theorem pt_additionalData_inj {proto proto' e e' : Nat} (h1 : proto < 2 ^ 64) (h2 : proto' < 2 ^ 64)
    (h3 : e < 2 ^ 64) (h4 : e' < 2 ^ 64)
    (h : PrivateConnectToken.additionalData proto e = PrivateConnectToken.additionalData proto' e') :
    proto = proto' ∧ e = e' := by
  unfold PrivateConnectToken.additionalData at h
  rw [List.append_assoc, List.append_assoc] at h
  have h := List.append_cancel_left h
  obtain ⟨h5, h6⟩ := List.append_inj h (by simp)
  exact ⟨leBytes_inj (by simpa using h1) (by simpa using h2) h5, leBytes_inj (by simpa using h3) (by simpa using h4) h6⟩

/-- **Tampering with a token is forgery**: if any (sealed part, protocol id, expiry, xnonce, key) other than the
    one sealed decodes to a token, `xopen` accepted a tuple different from the sealed one. -/
theorem pt_tamper_is_forgery (a : AEAD) (plain : Bytes) (proto expire : Nat) (xnonce key : Bytes)
    (hp : proto < 2 ^ 64) (he : expire < 2 ^ 64)
    {buf' xnonce' key' : Bytes} {proto' expire' : Nat} (hp' : proto' < 2 ^ 64) (he' : expire' < 2 ^ 64)
    (hne : (buf', proto', expire', xnonce', key') ≠
      (a.xseal key xnonce (PrivateConnectToken.additionalData proto expire) plain, proto, expire, xnonce, key))
    {t : PrivateConnectToken} (h : PrivateConnectToken.decode a buf' proto' expire' xnonce' key' = .ok t) :
    ∃ ad' plain', a.xopen key' xnonce' ad' buf' = some plain' ∧
      (key', xnonce', ad', buf') ≠ (key, xnonce, PrivateConnectToken.additionalData proto expire,
        a.xseal key xnonce (PrivateConnectToken.additionalData proto expire) plain) := by
  obtain ⟨_, plain', ho, _⟩ := pt_decode_binds h
  refine ⟨_, plain', ho, ?_⟩
  intro heq
  apply hne
  simp only [Prod.mk.injEq] at heq
  obtain ⟨hk, hx, had, hb⟩ := heq
  obtain ⟨h1, h2⟩ := pt_additionalData_inj hp' hp he' he had
  rw [hk, hx, hb, h1, h2]

/-- `ChallengeToken::decode` surfaces a token only through `open(challenge key, nonce(token sequence), "",
    the whole 300-byte token data)`. -/
theorem ch_decode_binds {a : AEAD} {data : Bytes} {tseq : Nat} {ckey : Bytes} {t : ChallengeToken}
    (h : ChallengeToken.decode a data tseq ckey = .ok t) :
    16 ≤ data.length ∧ ∃ plain, a.open ckey (nonce tseq) [] data = some plain ∧
      (do let (cid, r) ← readU64 (plain ++ data.drop plain.length)
          let (ud, _) ← readN C.NETCODE_USER_DATA_BYTES r
          pure (⟨cid, ud⟩ : ChallengeToken)) = some t := by
  unfold ChallengeToken.decode openBody at h
  split at h
  · cases h
  · rename_i hl
    refine ⟨by simp [C.NETCODE_MAC_BYTES, RenetVerif.C.NETCODE_MAC_BYTES] at hl; omega, ?_⟩
    cases ho : a.open ckey (nonce tseq) [] data with
    | none => rw [ho] at h; cases h
    | some plain =>
      rw [ho] at h
      simp only [Res.bind_ok] at h
      exact ⟨plain, rfl, io?_ok h⟩

end Bind

namespace Bind
open Netcode.Packet Packet

/-! ### authenticity as a hypothesis on the instance -/

/-- Range authenticity: whatever opens under (k, n, ad) is a `seal` output under the same (k, n, ad).
    A hypothesis on an instance, never assumed globally. -/
def Auth (a : AEAD) : Prop := ∀ k n ad c, a.open k n ad c ≠ none → ∃ p, c = a.seal k n ad p

/-- Under `Auth`, every datagram that decodes to a packet of a sealed kind was produced by `seal` under the
    same key, the sequence its own sequence bytes spell, the protocol id and its own prefix byte. -/
theorem decode_authentic {a : AEAD} (hA : Auth a) {buf : Bytes} {proto : Nat} {key : Bytes} {rp rp' : Option RP}
    {seq : Nat} {p : Netcode.Packet} (h : Netcode.Packet.decode a buf proto (some key) rp = (.ok (seq, p), rp'))
    (hp : p.packetType ≠ .connectionRequest) :
    ∃ pfx sb plain, sb.length = pfx.toNat / 16 ∧ seq = leVal sb ∧
      buf = pfx :: (sb ++ a.seal key (nonce seq) (additionalData pfx proto) plain) := by
  obtain ⟨pfx, sb, ct, body, hb, hsb, _, hsq, _, _, _, ho, _⟩ := decode_binds h hp
  obtain ⟨plain, hc⟩ := hA key (nonce seq) (additionalData pfx proto) ct (by rw [ho]; simp)
  exact ⟨pfx, sb, plain, hsb, hsq, by rw [hb, hc]⟩

/-- `AEAD.toy` DOES satisfy `Auth` (its `seal` ignores key, nonce and AAD, so the range of `seal` is the same
    under all of them): `Auth` is satisfiable together with `Laws`, the theorems assuming it are not vacuous —
    but `Auth` alone says nothing about *which* key or protocol id a ciphertext was made for. -/
theorem toy_auth : Auth AEAD.toy := by
  intro k n ad c h
  refine ⟨c.take (c.length - 16), ?_⟩
  simp only [AEAD.toy] at h ⊢
  split at h
  · exact absurd rfl h
  · split at h
    · rename_i h1 h2
      rw [← h2, List.take_append_drop]
    · exact absurd rfl h

/-- Perfect authenticity relative to a finite seal log: only logged tuples open. -/
def NoForgery (a : AEAD) (L : List (Bytes × Bytes × Bytes × Bytes)) : Prop :=
  ∀ k n ad c, a.open k n ad c ≠ none → (k, n, ad, c) ∈ L

theorem le_sum_of_mem {l : List Nat} {x : Nat} (h : x ∈ l) : x ≤ l.sum := by
  induction l with
  | nil => cases h
  | cons y tl ih =>
    simp only [List.mem_cons] at h
    simp only [List.sum_cons]
    rcases h with rfl | h
    · omega
    · have := ih h; omega

/-- Honest remark, machine-checked: the functional laws and perfect authenticity w.r.t. a finite log exclude
    each other (`open (seal …)` succeeds for infinitely many keys).  So no theorem here assumes `NoForgery`
    of an instance that also satisfies `Laws`; tamper-evidence is stated as the reduction `tamper_is_forgery`
    and per datagram (`decode_rejects_of_open_none`). -/
theorem laws_not_noForgery {a : AEAD} (hl : a.Laws) (L : List (Bytes × Bytes × Bytes × Bytes)) : ¬ NoForgery a L := by
  intro h
  let m := (L.map fun t => t.1.length).sum + 1
  have hm := h (List.replicate m 0) [] [] (a.seal (List.replicate m 0) [] [] []) (by rw [hl.open_seal]; simp)
  have : m ∈ L.map fun t => t.1.length := by
    rw [List.mem_map]
    exact ⟨_, hm, by simp⟩
  have := le_sum_of_mem this
  omega

theorem toy_not_noForgery (L : List (Bytes × Bytes × Bytes × Bytes)) : ¬ NoForgery AEAD.toy L :=
  laws_not_noForgery AEAD.toy_laws L

/-- `AEAD.toy` opens under any key and protocol id: that a wrong key or protocol id is *rejected* is a property
    of the AEAD (its use of key and AAD), not of the packet code — the packet code's part is `decode_binds`:
    it passes the key, and the protocol id inside the AAD, to `open`. -/
theorem toy_opens_under_other_key :
    Netcode.Packet.decode AEAD.toy (sealedDatagram AEAD.toy (.keepAlive 3 8) 7 5 [1, 2, 3]) 8 (some [9]) none =
      (.ok (5, .keepAlive 3 8), none) := by
  decide +kernel

end Bind

namespace Bind
open Netcode.Packet Packet

/-- The server acts on a connection request only after the request's public fields passed the checks and its
    sealed part opened under (connect key, the request's xnonce, version ‖ the server's protocol id ‖ the
    request's expiry): protocol id and expiry are bound both by comparison / expiry test and as AAD. -/
theorem hcr_binds {a : AEAD} {s s' : NetcodeServer} {addr : Addr} {v : Bytes} {pid e : Nat} {x d : Bytes}
    {res : ServerResult}
    (h : NetcodeServer.handleConnectionRequest a s addr v pid e x d = .ok (res, s')) :
    v = C.NETCODE_VERSION_INFO ∧ pid = s.protocolId ∧ asSecs s.currentTime < e ∧
      ∃ t, PrivateConnectToken.decode a d s.protocolId e x s.connectKey = .ok t := by
  unfold NetcodeServer.handleConnectionRequest at h
  split at h
  · cases h
  · rename_i h1
    split at h
    · cases h
    · rename_i h2
      split at h
      · cases h
      · rename_i h3
        split at h
        · cases h
        · cases h
        · rename_i t ht
          exact ⟨by simpa using h1, by simpa using h2, by omega, t, ht⟩

/-- … and otherwise (with `hcr_binds`: the result is then `Err` or an unwinding) leaves its state untouched -/
theorem hcr_rejects {a : AEAD} {s s' : NetcodeServer} {addr : Addr} {v : Bytes} {pid e : Nat} {x d : Bytes}
    {err : NetcodeError}
    (hn : ¬ (v = C.NETCODE_VERSION_INFO ∧ pid = s.protocolId ∧ asSecs s.currentTime < e ∧
      ∃ t, PrivateConnectToken.decode a d s.protocolId e x s.connectKey = .ok t))
    (h : NetcodeServer.handleConnectionRequest a s addr v pid e x d = .err (err, s')) : s' = s := by
  unfold NetcodeServer.handleConnectionRequest at h
  split at h
  · cases h; rfl
  · rename_i h1
    split at h
    · cases h; rfl
    · rename_i h2
      split at h
      · cases h; rfl
      · rename_i h3
        split at h
        · cases h
        · cases h; rfl
        · rename_i t ht
          exact absurd ⟨by simpa using h1, by simpa using h2, by omega, t, ht⟩ hn

end Bind

theorem Res.bind_eq_ok {ε α β} {x : Res ε α} {f : α → Res ε β} {b : β} :
    (x >>= f) = .ok b ↔ ∃ a, x = .ok a ∧ f a = .ok b := by
  cases x with
  | ok a => simp [Res.bind_ok]
  | err e => simp [Res.bind_err]
  | panic m => simp [Res.bind_panic]

/-! ## Part E : ghost seal log of the client -/
set_option linter.unusedSimpArgs false
/-- ghost record of one AEAD `seal` call made for a datagram -/
structure SealRec where
  key : Bytes
  seq : Nat
  aad : Bytes
  plain : Bytes
  deriving DecidableEq, Repr

/-- what `Packet::encode` seals for packet `p` -/
def sealOf (p : Netcode.Packet) (proto seq : Nat) (key : Bytes) : SealRec :=
  ⟨key, seq, Netcode.Packet.additionalData (Netcode.Packet.encodePrefix p.id seq) proto, Packet.body p⟩

/-- the datagram is a function of the record: prefix byte (last AAD byte) ‖ sequence bytes ‖ seal(…) -/
def SealRec.datagram (a : AEAD) (r : SealRec) : Bytes :=
  r.aad.drop 21 ++ (Packet.seqBytes r.seq ++ a.seal r.key (Netcode.Packet.nonce r.seq) r.aad r.plain)

theorem sealOf_datagram (a : AEAD) (p : Netcode.Packet) (proto seq : Nat) (key : Bytes) :
    (sealOf p proto seq key).datagram a = Packet.sealedDatagram a p proto seq key := by
  simp only [SealRec.datagram, sealOf, Packet.sealedDatagram, Netcode.Packet.additionalData]
  have : (C.NETCODE_VERSION_INFO ++ leBytes proto 8 ++ [Netcode.Packet.encodePrefix p.id seq]).drop 21 =
      [Netcode.Packet.encodePrefix p.id seq] := by
    rw [List.drop_append, List.drop_of_length_le (by simp [C.NETCODE_VERSION_INFO])]
    simp [C.NETCODE_VERSION_INFO]
  rw [this]; rfl

/-- every emission goes through `Packet::encode`: when it succeeds for a sealed kind, the datagram is the
    datagram of the ghost record -/
theorem encode_sealOf {a : AEAD} {p : Netcode.Packet} {cap proto seq : Nat} {key out : Bytes}
    (hp : p.packetType ≠ .connectionRequest) (h : p.encode a cap proto (some (seq, key)) = .ok out) :
    out = (sealOf p proto seq key).datagram a := by
  rw [Packet.encode_eq a p cap proto seq key hp] at h
  split at h
  · cases h; exact (sealOf_datagram a p proto seq key).symm
  · cases h

namespace Cl
open Netcode.Packet Packet NetcodeClient

abbrev key (c : NetcodeClient) : Bytes := c.connectToken.clientToServerKey
abbrev proto (c : NetcodeClient) : Nat := c.connectToken.protocolId

/-- the packet `generate_packet` builds in state `c` -/
def genPacket (c : NetcodeClient) : Option Netcode.Packet :=
  match c.state with
  | .sendingConnectionRequest =>
    some (.connectionRequest C.NETCODE_VERSION_INFO c.connectToken.protocolId c.connectToken.expireTimestamp
            c.connectToken.xnonce c.connectToken.privateData)
  | .sendingConnectionResponse => some (.response c.challengeTokenSequence c.challengeTokenData)
  | .connected => some (.keepAlive 0 0)
  | .disconnected _ => none

/-- ghost: what `generate_packet` seals in state `c` (a connection request is sent in the clear) -/
def genSeal (c : NetcodeClient) : Option SealRec :=
  match c.state with
  | .sendingConnectionResponse => some (sealOf (.response c.challengeTokenSequence c.challengeTokenData) (proto c) c.sequence (key c))
  | .connected => some (sealOf (.keepAlive 0 0) (proto c) c.sequence (key c))
  | _ => none

def isDisc (c : NetcodeClient) : Prop := ∃ r, c.state = .disconnected r

theorem uis_spec {c c1 : NetcodeClient} {d : Nat} {e : Option NetcodeError}
    (h : updateInternalState c d = .ok (e, c1)) :
    c1.connectToken = c.connectToken ∧ c1.sequence = c.sequence ∧
    c1.challengeTokenData = c.challengeTokenData ∧
    (isDisc c → e ≠ none ∧ isDisc c1) := by
  unfold updateInternalState at h
  rw [Res.bind_eq_ok] at h
  obtain ⟨now, h1, h⟩ := h
  rw [Res.bind_eq_ok] at h
  obtain ⟨timedOut, h2, h⟩ := h
  simp only at h
  clear h1 h2
  cases hst : c.state with
  | disconnected r =>
    rw [hst] at h; simp only [pure, Res.ok.injEq, Prod.mk.injEq] at h
    obtain ⟨rfl, rfl⟩ := h
    exact ⟨rfl, rfl, rfl, fun _ => ⟨by simp, r, rfl⟩⟩
  | connected =>
    rw [hst] at h; simp only at h
    have hnd : ¬ isDisc c := fun ⟨r, hr⟩ => by rw [hst] at hr; cases hr
    split at h <;> (cases h; exact ⟨rfl, rfl, rfl, fun hd => absurd hd hnd⟩)
  | sendingConnectionRequest =>
    rw [hst] at h; simp only at h
    have hnd : ¬ isDisc c := fun ⟨r, hr⟩ => by rw [hst] at hr; cases hr
    rw [Res.bind_eq_ok] at h
    obtain ⟨elapsed, _, h⟩ := h
    split at h
    · cases h; exact ⟨rfl, rfl, rfl, fun hd => absurd hd hnd⟩
    · split at h
      · split at h
        · cases h; exact ⟨rfl, rfl, rfl, fun hd => absurd hd hnd⟩
        · split at h
          · cases h
          · cases h; exact ⟨rfl, rfl, rfl, fun hd => absurd hd hnd⟩
          · cases h; exact ⟨rfl, rfl, rfl, fun hd => absurd hd hnd⟩
      · cases h; exact ⟨rfl, rfl, rfl, fun hd => absurd hd hnd⟩
  | sendingConnectionResponse =>
    rw [hst] at h; simp only at h
    have hnd : ¬ isDisc c := fun ⟨r, hr⟩ => by rw [hst] at hr; cases hr
    rw [Res.bind_eq_ok] at h
    obtain ⟨elapsed, _, h⟩ := h
    split at h
    · cases h; exact ⟨rfl, rfl, rfl, fun hd => absurd hd hnd⟩
    · split at h
      · split at h
        · cases h; exact ⟨rfl, rfl, rfl, fun hd => absurd hd hnd⟩
        · split at h
          · cases h
          · cases h; exact ⟨rfl, rfl, rfl, fun hd => absurd hd hnd⟩
          · cases h; exact ⟨rfl, rfl, rfl, fun hd => absurd hd hnd⟩
      · cases h; exact ⟨rfl, rfl, rfl, fun hd => absurd hd hnd⟩

theorem incU64_ok {ε} {x y : Nat} {m : String} (h : (incU64 x m : Res ε Nat) = .ok y) : y = x + 1 ∧ x + 1 < 2 ^ 64 := by
  unfold incU64 at h
  split at h
  · rename_i hh; cases h; exact ⟨rfl, by simp [U64_MAX] at hh; omega⟩
  · cases h

theorem gen_spec {a : AEAD} {c c' : NetcodeClient} {o : Option (Bytes × Addr)}
    (h : generatePacket a c = .ok (o, c')) :
    c'.connectToken = c.connectToken ∧ c'.state = c.state ∧ c'.challengeTokenData = c.challengeTokenData ∧
    (o = none → c'.sequence = c.sequence) ∧
    ∀ out addr, o = some (out, addr) → c'.sequence = c.sequence + 1 ∧ c.sequence + 1 < 2 ^ 64 ∧
      ∃ p, genPacket c = some p ∧ p.encode a C.NETCODE_MAX_PACKET_BYTES (proto c) (some (c.sequence, key c)) = .ok out := by
  unfold generatePacket at h
  rw [Res.bind_eq_ok] at h
  obtain ⟨tooSoon, _, h⟩ := h
  split at h
  · cases h; exact ⟨rfl, rfl, rfl, fun _ => rfl, fun _ _ hh => by cases hh⟩
  · simp only at h
    cases hst : c.state with
    | disconnected r =>
      simp only [hst, Bool.false_eq_true, ↓reduceIte] at h
      cases h; exact ⟨rfl, (by first | rfl | exact hst), rfl, fun _ => rfl, fun _ _ hh => by cases hh⟩
    | connected =>
      simp only [hst, Bool.false_eq_true, ↓reduceIte] at h
      split at h
      · cases h
      · cases h; exact ⟨rfl, (by first | rfl | exact hst), rfl, fun _ => rfl, fun _ _ hh => by cases hh⟩
      · rename_i out henc
        rw [Res.bind_eq_ok] at h
        obtain ⟨sq, hsq, h⟩ := h
        obtain ⟨rfl, hlt⟩ := incU64_ok hsq
        cases h
        refine ⟨rfl, (by first | rfl | exact hst), rfl, (fun hh => by cases hh), fun out' addr hh => ?_⟩
        cases hh
        exact ⟨rfl, hlt, _, by simp [genPacket, hst], henc⟩
    | sendingConnectionRequest =>
      simp only [hst, Bool.false_eq_true, ↓reduceIte] at h
      split at h
      · cases h
      · cases h; exact ⟨rfl, (by first | rfl | exact hst), rfl, fun _ => rfl, fun _ _ hh => by cases hh⟩
      · rename_i out henc
        rw [Res.bind_eq_ok] at h
        obtain ⟨sq, hsq, h⟩ := h
        obtain ⟨rfl, hlt⟩ := incU64_ok hsq
        cases h
        refine ⟨rfl, (by first | rfl | exact hst), rfl, (fun hh => by cases hh), fun out' addr hh => ?_⟩
        cases hh
        exact ⟨rfl, hlt, _, by simp [genPacket, hst], henc⟩
    | sendingConnectionResponse =>
      simp only [hst, Bool.false_eq_true, ↓reduceIte] at h
      split at h
      · cases h
      · cases h; exact ⟨rfl, (by first | rfl | exact hst), rfl, fun _ => rfl, fun _ _ hh => by cases hh⟩
      · rename_i out henc
        rw [Res.bind_eq_ok] at h
        obtain ⟨sq, hsq, h⟩ := h
        obtain ⟨rfl, hlt⟩ := incU64_ok hsq
        cases h
        refine ⟨rfl, (by first | rfl | exact hst), rfl, (fun hh => by cases hh), fun out' addr hh => ?_⟩
        cases hh
        exact ⟨rfl, hlt, _, by simp [genPacket, hst], henc⟩

theorem payload_spec {a : AEAD} {c c' : NetcodeClient} {payload out : Bytes} {addr : Addr}
    (h : generatePayloadPacket a c payload = .ok ((addr, out), c')) :
    c.state = .connected ∧ c'.connectToken = c.connectToken ∧ c'.state = c.state ∧ c'.sequence = c.sequence + 1 ∧
    c.sequence + 1 < 2 ^ 64 ∧
    (Netcode.Packet.payload payload).encode a C.NETCODE_MAX_PACKET_BYTES (proto c) (some (c.sequence, key c)) = .ok out := by
  unfold generatePayloadPacket at h
  split at h
  · cases h
  · split at h
    · cases h
    · rename_i hst
      rw [Res.bind_eq_ok] at h
      obtain ⟨out', henc, h⟩ := h
      rw [Res.bind_eq_ok] at h
      obtain ⟨sq, hsq, h⟩ := h
      obtain ⟨rfl, hlt⟩ := incU64_ok hsq
      cases h
      exact ⟨by simpa using hst, rfl, rfl, rfl, hlt, henc⟩

theorem payload_disc {a : AEAD} {c : NetcodeClient} (payload : Bytes) (hd : isDisc c) :
    ∃ e, generatePayloadPacket a c payload = .err e := by
  obtain ⟨r, hr⟩ := hd
  unfold generatePayloadPacket
  split
  · exact ⟨_, rfl⟩
  · rw [if_pos (by rw [hr]; simp)]; exact ⟨_, rfl⟩

theorem disconnect_spec (a : AEAD) (c : NetcodeClient) :
    (NetcodeClient.disconnect a c).2.connectToken = c.connectToken ∧
    (NetcodeClient.disconnect a c).2.sequence = c.sequence ∧
    isDisc (NetcodeClient.disconnect a c).2 ∧
    ∀ addr out, (NetcodeClient.disconnect a c).1 = .ok (addr, out) →
      Netcode.Packet.disconnect.encode a C.NETCODE_MAX_PACKET_BYTES (proto c) (some (c.sequence, key c)) = .ok out := by
  refine ⟨rfl, rfl, ⟨_, rfl⟩, ?_⟩
  intro addr out h
  simp only [NetcodeClient.disconnect] at h
  rw [Res.bind_eq_ok] at h
  obtain ⟨out', henc, h⟩ := h
  cases h
  exact henc

theorem recv_spec {a : AEAD} {c c' : NetcodeClient} {buf : Bytes} {o : Option Bytes}
    (h : processPacket a c buf = .ok (o, c')) :
    c'.connectToken = c.connectToken ∧ c'.sequence = c.sequence ∧ (isDisc c → isDisc c') := by
  unfold processPacket at h
  simp only at h
  split at h
  · cases h
  · cases h; exact ⟨rfl, rfl, fun hd => hd⟩
  · rename_i sq packet hdec
    split at h <;> cases h <;> refine ⟨rfl, rfl, ?_⟩ <;> intro ⟨r, hr⟩ <;> simp_all [isDisc]

theorem update_eq {a : AEAD} {c c' : NetcodeClient} {d : Nat} {o : Option (Bytes × Addr)}
    (h : NetcodeClient.update a c d = .ok (o, c')) :
    ∃ e c1, updateInternalState c d = .ok (e, c1) ∧
      ((e ≠ none ∧ o = none ∧ c' = c1) ∨ (e = none ∧ generatePacket a c1 = .ok (o, c'))) := by
  unfold NetcodeClient.update at h
  rw [Res.bind_eq_ok] at h
  obtain ⟨⟨e, c1⟩, h1, h⟩ := h
  refine ⟨e, c1, h1, ?_⟩
  cases e with
  | none => exact Or.inr ⟨rfl, h⟩
  | some x => cases h; exact Or.inl ⟨by simp, rfl, rfl⟩

/-- the public operations of `NetcodeClient` -/
inductive COp where
  | update (d : Nat)
  | send (payload : Bytes)
  | disconnect
  | recv (buf : Bytes)

/-- One API call: the new state and the datagrams it emitted, each with its ghost seal record
    (`none` for the cleartext connection request).  `none` = the call unwound; the run ends. -/
def cstep (a : AEAD) (c : NetcodeClient) : COp → Option (NetcodeClient × List (Bytes × Option SealRec))
  | .update d =>
    match c.update a d with
    | .ok (some (out, _), c') =>
      some (c', [(out, match c.updateInternalState d with
                       | .ok (_, c1) => genSeal c1
                       | _ => none)])
    | .ok (none, c') => some (c', [])
    | _ => none
  | .send pl =>
    match c.generatePayloadPacket a pl with
    | .ok ((_, out), c') => some (c', [(out, some (sealOf (.payload pl) (proto c) c.sequence (key c)))])
    | .err _ => some (c, [])
    | .panic _ => none
  | .disconnect =>
    match NetcodeClient.disconnect a c with
    | (.ok (_, out), c') => some (c', [(out, some (sealOf .disconnect (proto c) c.sequence (key c)))])
    | (.err _, c') => some (c', [])
    | (.panic _, _) => none
  | .recv buf =>
    match c.processPacket a buf with
    | .ok (_, c') => some (c', [])
    | _ => none

def ctrace (a : AEAD) : NetcodeClient → List COp → List (Bytes × Option SealRec)
  | _, [] => []
  | c, op :: ops =>
    match cstep a c op with
    | none => []
    | some (c', tr) => tr ++ ctrace a c' ops

/-- the ghost seal log of a run -/
def clog (a : AEAD) (c : NetcodeClient) (ops : List COp) : List SealRec := (ctrace a c ops).filterMap (·.2)

/-- the record of the `Disconnect` packet in state `c` -/
def discRec (c : NetcodeClient) : SealRec := sealOf .disconnect (proto c) c.sequence (key c)

/-- an emitted datagram agrees with its ghost record -/
def Sound (a : AEAD) (out : Bytes) : Option SealRec → Prop
  | some r => out = r.datagram a
  | none => ∃ v pid e x d, out = 0 :: body (.connectionRequest v pid e x d)

structure StepSpec (a : AEAD) (c c' : NetcodeClient) (tr : List (Bytes × Option SealRec)) : Prop where
  token : c'.connectToken = c.connectToken
  mono : c.sequence ≤ c'.sequence
  sound : ∀ out g, (out, g) ∈ tr → Sound a out g
  recs : ∀ out r, (out, some r) ∈ tr → r.key = key c ∧ r.seq = c.sequence ∧
    (c'.sequence = c.sequence + 1 ∨ (c'.sequence = c.sequence ∧ isDisc c' ∧ r = discRec c))
  disc : isDisc c → isDisc c' ∧ c'.sequence = c.sequence ∧ ∀ out r, (out, some r) ∈ tr → r = discRec c

theorem cstep_spec {a : AEAD} {c c' : NetcodeClient} {op : COp} {tr : List (Bytes × Option SealRec)}
    (h : cstep a c op = some (c', tr)) : StepSpec a c c' tr := by
  cases op with
  | recv buf =>
    simp only [cstep] at h
    split at h
    · rename_i o c'' hp
      cases h
      obtain ⟨h1, h2, h3⟩ := recv_spec hp
      exact ⟨h1, by omega, by simp, by simp, fun hd => ⟨h3 hd, h2, by simp⟩⟩
    · cases h
  | send pl =>
    simp only [cstep] at h
    split at h
    · rename_i addr out c'' hp
      cases h
      obtain ⟨hst, h1, h2, h3, h4, henc⟩ := payload_spec hp
      have hnd : ¬ isDisc c := fun ⟨r, hr⟩ => by rw [hst] at hr; cases hr
      refine ⟨h1, by omega, ?_, ?_, fun hd => absurd hd hnd⟩
      · intro out' g hm
        simp only [List.mem_singleton, Prod.mk.injEq] at hm
        obtain ⟨rfl, rfl⟩ := hm
        exact encode_sealOf (by simp [packetType]) henc
      · intro out' r hm
        simp only [List.mem_singleton, Prod.mk.injEq, Option.some.injEq] at hm
        obtain ⟨rfl, rfl⟩ := hm
        exact ⟨rfl, rfl, Or.inl h3⟩
    · cases h
      exact ⟨rfl, Nat.le_refl _, by simp, by simp, fun hd => ⟨hd, rfl, by simp⟩⟩
    · cases h
  | disconnect =>
    simp only [cstep] at h
    obtain ⟨h1, h2, h3, h4⟩ := disconnect_spec a c
    split at h
    · rename_i addr out c'' hp
      cases h
      rw [hp] at h1 h2 h3 h4
      simp only at h1 h2 h3 h4
      have henc := h4 addr out rfl
      refine ⟨h1, by omega, ?_, ?_, fun hd => ⟨h3, h2, ?_⟩⟩
      · intro out' g hm
        simp only [List.mem_singleton, Prod.mk.injEq] at hm
        obtain ⟨rfl, rfl⟩ := hm
        exact encode_sealOf (by simp [packetType]) henc
      · intro out' r hm
        simp only [List.mem_singleton, Prod.mk.injEq, Option.some.injEq] at hm
        obtain ⟨rfl, rfl⟩ := hm
        exact ⟨rfl, rfl, Or.inr ⟨h2, h3, rfl⟩⟩
      · intro out' r hm
        simp only [List.mem_singleton, Prod.mk.injEq, Option.some.injEq] at hm
        exact hm.2
    · rename_i e c'' hp
      cases h
      rw [hp] at h1 h2 h3
      simp only at h1 h2 h3
      exact ⟨h1, by omega, by simp, by simp, fun _ => ⟨h3, h2, by simp⟩⟩
    · cases h
  | update d =>
    simp only [cstep] at h
    split at h
    · rename_i out addr c'' hp
      cases h
      obtain ⟨e, c1, hu, hh | hh⟩ := update_eq hp
      · obtain ⟨_, ho, _⟩ := hh; cases ho
      · obtain ⟨rfl, hg⟩ := hh
        obtain ⟨u1, u2, u3, u4⟩ := uis_spec hu
        obtain ⟨g1, g2, g3, g4, g5⟩ := gen_spec hg
        obtain ⟨s1, s2, p, hp1, henc⟩ := g5 out addr rfl
        have hnd : ¬ isDisc c := fun hd => (u4 hd).1 rfl
        rw [hu]
        simp only
        refine ⟨by rw [g1, u1], by omega, ?_, ?_, fun hd => absurd hd hnd⟩
        · intro out' g hm
          simp only [List.mem_singleton, Prod.mk.injEq] at hm
          obtain ⟨rfl, rfl⟩ := hm
          unfold genPacket at hp1
          unfold genSeal
          cases hst : c1.state with
          | disconnected r => rw [hst] at hp1; cases hp1
          | connected =>
            rw [hst] at hp1; cases hp1
            exact encode_sealOf (by simp [packetType]) henc
          | sendingConnectionResponse =>
            rw [hst] at hp1; cases hp1
            exact encode_sealOf (by simp [packetType]) henc
          | sendingConnectionRequest =>
            rw [hst] at hp1; cases hp1
            rw [encode_request_eq] at henc
            split at henc
            · cases henc; exact ⟨_, _, _, _, _, rfl⟩
            · cases henc
        · intro out' r hm
          simp only [List.mem_singleton, Prod.mk.injEq] at hm
          obtain ⟨rfl, hr⟩ := hm
          unfold genSeal at hr
          cases hst : c1.state with
          | disconnected r => rw [hst] at hr; cases hr
          | sendingConnectionRequest => rw [hst] at hr; cases hr
          | connected =>
            rw [hst] at hr; cases hr
            exact ⟨by simp only [sealOf, key, u1], by simp only [sealOf, u2], Or.inl (by omega)⟩
          | sendingConnectionResponse =>
            rw [hst] at hr; cases hr
            exact ⟨by simp only [sealOf, key, u1], by simp only [sealOf, u2], Or.inl (by omega)⟩
    · rename_i c'' hp
      cases h
      obtain ⟨e, c1, hu, hh | hh⟩ := update_eq hp
      · obtain ⟨_, _, rfl⟩ := hh
        obtain ⟨u1, u2, u3, u4⟩ := uis_spec hu
        exact ⟨u1, by omega, by simp, by simp, fun hd => ⟨(u4 hd).2, u2, by simp⟩⟩
      · obtain ⟨rfl, hg⟩ := hh
        obtain ⟨u1, u2, u3, u4⟩ := uis_spec hu
        obtain ⟨g1, g2, g3, g4, g5⟩ := gen_spec hg
        have := g4 rfl
        exact ⟨by rw [g1, u1], by omega, by simp, by simp, fun hd => absurd rfl (u4 hd).1⟩
    · cases h

theorem step_single {a : AEAD} {c c' : NetcodeClient} {op : COp} {tr : List (Bytes × Option SealRec)}
    (h : cstep a c op = some (c', tr)) {out out' : Bytes} {r r' : SealRec}
    (hm : (out, some r) ∈ tr) (hm' : (out', some r') ∈ tr) : r' = r := by
  have hlen : ∀ x ∈ tr, ∀ y ∈ tr, x = y := by
    cases op <;> simp only [cstep] at h <;> split at h <;> cases h <;> simp
  have := hlen _ hm _ hm'
  simp only [Prod.mk.injEq, Option.some.injEq] at this
  exact this.2.symm

theorem clog_cons (a : AEAD) (c : NetcodeClient) (op : COp) (ops : List COp) :
    clog a c (op :: ops) = match cstep a c op with
      | none => []
      | some (c', tr) => tr.filterMap (·.2) ++ clog a c' ops := by
  unfold clog
  simp only [ctrace]
  cases cstep a c op with
  | none => rfl
  | some x => simp [List.filterMap_append]

theorem mem_filterMap_snd {tr : List (Bytes × Option SealRec)} {r : SealRec} (h : r ∈ tr.filterMap (·.2)) :
    ∃ out, (out, some r) ∈ tr := by
  rw [List.mem_filterMap] at h
  obtain ⟨⟨out, g⟩, hm, hg⟩ := h
  simp only at hg
  subst hg
  exact ⟨out, hm⟩

/-- once disconnected, the only thing a client ever seals again is the same `Disconnect` datagram -/
theorem clog_disc (a : AEAD) (ops : List COp) : ∀ c, isDisc c → ∀ r ∈ clog a c ops, r = discRec c := by
  induction ops with
  | nil => intro c _ r hr; simp [clog, ctrace] at hr
  | cons op ops ih =>
    intro c hd r hr
    rw [clog_cons] at hr
    cases hs : cstep a c op with
    | none => rw [hs] at hr; simp at hr
    | some x =>
      obtain ⟨c', tr⟩ := x
      rw [hs] at hr
      simp only [List.mem_append] at hr
      have sp := cstep_spec hs
      obtain ⟨d1, d2, d3⟩ := sp.disc hd
      rcases hr with hr | hr
      · obtain ⟨out, hm⟩ := mem_filterMap_snd hr
        exact d3 out r hm
      · have := ih c' d1 r hr
        rw [this]; simp only [discRec, proto, key, sp.token, d2]

/-- every record of the log is under the client-to-server key of the client's token, with a sequence number
    not below the client's current counter -/
theorem clog_key_ge (a : AEAD) (ops : List COp) : ∀ c, ∀ r ∈ clog a c ops, r.key = key c ∧ c.sequence ≤ r.seq := by
  induction ops with
  | nil => intro c r hr; simp [clog, ctrace] at hr
  | cons op ops ih =>
    intro c r hr
    rw [clog_cons] at hr
    cases hs : cstep a c op with
    | none => rw [hs] at hr; simp at hr
    | some x =>
      obtain ⟨c', tr⟩ := x
      rw [hs] at hr
      simp only [List.mem_append] at hr
      have sp := cstep_spec hs
      rcases hr with hr | hr
      · obtain ⟨out, hm⟩ := mem_filterMap_snd hr
        obtain ⟨h1, h2, _⟩ := sp.recs out r hm
        exact ⟨h1, by omega⟩
      · obtain ⟨h1, h2⟩ := ih c' r hr
        have := sp.mono
        exact ⟨by rw [h1]; simp only [key, sp.token], by omega⟩

/-- **Client nonce discipline.**  Along any sequence of API calls, the sequence numbers (= nonces) of the
    datagrams sealed under the client-to-server key strictly increase — except that a later record may be
    *identical* to an earlier one (same key, sequence, AAD and plaintext, hence the same datagram): that is the
    `Disconnect` datagram of repeated `disconnect` calls. -/
theorem clog_strict (a : AEAD) (ops : List COp) :
    ∀ c, (clog a c ops).Pairwise (fun r r' => r.seq < r'.seq ∨ r' = r) := by
  induction ops with
  | nil => intro c; simp [clog, ctrace]
  | cons op ops ih =>
    intro c
    rw [clog_cons]
    cases hs : cstep a c op with
    | none => simp
    | some x =>
      obtain ⟨c', tr⟩ := x
      simp only
      have sp := cstep_spec hs
      rw [List.pairwise_append]
      refine ⟨?_, ih c', ?_⟩
      · -- all records of one step carry the same sequence number and, if two, are equal: at most one is emitted
        rw [List.pairwise_iff_forall_sublist]
        intro r r' hsub
        have hr := hsub.subset (List.mem_cons_self)
        have hr' := hsub.subset (List.mem_cons_of_mem _ List.mem_cons_self)
        obtain ⟨out, hm⟩ := mem_filterMap_snd hr
        obtain ⟨out', hm'⟩ := mem_filterMap_snd hr'
        obtain ⟨_, h2, h3⟩ := sp.recs out r hm
        obtain ⟨_, h2', h3'⟩ := sp.recs out' r' hm'
        rcases h3 with h3 | ⟨_, _, h3⟩
        · rcases h3' with h3' | ⟨h3', _, _⟩
          · -- one step emits at most one datagram; derive from the step shapes
            right
            exact step_single hs hm hm'
          · omega
        · rcases h3' with h3' | ⟨_, _, h3'⟩
          · omega
          · right; rw [h3, h3']
      · intro r hr r' hr'
        obtain ⟨out, hm⟩ := mem_filterMap_snd hr
        obtain ⟨_, h2, h3⟩ := sp.recs out r hm
        rcases h3 with h3 | ⟨h3, hd, hrec⟩
        · have := (clog_key_ge a ops c' r' hr').2
          left; omega
        · right
          rw [clog_disc a ops c' hd r' hr', hrec]
          simp only [discRec, proto, key, sp.token, h3]

/-- every datagram the client emits agrees with its ghost record (soundness of the instrumentation) -/
theorem ctrace_sound (a : AEAD) (ops : List COp) : ∀ c, ∀ x ∈ ctrace a c ops, Sound a x.1 x.2 := by
  induction ops with
  | nil => intro c x hx; simp [ctrace] at hx
  | cons op ops ih =>
    intro c x hx
    simp only [ctrace] at hx
    cases hs : cstep a c op with
    | none => rw [hs] at hx; simp at hx
    | some y =>
      obtain ⟨c', tr⟩ := y
      rw [hs] at hx
      simp only [List.mem_append] at hx
      rcases hx with hx | hx
      · exact (cstep_spec hs).sound x.1 x.2 hx
      · exact ih c' x hx

/-- … hence: two sealed datagrams of one client with the same sequence number are the same datagram -/
theorem clog_nonce_unique (a : AEAD) (c : NetcodeClient) (ops : List COp) :
    ∀ r ∈ clog a c ops, ∀ r' ∈ clog a c ops, r.seq = r'.seq → r = r' := by
  have h := (clog_strict a ops c).imp (S := fun r r' => r.seq = r'.seq → r = r') (by
    intro r r' hR hs
    rcases hR with hR | hR
    · omega
    · exact hR.symm)
  have h' : (clog a c ops).Pairwise (flip fun r r' => r.seq = r'.seq → r = r') :=
    h.imp (fun {x y} hxy hs => (hxy hs.symm).symm)
  intro r hr r' hr'
  exact List.Pairwise.forall_of_forall_of_flip (fun _ _ _ => rfl) h h' hr hr'

end Cl

/-! ## Part F : ghost seal log of the server -/
namespace Sv
open Netcode.Packet Packet NetcodeServer

/-- what matters of slot `i` for the nonce discipline: send key and send counter of the connection in it -/
def sv (s : NetcodeServer) (i : Nat) : Option (Bytes × Nat) :=
  (s.clients.getD i none).map fun c => (c.sendKey, c.sequence)

/-- pending connections have not sent anything under their own counter yet -/
def PendInv (s : NetcodeServer) : Prop := ∀ x ∈ s.pendingClients, x.2.sequence = 0

/-- slot `i` is left alone or freed -/
def slotQuiet (s s' : NetcodeServer) (i : Nat) : Prop := sv s' i = none ∨ sv s' i = sv s i

theorem slotQuiet_refl (s : NetcodeServer) (i : Nat) : slotQuiet s s i := Or.inr rfl

theorem slotQuiet_trans {s s1 s2 : NetcodeServer} {i : Nat} (h1 : slotQuiet s s1 i) (h2 : slotQuiet s1 s2 i) :
    slotQuiet s s2 i := by
  rcases h2 with h2 | h2
  · exact Or.inl h2
  · rcases h1 with h1 | h1
    · left; rw [h2, h1]
    · right; rw [h2, h1]

/-- a step that seals nothing and touches no send counter -/
structure Quiet (s s' : NetcodeServer) : Prop where
  g : s'.globalSequence = s.globalSequence
  slots : ∀ i, slotQuiet s s' i
  pend : PendInv s → PendInv s'

theorem Quiet.refl (s : NetcodeServer) : Quiet s s := ⟨rfl, fun i => slotQuiet_refl s i, id⟩

theorem Quiet.trans {s s1 s2 : NetcodeServer} (h1 : Quiet s s1) (h2 : Quiet s1 s2) : Quiet s s2 :=
  ⟨by rw [h2.g, h1.g], fun i => slotQuiet_trans (h1.slots i) (h2.slots i), fun h => h2.pend (h1.pend h)⟩

/-- the slot table and the counters are untouched (only the pending map / token entries / challenge sequence moved) -/
structure Same (s s' : NetcodeServer) : Prop where
  clients : s'.clients = s.clients
  g : s'.globalSequence = s.globalSequence
  maxc : s'.maxClients = s.maxClients
  proto : s'.protocolId = s.protocolId
  pend : PendInv s → PendInv s'

theorem Same.refl (s : NetcodeServer) : Same s s := ⟨rfl, rfl, rfl, rfl, id⟩
theorem Same.trans {s s1 s2 : NetcodeServer} (h1 : Same s s1) (h2 : Same s1 s2) : Same s s2 :=
  ⟨by rw [h2.clients, h1.clients], by rw [h2.g, h1.g], by rw [h2.maxc, h1.maxc], by rw [h2.proto, h1.proto],
    fun h => h2.pend (h1.pend h)⟩
theorem Same.quiet {s s' : NetcodeServer} (h : Same s s') : Quiet s s' :=
  ⟨h.g, fun i => Or.inr (by simp only [sv, h.clients]), h.pend⟩

/-! ### list helpers -/

theorem getD_set_ne {α} (l : List α) (i j : Nat) (v d : α) (h : i ≠ j) : (l.set i v).getD j d = l.getD j d := by
  simp [List.getD_eq_getElem?_getD, List.getElem?_set_ne h]

theorem getD_set_eq {α} (l : List α) (i : Nat) (v d : α) (h : i < l.length) : (l.set i v).getD i d = v := by
  simp [List.getD_eq_getElem?_getD, List.getElem?_set_self h]

theorem slotById_go {l : List (Option Connection)} {id k i : Nat} (h : findClientSlotById.go id l k = some i) :
    k ≤ i ∧ i - k < l.length ∧ ∃ c, l.getD (i - k) none = some c ∧ c.clientId = id := by
  induction l generalizing k with
  | nil => simp [findClientSlotById.go] at h
  | cons x tl ih =>
    cases x with
    | none =>
      simp only [findClientSlotById.go] at h
      obtain ⟨h1, h2, c, h3, h4⟩ := ih h
      refine ⟨by omega, by simp; omega, c, ?_, h4⟩
      have : i - k = (i - (k + 1)) + 1 := by omega
      rw [this]; simpa using h3
    | some c0 =>
      simp only [findClientSlotById.go] at h
      split at h
      · rename_i hc
        cases h
        exact ⟨Nat.le_refl _, by simp, c0, by simp, hc⟩
      · obtain ⟨h1, h2, c, h3, h4⟩ := ih h
        refine ⟨by omega, by simp; omega, c, ?_, h4⟩
        have : i - k = (i - (k + 1)) + 1 := by omega
        rw [this]; simpa using h3

theorem slotById_some {l : List (Option Connection)} {id i : Nat} (h : findClientSlotById l id = some i) :
    i < l.length ∧ ∃ c, l.getD i none = some c ∧ c.clientId = id := by
  have := slotById_go (k := 0) h
  simpa using this

theorem byId_go (l : List (Option Connection)) (id k : Nat) :
    (findClientById l id = none ∧ findClientSlotById.go id l k = none) ∨
    (∃ i c, findClientSlotById.go id l k = some i ∧ findClientById l id = some c ∧ k ≤ i ∧ l.getD (i - k) none = some c) := by
  induction l generalizing k with
  | nil => left; simp [findClientById, findClientSlotById.go]
  | cons x tl ih =>
    cases x with
    | none =>
      simp only [findClientById, findClientSlotById.go]
      rcases ih (k + 1) with h | ⟨i, c, h1, h2, h3, h4⟩
      · exact Or.inl h
      · refine Or.inr ⟨i, c, h1, h2, by omega, ?_⟩
        have : i - k = (i - (k + 1)) + 1 := by omega
        rw [this]; simpa using h4
    | some c0 =>
      simp only [findClientById, findClientSlotById.go]
      split
      · exact Or.inr ⟨k, c0, rfl, rfl, Nat.le_refl _, by simp⟩
      · rcases ih (k + 1) with h | ⟨i, c, h1, h2, h3, h4⟩
        · exact Or.inl h
        · refine Or.inr ⟨i, c, h1, h2, by omega, ?_⟩
          have : i - k = (i - (k + 1)) + 1 := by omega
          rw [this]; simpa using h4

/-- `find_client_slot_by_id` and `find_client_mut_by_id` hit the same slot -/
theorem byId_consistent {l : List (Option Connection)} {id i : Nat} {c : Connection}
    (h1 : findClientSlotById l id = some i) (h2 : findClientById l id = some c) : l.getD i none = some c := by
  rcases byId_go l id 0 with h | ⟨i', c', h3, h4, _, h6⟩
  · rw [h.1] at h2; cases h2
  · unfold findClientSlotById at h1
    rw [h3] at h1; cases h1
    rw [h4] at h2; cases h2
    simpa using h6

theorem byAddr_go {l : List (Option Connection)} {addr : Addr} {k i : Nat} {c : Connection}
    (h : findClientByAddr.go addr l k = some (i, c)) : k ≤ i ∧ i - k < l.length ∧ l.getD (i - k) none = some c := by
  induction l generalizing k with
  | nil => simp [findClientByAddr.go] at h
  | cons x tl ih =>
    cases x with
    | none =>
      simp only [findClientByAddr.go] at h
      obtain ⟨h1, h2, h3⟩ := ih h
      refine ⟨by omega, by simp; omega, ?_⟩
      have : i - k = (i - (k + 1)) + 1 := by omega
      rw [this]; simpa using h3
    | some c0 =>
      simp only [findClientByAddr.go] at h
      split at h
      · cases h; exact ⟨Nat.le_refl _, by simp, by simp⟩
      · obtain ⟨h1, h2, h3⟩ := ih h
        refine ⟨by omega, by simp; omega, ?_⟩
        have : i - k = (i - (k + 1)) + 1 := by omega
        rw [this]; simpa using h3

theorem byAddr_some {l : List (Option Connection)} {addr : Addr} {i : Nat} {c : Connection}
    (h : findClientByAddr l addr = some (i, c)) : i < l.length ∧ l.getD i none = some c := by
  have := byAddr_go (k := 0) h
  simpa using this

theorem freeSlot_go {l : List (Option Connection)} {k i : Nat} (h : firstFreeSlot.go l k = some i) :
    k ≤ i ∧ i - k < l.length ∧ l.getD (i - k) none = none := by
  induction l generalizing k with
  | nil => simp [firstFreeSlot.go] at h
  | cons x tl ih =>
    cases x with
    | none =>
      simp only [firstFreeSlot.go] at h
      cases h; exact ⟨Nat.le_refl _, by simp, by simp⟩
    | some c0 =>
      simp only [firstFreeSlot.go] at h
      obtain ⟨h1, h2, h3⟩ := ih h
      refine ⟨by omega, by simp; omega, ?_⟩
      have : i - k = (i - (k + 1)) + 1 := by omega
      rw [this]; simpa using h3

theorem freeSlot_some {l : List (Option Connection)} {i : Nat} (h : firstFreeSlot l = some i) :
    i < l.length ∧ l.getD i none = none := by
  have := freeSlot_go (k := 0) h
  simpa using this

/-! ### the pending map -/

theorem pendingFind_mem {m : List (Addr × Connection)} {addr : Addr} {c : Connection}
    (h : pendingFind m addr = some c) : ∃ a', (a', c) ∈ m := by
  induction m with
  | nil => simp [pendingFind] at h
  | cons x tl ih =>
    obtain ⟨a0, c0⟩ := x
    simp only [pendingFind] at h
    split at h
    · cases h; exact ⟨a0, by simp⟩
    · obtain ⟨a', hm⟩ := ih h
      exact ⟨a', by simp [hm]⟩

theorem pendingSet_mem {m : List (Addr × Connection)} {addr : Addr} {c : Connection} {x : Addr × Connection}
    (h : x ∈ pendingSet m addr c) : x ∈ m ∨ x.2 = c := by
  induction m with
  | nil => simp [pendingSet] at h; right; rw [h]
  | cons y tl ih =>
    obtain ⟨a0, c0⟩ := y
    simp only [pendingSet] at h
    split at h
    · simp only [List.mem_cons] at h
      rcases h with rfl | h
      · right; rfl
      · left; simp [h]
    · simp only [List.mem_cons] at h
      rcases h with rfl | h
      · left; simp
      · rcases ih h with h' | h'
        · left; simp [h']
        · right; exact h'

theorem pendingRemove_mem {m : List (Addr × Connection)} {addr : Addr} {x : Addr × Connection}
    (h : x ∈ pendingRemove m addr) : x ∈ m := by
  unfold pendingRemove at h
  exact (List.mem_filter.1 h).1

end Sv

namespace Sv
open Netcode.Packet Packet NetcodeServer

abbrev CAP : Nat := C.NETCODE_MAX_PACKET_BYTES

/-- what a successful `process_packet_internal` may have done, relative to the state `s` it started from -/
def OkPost (a : AEAD) (s : NetcodeServer) (res : ServerResult) (s' : NetcodeServer) : Prop :=
  match res with
  | .packetToSend _ out =>
    -- a handshake reply (Challenge / Denied): sealed with the global sequence, which then moves on by one
    s'.globalSequence = s.globalSequence + 1 ∧ (∀ i, slotQuiet s s' i) ∧ (PendInv s → PendInv s') ∧
    ∃ (key : Bytes) (p : Netcode.Packet), p.packetType ≠ .connectionRequest ∧
      p.encode a CAP s.protocolId (some (s.globalSequence, key)) = .ok out
  | .clientConnected _ _ _ out =>
    -- the keep-alive that completes the handshake: sealed with the pending connection's own counter
    s'.globalSequence = s.globalSequence ∧ (PendInv s → PendInv s') ∧
    ∃ i cl', firstFreeSlot s.clients = some i ∧ s'.clients.getD i none = some cl' ∧
      (∀ j, j ≠ i → slotQuiet s s' j) ∧ 1 ≤ cl'.sequence ∧ (PendInv s → cl'.sequence = 1) ∧
      (Netcode.Packet.keepAlive (i % 2 ^ 32) (s.maxClients % 2 ^ 32)).encode a CAP s.protocolId
        (some (cl'.sequence - 1, cl'.sendKey)) = .ok out
  | .clientDisconnected _ _ o => Quiet s s' ∧ o = none     -- a client's Disconnect is never answered
  | _ => Quiet s s'

def Post (a : AEAD) (s : NetcodeServer) (r : SRes) : Prop :=
  match r with
  | .panic _ => True
  | .err (_, s') => Quiet s s'
  | .ok (res, s') => OkPost a s res s'

theorem Post_none {a : AEAD} {s s' : NetcodeServer} (h : Quiet s s') : Post a s (.ok (.none, s')) := by
  simpa only [Post, OkPost] using h
theorem Post_err {a : AEAD} {s s' : NetcodeServer} {e : NetcodeError} (h : Quiet s s') : Post a s (.err (e, s')) := by
  simpa only [Post] using h

theorem Post_same {a : AEAD} {s s1 : NetcodeServer} {r : SRes} (h : Same s s1) (hp : Post a s1 r) : Post a s r := by
  cases r with
  | panic m => trivial
  | err x => obtain ⟨e, s'⟩ := x; exact h.quiet.trans hp
  | ok x =>
    obtain ⟨res, s'⟩ := x
    simp only [Post] at hp ⊢
    have hsq : ∀ i, slotQuiet s s1 i := h.quiet.slots
    cases res with
    | packetToSend ad out =>
      simp only [OkPost] at hp ⊢
      obtain ⟨h1, h2, h3, key, p, h4, h5⟩ := hp
      refine ⟨by rw [h1, h.g], fun i => slotQuiet_trans (hsq i) (h2 i), fun hh => h3 (h.pend hh), key, p, h4, ?_⟩
      rw [← h.proto, ← h.g]; exact h5
    | clientConnected cid ad ud out =>
      simp only [OkPost] at hp ⊢
      obtain ⟨h1, h3, i, cl', h4, h5, h6, h7, h8, h9⟩ := hp
      refine ⟨by rw [h1, h.g], fun hh => h3 (h.pend hh), i, cl', by rw [← h.clients]; exact h4, h5,
        fun j hj => slotQuiet_trans (hsq j) (h6 j hj), h7, fun hh => h8 (h.pend hh), ?_⟩
      rw [← h.proto, ← h.maxc]; exact h9
    | none => simp only [OkPost] at hp ⊢; exact h.quiet.trans hp
    | payload _ _ => simp only [OkPost] at hp ⊢; exact h.quiet.trans hp
    | clientDisconnected _ _ _ => simp only [OkPost] at hp ⊢; exact ⟨h.quiet.trans hp.1, hp.2⟩

/-- `lift s1 x >>= f` : an `Err` of `x` returns the state `s1` -/
theorem Post_lift_bind {a : AEAD} {s s1 : NetcodeServer} {α} (x : NRes α) (f : α → SRes)
    (hq : Quiet s s1) (hf : ∀ v, x = .ok v → Post a s (f v)) : Post a s (NetcodeServer.lift s1 x >>= f) := by
  cases x with
  | ok v => exact hf v rfl
  | err e => exact hq
  | panic m => trivial

theorem Post_inc_bind {a : AEAD} {s : NetcodeServer} (x : Nat) (m : String) (f : Nat → SRes)
    (hf : x + 1 < 2 ^ 64 → Post a s (f (x + 1))) :
    Post a s ((incU64 x m : Res (NetcodeError × NetcodeServer) Nat) >>= f) := by
  unfold incU64
  split
  · rename_i h; exact hf (by simp [U64_MAX] at h; omega)
  · trivial

theorem PendInv_set {s : NetcodeServer} {addr : Addr} {c : Connection} (h : PendInv s) (hc : c.sequence = 0)
    {s' : NetcodeServer} (hs : s'.pendingClients = pendingSet s.pendingClients addr c) : PendInv s' := by
  intro x hx
  rw [hs] at hx
  rcases pendingSet_mem hx with h' | h'
  · exact h x h'
  · rw [h']; exact hc

theorem PendInv_remove {s : NetcodeServer} {addr : Addr} (h : PendInv s)
    {s' : NetcodeServer} (hs : s'.pendingClients = pendingRemove s.pendingClients addr) : PendInv s' := by
  intro x hx
  rw [hs] at hx
  exact h x (pendingRemove_mem hx)

theorem PendInv_find {s : NetcodeServer} {addr : Addr} {c : Connection} (h : PendInv s)
    (hf : pendingFind s.pendingClients addr = some c) : c.sequence = 0 := by
  obtain ⟨a', hm⟩ := pendingFind_mem hf
  exact h _ hm

theorem foae_same (s : NetcodeServer) (e : ConnectTokenEntry) : Same s (s.findOrAddConnectTokenEntry e).1 := by
  unfold findOrAddConnectTokenEntry
  simp only
  split
  · exact Same.refl s
  · exact ⟨rfl, rfl, rfl, rfl, id⟩

theorem hcr_post (a : AEAD) (s : NetcodeServer) (addr : Addr) (v : Bytes) (pid e : Nat) (x d : Bytes) :
    Post a s (handleConnectionRequest a s addr v pid e x d) := by
  unfold handleConnectionRequest
  split
  · exact Post_err (Quiet.refl s)
  split
  · exact Post_err (Quiet.refl s)
  split
  · exact Post_err (Quiet.refl s)
  split
  · trivial
  · exact Post_err (Quiet.refl s)
  rename_i tok _
  simp only
  split
  · exact Post_err (Quiet.refl s)
  split
  · exact Post_none (Quiet.refl s)
  split
  · exact Post_none (Quiet.refl s)
  have hsame := foae_same s { address := addr, time := s.currentTime, mac := d.drop (C.NETCODE_CONNECT_TOKEN_PRIVATE_BYTES - C.NETCODE_MAC_BYTES) }
  generalize (s.findOrAddConnectTokenEntry { address := addr, time := s.currentTime, mac := d.drop (C.NETCODE_CONNECT_TOKEN_PRIVATE_BYTES - C.NETCODE_MAC_BYTES) }) = fa at hsame
  obtain ⟨s1, added⟩ := fa
  simp only at hsame ⊢
  split
  · exact Post_none hsame.quiet
  apply Post_same hsame
  split
  · -- table full: Denied under the global sequence
    have hs2 : Same s1 { s1 with pendingClients := pendingRemove s1.pendingClients addr } :=
      ⟨rfl, rfl, rfl, rfl, fun h => PendInv_remove h rfl⟩
    apply Post_same hs2
    apply Post_lift_bind _ _ (Quiet.refl _)
    intro out henc
    apply Post_inc_bind
    intro _
    exact ⟨rfl, fun i => slotQuiet_refl _ i, id, _, _, by simp [packetType], henc⟩
  · -- Challenge under the global sequence
    apply Post_inc_bind
    intro _
    have hs2 : Same s1 { s1 with challengeSequence := s1.challengeSequence + 1 } := ⟨rfl, rfl, rfl, rfl, id⟩
    apply Post_same hs2
    apply Post_lift_bind _ _ (Quiet.refl _)
    intro packet hgen
    apply Post_lift_bind _ _ (Quiet.refl _)
    intro out henc
    apply Post_inc_bind
    intro _
    have hpk : packet.packetType ≠ .connectionRequest := by
      unfold ChallengeToken.generate at hgen
      cases h1 : io? ((Netcode.Wr.new C.NETCODE_CHALLENGE_TOKEN_BYTES).writeAll (leBytes tok.clientId 8)) with
      | ok w1 =>
        rw [h1] at hgen; simp only [Res.bind_ok] at hgen
        cases h2 : io? (w1.writeAll tok.userData) with
        | ok w2 => rw [h2] at hgen; cases hgen; simp [packetType]
        | err e => rw [h2] at hgen; cases hgen
        | panic m => rw [h2] at hgen; cases hgen
      | err e => rw [h1] at hgen; cases hgen
      | panic m => rw [h1] at hgen; cases hgen
    refine ⟨rfl, fun i => slotQuiet_refl _ i, ?_, _, packet, hpk, henc⟩
    intro hp
    exact PendInv_set (s := { s1 with challengeSequence := s1.challengeSequence + 1 }) hp rfl rfl

end Sv

namespace Sv
open Netcode.Packet Packet NetcodeServer

theorem sv_set_ne (s s' : NetcodeServer) (i j : Nat) (v : Option Connection) (hc : s'.clients = s.clients.set i v)
    (h : j ≠ i) : sv s' j = sv s j := by
  simp only [sv, hc, getD_set_ne _ _ _ _ _ (Ne.symm h)]

theorem quiet_set_some {s s' : NetcodeServer} {slot : Nat} {c c' : Connection}
    (hget : s.clients.getD slot none = some c) (hlt : slot < s.clients.length)
    (hc : s'.clients = s.clients.set slot (some c'))
    (hk : c'.sendKey = c.sendKey) (hs : c'.sequence = c.sequence) (hg : s'.globalSequence = s.globalSequence)
    (hp : s'.pendingClients = s.pendingClients) : Quiet s s' := by
  refine ⟨hg, fun i => ?_, fun h => by intro x hx; rw [hp] at hx; exact h x hx⟩
  by_cases hi : i = slot
  · subst hi
    right
    simp only [sv, hc, getD_set_eq _ _ _ _ hlt, hget, Option.map_some, hk, hs]
  · right; exact sv_set_ne s s' slot i _ hc hi

theorem quiet_set_none {s s' : NetcodeServer} {slot : Nat} (hlt : slot < s.clients.length)
    (hc : s'.clients = s.clients.set slot none) (hg : s'.globalSequence = s.globalSequence)
    (hp : s'.pendingClients = s.pendingClients) : Quiet s s' := by
  refine ⟨hg, fun i => ?_, fun h => by intro x hx; rw [hp] at hx; exact h x hx⟩
  by_cases hi : i = slot
  · subst hi
    left
    simp only [sv, hc, getD_set_eq _ _ _ _ hlt, Option.map_none]
  · right; exact sv_set_ne s s' slot i _ hc hi

theorem Post_payload {a : AEAD} {s s' : NetcodeServer} {id : Nat} {pl : Bytes} (h : Quiet s s') :
    Post a s (.ok (.payload id pl, s')) := by
  simpa only [Post, OkPost] using h
theorem Post_disc {a : AEAD} {s s' : NetcodeServer} {id : Nat} {ad : Addr} (h : Quiet s s') :
    Post a s (.ok (.clientDisconnected id ad none, s')) := by
  simp only [Post, OkPost]; exact ⟨h, trivial⟩

def P0 (l : List (Addr × Connection)) : Prop := ∀ x ∈ l, x.2.sequence = 0

theorem P0_set {l : List (Addr × Connection)} {addr : Addr} {c : Connection} (h : P0 l) (hc : c.sequence = 0) :
    P0 (pendingSet l addr c) := by
  intro x hx
  rcases pendingSet_mem hx with h' | h'
  · exact h x h'
  · rw [h']; exact hc

theorem P0_remove {l : List (Addr × Connection)} {addr : Addr} (h : P0 l) : P0 (pendingRemove l addr) :=
  fun x hx => h x (pendingRemove_mem hx)

theorem same_pending {s s' : NetcodeServer} (hc : s'.clients = s.clients) (hg : s'.globalSequence = s.globalSequence)
    (hm : s'.maxClients = s.maxClients) (hpr : s'.protocolId = s.protocolId)
    (hp : PendInv s → P0 s'.pendingClients) : Same s s' := ⟨hc, hg, hm, hpr, hp⟩

/-- discharges `Same s {s with pendingClients := …}` for pending maps built by `pendingSet` / `pendingRemove`
    from connections that share the sequence of the found pending connection -/
macro "same_tac" hp0:ident : tactic =>
  `(tactic| (refine same_pending rfl rfl rfl rfl (fun hP => ?_)
             repeat (first | exact hP | apply P0_remove | (apply P0_set; rotate_left; exact $hp0 hP))))

theorem ppi_post (a : AEAD) (s : NetcodeServer) (addr : Addr) (buf : Bytes) :
    Post a s (processPacketInternal a s addr buf) := by
  unfold processPacketInternal
  split
  · exact Post_err (Quiet.refl s)
  split
  · -- a connected client: nothing is ever sealed on this path
    rename_i slot client hfind
    obtain ⟨hlt, hget⟩ := byAddr_some hfind
    generalize Netcode.Packet.decode a buf s.protocolId (some client.receiveKey) (some client.replayProtection) = dr
    obtain ⟨r, rp⟩ := dr
    simp only
    have hq1 : Quiet s { s with clients := s.clients.set slot (some { client with replayProtection := rp.getD client.replayProtection }) } :=
      quiet_set_some hget hlt rfl rfl rfl rfl rfl
    have hlt1 : slot < (s.clients.set slot (some { client with replayProtection := rp.getD client.replayProtection })).length := by
      simpa using hlt
    have hget1 : (s.clients.set slot (some { client with replayProtection := rp.getD client.replayProtection })).getD slot none =
        some { client with replayProtection := rp.getD client.replayProtection } := getD_set_eq _ _ _ _ hlt
    split
    · trivial
    · exact Post_err hq1
    · split
      · split
        · exact Post_disc (hq1.trans (quiet_set_none hlt1 rfl rfl rfl))
        · exact Post_payload (hq1.trans (quiet_set_some hget1 hlt1 rfl rfl rfl rfl rfl))
        · exact Post_none (hq1.trans (quiet_set_some hget1 hlt1 rfl rfl rfl rfl rfl))
        · exact Post_none hq1
      · exact Post_none hq1
  split
  · -- a pending client
    rename_i pending hpf
    generalize Netcode.Packet.decode a buf s.protocolId (some pending.receiveKey) (some pending.replayProtection) = dr
    obtain ⟨r, rp⟩ := dr
    simp only
    have hp0 : PendInv s → pending.sequence = 0 := fun h => PendInv_find h hpf
    split
    · trivial
    · apply Post_err; apply Same.quiet; same_tac hp0
    · rename_i sq packet
      split
      · refine Post_same ?_ (hcr_post a _ addr _ _ _ _ _)
        same_tac hp0
      · -- connection response
        apply Post_lift_bind
        · apply Same.quiet; same_tac hp0
        intro tok htok
        split
        · apply Post_none; apply Same.quiet; same_tac hp0
        split
        · apply Post_none; apply Same.quiet; same_tac hp0
        split
        · -- no free slot: Denied under the global sequence
          apply Post_lift_bind
          · apply Same.quiet; same_tac hp0
          intro out henc
          apply Post_inc_bind
          intro hlt
          refine ⟨rfl, fun i => Or.inr rfl, fun hP => ?_, _, _, by simp [packetType], henc⟩
          show P0 _
          repeat (first | exact hP | apply P0_remove | (apply P0_set; rotate_left; exact hp0 hP))
        · -- free slot: the keep-alive under the pending connection's own counter, which then becomes 1
          rename_i clientIndex hfree
          obtain ⟨hflt, hfget⟩ := freeSlot_some hfree
          apply Post_lift_bind
          · apply Same.quiet; same_tac hp0
          intro out henc
          apply Post_inc_bind
          intro hlt
          refine ⟨rfl, fun hP => ?_, clientIndex, _, hfree, getD_set_eq _ _ _ _ hflt,
            fun j hj => Or.inr (sv_set_ne _ _ clientIndex j _ rfl hj), by simp, fun hP => by simp [hp0 hP], ?_⟩
          · show P0 _
            repeat (first | exact hP | apply P0_remove | (apply P0_set; rotate_left; exact hp0 hP))
          · simpa using henc
      · apply Post_none; apply Same.quiet; same_tac hp0
  · -- an unknown address: only a connection request is looked at
    generalize Netcode.Packet.decode a buf s.protocolId none none = dr
    obtain ⟨r, rp⟩ := dr
    simp only
    split
    · trivial
    · exact Post_err (Quiet.refl s)
    · split
      · exact hcr_post a s addr _ _ _ _ _
      · trivial

end Sv

namespace Sv
open Netcode.Packet Packet NetcodeServer

/-- a step of a living session: one datagram sealed with the slot's counter, which then moves on by one
    (or the slot is freed: the `Disconnect` datagram) -/
structure SessStep (a : AEAD) (s s' : NetcodeServer) (i : Nat) (r : SealRec) (out : Bytes) : Prop where
  g : s'.globalSequence = s.globalSequence
  pend : PendInv s → PendInv s'
  others : ∀ j, j ≠ i → slotQuiet s s' j
  sound : out = r.datagram a
  here : ∃ k n, sv s i = some (k, n) ∧ r.key = k ∧ r.seq = n ∧ (sv s' i = none ∨ sv s' i = some (k, n + 1))

/-- the step that opens a session in a free slot: the keep-alive sealed with the pending connection's counter -/
structure OpenStep (a : AEAD) (s s' : NetcodeServer) (i : Nat) (r : SealRec) (out : Bytes) : Prop where
  g : s'.globalSequence = s.globalSequence
  pend : PendInv s → PendInv s'
  others : ∀ j, j ≠ i → slotQuiet s s' j
  sound : out = r.datagram a
  here : sv s i = none ∧ ∃ k n, sv s' i = some (k, n + 1) ∧ r.key = k ∧ r.seq = n ∧ (PendInv s → n = 0)

/-- a handshake reply: sealed with the global sequence, which then moves on by one -/
structure HsStep (a : AEAD) (s s' : NetcodeServer) (out : Bytes) : Prop where
  g : s'.globalSequence = s.globalSequence + 1
  pend : PendInv s → PendInv s'
  slots : ∀ i, slotQuiet s s' i
  sound : ∃ (key : Bytes) (p : Netcode.Packet), p.packetType ≠ .connectionRequest ∧
    out = (sealOf p s.protocolId s.globalSequence key).datagram a

/-- the datagram a `ServerResult` carries -/
def resOut : ServerResult → List Bytes
  | .packetToSend _ out => [out]
  | .clientConnected _ _ _ out => [out]
  | .clientDisconnected _ _ (some out) => [out]
  | _ => []

theorem sess_of_set {a : AEAD} {s s' : NetcodeServer} {i : Nat} {cl : Connection} {p : Netcode.Packet} {out : Bytes}
    {v : Option Connection}
    (hlt : i < s.clients.length) (hget : s.clients.getD i none = some cl)
    (hc : s'.clients = s.clients.set i v) (hg : s'.globalSequence = s.globalSequence)
    (hp : s'.pendingClients = s.pendingClients)
    (hv : v = none ∨ ∃ cl', v = some cl' ∧ cl'.sendKey = cl.sendKey ∧ cl'.sequence = cl.sequence + 1)
    (hpk : p.packetType ≠ .connectionRequest)
    (henc : p.encode a CAP s.protocolId (some (cl.sequence, cl.sendKey)) = .ok out) :
    SessStep a s s' i (sealOf p s.protocolId cl.sequence cl.sendKey) out := by
  refine ⟨hg, fun h x hx => by rw [hp] at hx; exact h x hx, fun j hj => Or.inr (sv_set_ne s s' i j v hc hj),
    encode_sealOf hpk henc, cl.sendKey, cl.sequence, by simp only [sv, hget, Option.map_some], rfl, rfl, ?_⟩
  rcases hv with rfl | ⟨cl', rfl, h1, h2⟩
  · left; simp only [sv, hc, getD_set_eq _ _ _ _ hlt, Option.map_none]
  · right; simp only [sv, hc, getD_set_eq _ _ _ _ hlt, Option.map_some, h1, h2]

theorem payload_spec {a : AEAD} {s s' : NetcodeServer} {id : Nat} {pl out : Bytes} {addr : Addr}
    (h : generatePayloadPacket a s id pl = .ok ((addr, out), s')) :
    ∃ i cl, findClientSlotById s.clients id = some i ∧ s.clients.getD i none = some cl ∧
      SessStep a s s' i (sealOf (.payload pl) s.protocolId cl.sequence cl.sendKey) out := by
  unfold generatePayloadPacket at h
  split at h
  · cases h
  · split at h
    · rename_i slot client hslot hcl
      have hget := byId_consistent hslot hcl
      obtain ⟨hlt, _⟩ := slotById_some hslot
      rw [Res.bind_eq_ok] at h
      obtain ⟨out', henc, h⟩ := h
      rw [Res.bind_eq_ok] at h
      obtain ⟨sq, hsq, h⟩ := h
      obtain ⟨rfl, _⟩ := Cl.incU64_ok hsq
      cases h
      exact ⟨slot, client, hslot, hget,
        sess_of_set hlt hget rfl rfl rfl (Or.inr ⟨_, rfl, rfl, rfl⟩) (by simp [packetType]) henc⟩
    · cases h

theorem disconnect_spec {a : AEAD} {s s' : NetcodeServer} {id : Nat} {res : ServerResult}
    (h : NetcodeServer.disconnect a s id = .ok (res, s')) :
    (Quiet s s' ∧ resOut res = []) ∨
    ∃ i cl cid ad out, res = .clientDisconnected cid ad (some out) ∧ findClientSlotById s.clients id = some i ∧
      s.clients.getD i none = some cl ∧
      SessStep a s s' i (sealOf .disconnect s.protocolId cl.sequence cl.sendKey) out := by
  unfold NetcodeServer.disconnect at h
  split at h
  · cases h; exact Or.inl ⟨Quiet.refl s, rfl⟩
  · rename_i slot hslot
    obtain ⟨hlt, _⟩ := slotById_some hslot
    split at h
    · cases h
    · rename_i client hget
      simp only at h
      split at h
      · cases h
      · cases h; exact Or.inl ⟨quiet_set_none hlt rfl rfl rfl, rfl⟩
      · rename_i out henc
        cases h
        exact Or.inr ⟨slot, client, _, _, out, rfl, hslot, hget,
          sess_of_set hlt hget rfl rfl rfl (Or.inl rfl) (by simp [packetType]) henc⟩

theorem updateClient_spec {a : AEAD} {s s' : NetcodeServer} {id : Nat} {res : ServerResult}
    (h : NetcodeServer.updateClient a s id = .ok (res, s')) :
    (Quiet s s' ∧ resOut res = []) ∨
    (∃ i cl, findClientSlotById s.clients id = some i ∧ s.clients.getD i none = some cl ∧
      ((∃ ad out, res = .packetToSend ad out ∧
          SessStep a s s' i (sealOf (.keepAlive (i % 2 ^ 32) (s.maxClients % 2 ^ 32)) s.protocolId cl.sequence cl.sendKey) out) ∨
       (∃ cid ad out, res = .clientDisconnected cid ad (some out) ∧
          SessStep a s s' i (sealOf .disconnect s.protocolId cl.sequence cl.sendKey) out))) := by
  unfold NetcodeServer.updateClient at h
  split at h
  · cases h; exact Or.inl ⟨Quiet.refl s, rfl⟩
  · rename_i slot hslot
    obtain ⟨hlt, _⟩ := slotById_some hslot
    split at h
    · cases h; exact Or.inl ⟨Quiet.refl s, rfl⟩
    · rename_i client hget
      rw [Res.bind_eq_ok] at h
      obtain ⟨timedOut, _, h⟩ := h
      simp only at h
      have hk : (if timedOut = true then { client with state := ConnectionState.disconnected } else client).sendKey = client.sendKey := by
        split <;> rfl
      have hsq : (if timedOut = true then { client with state := ConnectionState.disconnected } else client).sequence = client.sequence := by
        split <;> rfl
      generalize (if timedOut = true then { client with state := ConnectionState.disconnected } else client) = client1 at h hk hsq
      split at h
      · -- timed out or disconnected: the slot is freed, a Disconnect is sealed with the current counter
        split at h
        · cases h
        · cases h; exact Or.inl ⟨quiet_set_none hlt rfl rfl rfl, rfl⟩
        · rename_i out henc
          cases h
          rw [hk, hsq] at henc
          exact Or.inr ⟨slot, client, hslot, hget, Or.inr ⟨_, _, out, rfl,
            sess_of_set hlt hget rfl rfl rfl (Or.inl rfl) (by simp [packetType]) henc⟩⟩
      · rw [Res.bind_eq_ok] at h
        obtain ⟨due, _, h⟩ := h
        split at h
        · split at h
          · cases h
          · cases h; exact Or.inl ⟨Quiet.refl s, rfl⟩
          · rename_i out henc
            rw [Res.bind_eq_ok] at h
            obtain ⟨sq, hinc, h⟩ := h
            obtain ⟨rfl, _⟩ := Cl.incU64_ok hinc
            cases h
            rw [hk, hsq] at henc
            exact Or.inr ⟨slot, client, hslot, hget, Or.inl ⟨_, out, rfl,
              sess_of_set hlt hget rfl rfl rfl (Or.inr ⟨_, rfl, hk, by simp only [hsq]⟩) (by simp [packetType]) henc⟩⟩
        · cases h; exact Or.inl ⟨Quiet.refl s, rfl⟩

theorem update_quiet {s s' : NetcodeServer} {d : Nat} (h : NetcodeServer.update s d = .ok s') : Quiet s s' := by
  unfold NetcodeServer.update at h
  rw [Res.bind_eq_ok] at h
  obtain ⟨now, _, h⟩ := h
  cases h
  exact ⟨rfl, fun i => Or.inr rfl, fun hp x hx => hp x (List.mem_filter.1 hx).1⟩

theorem setMax_quiet (s : NetcodeServer) (n : Nat) : Quiet s (s.setMaxClients n) := by
  unfold setMaxClients
  refine ⟨rfl, fun i => Or.inr ?_, fun hp => hp⟩
  simp only [sv]
  split
  · congr 1
    simp only [List.getD_eq_getElem?_getD]
    by_cases hi : i < s.clients.length
    · rw [List.getElem?_append_left hi]
    · rw [List.getElem?_append_right (by omega)]
      have : s.clients[i]? = none := List.getElem?_eq_none (by omega)
      rw [this]
      cases h : (List.replicate (min n C.NETCODE_MAX_CLIENTS - s.clients.length) (none : Option Connection))[i - s.clients.length]? with
      | none => rfl
      | some v =>
        have := List.mem_of_getElem? h
        rw [List.mem_replicate] at this
        rw [this.2]; rfl
  · rfl

end Sv

namespace Sv
open Netcode.Packet Packet NetcodeServer

/-- the public operations of `NetcodeServer` -/
inductive SOp where
  | recv (addr : Addr) (buf : Bytes)
  | tick (d : Nat)
  | updateClient (cid : Nat)
  | send (cid : Nat) (pl : Bytes)
  | disconnect (cid : Nat)
  | setMax (n : Nat)

/-- ghost events: one per sealed datagram the server emits -/
inductive SEv where
  /-- handshake reply (Challenge / Denied), sealed under the requesting token's server-to-client key with the
      server-wide `global_sequence` -/
  | hs (seq : Nat) (out : Bytes)
  /-- datagram of the session in `slot` (keep-alive, payload, disconnect), sealed under the connection's send
      key with the connection's own counter; `r` is the seal record -/
  | sess (slot : Nat) (r : SealRec) (out : Bytes)

/-- the session event of client `id` for packet `p` -/
def sessEv (s : NetcodeServer) (id : Nat) (p : Netcode.Packet) (out : Bytes) : List SEv :=
  match findClientSlotById s.clients id with
  | none => []
  | some i =>
    match s.clients.getD i none with
    | none => []
    | some cl => [.sess i (sealOf p s.protocolId cl.sequence cl.sendKey) out]

/-- One API call: the new state and the ghost events of the datagrams it emitted.  `none` = unwound. -/
def sstep (a : AEAD) (s : NetcodeServer) : SOp → Option (NetcodeServer × List SEv)
  | .recv addr buf =>
    match s.processPacket a addr buf with
    | .ok (res, s') => some (s',
        match res with
        | .packetToSend _ out => [.hs s.globalSequence out]
        | .clientConnected _ _ _ out =>
          match firstFreeSlot s.clients with
          | some i =>
            match s'.clients.getD i none with
            | some cl' => [.sess i (sealOf (.keepAlive (i % 2 ^ 32) (s.maxClients % 2 ^ 32)) s.protocolId
                                      (cl'.sequence - 1) cl'.sendKey) out]
            | none => []
          | none => []
        | _ => [])
    | _ => none
  | .tick d =>
    match s.update d with
    | .ok s' => some (s', [])
    | _ => none
  | .updateClient cid =>
    match s.updateClient a cid with
    | .ok (res, s') => some (s',
        match res with
        | .packetToSend _ out =>
          match findClientSlotById s.clients cid with
          | some i => sessEv s cid (.keepAlive (i % 2 ^ 32) (s.maxClients % 2 ^ 32)) out
          | none => []
        | .clientDisconnected _ _ (some out) => sessEv s cid .disconnect out
        | _ => [])
    | _ => none
  | .send cid pl =>
    match s.generatePayloadPacket a cid pl with
    | .ok ((_, out), s') => some (s', sessEv s cid (.payload pl) out)
    | .err _ => some (s, [])
    | .panic _ => none
  | .disconnect cid =>
    match NetcodeServer.disconnect a s cid with
    | .ok (res, s') => some (s',
        match res with
        | .clientDisconnected _ _ (some out) => sessEv s cid .disconnect out
        | _ => [])
    | _ => none
  | .setMax n => some (s.setMaxClients n, [])

/-- what one step may do, by the events it produced -/
def StepOK (a : AEAD) (s s' : NetcodeServer) : List SEv → Prop
  | [] => Quiet s s'
  | [.hs seq out] => seq = s.globalSequence ∧ HsStep a s s' out
  | [.sess i r out] => SessStep a s s' i r out ∨ OpenStep a s s' i r out
  | _ => False

theorem sessEv_eq {s : NetcodeServer} {id i : Nat} {cl : Connection} (p : Netcode.Packet) (out : Bytes)
    (h1 : findClientSlotById s.clients id = some i) (h2 : s.clients.getD i none = some cl) :
    sessEv s id p out = [.sess i (sealOf p s.protocolId cl.sequence cl.sendKey) out] := by
  simp only [sessEv, h1, h2]

theorem sstep_ok {a : AEAD} {s s' : NetcodeServer} {op : SOp} {evs : List SEv}
    (h : sstep a s op = some (s', evs)) : StepOK a s s' evs := by
  cases op with
  | setMax n => simp only [sstep] at h; cases h; exact setMax_quiet s n
  | tick d =>
    simp only [sstep] at h
    split at h
    · rename_i s'' hu; cases h; exact update_quiet hu
    · cases h
  | send id0 pl =>
    simp only [sstep] at h
    split at h
    · rename_i ad out s'' hp
      cases h
      obtain ⟨i, cl, h1, h2, h3⟩ := payload_spec hp
      rw [sessEv_eq _ _ h1 h2]
      exact Or.inl h3
    · cases h; exact Quiet.refl s
    · cases h
  | disconnect id0 =>
    simp only [sstep] at h
    split at h
    · rename_i res s'' hp
      cases h
      rcases disconnect_spec hp with ⟨hq, hne⟩ | ⟨i, cl, cid, ad, out, rfl, h1, h2, h3⟩
      · split
        · rename_i cid ad out; simp [resOut] at hne
        · exact hq
      · simp only
        rw [sessEv_eq _ _ h1 h2]
        exact Or.inl h3
    · cases h
  | updateClient id0 =>
    simp only [sstep] at h
    split at h
    · rename_i res s'' hp
      cases h
      rcases updateClient_spec hp with ⟨hq, hne⟩ | ⟨i, cl, h1, h2, ⟨ad, out, rfl, h3⟩ | ⟨cid, ad, out, rfl, h3⟩⟩
      · split
        · rename_i ad out; simp [resOut] at hne
        · rename_i cid ad out; simp [resOut] at hne
        · exact hq
      · simp only [h1]
        rw [sessEv_eq _ _ h1 h2]
        exact Or.inl h3
      · simp only
        rw [sessEv_eq _ _ h1 h2]
        exact Or.inl h3
    · cases h
  | recv addr buf =>
    simp only [sstep] at h
    split at h
    · rename_i res s'' hp
      cases h
      have hpost := ppi_post a s addr buf
      unfold NetcodeServer.processPacket at hp
      split at hp
      · rename_i r hr
        cases hp
        rw [hr] at hpost
        simp only [Post] at hpost
        cases res with
        | none => simpa only [OkPost, StepOK] using hpost
        | payload _ _ => simpa only [OkPost, StepOK] using hpost
        | clientDisconnected _ _ _ => simp only [OkPost] at hpost; simpa only [StepOK] using hpost.1
        | packetToSend ad out =>
          simp only [OkPost] at hpost
          obtain ⟨h1, h2, h3, key, p, h4, h5⟩ := hpost
          exact ⟨rfl, h1, h3, h2, key, p, h4, encode_sealOf h4 h5⟩
        | clientConnected cid ad ud out =>
          simp only [OkPost] at hpost
          obtain ⟨h1, h3, i, cl', h4, h5, h6, h7, h8, h9⟩ := hpost
          simp only [h4, h5]
          right
          refine ⟨h1, h3, h6, encode_sealOf (by simp [packetType]) h9, ?_, cl'.sendKey, cl'.sequence - 1, ?_, rfl, rfl,
            fun hP => by rw [h8 hP]⟩
          · simp only [sv, (freeSlot_some h4).2, Option.map_none]
          · simp only [sv, h5, Option.map_some]
            congr 2; omega
      · rename_i e s1 hr
        cases hp
        rw [hr] at hpost
        simpa only [Post, StepOK] using hpost
      · cases hp
    · cases h

end Sv

namespace Sv
open Netcode.Packet Packet NetcodeServer

/-- the ghost events of a run -/
def strace (a : AEAD) : NetcodeServer → List SOp → List SEv
  | _, [] => []
  | s, op :: ops =>
    match sstep a s op with
    | none => []
    | some (s', evs) => evs ++ strace a s' ops

/-- sequence numbers of the handshake replies among some events -/
def hsSeqs : List SEv → List Nat
  | [] => []
  | .hs seq _ :: r => seq :: hsSeqs r
  | .sess _ _ _ :: r => hsSeqs r

/-- seal records of slot `i` among some events -/
def sessRecs (i : Nat) : List SEv → List SealRec
  | [] => []
  | .hs _ _ :: r => sessRecs i r
  | .sess j sr _ :: r => if j = i then sr :: sessRecs i r else sessRecs i r

theorem hsSeqs_append (l1 l2 : List SEv) : hsSeqs (l1 ++ l2) = hsSeqs l1 ++ hsSeqs l2 := by
  induction l1 with
  | nil => rfl
  | cons x tl ih => cases x <;> simp [hsSeqs, ih]

/-- what a step does to the global sequence, read off its events -/
theorem step_g {a : AEAD} {s s' : NetcodeServer} {op : SOp} {evs : List SEv} (h : sstep a s op = some (s', evs)) :
    hsSeqs evs = List.range' s.globalSequence (hsSeqs evs).length ∧
    s'.globalSequence = s.globalSequence + (hsSeqs evs).length ∧ (PendInv s → PendInv s') := by
  have hok := sstep_ok h
  match evs, hok with
  | [], hok => exact ⟨rfl, hok.g, hok.pend⟩
  | [.hs seq out], hok =>
    obtain ⟨rfl, hh⟩ := hok
    exact ⟨rfl, hh.g, hh.pend⟩
  | [.sess i r out], hok =>
    rcases hok with hh | hh
    · exact ⟨rfl, hh.g, hh.pend⟩
    · exact ⟨rfl, hh.g, hh.pend⟩

/-- **Handshake nonces.**  Along any run, the sequence numbers of the handshake replies (Challenge, Denied) are
    exactly `global_sequence, global_sequence + 1, …` of the starting state: consecutive, hence strictly
    increasing and pairwise different — whatever key they are sealed under. -/
theorem hs_consecutive (a : AEAD) (ops : List SOp) : ∀ s,
    hsSeqs (strace a s ops) = List.range' s.globalSequence (hsSeqs (strace a s ops)).length := by
  induction ops with
  | nil => intro s; rfl
  | cons op ops ih =>
    intro s
    simp only [strace]
    cases hs : sstep a s op with
    | none => rfl
    | some x =>
      obtain ⟨s', evs⟩ := x
      simp only
      obtain ⟨h1, h2, _⟩ := step_g hs
      rw [hsSeqs_append, List.length_append, ← List.range'_append_1, ← h1, ← h2, ← ih s']

/-- the state after a run (`none`: some call unwound) -/
def srun (a : AEAD) : NetcodeServer → List SOp → Option NetcodeServer
  | s, [] => some s
  | s, op :: ops =>
    match sstep a s op with
    | none => none
    | some (s', _) => srun a s' ops

/-- invariants of every run: pending connections keep counter 0, the global sequence never decreases -/
theorem run_inv (a : AEAD) (ops : List SOp) : ∀ s s' : NetcodeServer, srun a s ops = some s' →
    (PendInv s → PendInv s') ∧ s.globalSequence ≤ s'.globalSequence := by
  induction ops with
  | nil => intro s s' h; cases h; exact ⟨id, Nat.le_refl _⟩
  | cons op ops ih =>
    intro s s' h
    simp only [srun] at h
    cases hs : sstep a s op with
    | none => rw [hs] at h; cases h
    | some x =>
      obtain ⟨s1, evs⟩ := x
      rw [hs] at h
      obtain ⟨_, h2, h3⟩ := step_g hs
      obtain ⟨i1, i2⟩ := ih s1 s' h
      exact ⟨fun hp => i1 (h3 hp), by omega⟩

/-- the seal records of slot `i` while the session that occupies it lives: the log is cut when the slot is freed -/
def sessLog (a : AEAD) (i : Nat) : NetcodeServer → List SOp → List SealRec
  | _, [] => []
  | s, op :: ops =>
    match sstep a s op with
    | none => []
    | some (s', evs) => sessRecs i evs ++ (if (sv s' i).isSome then sessLog a i s' ops else [])

/-- what one step does to slot `i` -/
theorem step_slot {a : AEAD} {s s' : NetcodeServer} {op : SOp} {evs : List SEv} (i : Nat)
    (h : sstep a s op = some (s', evs)) :
    (sessRecs i evs = [] ∧ slotQuiet s s' i) ∨
    (∃ r k n, sessRecs i evs = [r] ∧ r.key = k ∧ r.seq = n ∧
      ((sv s i = some (k, n) ∧ (sv s' i = none ∨ sv s' i = some (k, n + 1))) ∨
       (sv s i = none ∧ sv s' i = some (k, n + 1) ∧ (PendInv s → n = 0)))) := by
  have hok := sstep_ok h
  match evs, hok with
  | [], hok => exact Or.inl ⟨rfl, hok.slots i⟩
  | [.hs seq out], hok => exact Or.inl ⟨rfl, hok.2.slots i⟩
  | [.sess j r out], hok =>
    by_cases hj : j = i
    · subst hj
      right
      rcases hok with hh | hh
      · obtain ⟨k, n, h1, h2, h3, h4⟩ := hh.here
        exact ⟨r, k, n, by simp [sessRecs], h2, h3, Or.inl ⟨h1, h4⟩⟩
      · obtain ⟨h0, k, n, h1, h2, h3, h4⟩ := hh.here
        exact ⟨r, k, n, by simp [sessRecs], h2, h3, Or.inr ⟨h0, h1, h4⟩⟩
    · left
      refine ⟨by simp [sessRecs, hj], ?_⟩
      rcases hok with hh | hh
      · exact hh.others i (Ne.symm hj)
      · exact hh.others i (Ne.symm hj)

/-- **Session nonces.**  While the connection in slot `i` (send key `k`, counter `n`) lives, the datagrams sealed
    for it — keep-alives, payloads, the final `Disconnect` — are all under `k` and carry exactly the sequence
    numbers `n, n+1, n+2, …`: strictly increasing, no gap, no repetition. -/
theorem sess_consecutive (a : AEAD) (i : Nat) (ops : List SOp) : ∀ (s : NetcodeServer) (k : Bytes) (n : Nat),
    sv s i = some (k, n) →
    (∀ r ∈ sessLog a i s ops, r.key = k) ∧
    (sessLog a i s ops).map (·.seq) = List.range' n (sessLog a i s ops).length := by
  induction ops with
  | nil => intro s k n _; exact ⟨by simp [sessLog], rfl⟩
  | cons op ops ih =>
    intro s k n hsv
    simp only [sessLog]
    cases hs : sstep a s op with
    | none => exact ⟨by simp, rfl⟩
    | some x =>
      obtain ⟨s', evs⟩ := x
      simp only
      rcases step_slot i hs with ⟨h1, h2⟩ | ⟨r, k', n', h1, h2, h3, h4⟩
      · rw [h1, List.nil_append]
        rcases h2 with h2 | h2
        · rw [h2]; exact ⟨by simp, rfl⟩
        · rw [h2, hsv]
          simp only [Option.isSome_some, if_true]
          exact ih s' k n (by rw [h2, hsv])
      · rw [h1]
        rcases h4 with ⟨h5, h6⟩ | ⟨h5, _, _⟩
        · rw [hsv] at h5
          cases h5
          rcases h6 with h6 | h6
          · rw [h6]
            refine ⟨by simp [h2], by simp [h3, List.range'_succ]⟩
          · rw [h6]
            simp only [Option.isSome_some, if_true]
            obtain ⟨i1, i2⟩ := ih s' k (n + 1) h6
            refine ⟨?_, ?_⟩
            · intro r' hr'
              simp only [List.singleton_append, List.mem_cons] at hr'
              rcases hr' with rfl | hr'
              · exact h2
              · exact i1 r' hr'
            · simp only [List.singleton_append, List.map_cons, List.length_cons, h3, i2]
              rw [List.range'_succ]
        · rw [hsv] at h5; cases h5

/-- **Start of a session.**  The step that puts a connection into the free slot `i` seals exactly one datagram
    for it (the keep-alive that completes the handshake), under the connection's send key, with sequence
    number 0 (pending connections have counter 0), and leaves the counter at 1. -/
theorem open_starts {a : AEAD} {s s' : NetcodeServer} {op : SOp} {evs : List SEv} {i : Nat} {k : Bytes} {n : Nat}
    (h : sstep a s op = some (s', evs)) (hfree : sv s i = none) (hocc : sv s' i = some (k, n)) (hp : PendInv s) :
    ∃ r, sessRecs i evs = [r] ∧ r.key = k ∧ r.seq = 0 ∧ n = 1 := by
  rcases step_slot i h with ⟨_, h2⟩ | ⟨r, k', n', h1, h2, h3, h4⟩
  · rcases h2 with h2 | h2
    · rw [h2] at hocc; cases hocc
    · rw [h2, hfree] at hocc; cases hocc
  · rcases h4 with ⟨h5, _⟩ | ⟨_, h6, h7⟩
    · rw [hfree] at h5; cases h5
    · rw [hocc] at h6
      cases h6
      have := h7 hp
      subst this
      exact ⟨r, h1, h2, h3, rfl⟩

/-- **One connection attempt and the session that follows.**  From the step that opens the session in slot `i`
    on, the records sealed for that session — handshake-completing keep-alive included — are all under the
    session's send key and numbered 0, 1, 2, …  So the `m`-th datagram of a session carries sequence number `m`:
    a session counter reaches 2^63 only after 2^63 datagrams. -/
theorem attempt_consecutive {a : AEAD} {s s' : NetcodeServer} {op : SOp} {evs : List SEv} {i : Nat} {k : Bytes} {n : Nat}
    (h : sstep a s op = some (s', evs)) (hfree : sv s i = none) (hocc : sv s' i = some (k, n)) (hp : PendInv s)
    (ops : List SOp) :
    (∀ r ∈ sessRecs i evs ++ sessLog a i s' ops, r.key = k) ∧
    (sessRecs i evs ++ sessLog a i s' ops).map (·.seq) = List.range' 0 (sessRecs i evs ++ sessLog a i s' ops).length := by
  obtain ⟨r, h1, h2, h3, rfl⟩ := open_starts h hfree hocc hp
  obtain ⟨i1, i2⟩ := sess_consecutive a i ops s' k 1 hocc
  rw [h1]
  refine ⟨?_, ?_⟩
  · intro r' hr'
    simp only [List.singleton_append, List.mem_cons] at hr'
    rcases hr' with rfl | hr'
    · exact h2
    · exact i1 r' hr'
  · simp only [List.singleton_append, List.map_cons, List.length_cons, h3, i2]
    rw [List.range'_succ]

/-- **Handshake and session nonces never meet.**  In any run from a state whose global sequence is at least 2^63
    (the value `NetcodeServer::new` sets), every handshake reply carries a sequence number ≥ 2^63, while the `m`-th
    datagram of a session carries `m`; so no handshake reply shares its nonce with any of the first 2^63 datagrams
    of any session — under whatever key.  (Defect D9, repaired: both counters used to start at 0.) -/
theorem hs_ge (a : AEAD) (ops : List SOp) (s : NetcodeServer) (hg : C.NETCODE_GLOBAL_SEQUENCE_START ≤ s.globalSequence) :
    ∀ q ∈ hsSeqs (strace a s ops), 2 ^ 63 ≤ q := by
  intro q hq
  rw [hs_consecutive] at hq
  have := (List.mem_range'_1.1 hq).1
  have h63 : C.NETCODE_GLOBAL_SEQUENCE_START = 2 ^ 63 := rfl
  omega

theorem hs_strict (a : AEAD) (ops : List SOp) (s : NetcodeServer) :
    (hsSeqs (strace a s ops)).Pairwise (· < ·) := by
  rw [hs_consecutive]
  exact List.pairwise_lt_range'

theorem new_inv {now maxc proto : Nat} {addrs : List Addr} {secure : Bool} {pk ck : Bytes} {s : NetcodeServer}
    (h : NetcodeServer.new now maxc proto addrs secure pk ck = .ok s) :
    PendInv s ∧ s.globalSequence = C.NETCODE_GLOBAL_SEQUENCE_START ∧ ∀ i, sv s i = none := by
  unfold NetcodeServer.new at h
  split at h
  · cases h
  · cases h
    refine ⟨fun x hx => by simp at hx, rfl, fun i => ?_⟩
    simp only [sv, List.getD_eq_getElem?_getD]
    cases hh : (List.replicate maxc (none : Option Connection))[i]? with
    | none => rfl
    | some v =>
      have := List.mem_of_getElem? hh
      rw [List.mem_replicate] at this
      rw [this.2]; rfl

/-- every ghost event of a run agrees with the datagram actually emitted (soundness of the instrumentation) -/
def EvSound (a : AEAD) : SEv → Prop
  | .hs seq out => ∃ (key : Bytes) (p : Netcode.Packet) (proto : Nat), p.packetType ≠ .connectionRequest ∧
      out = (sealOf p proto seq key).datagram a
  | .sess _ r out => out = r.datagram a

theorem strace_sound (a : AEAD) (ops : List SOp) : ∀ s, ∀ ev ∈ strace a s ops, EvSound a ev := by
  induction ops with
  | nil => intro s ev h; simp [strace] at h
  | cons op ops ih =>
    intro s ev h
    simp only [strace] at h
    cases hs : sstep a s op with
    | none => rw [hs] at h; simp at h
    | some x =>
      obtain ⟨s', evs⟩ := x
      rw [hs] at h
      simp only [List.mem_append] at h
      rcases h with h | h
      · have hok := sstep_ok hs
        match evs, hok, h with
        | [.hs seq out], hok, h =>
          simp only [List.mem_singleton] at h
          subst h
          obtain ⟨rfl, hh⟩ := hok
          obtain ⟨key, p, h1, h2⟩ := hh.sound
          exact ⟨key, p, _, h1, h2⟩
        | [.sess i r out], hok, h =>
          simp only [List.mem_singleton] at h
          subst h
          rcases hok with hh | hh
          · exact hh.sound
          · exact hh.sound
      · exact ih s' ev h

end Sv

namespace Sv
open Netcode.Packet Packet NetcodeServer

def SEv.out : SEv → Bytes
  | .hs _ out => out
  | .sess _ _ out => out

/-- the datagrams one API call of the model emits, read off the model's own results -/
def sout (a : AEAD) (s : NetcodeServer) : SOp → List Bytes
  | .recv addr buf =>
    match s.processPacket a addr buf with
    | .ok (res, _) => resOut res
    | _ => []
  | .updateClient cid =>
    match s.updateClient a cid with
    | .ok (res, _) => resOut res
    | _ => []
  | .send cid pl =>
    match s.generatePayloadPacket a cid pl with
    | .ok ((_, out), _) => [out]
    | _ => []
  | .disconnect cid =>
    match NetcodeServer.disconnect a s cid with
    | .ok (res, _) => resOut res
    | _ => []
  | .tick _ => []
  | .setMax _ => []

/-- completeness of the instrumentation: every datagram the model emits has its ghost event, in order -/
theorem sstep_complete {a : AEAD} {s s' : NetcodeServer} {op : SOp} {evs : List SEv}
    (h : sstep a s op = some (s', evs)) : evs.map SEv.out = sout a s op := by
  cases op with
  | setMax n => simp only [sstep] at h; cases h; rfl
  | tick d =>
    simp only [sstep] at h
    split at h
    · cases h; rfl
    · cases h
  | send id0 pl =>
    simp only [sstep] at h
    split at h
    · rename_i ad out s'' hp
      cases h
      obtain ⟨i, cl, h1, h2, _⟩ := payload_spec hp
      rw [sessEv_eq _ _ h1 h2]
      simp only [sout, hp]; rfl
    · rename_i e he; cases h; simp only [sout, he]; rfl
    · cases h
  | disconnect id0 =>
    simp only [sstep] at h
    split at h
    · rename_i res s'' hp
      cases h
      simp only [sout, hp]
      rcases disconnect_spec hp with ⟨_, hne⟩ | ⟨i, cl, cid, ad, out, rfl, h1, h2, _⟩
      · rw [hne]
        cases res with
        | clientDisconnected cid ad o =>
          cases o with
          | none => rfl
          | some out => simp [resOut] at hne
        | _ => rfl
      · simp only [resOut]
        rw [sessEv_eq _ _ h1 h2]; rfl
    · cases h
  | updateClient id0 =>
    simp only [sstep] at h
    split at h
    · rename_i res s'' hp
      cases h
      simp only [sout, hp]
      rcases updateClient_spec hp with ⟨_, hne⟩ | ⟨i, cl, h1, h2, ⟨ad, out, rfl, _⟩ | ⟨cid, ad, out, rfl, _⟩⟩
      · rw [hne]
        cases res with
        | clientDisconnected cid ad o =>
          cases o with
          | none => rfl
          | some out => simp [resOut] at hne
        | packetToSend ad out => simp [resOut] at hne
        | _ => rfl
      · simp only [h1, resOut]
        rw [sessEv_eq _ _ h1 h2]; rfl
      · simp only [resOut]
        rw [sessEv_eq _ _ h1 h2]; rfl
    · cases h
  | recv addr buf =>
    simp only [sstep] at h
    split at h
    · rename_i res s'' hp
      cases h
      simp only [sout, hp]
      have hpost := ppi_post a s addr buf
      unfold NetcodeServer.processPacket at hp
      split at hp
      · rename_i r hr
        cases hp
        rw [hr] at hpost
        simp only [Post] at hpost
        cases res with
        | none => rfl
        | payload _ _ => rfl
        | clientDisconnected cid ad o =>
          simp only [OkPost] at hpost
          rw [hpost.2]; rfl
        | packetToSend ad out => rfl
        | clientConnected cid ad ud out =>
          simp only [OkPost] at hpost
          obtain ⟨_, _, i, cl', h4, h5, _⟩ := hpost
          simp only [h4, h5]; rfl
      · cases hp; rfl
      · cases hp
    · cases h

end Sv

namespace Cl
open NetcodeClient

/-- `NetcodeClient::new` starts the counter at 0 -/
theorem new_sequence {now : Nat} {t : ConnectToken} {c : NetcodeClient} (h : NetcodeClient.new now t = .ok c) :
    c.sequence = 0 ∧ c.connectToken = t ∧ c.state = .sendingConnectionRequest := by
  unfold NetcodeClient.new at h
  split at h
  · cases h; exact ⟨rfl, rfl, rfl⟩
  · cases h

end Cl

namespace Token

theorem io?_bind_ok {α β} {o : Option α} {f : α → NRes β} {b : β} (h : (io? o >>= f) = .ok b) :
    ∃ x, o = some x ∧ f x = .ok b := by
  cases o with
  | none => cases h
  | some x => exact ⟨x, rfl, h⟩

theorem readI32_some {src r : Bytes} {t : Int} (h : readI32 src = some (t, r)) :
    -(2 ^ 31 : Int) ≤ t ∧ t < 2 ^ 31 ∧ ∃ b, b.length = 4 ∧ src = b ++ r := by
  unfold readI32 at h
  cases hu : readU 4 src with
  | none => rw [hu] at h; cases h
  | some x =>
    obtain ⟨v, r'⟩ := x
    rw [hu] at h
    simp only [Option.some.injEq, Prod.mk.injEq] at h
    obtain ⟨rfl, rfl⟩ := h
    obtain ⟨b, h1, h2, _, h4⟩ := readU_some hu
    refine ⟨?_, ?_, b, h1, h2⟩
    · unfold i32OfU32; split <;> omega
    · unfold i32OfU32; split <;> omega

/-- `read_server_addresses` loop (repaired, D19): every entry it returns is a well-formed address — a NONE entry is
    an error — so the list has no holes -/
theorem readAddrLoop_some : ∀ (n : Nat) {src r : Bytes} {l : List (Option Addr)}, readAddrLoop n src = some (l, r) →
    ∃ hosts : List Addr, l = hosts.map some ∧ hosts.length = n ∧ ∀ x ∈ hosts, x.WF := by
  intro n
  induction n with
  | zero => intro src r l h; simp only [readAddrLoop] at h; cases h; exact ⟨[], rfl, rfl, by simp⟩
  | succ n ih =>
    intro src r l h
    simp only [readAddrLoop, Option.bind_eq_bind, Option.bind_eq_some_iff, Prod.exists] at h
    obtain ⟨ty, r1, h1, h⟩ := h
    split at h
    · simp only [Option.bind_eq_some_iff, Option.pure_def, Option.some.injEq, Prod.exists, Prod.mk.injEq] at h
      obtain ⟨ip, r2, h2, port, r3, h3, rest, r4, h4, rfl, rfl⟩ := h
      obtain ⟨hosts, rfl, hl, hw⟩ := ih h4
      obtain ⟨_, _, _, l2, _⟩ := readN_some h2
      obtain ⟨_, _, _, _, b3⟩ := readU_some h3
      refine ⟨.v4 ip port :: hosts, rfl, by simp [hl], ?_⟩
      intro x hx
      simp only [List.mem_cons] at hx
      rcases hx with rfl | hx
      · exact ⟨l2, by simpa using b3⟩
      · exact hw x hx
    · split at h
      · simp only [Option.bind_eq_some_iff, Option.pure_def, Option.some.injEq, Prod.exists, Prod.mk.injEq] at h
        obtain ⟨ip, r2, h2, port, r3, h3, rest, r4, h4, rfl, rfl⟩ := h
        obtain ⟨hosts, rfl, hl, hw⟩ := ih h4
        obtain ⟨_, _, _, l2, _⟩ := readN_some h2
        obtain ⟨_, _, _, _, b3⟩ := readU_some h3
        refine ⟨.v6 ip port :: hosts, rfl, by simp [hl], ?_⟩
        intro x hx
        simp only [List.mem_cons] at hx
        rcases hx with rfl | hx
        · exact ⟨l2, by simpa using b3⟩
        · exact hw x hx
      · split at h <;> cases h

/-- every address array `read_server_addresses` accepts is prefix-compact with at least one address -/
theorem readServerAddresses_compact {src r : Bytes} {arr : AddrArray} (h : readServerAddresses src = some (arr, r)) :
    Compact arr := by
  unfold readServerAddresses at h
  simp only [Option.bind_eq_bind, Option.bind_eq_some_iff, Prod.exists] at h
  obtain ⟨num, r1, _, l, r2, h2, h⟩ := h
  obtain ⟨hosts, rfl, hl, hw⟩ := readAddrLoop_some _ h2
  have h32 : hosts.length ≤ C.NETCODE_TOKEN_MAX_ADDRESSES := by rw [hl]; exact Nat.min_le_right _ _
  split at h
  · rename_i x hhead
    simp only [Option.pure_def, Option.some.injEq, Prod.mk.injEq] at h
    obtain ⟨rfl, _⟩ := h
    refine ⟨hosts, ?_, h32, hw, by simp⟩
    intro hn; subst hn
    simp [C.NETCODE_TOKEN_MAX_ADDRESSES, RenetVerif.C.NETCODE_TOKEN_MAX_ADDRESSES, List.replicate_succ] at hhead
  · cases h

/-- what `ConnectToken::read` returns has the field widths of the Rust type, the library's version string and a
    prefix-compact address array -/
theorem ct_read_wf {src : Bytes} {t : ConnectToken} (h : ConnectToken.read src = .ok t) : CTokenWF t := by
  unfold ConnectToken.read at h
  obtain ⟨⟨cid, r1⟩, h1, h⟩ := io?_bind_ok h
  obtain ⟨⟨v, r2⟩, h2, h⟩ := io?_bind_ok h
  simp only at h
  split at h
  · cases h
  rename_i hv
  obtain ⟨⟨pid, r3⟩, h3, h⟩ := io?_bind_ok h
  obtain ⟨⟨ct, r4⟩, h4, h⟩ := io?_bind_ok h
  obtain ⟨⟨et, r5⟩, h5, h⟩ := io?_bind_ok h
  obtain ⟨⟨xn, r6⟩, h6, h⟩ := io?_bind_ok h
  obtain ⟨⟨pd, r7⟩, h7, h⟩ := io?_bind_ok h
  obtain ⟨⟨to, r8⟩, h8, h⟩ := io?_bind_ok h
  obtain ⟨⟨sa, r9⟩, h9, h⟩ := io?_bind_ok h
  obtain ⟨⟨k1, r10⟩, h10, h⟩ := io?_bind_ok h
  obtain ⟨⟨k2, r11⟩, h11, h⟩ := io?_bind_ok h
  cases h
  have hc : Compact sa := readServerAddresses_compact h9
  have hv' : v = C.NETCODE_VERSION_INFO := by simpa using hv
  obtain ⟨_, _, _, l2, _⟩ := readN_some h2
  obtain ⟨_, _, _, _, b1⟩ := readU_some h1
  obtain ⟨_, _, _, _, b3⟩ := readU_some h3
  obtain ⟨_, _, _, _, b4⟩ := readU_some h4
  obtain ⟨_, _, _, _, b5⟩ := readU_some h5
  obtain ⟨_, _, _, l6, _⟩ := readN_some h6
  obtain ⟨_, _, _, l7, _⟩ := readN_some h7
  obtain ⟨t1, t2, _⟩ := readI32_some h8
  obtain ⟨_, _, _, l10, _⟩ := readN_some h10
  obtain ⟨_, _, _, l11, _⟩ := readN_some h11
  exact ⟨⟨by simpa using b1, l2, by simpa using b3, by simpa using b4, by simpa using b5, l6, compact_length hc,
    compact_wf hc, l10, l11, l7, t1, t2⟩, hv', hc⟩

/-- **Re-encoding of connect tokens** (unconditional since the repair of D19): a byte string that `read` accepts
    re-encodes to bytes that decode to the same token.  (Before the repair `read` skipped NONE entries and accepted
    address lists with holes, for which this failed: the write format does not record which slots are empty.) -/
theorem ct_reencode {src : Bytes} {t : ConnectToken} (h : ConnectToken.read src = .ok t) :
    ∃ b', t.write = .ok b' ∧ ConnectToken.read b' = .ok t := by
  have hwf := ct_read_wf h
  refine ⟨ctBytes t, ct_write_eq hwf, ?_⟩
  have := ct_read_bytes hwf []
  rwa [List.append_nil] at this

/-- the reader refuses an address list with a NONE entry (this input was accepted before the repair of D19) -/
theorem read_rejects_hole :
    readServerAddresses ([3, 0, 0, 0] ++ [1, 127, 0, 0, 1, 136, 19] ++ [0] ++ [1, 10, 0, 0, 2, 112, 23]) = none := by
  decide +kernel

/-- what `PrivateConnectToken::read` returns is well-formed (so the server only ever sees prefix-compact host lists) -/
theorem pt_read_wf {src : Bytes} {t : PrivateConnectToken} (h : PrivateConnectToken.read src = some t) : PTokenWF t := by
  unfold PrivateConnectToken.read at h
  simp only [Option.bind_eq_bind, Option.bind_eq_some_iff, Option.pure_def, Option.some.injEq, Prod.exists] at h
  obtain ⟨cid, r1, h1, to, r2, h2, sa, r3, h3, k1, r4, h4, k2, r5, h5, ud, r6, h6, rfl⟩ := h
  obtain ⟨_, _, _, _, b1⟩ := readU_some h1
  obtain ⟨t1, t2, _⟩ := readI32_some h2
  obtain ⟨_, _, _, l4, _⟩ := readN_some h4
  obtain ⟨_, _, _, l5, _⟩ := readN_some h5
  obtain ⟨_, _, _, l6, _⟩ := readN_some h6
  exact ⟨by simpa using b1, t1, t2, readServerAddresses_compact h3, l4, l5, l6⟩

theorem pt_decode_wf {a : AEAD} {buf : Bytes} {proto expire : Nat} {xnonce key : Bytes} {t : PrivateConnectToken}
    (h : PrivateConnectToken.decode a buf proto expire xnonce key = .ok t) : PTokenWF t := by
  obtain ⟨_, plain, _, hr⟩ := Bind.pt_decode_binds h
  exact pt_read_wf hr

end Token

end RenetVerif.NcAead
