/-
  Helper lemmas for the source tie: the definitions of `RenetVerif/Generated/Src.lean` (regenerated from
  the Rust text by /verif/translator on every check run) agree with the hand-written model.
  Sections: step lemmas for the RustSem primitives; A replay protection; B netcode prefix byte;
  C slice constructor.  Headline statements are in `Props/SrcTie.lean`.
-/
import RenetVerif.Generated.Src
import RenetVerif.Netcode.Replay
import RenetVerif.Netcode.Wire
import RenetVerif.Renet.Channels
namespace RenetVerif.SrcEquiv
open RenetVerif RenetVerif.RustSem

/-! ## step lemmas for the primitives -/
section prims
variable {ε ρ α β σ : Type}
theorem add_val {w a b : Nat} {s : String} (h : a + b < 2 ^ w) : (RustSem.add w a b s : Exec ε ρ Nat) = .val (a + b) := by
  simp [RustSem.add, h]
theorem add_panic {w a b : Nat} {s : String} (h : ¬ a + b < 2 ^ w) : (RustSem.add w a b s : Exec ε ρ Nat) = .panic s := by
  simp [RustSem.add, h]
theorem sub_val {w a b : Nat} {s : String} (h : b ≤ a) : (RustSem.sub w a b s : Exec ε ρ Nat) = .val (a - b) := by
  simp [RustSem.sub, h]
theorem sub_panic {w a b : Nat} {s : String} (h : ¬ b ≤ a) : (RustSem.sub w a b s : Exec ε ρ Nat) = .panic s := by
  simp [RustSem.sub, h]
theorem mul_val {w a b : Nat} {s : String} (h : a * b < 2 ^ w) : (RustSem.mul w a b s : Exec ε ρ Nat) = .val (a * b) := by
  simp [RustSem.mul, h]
theorem mul_panic {w a b : Nat} {s : String} (h : ¬ a * b < 2 ^ w) : (RustSem.mul w a b s : Exec ε ρ Nat) = .panic s := by
  simp [RustSem.mul, h]
theorem rem_val {w a b : Nat} {s : String} (h : b ≠ 0) : (RustSem.rem w a b s : Exec ε ρ Nat) = .val (a % b) := by
  simp [RustSem.rem, h]
theorem shr_val {w a n : Nat} {s : String} (h : n < w) : (RustSem.shr w a n s : Exec ε ρ Nat) = .val (a >>> n) := by
  simp [RustSem.shr, h]
theorem shl_val {w a n : Nat} {s : String} (h : n < w) : (RustSem.shl w a n s : Exec ε ρ Nat) = .val ((a <<< n) % 2 ^ w) := by
  simp [RustSem.shl, h]
theorem index_val {l : List α} {i : Nat} {x : α} {s : String} (h : l[i]? = some x) :
    (RustSem.index l i s : Exec ε ρ α) = .val x := by
  simp [RustSem.index, h]
theorem index_panic {l : List α} {i : Nat} {s : String} (h : l[i]? = none) :
    (RustSem.index l i s : Exec ε ρ α) = .panic s := by
  simp [RustSem.index, h]
theorem set_val {l : List α} {i : Nat} {x : α} {s : String} (h : i < l.length) :
    (RustSem.set l i x s : Exec ε ρ (List α)) = .val (l.set i x) := by
  simp [RustSem.set, h]
theorem cast_of_lt {w x : Nat} (h : x < 2 ^ w) : RustSem.cast w x = x := Nat.mod_eq_of_lt h

theorem Exec.bind_val' (a : α) (f : α → Exec ε ρ β) : (Exec.val a).bind f = f a := rfl
theorem Exec.bind_ret' (r : ρ) (f : α → Exec ε ρ β) : (Exec.ret r : Exec ε ρ α).bind f = .ret r := rfl
theorem Exec.bind_err' (e : ε) (f : α → Exec ε ρ β) : (Exec.err e : Exec ε ρ α).bind f = .err e := rfl
theorem Exec.bind_panic' (s : String) (f : α → Exec ε ρ β) : (Exec.panic s : Exec ε ρ α).bind f = .panic s := rfl
theorem Exec.bind_assoc' {γ : Type} (x : Exec ε ρ α) (f : α → Exec ε ρ β) (g : β → Exec ε ρ γ) :
    (x.bind f).bind g = x.bind (fun a => (f a).bind g) := by cases x <;> rfl
theorem Exec.ite_bind (c : Prop) [Decidable c] (a b : Exec ε ρ α) (f : α → Exec ε ρ β) :
    (if c then a else b).bind f = if c then a.bind f else b.bind f := by split <;> rfl
theorem Exec.ite_run (c : Prop) [Decidable c] (a b : Exec ε ρ ρ) :
    (if c then a else b).run = if c then a.run else b.run := by split <;> rfl

theorem forRange_succ {lo hi : Nat} (h : lo < hi) (init : σ) (body : Nat → σ → Exec ε ρ σ) :
    RustSem.forRange lo hi init body = (body lo init).bind (fun st => RustSem.forRange (lo + 1) hi st body) := by
  unfold RustSem.forRange
  have : hi - lo = (hi - (lo + 1)) + 1 := by omega
  rw [this, RustSem.forRange.loop]
theorem forRange_done {lo hi : Nat} (h : hi ≤ lo) (init : σ) (body : Nat → σ → Exec ε ρ σ) :
    RustSem.forRange lo hi init body = .val init := by
  unfold RustSem.forRange
  have : hi - lo = 0 := by omega
  rw [this, RustSem.forRange.loop]

/-- map the outcome of a generated function to the model's types (panic sites are kept) -/
def mapRes {ε ε' α β : Type} (f : α → β) (g : ε → ε') : Res ε α → Res ε' β
  | .ok a => .ok (f a)
  | .err e => .err (g e)
  | .panic s => .panic s

/-- same outcome: equal `ok` values, equal `err` values, panic iff panic (the site text is not compared:
    the model and the generated code name their panic sites differently) -/
def SameOutcome {ε α : Type} : Res ε α → Res ε α → Prop
  | .ok a, .ok b => a = b
  | .err a, .err b => a = b
  | .panic _, .panic _ => True
  | _, _ => False
end prims

/-! ## A. replay protection -/
section A
open Netcode
open Src.renetcode.replay_protection

def reprRP (rp : RP) : ReplayProtection := ⟨rp.mostRecent, rp.received.toList⟩

theorem reprRP_get (rp : RP) (s : Nat) : (reprRP rp).received_packet[s % 256]? = some (rp.at s) := by
  simp [reprRP, RP.at]

theorem rp_new_eq {ε} : (ReplayProtection.new : Res ε _) = .ok (reprRP RP.new) := by
  unfold ReplayProtection.new
  simp only [Exec.pure_eq, Exec.run_val]
  rfl

theorem already_received_eq {ε} (rp : RP) (s : Nat) (hs : s < 2 ^ 64) :
    (ReplayProtection.already_received (reprRP rp) s : Res ε Bool) = .ok (rp.alreadyReceived s) := by
  unfold ReplayProtection.already_received
  simp only [NETCODE_REPLAY_BUFFER_SIZE, EMPTY, RustSem.MAX, cast_of_lt hs, cast_of_lt (show 256 < 2 ^ 64 by decide),
    rem_val (show 256 ≠ 0 by decide), Exec.bind_val, index_val (reprRP_get rp s),
    RP.alreadyReceived, RP.alreadyReceived.U64, Replay.EMPTY, RustSem.checked_add]
  have hm : (reprRP rp).most_recent_sequence = rp.mostRecent := rfl
  rw [hm]
  generalize rp.at s = v
  generalize rp.mostRecent = m
  by_cases h1 : s + 256 < 2 ^ 64 <;> by_cases h2 : s + 256 ≤ m <;> by_cases h3 : v = 2 ^ 64 - 1 <;>
    by_cases h4 : v ≥ s <;>
    simp [h1, h2, h3, h4, Exec.bind_eq, Exec.bind, Exec.run, Exec.pure_eq] <;> omega

theorem advance_sequence_eq {ε} (rp : RP) (s : Nat) (hs : s < 2 ^ 64) :
    (ReplayProtection.advance_sequence (reprRP rp) s : Res ε _) = .ok (reprRP (rp.advance s), ()) := by
  unfold ReplayProtection.advance_sequence
  have hlen : s % 256 < rp.received.toList.length := by
    simp; exact Nat.mod_lt _ (by decide)
  simp only [NETCODE_REPLAY_BUFFER_SIZE, cast_of_lt hs, rem_val (show 256 ≠ 0 by decide), Exec.pure_eq, reprRP,
    Exec.bind_val]
  by_cases h : s > rp.mostRecent
  · simp only [h, decide_true, if_true, Exec.bind_val, set_val hlen, Exec.run_val, RP.advance, Vector.toList_set]
  · simp only [h, decide_false, Bool.false_eq_true, if_false, Exec.bind_val, set_val hlen, Exec.run_val, RP.advance, Vector.toList_set]

/-- well-formed source state: the `[u64; 256]` array has its 256 entries -/
def WfRP (st : ReplayProtection) : Prop := st.received_packet.length = 256
instance (st : ReplayProtection) : Decidable (WfRP st) := by unfold WfRP; infer_instance

/-- abstraction: generated `ReplayProtection` ↦ model `RP` -/
def absRP (st : ReplayProtection) (h : WfRP st) : RP :=
  ⟨st.most_recent_sequence, ⟨st.received_packet.toArray, by simpa [WfRP] using h⟩⟩

theorem wf_reprRP (rp : RP) : WfRP (reprRP rp) := by simp [WfRP, reprRP]
theorem reprRP_absRP (st : ReplayProtection) (h : WfRP st) : reprRP (absRP st h) = st := by
  cases st; simp [reprRP, absRP]
theorem absRP_reprRP (rp : RP) (h : WfRP (reprRP rp)) : absRP (reprRP rp) h = rp := by
  obtain ⟨m, ⟨a, ha⟩⟩ := rp; simp [reprRP, absRP]
end A

/-! ## B. netcode prefix byte, packet type -/
/-- `x & (0xFF << 8k)` is zero iff byte `k` of `x` is zero -/
theorem and_byte_mask (x k : Nat) : x &&& (255 <<< (8 * k)) = 0 ↔ x / 256 ^ k % 256 = 0 := by
  have e : x &&& (255 <<< (8 * k)) = ((x >>> (8 * k)) &&& 255) <<< (8 * k) := by
    apply Nat.eq_of_testBit_eq
    intro i
    simp only [Nat.testBit_and, Nat.testBit_shiftLeft, Nat.testBit_shiftRight]
    by_cases h : i ≥ 8 * k
    · have : 8 * k + (i - 8 * k) = i := by omega
      simp [h, this]
    · simp [h]
  rw [e, Nat.shiftLeft_eq, Nat.mul_eq_zero]
  have h2 : (2 : Nat) ^ (8 * k) ≠ 0 := Nat.pos_iff_ne_zero.mp (Nat.pow_pos (by decide))
  have h3 : (x >>> (8 * k)) &&& 255 = x / 256 ^ k % 256 := by
    rw [show (255 : Nat) = 2 ^ 8 - 1 by decide, Nat.and_two_pow_sub_one_eq_mod, Nat.shiftRight_eq_div_pow, Nat.pow_mul]
  rw [h3]
  simp

section B
open Netcode
open Src.renetcode.packet

theorem sequence_bytes_required_eq {ε} (s : Nat) :
    (sequence_bytes_required s : Res ε Nat) = .ok (Packet.sequenceBytesRequired s) := by
  have m7 := and_byte_mask s 7
  have m6 := and_byte_mask s 6
  have m5 := and_byte_mask s 5
  have m4 := and_byte_mask s 4
  have m3 := and_byte_mask s 3
  have m2 := and_byte_mask s 2
  have m1 := and_byte_mask s 1
  have m0 := and_byte_mask s 0
  simp only [Nat.reduceMul, Nat.reduceShiftLeft] at m7 m6 m5 m4 m3 m2 m1 m0
  unfold sequence_bytes_required
  simp only [Packet.sequenceBytesRequired, Packet.sequenceBytesRequired.go]
  simp only [forRange_succ (show 0 < 8 by decide), forRange_succ (show 1 < 8 by decide), forRange_succ (show 2 < 8 by decide),
    forRange_succ (show 3 < 8 by decide), forRange_succ (show 4 < 8 by decide), forRange_succ (show 5 < 8 by decide),
    forRange_succ (show 6 < 8 by decide), forRange_succ (show 7 < 8 by decide), forRange_done (Nat.le_refl 8), Nat.reduceAdd,
    RustSem.band, shr_val (show 8 < 64 by decide), Exec.bind_eq, Exec.pure_eq]
  simp only [Exec.ite_bind, Exec.bind_val', Exec.bind_ret', Exec.ite_run, Exec.run_ret, Exec.run_val,
    sub_val (show 0 ≤ 8 by decide), sub_val (show 1 ≤ 8 by decide),
    sub_val (show 2 ≤ 8 by decide), sub_val (show 3 ≤ 8 by decide), sub_val (show 4 ≤ 8 by decide), sub_val (show 5 ≤ 8 by decide),
    sub_val (show 6 ≤ 8 by decide), sub_val (show 7 ≤ 8 by decide), Nat.reduceSub, Nat.reduceShiftRight,
    ne_eq, decide_not, Bool.not_eq_eq_eq_not, Bool.not_true, decide_eq_false_iff_not, m7, m6, m5, m4, m3, m2, m1, m0]
  repeat' split
  all_goals rfl

theorem sbr_bounds (s : Nat) : 1 ≤ Packet.sequenceBytesRequired s ∧ Packet.sequenceBytesRequired s ≤ 8 := by
  simp only [Packet.sequenceBytesRequired, Packet.sequenceBytesRequired.go]
  repeat' split
  all_goals omega

theorem encode_prefix_eq {ε} (value s : Nat) (hv : value < 16) :
    (encode_prefix value s : Res ε Nat) = .ok (Packet.encodePrefix value s).toNat := by
  unfold encode_prefix
  have hb := sbr_bounds s
  generalize hn : Packet.sequenceBytesRequired s = n at hb
  have h1 : RustSem.cast 8 n = n := cast_of_lt (by omega)
  have h2 : (n <<< 4) % 2 ^ 8 = n <<< 4 := by
    rw [Nat.shiftLeft_eq]; exact Nat.mod_eq_of_lt (by omega)
  have h3 : value ||| n <<< 4 = value + n * 16 := by
    rw [Nat.or_comm, ← Nat.shiftLeft_add_eq_or_of_lt (by simpa using hv), Nat.shiftLeft_eq]; omega
  have h4 : (value + n * 16) % 256 = value + n * 16 := Nat.mod_eq_of_lt (by omega)
  simp only [sequence_bytes_required_eq, hn, Exec.call_ok, Exec.bind_val, h1, shl_val (show 4 < 8 by decide), h2, Exec.pure_eq,
    Exec.run_val, RustSem.bor, h3, Packet.encodePrefix, UInt8.toNat_ofNat', h4]

theorem decode_prefix_eq {ε} (v : UInt8) :
    (decode_prefix v.toNat : Res ε (Nat × Nat)) = .ok (Packet.decodePrefix v) := by
  unfold decode_prefix
  have hv : v.toNat < 256 := v.toNat_lt
  have h1 : RustSem.cast 64 (v.toNat >>> 4) = v.toNat / 16 := by
    rw [Nat.shiftRight_eq_div_pow]; exact cast_of_lt (by omega)
  have h2 : v.toNat &&& 0xF = v.toNat % 16 := Nat.and_two_pow_sub_one_eq_mod _ 4
  simp only [shr_val (show 4 < 8 by decide), Exec.bind_val, Exec.pure_eq, Exec.run_val, RustSem.band, h1, h2, Packet.decodePrefix]

abbrev SPacketType := Src.renetcode.packet.PacketType
abbrev SNetcodeError := Src.renetcode.error.NetcodeError

def absPT : SPacketType → Netcode.PacketType
  | .ConnectionRequest => .connectionRequest | .ConnectionDenied => .connectionDenied | .Challenge => .challenge
  | .Response => .response | .KeepAlive => .keepAlive | .Payload => .payload | .Disconnect => .disconnect

def absDR : Src.renetcode.client.DisconnectReason → Netcode.DisconnectReason
  | .ConnectTokenExpired => .connectTokenExpired | .ConnectionTimedOut => .connectionTimedOut
  | .ConnectionResponseTimedOut => .connectionResponseTimedOut | .ConnectionRequestTimedOut => .connectionRequestTimedOut
  | .ConnectionDenied => .connectionDenied | .DisconnectedByClient => .disconnectedByClient
  | .DisconnectedByServer => .disconnectedByServer

def absTGE : Src.renetcode.token.TokenGenerationError → Netcode.TokenGenErr
  | .MaxHostCount => .maxHostCount | .CryptoError => .cryptoError | .IoError _ => .ioError
  | .NoServerAddressAvailable => .noServerAddressAvailable

def absErr : SNetcodeError → Netcode.NetcodeError
  | .UnavailablePrivateKey => .unavailablePrivateKey | .InvalidPacketType => .invalidPacketType
  | .InvalidProtocolID => .invalidProtocolID | .InvalidVersion => .invalidVersion | .PacketTooSmall => .packetTooSmall
  | .PayloadAboveLimit => .payloadAboveLimit | .DuplicatedSequence => .duplicatedSequence | .NoMoreServers => .noMoreServers
  | .Expired => .expired | .Disconnected r => .disconnected (absDR r) | .CryptoError => .cryptoError
  | .NotInHostList => .notInHostList | .ClientNotFound => .clientNotFound | .ClientNotConnected => .clientNotConnected
  | .IoError _ => .ioError | .TokenGenerationError e => .tokenGenerationError (absTGE e)

theorem apply_replay_protection_eq {ε} (t : SPacketType) :
    (PacketType.apply_replay_protection t : Res ε Bool) = .ok (absPT t).applyReplayProtection := by
  cases t <;> rfl

theorem from_u8_eq (v : Nat) :
    mapRes absPT absErr (PacketType.from_u8 v) = Netcode.PacketType.fromU8 v := by
  rcases v with _|_|_|_|_|_|_|n <;> rfl
end B

/-! ## C. slice constructor -/
section C
open Src.renet.channel.slice_constructor
abbrev SChannelError := Src.renet.error.ChannelError

def toNats (b : Bytes) : List Nat := b.map UInt8.toNat
def reprSC (mid : Nat) (c : SliceCtor) : SliceConstructor := ⟨mid, c.numSlices, c.numReceived, c.received, toNats c.data⟩
def reprCE : ChanErr → SChannelError
  | .maxMemory => .ReliableChannelMaxMemoryReached
  | .invalidSlice => .InvalidSliceMessage

theorem toNats_replicate (n : Nat) : toNats (List.replicate n 0) = List.replicate n 0 := by
  simp [toNats]
theorem toNats_length (b : Bytes) : (toNats b).length = b.length := by simp [toNats]

theorem sc_new_eq {ε} (mid n : Nat) (h : n * C.SLICE_SIZE < 2 ^ 64) :
    (SliceConstructor.new mid n : Res ε _) = .ok (reprSC mid (SliceCtor.new n)) := by
  unfold SliceConstructor.new
  simp only [Src.renet.packet.SLICE_SIZE, mul_val (show n * 1200 < 2 ^ 64 from h), Exec.bind_val, Exec.pure_eq, Exec.run_val,
    reprSC, SliceCtor.new, RustSem.repeat_, toNats_replicate, C.SLICE_SIZE]

theorem toNats_resize (d : Bytes) (n : Nat) : toNats (resize d n) = RustSem.resize (toNats d) n 0 := by
  simp [toNats, resize, RustSem.resize]

set_option maxRecDepth 10000 in
theorem process_slice_eq (mid : Nat) (c : SliceCtor) (idx : Nat) (bytes : Bytes)
    (hn : c.numSlices * C.SLICE_SIZE < 2 ^ 64) (hr : c.numReceived + 1 < 2 ^ 64) :
    SameOutcome (SliceConstructor.process_slice (reprSC mid c) idx (toNats bytes))
      (mapRes (fun r => (reprSC mid r.1, r.2.map toNats)) reprCE (c.processSlice idx bytes)) := by
  obtain ⟨n, nr, rc, d⟩ := c
  simp only [C.SLICE_SIZE] at hn hr
  unfold SliceConstructor.process_slice SliceCtor.processSlice
  simp only [reprSC, Src.renet.packet.SLICE_SIZE, C.SLICE_SIZE, RustSem.len, toNats_length, Exec.pure_eq]
  by_cases h1 : idx ≥ n
  · simp [h1, Exec.bind_eq, Exec.bind, Exec.run, mapRes, SameOutcome, reprCE]
  have hn1 : 1 ≤ n := by omega
  simp only [h1, decide_false, Bool.false_eq_true, if_false, Exec.bind_val, sub_val hn1]
  have hset : ∀ (dd : Bytes) (a b : Nat) (st : String) (st' : String), b = a + bytes.length →
      ∀ (k : List Nat → Exec SChannelError (SliceConstructor × Option (List Nat)) (SliceConstructor × Option (List Nat)))
        (k' : Bytes → Res ChanErr (SliceCtor × Option Bytes)),
      (∀ x, SameOutcome (k (toNats x)).run (mapRes (fun r => (reprSC mid r.1, r.2.map toNats)) reprCE (k' x))) →
      SameOutcome ((RustSem.copy_from_slice (toNats dd) a b (toNats bytes) st).bind k).run
        (mapRes (fun r => (reprSC mid r.1, r.2.map toNats)) reprCE (setRange dd a bytes st' >>= k')) := by
    intro dd a b st st' hb k k' hk
    subst hb
    unfold RustSem.copy_from_slice setRange
    simp only [toNats_length]
    by_cases hle : a + bytes.length ≤ dd.length
    · have : a ≤ a + bytes.length ∧ a + bytes.length ≤ dd.length ∧ bytes.length = a + bytes.length - a := by omega
      rw [if_pos this, if_pos hle]
      have e : List.take a (toNats dd) ++ toNats bytes ++ List.drop (a + bytes.length) (toNats dd)
          = toNats (List.take a dd ++ bytes ++ List.drop (a + bytes.length) dd) := by
        simp only [toNats, List.map_append, List.map_take, List.map_drop]
      rw [e]; exact hk _
    · have : ¬ (a ≤ a + bytes.length ∧ a + bytes.length ≤ dd.length ∧ bytes.length = a + bytes.length - a) := by omega
      rw [if_neg this, if_neg hle]
      trivial
  have hfin : ∀ (nr' : Nat) (rc' : List Bool) (x : Bytes),
      SameOutcome
        (((if decide (nr' = n) = true then
            (Exec.ret (({ message_id := mid, num_slices := n, num_received_slices := nr', received := rc', sliced_data := [] } : SliceConstructor),
              some (toNats x)) : Exec SChannelError _ SliceConstructor)
          else Exec.val ({ message_id := mid, num_slices := n, num_received_slices := nr', received := rc', sliced_data := toNats x } : SliceConstructor)).bind
            fun self => Exec.val (self, none)).run)
        (mapRes (fun r => (reprSC mid r.1, r.2.map toNats)) reprCE
          (if nr' = n then (pure (({ numSlices := n, numReceived := nr', received := rc', data := [] } : SliceCtor), some x) : Res ChanErr _)
           else pure (({ numSlices := n, numReceived := nr', received := rc', data := x } : SliceCtor), none))) := by
    intro nr' rc' x
    by_cases h : nr' = n <;> simp [h, Exec.bind, Exec.run, mapRes, SameOutcome, reprSC, toNats]
  simp only [reprSC] at hset hfin
  by_cases hl : idx = n - 1
  · subst hl
    simp only [decide_true, if_true, beq_self_eq_true, true_and, not_true_eq_false, false_and, if_false]
    by_cases hb : bytes.length > 1200
    · simp only [hb, decide_true, if_true, Exec.bind_eq, Exec.bind_err', Exec.run_err, mapRes, SameOutcome, reprCE]
    simp only [hb, decide_false, Bool.false_eq_true, if_false, Exec.bind_eq, Exec.bind_val']
    cases hg : rc[n - 1]? with
    | none => simp only [index_panic hg, Exec.bind_panic', Exec.run_panic, mapRes, SameOutcome]
    | some got =>
      simp only [index_val hg, Exec.bind_val']
      have hlt : n - 1 < rc.length := (List.getElem?_eq_some_iff.mp hg).1
      cases got with
      | true =>
        simp only [Bool.not_true, Bool.false_eq_true, if_false, Exec.bind_val', if_true, Res.bind_ok, Res.pure_eq]
        exact hfin nr rc d
      | false =>
        have hm : (n - 1) * 1200 < 2 ^ 64 := by omega
        have ha : (n - 1) * 1200 + bytes.length < 2 ^ 64 := by omega
        have hr' : nr + 1 < 2 ^ 64 := by omega
        simp only [Bool.not_false, if_true, set_val hlt, Exec.bind_val', Exec.bind_assoc', add_val hr', mul_val hm, add_val ha,
          sub_val hn1, decide_true, Bool.false_eq_true, if_false, ← toNats_resize]
        refine hset _ _ _ _ _ rfl _ _ (fun x => ?_)
        simp only [Res.bind_ok, Res.pure_eq]
        exact hfin (nr + 1) (rc.set (n - 1) true) x
  · have hbeq : (idx == n - 1) = false := by simpa using hl
    simp only [hl, decide_false, Bool.false_eq_true, if_false, hbeq, false_and, not_false_eq_true, true_and]
    by_cases hb : bytes.length ≠ 1200
    · simp only [hb, ne_eq, not_false_eq_true, decide_true, if_true, Exec.bind_eq, Exec.bind_err', Exec.run_err, mapRes, SameOutcome, reprCE]
    have hb' : bytes.length = 1200 := by simpa using hb
    simp only [hb', ne_eq, not_true_eq_false, decide_false, Bool.false_eq_true, if_false, Exec.bind_eq, Exec.bind_val']
    cases hg : rc[idx]? with
    | none => simp only [index_panic hg, Exec.bind_panic', Exec.run_panic, mapRes, SameOutcome]
    | some got =>
      simp only [index_val hg, Exec.bind_val']
      have hlt : idx < rc.length := (List.getElem?_eq_some_iff.mp hg).1
      cases got with
      | true =>
        simp only [Bool.not_true, Bool.false_eq_true, if_false, Exec.bind_val', if_true, Res.bind_ok, Res.pure_eq]
        exact hfin nr rc d
      | false =>
        have hm : idx * 1200 < 2 ^ 64 := by omega
        have ha : idx + 1 < 2 ^ 64 := by omega
        have hm2 : (idx + 1) * 1200 < 2 ^ 64 := by omega
        have hr' : nr + 1 < 2 ^ 64 := by omega
        simp only [Bool.not_false, if_true, set_val hlt, Exec.bind_val', Exec.bind_assoc', add_val hr', mul_val hm, add_val ha,
          mul_val hm2, sub_val hn1, hl, decide_false, Bool.false_eq_true, if_false]
        refine hset _ _ _ _ _ (by omega) _ _ (fun x => ?_)
        simp only [Res.bind_ok, Res.pure_eq]
        exact hfin (nr + 1) (rc.set idx true) x

theorem sc_new_overflow {ε} (mid n : Nat) (h : ¬ n * C.SLICE_SIZE < 2 ^ 64) :
    ∃ site, (SliceConstructor.new mid n : Res ε _) = .panic site := by
  unfold SliceConstructor.new
  simp only [Src.renet.packet.SLICE_SIZE, mul_panic (show ¬ n * 1200 < 2 ^ 64 from h), Exec.bind_panic, Exec.run_panic]
  exact ⟨_, rfl⟩

/-- bytes of the generated code are `Nat`s: well-formed when `< 256` -/
def BytesOk (l : List Nat) : Prop := ∀ b ∈ l, b < 256
instance (l : List Nat) : Decidable (BytesOk l) := by unfold BytesOk; infer_instance
def ofNats (l : List Nat) : Bytes := l.map UInt8.ofNat

theorem toNats_ofNats {l : List Nat} (h : BytesOk l) : toNats (ofNats l) = l := by
  induction l with
  | nil => rfl
  | cons b r ih =>
    have hb : b < 256 := h b (by simp)
    have hr : BytesOk r := fun x hx => h x (by simp [hx])
    simp only [toNats, ofNats, List.map_cons, List.map_map] at ih ⊢
    rw [ih hr]
    simp [UInt8.toNat_ofNat', Nat.mod_eq_of_lt hb]
theorem bytesOk_toNats (b : Bytes) : BytesOk (toNats b) := by
  intro x hx
  simp only [toNats, List.mem_map] at hx
  obtain ⟨y, _, rfl⟩ := hx
  exact y.toNat_lt
theorem ofNats_toNats (b : Bytes) : ofNats (toNats b) = b := by
  induction b with
  | nil => rfl
  | cons x r ih =>
    simp only [ofNats, toNats, List.map_cons, List.map_map] at ih ⊢
    rw [ih]; simp

/-- abstraction: generated `SliceConstructor` ↦ model `SliceCtor` (the model does not store `message_id`) -/
def absSC (st : SliceConstructor) : SliceCtor :=
  ⟨st.num_slices, st.num_received_slices, st.received, ofNats st.sliced_data⟩

/-- well-formed source state: data bytes are bytes, `num_slices * SLICE_SIZE` and the receive counter fit `usize` -/
def WfSC (st : SliceConstructor) : Prop :=
  BytesOk st.sliced_data ∧ st.num_slices * C.SLICE_SIZE < 2 ^ 64 ∧ st.num_received_slices + 1 < 2 ^ 64
instance (st : SliceConstructor) : Decidable (WfSC st) := by unfold WfSC; infer_instance

theorem reprSC_absSC (st : SliceConstructor) (h : BytesOk st.sliced_data) : reprSC st.message_id (absSC st) = st := by
  cases st; simp only [reprSC, absSC] at h ⊢; rw [toNats_ofNats h]
theorem absSC_reprSC (mid : Nat) (c : SliceCtor) : absSC (reprSC mid c) = c := by
  cases c; simp [absSC, reprSC, ofNats_toNats]
end C
end RenetVerif.SrcEquiv
