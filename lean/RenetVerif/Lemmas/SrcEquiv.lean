/-
  Helper lemmas for the source tie: the definitions of `RenetVerif/Generated/Src.lean` (regenerated from
  the Rust text by /verif/translator on every check run) agree with the hand-written model.
  Sections: step lemmas for the RustSem primitives; A replay protection; B netcode prefix byte;
  C slice constructor; D `Packet::to_bytes` over the octets model.  Headline statements are in `Props/SrcTie.lean`.
-/
import RenetVerif.Generated.Src
import RenetVerif.Netcode.Replay
import RenetVerif.Netcode.Wire
import RenetVerif.Renet.Channels
import RenetVerif.Renet.Packet
namespace RenetVerif.SrcEquiv
open RenetVerif RenetVerif.RustSem

/-! ## step lemmas for the primitives -/
section prims
variable {ε ρ α β σ : Type}
theorem add_val {w a b : Nat} {s : String} (h : a + b < 2 ^ w) : (RustSem.add w a b s : Exec ε ρ Nat) = .val (a + b) := by
  simp [RustSem.add, h]
theorem add_panic {w a b : Nat} {s : String} (h : ¬ a + b < 2 ^ w) : (RustSem.add w a b s : Exec ε ρ Nat) = .panic s := by
  simp [RustSem.add, h]
theorem sub_val {w a b : Nat} {s : String} (h : b ≤ a) : (RustSem.sub w a b s : Exec ε ρ Nat) = .val (a - b) := by
  simp [RustSem.sub, h]
theorem sub_panic {w a b : Nat} {s : String} (h : ¬ b ≤ a) : (RustSem.sub w a b s : Exec ε ρ Nat) = .panic s := by
  simp [RustSem.sub, h]
theorem mul_val {w a b : Nat} {s : String} (h : a * b < 2 ^ w) : (RustSem.mul w a b s : Exec ε ρ Nat) = .val (a * b) := by
  simp [RustSem.mul, h]
theorem mul_panic {w a b : Nat} {s : String} (h : ¬ a * b < 2 ^ w) : (RustSem.mul w a b s : Exec ε ρ Nat) = .panic s := by
  simp [RustSem.mul, h]
theorem rem_val {w a b : Nat} {s : String} (h : b ≠ 0) : (RustSem.rem w a b s : Exec ε ρ Nat) = .val (a % b) := by
  simp [RustSem.rem, h]
theorem shr_val {w a n : Nat} {s : String} (h : n < w) : (RustSem.shr w a n s : Exec ε ρ Nat) = .val (a >>> n) := by
  simp [RustSem.shr, h]
theorem shl_val {w a n : Nat} {s : String} (h : n < w) : (RustSem.shl w a n s : Exec ε ρ Nat) = .val ((a <<< n) % 2 ^ w) := by
  simp [RustSem.shl, h]
theorem index_val {l : List α} {i : Nat} {x : α} {s : String} (h : l[i]? = some x) :
    (RustSem.index l i s : Exec ε ρ α) = .val x := by
  simp [RustSem.index, h]
theorem index_panic {l : List α} {i : Nat} {s : String} (h : l[i]? = none) :
    (RustSem.index l i s : Exec ε ρ α) = .panic s := by
  simp [RustSem.index, h]
theorem set_val {l : List α} {i : Nat} {x : α} {s : String} (h : i < l.length) :
    (RustSem.set l i x s : Exec ε ρ (List α)) = .val (l.set i x) := by
  simp [RustSem.set, h]
theorem cast_of_lt {w x : Nat} (h : x < 2 ^ w) : RustSem.cast w x = x := Nat.mod_eq_of_lt h

theorem Exec.bind_val' (a : α) (f : α → Exec ε ρ β) : (Exec.val a).bind f = f a := rfl
theorem Exec.bind_ret' (r : ρ) (f : α → Exec ε ρ β) : (Exec.ret r : Exec ε ρ α).bind f = .ret r := rfl
theorem Exec.bind_err' (e : ε) (f : α → Exec ε ρ β) : (Exec.err e : Exec ε ρ α).bind f = .err e := rfl
theorem Exec.bind_panic' (s : String) (f : α → Exec ε ρ β) : (Exec.panic s : Exec ε ρ α).bind f = .panic s := rfl
theorem Exec.bind_assoc' {γ : Type} (x : Exec ε ρ α) (f : α → Exec ε ρ β) (g : β → Exec ε ρ γ) :
    (x.bind f).bind g = x.bind (fun a => (f a).bind g) := by cases x <;> rfl
theorem Exec.ite_bind (c : Prop) [Decidable c] (a b : Exec ε ρ α) (f : α → Exec ε ρ β) :
    (if c then a else b).bind f = if c then a.bind f else b.bind f := by split <;> rfl
theorem Exec.ite_run (c : Prop) [Decidable c] (a b : Exec ε ρ ρ) :
    (if c then a else b).run = if c then a.run else b.run := by split <;> rfl

theorem forRange_succ {lo hi : Nat} (h : lo < hi) (init : σ) (body : Nat → σ → Exec ε ρ σ) :
    RustSem.forRange lo hi init body = (body lo init).bind (fun st => RustSem.forRange (lo + 1) hi st body) := by
  unfold RustSem.forRange
  have : hi - lo = (hi - (lo + 1)) + 1 := by omega
  rw [this, RustSem.forRange.loop]
theorem forRange_done {lo hi : Nat} (h : hi ≤ lo) (init : σ) (body : Nat → σ → Exec ε ρ σ) :
    RustSem.forRange lo hi init body = .val init := by
  unfold RustSem.forRange
  have : hi - lo = 0 := by omega
  rw [this, RustSem.forRange.loop]

/-- map the outcome of a generated function to the model's types (panic sites are kept) -/
def mapRes {ε ε' α β : Type} (f : α → β) (g : ε → ε') : Res ε α → Res ε' β
  | .ok a => .ok (f a)
  | .err e => .err (g e)
  | .panic s => .panic s

/-- same outcome: equal `ok` values, equal `err` values, panic iff panic (the site text is not compared:
    the model and the generated code name their panic sites differently) -/
def SameOutcome {ε α : Type} : Res ε α → Res ε α → Prop
  | .ok a, .ok b => a = b
  | .err a, .err b => a = b
  | .panic _, .panic _ => True
  | _, _ => False
end prims

/-! ## A. replay protection -/
section A
open Netcode
open Src.renetcode.replay_protection

def reprRP (rp : RP) : ReplayProtection := ⟨rp.mostRecent, rp.received.toList⟩

theorem reprRP_get (rp : RP) (s : Nat) : (reprRP rp).received_packet[s % 256]? = some (rp.at s) := by
  simp [reprRP, RP.at]

theorem rp_new_eq {ε} : (ReplayProtection.new : Res ε _) = .ok (reprRP RP.new) := by
  unfold ReplayProtection.new
  simp only [Exec.pure_eq, Exec.run_val]
  rfl

theorem already_received_eq {ε} (rp : RP) (s : Nat) (hs : s < 2 ^ 64) :
    (ReplayProtection.already_received (reprRP rp) s : Res ε Bool) = .ok (rp.alreadyReceived s) := by
  unfold ReplayProtection.already_received
  simp only [NETCODE_REPLAY_BUFFER_SIZE, EMPTY, RustSem.MAX, cast_of_lt hs, cast_of_lt (show 256 < 2 ^ 64 by decide),
    rem_val (show 256 ≠ 0 by decide), Exec.bind_val, index_val (reprRP_get rp s),
    RP.alreadyReceived, RP.alreadyReceived.U64, Replay.EMPTY, RustSem.checked_add]
  have hm : (reprRP rp).most_recent_sequence = rp.mostRecent := rfl
  rw [hm]
  generalize rp.at s = v
  generalize rp.mostRecent = m
  by_cases h1 : s + 256 < 2 ^ 64 <;> by_cases h2 : s + 256 ≤ m <;> by_cases h3 : v = 2 ^ 64 - 1 <;>
    by_cases h4 : v ≥ s <;>
    simp [h1, h2, h3, h4, Exec.bind_eq, Exec.bind, Exec.run, Exec.pure_eq] <;> omega

theorem advance_sequence_eq {ε} (rp : RP) (s : Nat) (hs : s < 2 ^ 64) :
    (ReplayProtection.advance_sequence (reprRP rp) s : Res ε _) = .ok (reprRP (rp.advance s), ()) := by
  unfold ReplayProtection.advance_sequence
  have hlen : s % 256 < rp.received.toList.length := by
    simp; exact Nat.mod_lt _ (by decide)
  simp only [NETCODE_REPLAY_BUFFER_SIZE, cast_of_lt hs, rem_val (show 256 ≠ 0 by decide), Exec.pure_eq, reprRP,
    Exec.bind_val]
  by_cases h : s > rp.mostRecent
  · simp only [h, decide_true, if_true, Exec.bind_val, set_val hlen, Exec.run_val, RP.advance, Vector.toList_set]
  · simp only [h, decide_false, Bool.false_eq_true, if_false, Exec.bind_val, set_val hlen, Exec.run_val, RP.advance, Vector.toList_set]

/-- well-formed source state: the `[u64; 256]` array has its 256 entries -/
def WfRP (st : ReplayProtection) : Prop := st.received_packet.length = 256
instance (st : ReplayProtection) : Decidable (WfRP st) := by unfold WfRP; infer_instance

/-- abstraction: generated `ReplayProtection` ↦ model `RP` -/
def absRP (st : ReplayProtection) (h : WfRP st) : RP :=
  ⟨st.most_recent_sequence, ⟨st.received_packet.toArray, by simpa [WfRP] using h⟩⟩

theorem wf_reprRP (rp : RP) : WfRP (reprRP rp) := by simp [WfRP, reprRP]
theorem reprRP_absRP (st : ReplayProtection) (h : WfRP st) : reprRP (absRP st h) = st := by
  cases st; simp [reprRP, absRP]
theorem absRP_reprRP (rp : RP) (h : WfRP (reprRP rp)) : absRP (reprRP rp) h = rp := by
  obtain ⟨m, ⟨a, ha⟩⟩ := rp; simp [reprRP, absRP]
end A

/-! ## B. netcode prefix byte, packet type -/
/-- `x & (0xFF << 8k)` is zero iff byte `k` of `x` is zero -/
theorem and_byte_mask (x k : Nat) : x &&& (255 <<< (8 * k)) = 0 ↔ x / 256 ^ k % 256 = 0 := by
  have e : x &&& (255 <<< (8 * k)) = ((x >>> (8 * k)) &&& 255) <<< (8 * k) := by
    apply Nat.eq_of_testBit_eq
    intro i
    simp only [Nat.testBit_and, Nat.testBit_shiftLeft, Nat.testBit_shiftRight]
    by_cases h : i ≥ 8 * k
    · have : 8 * k + (i - 8 * k) = i := by omega
      simp [h, this]
    · simp [h]
  rw [e, Nat.shiftLeft_eq, Nat.mul_eq_zero]
  have h3 : (x >>> (8 * k)) &&& 255 = x / 256 ^ k % 256 := by
    rw [show (255 : Nat) = 2 ^ 8 - 1 by decide, Nat.and_two_pow_sub_one_eq_mod, Nat.shiftRight_eq_div_pow, Nat.pow_mul]
  rw [h3]
  simp

section B
open Netcode
open Src.renetcode.packet

theorem sequence_bytes_required_eq {ε} (s : Nat) :
    (sequence_bytes_required s : Res ε Nat) = .ok (Packet.sequenceBytesRequired s) := by
  have m7 := and_byte_mask s 7
  have m6 := and_byte_mask s 6
  have m5 := and_byte_mask s 5
  have m4 := and_byte_mask s 4
  have m3 := and_byte_mask s 3
  have m2 := and_byte_mask s 2
  have m1 := and_byte_mask s 1
  have m0 := and_byte_mask s 0
  simp only [Nat.reduceMul, Nat.reduceShiftLeft] at m7 m6 m5 m4 m3 m2 m1 m0
  unfold sequence_bytes_required
  simp only [Packet.sequenceBytesRequired, Packet.sequenceBytesRequired.go]
  simp only [forRange_succ (show 0 < 8 by decide), forRange_succ (show 1 < 8 by decide), forRange_succ (show 2 < 8 by decide),
    forRange_succ (show 3 < 8 by decide), forRange_succ (show 4 < 8 by decide), forRange_succ (show 5 < 8 by decide),
    forRange_succ (show 6 < 8 by decide), forRange_succ (show 7 < 8 by decide), forRange_done (Nat.le_refl 8), Nat.reduceAdd,
    RustSem.band, shr_val (show 8 < 64 by decide), Exec.bind_eq, Exec.pure_eq]
  simp only [Exec.ite_bind, Exec.bind_val', Exec.bind_ret', Exec.ite_run, Exec.run_ret, Exec.run_val,
    sub_val (show 0 ≤ 8 by decide), sub_val (show 1 ≤ 8 by decide),
    sub_val (show 2 ≤ 8 by decide), sub_val (show 3 ≤ 8 by decide), sub_val (show 4 ≤ 8 by decide), sub_val (show 5 ≤ 8 by decide),
    sub_val (show 6 ≤ 8 by decide), sub_val (show 7 ≤ 8 by decide), Nat.reduceSub, Nat.reduceShiftRight,
    ne_eq, decide_not, Bool.not_eq_eq_eq_not, Bool.not_true, decide_eq_false_iff_not, m7, m6, m5, m4, m3, m2, m1, m0]
  repeat' split
  all_goals rfl

theorem sbr_bounds (s : Nat) : 1 ≤ Packet.sequenceBytesRequired s ∧ Packet.sequenceBytesRequired s ≤ 8 := by
  simp only [Packet.sequenceBytesRequired, Packet.sequenceBytesRequired.go]
  repeat' split
  all_goals omega

theorem encode_prefix_eq {ε} (value s : Nat) (hv : value < 16) :
    (encode_prefix value s : Res ε Nat) = .ok (Packet.encodePrefix value s).toNat := by
  unfold encode_prefix
  have hb := sbr_bounds s
  generalize hn : Packet.sequenceBytesRequired s = n at hb
  have h1 : RustSem.cast 8 n = n := cast_of_lt (by omega)
  have h2 : (n <<< 4) % 2 ^ 8 = n <<< 4 := by
    rw [Nat.shiftLeft_eq]; exact Nat.mod_eq_of_lt (by omega)
  have h3 : value ||| n <<< 4 = value + n * 16 := by
    rw [Nat.or_comm, ← Nat.shiftLeft_add_eq_or_of_lt (by simpa using hv), Nat.shiftLeft_eq]; omega
  have h4 : (value + n * 16) % 256 = value + n * 16 := Nat.mod_eq_of_lt (by omega)
  simp only [sequence_bytes_required_eq, hn, Exec.call_ok, Exec.bind_val, h1, shl_val (show 4 < 8 by decide), h2, Exec.pure_eq,
    Exec.run_val, RustSem.bor, h3, Packet.encodePrefix, UInt8.toNat_ofNat', h4]

theorem decode_prefix_eq {ε} (v : UInt8) :
    (decode_prefix v.toNat : Res ε (Nat × Nat)) = .ok (Packet.decodePrefix v) := by
  unfold decode_prefix
  have hv : v.toNat < 256 := v.toNat_lt
  have h1 : RustSem.cast 64 (v.toNat >>> 4) = v.toNat / 16 := by
    rw [Nat.shiftRight_eq_div_pow]; exact cast_of_lt (by omega)
  have h2 : v.toNat &&& 0xF = v.toNat % 16 := Nat.and_two_pow_sub_one_eq_mod _ 4
  simp only [shr_val (show 4 < 8 by decide), Exec.bind_val, Exec.pure_eq, Exec.run_val, RustSem.band, h1, h2, Packet.decodePrefix]

abbrev SPacketType := Src.renetcode.packet.PacketType
abbrev SNetcodeError := Src.renetcode.error.NetcodeError

def absPT : SPacketType → Netcode.PacketType
  | .ConnectionRequest => .connectionRequest | .ConnectionDenied => .connectionDenied | .Challenge => .challenge
  | .Response => .response | .KeepAlive => .keepAlive | .Payload => .payload | .Disconnect => .disconnect

def absDR : Src.renetcode.client.DisconnectReason → Netcode.DisconnectReason
  | .ConnectTokenExpired => .connectTokenExpired | .ConnectionTimedOut => .connectionTimedOut
  | .ConnectionResponseTimedOut => .connectionResponseTimedOut | .ConnectionRequestTimedOut => .connectionRequestTimedOut
  | .ConnectionDenied => .connectionDenied | .DisconnectedByClient => .disconnectedByClient
  | .DisconnectedByServer => .disconnectedByServer

def absTGE : Src.renetcode.token.TokenGenerationError → Netcode.TokenGenErr
  | .MaxHostCount => .maxHostCount | .CryptoError => .cryptoError | .IoError _ => .ioError
  | .NoServerAddressAvailable => .noServerAddressAvailable

def absErr : SNetcodeError → Netcode.NetcodeError
  | .UnavailablePrivateKey => .unavailablePrivateKey | .InvalidPacketType => .invalidPacketType
  | .InvalidProtocolID => .invalidProtocolID | .InvalidVersion => .invalidVersion | .PacketTooSmall => .packetTooSmall
  | .PayloadAboveLimit => .payloadAboveLimit | .DuplicatedSequence => .duplicatedSequence | .NoMoreServers => .noMoreServers
  | .Expired => .expired | .Disconnected r => .disconnected (absDR r) | .CryptoError => .cryptoError
  | .NotInHostList => .notInHostList | .ClientNotFound => .clientNotFound | .ClientNotConnected => .clientNotConnected
  | .IoError _ => .ioError | .TokenGenerationError e => .tokenGenerationError (absTGE e)

theorem apply_replay_protection_eq {ε} (t : SPacketType) :
    (PacketType.apply_replay_protection t : Res ε Bool) = .ok (absPT t).applyReplayProtection := by
  cases t <;> rfl

theorem from_u8_eq (v : Nat) :
    mapRes absPT absErr (PacketType.from_u8 v) = Netcode.PacketType.fromU8 v := by
  rcases v with _|_|_|_|_|_|_|n <;> rfl
end B

/-! ## C. slice constructor -/
section C
open Src.renet.channel.slice_constructor
abbrev SChannelError := Src.renet.error.ChannelError

def toNats (b : Bytes) : List Nat := b.map UInt8.toNat
def reprSC (mid : Nat) (c : SliceCtor) : SliceConstructor := ⟨mid, c.numSlices, c.numReceived, c.received, toNats c.data⟩
def reprCE : ChanErr → SChannelError
  | .maxMemory => .ReliableChannelMaxMemoryReached
  | .invalidSlice => .InvalidSliceMessage

theorem toNats_replicate (n : Nat) : toNats (List.replicate n 0) = List.replicate n 0 := by
  simp [toNats]
theorem toNats_length (b : Bytes) : (toNats b).length = b.length := by simp [toNats]

theorem sc_new_eq {ε} (mid n : Nat) (h : n * C.SLICE_SIZE < 2 ^ 64) :
    (SliceConstructor.new mid n : Res ε _) = .ok (reprSC mid (SliceCtor.new n)) := by
  unfold SliceConstructor.new
  simp only [Src.renet.packet.SLICE_SIZE, mul_val (show n * 1200 < 2 ^ 64 from h), Exec.bind_val, Exec.pure_eq, Exec.run_val,
    reprSC, SliceCtor.new, RustSem.repeat_, toNats_replicate, C.SLICE_SIZE]

theorem toNats_resize (d : Bytes) (n : Nat) : toNats (resize d n) = RustSem.resize (toNats d) n 0 := by
  simp [toNats, resize, RustSem.resize]

set_option maxRecDepth 10000 in
theorem process_slice_eq (mid : Nat) (c : SliceCtor) (idx : Nat) (bytes : Bytes)
    (hn : c.numSlices * C.SLICE_SIZE < 2 ^ 64) (hr : c.numReceived + 1 < 2 ^ 64) :
    SameOutcome (SliceConstructor.process_slice (reprSC mid c) idx (toNats bytes))
      (mapRes (fun r => (reprSC mid r.1, r.2.map toNats)) reprCE (c.processSlice idx bytes)) := by
  obtain ⟨n, nr, rc, d⟩ := c
  simp only [C.SLICE_SIZE] at hn hr
  unfold SliceConstructor.process_slice SliceCtor.processSlice
  simp only [reprSC, Src.renet.packet.SLICE_SIZE, C.SLICE_SIZE, RustSem.len, toNats_length, Exec.pure_eq]
  by_cases h1 : idx ≥ n
  · simp [h1, Exec.bind_eq, Exec.bind, Exec.run, mapRes, SameOutcome, reprCE]
  have hn1 : 1 ≤ n := by omega
  simp only [h1, decide_false, Bool.false_eq_true, if_false, Exec.bind_val, sub_val hn1]
  have hset : ∀ (dd : Bytes) (a b : Nat) (st : String) (st' : String), b = a + bytes.length →
      ∀ (k : List Nat → Exec SChannelError (SliceConstructor × Option (List Nat)) (SliceConstructor × Option (List Nat)))
        (k' : Bytes → Res ChanErr (SliceCtor × Option Bytes)),
      (∀ x, SameOutcome (k (toNats x)).run (mapRes (fun r => (reprSC mid r.1, r.2.map toNats)) reprCE (k' x))) →
      SameOutcome ((RustSem.copy_from_slice (toNats dd) a b (toNats bytes) st).bind k).run
        (mapRes (fun r => (reprSC mid r.1, r.2.map toNats)) reprCE (setRange dd a bytes st' >>= k')) := by
    intro dd a b st st' hb k k' hk
    subst hb
    unfold RustSem.copy_from_slice setRange
    simp only [toNats_length]
    by_cases hle : a + bytes.length ≤ dd.length
    · have : a ≤ a + bytes.length ∧ a + bytes.length ≤ dd.length ∧ bytes.length = a + bytes.length - a := by omega
      rw [if_pos this, if_pos hle]
      have e : List.take a (toNats dd) ++ toNats bytes ++ List.drop (a + bytes.length) (toNats dd)
          = toNats (List.take a dd ++ bytes ++ List.drop (a + bytes.length) dd) := by
        simp only [toNats, List.map_append, List.map_take, List.map_drop]
      rw [e]; exact hk _
    · have : ¬ (a ≤ a + bytes.length ∧ a + bytes.length ≤ dd.length ∧ bytes.length = a + bytes.length - a) := by omega
      rw [if_neg this, if_neg hle]
      trivial
  have hfin : ∀ (nr' : Nat) (rc' : List Bool) (x : Bytes),
      SameOutcome
        (((if decide (nr' = n) = true then
            (Exec.ret (({ message_id := mid, num_slices := n, num_received_slices := nr', received := rc', sliced_data := [] } : SliceConstructor),
              some (toNats x)) : Exec SChannelError _ SliceConstructor)
          else Exec.val ({ message_id := mid, num_slices := n, num_received_slices := nr', received := rc', sliced_data := toNats x } : SliceConstructor)).bind
            fun self => Exec.val (self, none)).run)
        (mapRes (fun r => (reprSC mid r.1, r.2.map toNats)) reprCE
          (if nr' = n then (pure (({ numSlices := n, numReceived := nr', received := rc', data := [] } : SliceCtor), some x) : Res ChanErr _)
           else pure (({ numSlices := n, numReceived := nr', received := rc', data := x } : SliceCtor), none))) := by
    intro nr' rc' x
    by_cases h : nr' = n <;> simp [h, Exec.bind, Exec.run, mapRes, SameOutcome, reprSC, toNats]
  simp only [reprSC] at hset hfin
  by_cases hl : idx = n - 1
  · subst hl
    simp only [decide_true, if_true, beq_self_eq_true, true_and, not_true_eq_false, false_and, if_false]
    by_cases hb : bytes.length > 1200
    · simp only [hb, decide_true, if_true, Exec.bind_eq, Exec.bind_err', Exec.run_err, mapRes, SameOutcome, reprCE]
    simp only [hb, decide_false, Bool.false_eq_true, if_false, Exec.bind_eq, Exec.bind_val']
    cases hg : rc[n - 1]? with
    | none => simp only [index_panic hg, Exec.bind_panic', Exec.run_panic, mapRes, SameOutcome]
    | some got =>
      simp only [index_val hg, Exec.bind_val']
      have hlt : n - 1 < rc.length := (List.getElem?_eq_some_iff.mp hg).1
      cases got with
      | true =>
        simp only [Bool.not_true, Bool.false_eq_true, if_false, Exec.bind_val', if_true, Res.bind_ok, Res.pure_eq]
        exact hfin nr rc d
      | false =>
        have hm : (n - 1) * 1200 < 2 ^ 64 := by omega
        have ha : (n - 1) * 1200 + bytes.length < 2 ^ 64 := by omega
        have hr' : nr + 1 < 2 ^ 64 := by omega
        simp only [Bool.not_false, if_true, set_val hlt, Exec.bind_val', Exec.bind_assoc', add_val hr', mul_val hm, add_val ha,
          sub_val hn1, decide_true, Bool.false_eq_true, if_false, ← toNats_resize]
        refine hset _ _ _ _ _ rfl _ _ (fun x => ?_)
        simp only [Res.bind_ok, Res.pure_eq]
        exact hfin (nr + 1) (rc.set (n - 1) true) x
  · have hbeq : (idx == n - 1) = false := by simpa using hl
    simp only [hl, decide_false, Bool.false_eq_true, if_false, hbeq, false_and, not_false_eq_true, true_and]
    by_cases hb : bytes.length ≠ 1200
    · simp only [hb, ne_eq, not_false_eq_true, decide_true, if_true, Exec.bind_eq, Exec.bind_err', Exec.run_err, mapRes, SameOutcome, reprCE]
    have hb' : bytes.length = 1200 := by simpa using hb
    simp only [hb', ne_eq, not_true_eq_false, decide_false, Bool.false_eq_true, if_false, Exec.bind_eq, Exec.bind_val']
    cases hg : rc[idx]? with
    | none => simp only [index_panic hg, Exec.bind_panic', Exec.run_panic, mapRes, SameOutcome]
    | some got =>
      simp only [index_val hg, Exec.bind_val']
      have hlt : idx < rc.length := (List.getElem?_eq_some_iff.mp hg).1
      cases got with
      | true =>
        simp only [Bool.not_true, Bool.false_eq_true, if_false, Exec.bind_val', if_true, Res.bind_ok, Res.pure_eq]
        exact hfin nr rc d
      | false =>
        have hm : idx * 1200 < 2 ^ 64 := by omega
        have ha : idx + 1 < 2 ^ 64 := by omega
        have hm2 : (idx + 1) * 1200 < 2 ^ 64 := by omega
        have hr' : nr + 1 < 2 ^ 64 := by omega
        simp only [Bool.not_false, if_true, set_val hlt, Exec.bind_val', Exec.bind_assoc', add_val hr', mul_val hm, add_val ha,
          mul_val hm2, sub_val hn1, hl, decide_false, Bool.false_eq_true, if_false]
        refine hset _ _ _ _ _ (by omega) _ _ (fun x => ?_)
        simp only [Res.bind_ok, Res.pure_eq]
        exact hfin (nr + 1) (rc.set idx true) x

theorem sc_new_overflow {ε} (mid n : Nat) (h : ¬ n * C.SLICE_SIZE < 2 ^ 64) :
    ∃ site, (SliceConstructor.new mid n : Res ε _) = .panic site := by
  unfold SliceConstructor.new
  simp only [Src.renet.packet.SLICE_SIZE, mul_panic (show ¬ n * 1200 < 2 ^ 64 from h), Exec.bind_panic, Exec.run_panic]
  exact ⟨_, rfl⟩

/-- bytes of the generated code are `Nat`s: well-formed when `< 256` -/
def BytesOk (l : List Nat) : Prop := ∀ b ∈ l, b < 256
instance (l : List Nat) : Decidable (BytesOk l) := by unfold BytesOk; infer_instance
def ofNats (l : List Nat) : Bytes := l.map UInt8.ofNat

theorem toNats_ofNats {l : List Nat} (h : BytesOk l) : toNats (ofNats l) = l := by
  induction l with
  | nil => rfl
  | cons b r ih =>
    have hb : b < 256 := h b (by simp)
    have hr : BytesOk r := fun x hx => h x (by simp [hx])
    simp only [toNats, ofNats, List.map_cons, List.map_map] at ih ⊢
    rw [ih hr]
    simp [UInt8.toNat_ofNat', Nat.mod_eq_of_lt hb]
theorem bytesOk_toNats (b : Bytes) : BytesOk (toNats b) := by
  intro x hx
  simp only [toNats, List.mem_map] at hx
  obtain ⟨y, _, rfl⟩ := hx
  exact y.toNat_lt
theorem ofNats_toNats (b : Bytes) : ofNats (toNats b) = b := by
  induction b with
  | nil => rfl
  | cons x r ih =>
    simp only [ofNats, toNats, List.map_cons, List.map_map] at ih ⊢
    rw [ih]; simp

/-- abstraction: generated `SliceConstructor` ↦ model `SliceCtor` (the model does not store `message_id`) -/
def absSC (st : SliceConstructor) : SliceCtor :=
  ⟨st.num_slices, st.num_received_slices, st.received, ofNats st.sliced_data⟩

/-- well-formed source state: data bytes are bytes, `num_slices * SLICE_SIZE` and the receive counter fit `usize` -/
def WfSC (st : SliceConstructor) : Prop :=
  BytesOk st.sliced_data ∧ st.num_slices * C.SLICE_SIZE < 2 ^ 64 ∧ st.num_received_slices + 1 < 2 ^ 64
instance (st : SliceConstructor) : Decidable (WfSC st) := by unfold WfSC; infer_instance

theorem reprSC_absSC (st : SliceConstructor) (h : BytesOk st.sliced_data) : reprSC st.message_id (absSC st) = st := by
  cases st; simp only [reprSC, absSC] at h ⊢; rw [toNats_ofNats h]
theorem absSC_reprSC (mid : Nat) (c : SliceCtor) : absSC (reprSC mid c) = c := by
  cases c; simp [absSC, reprSC, ofNats_toNats]
end C

/-! ## D. `Packet::to_bytes` over the octets model -/
section D
open Src.renet.packet
abbrev SSerErr := Src.renet.packet.SerializationError

/-- buffer invariant of `OctetsMut` -/
def OInv (b : OctetsMut) : Prop := b.off ≤ b.buf.length

/-- the cursor after writing `xs` at the offset -/
def owrite (b : OctetsMut) (xs : List Nat) : OctetsMut :=
  { buf := b.buf.take b.off ++ xs ++ b.buf.drop (b.off + xs.length), off := b.off + xs.length }

/-- specification of a successful/failed write of `xs` -/
def W {ρ : Type} (b : OctetsMut) (xs : List Nat) : Exec SSerErr ρ OctetsMut :=
  if b.off + xs.length ≤ b.buf.length then .val (owrite b xs) else .err .BufferTooShort

theorem owrite_inv {b : OctetsMut} {xs : List Nat} (h : b.off + xs.length ≤ b.buf.length) : OInv (owrite b xs) := by
  simp only [OInv, owrite, List.length_append, List.length_take, List.length_drop]; omega

theorem owrite_length {b : OctetsMut} {xs : List Nat} (h : b.off + xs.length ≤ b.buf.length) :
    (owrite b xs).buf.length = b.buf.length := by
  simp only [owrite, List.length_append, List.length_take, List.length_drop]; omega

theorem owrite_nil (b : OctetsMut) : owrite b [] = b := by
  cases b; simp [owrite]

theorem owrite_owrite {b : OctetsMut} {xs ys : List Nat} (h : b.off + xs.length ≤ b.buf.length) :
    owrite (owrite b xs) ys = owrite b (xs ++ ys) := by
  obtain ⟨buf, off⟩ := b
  simp only [owrite, List.length_append] at *
  have e1 : (List.take off buf ++ xs ++ List.drop (off + xs.length) buf).take (off + xs.length) = List.take off buf ++ xs := by
    rw [List.take_append_of_le_length (by simp; omega)]
    rw [List.take_of_length_le (by simp; omega)]
  have e2 : (List.take off buf ++ xs ++ List.drop (off + xs.length) buf).drop (off + xs.length + ys.length)
      = List.drop (off + (xs.length + ys.length)) buf := by
    rw [List.drop_append]
    simp only [List.length_append, List.length_take, List.drop_drop]
    have : off + xs.length + ys.length - (min off buf.length + xs.length) = ys.length := by omega
    rw [this, List.drop_of_length_le (by simp; omega)]
    simp; congr 1; omega
  rw [e1, e2]; simp [Nat.add_assoc]

theorem W_nil {ρ} {b : OctetsMut} (h : OInv b) : (W b [] : Exec SSerErr ρ _) = .val b := by
  simp [W, owrite_nil, OInv] at *; exact h

theorem W_bind {ρ β} (b : OctetsMut) (xs ys : List Nat) (k : OctetsMut → Exec SSerErr ρ β) :
    (W b xs).bind (fun b' => (W b' ys).bind k) = (W b (xs ++ ys)).bind k := by
  unfold W
  by_cases h1 : b.off + xs.length ≤ b.buf.length
  · rw [if_pos h1, Exec.bind_val']
    have hl := owrite_length h1
    by_cases h2 : b.off + (xs ++ ys).length ≤ b.buf.length
    · have : (owrite b xs).off + ys.length ≤ (owrite b xs).buf.length := by
        rw [hl]; simp [owrite] at *; omega
      rw [if_pos this, if_pos h2, owrite_owrite h1]
    · have : ¬ (owrite b xs).off + ys.length ≤ (owrite b xs).buf.length := by
        rw [hl]; simp [owrite] at *; omega
      rw [if_neg this, if_neg h2]
  · have h2 : ¬ b.off + (xs ++ ys).length ≤ b.buf.length := by simp at *; omega
    rw [if_neg h1, if_neg h2]; rfl

theorem conv_bts {ε} (e : BufferTooShortError) :
    (SerializationError.from_BufferTooShortError e : Res ε SSerErr) = .ok .BufferTooShort := rfl

theorem beBytes_length (v n : Nat) : (RustSem.beBytes v n).length = n := by
  induction n with
  | zero => rfl
  | succ k ih => simp [RustSem.beBytes, ih]

theorem callFrom_putBE {ρ} (b : OctetsMut) (v len : Nat) :
    (Exec.callFrom SerializationError.from_BufferTooShortError (OctetsMut.putBE b v len) : Exec SSerErr ρ _)
      = (W b (RustSem.beBytes v len)).bind (fun b' => .val (b', ())) := by
  unfold OctetsMut.putBE W
  simp only [beBytes_length]
  by_cases h : b.buf.length < b.off + len
  · have h' : ¬ b.off + len ≤ b.buf.length := by omega
    rw [if_pos h, if_neg h']; rfl
  · have h' : b.off + len ≤ b.buf.length := by omega
    rw [if_neg h, if_pos h']; simp only [Exec.callFrom, Exec.bind_val', owrite, beBytes_length]

theorem callFrom_put_bytes {ρ} (b : OctetsMut) (v : List Nat) (hb : OInv b) :
    (Exec.callFrom SerializationError.from_BufferTooShortError (OctetsMut.put_bytes b v) : Exec SSerErr ρ _)
      = (W b v).bind (fun b' => .val (b', ())) := by
  unfold OctetsMut.put_bytes W OctetsMut.cap
  unfold OInv at hb
  by_cases h : b.buf.length - b.off < v.length
  · have h' : ¬ b.off + v.length ≤ b.buf.length := by omega
    rw [if_pos h, if_neg h']; rfl
  · have h' : b.off + v.length ≤ b.buf.length := by omega
    rw [if_neg h, if_pos h']
    by_cases h0 : v.length = 0
    · have : v = [] := List.eq_nil_of_length_eq_zero h0
      subst this
      simp [Exec.callFrom, Exec.bind_val', owrite_nil]
    · rw [if_neg h0]; simp only [Exec.callFrom, Exec.bind_val', owrite]

theorem orAt_owrite (b : OctetsMut) (y m : Nat) (r : List Nat) (hb : OInv b) :
    (owrite b (y :: r)).orAt b.off m = owrite b ((y ||| m) :: r) := by
  obtain ⟨buf, off⟩ := b
  unfold OInv at hb
  simp only at hb
  have hl : (List.take off buf).length = off := by simp; omega
  have hg : (List.take off buf ++ (y :: r) ++ List.drop (off + (y :: r).length) buf)[off]? = some y := by
    rw [List.append_assoc, List.getElem?_append_right (by omega), hl]; simp
  simp only [OctetsMut.orAt, owrite, hg]
  congr 1
  rw [List.append_assoc, List.set_append_right _ _ (by omega), hl]
  simp

theorem or_top2 (x k : Nat) (hx : x < 64) : x ||| (k * 64) = x + k * 64 := by
  have : k * 64 = k <<< 6 := by rw [Nat.shiftLeft_eq]
  rw [this, Nat.or_comm, ← Nat.shiftLeft_add_eq_or_of_lt (by simpa using hx)]; omega

theorem toNats_beBytes (v n : Nat) : toNats (Varint.beBytes v n) = RustSem.beBytes v n := by
  induction n with
  | zero => rfl
  | succ k ih =>
    simp only [toNats, Varint.beBytes, List.map_cons, RustSem.beBytes] at ih ⊢
    rw [ih]; simp [UInt8.toNat_ofNat']

set_option maxRecDepth 20000 in
theorem callFrom_put_varint {ρ} (b : OctetsMut) (v : Nat) (hb : OInv b) (hv : v ≤ Varint.MAX) :
    (Exec.callFrom SerializationError.from_BufferTooShortError (OctetsMut.put_varint b v) : Exec SSerErr ρ _)
      = (W b (toNats (Varint.enc v))).bind (fun b' => .val (b', ())) := by
  have hcap : ∀ n, (b.cap < n) = (¬ b.off + n ≤ b.buf.length) := by
    intro n; unfold OInv at hb; unfold OctetsMut.cap; apply propext; omega
  have hWerr : ∀ xs : List Nat, ¬ b.off + xs.length ≤ b.buf.length →
      ((W b xs).bind (fun b' => .val (b', ())) : Exec SSerErr ρ (OctetsMut × Unit)) = .err .BufferTooShort := by
    intro xs h; unfold W; rw [if_neg h]; rfl
  have hput : ∀ (x n : Nat), b.off + n ≤ b.buf.length →
      OctetsMut.putBE b x n = .ok (owrite b (RustSem.beBytes x n), ()) := by
    intro x n h
    unfold OctetsMut.putBE
    rw [if_neg (by omega)]; simp only [owrite, beBytes_length]
  have hWok : ∀ xs : List Nat, b.off + xs.length ≤ b.buf.length →
      ((W b xs).bind (fun b' => .val (b', ())) : Exec SSerErr ρ (OctetsMut × Unit)) = .val (owrite b xs, ()) := by
    intro xs h; unfold W; rw [if_pos h]; rfl
  unfold Varint.MAX at hv
  unfold OctetsMut.put_varint RustSem.varint_len Varint.enc
  by_cases h1 : v ≤ 63
  · simp only [h1, if_true, hcap, toNats_beBytes]
    by_cases hf : b.off + 1 ≤ b.buf.length
    · rw [if_neg (fun hn => hn hf), hWok _ (by simpa [beBytes_length] using hf)]
      simp only [OctetsMut.put_u8, hput _ _ hf, Exec.callFrom]
      congr 3
      simp only [RustSem.beBytes, Nat.pow_zero, Nat.div_one]
      congr 1; omega
    · rw [if_pos hf, hWerr _ (by simpa [beBytes_length] using hf)]; rfl
  by_cases h2 : v ≤ 16383
  · simp only [h1, h2, if_true, if_false, hcap, toNats_beBytes]
    by_cases hf : b.off + 2 ≤ b.buf.length
    · rw [if_neg (fun hn => hn hf), hWok _ (by simpa [beBytes_length] using hf)]
      simp only [OctetsMut.put_u16, hput _ _ hf, Exec.callFrom, RustSem.beBytes, orAt_owrite _ _ _ _ hb]
      have e : v % 2 ^ 16 / 256 ^ 1 % 256 < 64 := by omega
      rw [show (0x40 : Nat) = 1 * 64 by rfl, or_top2 _ 1 e]
      congr 3
      simp only [Nat.pow_zero, Nat.div_one, Nat.pow_one]
      congr 1
      · omega
      · congr 1; omega
    · rw [if_pos hf, hWerr _ (by simpa [beBytes_length] using hf)]; rfl
  by_cases h3 : v ≤ 1073741823
  · simp only [h1, h2, h3, if_true, if_false, hcap, toNats_beBytes]
    by_cases hf : b.off + 4 ≤ b.buf.length
    · rw [if_neg (fun hn => hn hf), hWok _ (by simpa [beBytes_length] using hf)]
      simp only [OctetsMut.put_u32, hput _ _ hf, Exec.callFrom, RustSem.beBytes, orAt_owrite _ _ _ _ hb]
      have e : v % 2 ^ 32 / 256 ^ 3 % 256 < 64 := by omega
      rw [show (0x80 : Nat) = 2 * 64 by rfl, or_top2 _ 2 e]
      congr 3
      simp only [Nat.pow_zero, Nat.div_one, Nat.pow_one]
      congr 1
      · omega
      · congr 1
        · omega
        · congr 1
          · omega
          · congr 1; omega
    · rw [if_pos hf, hWerr _ (by simpa [beBytes_length] using hf)]; rfl
  · simp only [h1, h2, h3, hv, if_true, if_false, hcap, toNats_beBytes]
    by_cases hf : b.off + 8 ≤ b.buf.length
    · rw [if_neg (fun hn => hn hf), hWok _ (by simpa [beBytes_length] using hf)]
      simp only [OctetsMut.put_u64, hput _ _ hf, Exec.callFrom, RustSem.beBytes, orAt_owrite _ _ _ _ hb]
      have e : v / 256 ^ 7 % 256 < 64 := by omega
      rw [show (0xc0 : Nat) = 3 * 64 by rfl, or_top2 _ 3 e]
      have hm : v % 2 ^ 62 = v := Nat.mod_eq_of_lt (by omega)
      rw [hm]
      congr 3
      simp only [Nat.pow_zero, Nat.div_one, Nat.pow_one]
      have hv' : v < 4611686018427387904 := by omega
      clear hput hWok hWerr hcap hm hf hb h1 h2 h3 hv
      congr 1
      · omega
      · congr 1
        · omega
        · congr 1
          · omega
          · congr 1
            · omega
            · congr 1
              · omega
              · congr 1
                · omega
                · congr 1
                  · omega
                  · congr 1; omega
    · rw [if_pos hf, hWerr _ (by simpa [beBytes_length] using hf)]; rfl

theorem W_chain {ρ β} {b : OctetsMut} (xs ys : List Nat) (f g : OctetsMut → Exec SSerErr ρ β)
    (h : ∀ b', OInv b' → f b' = (W b' ys).bind g) :
    (W b xs).bind f = (W b (xs ++ ys)).bind g := by
  rw [← W_bind]
  unfold W
  by_cases h1 : b.off + xs.length ≤ b.buf.length
  · rw [if_pos h1, Exec.bind_val', Exec.bind_val', h _ (owrite_inv h1)]; rfl
  · rw [if_neg h1]; rfl

abbrev conv := @SerializationError.from_BufferTooShortError SSerErr

theorem step_varint {ρ β} {b : OctetsMut} {v : Nat} (hv : v ≤ Varint.MAX) (xs : List Nat)
    (k : OctetsMut × Unit → Exec SSerErr ρ β) :
    (W b xs).bind (fun b' => (Exec.callFrom conv (OctetsMut.put_varint b' v)).bind k)
      = (W b (xs ++ toNats (Varint.enc v))).bind (fun b' => k (b', ())) :=
  W_chain _ _ _ _ (fun b' hb' => by rw [callFrom_put_varint b' v hb' hv, Exec.bind_assoc']; rfl)

theorem step_u8 {ρ β} {b : OctetsMut} (v : Nat) (xs : List Nat)
    (k : OctetsMut × Unit → Exec SSerErr ρ β) :
    (W b xs).bind (fun b' => (Exec.callFrom conv (OctetsMut.put_u8 b' v)).bind k)
      = (W b (xs ++ [v % 256])).bind (fun b' => k (b', ())) :=
  W_chain _ _ _ _ (fun b' _ => by
    rw [OctetsMut.put_u8, callFrom_putBE, Exec.bind_assoc']; simp [RustSem.beBytes]; rfl)

theorem step_u16 {ρ β} {b : OctetsMut} (v : Nat) (xs : List Nat)
    (k : OctetsMut × Unit → Exec SSerErr ρ β) :
    (W b xs).bind (fun b' => (Exec.callFrom conv (OctetsMut.put_u16 b' v)).bind k)
      = (W b (xs ++ [v / 256 % 256, v % 256])).bind (fun b' => k (b', ())) :=
  W_chain _ _ _ _ (fun b' _ => by
    rw [OctetsMut.put_u16, callFrom_putBE, Exec.bind_assoc']; simp [RustSem.beBytes]; rfl)

theorem step_bytes {ρ β} {b : OctetsMut} (v : List Nat) (xs : List Nat)
    (k : OctetsMut × Unit → Exec SSerErr ρ β) :
    (W b xs).bind (fun b' => (Exec.callFrom conv (OctetsMut.put_bytes b' v)).bind k)
      = (W b (xs ++ v)).bind (fun b' => k (b', ())) :=
  W_chain _ _ _ _ (fun b' hb' => by rw [callFrom_put_bytes b' v hb', Exec.bind_assoc']; rfl)

theorem W_start {ρ β} {b : OctetsMut} (hb : OInv b) (f : OctetsMut → Exec SSerErr ρ β) : f b = (W b []).bind f := by
  rw [W_nil hb]; rfl

def reprSlice (s : Slice) : Src.renet.packet.Slice := ⟨s.messageId, s.sliceIndex, s.numSlices, toNats s.payload⟩
def reprRange (r : AckRange) : RustSem.Range := ⟨r.1, r.2⟩
def reprPacket : RenetVerif.Packet → Src.renet.packet.Packet
  | .smallReliable s c m => .SmallReliable s c (m.map fun x => (x.1, toNats x.2))
  | .smallUnreliable s c m => .SmallUnreliable s c (m.map toNats)
  | .reliableSlice s c sl => .ReliableSlice s c (reprSlice sl)
  | .unreliableSlice s c sl => .UnreliableSlice s c (reprSlice sl)
  | .ack s r => .Ack s (r.map reprRange)

theorem cast64_of_le_max {v : Nat} (h : v ≤ Varint.MAX) : RustSem.cast 64 v = v :=
  cast_of_lt (Nat.lt_of_le_of_lt h (by decide))
theorem len_toNats (x : Bytes) : RustSem.len (toNats x) = x.length := by simp [RustSem.len, toNats]

theorem putVarint_ok {v : Nat} {x : Bytes} (h : putVarint v = .ok x) : v ≤ Varint.MAX ∧ x = Varint.enc v := by
  unfold putVarint at h
  by_cases hv : v ≤ Varint.MAX
  · rw [if_pos hv] at h; exact ⟨hv, (Res.ok.inj h).symm⟩
  · rw [if_neg hv] at h; cases h

/-- the result of `to_bytes` when the body wrote `bytes` -/
def finish (b : OctetsMut) (bytes : List Nat) : Res SSerErr (OctetsMut × Nat) :=
  if b.off + bytes.length ≤ b.buf.length then .ok (owrite b bytes, bytes.length) else .err .BufferTooShort

theorem finish_eq {b : OctetsMut} (_hb : OInv b) (bytes : List Nat) (site : String) :
    ((W b bytes).bind fun b' =>
      (RustSem.sub 64 (OctetsMut.cap b) (OctetsMut.cap b') site).bind fun t => Exec.val (b', t)).run
      = finish b bytes := by
  unfold W finish
  by_cases h : b.off + bytes.length ≤ b.buf.length
  · rw [if_pos h, if_pos h, Exec.bind_val']
    have hl := owrite_length h
    have : OctetsMut.cap (owrite b bytes) ≤ OctetsMut.cap b := by
      unfold OctetsMut.cap; rw [hl]; simp [owrite]; omega
    rw [sub_val this, Exec.bind_val', Exec.run_val]
    congr 2
    unfold OctetsMut.cap; rw [hl]; simp [owrite]; omega
  · rw [if_neg h, if_neg h]; rfl

theorem bind_ok_inv {ε α β} {x : Res ε α} {f : α → Res ε β} {r : β} (h : (x >>= f) = .ok r) :
    ∃ a, x = .ok a ∧ f a = .ok r := by
  cases x with
  | ok a => exact ⟨a, rfl, h⟩
  | err e => cases h
  | panic s => cases h

theorem Exec.bind_val_id {ε ρ α} (x : Exec ε ρ α) : x.bind Exec.val = x := by cases x <;> rfl

theorem forEach_chain {α ρ β} (l : List α) (f : α → List Nat) (body : α → OctetsMut → Exec SSerErr ρ OctetsMut)
    (hbody : ∀ x ∈ l, ∀ b', OInv b' → body x b' = W b' (f x)) (xs : List Nat) (b : OctetsMut)
    (k : OctetsMut → Exec SSerErr ρ β) :
    (W b xs).bind (fun b' => (RustSem.forEach l b' body).bind k) = (W b (xs ++ (l.map f).flatten)).bind k := by
  induction l generalizing xs with
  | nil => simp [RustSem.forEach, Exec.bind_val']
  | cons x r ih =>
    have h1 : (W b xs).bind (fun b' => (RustSem.forEach (x :: r) b' body).bind k)
        = (W b (xs ++ f x)).bind (fun st => (RustSem.forEach r st body).bind k) := by
      apply W_chain
      intro b' hb'
      rw [RustSem.forEach, Exec.bind_assoc', hbody x (by simp) b' hb']
    rw [h1, ih (fun y hy => hbody y (by simp [hy]))]
    simp [List.append_assoc]

theorem encSmallRel_ok {msgs : List (Nat × Bytes)} {body : Bytes} (h : encSmallRel msgs = .ok body) :
    (∀ x ∈ msgs, x.1 ≤ Varint.MAX ∧ x.2.length ≤ Varint.MAX) ∧
      toNats body = (msgs.map fun x => toNats (Varint.enc x.1) ++ toNats (Varint.enc x.2.length) ++ toNats x.2).flatten := by
  induction msgs generalizing body with
  | nil => cases h; simp [toNats]
  | cons x r ih =>
    obtain ⟨id, m⟩ := x
    unfold encSmallRel at h
    obtain ⟨a, ha, h⟩ := bind_ok_inv h
    obtain ⟨c, hc, h⟩ := bind_ok_inv h
    obtain ⟨rest, hrest, h⟩ := bind_ok_inv h
    obtain ⟨hva, rfl⟩ := putVarint_ok ha
    obtain ⟨hvc, rfl⟩ := putVarint_ok hc
    cases h
    obtain ⟨ih1, ih2⟩ := ih hrest
    refine ⟨?_, ?_⟩
    · intro y hy
      rcases List.mem_cons.mp hy with rfl | hy
      · exact ⟨hva, hvc⟩
      · exact ih1 y hy
    · simp only [List.map_cons, List.flatten_cons, ← ih2]
      simp [toNats]

theorem encSmallUnrel_ok {msgs : List Bytes} {body : Bytes} (h : encSmallUnrel msgs = .ok body) :
    (∀ x ∈ msgs, x.length ≤ Varint.MAX) ∧
      toNats body = (msgs.map fun x => toNats (Varint.enc x.length) ++ toNats x).flatten := by
  induction msgs generalizing body with
  | nil => cases h; simp [toNats]
  | cons m r ih =>
    unfold encSmallUnrel at h
    obtain ⟨c, hc, h⟩ := bind_ok_inv h
    obtain ⟨rest, hrest, h⟩ := bind_ok_inv h
    obtain ⟨hvc, rfl⟩ := putVarint_ok hc
    cases h
    obtain ⟨ih1, ih2⟩ := ih hrest
    refine ⟨?_, ?_⟩
    · intro y hy
      rcases List.mem_cons.mp hy with rfl | hy
      · exact hvc
      · exact ih1 y hy
    · simp only [List.map_cons, List.flatten_cons, ← ih2]
      simp [toNats]

theorem csub_ok {ε} {a c d : Nat} {site : String} (h : (Res.csub a c site : Res ε Nat) = .ok d) : c ≤ a ∧ d = a - c := by
  unfold Res.csub at h
  by_cases hc : c ≤ a
  · rw [if_pos hc] at h; exact ⟨hc, (Res.ok.inj h).symm⟩
  · rw [if_neg hc] at h; cases h

/-- value of `previous_range_start` after the ack loop -/
def lastStart (prev : Nat) : List AckRange → Nat
  | [] => prev
  | (s, _) :: r => lastStart s r

theorem ack_loop {ρ β} (rest : List AckRange)
    (body : RustSem.Range → OctetsMut × Nat → Exec SSerErr ρ (OctetsMut × Nat))
    (hbody : ∀ (s e prev : Nat) (b' : OctetsMut), OInv b' → e ≤ prev → 1 ≤ prev - e → 1 ≤ e → s ≤ e - 1 →
      prev - e - 1 ≤ Varint.MAX → e - 1 - s ≤ Varint.MAX →
      body ⟨s, e⟩ (b', prev) =
        (W b' (toNats (Varint.enc (prev - e - 1)) ++ toNats (Varint.enc (e - 1 - s)))).bind (fun b'' => .val (b'', s)))
    (prev : Nat) (bytes : Bytes) (h : encAckRest prev rest = .ok bytes) (xs : List Nat) (b : OctetsMut)
    (k : OctetsMut × Nat → Exec SSerErr ρ β) :
    (W b xs).bind (fun b' => (RustSem.forEach (rest.map reprRange) (b', prev) body).bind k)
      = (W b (xs ++ toNats bytes)).bind (fun b' => k (b', lastStart prev rest)) := by
  induction rest generalizing prev xs bytes with
  | nil =>
    cases h
    simp [RustSem.forEach, Exec.bind_val', lastStart, toNats]
  | cons x r ih =>
    obtain ⟨s, e⟩ := x
    unfold encAckRest at h
    obtain ⟨g0, hg0, h⟩ := bind_ok_inv h
    obtain ⟨gap, hgap, h⟩ := bind_ok_inv h
    obtain ⟨e1, he1, h⟩ := bind_ok_inv h
    obtain ⟨size, hsize, h⟩ := bind_ok_inv h
    obtain ⟨a, ha, h⟩ := bind_ok_inv h
    obtain ⟨c, hc, h⟩ := bind_ok_inv h
    obtain ⟨rs, hrs, h⟩ := bind_ok_inv h
    obtain ⟨c1, rfl⟩ := csub_ok hg0
    obtain ⟨c2, rfl⟩ := csub_ok hgap
    obtain ⟨c3, rfl⟩ := csub_ok he1
    obtain ⟨c4, rfl⟩ := csub_ok hsize
    obtain ⟨hva, rfl⟩ := putVarint_ok ha
    obtain ⟨hvc, rfl⟩ := putVarint_ok hc
    cases h
    have h1 : (W b xs).bind (fun b' => (RustSem.forEach (((s, e) :: r).map reprRange) (b', prev) body).bind k)
        = (W b (xs ++ (toNats (Varint.enc (prev - e - 1)) ++ toNats (Varint.enc (e - 1 - s))))).bind
            (fun st => (RustSem.forEach (r.map reprRange) (st, s) body).bind k) := by
      apply W_chain
      intro b' hb'
      rw [List.map_cons, RustSem.forEach, Exec.bind_assoc']
      show (body ⟨s, e⟩ (b', prev)).bind _ = _
      rw [hbody s e prev b' hb' c1 c2 c3 c4 hva hvc, Exec.bind_assoc']
      rfl
    rw [h1, ih s rs hrs]
    simp [toNats, lastStart, List.append_assoc]

theorem to_bytes_eq (p : RenetVerif.Packet) (b : OctetsMut) (hb : OInv b) (bytes : Bytes) (henc : p.enc = .ok bytes) :
    Src.renet.packet.Packet.to_bytes (reprPacket p) b = finish b (toNats bytes) := by
  cases p with
  | reliableSlice seq ch sl =>
    unfold Packet.enc at henc
    obtain ⟨s, hs, h⟩ := bind_ok_inv henc
    obtain ⟨body, hbody, h⟩ := bind_ok_inv h
    unfold encSlice at hbody
    obtain ⟨a1, h1, hbody⟩ := bind_ok_inv hbody
    obtain ⟨a2, h2, hbody⟩ := bind_ok_inv hbody
    obtain ⟨a3, h3, hbody⟩ := bind_ok_inv hbody
    obtain ⟨a4, h4, hbody⟩ := bind_ok_inv hbody
    obtain ⟨hv0, rfl⟩ := putVarint_ok hs
    obtain ⟨hv1, rfl⟩ := putVarint_ok h1
    obtain ⟨hv2, rfl⟩ := putVarint_ok h2
    obtain ⟨hv3, rfl⟩ := putVarint_ok h3
    obtain ⟨hv4, rfl⟩ := putVarint_ok h4
    cases hbody; cases h
    unfold Src.renet.packet.Packet.to_bytes
    simp only [reprPacket, reprSlice, Exec.bind_eq, Exec.pure_eq]
    rw [W_start hb (fun b' => (Exec.callFrom SerializationError.from_BufferTooShortError (OctetsMut.put_u8 b' 2)).bind _)]
    simp only [cast64_of_le_max hv2, cast64_of_le_max hv3, cast64_of_le_max hv4, len_toNats,
      step_u8, step_varint hv0, step_varint hv1, step_varint hv2, step_varint hv3, step_varint hv4, step_bytes,
      Exec.bind_assoc', Exec.bind_val']
    rw [finish_eq hb]
    congr 1
    simp [toNats]
  | smallReliable seq ch msgs =>
    unfold Packet.enc at henc
    obtain ⟨s, hs, h⟩ := bind_ok_inv henc
    obtain ⟨body, hbody, h⟩ := bind_ok_inv h
    obtain ⟨hv0, rfl⟩ := putVarint_ok hs
    obtain ⟨hm, hflat⟩ := encSmallRel_ok hbody
    cases h
    unfold Src.renet.packet.Packet.to_bytes
    simp only [reprPacket, Exec.bind_eq, Exec.pure_eq]
    rw [W_start hb (fun b' => (Exec.callFrom SerializationError.from_BufferTooShortError (OctetsMut.put_u8 b' 0)).bind _)]
    simp only [step_u8, step_u16, step_varint hv0, Exec.bind_assoc']
    rw [forEach_chain _ (fun x => toNats (Varint.enc x.1) ++ toNats (Varint.enc x.2.length) ++ x.2)]
    · rw [finish_eq hb]
      congr 1
      simp only [toNats, List.append_assoc] at hflat
      simp [toNats, u16be, RustSem.cast, RustSem.len, Function.comp_def]
      exact ⟨by omega, hflat.symm⟩
    · intro x hx b' hb'
      obtain ⟨y, hy, rfl⟩ := List.mem_map.mp hx
      obtain ⟨hy1, hy2⟩ := hm y hy
      rw [W_start hb' (fun b => (Exec.callFrom SerializationError.from_BufferTooShortError (OctetsMut.put_varint b _)).bind _)]
      have hl : RustSem.len (toNats y.2) = y.2.length := len_toNats _
      simp only [hl, cast64_of_le_max hy2, step_varint hy1, step_varint hy2, step_bytes, Exec.bind_val_id, toNats_length]
      simp
  | smallUnreliable seq ch msgs =>
    unfold Packet.enc at henc
    obtain ⟨s, hs, h⟩ := bind_ok_inv henc
    obtain ⟨body, hbody, h⟩ := bind_ok_inv h
    obtain ⟨hv0, rfl⟩ := putVarint_ok hs
    obtain ⟨hm, hflat⟩ := encSmallUnrel_ok hbody
    cases h
    unfold Src.renet.packet.Packet.to_bytes
    simp only [reprPacket, Exec.bind_eq, Exec.pure_eq]
    rw [W_start hb (fun b' => (Exec.callFrom SerializationError.from_BufferTooShortError (OctetsMut.put_u8 b' 1)).bind _)]
    simp only [step_u8, step_u16, step_varint hv0, Exec.bind_assoc']
    rw [forEach_chain _ (fun x => toNats (Varint.enc x.length) ++ x)]
    · rw [finish_eq hb]
      congr 1
      simp only [toNats] at hflat
      simp [toNats, u16be, RustSem.cast, RustSem.len, Function.comp_def]
      exact ⟨by omega, hflat.symm⟩
    · intro x hx b' hb'
      obtain ⟨y, hy, rfl⟩ := List.mem_map.mp hx
      have hy2 := hm y hy
      rw [W_start hb' (fun b => (Exec.callFrom SerializationError.from_BufferTooShortError (OctetsMut.put_varint b _)).bind _)]
      have hl : RustSem.len (toNats y) = y.length := len_toNats _
      simp only [hl, cast64_of_le_max hy2, step_varint hy2, step_bytes, Exec.bind_val_id, toNats_length]
      simp
  | unreliableSlice seq ch sl =>
    unfold Packet.enc at henc
    obtain ⟨s, hs, h⟩ := bind_ok_inv henc
    obtain ⟨body, hbody, h⟩ := bind_ok_inv h
    unfold encSlice at hbody
    obtain ⟨a1, h1, hbody⟩ := bind_ok_inv hbody
    obtain ⟨a2, h2, hbody⟩ := bind_ok_inv hbody
    obtain ⟨a3, h3, hbody⟩ := bind_ok_inv hbody
    obtain ⟨a4, h4, hbody⟩ := bind_ok_inv hbody
    obtain ⟨hv0, rfl⟩ := putVarint_ok hs
    obtain ⟨hv1, rfl⟩ := putVarint_ok h1
    obtain ⟨hv2, rfl⟩ := putVarint_ok h2
    obtain ⟨hv3, rfl⟩ := putVarint_ok h3
    obtain ⟨hv4, rfl⟩ := putVarint_ok h4
    cases hbody; cases h
    unfold Src.renet.packet.Packet.to_bytes
    simp only [reprPacket, reprSlice, Exec.bind_eq, Exec.pure_eq]
    rw [W_start hb (fun b' => (Exec.callFrom SerializationError.from_BufferTooShortError (OctetsMut.put_u8 b' 3)).bind _)]
    simp only [cast64_of_le_max hv2, cast64_of_le_max hv3, cast64_of_le_max hv4, len_toNats,
      step_u8, step_varint hv0, step_varint hv1, step_varint hv2, step_varint hv3, step_varint hv4, step_bytes,
      Exec.bind_assoc', Exec.bind_val']
    rw [finish_eq hb]
    congr 1
    simp [toNats]
  | ack seq ranges =>
    unfold Packet.enc at henc
    obtain ⟨s, hs, h⟩ := bind_ok_inv henc
    obtain ⟨hv0, rfl⟩ := putVarint_ok hs
    cases hrev : ranges.reverse with
    | nil => rw [hrev] at h; cases h
    | cons last rest =>
      obtain ⟨ls, le⟩ := last
      rw [hrev] at h
      simp only at h
      obtain ⟨le1, hle1, h⟩ := bind_ok_inv h
      obtain ⟨size, hsize, h⟩ := bind_ok_inv h
      obtain ⟨a, ha, h⟩ := bind_ok_inv h
      obtain ⟨c, hc, h⟩ := bind_ok_inv h
      obtain ⟨d, hd, h⟩ := bind_ok_inv h
      obtain ⟨r, hr, h⟩ := bind_ok_inv h
      obtain ⟨c1, rfl⟩ := csub_ok hle1
      obtain ⟨c2, rfl⟩ := csub_ok hsize
      obtain ⟨hva, rfl⟩ := putVarint_ok ha
      obtain ⟨hvc, rfl⟩ := putVarint_ok hc
      obtain ⟨hvd, rfl⟩ := putVarint_ok hd
      cases h
      unfold Src.renet.packet.Packet.to_bytes
      have hrev' : (ranges.map reprRange).reverse = reprRange (ls, le) :: rest.map reprRange := by
        rw [← List.map_reverse, hrev]; rfl
      simp only [reprPacket, Exec.bind_eq, Exec.pure_eq, hrev', List.head?_cons, List.tail_cons, RustSem.unwrap, reprRange]
      rw [W_start hb (fun b' => (Exec.callFrom SerializationError.from_BufferTooShortError (OctetsMut.put_u8 b' 4)).bind _)]
      have hl : RustSem.len (List.map reprRange rest) = rest.length := by
        simp [RustSem.len]
      simp only [step_u8, step_varint hv0, Exec.bind_assoc', Exec.bind_val', sub_val c1, sub_val c2, hl,
        cast64_of_le_max hvd, step_varint hva, step_varint hvc, step_varint hvd]
      rw [ack_loop rest _ ?hbody ls r hr]
      case hbody =>
        intro s e prev b' hb' k1 k2 k3 k4 k5 k6
        simp only [sub_val k1, sub_val k2, sub_val k3, sub_val k4, Exec.bind_val']
        rw [W_start hb' (fun b => (Exec.callFrom SerializationError.from_BufferTooShortError (OctetsMut.put_varint b _)).bind _)]
        simp only [step_varint k5, step_varint k6, List.nil_append]
      rw [finish_eq hb]
      congr 1
      simp [toNats]
end D
end RenetVerif.SrcEquiv
