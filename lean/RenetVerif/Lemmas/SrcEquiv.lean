/-
  Helper lemmas for the source tie, all groups (kept as an umbrella module; the per-group modules are what
  the property checks import).
-/
import RenetVerif.Lemmas.SrcEquiv.Replay
import RenetVerif.Lemmas.SrcEquiv.Prefix
import RenetVerif.Lemmas.SrcEquiv.Slice
import RenetVerif.Lemmas.SrcEquiv.Packet
import RenetVerif.Lemmas.SrcEquiv.Acks
import RenetVerif.Lemmas.SrcEquiv.TokenTable
import RenetVerif.Lemmas.SrcEquiv.NcSerialize
import RenetVerif.Lemmas.SrcEquiv.NcToken
import RenetVerif.Lemmas.SrcEquiv.NcSequence
import RenetVerif.Lemmas.SrcEquiv.SendUnrel
import RenetVerif.Lemmas.SrcEquiv.RecvUnrel
import RenetVerif.Lemmas.SrcEquiv.SendRel
import RenetVerif.Lemmas.SrcEquiv.RecvRel
import RenetVerif.Lemmas.SrcEquiv.NcPacket
import RenetVerif.Lemmas.SrcEquiv.NcAddr
import RenetVerif.Lemmas.SrcEquiv.NcConnToken
import RenetVerif.Lemmas.SrcEquiv.Conn
import RenetVerif.Lemmas.SrcEquiv.ConnSend
import RenetVerif.Lemmas.SrcEquiv.ConnRecv
import RenetVerif.Lemmas.SrcEquiv.Server
import RenetVerif.Lemmas.SrcEquiv.NcCodec
import RenetVerif.Lemmas.SrcEquiv.NcServer
import RenetVerif.Lemmas.SrcEquiv.NcServerSend
import RenetVerif.Lemmas.SrcEquiv.NcServerRecv
import RenetVerif.Lemmas.SrcEquiv.NcTokenGen
import RenetVerif.Lemmas.SrcEquiv.NcClient
import RenetVerif.Lemmas.SrcEquiv.TrSocket
import RenetVerif.Lemmas.SrcEquiv.TrServer
import RenetVerif.Lemmas.SrcEquiv.TrClient
import RenetVerif.Lemmas.SrcEquiv.TrInv
import RenetVerif.Lemmas.SrcEquiv.InvBridge
import RenetVerif.Lemmas.SrcEquiv.SendTimeInv
import RenetVerif.Lemmas.SrcEquiv.SendBridge
import RenetVerif.Lemmas.SrcEquiv.TrClosed
