/-
  Netcode server, WHOLE RUNS: the stored replay window of every session IS the `Recv.run` window of a ghost datagram list.

  `addrBufs ad tr` (ghost, a function of the trace alone): the datagrams of the `process_packet` calls from address `ad`, oldest
  first, that were long enough to reach `Packet::decode` (`2 + MAC` bytes), since the last call from `ad` that returned
  `PacketToSend`.  From a source address `process_packet` returns `PacketToSend` only when it answers a connection request
  (challenge: the half-open session of `ad` is (re)created with a NEW window) or denies one / a response (server full: the
  half-open session of `ad` is dropped).  Hence, for an address that HAS a session (half-open or connected), `addrBufs ad tr` is
  exactly the list of datagrams that reached `Packet::decode` under that session's receive key since the half-open entry was
  created (the entry existed without interruption since then: a later re-creation would have reset the list; the receive key
  is fixed when the entry is created and survives promotion to a slot).

  `WinInv a s tr` (carried along every run, `ReachT.winInv`):
    * every occupied slot `c`:  `c.replayProtection = (Recv.run a proto c.receiveKey (addrBufs c.addr tr)).window`, and the
      payloads of the current session of `c.clientId` (`sessPayloads`) are, as (sequence number, `Payload`) pairs, a sub-list of
      `(Recv.run …).surfaced`;
    * every half-open session `p` stored under `ad`:  `p.replayProtection = (Recv.run a proto p.receiveKey (addrBufs ad tr)).window`;
    * for every id (connected or not) the payloads of its current session are a sub-list of the results of SOME `Recv.run`.
  Used by `Props/C04W.lean`.
-/
import RenetVerif.Lemmas.NcSessionTrace
import RenetVerif.Lemmas.NcClientTrace
set_option linter.unusedVariables false
set_option linter.unusedSimpArgs false
namespace RenetVerif.Netcode
namespace NS
open RenetVerif RenetVerif.Netcode.Packet RenetVerif.NcClientTrace

/-! ## the ghost datagram lists -/

/-- the datagram, if it is long enough to reach `Packet::decode` -/
def dg (buf : Bytes) : List Bytes := if buf.length < 2 + C.NETCODE_MAC_BYTES then [] else [buf]

def isToSend : ServerResult → Bool
  | .packetToSend _ _ => true
  | _ => false

/-- one trace entry, seen from address `ad` -/
def bufStep (ad : Addr) (L : List Bytes) (x : Op × ServerResult) : List Bytes :=
  match x.1 with
  | .packet ad' buf => if ad' = ad then (if isToSend x.2 then [] else L ++ dg buf) else L
  | _ => L

/-- the datagrams from `ad` that reached `decode` since the last `PacketToSend` answer to `ad` -/
def addrBufs (ad : Addr) (tr : Trace) : List Bytes := tr.foldl (bufStep ad) []

theorem addrBufs_snoc (ad : Addr) (tr : Trace) (x : Op × ServerResult) :
    addrBufs ad (tr ++ [x]) = bufStep ad (addrBufs ad tr) x := by
  simp [addrBufs, List.foldl_append]

theorem addrBufs_snoc_packet (ad : Addr) (tr : Trace) (ad' : Addr) (buf : Bytes) (r : ServerResult) :
    addrBufs ad (tr ++ [(.packet ad' buf, r)]) =
      if ad' = ad then (if isToSend r then [] else addrBufs ad tr ++ dg buf) else addrBufs ad tr := by
  rw [addrBufs_snoc]; rfl

theorem addrBufs_snoc_other (ad : Addr) (tr : Trace) {op : Op} (r : ServerResult)
    (hop : ∀ ad' buf, op ≠ .packet ad' buf) : addrBufs ad (tr ++ [(op, r)]) = addrBufs ad tr := by
  rw [addrBufs_snoc]
  cases op with
  | packet ad' buf => exact absurd rfl (hop ad' buf)
  | _ => rfl

theorem addrBufs_snoc_ne (ad : Addr) (tr : Trace) {ad' : Addr} (buf : Bytes) (r : ServerResult) (hne : ad' ≠ ad) :
    addrBufs ad (tr ++ [(.packet ad' buf, r)]) = addrBufs ad tr := by
  rw [addrBufs_snoc_packet, if_neg hne]

theorem addrBufs_snoc_self (ad : Addr) (tr : Trace) (buf : Bytes) {r : ServerResult} (hr : isToSend r = false) :
    addrBufs ad (tr ++ [(.packet ad buf, r)]) = addrBufs ad tr ++ dg buf := by
  rw [addrBufs_snoc_packet, if_pos rfl, hr]; rfl

theorem addrBufs_snoc_reset (ad : Addr) (tr : Trace) (buf : Bytes) {r : ServerResult} (hr : isToSend r = true) :
    addrBufs ad (tr ++ [(.packet ad buf, r)]) = [] := by
  rw [addrBufs_snoc_packet, if_pos rfl, hr]; rfl

/-! ## one `decode` against the receive side -/

theorem recv_run_snoc (a : AEAD) (proto : Nat) (key : Bytes) (bufs : List Bytes) (b : Bytes) :
    Recv.run a proto key (bufs ++ [b]) = Recv.step a proto key (Recv.run a proto key bufs) b := by
  simp [Recv.run, List.foldl_append]

theorem decode_too_short (a : AEAD) {buf : Bytes} (proto : Nat) (key : Option Bytes) (rp : Option RP)
    (h : buf.length < 2 + C.NETCODE_MAC_BYTES) : Packet.decode a buf proto key rp = (.err .packetTooSmall, rp) := by
  unfold Packet.decode
  rw [if_pos h]

/-- the window `decode` hands back is the `Recv.run` window with the datagram appended (if it was long enough) -/
theorem run_dg_window {a : AEAD} {buf : Bytes} {proto : Nat} {k : Bytes} {w w' : RP} {res : NRes (Nat × Packet)}
    {bufs : List Bytes} (hdec : Packet.decode a buf proto (some k) (some w) = (res, some w'))
    (hw : w = (Recv.run a proto k bufs).window) : w' = (Recv.run a proto k (bufs ++ dg buf)).window := by
  unfold dg
  split
  · rename_i hs
    rw [decode_too_short a proto _ _ hs] at hdec
    simp only [Prod.mk.injEq, Option.some.injEq] at hdec
    rw [List.append_nil, ← hdec.2, hw]
  · rw [recv_run_snoc, recv_step_window, ← hw, hdec]; rfl

theorem run_dg_sublist (a : AEAD) (proto : Nat) (k : Bytes) (bufs : List Bytes) (buf : Bytes) :
    (Recv.run a proto k bufs).surfaced.Sublist (Recv.run a proto k (bufs ++ dg buf)).surfaced := by
  unfold dg
  split
  · rw [List.append_nil]; exact List.Sublist.refl _
  · rw [recv_run_snoc]; exact recv_step_surfaced_suffix _ _ _ _ _

/-- a surfaced payload is the newest result of the receive side -/
theorem run_dg_payload {a : AEAD} {buf : Bytes} {proto : Nat} {k : Bytes} {w w' : RP} {sq : Nat} {p : Bytes}
    {bufs : List Bytes} (hdec : Packet.decode a buf proto (some k) (some w) = (.ok (sq, .payload p), some w'))
    (hw : w = (Recv.run a proto k bufs).window) :
    (Recv.run a proto k (bufs ++ dg buf)).surfaced = (wireSeq buf, Packet.payload p) :: (Recv.run a proto k bufs).surfaced := by
  subst hw
  obtain ⟨hsq, -, -, -, -⟩ := decode_payload_inv hdec (Recv.good_run a proto k bufs).inv
  subst hsq
  unfold dg
  split
  · rename_i hs
    rw [decode_too_short a proto _ _ hs] at hdec
    cases hdec
  · rw [recv_run_snoc]
    unfold Recv.step
    rw [hdec]

/-! ## the association list of half-open sessions -/

theorem pendFind_of_mem_nodup : ∀ {m : Pending}, (m.map (·.1)).Nodup → ∀ {ad : Addr} {p : Connection}, (ad, p) ∈ m →
    pendingFind m ad = some p
  | [], _, _, _, h => nomatch h
  | (a0, c0) :: rest, hnd, ad, p, h => by
    simp only [List.map_cons, List.nodup_cons] at hnd
    simp only [pendingFind]
    rcases List.mem_cons.mp h with h | h
    · cases h; rw [if_pos rfl]
    · have hne : a0 ≠ ad := fun e => hnd.1 (by rw [e]; exact List.mem_map.mpr ⟨(ad, p), h, rfl⟩)
      rw [if_neg hne]
      exact pendFind_of_mem_nodup hnd.2 h

theorem pendFind_filter_nodup {m : Pending} (hnd : (m.map (·.1)).Nodup) (f : Addr × Connection → Bool) {ad : Addr}
    {p : Connection} (h : pendingFind (m.filter f) ad = some p) : pendingFind m ad = some p :=
  pendFind_of_mem_nodup hnd (List.mem_filter.mp (pendingFind_mem h)).1

/-! ## the invariant -/

structure WinInv (a : AEAD) (s : NetcodeServer) (tr : Trace) : Prop where
  slot : ∀ i c, At s.clients i c →
    c.replayProtection = (Recv.run a s.protocolId c.receiveKey (addrBufs c.addr tr)).window ∧
    ((sessPayloads c.clientId tr).map asSurf).Sublist
      (Recv.run a s.protocolId c.receiveKey (addrBufs c.addr tr)).surfaced
  pend : ∀ ad p, pendingFind s.pendingClients ad = some p →
    p.replayProtection = (Recv.run a s.protocolId p.receiveKey (addrBufs ad tr)).window
  surf : ∀ id, ∃ key bufs, ((sessPayloads id tr).map asSurf).Sublist (Recv.run a s.protocolId key bufs).surfaced

theorem winInv_init (a : AEAD) {s : NetcodeServer} (h : EmptyServer s) : WinInv a s [] := by
  refine ⟨fun i c hc => ?_, fun ad p hf => ?_, fun id => ⟨[], [], List.Sublist.refl _⟩⟩
  · rw [h.clients] at hc
    exact absurd hc (by unfold At; rw [List.getElem?_replicate]; split <;> simp)
  · rw [h.pending] at hf; cases hf

/-- an operation whose result is neither `ClientConnected` nor `Payload` -/
theorem WinInv.frame {a : AEAD} {s s' : NetcodeServer} {tr : Trace} {op : Op} {r : ServerResult} (h : WinInv a s tr)
    (h1 : ∀ id' ad ud o, r ≠ .clientConnected id' ad ud o) (h2 : ∀ id' p, r ≠ .payload id' p)
    (hproto : s'.protocolId = s.protocolId)
    (hcl : ∀ i c', At s'.clients i c' → ∃ c, At s.clients i c ∧ c'.clientId = c.clientId ∧ c'.receiveKey = c.receiveKey ∧
      c'.addr = c.addr ∧
      c'.replayProtection = (Recv.run a s.protocolId c.receiveKey (addrBufs c.addr (tr ++ [(op, r)]))).window ∧
      (Recv.run a s.protocolId c.receiveKey (addrBufs c.addr tr)).surfaced.Sublist
        (Recv.run a s.protocolId c.receiveKey (addrBufs c.addr (tr ++ [(op, r)]))).surfaced)
    (hp : ∀ ad p, pendingFind s'.pendingClients ad = some p →
      p.replayProtection = (Recv.run a s.protocolId p.receiveKey (addrBufs ad (tr ++ [(op, r)]))).window) :
    WinInv a s' (tr ++ [(op, r)]) := by
  have hL : ∀ id, sessPayloads id (tr ++ [(op, r)]) = sessPayloads id tr := fun id => by
    rw [sessPayloads_snoc, sessStep_other h1 h2]
  refine ⟨fun i c' hc' => ?_, fun ad p hf => ?_, fun id => ?_⟩
  · obtain ⟨c, hc, e1, e2, e3, e4, e5⟩ := hcl i c' hc'
    rw [hproto, e1, e2, e3, hL]
    exact ⟨e4, ((h.slot i c hc).2).trans e5⟩
  · rw [hproto]; exact hp ad p hf
  · rw [hL, hproto]; exact h.surf id

/-- … that leaves every ghost list alone (every operation other than `process_packet`) -/
theorem WinInv.frame_quiet {a : AEAD} {s s' : NetcodeServer} {tr : Trace} {op : Op} {r : ServerResult} (h : WinInv a s tr)
    (h1 : ∀ id' ad ud o, r ≠ .clientConnected id' ad ud o) (h2 : ∀ id' p, r ≠ .payload id' p)
    (hproto : s'.protocolId = s.protocolId)
    (hb : ∀ ad, addrBufs ad (tr ++ [(op, r)]) = addrBufs ad tr)
    (hcl : ∀ i c', At s'.clients i c' → ∃ c, At s.clients i c ∧ c'.clientId = c.clientId ∧ c'.receiveKey = c.receiveKey ∧
      c'.addr = c.addr ∧ c'.replayProtection = c.replayProtection)
    (hp : ∀ ad p, pendingFind s'.pendingClients ad = some p → pendingFind s.pendingClients ad = some p) :
    WinInv a s' (tr ++ [(op, r)]) := by
  refine h.frame h1 h2 hproto (fun i c' hc' => ?_) (fun ad p hf => ?_)
  · obtain ⟨c, hc, e1, e2, e3, e4⟩ := hcl i c' hc'
    refine ⟨c, hc, e1, e2, e3, ?_, ?_⟩
    · rw [hb, e4]; exact (h.slot i c hc).1
    · rw [hb]; exact List.Sublist.refl _
  · rw [hb]; exact h.pend ad p (hp ad p hf)

theorem WinInv.quiet_same {a : AEAD} {s : NetcodeServer} {tr : Trace} {op : Op} {r : ServerResult} (h : WinInv a s tr)
    (h1 : ∀ id' ad ud o, r ≠ .clientConnected id' ad ud o) (h2 : ∀ id' p, r ≠ .payload id' p)
    (hb : ∀ ad, addrBufs ad (tr ++ [(op, r)]) = addrBufs ad tr) : WinInv a s (tr ++ [(op, r)]) :=
  h.frame_quiet h1 h2 rfl hb (fun i c' hc' => ⟨c', hc', rfl, rfl, rfl, rfl⟩) (fun _ _ hf => hf)

/-- … slot `i` rewritten (same id, key, address, window) or freed -/
theorem WinInv.quiet_slot {a : AEAD} {s : NetcodeServer} {tr : Trace} {op : Op} {r : ServerResult} (h : WinInv a s tr)
    (h1 : ∀ id' ad ud o, r ≠ .clientConnected id' ad ud o) (h2 : ∀ id' p, r ≠ .payload id' p)
    (hb : ∀ ad, addrBufs ad (tr ++ [(op, r)]) = addrBufs ad tr)
    {i : Nat} {c : Connection} (hc : At s.clients i c) {x : Option Connection}
    (hx : ∀ c', x = some c' → c'.clientId = c.clientId ∧ c'.receiveKey = c.receiveKey ∧ c'.addr = c.addr ∧
      c'.replayProtection = c.replayProtection) :
    WinInv a { s with clients := s.clients.set i x } (tr ++ [(op, r)]) := by
  refine h.frame_quiet h1 h2 rfl hb (fun j c' hc' => ?_) (fun _ _ hf => hf)
  rw [at_set] at hc'
  split at hc'
  · rename_i hij; subst hij
    obtain ⟨e1, e2, e3, e4⟩ := hx c' hc'.2
    exact ⟨c, hc, e1, e2, e3, e4⟩
  · exact ⟨c', hc', rfl, rfl, rfl, rfl⟩

/-- a datagram from a CONNECTED address: slot `i` is rewritten with the window `decode` handed back, or freed -/
theorem WinInv.frame_conn {a : AEAD} {s : NetcodeServer} {tr : Trace} {addr : Addr} {buf : Bytes} {r : ServerResult}
    (hi : ServerInv s) (h : WinInv a s tr)
    (h1 : ∀ id' ad ud o, r ≠ .clientConnected id' ad ud o) (h2 : ∀ id' p, r ≠ .payload id' p)
    (h3 : isToSend r = false) {i : Nat} {c : Connection} (hfa : findClientByAddr s.clients addr = some (i, c))
    {x : Option Connection}
    (hx : ∀ c', x = some c' → c'.clientId = c.clientId ∧ c'.receiveKey = c.receiveKey ∧ c'.addr = c.addr ∧
      ∃ res, Packet.decode a buf s.protocolId (some c.receiveKey) (some c.replayProtection) = (res, some c'.replayProtection)) :
    WinInv a { s with clients := s.clients.set i x } (tr ++ [(.packet addr buf, r)]) := by
  obtain ⟨hc, hca⟩ := findAddr_some hfa
  refine h.frame h1 h2 rfl (fun j c' hc' => ?_) (fun ad p hf => ?_)
  · rw [at_set] at hc'
    split at hc'
    · rename_i hij; subst hij
      obtain ⟨e1, e2, e3, res, hdec⟩ := hx c' hc'.2
      refine ⟨c, hc, e1, e2, e3, ?_, ?_⟩
      · rw [hca, addrBufs_snoc_self _ _ _ h3]
        exact run_dg_window hdec (by rw [← hca]; exact (h.slot i c hc).1)
      · rw [hca, addrBufs_snoc_self _ _ _ h3]
        exact run_dg_sublist _ _ _ _ _
    · rename_i hij
      have hne : addr ≠ c'.addr := fun e => hij (hi.slots.addrs i j c c' hc hc' (by rw [hca, e]))
      refine ⟨c', hc', rfl, rfl, rfl, ?_, ?_⟩
      · rw [addrBufs_snoc_ne _ _ _ _ hne]; exact (h.slot j c' hc').1
      · rw [addrBufs_snoc_ne _ _ _ _ hne]; exact List.Sublist.refl _
  · have hne : addr ≠ ad := fun e => (hi.pend (ad, p) (pendingFind_mem hf)).fresh i c hc (by rw [hca, e])
    rw [addrBufs_snoc_ne _ _ _ _ hne]
    exact h.pend ad p hf

/-- a datagram from an address that is NOT connected: the slot table stays, the half-open sessions of other addresses stay -/
theorem WinInv.frame_pend {a : AEAD} {s s' : NetcodeServer} {tr : Trace} {addr : Addr} {buf : Bytes} {r : ServerResult}
    (h : WinInv a s tr)
    (h1 : ∀ id' ad ud o, r ≠ .clientConnected id' ad ud o) (h2 : ∀ id' p, r ≠ .payload id' p)
    (hfa : findClientByAddr s.clients addr = none) (hcl : s'.clients = s.clients) (hproto : s'.protocolId = s.protocolId)
    (hp : ∀ ad p, pendingFind s'.pendingClients ad = some p →
      (ad ≠ addr ∧ pendingFind s.pendingClients ad = some p) ∨
      (ad = addr ∧ p.replayProtection =
        (Recv.run a s.protocolId p.receiveKey (addrBufs addr (tr ++ [(.packet addr buf, r)]))).window)) :
    WinInv a s' (tr ++ [(.packet addr buf, r)]) := by
  refine h.frame h1 h2 hproto (fun j c' hc' => ?_) (fun ad p hf => ?_)
  · rw [hcl] at hc'
    have hne : addr ≠ c'.addr := fun e => findAddr_none.mp hfa j c' hc' e.symm
    refine ⟨c', hc', rfl, rfl, rfl, ?_, ?_⟩
    · rw [addrBufs_snoc_ne _ _ _ _ hne]; exact (h.slot j c' hc').1
    · rw [addrBufs_snoc_ne _ _ _ _ hne]; exact List.Sublist.refl _
  · rcases hp ad p hf with ⟨hne, hf'⟩ | ⟨rfl, hw⟩
    · rw [addrBufs_snoc_ne _ _ _ _ (fun e => hne e.symm)]
      exact h.pend ad p hf'
    · exact hw

/-- what `handle_connection_request` does to the half-open sessions, by lookup: those of other addresses stay; the one of
    the requesting address stays (no `PacketToSend`), is dropped, or is (re)created with a NEW window (`PacketToSend`) -/
theorem hcr_pendingFind {a : AEAD} {s : NetcodeServer} {addr : Addr} {v : Bytes} {pid expire : Nat} {xnonce data : Bytes}
    {R : NetcodeServer.SRes} {r : ServerResult} {s' : NetcodeServer}
    (ho : HcrOut a s addr v pid expire xnonce data R) (hr : HcrRes R r s') :
    ∀ ad q, pendingFind s'.pendingClients ad = some q →
      (pendingFind s.pendingClients ad = some q ∧ (ad = addr → isToSend r = false)) ∨
      (ad = addr ∧ q.replayProtection = RP.new ∧ isToSend r = true) := by
  intro ad q hf
  cases ho with
  | err e => rcases hr with h | ⟨rfl, e', h⟩ <;> cases h; exact Or.inl ⟨hf, fun _ => rfl⟩
  | none => rcases hr with h | ⟨rfl, e', h⟩ <;> cases h; exact Or.inl ⟨hf, fun _ => rfl⟩
  | deniedErr t s1 e hacc hstep hfull =>
    rcases hr with h | ⟨rfl, e', h⟩ <;> cases h
    have e := (entryStep_fields hstep).2.1
    dsimp only at hf
    rw [pendingFind_filter_ne, e] at hf
    split at hf
    · cases hf
    · exact Or.inl ⟨hf, fun _ => rfl⟩
  | denied t s1 out hacc hstep hfull hen =>
    rcases hr with h | ⟨rfl, e', h⟩ <;> cases h
    have e := (entryStep_fields hstep).2.1
    dsimp only at hf
    rw [pendingFind_filter_ne, e] at hf
    split at hf
    · cases hf
    · rename_i hne; exact Or.inl ⟨hf, fun e => absurd e hne⟩
  | challengeErr t s1 e hacc hstep hfull =>
    rcases hr with h | ⟨rfl, e', h⟩ <;> cases h
    have e := (entryStep_fields hstep).2.1
    dsimp only at hf
    rw [e] at hf
    exact Or.inl ⟨hf, fun _ => rfl⟩
  | challenge t s1 pkt out hacc hstep hfull hgen hen =>
    rcases hr with h | ⟨rfl, e', h⟩ <;> cases h
    have e := (entryStep_fields hstep).2.1
    dsimp only at hf
    rw [pendingFind_set, e] at hf
    split at hf
    · rename_i he
      cases hf
      exact Or.inr ⟨he, rfl, rfl⟩
    · rename_i hne; exact Or.inl ⟨hf, fun e => absurd e hne⟩

/-! ## `process_packet` preserves the invariant -/

theorem ppOut_winInv {a : AEAD} {s : NetcodeServer} {tr : Trace} {addr : Addr} {buf : Bytes} {r : ServerResult}
    {s' : NetcodeServer} (hi : ServerInv s) (h : WinInv a s tr) (ho : PPOut a s addr buf r s') :
    WinInv a s' (tr ++ [(.packet addr buf, r)]) := by
  have nc : ∀ id' ad ud o, ServerResult.none ≠ .clientConnected id' ad ud o := fun _ _ _ _ h => nomatch h
  have np : ∀ id' p, ServerResult.none ≠ .payload id' p := fun _ _ h => nomatch h
  -- the half-open session of `addr` after a decode that did not answer with `PacketToSend`
  have pendW : ∀ {p : Connection} {res : NRes (Nat × Packet)} {w' : RP} {r : ServerResult}, isToSend r = false →
      pendingFind s.pendingClients addr = some p →
      Packet.decode a buf s.protocolId (some p.receiveKey) (some p.replayProtection) = (res, some w') →
      w' = (Recv.run a s.protocolId p.receiveKey (addrBufs addr (tr ++ [(.packet addr buf, r)]))).window := by
    intro p res w' r hr hpf hdec
    rw [addrBufs_snoc_self _ _ _ hr]
    exact run_dg_window hdec (h.pend addr p hpf)
  -- `pendingSet` at `addr`
  have pendSet : ∀ {q : Connection} {r : ServerResult},
      q.replayProtection = (Recv.run a s.protocolId q.receiveKey (addrBufs addr (tr ++ [(.packet addr buf, r)]))).window →
      ∀ ad p, pendingFind (pendingSet s.pendingClients addr q) ad = some p →
        (ad ≠ addr ∧ pendingFind s.pendingClients ad = some p) ∨
        (ad = addr ∧ p.replayProtection =
          (Recv.run a s.protocolId p.receiveKey (addrBufs addr (tr ++ [(.packet addr buf, r)]))).window) := by
    intro q r hq ad p hf
    rw [pendingFind_set] at hf
    split at hf
    · rename_i he; cases hf; exact Or.inr ⟨he, hq⟩
    · rename_i hne; exact Or.inl ⟨hne, hf⟩
  have pendRem : ∀ {r : ServerResult} ad p, pendingFind (pendingRemove s.pendingClients addr) ad = some p →
        (ad ≠ addr ∧ pendingFind s.pendingClients ad = some p) ∨
        (ad = addr ∧ p.replayProtection =
          (Recv.run a s.protocolId p.receiveKey (addrBufs addr (tr ++ [(.packet addr buf, r)]))).window) := by
    intro r ad p hf
    rw [pendingFind_filter_ne] at hf
    split at hf
    · cases hf
    · rename_i hne; exact Or.inl ⟨hne, hf⟩
  cases ho with
  | short hs =>
    refine h.quiet_same nc np (fun ad => ?_)
    rw [addrBufs_snoc_packet]
    have : dg buf = [] := by unfold dg; rw [if_pos hs]
    rw [this, List.append_nil]
    split <;> rfl
  | connErr i c e w' hfa hdec =>
    refine h.frame_conn hi nc np rfl hfa ?_
    rintro c' ⟨⟩
    exact ⟨rfl, rfl, rfl, _, hdec⟩
  | connDisconnect i c sq w' hfa hdec =>
    exact h.frame_conn hi (by intro _ _ _ _ h; cases h) (by intro _ _ h; cases h) rfl hfa (fun c' hc' => nomatch hc')
  | connKeepAlive i c sq ci mc w' hfa hdec =>
    refine h.frame_conn hi nc np rfl hfa ?_
    rintro c' ⟨⟩
    exact ⟨rfl, rfl, rfl, _, hdec⟩
  | connOther i c sq pk w' hfa hdec _ _ _ =>
    refine h.frame_conn hi nc np rfl hfa ?_
    rintro c' ⟨⟩
    exact ⟨rfl, rfl, rfl, _, hdec⟩
  | connPayload i c sq p w' hfa hdec =>
    obtain ⟨hc, hca⟩ := findAddr_some hfa
    obtain ⟨hw, hsub⟩ := h.slot i c hc
    rw [hca] at hw hsub
    have hL : ∀ id, sessPayloads id (tr ++ [(Op.packet addr buf, ServerResult.payload c.clientId p)]) =
        if c.clientId = id then (buf, p) :: sessPayloads id tr else sessPayloads id tr := fun id => by
      rw [sessPayloads_snoc, sessStep_payload]
    have hB : addrBufs addr (tr ++ [(Op.packet addr buf, ServerResult.payload c.clientId p)]) = addrBufs addr tr ++ dg buf :=
      addrBufs_snoc_self _ _ _ rfl
    have hslot : (refreshed c w' s.currentTime).replayProtection =
          (Recv.run a s.protocolId c.receiveKey
            (addrBufs addr (tr ++ [(Op.packet addr buf, ServerResult.payload c.clientId p)]))).window ∧
        ((sessPayloads c.clientId (tr ++ [(Op.packet addr buf, ServerResult.payload c.clientId p)])).map asSurf).Sublist
          (Recv.run a s.protocolId c.receiveKey
            (addrBufs addr (tr ++ [(Op.packet addr buf, ServerResult.payload c.clientId p)]))).surfaced := by
      rw [hB, hL, if_pos rfl, run_dg_payload hdec hw]
      exact ⟨run_dg_window hdec hw, hsub.cons_cons _⟩
    refine ⟨fun j c' hc' => ?_, fun ad q hf => ?_, fun id => ?_⟩
    · rcases at_set_some hc' with ⟨rfl, rfl⟩ | ⟨hne, hj⟩
      · show _ = (Recv.run a s.protocolId c.receiveKey (addrBufs c.addr _)).window ∧
          List.Sublist _ (Recv.run a s.protocolId c.receiveKey (addrBufs c.addr _)).surfaced
        rw [hca]; exact hslot
      · have hna : addr ≠ c'.addr := fun e => hne (hi.slots.addrs i j c c' hc hj (by rw [hca, e]))
        show _ = (Recv.run a s.protocolId c'.receiveKey _).window ∧ List.Sublist _ (Recv.run a s.protocolId c'.receiveKey _).surfaced
        rw [addrBufs_snoc_ne _ _ _ _ hna, hL, if_neg (fun e => hne (hi.slots.ids i j c c' hc hj e))]
        exact h.slot j c' hj
    · have hne : addr ≠ ad := fun e => (hi.pend (ad, q) (pendingFind_mem hf)).fresh i c hc (by rw [hca, e])
      show _ = (Recv.run a s.protocolId q.receiveKey _).window
      rw [addrBufs_snoc_ne _ _ _ _ hne]
      exact h.pend ad q hf
    · by_cases e : c.clientId = id
      · subst e; exact ⟨c.receiveKey, _, hslot.2⟩
      · rw [hL, if_neg e]; exact h.surf id
  | pendErr p e w' hfa hpf hdec =>
    exact h.frame_pend nc np hfa rfl rfl (pendSet (q := { p with replayProtection := w' }) (pendW (p := p) rfl hpf hdec))
  | pendRequest p sq v pid expire xnonce data w' R _ _ hfa hpf hdec hout hres =>
    obtain ⟨hn1, hn2⟩ := hcr_not_session hout hres
    refine h.frame_pend hn1 hn2 hfa (hcr_clients hout hres).1 (hcr_frame hout hres).2.1 (fun ad q hf => ?_)
    rcases hcr_pendingFind hout hres ad q hf with ⟨hf', hts⟩ | ⟨rfl, hnew, hts⟩
    · dsimp only at hf'
      rw [pendingFind_set] at hf'
      split at hf'
      · rename_i he
        cases hf'
        exact Or.inr ⟨he, pendW (p := p) (hts he) hpf hdec⟩
      · rename_i hne; exact Or.inl ⟨hne, hf'⟩
    · refine Or.inr ⟨rfl, ?_⟩
      rw [addrBufs_snoc_reset _ _ _ hts, hnew]; rfl
  | pendOther p sq pk w' hfa hpf hdec _ _ =>
    exact h.frame_pend nc np hfa rfl rfl (pendSet (q := touched p w' s.currentTime) (pendW (p := p) rfl hpf hdec))
  | respRejected p sq ts td w' hfa hpf hdec _ =>
    exact h.frame_pend nc np hfa rfl rfl (pendSet (q := touched p w' s.currentTime) (pendW (p := p) rfl hpf hdec))
  | respDropped p sq ts td w' hfa hpf hdec _ =>
    exact h.frame_pend nc np hfa rfl rfl pendRem
  | respFull p sq ts td w' out hfa hpf hdec _ _ _ _ =>
    exact h.frame_pend (by intro _ _ _ _ h; cases h) (by intro _ _ h; cases h) hfa rfl rfl pendRem
  | respConnected p sq ts td w' i out hfa hpf hdec hct hid hff hen =>
    have hL : ∀ id, sessPayloads id (tr ++ [(Op.packet addr buf, ServerResult.clientConnected p.clientId addr p.userData out)]) =
        if p.clientId = id then [] else sessPayloads id tr := fun id => by
      rw [sessPayloads_snoc, sessStep_connected]
    have hpa : p.addr = addr := (hi.pend (addr, p) (pendingFind_mem hpf)).key
    refine ⟨fun j c' hc' => ?_, fun ad q hf => ?_, fun id => ?_⟩
    · rcases at_set_some hc' with ⟨rfl, rfl⟩ | ⟨hne, hj⟩
      · show w' = (Recv.run a s.protocolId p.receiveKey (addrBufs p.addr _)).window ∧
          List.Sublist ((sessPayloads p.clientId _).map asSurf) _
        rw [hpa, hL, if_pos rfl]
        exact ⟨pendW rfl hpf hdec, List.nil_sublist _⟩
      · have hna : addr ≠ c'.addr := fun e => findAddr_none.mp hfa j c' hj e.symm
        show _ = (Recv.run a s.protocolId c'.receiveKey _).window ∧ List.Sublist _ (Recv.run a s.protocolId c'.receiveKey _).surfaced
        rw [addrBufs_snoc_ne _ _ _ _ hna, hL, if_neg (fun e => findById_none.mp hid j c' hj e.symm)]
        exact h.slot j c' hj
    · dsimp only at hf
      rw [pendingFind_filter_ne] at hf
      split at hf
      · cases hf
      · rename_i hne
        show _ = (Recv.run a s.protocolId q.receiveKey _).window
        rw [addrBufs_snoc_ne _ _ _ _ (fun e => hne e.symm)]
        exact h.pend ad q hf
    · rw [hL]; split
      · exact ⟨[], [], List.nil_sublist _⟩
      · exact h.surf id
  | newErr e hfa hpf hdec =>
    refine h.frame_pend nc np hfa rfl rfl (fun ad q hf => Or.inl ⟨fun e => ?_, hf⟩)
    rw [e, hpf] at hf; cases hf
  | newRequest sq v pid expire xnonce data R _ _ hfa hpf hdec hout hres =>
    obtain ⟨hn1, hn2⟩ := hcr_not_session hout hres
    refine h.frame_pend hn1 hn2 hfa (hcr_clients hout hres).1 (hcr_frame hout hres).2.1 (fun ad q hf => ?_)
    rcases hcr_pendingFind hout hres ad q hf with ⟨hf', hts⟩ | ⟨rfl, hnew, hts⟩
    · refine Or.inl ⟨fun e => ?_, hf'⟩
      rw [e, hpf] at hf'; cases hf'
    · refine Or.inr ⟨rfl, ?_⟩
      rw [addrBufs_snoc_reset _ _ _ hts, hnew]; rfl

/-! ## every operation preserves the invariant -/

theorem step_winInv {a : AEAD} {s s' : NetcodeServer} {tr : Trace} {op : Op} {r : ServerResult} (hi : ServerInv s)
    (h : WinInv a s tr) (hs : step a s op = some (r, s')) : WinInv a s' (tr ++ [(op, r)]) := by
  cases op with
  | packet addr buf =>
    simp only [step] at hs
    cases hp : s.processPacket a addr buf with
    | ok x => rw [hp] at hs; cases hs; exact ppOut_winInv hi h (pp_ok hi hp)
    | err e => exact e.elim
    | panic m => rw [hp] at hs; cases hs
  | update d =>
    have hb : ∀ r ad, addrBufs ad (tr ++ [(Op.update d, r)]) = addrBufs ad tr :=
      fun r ad => addrBufs_snoc_other ad tr r (fun _ _ e => nomatch e)
    simp only [step] at hs
    cases hp : s.update d with
    | ok x =>
      rw [hp] at hs; cases hs
      rw [update_ok hp]
      exact h.frame_quiet (by intro _ _ _ _ h; cases h) (by intro _ _ h; cases h) rfl (hb _)
        (fun i c' hc' => ⟨c', hc', rfl, rfl, rfl, rfl⟩) (fun ad p hf => pendFind_filter_nodup hi.pendKeys _ hf)
    | err e => exact e.elim
    | panic m => rw [hp] at hs; cases hs
  | updateClient id =>
    have hb : ∀ r ad, addrBufs ad (tr ++ [(Op.updateClient id, r)]) = addrBufs ad tr :=
      fun r ad => addrBufs_snoc_other ad tr r (fun _ _ e => nomatch e)
    simp only [step] at hs
    cases hp : s.updateClient a id with
    | ok x =>
      rw [hp] at hs; cases hs
      cases hf : findClientSlotById s.clients id with
      | none =>
        rw [updateClient_absent a hf] at hp; cases hp
        exact h.quiet_same (by intro _ _ _ _ h; cases h) (by intro _ _ h; cases h) (hb _)
      | some i =>
        obtain ⟨c, hc, hid, _⟩ := findSlot_some hf
        rcases updateClient_spec a hi hf hc with ⟨_, o, e⟩ | ⟨_, e | ⟨out, _, _, e⟩⟩ | ⟨⟨m, e⟩, _⟩
        · rw [e] at hp; cases hp
          exact h.quiet_slot (by intro _ _ _ _ h; cases h) (by intro _ _ h; cases h) (hb _) hc (fun c' hc' => nomatch hc')
        · rw [e] at hp; cases hp
          exact h.quiet_same (by intro _ _ _ _ h; cases h) (by intro _ _ h; cases h) (hb _)
        · rw [e] at hp; cases hp
          refine h.quiet_slot (by intro _ _ _ _ h; cases h) (by intro _ _ h; cases h) (hb _) hc ?_
          rintro c' ⟨⟩
          exact ⟨rfl, rfl, rfl, rfl⟩
        · rw [e] at hp; cases hp
    | err e => exact e.elim
    | panic m => rw [hp] at hs; cases hs
  | disconnect id =>
    have hb : ∀ r ad, addrBufs ad (tr ++ [(Op.disconnect id, r)]) = addrBufs ad tr :=
      fun r ad => addrBufs_snoc_other ad tr r (fun _ _ e => nomatch e)
    simp only [step] at hs
    cases hp : s.disconnect a id with
    | ok x =>
      rw [hp] at hs; cases hs
      rcases disconnect_spec a s id with ⟨_, e⟩ | ⟨i, c, o, _, hc, _, e⟩
      · rw [e] at hp; cases hp
        exact h.quiet_same (by intro _ _ _ _ h; cases h) (by intro _ _ h; cases h) (hb _)
      · rw [e] at hp; cases hp
        exact h.quiet_slot (by intro _ _ _ _ h; cases h) (by intro _ _ h; cases h) (hb _) hc (fun c' hc' => nomatch hc')
    | err e => exact e.elim
    | panic m => rw [hp] at hs; cases hs
  | setMaxClients m =>
    have hb : ∀ r ad, addrBufs ad (tr ++ [(Op.setMaxClients m, r)]) = addrBufs ad tr :=
      fun r ad => addrBufs_snoc_other ad tr r (fun _ _ e => nomatch e)
    simp only [step, Option.some.injEq, Prod.mk.injEq] at hs
    obtain ⟨rfl, rfl⟩ := hs
    obtain ⟨_, e2, e3, _, _⟩ := setMaxClients_eq s m
    refine h.frame_quiet (by intro _ _ _ _ h; cases h) (by intro _ _ h; cases h) rfl (hb _) (fun i c' hc' => ?_)
      (fun ad p hf => by rw [← e3]; exact hf)
    rw [e2] at hc'
    exact ⟨c', at_append_none.mp hc', rfl, rfl, rfl, rfl⟩
  | sendPayload id p =>
    have hb : ∀ r ad, addrBufs ad (tr ++ [(Op.sendPayload id p, r)]) = addrBufs ad tr :=
      fun r ad => addrBufs_snoc_other ad tr r (fun _ _ e => nomatch e)
    simp only [step] at hs
    cases hp : s.generatePayloadPacket a id p with
    | ok x =>
      obtain ⟨⟨ad, out⟩, s''⟩ := x
      rw [hp] at hs; cases hs
      obtain ⟨i, c, _, hc, _, _, _, rfl⟩ := generatePayload_ok hp
      refine h.quiet_slot (by intro _ _ _ _ h; cases h) (by intro _ _ h; cases h) (hb _) hc ?_
      rintro c' ⟨⟩
      exact ⟨rfl, rfl, rfl, rfl⟩
    | err e =>
      rw [hp] at hs; cases hs
      exact h.quiet_same (by intro _ _ _ _ h; cases h) (by intro _ _ h; cases h) (hb _)
    | panic m => rw [hp] at hs; cases hs

/-- **the window invariant holds along every run** -/
theorem ReachT.winInv {a : AEAD} {s : NetcodeServer} {tr : Trace} (h : ReachT a s tr) : WinInv a s tr := by
  induction h with
  | init h => exact winInv_init a h
  | step hr hs ih => exact step_winInv hr.inv ih hs

end NS
end RenetVerif.Netcode
