/-
  LIVENESS of the reliable channels (the "once the network delivers again …" halves of C01 / C02).

  Everything here composes results that are already proved:
    * sender, one flush           — Lemmas/Flush (C14/C15: `relLoop_*`, `slicedLoop_*`, budget bookkeeping),
    * sender bookkeeping          — Lemmas/SendInv (C08: `SendRel.Inv`, `Conn.SendInv`, ack processing),
    * wire                        — Lemmas/PacketRT, Lemmas/DecodeWF (C13/C16 round trip, via `System.decode_lookup`),
    * receiver                    — Lemmas/DataPath, Lemmas/Reassembly (C01–C03: `OrdInv`, `UnordInv`, `processSlice_genuine`),
    * total connection invariant  — Lemmas/ConnInv (C06/C09: every operation total, exact memory accounting),
    * the two-endpoint system     — Lemmas/System (`Sys`, `Inv1`, `Inv2`, `InvR`, ghost logs).

  Parts:
    1  one flush of a reliable send channel emits its whole due backlog when the budget covers it (`getPackets_cover`)
    2  receive channel: `Have` / `HaveSlice` (what has arrived), monotone under every operation
    3  receive channel memory: `Room` (H3) is kept by every genuine operation, and then nothing is refused
    4  one connection: frame facts, `reach_conn` (C06 invariant of every reachable connection), `Stamped`
       (time stamps never lie in the future, hence H1 after waiting), `flush_covers`
    5  system invariant `InvD`: every datagram handed to a live B has arrived in B's channel state
    6  runs: deliveries, draining, `all_have`
    7  `round_progress`, `round_live`, `round_delivers`
    8  `due_after_update`, `bounded_delivery`, `progress_per_tick_partial`, `nothing_lost`, single-channel corollary
    9  ReliableUnordered: `UFull`, `InvF`
   10  `round_delivers_unordered`
   11  the acknowledgement path back, at the sender: `processPacket_ack_forward`
   12  the acknowledgement round at system level: `acks_release`, `flush_records`, `acks_release_prefix`,
       `acks_release_next_round`
   13  B keeps the sequence numbers of the round in its pending-ack list (`InvL`, `deliver_pending`):
       `acks_release_after_round`
-/
import RenetVerif.Lemmas.System
import RenetVerif.Lemmas.ConnInv
import RenetVerif.Props.C06
namespace RenetVerif.Live
open RenetVerif C RenetVerif.System RenetVerif.DataPath RenetVerif.Reasm

/-! ## Part 1 — one flush of a reliable send channel emits its whole (due) backlog when the budget covers it -/

/-- indices of the slices of a sliced message that have not been acknowledged yet -/
def unackedIdx (n : Nat) (ak : List Bool) : List Nat := (List.range n).filter (fun i => !(ak.getD i false))

/-- what one entry of `unacked` costs the per-tick budget when it is (re)transmitted in full: a small message its
    length, a sliced message `SLICE_SIZE` per slice not yet acknowledged (the code's admission test for a slice is
    `available_bytes >= SLICE_SIZE`, whatever the slice's real length) -/
def entryCost : Unacked → Nat
  | .small m _ => m.length
  | .sliced _ n _ _ ak _ => SLICE_SIZE * (unackedIdx n ak).length

def backlog : SMap Unacked → Nat
  | [] => 0
  | (_, u) :: r => entryCost u + backlog r

@[simp] theorem backlog_nil : backlog [] = 0 := rfl
@[simp] theorem backlog_cons (k : Nat) (u : Unacked) (r : SMap Unacked) : backlog ((k, u) :: r) = entryCost u + backlog r := rfl

theorem backlog_append : ∀ (a b : SMap Unacked), backlog (a ++ b) = backlog a + backlog b
  | [], b => by simp
  | (k, u) :: a, b => by simp only [List.cons_append, backlog_cons, backlog_append a b]; omega

/-- the resend timer of every part of the entry has expired (or the part was never sent) -/
def EntryDue (now resend : Nat) : Unacked → Prop
  | .small _ ls => smallDue now resend ls = true
  | .sliced _ n _ _ ak ls => ∀ i, i < n → ak.getD i false = false → smallDue now resend (ls.getD i none) = true

def AllDue (now resend : Nat) (un : SMap Unacked) : Prop := ∀ x ∈ un, EntryDue now resend x.2

def SmallIn (ps : List Packet) (ch id : Nat) (m : Bytes) : Prop :=
  ∃ sq msgs, Packet.smallReliable sq ch msgs ∈ ps ∧ (id, m) ∈ msgs

def SliceIn (ps : List Packet) (ch id i n : Nat) (m : Bytes) : Prop :=
  ∃ sq, Packet.reliableSlice sq ch ⟨id, i, n, sliceBytes m n i⟩ ∈ ps

theorem SliceIn.mono {ps ps' : List Packet} (h : ∀ p ∈ ps, p ∈ ps') {ch id i n : Nat} {m : Bytes}
    (hs : SliceIn ps ch id i n m) : SliceIn ps' ch id i n m := by
  obtain ⟨sq, hsq⟩ := hs; exact ⟨sq, h _ hsq⟩

theorem SmallIn.mono {ps ps' : List Packet} (h : ∀ p ∈ ps, p ∈ ps') {ch id : Nat} {m : Bytes}
    (hs : SmallIn ps ch id m) : SmallIn ps' ch id m := by
  obtain ⟨sq, msgs, h1, h2⟩ := hs; exact ⟨sq, msgs, h _ h1, h2⟩

/-! ### counting: the slice loop visits every index once -/

theorem filter_len_le (p : Nat → Bool) : ∀ (n : Nat) (l : List Nat), l.Nodup → (∀ x ∈ l, x < n) →
    (l.filter p).length ≤ ((List.range n).filter p).length
  | 0, l, _, hb => by
    cases l with
    | nil => simp
    | cons x r => exact absurd (hb x (List.mem_cons_self ..)) (by omega)
  | n + 1, l, hn, hb => by
    have ih := filter_len_le p n (l.erase n) (hn.erase n) (by
      intro x hx
      obtain ⟨h1, h2⟩ := (hn.mem_erase_iff).mp hx
      have := hb x h2; omega)
    rw [List.range_succ, List.filter_append, List.length_append]
    by_cases hm : n ∈ l
    · have hp := (List.perm_cons_erase hm).filter p
      rw [hp.length_eq, List.filter_cons]
      simp only [List.filter_cons, List.filter_nil]
      split <;> simp <;> omega
    · rw [List.erase_of_not_mem hm] at ih; omega

/-- number of loop indices of `l` whose slice is not acknowledged -/
def cntLoop (n start : Nat) (ak : List Bool) (l : List Nat) : Nat :=
  (l.filter (fun i0 => !(ak.getD ((start + i0) % n) false))).length

theorem cntLoop_range_le (n start : Nat) (ak : List Bool) : cntLoop n start ak (List.range n) ≤ (unackedIdx n ak).length := by
  by_cases hn : n = 0
  · subst hn; simp [cntLoop, unackedIdx]
  have hpos : 0 < n := by omega
  have h := filter_len_le (fun i => !(ak.getD i false)) n ((List.range n).map (fun i0 => (start + i0) % n))
    (by
      rw [List.Nodup, List.pairwise_map]
      refine (List.nodup_range (n := n)).imp_of_mem ?_
      intro a b ha hb hne he
      exact hne (mod_inj start n a b (List.mem_range.mp ha) (List.mem_range.mp hb) he))
    (by
      intro x hx
      obtain ⟨i0, -, rfl⟩ := List.mem_map.mp hx
      exact Nat.mod_lt _ hpos)
  rw [List.filter_map, List.length_map] at h
  exact h

theorem cntLoop_cons (n start : Nat) (ak : List Bool) (i0 : Nat) (rest : List Nat) :
    cntLoop n start ak (i0 :: rest) =
      (if ak.getD ((start + i0) % n) false = false then 1 else 0) + cntLoop n start ak rest := by
  unfold cntLoop
  rw [List.filter_cons]
  cases ak.getD ((start + i0) % n) false <;> simp <;> omega

/-! ### the slice loop of one message -/

theorem slicedLoop_cover (ch id now resend : Nat) (m : Bytes) (n start : Nat) (ak : List Bool)
    (hfit : m.length ≤ n * SLICE_SIZE) :
    ∀ (l : List Nat) (ls : List (Option Nat)) (next : Nat) (gp : GP),
    SLICE_SIZE * cntLoop n start ak l ≤ gp.avail →
    (∀ i0 ∈ l, ak.getD ((start + i0) % n) false = false →
      smallDue now resend (ls.getD ((start + i0) % n) none) = true ∨ SliceIn gp.packets ch id ((start + i0) % n) n m) →
    gp.avail ≤ (slicedLoop ch id now resend m n start ak l (ls, next, gp)).2.2.avail + SLICE_SIZE * cntLoop n start ak l ∧
    (∀ i0 ∈ l, ak.getD ((start + i0) % n) false = false →
      SliceIn (slicedLoop ch id now resend m n start ak l (ls, next, gp)).2.2.packets ch id ((start + i0) % n) n m) := by
  intro l
  induction l with
  | nil =>
    intro ls next gp _ _
    rw [slicedLoop_nil]
    exact ⟨by simp [cntLoop], fun _ h => by cases h⟩
  | cons i0 rest ih =>
    intro ls next gp hav hdue
    have hmono := slicedLoop_mono ch id now resend m n start ak (i0 :: rest) ls next gp
    rw [cntLoop_cons] at hav ⊢
    rw [slicedLoop_cons] at hmono ⊢
    have hdue' : ∀ j0 ∈ rest, ak.getD ((start + j0) % n) false = false →
        smallDue now resend (ls.getD ((start + j0) % n) none) = true ∨ SliceIn gp.packets ch id ((start + j0) % n) n m :=
      fun j0 hj => hdue j0 (List.mem_cons_of_mem _ hj)
    by_cases hlow : gp.avail < SLICE_SIZE
    · -- nothing unacknowledged can be left
      rw [if_pos hlow]
      have hS : 0 < SLICE_SIZE := by decide
      have hz : (if ak.getD ((start + i0) % n) false = false then 1 else 0) + cntLoop n start ak rest = 0 := by
        rcases Nat.eq_zero_or_pos ((if ak.getD ((start + i0) % n) false = false then 1 else 0) + cntLoop n start ak rest) with h | h
        · exact h
        · have : SLICE_SIZE * 1 ≤ SLICE_SIZE * ((if ak.getD ((start + i0) % n) false = false then 1 else 0) + cntLoop n start ak rest) :=
            Nat.mul_le_mul_left _ h
          omega
      refine ⟨by dsimp only; omega, ?_⟩
      intro j0 hj hak
      exfalso
      rcases List.mem_cons.mp hj with rfl | hj
      · rw [if_pos hak] at hz; omega
      · have : 0 < cntLoop n start ak rest :=
          List.length_pos_of_mem (List.mem_filter.mpr ⟨hj, by rw [hak]; rfl⟩)
        omega
    · rw [if_neg hlow] at hmono ⊢
      by_cases hskip : ak.getD ((start + i0) % n) false = true ∨ smallDue now resend (ls.getD ((start + i0) % n) none) = false
      · rw [if_pos hskip] at hmono ⊢
        have hav' : SLICE_SIZE * cntLoop n start ak rest ≤ gp.avail := by
          have : SLICE_SIZE * cntLoop n start ak rest ≤
              SLICE_SIZE * ((if ak.getD ((start + i0) % n) false = false then 1 else 0) + cntLoop n start ak rest) :=
            Nat.mul_le_mul_left _ (by omega)
          omega
        obtain ⟨h1, h2⟩ := ih ls next gp hav' hdue'
        refine ⟨?_, ?_⟩
        · have : SLICE_SIZE * cntLoop n start ak rest ≤
              SLICE_SIZE * ((if ak.getD ((start + i0) % n) false = false then 1 else 0) + cntLoop n start ak rest) :=
            Nat.mul_le_mul_left _ (by omega)
          omega
        · intro j0 hj hak
          rcases List.mem_cons.mp hj with rfl | hj
          · rcases hskip with h | h
            · rw [hak] at h; cases h
            · rcases hdue j0 (List.mem_cons_self ..) hak with hd | hd
              · rw [hd] at h; cases h
              · exact hd.mono hmono.1
          · exact h2 j0 hj hak
      · rw [if_neg hskip] at hmono ⊢
        have hak0 : ak.getD ((start + i0) % n) false = false := by
          cases hh : ak.getD ((start + i0) % n) false
          · rfl
          · exact absurd (Or.inl hh) hskip
        rw [if_pos hak0] at hav ⊢
        generalize hi : (start + i0) % n = i at *
        have hpl : (sliceBytes m n i).length ≤ SLICE_SIZE := sliceBytes_length_le m n i hfit
        have hnew : SliceIn (sliceStep ch id m n i gp).packets ch id i n m :=
          ⟨gp.seq, by simp [sliceStep]⟩
        have hm1 := Mono_sliceStep ch id m n i gp
        have havs : (sliceStep ch id m n i gp).avail = gp.avail - (sliceBytes m n i).length := rfl
        have hav' : SLICE_SIZE * cntLoop n start ak rest ≤ (sliceStep ch id m n i gp).avail := by
          rw [havs, Nat.mul_add, Nat.mul_one] at *; omega
        obtain ⟨h1, h2⟩ := ih (ls.set i (some now)) (i + 1 % n) (sliceStep ch id m n i gp) hav' (by
          intro j0 hj hak
          by_cases he : (start + j0) % n = i
          · rw [he]; exact Or.inr hnew
          · rcases hdue' j0 hj hak with hd | hd
            · left
              rw [getD_set, if_neg (fun c => he c.1.symm)]; exact hd
            · exact Or.inr (hd.mono hm1.1))
        refine ⟨?_, ?_⟩
        · rw [havs] at h1; rw [Nat.mul_add, Nat.mul_one]; omega
        · intro j0 hj hak
          rcases List.mem_cons.mp hj with rfl | hj
          · rw [hi]
            exact hnew.mono (slicedLoop_mono ch id now resend m n start ak rest _ _ _).1
          · exact h2 j0 hj hak

/-! ### the loop over the `unacked` map -/

/-- the entries of `un` are transmitted by the loop -/
def Covered (ch : Nat) (un : SMap Unacked) (g : GP) : Prop :=
  (∀ id m ls, (id, Unacked.small m ls) ∈ un → (id, m) ∈ g.msgs) ∧
  (∀ id m n na nx ak ls, (id, Unacked.sliced m n na nx ak ls) ∈ un → ∀ i, i < n → ak.getD i false = false →
    SliceIn g.packets ch id i n m)

theorem Covered.mono {ch : Nat} {un : SMap Unacked} {g g' : GP} (hm : Mono g g') (h : Covered ch un g) : Covered ch un g' :=
  ⟨fun id m ls hx => hm.2.1 _ (h.1 id m ls hx), fun id m n na nx ak ls hx i hi hak => (h.2 id m n na nx ak ls hx i hi hak).mono hm.1⟩

theorem relLoop_cover (ch now resend : Nat) : ∀ (un : SMap Unacked) (gp : GP), SlicedFit un → AllDue now resend un →
    backlog un ≤ gp.avail →
    gp.avail ≤ (relLoop ch now resend un gp).2.avail + backlog un ∧ Covered ch un (relLoop ch now resend un gp).2 := by
  intro un
  induction un with
  | nil =>
    intro gp _ _ _
    refine ⟨by simp [relLoop_nil], ?_, ?_⟩
    · intro _ _ _ h; cases h
    · intro _ _ _ _ _ _ _ h; cases h
  | cons x rest ih =>
    intro gp hfit hdue hav
    obtain ⟨id, u⟩ := x
    have hfit' : SlicedFit rest := fun id m n na nx ak ls h => hfit id m n na nx ak ls (List.mem_cons_of_mem _ h)
    have hdue' : AllDue now resend rest := fun x h => hdue x (List.mem_cons_of_mem _ h)
    have hd0 := hdue (id, u) (List.mem_cons_self ..)
    cases u with
    | small m ls =>
      simp only [EntryDue] at hd0
      simp only [backlog_cons, entryCost] at hav ⊢
      rw [relLoop_small, if_neg (by rw [hd0]; simp; omega)]
      dsimp only
      have hta := avail_takeSmall ch id m gp
      obtain ⟨h1, h2⟩ := ih (takeSmall ch id m gp) hfit' hdue' (by omega)
      refine ⟨by omega, ?_, ?_⟩
      · intro id' m' ls' hx
        rcases List.mem_cons.mp hx with e | hx
        · cases e
          apply (relLoop_mono ch now resend rest _).2.1
          rw [msgs_takeSmall]; simp
        · exact h2.1 id' m' ls' hx
      · intro id' m' n na nx ak ls' hx i hi hak
        rcases List.mem_cons.mp hx with e | hx
        · cases e
        · exact h2.2 id' m' n na nx ak ls' hx i hi hak
    | sliced m n na nx ak ls =>
      simp only [EntryDue] at hd0
      simp only [backlog_cons, entryCost] at hav ⊢
      rw [relLoop_sliced]
      dsimp only
      have hf0 := hfit id m n na nx ak ls (List.mem_cons_self ..)
      have hc := cntLoop_range_le n nx ak
      have hcm : SLICE_SIZE * cntLoop n nx ak (List.range n) ≤ SLICE_SIZE * (unackedIdx n ak).length := Nat.mul_le_mul_left _ hc
      obtain ⟨s1, s2⟩ := slicedLoop_cover ch id now resend m n nx ak hf0 (List.range n) ls nx gp (by omega) (by
        intro i0 hi0 hak
        by_cases hn : n = 0
        · subst hn; simp at hi0
        · exact Or.inl (hd0 _ (Nat.mod_lt _ (by omega)) hak))
      generalize slicedLoop ch id now resend m n nx ak (List.range n) (ls, nx, gp) = r at *
      obtain ⟨h1, h2⟩ := ih r.2.2 hfit' hdue' (by omega)
      refine ⟨by omega, ?_, ?_⟩
      · intro id' m' ls' hx
        rcases List.mem_cons.mp hx with e | hx
        · cases e
        · exact h2.1 id' m' ls' hx
      · intro id' m' n' na' nx' ak' ls' hx i hi hak
        rcases List.mem_cons.mp hx with e | hx
        · cases e
          obtain ⟨i0, hi0, rfl⟩ := exists_loop_index nx n i hi
          exact (s2 i0 (List.mem_range.mpr hi0) hak).mono (relLoop_mono ch now resend rest _).1
        · exact h2.2 id' m' n' na' nx' ak' ls' hx i hi hak

/-- **One flush of a reliable send channel, prefix form.**  If the entries `pre` with the smallest ids are all due and
    the budget offered to the channel covers their cost, each of them is transmitted by this flush: a small message
    inside some small-message packet, every unacknowledged slice of a sliced message in its own packet. -/
theorem getPackets_cover {s s' : SendRel} {seq avail now seq' avail' : Nat} {ps : List Packet}
    (h : s.getPackets seq avail now = (s', ps, seq', avail')) (hi : s.Inv)
    {pre post : SMap Unacked} (hun : s.unacked = pre ++ post) (hdue : AllDue now s.resend pre)
    (hav : backlog pre ≤ avail) :
    (∀ id m ls, (id, Unacked.small m ls) ∈ pre → SmallIn ps s.ch id m) ∧
    (∀ id m n na nx ak ls, (id, Unacked.sliced m n na nx ak ls) ∈ pre → ∀ i, i < n → ak.getD i false = false →
      SliceIn ps s.ch id i n m) := by
  have h0 := h
  rw [SendRel.getPackets_eq] at h
  simp only [Prod.mk.injEq] at h
  obtain ⟨_, rfl, _, _⟩ := h
  have hfit : SlicedFit pre := by
    intro id m n na nx ak ls hx
    obtain ⟨-, o2, -⟩ := hi.entries _ (by rw [hun]; exact List.mem_append_left _ hx)
    rw [o2]; exact divCeil_mul_ge _
  obtain ⟨-, hc⟩ := relLoop_cover s.ch now s.resend pre ⟨[], [], 0, seq, avail⟩ hfit hdue hav
  have hc2 : Covered s.ch pre (finishRel s.ch (relLoop s.ch now s.resend s.unacked ⟨[], [], 0, seq, avail⟩).2) := by
    refine Covered.mono (Mono_finishRel s.ch _) ?_
    rw [hun, relLoop_append]
    exact Covered.mono (relLoop_mono s.ch now s.resend post _) hc
  refine ⟨?_, hc2.2⟩
  intro id m ls hx
  obtain ⟨sq, c, msgs, hp, hxm⟩ := mem_packets_of_mem_msgs (finishRel_small s.ch _) (hc2.1 id m ls hx)
  have hcc := (SendRel.getPackets_genuine h0 _ hp).1
  subst hcc
  exact ⟨sq, msgs, hp, hxm⟩

/-! ## Part 2 — the receive channel: what has arrived stays arrived, and every delivered entry arrives -/

/-- message `id` has completely arrived at the receive channel: it is waiting in the queue or has already been
    handed to the application -/
def Have (r : RecvRel) (id : Nat) : Prop :=
  id < r.oldest ∨ (if r.ordered = true then SMap.contains r.messages id = true else id ∈ r.received)

instance (r : RecvRel) (id : Nat) : Decidable (Have r id) := by unfold Have; infer_instance

/-- slice `i` of message `id` has arrived: the message is complete, or its reassembly has the slice -/
def HaveSlice (r : RecvRel) (id i : Nat) : Prop :=
  Have r id ∨ ∃ c, SMap.find? r.slices id = some c ∧ c.received[i]? = some true

theorem Have.congr {r r' : RecvRel} (h1 : r'.oldest = r.oldest) (h2 : r'.ordered = r.ordered)
    (h3 : r'.messages = r.messages) (h4 : r'.received = r.received) (id : Nat) : Have r' id ↔ Have r id := by
  unfold Have; rw [h1, h2, h3, h4]

theorem contains_insert_of {α : Type} {m : SMap α} {k j : Nat} (v : α) (h : SMap.contains m j = true) :
    SMap.contains (SMap.insert m k v) j = true := by
  unfold SMap.contains at h ⊢
  rw [DataPath.find?_insert]
  split
  · rfl
  · exact h

theorem contains_insert_self {α : Type} (m : SMap α) (k : Nat) (v : α) : SMap.contains (SMap.insert m k v) k = true := by
  unfold SMap.contains
  rw [DataPath.find?_insert, if_pos rfl]; rfl

theorem have_of_accept {r r' : RecvRel} {id : Nat} {m : Bytes} (h : Accept r r' id m) : ∀ j, Have r j → Have r' j := by
  obtain ⟨ho, hord, hc⟩ := h
  intro j hj
  unfold Have at hj ⊢
  rw [ho, hord]
  rcases hc with ⟨hm, hr⟩ | ⟨_, hm, hmode⟩
  · rw [hm, hr]; exact hj
  · rcases hj with hj | hj
    · exact Or.inl hj
    · right
      rcases hmode with ⟨ht, _, hr⟩ | ⟨hf, _, hr⟩
      · rw [if_pos ht] at hj ⊢; rw [hm]; exact contains_insert_of m hj
      · rw [if_neg (by simp [hf])] at hj ⊢; rw [hr]; exact List.mem_cons_of_mem _ hj

/-- a (small) message entry handed to the channel: afterwards the message has arrived, nothing else is forgotten -/
theorem processMessage_have {r r' : RecvRel} {m : Bytes} {id : Nat} (h : r.processMessage m id = .ok r') :
    Have r' id ∧ (∀ j, Have r j → Have r' j) ∧ r'.slices = r.slices := by
  obtain ⟨hacc, hsl⟩ := processMessage_ok h
  refine ⟨?_, have_of_accept hacc, hsl⟩
  unfold RecvRel.processMessage at h
  split at h
  · next hlt => cases h; exact Or.inl hlt
  · split at h
    · next hord =>
      split at h
      · next hc => cases h; right; rw [if_pos hord]; exact hc
      · split at h
        · cases h
        · cases h; right; dsimp only; rw [if_pos hord]; exact contains_insert_self _ _ _
    · next hord =>
      split at h
      · next hc => cases h; right; rw [if_neg hord]; simpa using hc
      · split at h
        · cases h
        · cases h; right; dsimp only; rw [if_neg hord]; exact List.mem_cons_self ..

theorem haveSlice_of {r r' : RecvRel} (hh : ∀ j, Have r j → Have r' j)
    (hs : ∀ (j : Nat) (c : SliceCtor) (i : Nat), SMap.find? r.slices j = some c → c.received[i]? = some true →
      Have r' j ∨ ∃ c', SMap.find? r'.slices j = some c' ∧ c'.received[i]? = some true) :
    ∀ j i, HaveSlice r j i → HaveSlice r' j i := by
  intro j i h
  rcases h with h | ⟨c, hc, hi⟩
  · exact Or.inl (hh j h)
  · exact hs j c i hc hi

/-- the messages waiting in the queue are known to have arrived (automatic on an ordered channel) -/
def MsgsHave (r : RecvRel) : Prop := ∀ id, SMap.contains r.messages id = true → Have r id

theorem msgsHave_ord {r : RecvRel} (h : r.ordered = true) : MsgsHave r := by
  intro id hc; right; rw [if_pos h]; exact hc

theorem msgsHave_unord {L : List Bytes} {st : RunSt} (h : UnordInv L st) : MsgsHave st.r := by
  intro id hc
  obtain ⟨x, hx⟩ := (DataPath.contains_iff _ _).mp hc
  have := (h.msgs id x hx).2
  unfold Have
  rw [if_neg (by simp [h.ord])]
  exact this

theorem msgsHave_of_chanBS {L : List Bytes} {r : RecvRel} {o : List Bytes} (h : ChanBS L ⟨r, o, false⟩) : MsgsHave r := by
  cases ho : r.ordered with
  | true => exact msgsHave_ord ho
  | false => exact msgsHave_unord (h.2 ho)

/-- a genuine slice handed to the channel: afterwards the slice has arrived, nothing else is forgotten -/
theorem processSlice_have {L : List Bytes} {r r' : RecvRel} {sl : Slice} (hs : SlicesOK L r) (hmh : MsgsHave r)
    (g : GenuineSlice L sl) (h : r.processSlice sl = .ok r') :
    HaveSlice r' sl.messageId sl.sliceIndex ∧ (∀ j, Have r j → Have r' j) ∧ (∀ j i, HaveSlice r j i → HaveSlice r' j i) := by
  obtain ⟨-, m0, -, hacc⟩ := processSlice_ok hs g h
  have hmono := have_of_accept hacc
  obtain ⟨m, hL, hlen, hn, hi, hp⟩ := g
  rw [processSlice_eq] at h
  split at h
  · next hign =>
    cases h
    refine ⟨Or.inl ?_, fun _ h => h, fun _ _ h => h⟩
    rcases hign with hc | hlt
    · exact hmh _ hc
    · exact Or.inl hlt
  · split at h
    · next hign =>
      cases h
      refine ⟨Or.inl ?_, fun _ h => h, fun _ _ h => h⟩
      right
      rw [if_neg (by simpa using hign.1)]
      simpa using hign.2
    · -- the slice is processed
      cases hh : sliceHead r sl with
      | panic s => rw [hh] at h; cases h
      | err e => rw [hh] at h; cases h
      | ok r1 =>
        rw [hh] at h
        simp only [Res.bind_ok] at h
        obtain ⟨hs1, a1, a2, a3, a4⟩ := sliceHead_ok hs hL hlen hn hh
        -- the constructors of `r1`: those of `r`, plus possibly a fresh one for this message
        have hsl1 : ∀ (j : Nat) (c : SliceCtor) (i : Nat), SMap.find? r.slices j = some c → c.received[i]? = some true →
            SMap.find? r1.slices j = some c := by
          intro j c i hc _
          unfold sliceHead at hh
          split at hh
          · cases hh; exact hc
          · next hnc =>
            dsimp only at hh
            split at hh
            · cases hh
            · cases hh
              dsimp only
              rw [DataPath.find?_insert]
              split
              · next e =>
                subst e
                exact absurd ((DataPath.contains_iff _ _).mpr ⟨c, hc⟩) hnc
              · exact hc
        unfold sliceTail at h
        split at h
        · cases h
        · next c hfind =>
          obtain ⟨m', hL', hlen', hag⟩ := hs1.2 _ _ hfind
          rw [hL] at hL'; cases hL'
          have hcn : c.numSlices = sl.numSlices := by rw [hn]; exact hag.numSlices
          rw [if_neg (by simp [hcn])] at h
          obtain ⟨c', out, hproc, hrecv, _, hnone, hsome, _⟩ :=
            processSlice_genuine (m := m) (by omega) hag (idx := sl.sliceIndex) (by rw [← hn]; exact hi)
          rw [hp, hn, hproc] at h
          have hidx : sl.sliceIndex < c.received.length := by rw [hag.recvLen, ← hn]; exact hi
          have hset : ∀ (i : Nat), c.received[i]? = some true → c'.received[i]? = some true := by
            intro i hi'
            rw [hrecv, List.getElem?_set]
            split
            · next e => subst e; simp
            · exact hi'
          have hself : c'.received[sl.sliceIndex]? = some true := by
            rw [hrecv, List.getElem?_set, if_pos rfl]; simp [hidx]
          cases out with
          | none =>
            dsimp only at h
            cases h
            have hcong : ∀ j, Have ({ r1 with slices := SMap.insert r1.slices sl.messageId c' } : RecvRel) j ↔ Have r j :=
              fun j => Have.congr a2 a3 a1 a4 j
            refine ⟨Or.inr ⟨c', by dsimp only; rw [DataPath.find?_insert, if_pos rfl], hself⟩, hmono, ?_⟩
            refine haveSlice_of hmono ?_
            intro j c0 i hc0 hi0
            right
            have h1 := hsl1 j c0 i hc0 hi0
            dsimp only
            rw [DataPath.find?_insert]
            split
            · next e =>
              subst e
              rw [hfind] at h1; cases h1
              exact ⟨c', rfl, hset i hi0⟩
            · exact ⟨c0, h1, hi0⟩
          | some mm =>
            have := hsome mm rfl; subst this
            dsimp only at h
            cases hsub : (Res.csub r1.mem (c.numSlices * SLICE_SIZE) "reliable.rs memory_usage_bytes -= num_slices * SLICE_SIZE" : Res (ChanErr × RecvRel) Nat) with
            | panic s => rw [hsub] at h; cases h
            | err e => rw [hsub] at h; cases h
            | ok mem =>
              rw [hsub] at h
              simp only [Res.bind_ok] at h
              generalize hr2 : ({ r1 with mem := mem, slices := SMap.insert r1.slices sl.messageId c' } : RecvRel) = r2 at h
              cases hpm : r2.processMessage mm sl.messageId with
              | panic s => rw [hpm] at h; cases h
              | err e => rw [hpm] at h; cases h
              | ok r3 =>
                rw [hpm] at h
                simp only [Res.bind_ok, Res.pure_eq] at h
                cases h
                obtain ⟨hv, -, hsl3⟩ := processMessage_have hpm
                have hvr : Have ({ r3 with slices := SMap.erase r3.slices sl.messageId } : RecvRel) sl.messageId :=
                  (Have.congr rfl rfl rfl rfl _).mpr hv
                refine ⟨Or.inl hvr, hmono, ?_⟩
                refine haveSlice_of hmono ?_
                intro j c0 i hc0 hi0
                by_cases e : sl.messageId = j
                · subst e; exact Or.inl hvr
                · right
                  have h1 := hsl1 j c0 i hc0 hi0
                  refine ⟨c0, ?_, hi0⟩
                  dsimp only
                  rw [hsl3, ← hr2]
                  dsimp only
                  rw [DataPath.find?_erase (wf_insert hs1.1 _ _), if_neg e, DataPath.find?_insert, if_neg e]
                  exact h1

theorem relMsgLoop_have : ∀ (msgs : List (Nat × Bytes)) (r r' : RecvRel), Conn.relMsgLoop r msgs = .ok r' →
    (∀ x ∈ msgs, Have r' x.1) ∧ (∀ j, Have r j → Have r' j) ∧ r'.slices = r.slices
  | [], r, r', h => by
    simp only [Conn.relMsgLoop, Res.ok.injEq] at h; subst h
    exact ⟨fun _ h => (by cases h), fun _ h => h, rfl⟩
  | (id, m) :: rest, r, r', h => by
    simp only [Conn.relMsgLoop] at h
    cases hp : r.processMessage m id with
    | ok r1 =>
      rw [hp] at h
      obtain ⟨a1, a2, a3⟩ := processMessage_have hp
      obtain ⟨b1, b2, b3⟩ := relMsgLoop_have rest _ _ h
      refine ⟨?_, fun j hj => b2 j (a2 j hj), b3.trans a3⟩
      intro x hx
      rcases List.mem_cons.mp hx with rfl | hx
      · exact b2 _ a1
      · exact b1 x hx
    | err e => rw [hp] at h; cases h
    | panic s => rw [hp] at h; cases h

/-- handing a message to the application forgets nothing -/
theorem receive_have {r r' : RecvRel} {out : Option Bytes} (hw : DataPath.WF r.messages) (h : r.receive = .ok (r', out)) :
    (∀ j, Have r j → Have r' j) ∧ r'.slices = r.slices := by
  unfold RecvRel.receive at h
  split at h
  · next hord =>
    split at h
    · cases h; exact ⟨fun _ h => h, rfl⟩
    · next x hfind =>
      cases hsub : (Res.csub r.mem x.length "reliable.rs memory_usage_bytes -= message.len() (receive ordered)" : Res Empty Nat) with
      | panic s => rw [hsub] at h; cases h
      | err e => exact e.elim
      | ok mem =>
        rw [hsub] at h
        simp only [Res.bind_ok, Res.pure_eq, Res.ok.injEq, Prod.mk.injEq] at h
        obtain ⟨rfl, -⟩ := h
        refine ⟨?_, rfl⟩
        intro j hj
        unfold Have at hj ⊢
        dsimp only
        rw [if_pos hord] at hj ⊢
        by_cases e : j = r.oldest
        · left; omega
        · rcases hj with hj | hj
          · left; omega
          · right
            unfold SMap.contains at hj ⊢
            rw [DataPath.find?_erase hw, if_neg (fun c => e c.symm)]; exact hj
  · next hord =>
    split at h
    · cases h; exact ⟨fun _ h => h, rfl⟩
    · next id x rest hmsgs =>
      generalize hadv : (if r.oldest = id then advanceOldest (r.received.length) r.oldest r.received
        else (r.oldest, r.received)) = p at h
      obtain ⟨o, rec⟩ := p
      dsimp only at h
      have hmono : ∀ id0, (id0 < r.oldest ∨ id0 ∈ r.received) → (id0 < o ∨ id0 ∈ rec) := by
        split at hadv
        · exact advance_mono _ _ _ _ _ hadv
        · simp only [Prod.mk.injEq] at hadv
          obtain ⟨rfl, rfl⟩ := hadv; exact fun _ h => h
      cases hsub : (Res.csub r.mem x.length "reliable.rs memory_usage_bytes -= message.len() (receive unordered)" : Res Empty Nat) with
      | panic s => rw [hsub] at h; cases h
      | err e => exact e.elim
      | ok mem =>
        rw [hsub] at h
        simp only [Res.bind_ok, Res.pure_eq, Res.ok.injEq, Prod.mk.injEq] at h
        obtain ⟨rfl, -⟩ := h
        refine ⟨?_, rfl⟩
        intro j hj
        unfold Have at hj ⊢
        dsimp only
        rw [if_neg hord] at hj ⊢
        exact hmono j hj

/-! ### a reassembly kept in the channel is incomplete -/

theorem exists_not_true_of_count_lt : ∀ (l : List Bool), l.count true < l.length → ∃ i, i < l.length ∧ l[i]? ≠ some true
  | [], h => by simp at h
  | b :: r, h => by
    cases b with
    | false => exact ⟨0, by simp, by simp⟩
    | true =>
      simp only [List.count_cons_self, List.length_cons] at h
      obtain ⟨i, h1, h2⟩ := exists_not_true_of_count_lt r (by omega)
      exact ⟨i + 1, by simp; omega, by simpa using h2⟩

/-- if every slice of a logged message has arrived, the message has arrived -/
theorem have_of_all_slices {L : List Bytes} {r : RecvRel} (hs : SlicesOK L r) (hi : r.WInv) {id : Nat} {m : Bytes}
    (hL : L[id]? = some m) (hlen : SLICE_SIZE < m.length)
    (hall : ∀ i, i < divCeil m.length SLICE_SIZE → HaveSlice r id i) : Have r id := by
  cases hf : SMap.find? r.slices id with
  | none =>
    rcases hall 0 (divCeil_pos m.length (by omega)) with h | ⟨c, hc, -⟩
    · exact h
    · rw [hf] at hc; cases hc
  | some c =>
    obtain ⟨m', hL', hlen', hag⟩ := hs.2 _ _ hf
    rw [hL] at hL'; cases hL'
    have hcinv : c.Inv := by
      rcases hi.slicesOk.of_find? hf with h0 | h
      · have := hag.numSlices
        have hp := divCeil_pos m.length (by omega)
        omega
      · exact h
    obtain ⟨_, h2, h3, h4, _⟩ := hcinv
    obtain ⟨i, hi1, hi2⟩ := exists_not_true_of_count_lt c.received (by omega)
    rcases hall i (by rw [← hag.numSlices, ← h2]; exact hi1) with h | ⟨c', hc', hi'⟩
    · exact h
    · rw [hf] at hc'; cases hc'
      exact absurd hi' hi2

/-! ## Part 3 — memory: when the receive channel has room for what is still to come, nothing is refused -/

/-- bytes of the receive channel's memory budget that message `id` of the log will still claim: nothing when it has
    arrived; its length when it is small; `num_slices * SLICE_SIZE` (the reservation made for a NEW slice constructor)
    when it is sliced and no reassembly is in progress (a reassembly in progress is already accounted in `mem`) -/
def pend (L : List Bytes) (r : RecvRel) (id : Nat) : Nat :=
  match L[id]? with
  | none => 0
  | some m =>
    if Have r id then 0
    else if m.length ≤ SLICE_SIZE then m.length
    else if SMap.contains r.slices id = true then 0
    else divCeil m.length SLICE_SIZE * SLICE_SIZE

def psum (L : List Bytes) (r : RecvRel) : Nat := ((List.range L.length).map (pend L r)).sum

/-- (H3) the receive channel has room for every logged message that has not arrived yet -/
def Room (L : List Bytes) (r : RecvRel) : Prop := r.mem + psum L r ≤ r.maxMem

theorem sum_map_le {f g : Nat → Nat} : ∀ {l : List Nat}, (∀ j ∈ l, f j ≤ g j) → (l.map f).sum ≤ (l.map g).sum
  | [], _ => Nat.le_refl _
  | a :: r, h => by
    have h1 := h a (List.mem_cons_self ..)
    have h2 := sum_map_le (l := r) (fun j hj => h j (List.mem_cons_of_mem _ hj))
    simp only [List.map_cons, List.sum_cons]; omega

theorem sum_map_le_sub {f g : Nat → Nat} {k X : Nat} (hX : f k + X ≤ g k) :
    ∀ {l : List Nat}, (∀ j ∈ l, f j ≤ g j) → k ∈ l → (l.map f).sum + X ≤ (l.map g).sum
  | [], _, hk => by cases hk
  | a :: r, h, hk => by
    simp only [List.map_cons, List.sum_cons]
    by_cases e : a = k
    · subst e
      have h2 := sum_map_le (l := r) (fun j hj => h j (List.mem_cons_of_mem _ hj))
      omega
    · have h1 := h a (List.mem_cons_self ..)
      have hk' : k ∈ r := by
        rcases List.mem_cons.mp hk with e' | e'
        · exact absurd e'.symm e
        · exact e'
      have h2 := sum_map_le_sub hX (l := r) (fun j hj => h j (List.mem_cons_of_mem _ hj)) hk'
      omega

theorem le_sum_map {f : Nat → Nat} {k : Nat} : ∀ {l : List Nat}, k ∈ l → f k ≤ (l.map f).sum
  | [], hk => by cases hk
  | a :: r, hk => by
    simp only [List.map_cons, List.sum_cons]
    rcases List.mem_cons.mp hk with e | e
    · subst e; omega
    · have := le_sum_map (f := f) e; omega

theorem pend_le {L : List Bytes} {r r' : RecvRel} (hh : ∀ j, Have r j → Have r' j)
    (hc : ∀ j, SMap.contains r.slices j = true → SMap.contains r'.slices j = true ∨ Have r' j) (id : Nat) :
    pend L r' id ≤ pend L r id := by
  unfold pend
  cases L[id]? with
  | none => exact Nat.le_refl _
  | some m =>
    dsimp only
    by_cases h' : Have r' id
    · rw [if_pos h']; exact Nat.zero_le _
    · have h0 : ¬ Have r id := fun h => h' (hh _ h)
      rw [if_neg h', if_neg h0]
      split
      · exact Nat.le_refl _
      · by_cases c : SMap.contains r.slices id = true
        · rcases hc id c with c' | c'
          · rw [if_pos c', if_pos c]; exact Nat.le_refl _
          · exact absurd c' h'
        · rw [if_neg c]; split
          · exact Nat.zero_le _
          · exact Nat.le_refl _

theorem pend_have {L : List Bytes} {r : RecvRel} {id : Nat} (h : Have r id) : pend L r id = 0 := by
  unfold pend
  cases L[id]? with
  | none => rfl
  | some m => dsimp only; rw [if_pos h]

theorem psum_le {L : List Bytes} {r r' : RecvRel} (hh : ∀ j, Have r j → Have r' j)
    (hc : ∀ j, SMap.contains r.slices j = true → SMap.contains r'.slices j = true ∨ Have r' j) :
    psum L r' ≤ psum L r :=
  sum_map_le (fun j _ => pend_le hh hc j)

theorem psum_le_sub {L : List Bytes} {r r' : RecvRel} (hh : ∀ j, Have r j → Have r' j)
    (hc : ∀ j, SMap.contains r.slices j = true → SMap.contains r'.slices j = true ∨ Have r' j)
    {id X : Nat} (hid : id < L.length) (hX : pend L r' id + X ≤ pend L r id) :
    psum L r' + X ≤ psum L r :=
  sum_map_le_sub hX (fun j _ => pend_le hh hc j) (List.mem_range.mpr hid)

theorem pend_le_psum {L : List Bytes} {r : RecvRel} {id : Nat} (hid : id < L.length) : pend L r id ≤ psum L r :=
  le_sum_map (List.mem_range.mpr hid)

/-- a message that has not arrived is inserted when there is room for it -/
theorem processMessage_insert {r : RecvRel} {m : Bytes} {id : Nat} (hn : ¬ Have r id) (hroom : r.mem + m.length ≤ r.maxMem) :
    ∃ r', r.processMessage m id = .ok r' ∧ r'.mem = r.mem + m.length ∧ r'.maxMem = r.maxMem := by
  unfold Have at hn
  have h1 : ¬ id < r.oldest := fun h => hn (Or.inl h)
  unfold RecvRel.processMessage
  rw [if_neg h1]
  cases ho : r.ordered with
  | true =>
    rw [ho] at hn
    have h2 : ¬ SMap.contains r.messages id = true := fun h => hn (Or.inr (by rw [if_pos rfl]; exact h))
    simp only [↓reduceIte, h2, Bool.false_eq_true]
    rw [if_neg (by omega)]
    exact ⟨_, rfl, rfl, rfl⟩
  | false =>
    rw [ho] at hn
    have h2 : ¬ r.received.contains id = true := fun h => hn (Or.inr (by rw [if_neg (by simp)]; simpa using h))
    simp only [Bool.false_eq_true, ↓reduceIte, h2]
    rw [if_neg (by omega)]
    exact ⟨_, rfl, rfl, rfl⟩

/-- a message that has arrived is ignored -/
theorem processMessage_ignore {r : RecvRel} {m : Bytes} {id : Nat} (hv : Have r id) : r.processMessage m id = .ok r := by
  unfold RecvRel.processMessage
  by_cases h1 : id < r.oldest
  · rw [if_pos h1]
  · rw [if_neg h1]
    rcases hv with hv | hv
    · exact absurd hv h1
    · cases ho : r.ordered with
      | true =>
        rw [ho, if_pos rfl] at hv
        simp only [↓reduceIte, hv]
      | false =>
        rw [ho, if_neg (by simp)] at hv
        have : r.received.contains id = true := by simpa using hv
        simp only [Bool.false_eq_true, ↓reduceIte, this]

/-- (R5) a genuine small message never fails when the channel has room; room is kept -/
theorem processMessage_room {L : List Bytes} {r : RecvRel} {id : Nat} {m : Bytes} (hg : L[id]? = some m)
    (hsm : m.length ≤ SLICE_SIZE) (hroom : Room L r) :
    ∃ r', r.processMessage m id = .ok r' ∧ Room L r' ∧ r'.maxMem = r.maxMem := by
  by_cases hv : Have r id
  · exact ⟨r, processMessage_ignore hv, hroom, rfl⟩
  · have hid : id < L.length := (List.getElem?_eq_some_iff.mp hg).1
    have hp : pend L r id = m.length := by
      unfold pend; rw [hg]; dsimp only; rw [if_neg hv, if_pos hsm]
    have hle := pend_le_psum (L := L) (r := r) hid
    unfold Room at hroom
    obtain ⟨r', e, hm, hmax⟩ := processMessage_insert (m := m) hv (by omega)
    obtain ⟨a1, a2, a3⟩ := processMessage_have e
    refine ⟨r', e, ?_, hmax⟩
    unfold Room
    have := psum_le_sub (L := L) a2 (fun j hj => Or.inl (by rw [a3]; exact hj)) hid (X := m.length)
      (by rw [pend_have a1, hp]; omega)
    omega

theorem relMsgLoop_room {L : List Bytes} : ∀ (msgs : List (Nat × Bytes)) (r : RecvRel),
    (∀ x ∈ msgs, L[x.1]? = some x.2 ∧ x.2.length ≤ SLICE_SIZE) → Room L r →
    ∃ r', Conn.relMsgLoop r msgs = .ok r' ∧ Room L r' ∧ r'.maxMem = r.maxMem
  | [], r, _, hroom => ⟨r, rfl, hroom, rfl⟩
  | (id, m) :: rest, r, hg, hroom => by
    obtain ⟨g1, g2⟩ := hg (id, m) (List.mem_cons_self ..)
    obtain ⟨r1, e1, hr1, hm1⟩ := processMessage_room g1 g2 hroom
    obtain ⟨r2, e2, hr2, hm2⟩ := relMsgLoop_room rest r1 (fun x hx => hg x (List.mem_cons_of_mem _ hx)) hr1
    refine ⟨r2, ?_, hr2, hm2.trans hm1⟩
    simp only [Conn.relMsgLoop, e1]
    exact e2

/-- (R7) handing a message to the application keeps the room -/
theorem receive_room {L : List Bytes} {r r' : RecvRel} {out : Option Bytes} (hw : DataPath.WF r.messages)
    (hroom : Room L r) (h : r.receive = .ok (r', out)) : Room L r' ∧ r'.maxMem = r.maxMem := by
  obtain ⟨a1, a2⟩ := receive_have hw h
  have hps := psum_le (L := L) a1 (fun j hj => Or.inl (by rw [a2]; exact hj))
  have hmem : r'.mem ≤ r.mem ∧ r'.maxMem = r.maxMem := by
    unfold RecvRel.receive at h
    split at h
    · split at h
      · cases h; exact ⟨Nat.le_refl _, rfl⟩
      · next x hfind =>
        unfold Res.csub at h
        split at h
        · simp only [Res.bind_ok, Res.pure_eq, Res.ok.injEq, Prod.mk.injEq] at h
          obtain ⟨rfl, -⟩ := h
          exact ⟨by dsimp only; omega, rfl⟩
        · cases h
    · split at h
      · cases h; exact ⟨Nat.le_refl _, rfl⟩
      · next id x rest hmsgs =>
        generalize (if r.oldest = id then advanceOldest (r.received.length) r.oldest r.received
          else (r.oldest, r.received)) = p at h
        obtain ⟨o, rec⟩ := p
        dsimp only at h
        unfold Res.csub at h
        split at h
        · simp only [Res.bind_ok, Res.pure_eq, Res.ok.injEq, Prod.mk.injEq] at h
          obtain ⟨rfl, -⟩ := h
          exact ⟨by dsimp only; omega, rfl⟩
        · cases h
  unfold Room at hroom ⊢
  refine ⟨by omega, hmem.2⟩

/-- (R6) a genuine slice never fails when the channel has room; room is kept.  `hacct`: the reservation of a
    reassembly in progress is part of `mem` (exact accounting, C09). -/
theorem processSlice_room {L : List Bytes} {r : RecvRel} {sl : Slice} (hs : SlicesOK L r) (hmh : MsgsHave r)
    (hacct : ∀ c, SMap.find? r.slices sl.messageId = some c → c.numSlices * SLICE_SIZE ≤ r.mem)
    (g : GenuineSlice L sl) (hroom : Room L r) :
    ∃ r', r.processSlice sl = .ok r' ∧ Room L r' ∧ r'.maxMem = r.maxMem := by
  obtain ⟨m, hL, hlen, hn, hi, hp⟩ := g
  have hid : sl.messageId < L.length := (List.getElem?_eq_some_iff.mp hL).1
  rw [processSlice_eq]
  by_cases hv : Have r sl.messageId
  · -- ignored
    by_cases h1 : SMap.contains r.messages sl.messageId = true ∨ sl.messageId < r.oldest
    · rw [if_pos h1]; exact ⟨r, rfl, hroom, rfl⟩
    · rw [if_neg h1]
      have h2 : ¬ r.ordered = true ∧ r.received.contains sl.messageId = true := by
        rcases hv with hv | hv
        · exact absurd (Or.inr hv) h1
        · cases ho : r.ordered with
          | true => rw [ho, if_pos rfl] at hv; exact absurd (Or.inl hv) h1
          | false => rw [ho, if_neg (by simp)] at hv; exact ⟨by simp, by simpa using hv⟩
      rw [if_pos h2]; exact ⟨r, rfl, hroom, rfl⟩
  · have h1 : ¬ (SMap.contains r.messages sl.messageId = true ∨ sl.messageId < r.oldest) := by
      rintro (h | h)
      · exact hv (hmh _ h)
      · exact hv (Or.inl h)
    have h2 : ¬ (¬ r.ordered = true ∧ r.received.contains sl.messageId = true) := by
      rintro ⟨ha, hb⟩
      exact hv (Or.inr (by rw [if_neg ha]; simpa using hb))
    rw [if_neg h1, if_neg h2]
    have hnS := divCeil_mul_ge m.length
    -- head: the constructor exists afterwards, room is kept
    have hhead : ∃ r1 c, sliceHead r sl = .ok r1 ∧ SMap.find? r1.slices sl.messageId = some c ∧ Room L r1 ∧
        c.numSlices * SLICE_SIZE ≤ r1.mem ∧ r1.maxMem = r.maxMem ∧ r1.oldest = r.oldest ∧ r1.ordered = r.ordered ∧
        r1.messages = r.messages ∧ r1.received = r.received := by
      unfold sliceHead
      by_cases hc : SMap.contains r.slices sl.messageId = true
      · obtain ⟨c, hfc⟩ := (DataPath.contains_iff _ _).mp hc
        rw [if_pos hc]
        exact ⟨r, c, rfl, hfc, hroom, hacct c hfc, rfl, rfl, rfl, rfl, rfl⟩
      · rw [if_neg hc]
        dsimp only
        have hpd : pend L r sl.messageId = sl.numSlices * SLICE_SIZE := by
          unfold pend; rw [hL]; dsimp only
          rw [if_neg hv, if_neg (by omega), if_neg hc, hn]
        have hle := pend_le_psum (L := L) (r := r) hid
        unfold Room at hroom
        rw [if_neg (by omega)]
        refine ⟨_, SliceCtor.new sl.numSlices, rfl, by dsimp only; rw [DataPath.find?_insert, if_pos rfl], ?_,
          by dsimp only [SliceCtor.new]; omega, rfl, rfl, rfl, rfl, rfl⟩
        unfold Room
        dsimp only
        generalize hr1 : ({ r with mem := r.mem + sl.numSlices * SLICE_SIZE, slices := SMap.insert r.slices sl.messageId (SliceCtor.new sl.numSlices) } : RecvRel) = r1
        have e1 : r1.oldest = r.oldest := by rw [← hr1]
        have e2 : r1.ordered = r.ordered := by rw [← hr1]
        have e3 : r1.messages = r.messages := by rw [← hr1]
        have e4 : r1.received = r.received := by rw [← hr1]
        have e5 : r1.slices = SMap.insert r.slices sl.messageId (SliceCtor.new sl.numSlices) := by rw [← hr1]
        have e6 : r1.mem = r.mem + sl.numSlices * SLICE_SIZE := by rw [← hr1]
        have e7 : r1.maxMem = r.maxMem := by rw [← hr1]
        have hp1 : pend L r1 sl.messageId = 0 := by
          unfold pend; rw [hL]; dsimp only
          rw [if_neg (fun h => hv ((Have.congr e1 e2 e3 e4 _).mp h)), if_neg (by omega),
            if_pos (by rw [e5]; exact contains_insert_self _ _ _)]
        have := psum_le_sub (L := L) (r := r) (r' := r1)
          (fun j hj => (Have.congr e1 e2 e3 e4 j).mpr hj)
          (fun j hj => Or.inl (by rw [e5]; exact contains_insert_of _ hj)) hid (X := sl.numSlices * SLICE_SIZE)
          (by rw [hp1, hpd]; omega)
        omega
    obtain ⟨r1, c, e1, hfind, hroom1, hacc1, hmax1, b1, b2, b3, b4⟩ := hhead
    have hs1 : SlicesOK L r1 := (sliceHead_ok hs hL hlen hn e1).1
    have hv1 : ¬ Have r1 sl.messageId := fun h => hv ((Have.congr b1 b2 b3 b4 _).mp h)
    rw [e1]
    simp only [Res.bind_ok]
    unfold sliceTail
    rw [hfind]
    dsimp only
    obtain ⟨m', hL', hlen', hag⟩ := hs1.2 _ _ hfind
    rw [hL] at hL'; cases hL'
    have hcn : c.numSlices = sl.numSlices := by rw [hn]; exact hag.numSlices
    rw [if_neg (by simp [hcn])]
    obtain ⟨c', out, hproc, hrecv, _, hnone, hsome, _⟩ :=
      processSlice_genuine (m := m) (by omega) hag (idx := sl.sliceIndex) (by rw [← hn]; exact hi)
    rw [hp, hn, hproc]
    cases out with
    | none =>
      dsimp only
      refine ⟨_, rfl, ?_, hmax1⟩
      unfold Room at hroom1 ⊢
      dsimp only
      have := psum_le (L := L) (r := r1) (r' := { r1 with slices := SMap.insert r1.slices sl.messageId c' })
        (fun j hj => (Have.congr rfl rfl rfl rfl j).mpr hj) (fun j hj => Or.inl (contains_insert_of _ hj))
      omega
    | some mm =>
      have := hsome mm rfl; subst this
      dsimp only
      have hsub : (Res.csub r1.mem (c.numSlices * SLICE_SIZE) "reliable.rs memory_usage_bytes -= num_slices * SLICE_SIZE" : Res (ChanErr × RecvRel) Nat)
          = .ok (r1.mem - c.numSlices * SLICE_SIZE) := by
        simp [Res.csub, hacc1]
      rw [hsub]
      simp only [Res.bind_ok]
      unfold Room at hroom1
      generalize hr2 : ({ r1 with mem := r1.mem - c.numSlices * SLICE_SIZE, slices := SMap.insert r1.slices sl.messageId c' } : RecvRel) = r2
      have f1 : r2.oldest = r1.oldest := by rw [← hr2]
      have f2 : r2.ordered = r1.ordered := by rw [← hr2]
      have f3 : r2.messages = r1.messages := by rw [← hr2]
      have f4 : r2.received = r1.received := by rw [← hr2]
      have f5 : r2.slices = SMap.insert r1.slices sl.messageId c' := by rw [← hr2]
      have f6 : r2.mem = r1.mem - c.numSlices * SLICE_SIZE := by rw [← hr2]
      have f7 : r2.maxMem = r1.maxMem := by rw [← hr2]
      have hv2 : ¬ Have r2 sl.messageId := fun h => hv1 ((Have.congr f1 f2 f3 f4 _).mp h)
      have hK : mm.length ≤ c.numSlices * SLICE_SIZE := by rw [hcn, hn]; exact hnS
      obtain ⟨r3, e3, hm3, hmax3⟩ := processMessage_insert (m := mm) hv2 (by rw [f6, f7]; omega)
      obtain ⟨a1, a2, a3⟩ := processMessage_have e3
      rw [e3]
      simp only [Res.bind_ok, Res.pure_eq]
      refine ⟨_, rfl, ?_, by dsimp only; rw [hmax3, f7]; exact hmax1⟩
      unfold Room
      dsimp only
      have hvr : Have ({ r3 with slices := SMap.erase r3.slices sl.messageId } : RecvRel) sl.messageId :=
        (Have.congr rfl rfl rfl rfl _).mpr a1
      have := psum_le (L := L) (r := r1) (r' := { r3 with slices := SMap.erase r3.slices sl.messageId })
        (fun j hj => (Have.congr rfl rfl rfl rfl j).mpr (a2 j ((Have.congr f1 f2 f3 f4 j).mpr hj)))
        (fun j hj => by
          by_cases e : sl.messageId = j
          · subst e; exact Or.inr hvr
          · left
            dsimp only
            rw [a3, f5]
            unfold SMap.contains at hj ⊢
            rw [DataPath.find?_erase (wf_insert hs1.1 _ _), if_neg e, DataPath.find?_insert, if_neg e]
            exact hj)
      omega

/-! ## Part 4 — one connection: frame facts, what holds of every reachable connection, and one flush -/

theorem dw_frame (c : Conn) (r : Reason) : (c.disconnectWith r).now = c.now ∧ (c.disconnectWith r).budget = c.budget := by
  unfold Conn.disconnectWith; split <;> exact ⟨rfl, rfl⟩

theorem sendMessage_frame {c c' : Conn} {ch : Nat} {m : Bytes} (h : c.sendMessage ch m = .ok c') :
    c'.now = c.now ∧ c'.budget = c.budget := by
  unfold Conn.sendMessage at h
  split at h
  · cases h; exact ⟨rfl, rfl⟩
  · split at h
    · split at h
      · cases h; exact ⟨rfl, rfl⟩
      · cases h; exact dw_frame _ _
    · split at h
      · cases h; exact ⟨rfl, rfl⟩
      · cases h

theorem receiveMessage_frame {c c' : Conn} {ch : Nat} {m : Option Bytes} (h : c.receiveMessage ch = .ok (c', m)) :
    c'.now = c.now ∧ c'.budget = c.budget ∧ c'.sendRel = c.sendRel := by
  unfold Conn.receiveMessage at h
  split at h
  · cases h; exact ⟨rfl, rfl, rfl⟩
  · split at h
    · next r hf =>
      cases hr : r.receive with
      | ok x =>
        rw [hr] at h
        simp only [Res.bind_ok, Res.pure_eq, Res.ok.injEq, Prod.mk.injEq] at h
        obtain ⟨rfl, -⟩ := h; exact ⟨rfl, rfl, rfl⟩
      | err e => exact e.elim
      | panic s => rw [hr] at h; cases h
    · split at h
      · next r hf =>
        cases hr : r.receive with
        | ok x =>
          rw [hr] at h
          simp only [Res.bind_ok, Res.pure_eq, Res.ok.injEq, Prod.mk.injEq] at h
          obtain ⟨rfl, -⟩ := h; exact ⟨rfl, rfl, rfl⟩
        | err e => exact e.elim
        | panic s => rw [hr] at h; cases h
      · cases h

theorem update_frame {c c' : Conn} {dt : Nat} (h : c.update dt = .ok c') : c'.now = c.now + dt ∧ c'.budget = c.budget := by
  unfold Conn.update at h
  dsimp only at h
  cases hd : Conn.discardAll (c.now + dt) c.recvUnrel with
  | ok ru => rw [hd] at h; simp only [Res.bind_ok, Res.pure_eq] at h; cases h; exact ⟨rfl, rfl⟩
  | err e => exact e.elim
  | panic s => rw [hd] at h; cases h

theorem flush_frame {c c' : Conn} {bs : List Bytes} (h : c.getPacketsToSend = .ok (c', bs)) :
    c'.now = c.now ∧ c'.budget = c.budget := by
  rcases getPacketsToSend_unfold h with ⟨-, rfl, -⟩ | ⟨-, sr, su, pk0, seq0, avail, sent, -, -, hser⟩
  · exact ⟨rfl, rfl⟩
  · rcases hser with ⟨-, rfl⟩ | ⟨e, -, -, rfl⟩
    · exact ⟨rfl, rfl⟩
    · exact dw_frame _ _

theorem processPacket_frame {c c' : Conn} {bytes : Bytes} (hinv : c.SendInv) (h : c.processPacket bytes = .ok c') :
    c'.now = c.now ∧ c'.budget = c.budget := by
  cases hd : c.isDisconnected with
  | true =>
    unfold Conn.processPacket at h
    rw [if_pos hd] at h; cases h; exact ⟨rfl, rfl⟩
  | false =>
    cases hp : Packet.fromBytes bytes with
    | error e =>
      unfold Conn.processPacket at h
      rw [hd, hp] at h
      simp only [Bool.false_eq_true, ↓reduceIte] at h
      cases h
      exact dw_frame _ _
    | ok p =>
      cases p with
      | ack aseq ranges =>
        obtain ⟨L, c2, -, e, -, eff, -, -⟩ := SI.Conn.processPacket_ack_spec hinv hd hp
        rw [e] at h; cases h
        exact ⟨eff.frame.2.2.2.1, eff.frame.2.2.2.2.1⟩
      | smallReliable sq ch msgs =>
        unfold Conn.processPacket at h
        rw [hd, hp] at h
        simp only [Bool.false_eq_true, ↓reduceIte] at h
        split at h
        · cases h; exact dw_frame _ _
        · split at h
          · cases h; exact ⟨rfl, rfl⟩
          · cases h; exact dw_frame _ _
          · cases h
      | reliableSlice sq ch sl =>
        unfold Conn.processPacket at h
        rw [hd, hp] at h
        simp only [Bool.false_eq_true, ↓reduceIte] at h
        split at h
        · cases h; exact dw_frame _ _
        · split at h
          · cases h; exact ⟨rfl, rfl⟩
          · cases h; exact dw_frame _ _
          · cases h
      | smallUnreliable sq ch msgs =>
        unfold Conn.processPacket at h
        rw [hd, hp] at h
        simp only [Bool.false_eq_true, ↓reduceIte] at h
        split at h
        · cases h; exact dw_frame _ _
        · cases h; exact ⟨rfl, rfl⟩
      | unreliableSlice sq ch sl =>
        unfold Conn.processPacket at h
        rw [hd, hp] at h
        simp only [Bool.false_eq_true, ↓reduceIte] at h
        split at h
        · cases h; exact dw_frame _ _
        · split at h
          · cases h; exact ⟨rfl, rfl⟩
          · cases h; exact dw_frame _ _
          · cases h

/-! ### every reachable connection satisfies the total invariant of C06 and keeps its channel tables -/

theorem reach_conn {b : Nat} {sd rc : List ChanCfg} {c : Conn} (hr : C08.Reach b sd rc c) :
    c.Inv ∧ (Conn.fromChannels b sd rc).SameChans c := by
  induction hr with
  | init => exact ⟨CI.fromChannels_invP _ _ _, Conn.SameChans.refl _⟩
  | @sendMessage c c' ch m _ hs ih =>
    obtain ⟨hi, hsc⟩ := ih
    by_cases hch : c.hasSend ch
    · obtain ⟨c'', e, i', -, sc'⟩ := CI.sendMessage_totalP hi ch m hch
      rw [e] at hs; cases hs
      exact ⟨i', hsc.trans sc'⟩
    · cases hd : c.isDisconnected with
      | true =>
        unfold Conn.sendMessage at hs; rw [if_pos hd] at hs; cases hs
        exact ⟨hi, hsc⟩
      | false =>
        obtain ⟨s, hp⟩ := (CI.sendMessage_panic_iffP hi ch m).mpr ⟨hd, hch⟩
        rw [hp] at hs; cases hs
  | @receiveMessage c c' ch m _ hs ih =>
    obtain ⟨hi, hsc⟩ := ih
    by_cases hch : c.hasRecv ch
    · obtain ⟨c'', m', e, i', -, sc'⟩ := CI.receiveMessage_totalP hi ch hch
      rw [e] at hs; cases hs
      exact ⟨i', hsc.trans sc'⟩
    · cases hd : c.isDisconnected with
      | true =>
        unfold Conn.receiveMessage at hs; rw [if_pos hd] at hs; cases hs
        exact ⟨hi, hsc⟩
      | false =>
        obtain ⟨s, hp⟩ := (CI.receiveMessage_panic_iffP hi ch).mpr ⟨hd, hch⟩
        rw [hp] at hs; cases hs
  | @update c c' dt _ hs ih =>
    obtain ⟨hi, hsc⟩ := ih
    obtain ⟨c'', e, i', -, -, -, sc', -⟩ := CI.update_totalP hi dt
    rw [e] at hs; cases hs
    exact ⟨i', hsc.trans sc'⟩
  | @flush c c' out _ hs ih =>
    obtain ⟨hi, hsc⟩ := ih
    exact ⟨CI.getPacketsToSend_invP hi hs, hsc.trans (CI.getPacketsToSend_sameChansP hi hs)⟩
  | @packet c c' bytes _ hs ih =>
    obtain ⟨hi, hsc⟩ := ih
    obtain ⟨c'', e, i', -, sc'⟩ := CI.processPacket_totalP goodP_winv hi bytes
    rw [e] at hs; cases hs
    exact ⟨i', hsc.trans sc'⟩
  | @disconnect c r _ ih => exact ⟨ih.1.disconnectWith r, ih.2.trans (CI.sameChans_dw c r)⟩
  | @connected c _ ih => exact ⟨ih.1.setConnected, ih.2.trans (CI.sameChans_setConnected c)⟩
  | @connecting c _ ih => exact ⟨ih.1.setConnecting, ih.2.trans (CI.sameChans_setConnecting c)⟩

/-! ### time stamps never lie in the future -/

def EntryStamped (now : Nat) : Unacked → Prop
  | .small _ ls => ∀ t, ls = some t → t ≤ now
  | .sliced _ _ _ _ _ ls => ∀ j t, ls.getD j none = some t → t ≤ now

/-- every `last_sent` stamp of the channel is at most `now` -/
def Stamped (now : Nat) (s : SendRel) : Prop := ∀ x ∈ s.unacked, EntryStamped now x.2

theorem EntryStamped.mono {a b : Nat} (h : a ≤ b) : ∀ {u : Unacked}, EntryStamped a u → EntryStamped b u
  | .small .., hu => fun t ht => Nat.le_trans (hu t ht) h
  | .sliced .., hu => fun j t ht => Nat.le_trans (hu j t ht) h

theorem Stamped.mono {a b : Nat} (h : a ≤ b) {s : SendRel} (hs : Stamped a s) : Stamped b s :=
  fun x hx => (hs x hx).mono h

theorem stamped_send {now : Nat} {s s' : SendRel} {m : Bytes} (h : Stamped now s) (hs : s.sendMessage m = .ok s') :
    Stamped now s' := by
  unfold SendRel.sendMessage at hs
  split at hs
  · cases hs
  · simp only [Except.ok.injEq] at hs
    subst hs
    intro x hx
    dsimp only at hx
    rcases SI.mem_insert hx with rfl | hx
    · dsimp only
      split
      · intro j t ht
        simp [List.getD_eq_getElem?_getD, List.getElem?_replicate] at ht
        split at ht <;> cases ht
      · intro t ht; cases ht
    · exact h x hx

theorem stamped_msgAck {now : Nat} {s s' : SendRel} {id : Nat} (h : Stamped now s) (hs : s.processMessageAck id = .ok s') :
    Stamped now s' := by
  unfold SendRel.processMessageAck at hs
  split at hs
  · cases hs; exact h
  · next m ls hf =>
    cases hc : (Res.csub s.mem m.length "reliable.rs memory_usage_bytes -= payload.len() (message ack)" : Res Empty Nat) with
    | ok v =>
      rw [hc] at hs
      simp only [Res.bind_ok, Res.pure_eq, Res.ok.injEq] at hs
      subst hs
      exact fun x hx => h x (SI.mem_erase hx)
    | err e => exact e.elim
    | panic p => rw [hc] at hs; cases hs
  · cases hs

theorem stamped_sliceAck {now : Nat} {s s' : SendRel} {id idx : Nat} (h : Stamped now s)
    (hs : s.processSliceAck id idx = .ok s') : Stamped now s' := by
  unfold SendRel.processSliceAck at hs
  split at hs
  · cases hs; exact h
  · cases hs
  · next m n numAcked next acked lastSent hf =>
    split at hs
    · cases hs
    · cases hs; exact h
    · dsimp only at hs
      split at hs
      · cases hc : (Res.csub s.mem m.length "reliable.rs memory_usage_bytes -= message.len() (slice ack)" : Res Empty Nat) with
        | ok v =>
          rw [hc] at hs
          simp only [Res.bind_ok, Res.pure_eq, Res.ok.injEq] at hs
          subst hs
          exact fun x hx => h x (SI.mem_erase hx)
        | err e => exact e.elim
        | panic p => rw [hc] at hs; cases hs
      · simp only [Res.pure_eq, Res.ok.injEq] at hs
        subst hs
        intro x hx
        rcases SI.mem_insert hx with rfl | hx
        · exact h (id, Unacked.sliced m n numAcked next acked lastSent) (SI.find?_some_mem hf)
        · exact h x hx

theorem stamped_getPackets {now : Nat} {s : SendRel} (h : Stamped now s) (seq avail : Nat) :
    Stamped now (s.getPackets seq avail now).1 := by
  rw [SendRel.getPackets_eq]
  intro x hx
  dsimp only at hx
  obtain ⟨k, u'⟩ := x
  obtain ⟨u, hu, hst⟩ := MapStep.mem (relLoop_entries s.ch now s.resend s.unacked _) k u' hx
  have h0 := h (k, u) hu
  cases u with
  | small m ls =>
    cases u' with
    | small m' ls' =>
      obtain ⟨-, hls⟩ := hst
      intro t ht
      rcases hls with e | ⟨e, -⟩
      · rw [e] at ht; exact h0 t ht
      · rw [e] at ht; cases ht; exact Nat.le_refl _
    | sliced _ _ _ _ _ _ => exact hst.elim
  | sliced m n na nx ak ls =>
    cases u' with
    | small _ _ => exact hst.elim
    | sliced m' n' na' nx' ak' ls' =>
      obtain ⟨-, -, -, -, -, hj⟩ := hst
      intro j t ht
      rcases hj j with e | ⟨e, -, -⟩
      · rw [e] at ht; exact h0 j t ht
      · rw [e] at ht; cases ht; exact Nat.le_refl _

theorem reach_stamped {b : Nat} {sd rc : List ChanCfg} {c : Conn} (hr : C08.Reach b sd rc c) :
    c.budget = b ∧ ∀ ch s, SMap.find? c.sendRel ch = some s → Stamped c.now s := by
  induction hr with
  | init =>
    refine ⟨rfl, ?_⟩
    intro ch s hf
    simp only [Conn.fromChannels] at hf
    rcases SI.foldl_insert_find (fun c : ChanCfg => c.id) (fun c => SendRel.new c.id c.resend c.maxMem) _ _ ch s hf with h | ⟨c, -, -, h2⟩
    · cases h
    · subst h2; intro x hx; cases hx
  | @sendMessage c c' ch m _ hs ih =>
    obtain ⟨hb, hst⟩ := ih
    obtain ⟨f1, f2⟩ := sendMessage_frame hs
    refine ⟨f2.trans hb, ?_⟩
    rw [f1]
    rcases sendMessage_cases hs with ⟨-, s, s', hf, hss, rfl⟩ | ⟨-, e⟩
    · exact find_insert_pres (P := fun _ s => Stamped c.now s) hst (stamped_send (hst ch s hf) hss)
    · rw [e]; exact hst
  | @receiveMessage c c' ch m _ hs ih =>
    obtain ⟨hb, hst⟩ := ih
    obtain ⟨f1, f2, f3⟩ := receiveMessage_frame hs
    exact ⟨f2.trans hb, by rw [f1, f3]; exact hst⟩
  | @update c c' dt _ hs ih =>
    obtain ⟨hb, hst⟩ := ih
    obtain ⟨f1, f2⟩ := update_frame hs
    refine ⟨f2.trans hb, ?_⟩
    rw [f1, (SI.Conn.update_spec hs).1]
    exact fun ch s hf => (hst ch s hf).mono (Nat.le_add_right _ _)
  | @flush c c' out hr' hs ih =>
    obtain ⟨hb, hst⟩ := ih
    obtain ⟨f1, f2⟩ := flush_frame hs
    refine ⟨f2.trans hb, ?_⟩
    rw [f1]
    exact (flush_pres (fun _ s => Stamped c.now s) (fun _ => True) c'.packetSeq
      (fun ch s seq avail hp _ => ⟨stamped_getPackets hp seq avail, fun _ _ => trivial⟩)
      (fun _ _ _ _ _ => trivial) (fun _ => trivial) hs (Nat.le_refl _) hst).1
  | @packet c c' bytes hr' hs ih =>
    obtain ⟨hb, hst⟩ := ih
    obtain ⟨f1, f2⟩ := processPacket_frame (C08.reach_inv hr').1 hs
    refine ⟨f2.trans hb, ?_⟩
    rw [f1]
    exact processPacket_pres (fun _ s => Stamped c.now s) (fun _ _ _ _ hp h => stamped_msgAck hp h)
      (fun _ _ _ _ _ hp h => stamped_sliceAck hp h) hs hst
  | @disconnect c r _ ih =>
    obtain ⟨f1, f2⟩ := dw_frame c r
    rw [f1, f2, (c.disconnectWith_same r).1.1]; exact ih
  | @connected c _ ih =>
    unfold Conn.setConnected; split
    · exact ih
    · exact ih
  | @connecting c _ ih =>
    unfold Conn.setConnecting; split
    · exact ih
    · exact ih

/-- (H1 after waiting) once `resend_time` has elapsed since the state was reached, every stored entry is due -/
theorem allDue_of_stamped {now dt : Nat} {s : SendRel} (h : Stamped now s) (hdt : s.resend ≤ dt) :
    AllDue (now + dt) s.resend s.unacked := by
  have key : ∀ (o : Option Nat), (∀ t, o = some t → t ≤ now) → smallDue (now + dt) s.resend o = true := by
    intro o ho
    cases o with
    | none => rfl
    | some t =>
      have := ho t rfl
      simp only [smallDue, Bool.not_eq_eq_eq_not, Bool.not_true, decide_eq_false_iff_not, Nat.not_lt]
      omega
  intro x hx
  have h0 := h x hx
  obtain ⟨k, u⟩ := x
  cases u with
  | small m ls => exact key ls h0
  | sliced m n na nx ak ls => exact fun i _ _ => key _ (h0 i)

/-! ### one flush of the connection -/

/-- the part of the per-tick budget that is left when the channel loop reaches reliable channel `ch`: the budget
    minus what the channels configured before it have just taken (0 if the loop panics before) -/
def availAtTurn (c : Conn) (ch : Nat) : Nat :=
  match Conn.chanLoop c.now (c.order.takeWhile (fun x => x != (true, ch))) (c.sendRel, c.sendUnrel, [], c.packetSeq, c.budget) with
  | .ok (_, _, _, _, avail) => avail
  | _ => 0

theorem dropWhile_of_mem {x : Bool × Nat} : ∀ {l : List (Bool × Nat)}, x ∈ l →
    ∃ post, l.dropWhile (fun y => y != x) = x :: post
  | [], h => by cases h
  | a :: r, h => by
    by_cases e : a = x
    · subst e; exact ⟨r, by simp [List.dropWhile]⟩
    · have hx : x ∈ r := by
        rcases List.mem_cons.mp h with e' | e'
        · exact absurd e'.symm e
        · exact e'
      obtain ⟨post, hp⟩ := dropWhile_of_mem hx
      exact ⟨post, by rw [List.dropWhile_cons, if_pos (by simpa using e)]; exact hp⟩

theorem not_mem_takeWhile_ne {x : Bool × Nat} : ∀ (l : List (Bool × Nat)), x ∉ l.takeWhile (fun y => y != x)
  | [] => by simp
  | a :: r => by
    rw [List.takeWhile_cons]
    split
    · next h =>
      intro hm
      rcases List.mem_cons.mp hm with e | e
      · subst e; simp at h
      · exact not_mem_takeWhile_ne r e
    · simp

theorem chanLoop_find_other (now ch : Nat) : ∀ (ord : List (Bool × Nat)) (st st' : ChanSt), (true, ch) ∉ ord →
    Conn.chanLoop now ord st = .ok st' → SMap.find? st'.1 ch = SMap.find? st.1 ch
  | [], st, st', _, h => by
    simp only [Conn.chanLoop, Res.ok.injEq] at h; subst h; rfl
  | (true, c0) :: rest, (sr, su, pk, seq, avail), st', hn, h => by
    rw [chanLoop_rel_step] at h
    split at h
    · cases h
    · have hne : c0 ≠ ch := by
        intro e; subst e; exact hn (List.mem_cons_self ..)
      rw [chanLoop_find_other now ch rest _ st' (fun hm => hn (List.mem_cons_of_mem _ hm)) h]
      dsimp only
      rw [SMap.find?_insert, if_neg hne]
  | (false, c0) :: rest, (sr, su, pk, seq, avail), st', hn, h => by
    rw [chanLoop_unrel_step] at h
    split at h
    · cases h
    · rw [chanLoop_find_other now ch rest _ st' (fun hm => hn (List.mem_cons_of_mem _ hm)) h]

/-- **One flush of a live connection whose counters are in range** returns normally, leaves the connection live,
    and transmits every entry of the prefix `pre` of channel `ch`'s backlog that is due and that the budget offered
    to the channel covers. -/
theorem flush_covers {c : Conn} (hinv : c.Inv) (hcnt : c.CountersOK) (hd : c.isDisconnected = false) {ch : Nat}
    {sA : SendRel} (hf : SMap.find? c.sendRel ch = some sA) (hord : (true, ch) ∈ c.order)
    {pre post : SMap Unacked} (hun : sA.unacked = pre ++ post) (hdue : AllDue c.now sA.resend pre)
    (hav : backlog pre ≤ availAtTurn c ch) :
    ∃ c' bs, c.getPacketsToSend = .ok (c', bs) ∧ c'.isDisconnected = false ∧ c'.packetSeq ≤ Varint.MAX + 1 ∧
      (∀ id m ls, (id, Unacked.small m ls) ∈ pre → SmallIn (flushPk c) ch id m) ∧
      (∀ id m n na nx ak ls, (id, Unacked.sliced m n na nx ak ls) ∈ pre → ∀ i, i < n → ak.getD i false = false →
        SliceIn (flushPk c) ch id i n m) := by
  obtain ⟨c', bs, e, hst, -, hps⟩ := Conn.getPacketsToSend_fits c (CI.flushInv_of hinv hcnt) hcnt.seq
  have hd' : c'.isDisconnected = false := by rw [isDisconnected_congr hst]; exact hd
  refine ⟨c', bs, e, hd', Nat.le_trans hps hcnt.seq, ?_⟩
  rcases getPacketsToSend_unfold e with ⟨hd1, -, -⟩ | ⟨-, sr, su, pk0, seq0, avail, sent, hl, -, hser⟩
  · rw [hd] at hd1; cases hd1
  · have hfp : flushPk c = (if c.pendingAcks.isEmpty then pk0 else pk0 ++ [Packet.ack seq0 c.pendingAcks]) := by
      rcases hser with ⟨hok, -⟩ | ⟨er, -, -, rfl⟩
      · unfold flushPk; rw [hd]; simp only [Bool.false_eq_true, ↓reduceIte, hl, hok]
      · rw [disconnectWith_isDisconnected] at hd'; cases hd'
    have hsub : ∀ p ∈ pk0, p ∈ flushPk c := by
      intro p hp; rw [hfp]; split
      · exact hp
      · exact List.mem_append_left _ hp
    obtain ⟨posto, hdrop⟩ := dropWhile_of_mem hord
    have hsplit : c.order = c.order.takeWhile (fun x => x != (true, ch)) ++ (true, ch) :: posto := by
      rw [← hdrop]; exact (List.takeWhile_append_dropWhile ..).symm
    have hnot : (true, ch) ∉ c.order.takeWhile (fun x => x != (true, ch)) := not_mem_takeWhile_ne _
    unfold availAtTurn at hav
    rw [hsplit] at hl
    generalize c.order.takeWhile (fun x => x != (true, ch)) = preo at *
    obtain ⟨sr1, su1, pk1, seq1, avail1, hl1, -, -, hl2⟩ :=
      chanLoop_offered c.now preo posto (true, ch) _ _ _ _ _ (relMapFit_of_inv hinv.send) hl
    rw [hl1] at hav
    dsimp only at hav
    have hf1 : SMap.find? sr1 ch = some sA := by
      have := chanLoop_find_other c.now ch preo _ _ hnot hl1
      dsimp only at this; rw [this]; exact hf
    have hfit1 : RelMapFit sr1 := by
      obtain ⟨_, _, _, _, _, h5⟩ := chanLoop_budget c.now preo _ _ _ _ _ _ _ _ _ _ (relMapFit_of_inv hinv.send) hl1
      exact h5
    rw [chanLoop_rel_step, hf1] at hl2
    dsimp only at hl2
    obtain ⟨ps, hps, -⟩ := chanLoop_budget c.now posto _ _ _ _ _ _ _ _ _ _
      (RelMapFit_insert sr1 ch _ hfit1 (SendRel.getPackets_fit sA seq1 avail1 c.now (hfit1 ch sA hf1))) hl2
    obtain ⟨hi, hc⟩ := hinv.send.chans ch sA hf
    obtain ⟨k1, k2⟩ := getPackets_cover (s := sA) (seq := seq1) (avail := avail1) (now := c.now)
      (s' := (sA.getPackets seq1 avail1 c.now).1) (ps := (sA.getPackets seq1 avail1 c.now).2.1)
      (seq' := (sA.getPackets seq1 avail1 c.now).2.2.1) (avail' := (sA.getPackets seq1 avail1 c.now).2.2.2) rfl hi hun hdue hav
    rw [hc] at k1 k2
    have hmono : ∀ p ∈ (sA.getPackets seq1 avail1 c.now).2.1, p ∈ flushPk c := by
      intro p hp
      apply hsub
      rw [hps]
      exact List.mem_append_left _ (List.mem_append_right _ hp)
    exact ⟨fun id m ls hx => (k1 id m ls hx).mono hmono,
      fun id m n na nx ak ls hx i hi' hak => (k2 id m n na nx ak ls hx i hi' hak).mono hmono⟩

/-! ## Part 5 — the system: every datagram handed to a live B has arrived in B's channel state -/

/-- the entries of a small-message packet are small messages -/
def SmallLens : Packet → Prop
  | .smallReliable _ _ msgs => ∀ x ∈ msgs, x.2.length ≤ SLICE_SIZE
  | _ => True

/-- the reliable payload of packet `p` has arrived in the receive channels `R` -/
def Arrived (R : SMap RecvRel) : Packet → Prop
  | .smallReliable _ ch msgs => ∃ r, SMap.find? R ch = some r ∧ ∀ x ∈ msgs, Have r x.1
  | .reliableSlice _ ch sl => ∃ r, SMap.find? R ch = some r ∧ HaveSlice r sl.messageId sl.sliceIndex
  | _ => True

structure InvD (s : Sys) (pkA : List Packet) : Prop where
  lens : ∀ p ∈ pkA, SmallLens p
  /-- while B is live, whatever was handed to it has been taken in (nothing was refused or dropped) -/
  arr : s.b.isDisconnected = false → ∀ k ∈ s.deliveredToB, ∀ p, pkA[k]? = some p → Arrived s.b.recvRel p

theorem invD_init (cfg : Cfg) : InvD (Sys.init cfg) [] :=
  ⟨fun _ h => (by cases h), fun _ _ h => (by cases h)⟩

theorem haveSlice_of_slices_eq {r r' : RecvRel} (hh : ∀ j, Have r j → Have r' j) (hs : r'.slices = r.slices) :
    ∀ j i, HaveSlice r j i → HaveSlice r' j i := by
  intro j i h
  rcases h with h | ⟨c, hc, hi⟩
  · exact Or.inl (hh j h)
  · exact Or.inr ⟨c, by rw [hs]; exact hc, hi⟩

theorem arrived_insert {R : SMap RecvRel} {ch0 : Nat} {r0 r1 : RecvRel} (hf : SMap.find? R ch0 = some r0)
    (hh : ∀ j, Have r0 j → Have r1 j) (hsl : ∀ j i, HaveSlice r0 j i → HaveSlice r1 j i) {p : Packet}
    (h : Arrived R p) : Arrived (SMap.insert R ch0 r1) p := by
  cases p with
  | smallReliable sq ch msgs =>
    obtain ⟨r, hr, hm⟩ := h
    by_cases e : ch0 = ch
    · subst e
      rw [hf] at hr; cases hr
      exact ⟨r1, by rw [SMap.find?_insert, if_pos rfl], fun x hx => hh _ (hm x hx)⟩
    · exact ⟨r, by rw [SMap.find?_insert, if_neg e]; exact hr, hm⟩
  | reliableSlice sq ch sl =>
    obtain ⟨r, hr, hm⟩ := h
    by_cases e : ch0 = ch
    · subst e
      rw [hf] at hr; cases hr
      exact ⟨r1, by rw [SMap.find?_insert, if_pos rfl], hsl _ _ hm⟩
    · exact ⟨r, by rw [SMap.find?_insert, if_neg e]; exact hr, hm⟩
  | smallUnreliable _ _ _ => trivial
  | unreliableSlice _ _ _ => trivial
  | ack _ _ => trivial

theorem wf_of_chanBS {L : List Bytes} {r : RecvRel} {o : List Bytes} (h : ChanBS L ⟨r, o, false⟩) : DataPath.WF r.messages := by
  cases ho : r.ordered with
  | true => exact (h.1 ho).1.wfM
  | false => exact (h.2 ho).wfM

theorem slicesOK_of_chanBS {L : List Bytes} {r : RecvRel} {o : List Bytes} (h : ChanBS L ⟨r, o, false⟩) : SlicesOK L r := by
  cases ho : r.ordered with
  | true => exact (h.1 ho).1.slices
  | false => exact (h.2 ho).slices

theorem smallLens_getPackets {s : SendRel} (hi : s.Inv) (seq avail now : Nat) :
    ∀ p ∈ (s.getPackets seq avail now).2.1, SmallLens p := by
  intro p hp
  have hg := SendRel.getPackets_genuine (s := s) (seq := seq) (avail := avail) (now := now)
    (s' := (s.getPackets seq avail now).1) (ps := (s.getPackets seq avail now).2.1)
    (seq' := (s.getPackets seq avail now).2.2.1) (avail' := (s.getPackets seq avail now).2.2.2) rfl p hp
  cases p with
  | smallReliable sq c msgs =>
    intro x hx
    obtain ⟨ls, hm⟩ := hg.2 x hx
    exact hi.entries _ hm
  | reliableSlice _ _ _ => trivial
  | smallUnreliable _ _ _ => trivial
  | unreliableSlice _ _ _ => trivial
  | ack _ _ => trivial

theorem smallLens_of_not_rel {p : Packet} (h : isRel p = false) : SmallLens p := by
  cases p with
  | smallReliable _ _ _ => cases h
  | reliableSlice _ _ _ => trivial
  | smallUnreliable _ _ _ => trivial
  | unreliableSlice _ _ _ => trivial
  | ack _ _ => trivial

theorem pk_len {cfg : Cfg} {s : Sys} {pkA : List Packet} (h1 : Inv1 cfg s pkA) : pkA.length = s.outA.length := by
  simpa using congrArg List.length h1.encA

theorem invD_step {cfg : Cfg} {s s' : Sys} {pkA : List Packet} {op : SysOp} (h1 : Inv1 cfg s pkA) (h2 : Inv2 cfg s pkA)
    (hD : InvD s pkA) (hs : s.step op = some s') : InvD s' (nextPk s op pkA) := by
  have hlen := pk_len h1
  cases op with
  | sendA ch m =>
    simp only [Sys.step] at hs
    split at hs
    · cases hs; exact ⟨hD.lens, hD.arr⟩
    · cases hs
  | updA dt =>
    simp only [Sys.step] at hs
    split at hs
    · cases hs; exact ⟨hD.lens, hD.arr⟩
    · cases hs
  | deliverToA k =>
    simp only [Sys.step] at hs
    split at hs
    · cases hs
    · split at hs
      · cases hs; exact ⟨hD.lens, hD.arr⟩
      · cases hs
  | updB dt =>
    simp only [Sys.step] at hs
    split at hs
    · next b' hm =>
      cases hs
      obtain ⟨e1, e2⟩ := update_recv hm
      refine ⟨hD.lens, ?_⟩
      intro hlive k hk p hp
      dsimp only at hlive hk ⊢
      rw [e1]
      exact hD.arr (by rw [← isDisconnected_congr e2]; exact hlive) k hk p hp
    · cases hs
  | flushB =>
    simp only [Sys.step] at hs
    split at hs
    · next b' bs hm =>
      cases hs
      obtain ⟨-, -, -, -, e1, -, e2⟩ := flush_facts h1.invB.1 hm
      refine ⟨hD.lens, ?_⟩
      intro hlive k hk p hp
      dsimp only at hlive hk ⊢
      rw [e1]
      exact hD.arr (e2 hlive) k hk p hp
    · cases hs
  | flushA =>
    simp only [Sys.step] at hs
    split at hs
    · next a' bs hm =>
      cases hs
      have hnew : ∀ p ∈ flushPk s.a, SmallLens p :=
        (flush_pres (fun _ s => s.Inv) SmallLens a'.packetSeq
          (fun ch s0 seq avail hp _ => ⟨(SI.SendRel.getPackets_spec hp seq avail s.a.now _ _ _ _ rfl).1,
            smallLens_getPackets hp seq avail s.a.now⟩)
          (fun su seq avail p hp => smallLens_of_not_rel (unrel_not_rel su seq avail p hp))
          (fun _ => trivial) hm (Nat.le_refl _) (fun ch s0 hf => (h1.invA.1.chans ch s0 hf).1)).2
      refine ⟨?_, ?_⟩
      · intro p hp
        simp only [nextPk, List.mem_append] at hp
        rcases hp with hp | hp
        · exact hD.lens p hp
        · exact hnew p hp
      · intro hlive k hk p hp
        dsimp only at hlive hk ⊢
        have hk' := h1.delivB k hk
        simp only [nextPk] at hp
        rw [List.getElem?_append_left (by omega)] at hp
        exact hD.arr hlive k hk p hp
    · cases hs
  | recvB ch =>
    simp only [Sys.step] at hs
    have key : ∀ b' m, s.b.receiveMessage ch = .ok (b', m) → b'.isDisconnected = false →
        ∀ k ∈ s.deliveredToB, ∀ p, pkA[k]? = some p → Arrived b'.recvRel p := by
      intro b' m hm hlive k hk p hp
      rcases receiveMessage_cases hm with ⟨hd, rfl, -⟩ | ⟨hd, r, r', hf, hr, rfl⟩ | ⟨hd, -, e, -⟩
      · exact hD.arr hlive k hk p hp
      · have hbs := (h2.recvB hd).2 ch r hf
        obtain ⟨a1, a2⟩ := receive_have (wf_of_chanBS hbs) hr
        exact arrived_insert hf a1 (haveSlice_of_slices_eq a1 a2) (hD.arr hd k hk p hp)
      · rw [e]; exact hD.arr hd k hk p hp
    split at hs
    · next b' m hm => cases hs; exact ⟨hD.lens, fun hlive => key b' _ hm hlive⟩
    · next b' hm => cases hs; exact ⟨hD.lens, fun hlive => key b' _ hm hlive⟩
    · cases hs
  | deliverToB k0 =>
    simp only [Sys.step] at hs
    split at hs
    · cases hs
    · next bytes hb =>
      split at hs
      · next b' hm =>
        cases hs
        refine ⟨hD.lens, ?_⟩
        intro hlive k hk p hp
        dsimp only at hlive hk ⊢
        simp only [nextPk] at hp
        rcases processPacket_recv h1.invB.1 hm with hdis | ⟨hd, p', hdec, heff⟩
        · rw [hlive] at hdis; cases hdis
        · obtain ⟨hgen, p0, hp0, -, -, hrel⟩ := decoded_genuine h1 h2 hb hdec
          -- the effect of the packet on the reliable receive channels, and the arrival of its own payload
          have heff' : (∀ k ∈ s.deliveredToB, ∀ p, pkA[k]? = some p → Arrived b'.recvRel p) ∧ (isRel p' = true → Arrived b'.recvRel p') := by
            cases p' with
            | smallReliable sq ch msgs =>
              obtain ⟨r, r', hf, hl, e⟩ := heff
              obtain ⟨a1, a2, a3⟩ := relMsgLoop_have msgs r r' hl
              rw [e]
              exact ⟨fun k hk p hp => arrived_insert hf a2 (haveSlice_of_slices_eq a2 a3) (hD.arr hd k hk p hp),
                fun _ => ⟨r', by rw [SMap.find?_insert, if_pos rfl], a1⟩⟩
            | reliableSlice sq ch sl =>
              obtain ⟨r, r', hf, hl, e⟩ := heff
              have hbs := (h2.recvB hd).2 ch r hf
              obtain ⟨a1, a2, a3⟩ := processSlice_have (slicesOK_of_chanBS hbs) (msgsHave_of_chanBS hbs) hgen hl
              rw [e]
              exact ⟨fun k hk p hp => arrived_insert hf a2 a3 (hD.arr hd k hk p hp),
                fun _ => ⟨r', by rw [SMap.find?_insert, if_pos rfl], a1⟩⟩
            | smallUnreliable _ _ _ =>
              dsimp only at heff
              rw [heff]
              exact ⟨hD.arr hd, fun h => (by cases h)⟩
            | unreliableSlice _ _ _ =>
              dsimp only at heff
              rw [heff]
              exact ⟨hD.arr hd, fun h => (by cases h)⟩
            | ack _ _ =>
              dsimp only at heff
              rw [heff]
              exact ⟨hD.arr hd, fun h => (by cases h)⟩
          rcases List.mem_append.mp hk with hk | hk
          · exact heff'.1 k hk p hp
          · simp only [List.mem_singleton] at hk
            subst hk
            rw [hp0] at hp; cases hp
            cases hr : isRel p with
            | true =>
              have := hrel hr
              subst this
              exact heff'.2 hr
            | false =>
              cases p with
              | smallReliable _ _ _ => cases hr
              | reliableSlice _ _ _ => cases hr
              | smallUnreliable _ _ _ => trivial
              | unreliableSlice _ _ _ => trivial
              | ack _ _ => trivial
      · cases hs

/-! ### all the system invariants together, along runs -/

structure AllInv (cfg : Cfg) (s : Sys) (pkA : List Packet) : Prop where
  i1 : Inv1 cfg s pkA
  i2 : Inv2 cfg s pkA
  iR : InvR cfg s pkA
  iD : InvD s pkA

theorem allInv_step {cfg : Cfg} {s s' : Sys} {pkA : List Packet} {op : SysOp} (h : AllInv cfg s pkA)
    (hs : s.step op = some s') (hc : CountersOK cfg s') : AllInv cfg s' (nextPk s op pkA) :=
  ⟨inv1_step h.i1 hs, inv2_step h.i1 h.i2 hs hc, invR_step h.i1 h.iR hs, invD_step h.i1 h.i2 h.iD hs⟩

theorem allInv_run (cfg : Cfg) : ∀ (ops : List SysOp) (s s' : Sys) (pkA : List Packet), AllInv cfg s pkA →
    s.run ops = some s' → CountersOK cfg s' → AllInv cfg s' (runPk s ops pkA)
  | [], s, s', pkA, h, hr, _ => by
    simp only [Sys.run, Option.some.injEq] at hr; subst hr; exact h
  | op :: ops, s, s', pkA, h, hr, hc => by
    simp only [Sys.run] at hr
    cases hs : s.step op with
    | none => rw [hs] at hr; cases hr
    | some s1 =>
      rw [hs] at hr
      simp only [runPk, hs]
      have hc1 : CountersOK cfg s1 := counters_run_from cfg ops s1 s' _ (inv1_step h.i1 hs) hr hc
      exact allInv_run cfg ops s1 s' _ (allInv_step h hs hc1) hr hc

theorem allInv_reach (cfg : Cfg) (ops : List SysOp) (s : Sys) (hr : (Sys.init cfg).run ops = some s)
    (hc : CountersOK cfg s) : ∃ pkA, AllInv cfg s pkA :=
  ⟨_, allInv_run cfg ops _ s [] ⟨inv1_init cfg, inv2_init cfg, invR_init cfg, invD_init cfg⟩ hr hc⟩

/-! ## Part 6 — the lossless round -/

/-- the counters hypothesis only looks at A's sequence counter and the submission logs -/
theorem countersOK_congr {cfg : Cfg} {s t : Sys} (h1 : t.a.packetSeq = s.a.packetSeq) (h2 : t.submitted = s.submitted)
    (h3 : t.submittedU = s.submittedU) (hc : CountersOK cfg s) : CountersOK cfg t :=
  ⟨hc.chan, by rw [h1]; exact hc.seq, by rw [h2]; exact hc.ids, by rw [h2]; exact hc.lens, by rw [h3]; exact hc.lensU⟩

theorem runPk_noflush : ∀ (ops : List SysOp) (s : Sys) (pk : List Packet), (∀ op ∈ ops, op ≠ SysOp.flushA) → runPk s ops pk = pk
  | [], _, _, _ => rfl
  | op :: ops, s, pk, h => by
    simp only [runPk]
    cases hs : s.step op with
    | none => rfl
    | some s1 =>
      dsimp only
      have : nextPk s op pk = pk := by
        cases op with
        | flushA => exact absurd rfl (h _ (List.mem_cons_self ..))
        | _ => rfl
      rw [this]
      exact runPk_noflush ops s1 pk (fun o ho => h o (List.mem_cons_of_mem _ ho))

/-! ### handing datagrams to B -/

theorem deliver_step_frame {s s1 : Sys} {k : Nat} (hs : s.step (.deliverToB k) = some s1) :
    s1.a = s.a ∧ s1.outA = s.outA ∧ s1.outB = s.outB ∧ s1.submitted = s.submitted ∧ s1.submittedU = s.submittedU ∧
    s1.obtained = s.obtained ∧ s1.deliveredToB = s.deliveredToB ++ [k] := by
  simp only [Sys.step] at hs
  split at hs
  · cases hs
  · split at hs
    · cases hs; exact ⟨rfl, rfl, rfl, rfl, rfl, rfl, rfl⟩
    · cases hs

theorem deliver_frame : ∀ (ks : List Nat) (s t : Sys), s.run (ks.map SysOp.deliverToB) = some t →
    t.a = s.a ∧ t.outA = s.outA ∧ t.outB = s.outB ∧ t.submitted = s.submitted ∧ t.submittedU = s.submittedU ∧
    t.obtained = s.obtained ∧ t.deliveredToB = s.deliveredToB ++ ks
  | [], s, t, h => by
    simp only [List.map_nil, Sys.run, Option.some.injEq] at h; subst h
    exact ⟨rfl, rfl, rfl, rfl, rfl, rfl, by simp⟩
  | k :: ks, s, t, h => by
    simp only [List.map_cons, Sys.run] at h
    cases hs : s.step (.deliverToB k) with
    | none => rw [hs] at h; cases h
    | some s1 =>
      rw [hs] at h
      obtain ⟨a1, a2, a3, a4, a5, a6, a7⟩ := deliver_frame ks s1 t h
      obtain ⟨b1, b2, b3, b4, b5, b6, b7⟩ := deliver_step_frame hs
      exact ⟨a1.trans b1, a2.trans b2, a3.trans b3, a4.trans b4, a5.trans b5, a6.trans b6, by rw [a7, b7]; simp⟩

theorem deliver_total (cfg : Cfg) : ∀ (ks : List Nat) (s : Sys) (pkA : List Packet), Inv1 cfg s pkA →
    (∀ k ∈ ks, k < s.outA.length) → ∃ t, s.run (ks.map SysOp.deliverToB) = some t
  | [], s, _, _, _ => ⟨s, rfl⟩
  | k :: ks, s, pkA, h1, hk => by
    have hk0 := hk k (List.mem_cons_self ..)
    obtain ⟨b', e, -⟩ := CI.processPacket_totalP goodP_winv (reach_conn h1.reachB).1 (s.outA[k]'hk0)
    have hs : s.step (.deliverToB k) = some { s with b := b', deliveredToB := s.deliveredToB ++ [k] } := by
      simp only [Sys.step, List.getElem?_eq_getElem hk0, e]
    obtain ⟨t, ht⟩ := deliver_total cfg ks _ _ (inv1_step h1 hs) (fun k' hk' => hk k' (List.mem_cons_of_mem _ hk'))
    exact ⟨t, by simp only [List.map_cons, Sys.run, hs]; exact ht⟩

/-! ### the application drains the channel -/

theorem recv_step_frame {s s1 : Sys} {ch : Nat} (hs : s.step (.recvB ch) = some s1) :
    s1.a = s.a ∧ s1.outA = s.outA ∧ s1.outB = s.outB ∧ s1.submitted = s.submitted ∧ s1.submittedU = s.submittedU ∧
    s1.deliveredToB = s.deliveredToB := by
  simp only [Sys.step] at hs
  split at hs
  · cases hs; exact ⟨rfl, rfl, rfl, rfl, rfl, rfl⟩
  · cases hs; exact ⟨rfl, rfl, rfl, rfl, rfl, rfl⟩
  · cases hs

theorem recv_step_total {cfg : Cfg} {s : Sys} {pkA : List Packet} (h1 : Inv1 cfg s pkA) {ch : Nat} (hch : s.b.hasRecv ch) :
    ∃ s1, s.step (.recvB ch) = some s1 ∧ s1.b.hasRecv ch ∧ s1.b.isDisconnected = s.b.isDisconnected := by
  obtain ⟨b', m, e, -, hst, hsc⟩ := CI.receiveMessage_totalP (reach_conn h1.reachB).1 ch hch
  have hch' : b'.hasRecv ch := (hsc.hasRecv ch).mpr hch
  cases m with
  | none => exact ⟨{ s with b := b' }, by simp only [Sys.step, e], hch', isDisconnected_congr hst⟩
  | some x => exact ⟨{ s with b := b', obtained := push s.obtained ch x }, by simp only [Sys.step, e], hch', isDisconnected_congr hst⟩

theorem drain_total (cfg : Cfg) (ch : Nat) : ∀ (n : Nat) (s : Sys) (pkA : List Packet), Inv1 cfg s pkA → s.b.hasRecv ch →
    ∃ u, s.run (List.replicate n (SysOp.recvB ch)) = some u ∧ u.a = s.a ∧ u.submitted = s.submitted ∧
      u.submittedU = s.submittedU ∧ u.outA = s.outA ∧ u.b.isDisconnected = s.b.isDisconnected
  | 0, s, _, _, _ => ⟨s, rfl, rfl, rfl, rfl, rfl, rfl⟩
  | n + 1, s, pkA, h1, hch => by
    obtain ⟨s1, hs, hch1, hd1⟩ := recv_step_total h1 hch
    obtain ⟨b1, b2, b3, b4, b5, b6⟩ := recv_step_frame hs
    obtain ⟨u, hu, a1, a2, a3, a4, a5⟩ := drain_total cfg ch n s1 _ (inv1_step h1 hs) hch1
    exact ⟨u, by simp only [List.replicate_succ, Sys.run, hs]; exact hu, a1.trans b1, a2.trans b4, a3.trans b5,
      a4.trans b2, a5.trans hd1⟩

theorem receive_ordered {r r' : RecvRel} {m : Option Bytes} (ho : r.ordered = true) (h : r.receive = .ok (r', m)) :
    r'.ordered = true ∧ r.oldest ≤ r'.oldest ∧ (SMap.contains r.messages r.oldest = true → r'.oldest = r.oldest + 1) := by
  unfold RecvRel.receive at h
  rw [if_pos ho] at h
  split at h
  · next hf =>
    cases h
    refine ⟨ho, Nat.le_refl _, ?_⟩
    intro hc
    unfold SMap.contains at hc; rw [hf] at hc; cases hc
  · next x hf =>
    unfold Res.csub at h
    split at h
    · simp only [Res.bind_ok, Res.pure_eq, Res.ok.injEq, Prod.mk.injEq] at h
      obtain ⟨rfl, -⟩ := h
      exact ⟨ho, Nat.le_succ _, fun _ => rfl⟩
    · cases h

/-- draining an ordered channel in which messages `< j` have all arrived: the cursor reaches `j` -/
theorem drain_progress (cfg : Cfg) (ch j : Nat) : ∀ (n : Nat) (t u : Sys) (pk : List Packet) (rt : RecvRel),
    AllInv cfg t pk → CountersOK cfg t → t.b.isDisconnected = false → SMap.find? t.b.recvRel ch = some rt →
    rt.ordered = true → (∀ id, id < j → Have rt id) → t.run (List.replicate n (SysOp.recvB ch)) = some u →
    ∃ ru, SMap.find? u.b.recvRel ch = some ru ∧ min (rt.oldest + n) j ≤ ru.oldest ∧ AllInv cfg u pk
  | 0, t, u, pk, rt, hA, _, _, hrt, _, _, hrun => by
    simp only [List.replicate_zero, Sys.run, Option.some.injEq] at hrun; subst hrun
    exact ⟨rt, hrt, by omega, hA⟩
  | n + 1, t, u, pk, rt, hA, hc, hlive, hrt, ho, hv, hrun => by
    simp only [List.replicate_succ, Sys.run] at hrun
    cases hs : t.step (.recvB ch) with
    | none => rw [hs] at hrun; cases hrun
    | some t1 =>
      rw [hs] at hrun
      obtain ⟨b1, b2, b3, b4, b5, b6⟩ := recv_step_frame hs
      have hc1 : CountersOK cfg t1 := countersOK_congr (by rw [b1]) b4 b5 hc
      have hA1 : AllInv cfg t1 pk := allInv_step hA hs hc1
      -- what the step did to B
      have key : ∃ r' m, rt.receive = .ok (r', m) ∧ SMap.find? t1.b.recvRel ch = some r' ∧ t1.b.isDisconnected = false := by
        simp only [Sys.step] at hs
        have aux : ∀ b' m, t.b.receiveMessage ch = .ok (b', m) →
            ∃ r', rt.receive = .ok (r', m) ∧ SMap.find? b'.recvRel ch = some r' ∧ b'.isDisconnected = false := by
          intro b' m hm
          rcases receiveMessage_cases hm with ⟨hd, -, -⟩ | ⟨hd, r, r', hf, hr, rfl⟩ | ⟨-, hn, -, -⟩
          · rw [hlive] at hd; cases hd
          · rw [hrt] at hf; cases hf
            exact ⟨r', hr, by dsimp only; rw [SMap.find?_insert, if_pos rfl], hlive⟩
          · rw [hrt] at hn; cases hn
        split at hs
        · next b' m hm => cases hs; obtain ⟨r', x1, x2, x3⟩ := aux b' _ hm; exact ⟨r', _, x1, x2, x3⟩
        · next b' hm => cases hs; obtain ⟨r', x1, x2, x3⟩ := aux b' _ hm; exact ⟨r', _, x1, x2, x3⟩
        · cases hs
      obtain ⟨r', m, hrec, hf1, hlive1⟩ := key
      obtain ⟨o1, o2, o3⟩ := receive_ordered ho hrec
      have hbs := (hA.i2.recvB hlive).2 ch rt hrt
      obtain ⟨m1, -⟩ := receive_have (wf_of_chanBS hbs) hrec
      obtain ⟨ru, hru, hmin, hAu⟩ := drain_progress cfg ch j n t1 u pk r' hA1 hc1 hlive1 hf1 o1 (fun id hid => m1 id (hv id hid)) hrun
      refine ⟨ru, hru, ?_, hAu⟩
      by_cases hlt : rt.oldest < j
      · have hh := hv rt.oldest hlt
        have hcont : SMap.contains rt.messages rt.oldest = true := by
          rcases hh with hh | hh
          · omega
          · rw [if_pos ho] at hh; exact hh
        have := o3 hcont
        omega
      · omega

/-! ### every message below `j` has arrived after the round -/

theorem all_have {cfg : Cfg} {s : Sys} {pkA : List Packet} (hA : AllInv cfg s pkA) {ch : Nat} {sA : SendRel}
    (hfA : SMap.find? s.a.sendRel ch = some sA) {pre post : SMap Unacked} (hun : sA.unacked = pre ++ post) {j : Nat}
    (hj : ∀ x ∈ post, j ≤ x.1)
    (hsm : ∀ id m ls, (id, Unacked.small m ls) ∈ pre → SmallIn (flushPk s.a) ch id m)
    (hsl : ∀ id m n na nx ak ls, (id, Unacked.sliced m n na nx ak ls) ∈ pre → ∀ i, i < n → ak.getD i false = false →
      SliceIn (flushPk s.a) ch id i n m)
    {t : Sys} (hT : AllInv cfg t (pkA ++ flushPk s.a)) (hsub : t.submitted ch = s.submitted ch)
    (hdel : ∀ k ∈ s.deliveredToB, k ∈ t.deliveredToB)
    (hnew : ∀ i, i < (flushPk s.a).length → pkA.length + i ∈ t.deliveredToB)
    (hlive : t.b.isDisconnected = false) {rt : RecvRel} (hrt : SMap.find? t.b.recvRel ch = some rt) :
    ∀ id, id < j → id < (s.submitted ch).length → Have rt id := by
  intro id hidj hidL
  have hbs := (hT.i2.recvB hlive).2 ch rt hrt
  rw [hsub] at hbs
  have hsok := slicesOK_of_chanBS hbs
  have hwinv : rt.WInv := (reach_conn hT.i1.reachB).1.recvRel_find hrt
  obtain ⟨hg, -⟩ := hA.i1.chanA ch sA hfA
  have hrel := hA.iR.relA ch sA hfA
  have hpfx : pkA <+: pkA ++ flushPk s.a := List.prefix_append _ _
  -- a delivered small-message packet naming `id`
  have fromSmall : ∀ k ∈ t.deliveredToB, ∀ sq msgs, (pkA ++ flushPk s.a)[k]? = some (.smallReliable sq ch msgs) →
      id ∈ msgs.map (·.1) → Have rt id := by
    intro k hk sq msgs hp hin
    obtain ⟨r, hr, hall⟩ := hT.iD.arr hlive k hk _ hp
    rw [hrt] at hr; cases hr
    obtain ⟨x, hx, rfl⟩ := List.mem_map.mp hin
    exact hall x hx
  have fromSlice : ∀ k ∈ t.deliveredToB, ∀ sq sl, (pkA ++ flushPk s.a)[k]? = some (.reliableSlice sq ch sl) →
      sl.messageId = id → HaveSlice rt id sl.sliceIndex := by
    intro k hk sq sl hp he
    obtain ⟨r, hr, hall⟩ := hT.iD.arr hlive k hk _ hp
    rw [hrt] at hr; cases hr
    rw [← he]; exact hall
  -- a packet of the new flush has been handed over
  have newDelivered : ∀ p ∈ flushPk s.a, ∃ k ∈ t.deliveredToB, (pkA ++ flushPk s.a)[k]? = some p := by
    intro p hp
    obtain ⟨i, hi⟩ := List.mem_iff_getElem?.mp hp
    have hil : i < (flushPk s.a).length := (List.getElem?_eq_some_iff.mp hi).1
    refine ⟨pkA.length + i, hnew i hil, ?_⟩
    rw [List.getElem?_append_right (by omega)]
    have : pkA.length + i - pkA.length = i := by omega
    rw [this]; exact hi
  have hLid : (s.submitted ch)[id]? = some (s.submitted ch)[id] := List.getElem?_eq_getElem hidL
  generalize (s.submitted ch)[id] = m at hLid
  have inPre : ∀ u, (id, u) ∈ sA.unacked → (id, u) ∈ pre := by
    intro u hu
    rw [hun] at hu
    rcases List.mem_append.mp hu with h | h
    · exact h
    · have := hj _ h; dsimp only at this; omega
  cases hfu : SMap.find? sA.unacked id with
  | none =>
    obtain ⟨g1, g2⟩ := hrel.gone id m hLid hfu
    by_cases hsmall : m.length ≤ SLICE_SIZE
    · obtain ⟨k, hk, sq, msgs, hp, hin⟩ := g1 hsmall
      exact fromSmall k (hdel k hk) sq msgs (getElem?_prefix hpfx hp) hin
    · refine have_of_all_slices hsok hwinv hLid (by omega) ?_
      intro i hi
      obtain ⟨k, hk, sq, sl, hp, e1, e2⟩ := g2 (by omega) i hi
      rw [← e2]
      exact fromSlice k (hdel k hk) sq sl (getElem?_prefix hpfx hp) e1
  | some u =>
    have hmem := SI.find?_some_mem hfu
    have hgen := hg.gen _ hmem
    dsimp only at hgen
    rw [hLid] at hgen
    have hmu : u.msg = m := (Option.some.inj hgen).symm
    cases u with
    | small m' ls =>
      simp only [Unacked.msg] at hmu; subst hmu
      obtain ⟨sq, msgs, hp, hin⟩ := hsm id m' ls (inPre _ hmem)
      obtain ⟨k, hk, hpk⟩ := newDelivered _ hp
      exact fromSmall k hk sq msgs hpk (List.mem_map.mpr ⟨(id, m'), hin, rfl⟩)
    | sliced m' n na nx ak ls =>
      simp only [Unacked.msg] at hmu; subst hmu
      obtain ⟨o1, o2, o3, -⟩ := (hA.i1.invA.1.chans ch sA hfA).1.find_ok hfu
      refine have_of_all_slices hsok hwinv hLid o1 ?_
      intro i hi
      rw [← o2] at hi
      rcases hrel.marked id m' n na nx ak ls hfu i hi with hpend | hdl
      · obtain ⟨m2, n2, k2, nx2, a2, ls2, hf2, ha2⟩ := hpend
        rw [hfu] at hf2; cases hf2
        have hak : ak.getD i false = false := by rw [List.getD_eq_getElem?_getD, ha2]; rfl
        obtain ⟨sq, hp⟩ := hsl id m' n na nx ak ls (inPre _ hmem) i hi hak
        obtain ⟨k, hk, hpk⟩ := newDelivered _ hp
        exact fromSlice k hk sq _ hpk rfl
      · obtain ⟨k, hk, sq, sl, hp, e1, e2⟩ := hdl
        rw [← e2]
        exact fromSlice k (hdel k hk) sq sl (getElem?_prefix hpfx hp) e1

/-! ## Part 7 — the round theorems -/

/-- a reliable send channel of a reachable connection is in the send order -/
theorem order_mem {b : Nat} {sd rc : List ChanCfg} {c : Conn} (hr : C08.Reach b sd rc c) {ch : Nat} {sA : SendRel}
    (hf : SMap.find? c.sendRel ch = some sA) : (true, ch) ∈ c.order := by
  obtain ⟨-, hsc⟩ := reach_conn hr
  rw [hsc.order]
  have h0 : (SMap.find? (Conn.fromChannels b sd rc).sendRel ch).isSome = true := by rw [← hsc.sendRel ch, hf]; rfl
  obtain ⟨s0, hs0⟩ := Option.isSome_iff_exists.mp h0
  simp only [Conn.fromChannels] at hs0 ⊢
  rcases SI.foldl_insert_find (fun c : ChanCfg => c.id) (fun c => SendRel.new c.id c.resend c.maxMem) _ _ ch s0 hs0 with h | ⟨cc, hcc, h1, -⟩
  · cases h
  · obtain ⟨hm, hk⟩ := List.mem_filter.mp hcc
    exact List.mem_map.mpr ⟨cc, hm, by rw [h1, hk]⟩

/-- B has the reliable receive channel of an A → B reliable channel, in every reachable state -/
theorem hasRecv_of_relKind {cfg : Cfg} {s : Sys} {pkA : List Packet} (h1 : Inv1 cfg s pkA) {ch : Nat} {k : Bool}
    (hk : RelKind cfg ch = some k) : s.b.hasRecv ch := by
  left
  obtain ⟨-, hsc⟩ := reach_conn h1.reachB
  have h0 : (SMap.find? (Sys.init cfg).b.recvRel ch).isSome = true := by
    unfold RelKind at hk
    cases hf : SMap.find? (Sys.init cfg).b.recvRel ch with
    | none => rw [hf] at hk; cases hk
    | some r => rfl
  have := hsc.recvRel ch
  intro hn
  rw [hn] at this
  simp only [Sys.init] at h0
  rw [h0] at this; cases this

/-- the datagram indices the next flush of A will occupy in `outA` -/
def newIdx (s : Sys) : List Nat := List.range' s.outA.length (flushPk s.a).length

/-- one lossless round for channel `ch`: A flushes, the network hands the datagrams `ks` to B, B's application asks
    `n` times for a message of channel `ch` -/
def roundOps (ch : Nat) (ks : List Nat) (n : Nat) : List SysOp :=
  SysOp.flushA :: (ks.map SysOp.deliverToB ++ List.replicate n (SysOp.recvB ch))

theorem flush_len {cfg : Cfg} {s : Sys} {pkA : List Packet} (h1 : Inv1 cfg s pkA) {a1 : Conn} {bs : List Bytes}
    (e : s.a.getPacketsToSend = .ok (a1, bs)) : bs.length = (flushPk s.a).length := by
  have := congrArg List.length (flush_facts h1.invA.1 e).1
  simpa using this.symm

/-- **Progress per lossless round (ordered channel, prefix form).**  `pre` = the entries of A's `unacked` with the
    smallest ids, all due (H1) and covered by the budget the channel is offered (H2); `j` = a message id below all
    other stored entries.  After `flushA`, delivery of (at least) the datagrams of that flush, and enough
    `receive_message` calls: nothing panics, A stays live, and unless B has been disconnected B's application has
    obtained the first `j` submitted messages (and, always, only a prefix of the submitted ones). -/
theorem round_progress (cfg : Cfg) (ops : List SysOp) (s : Sys) (hr : (Sys.init cfg).run ops = some s)
    (hc : CountersOK cfg s) (hcA : s.a.CountersOK) (hda : s.a.isDisconnected = false)
    (ch : Nat) (ho : cfg.Ordered ch) (sA : SendRel) (hfA : SMap.find? s.a.sendRel ch = some sA)
    (pre post : SMap Unacked) (hun : sA.unacked = pre ++ post) (j : Nat) (hj : ∀ x ∈ post, j ≤ x.1)
    (hjL : j ≤ (s.submitted ch).length)
    (H1 : AllDue s.a.now sA.resend pre) (H2 : backlog pre ≤ availAtTurn s.a ch)
    (ks : List Nat) (hks1 : ∀ k ∈ newIdx s, k ∈ ks) (hks2 : ∀ k ∈ ks, k < s.outA.length + (flushPk s.a).length)
    (n : Nat) (hn : j ≤ (s.obtained ch).length + n) :
    ∃ t u, s.run (SysOp.flushA :: ks.map SysOp.deliverToB) = some t ∧ t.run (List.replicate n (SysOp.recvB ch)) = some u ∧
      s.run (roundOps ch ks n) = some u ∧
      u.submitted = s.submitted ∧ u.a.isDisconnected = false ∧ u.b.isDisconnected = t.b.isDisconnected ∧
      (u.b.isDisconnected = false → (s.submitted ch).take j <+: u.obtained ch ∧ u.obtained ch <+: s.submitted ch) := by
  obtain ⟨pkA, hA⟩ := allInv_reach cfg ops s hr hc
  obtain ⟨a1, bs, e, hd1, hseq1, hsm, hsl⟩ :=
    flush_covers (reach_conn hA.i1.reachA).1 hcA hda hfA (order_mem hA.i1.reachA hfA) hun H1 H2
  have hs1 : s.step .flushA = some { s with a := a1, outA := s.outA ++ bs } := by simp only [Sys.step, e]
  generalize hs1d : ({ s with a := a1, outA := s.outA ++ bs } : Sys) = s1 at hs1
  have f1 : s1.a = a1 := by rw [← hs1d]
  have f2 : s1.outA = s.outA ++ bs := by rw [← hs1d]
  have f3 : s1.submitted = s.submitted := by rw [← hs1d]
  have f4 : s1.submittedU = s.submittedU := by rw [← hs1d]
  have f5 : s1.obtained = s.obtained := by rw [← hs1d]
  have f6 : s1.deliveredToB = s.deliveredToB := by rw [← hs1d]
  have hc1 : CountersOK cfg s1 :=
    ⟨hc.chan, by rw [f1]; exact hseq1, by rw [f3]; exact hc.ids, by rw [f3]; exact hc.lens, by rw [f4]; exact hc.lensU⟩
  have hA1 : AllInv cfg s1 (pkA ++ flushPk s.a) := allInv_step hA hs1 hc1
  have hbl := flush_len hA.i1 e
  obtain ⟨t, ht⟩ := deliver_total cfg ks s1 _ hA1.i1 (by
    intro k hk; rw [f2, List.length_append, hbl]; exact hks2 k hk)
  obtain ⟨g1, g2, g3, g4, g5, g6, g7⟩ := deliver_frame ks s1 t ht
  have hct : CountersOK cfg t := countersOK_congr (by rw [g1]) g4 g5 hc1
  have hAt : AllInv cfg t (pkA ++ flushPk s.a) := by
    have := allInv_run cfg _ s1 t _ hA1 ht hct
    rwa [runPk_noflush _ _ _ (by intro op hop; obtain ⟨k, -, rfl⟩ := List.mem_map.mp hop; exact fun h => by cases h)] at this
  have hrk := relKind_ordered ho
  obtain ⟨u, hu, u1, u2, u3, u4, u5⟩ := drain_total cfg ch n t _ hAt.i1 (hasRecv_of_relKind hAt.i1 hrk)
  have hrun : s.run (roundOps ch ks n) = some u := by
    simp only [roundOps, Sys.run, hs1]
    rw [Sys.run_append, ht]; exact hu
  have hrunt : s.run (SysOp.flushA :: ks.map SysOp.deliverToB) = some t := by
    simp only [Sys.run, hs1]; exact ht
  refine ⟨t, u, hrunt, hu, hrun, by rw [u2, g4, f3], by rw [u1, g1, f1]; exact hd1, u5, ?_⟩
  intro hliveu
  have hlivet : t.b.isDisconnected = false := by rw [← u5]; exact hliveu
  -- B's channel at `t`
  obtain ⟨hkind, hchan⟩ := hAt.i2.recvB hlivet
  have hk1 := hkind ch
  rw [hrk] at hk1
  cases hrt : SMap.find? t.b.recvRel ch with
  | none => rw [hrt] at hk1; cases hk1
  | some rt =>
    rw [hrt] at hk1
    have hord : rt.ordered = true := by simpa using hk1
    have hsubt : t.submitted ch = s.submitted ch := by rw [g4, f3]
    have hv := all_have hA hfA hun hj hsm hsl hAt hsubt
      (by intro k hk; rw [g7, f6]; exact List.mem_append_left _ hk)
      (by
        intro i hi
        rw [g7]
        apply List.mem_append_right
        apply hks1
        unfold newIdx
        rw [List.mem_range'_1, pk_len hA.i1]; omega)
      hlivet hrt
    obtain ⟨ru, hru, hmin, hAu⟩ := drain_progress cfg ch j n t u _ rt hAt hct hlivet hrt hord
      (fun id hid => hv id hid (by omega)) hu
    -- the cursor at `t` is the number of messages obtained so far
    have hbt := hchan ch rt hrt
    obtain ⟨hot, hle⟩ := hbt.1 hord
    have hold : rt.oldest = (s.obtained ch).length := by
      have := hot.obt
      have hle' : rt.oldest ≤ (t.submitted ch).length := hle
      dsimp only at this
      rw [g6, f5] at this
      rw [this, List.length_take]; omega
    -- the channel at `u`
    obtain ⟨hkindu, hchanu⟩ := hAu.i2.recvB hliveu
    have hbu := hchanu ch ru hru
    have hordu : ru.ordered = true := by
      have := hkindu ch
      rw [hrk, hru] at this
      simpa using this
    have hou := (hbu.1 hordu).1.obt
    dsimp only at hou
    have hsubu : u.submitted ch = s.submitted ch := by rw [u2, g4, f3]
    rw [hsubu] at hou
    rw [hou]
    exact ⟨List.take_prefix_take_left (by omega), List.take_prefix _ _⟩

/-! ### B is not disconnected by the round when its channel has room (H3) and the flush carries only channel `ch` (H4) -/

/-- the packet is a data packet of reliable channel `ch`, or an ack packet -/
def OnlyCh (ch : Nat) : Packet → Prop
  | .smallReliable _ c _ => c = ch
  | .reliableSlice _ c _ => c = ch
  | .ack _ _ => True
  | _ => False

theorem processPacket_small_eq {c : Conn} {bytes : Bytes} {sq ch : Nat} {msgs : List (Nat × Bytes)} {r r' : RecvRel}
    (hd : c.isDisconnected = false) (hp : Packet.fromBytes bytes = .ok (.smallReliable sq ch msgs))
    (hf : SMap.find? c.recvRel ch = some r) (hl : Conn.relMsgLoop r msgs = .ok r') :
    c.processPacket bytes = .ok { c with pendingAcks := Acks.add ACK_RANGE_CAP sq c.pendingAcks, recvRel := SMap.insert c.recvRel ch r' } := by
  unfold Conn.processPacket
  rw [hd, hp]
  simp only [Bool.false_eq_true, ↓reduceIte, hf, hl, Packet.sequence]

theorem processPacket_slice_eq {c : Conn} {bytes : Bytes} {sq ch : Nat} {sl : Slice} {r r' : RecvRel}
    (hd : c.isDisconnected = false) (hp : Packet.fromBytes bytes = .ok (.reliableSlice sq ch sl))
    (hf : SMap.find? c.recvRel ch = some r) (hl : r.processSlice sl = .ok r') :
    c.processPacket bytes = .ok { c with pendingAcks := Acks.add ACK_RANGE_CAP sq c.pendingAcks, recvRel := SMap.insert c.recvRel ch r' } := by
  unfold Conn.processPacket
  rw [hd, hp]
  simp only [Bool.false_eq_true, ↓reduceIte, hf, hl, Packet.sequence]

theorem deliver_step_live {cfg : Cfg} {t t1 : Sys} {pk : List Packet} (hA : AllInv cfg t pk) {ch k : Nat} {p : Packet}
    (hp : pk[k]? = some p) (hoc : OnlyCh ch p) (hack : ∀ sq l, p = .ack sq l → Acks.WF l)
    (hlive : t.b.isDisconnected = false) {rt : RecvRel} (hrt : SMap.find? t.b.recvRel ch = some rt)
    (hroom : Room (t.submitted ch) rt) (hs : t.step (.deliverToB k) = some t1) :
    t1.b.isDisconnected = false ∧ ∃ rt1, SMap.find? t1.b.recvRel ch = some rt1 ∧ Room (t.submitted ch) rt1 := by
  have hmem : p ∈ pk := List.mem_of_getElem? hp
  simp only [Sys.step] at hs
  split at hs
  · cases hs
  · next bytes hb =>
    split at hs
    · next b' hm =>
      cases hs
      dsimp only
      have hbs := (hA.i2.recvB hlive).2 ch rt hrt
      cases p with
      | smallReliable sq c msgs =>
        have hcc : c = ch := hoc
        subst hcc
        obtain ⟨bytes', hb', hdec⟩ := decode_lookup hA.i1 hA.i2 hp rfl
        rw [hb] at hb'; cases hb'
        have hgen : ∀ x ∈ msgs, (t.submitted c)[x.1]? = some x.2 := hA.i1.genA _ hmem
        have hlens : ∀ x ∈ msgs, x.2.length ≤ SLICE_SIZE := hA.iD.lens _ hmem
        obtain ⟨r', hl, hroom', -⟩ := relMsgLoop_room msgs rt (fun x hx => ⟨hgen x hx, hlens x hx⟩) hroom
        rw [processPacket_small_eq hlive hdec hrt hl] at hm
        cases hm
        exact ⟨hlive, r', by dsimp only; rw [SMap.find?_insert, if_pos rfl], hroom'⟩
      | reliableSlice sq c sl =>
        have hcc : c = ch := hoc
        subst hcc
        obtain ⟨bytes', hb', hdec⟩ := decode_lookup hA.i1 hA.i2 hp rfl
        rw [hb] at hb'; cases hb'
        have hgen : GenuineSlice (t.submitted c) sl := hA.i1.genA _ hmem
        have hinv : rt.WInv := (reach_conn hA.i1.reachB).1.recvRel_find hrt
        obtain ⟨r', hl, hroom', -⟩ := processSlice_room (slicesOK_of_chanBS hbs) (msgsHave_of_chanBS hbs)
          (by
            intro c0 hc0
            have h1 := SMap.le_sumBy_of_find? SliceCtor.reserved hc0
            have h2 := hinv.acct
            have h3 : c0.reserved = c0.numSlices * SLICE_SIZE := rfl
            omega)
          hgen hroom
        rw [processPacket_slice_eq hlive hdec hrt hl] at hm
        cases hm
        exact ⟨hlive, r', by dsimp only; rw [SMap.find?_insert, if_pos rfl], hroom'⟩
      | ack sq l =>
        obtain ⟨b0, hb0, he⟩ := enc_lookup' hA.i1.encA hp
        rw [hb] at hb0; cases hb0
        have hdec := ack_enc_decodes (hack sq l rfl) he
        obtain ⟨L, c', -, e, -, eff, -, -⟩ := SI.Conn.processPacket_ack_spec hA.i1.invB.1 hlive hdec
        rw [e] at hm; cases hm
        refine ⟨by rw [isDisconnected_congr eff.frame.2.2.1]; exact hlive, rt, ?_, hroom⟩
        rw [eff.frame.1]; exact hrt
      | smallUnreliable _ _ _ => exact hoc.elim
      | unreliableSlice _ _ _ => exact hoc.elim
    · cases hs

theorem deliver_live (cfg : Cfg) (ch : Nat) (F : List Packet) (hF : ∀ p ∈ F, OnlyCh ch p)
    (hFack : ∀ sq l, Packet.ack sq l ∈ F → Acks.WF l) :
    ∀ (ks : List Nat) (t t' : Sys) (pk : List Packet) (rt : RecvRel), AllInv cfg t pk → CountersOK cfg t →
    (∀ k ∈ ks, ∃ p ∈ F, pk[k]? = some p) → t.b.isDisconnected = false → SMap.find? t.b.recvRel ch = some rt →
    Room (t.submitted ch) rt → t.run (ks.map SysOp.deliverToB) = some t' →
    t'.b.isDisconnected = false ∧ ∃ rt', SMap.find? t'.b.recvRel ch = some rt' ∧ Room (t.submitted ch) rt'
  | [], t, t', pk, rt, _, _, _, hlive, hrt, hroom, hrun => by
    simp only [List.map_nil, Sys.run, Option.some.injEq] at hrun; subst hrun
    exact ⟨hlive, rt, hrt, hroom⟩
  | k :: ks, t, t', pk, rt, hA, hc, hks, hlive, hrt, hroom, hrun => by
    simp only [List.map_cons, Sys.run] at hrun
    cases hs : t.step (.deliverToB k) with
    | none => rw [hs] at hrun; cases hrun
    | some t1 =>
      rw [hs] at hrun
      obtain ⟨p, hpF, hp⟩ := hks k (List.mem_cons_self ..)
      obtain ⟨hl1, rt1, hrt1, hroom1⟩ := deliver_step_live hA hp (hF p hpF)
        (fun sq l e => hFack sq l (by rw [← e]; exact hpF)) hlive hrt hroom hs
      obtain ⟨b1, b2, b3, b4, b5, b6, b7⟩ := deliver_step_frame hs
      have hc1 : CountersOK cfg t1 := countersOK_congr (by rw [b1]) b4 b5 hc
      have hA1 : AllInv cfg t1 pk := allInv_step hA hs hc1
      have := deliver_live cfg ch F hF hFack ks t1 t' pk rt1 hA1 hc1 (fun k' hk' => hks k' (List.mem_cons_of_mem _ hk'))
        hl1 hrt1 (by rw [b4]; exact hroom1) hrun
      rw [b4] at this
      exact this

/-- **B survives the round.**  If B's receive channel has room for everything that is still to come (H3) and the
    flush carries only packets of channel `ch` and acks (H4), then handing B any of the datagrams of that flush, in
    any order, any number of times, does not disconnect it. -/
theorem round_live (cfg : Cfg) (ops : List SysOp) (s : Sys) (hr : (Sys.init cfg).run ops = some s)
    (hc : CountersOK cfg s) (hcA : s.a.CountersOK) (hda : s.a.isDisconnected = false) (hdb : s.b.isDisconnected = false)
    (ch : Nat) (sA : SendRel) (hfA : SMap.find? s.a.sendRel ch = some sA)
    (rB : RecvRel) (hfB : SMap.find? s.b.recvRel ch = some rB)
    (H3 : Room (s.submitted ch) rB) (H4 : ∀ p ∈ flushPk s.a, OnlyCh ch p)
    (ks : List Nat) (hks : ∀ k ∈ ks, k ∈ newIdx s) (t : Sys)
    (hrun : s.run (SysOp.flushA :: ks.map SysOp.deliverToB) = some t) : t.b.isDisconnected = false := by
  obtain ⟨pkA, hA⟩ := allInv_reach cfg ops s hr hc
  obtain ⟨a1, bs, e, hd1, hseq1, -, -⟩ :=
    flush_covers (pre := []) (post := sA.unacked) (reach_conn hA.i1.reachA).1 hcA hda hfA (order_mem hA.i1.reachA hfA) rfl
      (fun _ h => by cases h) (Nat.zero_le _)
  have hs1 : s.step .flushA = some { s with a := a1, outA := s.outA ++ bs } := by simp only [Sys.step, e]
  generalize hs1d : ({ s with a := a1, outA := s.outA ++ bs } : Sys) = s1 at hs1
  have f1 : s1.a = a1 := by rw [← hs1d]
  have f3 : s1.submitted = s.submitted := by rw [← hs1d]
  have f4 : s1.submittedU = s.submittedU := by rw [← hs1d]
  have f7 : s1.b = s.b := by rw [← hs1d]
  have hc1 : CountersOK cfg s1 :=
    ⟨hc.chan, by rw [f1]; exact hseq1, by rw [f3]; exact hc.ids, by rw [f3]; exact hc.lens, by rw [f4]; exact hc.lensU⟩
  have hA1 : AllInv cfg s1 (pkA ++ flushPk s.a) := allInv_step hA hs1 hc1
  simp only [Sys.run, hs1] at hrun
  have hFack : ∀ sq l, Packet.ack sq l ∈ flushPk s.a → Acks.WF l := by
    intro sq l hm
    obtain ⟨sq', e'⟩ := flush_acks e _ hm rfl
    cases e'
    exact hA.i1.invA.2
  have := deliver_live cfg ch (flushPk s.a) H4 hFack ks s1 t _ rB hA1 hc1
    (by
      intro k hk
      have := hks k hk
      unfold newIdx at this
      rw [List.mem_range'_1, ← pk_len hA.i1] at this
      have hlt : k - pkA.length < (flushPk s.a).length := by omega
      refine ⟨(flushPk s.a)[k - pkA.length], List.getElem_mem _, ?_⟩
      rw [List.getElem?_append_right (by omega)]
      exact List.getElem?_eq_getElem hlt)
    (by rw [f7]; exact hdb) (by rw [f7]; exact hfB) (by rw [f3]; exact H3) hrun
  exact this.1

/-- **C01 liveness: one lossless round delivers everything (ReliableOrdered).**
    From any state reachable by `Sys.run (Sys.init cfg) ops` whose counters are in range, both endpoints live, if
    * (H1) every entry of A's `unacked` on channel `ch` is due at A's current time,
    * (H2) the budget left for channel `ch` at its turn in the channel loop covers the backlog,
    * (H3) B's receive channel has room for every submitted message that has not arrived yet,
    * (H4) the flush carries only packets of channel `ch` (and possibly A's ack packet),
    then after `flushA`, delivery of exactly the datagrams of that flush (`ks`: any order, repetitions allowed) and
    enough `receive_message` calls, nothing has panicked, both endpoints are still live, and B's application has
    obtained exactly the submitted messages, in order. -/
theorem round_delivers (cfg : Cfg) (ops : List SysOp) (s : Sys) (hr : (Sys.init cfg).run ops = some s)
    (hc : CountersOK cfg s) (hcA : s.a.CountersOK) (hda : s.a.isDisconnected = false) (hdb : s.b.isDisconnected = false)
    (ch : Nat) (ho : cfg.Ordered ch) (sA : SendRel) (hfA : SMap.find? s.a.sendRel ch = some sA)
    (rB : RecvRel) (hfB : SMap.find? s.b.recvRel ch = some rB)
    (H1 : AllDue s.a.now sA.resend sA.unacked) (H2 : backlog sA.unacked ≤ availAtTurn s.a ch)
    (H3 : Room (s.submitted ch) rB) (H4 : ∀ p ∈ flushPk s.a, OnlyCh ch p)
    (ks : List Nat) (hks1 : ∀ k ∈ newIdx s, k ∈ ks) (hks2 : ∀ k ∈ ks, k ∈ newIdx s)
    (n : Nat) (hn : (s.submitted ch).length ≤ (s.obtained ch).length + n) :
    ∃ u, s.run (roundOps ch ks n) = some u ∧ u.a.isDisconnected = false ∧ u.b.isDisconnected = false ∧
      u.submitted ch = s.submitted ch ∧ u.obtained ch = s.submitted ch := by
  obtain ⟨t, u, ht, -, hu, e1, e2, e3, hcon⟩ := round_progress cfg ops s hr hc hcA hda ch ho sA hfA sA.unacked []
    (by simp) (s.submitted ch).length (fun _ h => by cases h) (Nat.le_refl _) H1 H2 ks hks1
    (by
      intro k hk
      have := hks2 k hk
      unfold newIdx at this
      rw [List.mem_range'_1] at this; exact this.2)
    n hn
  have hlt := round_live cfg ops s hr hc hcA hda hdb ch sA hfA rB hfB H3 H4 ks hks2 t ht
  have hlu : u.b.isDisconnected = false := by rw [e3]; exact hlt
  obtain ⟨p1, p2⟩ := hcon hlu
  rw [List.take_length] at p1
  refine ⟨u, hu, e2, hlu, by rw [e1], ?_⟩
  exact (p2.eq_of_length (Nat.le_antisymm p2.length_le p1.length_le))

/-! ## Part 8 — waiting for the resend timer, and the one-tick bound -/

theorem updA_step {cfg : Cfg} {s : Sys} {pkA : List Packet} (h1 : Inv1 cfg s pkA) (dt : Nat) :
    ∃ su, s.step (.updA dt) = some su := by
  obtain ⟨a', e, -⟩ := CI.update_totalP (reach_conn h1.reachA).1 dt
  exact ⟨{ s with a := a' }, by simp only [Sys.step, e]⟩

theorem updA_frame {s su : Sys} {dt : Nat} (hsu : s.step (.updA dt) = some su) :
    su.a.now = s.a.now + dt ∧ su.a.sendRel = s.a.sendRel ∧ su.a.isDisconnected = s.a.isDisconnected ∧
    su.a.packetSeq = s.a.packetSeq ∧ su.b = s.b ∧ su.submitted = s.submitted ∧ su.submittedU = s.submittedU ∧
    su.obtained = s.obtained ∧ su.outA = s.outA := by
  simp only [Sys.step] at hsu
  split at hsu
  · next a' hm =>
    cases hsu
    obtain ⟨e1, -, e3, -⟩ := SI.Conn.update_spec hm
    exact ⟨(update_frame hm).1, e1, isDisconnected_congr (update_recv hm).2, e3, rfl, rfl, rfl, rfl, rfl⟩
  · cases hsu

/-- **(H1 holds after waiting.)**  In a reachable state, once A's clock has advanced by at least the channel's
    `resend_time`, every entry of `unacked` — every small message, every un-acknowledged slice — is due. -/
theorem due_after_update (cfg : Cfg) (ops : List SysOp) (s : Sys) (hr : (Sys.init cfg).run ops = some s)
    (ch : Nat) (sA : SendRel) (hfA : SMap.find? s.a.sendRel ch = some sA) (dt : Nat) (hdt : sA.resend ≤ dt)
    (su : Sys) (hsu : s.step (.updA dt) = some su) :
    SMap.find? su.a.sendRel ch = some sA ∧ AllDue su.a.now sA.resend sA.unacked := by
  obtain ⟨pkA, h1, -⟩ := system_inv cfg ops s hr
  obtain ⟨e1, e2, -⟩ := updA_frame hsu
  rw [e1, e2]
  exact ⟨hfA, allDue_of_stamped ((reach_stamped h1.reachA).2 ch sA hfA) hdt⟩

theorem run_snoc {cfg : Cfg} {ops : List SysOp} {s su : Sys} {op : SysOp} (hr : (Sys.init cfg).run ops = some s)
    (hs : s.step op = some su) : (Sys.init cfg).run (ops ++ [op]) = some su := by
  rw [Sys.run_append, hr]
  simp only [Option.bind_some, Sys.run, hs]

/-- **C01 liveness, bound: ONE lossless tick after the resend time has elapsed.**
    From any reachable state with both endpoints live: let A's clock advance by `dt ≥ resend_time` (`updA dt`, giving
    `su`); if at that moment the budget covers the backlog of channel `ch` (H2), the flush carries only that channel
    (H4), B's channel has room (H3) and the counters are in range, then `flushA`, delivery of that flush's datagrams
    and enough `receive_message` calls complete the delivery: `obtained = submitted`. -/
theorem bounded_delivery (cfg : Cfg) (ops : List SysOp) (s : Sys) (hr : (Sys.init cfg).run ops = some s)
    (hda : s.a.isDisconnected = false) (hdb : s.b.isDisconnected = false)
    (ch : Nat) (ho : cfg.Ordered ch) (sA : SendRel) (hfA : SMap.find? s.a.sendRel ch = some sA)
    (rB : RecvRel) (hfB : SMap.find? s.b.recvRel ch = some rB)
    (dt : Nat) (hdt : sA.resend ≤ dt) (su : Sys) (hsu : s.step (.updA dt) = some su)
    (hc : CountersOK cfg su) (hcA : su.a.CountersOK)
    (H2 : backlog sA.unacked ≤ availAtTurn su.a ch)
    (H3 : Room (s.submitted ch) rB) (H4 : ∀ p ∈ flushPk su.a, OnlyCh ch p)
    (ks : List Nat) (hks1 : ∀ k ∈ newIdx su, k ∈ ks) (hks2 : ∀ k ∈ ks, k ∈ newIdx su)
    (n : Nat) (hn : (s.submitted ch).length ≤ (s.obtained ch).length + n) :
    ∃ u, s.run (SysOp.updA dt :: roundOps ch ks n) = some u ∧ u.a.isDisconnected = false ∧ u.b.isDisconnected = false ∧
      u.submitted ch = s.submitted ch ∧ u.obtained ch = s.submitted ch := by
  obtain ⟨hfu, hdue⟩ := due_after_update cfg ops s hr ch sA hfA dt hdt su hsu
  obtain ⟨-, -, e3, -, e5, e6, -, e8, -⟩ := updA_frame hsu
  obtain ⟨u, hu, a1, a2, a3, a4⟩ := round_delivers cfg (ops ++ [.updA dt]) su (run_snoc hr hsu) hc hcA
    (by rw [e3]; exact hda) (by rw [e5]; exact hdb) ch ho sA hfu rB (by rw [e5]; exact hfB) hdue H2
    (by rw [e6]; exact H3) H4 ks hks1 hks2 n (by rw [e6, e8]; exact hn)
  refine ⟨u, by simp only [Sys.run, hsu]; exact hu, a1, a2, by rw [a3, e6], by rw [a4, e6]⟩

/-- **Progress per tick when the budget covers only part of the backlog.**  Same round after `updA dt`, but only the
    entries `pre` with the smallest ids are covered by the budget: unless B gets disconnected (no H3/H4 assumed here),
    B's application obtains at least the first `j` submitted messages, `j` being any id below the uncovered entries;
    what it obtains is always a prefix of what was submitted.  (Nothing is lost on the way: `nothing_lost`.) -/
theorem progress_per_tick_partial (cfg : Cfg) (ops : List SysOp) (s : Sys) (hr : (Sys.init cfg).run ops = some s)
    (hda : s.a.isDisconnected = false)
    (ch : Nat) (ho : cfg.Ordered ch) (sA : SendRel) (hfA : SMap.find? s.a.sendRel ch = some sA)
    (dt : Nat) (hdt : sA.resend ≤ dt) (su : Sys) (hsu : s.step (.updA dt) = some su)
    (hc : CountersOK cfg su) (hcA : su.a.CountersOK)
    (pre post : SMap Unacked) (hun : sA.unacked = pre ++ post) (j : Nat) (hj : ∀ x ∈ post, j ≤ x.1)
    (hjL : j ≤ (s.submitted ch).length) (H2 : backlog pre ≤ availAtTurn su.a ch)
    (ks : List Nat) (hks1 : ∀ k ∈ newIdx su, k ∈ ks) (hks2 : ∀ k ∈ ks, k < su.outA.length + (flushPk su.a).length)
    (n : Nat) (hn : j ≤ (s.obtained ch).length + n) :
    ∃ u, s.run (SysOp.updA dt :: roundOps ch ks n) = some u ∧ u.a.isDisconnected = false ∧
      u.submitted ch = s.submitted ch ∧ s.obtained ch <+: u.obtained ch ∧
      (u.b.isDisconnected = false → (s.submitted ch).take j <+: u.obtained ch ∧ u.obtained ch <+: s.submitted ch) := by
  obtain ⟨hfu, hdue⟩ := due_after_update cfg ops s hr ch sA hfA dt hdt su hsu
  obtain ⟨-, -, e3, -, e5, e6, -, e8, -⟩ := updA_frame hsu
  obtain ⟨t, u, ht, hut, hu, a1, a2, a3, a4⟩ := round_progress cfg (ops ++ [.updA dt]) su (run_snoc hr hsu) hc hcA
    (by rw [e3]; exact hda) ch ho sA hfu pre post hun j hj (by rw [e6]; exact hjL)
    (fun x hx => hdue x (by rw [hun]; exact List.mem_append_left _ hx)) H2 ks hks1 hks2 n (by rw [e8]; exact hn)
  refine ⟨u, by simp only [Sys.run, hsu]; exact hu, a2, by rw [a1, e6], ?_, by rw [e6] at a4; exact a4⟩
  -- `obtained` only grows along a run
  have mono : ∀ (ops : List SysOp) (x y : Sys), x.run ops = some y → x.obtained ch <+: y.obtained ch := by
    intro ops
    induction ops with
    | nil => intro x y h; simp only [Sys.run, Option.some.injEq] at h; subst h; exact List.prefix_refl _
    | cons op rest ih =>
      intro x y h
      simp only [Sys.run] at h
      cases hs : x.step op with
      | none => rw [hs] at h; cases h
      | some x1 =>
        rw [hs] at h
        refine List.IsPrefix.trans ?_ (ih x1 y h)
        cases op with
        | recvB c =>
          simp only [Sys.step] at hs
          split at hs
          · cases hs
            dsimp only
            unfold push
            split
            · next e => subst e; exact List.prefix_append _ _
            · exact List.prefix_refl _
          · cases hs; exact List.prefix_refl _
          · cases hs
        | sendA c m => simp only [Sys.step] at hs; split at hs <;> cases hs; exact List.prefix_refl _
        | updA d => simp only [Sys.step] at hs; split at hs <;> cases hs; exact List.prefix_refl _
        | updB d => simp only [Sys.step] at hs; split at hs <;> cases hs; exact List.prefix_refl _
        | flushA => simp only [Sys.step] at hs; split at hs <;> cases hs; exact List.prefix_refl _
        | flushB => simp only [Sys.step] at hs; split at hs <;> cases hs; exact List.prefix_refl _
        | deliverToB k =>
          simp only [Sys.step] at hs
          split at hs
          · cases hs
          · split at hs <;> cases hs; exact List.prefix_refl _
        | deliverToA k =>
          simp only [Sys.step] at hs
          split at hs
          · cases hs
          · split at hs <;> cases hs; exact List.prefix_refl _
  have := mono _ su u hu
  rw [e8] at this
  exact this

/-- a message all of whose packets were handed to a live B has arrived there -/
theorem have_of_released {cfg : Cfg} {t : Sys} {pk : List Packet} (hT : AllInv cfg t pk) (hlive : t.b.isDisconnected = false)
    {ch : Nat} {rt : RecvRel} (hrt : SMap.find? t.b.recvRel ch = some rt) {id : Nat} {m : Bytes}
    (hL : (t.submitted ch)[id]? = some m) (hrel : Released t.deliveredToB pk ch id m) : Have rt id := by
  have hbs := (hT.i2.recvB hlive).2 ch rt hrt
  by_cases hsmall : m.length ≤ SLICE_SIZE
  · obtain ⟨k, hk, sq, msgs, hp, hin⟩ := hrel.1 hsmall
    obtain ⟨r, hr, hall⟩ := hT.iD.arr hlive k hk _ hp
    rw [hrt] at hr; cases hr
    obtain ⟨x, hx, rfl⟩ := List.mem_map.mp hin
    exact hall x hx
  · refine have_of_all_slices (slicesOK_of_chanBS hbs) ((reach_conn hT.i1.reachB).1.recvRel_find hrt) hL (by omega) ?_
    intro i hi
    obtain ⟨k, hk, sq, sl, hp, e1, e2⟩ := hrel.2 (by omega) i hi
    obtain ⟨r, hr, hall⟩ := hT.iD.arr hlive k hk _ hp
    rw [hrt] at hr; cases hr
    rw [← e1, ← e2]; exact hall

/-- **Nothing is lost.**  In every reachable state with B live, each submitted message of a reliable channel is still
    stored in A's `unacked` (and will be retransmitted) or has completely arrived at B — so a tick that could not
    carry a message (budget, loss) merely postpones it. -/
theorem nothing_lost (cfg : Cfg) (ops : List SysOp) (s : Sys) (hr : (Sys.init cfg).run ops = some s)
    (hc : CountersOK cfg s) (hdb : s.b.isDisconnected = false)
    (ch : Nat) (sA : SendRel) (hfA : SMap.find? s.a.sendRel ch = some sA)
    (rB : RecvRel) (hfB : SMap.find? s.b.recvRel ch = some rB) (id : Nat) (hid : id < (s.submitted ch).length) :
    (∃ u, SMap.find? sA.unacked id = some u ∧ u.msg = (s.submitted ch)[id]) ∨ Have rB id := by
  obtain ⟨pkA, hA⟩ := allInv_reach cfg ops s hr hc
  cases hfu : SMap.find? sA.unacked id with
  | some u =>
    left
    have := (hA.i1.chanA ch sA hfA).1.gen _ (SI.find?_some_mem hfu)
    dsimp only at this
    rw [List.getElem?_eq_getElem hid] at this
    exact ⟨u, rfl, (Option.some.inj this).symm⟩
  | none =>
    right
    exact have_of_released hA hdb hfB (List.getElem?_eq_getElem hid)
      ((hA.iR.relA ch sA hfA).gone id _ (List.getElem?_eq_getElem hid) hfu)


/-! ### the single-channel configuration: H2 is `backlog ≤ cfg.budget`, H4 is automatic -/

/-- the only channel from A to B is the ReliableOrdered channel `ch` -/
def Single (cfg : Cfg) (ch : Nat) : Prop := ∃ mm rs, cfg.send = [⟨ch, .ordered, mm, rs⟩]

theorem single_ordered {cfg : Cfg} {ch : Nat} (h : Single cfg ch) : cfg.Ordered ch := by
  obtain ⟨mm, rs, e⟩ := h
  refine ⟨⟨_, by rw [e]; exact List.mem_singleton.mpr rfl, rfl, rfl⟩, ?_⟩
  intro c hc _
  rw [e] at hc
  rw [List.mem_singleton.mp hc]
  intro h; cases h

theorem single_order {cfg : Cfg} {ch : Nat} (h : Single cfg ch) {s : Sys} {pkA : List Packet} (h1 : Inv1 cfg s pkA) :
    s.a.order = [(true, ch)] := by
  obtain ⟨mm, rs, e⟩ := h
  rw [(reach_conn h1.reachA).2.order]
  simp only [Conn.fromChannels, e, List.map_cons, List.map_nil]
  rfl

theorem single_avail {cfg : Cfg} {ch : Nat} (h : Single cfg ch) {s : Sys} {pkA : List Packet} (h1 : Inv1 cfg s pkA) :
    availAtTurn s.a ch = cfg.budget := by
  unfold availAtTurn
  rw [single_order h h1]
  simp only [List.takeWhile_cons, bne_self_eq_false, Bool.false_eq_true, ↓reduceIte, Conn.chanLoop]
  exact (reach_stamped h1.reachA).1

theorem single_only {c : Conn} (hinv : c.SendInv) {ch : Nat} (hord : c.order = [(true, ch)]) :
    ∀ p ∈ flushPk c, OnlyCh ch p := by
  intro p hp
  unfold flushPk at hp
  split at hp
  · cases hp
  · rw [hord, chanLoop_rel_step] at hp
    cases hf : SMap.find? c.sendRel ch with
    | none => rw [hf] at hp; cases hp
    | some sA =>
      rw [hf] at hp
      simp only [Conn.chanLoop] at hp
      split at hp
      · rcases mem_flushPk_cases hp with h | rfl
        · simp only [List.nil_append] at h
          have hg := SendRel.getPackets_genuine (s := sA) (seq := c.packetSeq) (avail := c.budget) (now := c.now)
            (s' := (sA.getPackets c.packetSeq c.budget c.now).1) (ps := (sA.getPackets c.packetSeq c.budget c.now).2.1)
            (seq' := (sA.getPackets c.packetSeq c.budget c.now).2.2.1)
            (avail' := (sA.getPackets c.packetSeq c.budget c.now).2.2.2) rfl p h
          have hc := (hinv.chans ch sA hf).2
          cases p with
          | smallReliable _ _ _ => exact hg.1.trans hc
          | reliableSlice _ _ _ => exact hg.1.trans hc
          | smallUnreliable _ _ _ => exact hg.elim
          | unreliableSlice _ _ _ => exact hg.elim
          | ack _ _ => trivial
        · trivial
      · cases hp

/-- **The one-tick bound for a single-channel configuration**: the budget hypothesis is simply
    `backlog ≤ available_bytes_per_tick`. -/
theorem bounded_delivery_single (cfg : Cfg) (ops : List SysOp) (s : Sys) (hr : (Sys.init cfg).run ops = some s)
    (hda : s.a.isDisconnected = false) (hdb : s.b.isDisconnected = false)
    (ch : Nat) (hsingle : Single cfg ch) (sA : SendRel) (hfA : SMap.find? s.a.sendRel ch = some sA)
    (rB : RecvRel) (hfB : SMap.find? s.b.recvRel ch = some rB)
    (dt : Nat) (hdt : sA.resend ≤ dt) (su : Sys) (hsu : s.step (.updA dt) = some su)
    (hc : CountersOK cfg su) (hcA : su.a.CountersOK)
    (H2 : backlog sA.unacked ≤ cfg.budget) (H3 : Room (s.submitted ch) rB)
    (n : Nat) (hn : (s.submitted ch).length ≤ (s.obtained ch).length + n) :
    ∃ u, s.run (SysOp.updA dt :: roundOps ch (newIdx su) n) = some u ∧ u.a.isDisconnected = false ∧
      u.b.isDisconnected = false ∧ u.submitted ch = s.submitted ch ∧ u.obtained ch = s.submitted ch := by
  obtain ⟨pkU, hU, -⟩ := system_inv cfg _ su (run_snoc hr hsu)
  exact bounded_delivery cfg ops s hr hda hdb ch (single_ordered hsingle) sA hfA rB hfB dt hdt su hsu hc hcA
    (by rw [single_avail hsingle hU]; exact H2) H3 (single_only hU.invA.1 (single_order hsingle hU))
    (newIdx su) (fun _ h => h) (fun _ h => h) n hn

/-! ## Part 9 — ReliableUnordered: everything that has arrived is queued or has been obtained -/

/-- the messages the application has obtained are EXACTLY those that have arrived and are no longer queued -/
def UFull (L : List Bytes) (r : RecvRel) (o : List Bytes) : Prop :=
  ∃ ids : List Nat, ids.Nodup ∧ o.map some = ids.map (fun id => L[id]?) ∧
    ∀ id, id ∈ ids ↔ (Have r id ∧ SMap.find? r.messages id = none)

theorem ufull_mono {L : List Bytes} {r : RecvRel} {o : List Bytes} (m : Bytes) (h : UFull L r o) : UFull (L ++ [m]) r o := by
  obtain ⟨ids, h1, h2, h3⟩ := h
  refine ⟨ids, h1, ?_, h3⟩
  rw [h2]
  apply List.map_congr_left
  intro id hid
  have : L[id]? ∈ o.map some := by rw [h2]; exact List.mem_map.mpr ⟨id, hid, rfl⟩
  obtain ⟨x, -, hx⟩ := List.mem_map.mp this
  rw [← hx]; exact (getElem?_append_singleton_some m hx.symm).symm

theorem ufull_new (L : List Bytes) (maxMem : Nat) : UFull L (RecvRel.new maxMem false) [] := by
  refine ⟨[], List.nodup_nil, rfl, ?_⟩
  intro id
  constructor
  · intro h; cases h
  · rintro ⟨h, -⟩
    rcases h with h | h
    · simp [RecvRel.new] at h
    · simp [RecvRel.new] at h

theorem ufull_accept {L : List Bytes} {r r' : RecvRel} {o : List Bytes} {id : Nat} {m : Bytes} (ho : r.ordered = false)
    (h : UFull L r o) (hacc : Accept r r' id m) : UFull L r' o := by
  obtain ⟨ids, h1, h2, h3⟩ := h
  obtain ⟨e1, e2, hc⟩ := hacc
  refine ⟨ids, h1, h2, ?_⟩
  intro j
  rw [h3 j]
  rcases hc with ⟨hm, hr⟩ | ⟨hlt, hm, hmode⟩
  · rw [(Have.congr e1 e2 hm hr j), hm]
  · rcases hmode with ⟨ht, -, -⟩ | ⟨-, hnr, hr⟩
    · rw [ho] at ht; cases ht
    · have hnh : ¬ Have r id := by
        rintro (h | h)
        · exact hlt h
        · rw [if_neg (by simp [ho])] at h; exact hnr h
      have hiff : Have r' j ↔ (Have r j ∨ j = id) := by
        unfold Have
        rw [e1, e2, hr, if_neg (by simp [ho]), if_neg (by simp [ho]), List.mem_cons]
        constructor
        · rintro (h | h | h)
          · exact Or.inl (Or.inl h)
          · exact Or.inr h
          · exact Or.inl (Or.inr h)
        · rintro ((h | h) | h)
          · exact Or.inl h
          · exact Or.inr (Or.inr h)
          · exact Or.inr (Or.inl h)
      rw [hiff, hm, DataPath.find?_insert]
      constructor
      · rintro ⟨hj, hn⟩
        have hne : ¬ id = j := fun e => hnh (e ▸ hj)
        exact ⟨Or.inl hj, by rw [if_neg hne]; exact hn⟩
      · rintro ⟨hj, hn⟩
        by_cases e : id = j
        · rw [if_pos e] at hn; cases hn
        · rw [if_neg e] at hn
          rcases hj with hj | hj
          · exact ⟨hj, hn⟩
          · exact absurd hj.symm e

/-- advancing the cursor over remembered ids does not invent arrivals -/
theorem advance_conv : ∀ (f o : Nat) (rec : List Nat) (o' : Nat) (rec' : List Nat),
    advanceOldest f o rec = (o', rec') → ∀ id, (id < o' ∨ id ∈ rec') → (id < o ∨ id ∈ rec)
  | 0, o, rec, o', rec', h, id, hid => by
    simp only [advanceOldest, Prod.mk.injEq] at h
    obtain ⟨rfl, rfl⟩ := h; exact hid
  | f + 1, o, rec, o', rec', h, id, hid => by
    simp only [advanceOldest] at h
    split at h
    · next hc =>
      rcases advance_conv f (o + 1) (rec.erase o) o' rec' h id hid with hlt | hmem
      · by_cases he : id = o
        · right; subst he; simpa using hc
        · left; omega
      · right; exact List.mem_of_mem_erase hmem
    · simp only [Prod.mk.injEq] at h
      obtain ⟨rfl, rfl⟩ := h; exact hid

theorem ufull_receive {L : List Bytes} {r r' : RecvRel} {o : List Bytes} {out : Option Bytes} (hinv : UnordInv L ⟨r, o, false⟩)
    (h : UFull L r o) (hr : r.receive = .ok (r', out)) : UFull L r' (o ++ out.toList) := by
  obtain ⟨i1, i2, i3, -, -⟩ := hinv
  dsimp only at i1 i2 i3
  obtain ⟨ids, h1, h2, h3⟩ := h
  unfold RecvRel.receive at hr
  rw [if_neg (by simp [i1])] at hr
  split at hr
  · cases hr
    exact ⟨ids, h1, by simpa using h2, h3⟩
  · next id x rest hmsgs =>
    generalize hadv : (if r.oldest = id then advanceOldest (r.received.length) r.oldest r.received
      else (r.oldest, r.received)) = p at hr
    obtain ⟨o1, rec⟩ := p
    dsimp only at hr
    have hiff : ∀ id0, (id0 < o1 ∨ id0 ∈ rec) ↔ (id0 < r.oldest ∨ id0 ∈ r.received) := by
      intro id0
      split at hadv
      · exact ⟨advance_conv _ _ _ _ _ hadv id0, advance_mono _ _ _ _ _ hadv id0⟩
      · simp only [Prod.mk.injEq] at hadv
        obtain ⟨rfl, rfl⟩ := hadv; exact Iff.rfl
    cases hsub : (Res.csub r.mem x.length "reliable.rs memory_usage_bytes -= message.len() (receive unordered)" : Res Empty Nat) with
    | panic s => rw [hsub] at hr; cases hr
    | err e => exact e.elim
    | ok mem =>
      rw [hsub] at hr
      simp only [Res.bind_ok, Res.pure_eq, Res.ok.injEq, Prod.mk.injEq] at hr
      obtain ⟨rfl, rfl⟩ := hr
      rw [hmsgs] at i2 i3 h3
      have hhead : SMap.find? ((id, x) :: rest) id = some x := by simp [SMap.find?]
      have hrest : ∀ k, k ≠ id → SMap.find? ((id, x) :: rest) k = SMap.find? rest k := by
        intro k hk; simp only [SMap.find?]; rw [if_neg (fun e => hk e.symm)]
      have hnone := find?_tail_none i2
      have hidL := i3 id x hhead
      have hhave : ∀ j, Have ({ r with messages := rest, oldest := o1, received := rec, mem := mem } : RecvRel) j ↔ Have r j := by
        intro j
        unfold Have
        dsimp only
        rw [if_neg (by simp [i1]), if_neg (by simp [i1])]
        exact hiff j
      refine ⟨ids ++ [id], ?_, ?_, ?_⟩
      · rw [List.nodup_append]
        refine ⟨h1, by simp, ?_⟩
        intro a ha b hb
        simp only [List.mem_singleton] at hb
        subst hb
        intro e; subst e
        have := ((h3 a).mp ha).2
        rw [hhead] at this; cases this
      · simp only [List.map_append, Option.toList_some, List.map_cons, List.map_nil, h2, hidL.1]
      · intro j
        rw [hhave j]
        dsimp only
        simp only [List.mem_append, List.mem_singleton]
        constructor
        · rintro (hj | rfl)
          · obtain ⟨a, b⟩ := (h3 j).mp hj
            have hne : j ≠ id := by intro e; subst e; rw [hhead] at b; cases b
            exact ⟨a, by rw [← hrest j hne]; exact b⟩
          · refine ⟨?_, hnone⟩
            unfold Have; rw [if_neg (by simp [i1])]; exact hidL.2
        · rintro ⟨a, b⟩
          by_cases e : j = id
          · exact Or.inr e
          · left
            exact (h3 j).mpr ⟨a, by rw [hrest j e]; exact b⟩

/-- system invariant: on every unordered reliable receive channel of a live B, `UFull` holds -/
def InvF (s : Sys) : Prop :=
  s.b.isDisconnected = false → ∀ ch r, SMap.find? s.b.recvRel ch = some r → r.ordered = false →
    UFull (s.submitted ch) r (s.obtained ch)

theorem invF_init (cfg : Cfg) : InvF (Sys.init cfg) := by
  intro _ ch r hf ho
  simp only [Sys.init, Conn.fromChannels] at hf
  rcases SI.foldl_insert_find (fun c : ChanCfg => c.id) (fun c => RecvRel.new c.maxMem (c.kind == .ordered)) _ _ ch r hf with h | ⟨c, -, -, h2⟩
  · cases h
  · subst h2
    simp only [RecvRel.new] at ho
    simp only [Sys.init]
    rw [ho]
    exact ufull_new _ _

theorem ufull_msgLoop {L : List Bytes} {o : List Bytes} : ∀ (msgs : List (Nat × Bytes)) (r r' : RecvRel), r.ordered = false →
    UFull L r o → Conn.relMsgLoop r msgs = .ok r' → UFull L r' o
  | [], r, r', _, h, hl => by
    simp only [Conn.relMsgLoop, Res.ok.injEq] at hl; subst hl; exact h
  | (id, m) :: rest, r, r', ho, h, hl => by
    simp only [Conn.relMsgLoop] at hl
    cases hp : r.processMessage m id with
    | ok r1 =>
      rw [hp] at hl
      obtain ⟨hacc, -⟩ := processMessage_ok hp
      exact ufull_msgLoop rest r1 r' (hacc.2.1.trans ho) (ufull_accept ho h hacc) hl
    | err e => rw [hp] at hl; cases hl
    | panic s => rw [hp] at hl; cases hl

theorem invF_step {cfg : Cfg} {s s' : Sys} {pkA : List Packet} {op : SysOp} (h1 : Inv1 cfg s pkA) (h2 : Inv2 cfg s pkA)
    (hF : InvF s) (hs : s.step op = some s') : InvF s' := by
  cases op with
  | sendA ch m =>
    simp only [Sys.step] at hs
    split at hs
    · next a' hm =>
      cases hs
      intro hlive c r hf ho
      dsimp only at hlive hf ⊢
      have h0 := hF hlive c r hf ho
      split
      · unfold push
        split
        · exact ufull_mono m h0
        · exact h0
      · exact h0
    · cases hs
  | updA dt =>
    simp only [Sys.step] at hs
    split at hs
    · cases hs; exact hF
    · cases hs
  | deliverToA k =>
    simp only [Sys.step] at hs
    split at hs
    · cases hs
    · split at hs
      · cases hs; exact hF
      · cases hs
  | flushA =>
    simp only [Sys.step] at hs
    split at hs
    · cases hs; exact hF
    · cases hs
  | updB dt =>
    simp only [Sys.step] at hs
    split at hs
    · next b' hm =>
      cases hs
      obtain ⟨e1, e2⟩ := update_recv hm
      intro hlive c r hf ho
      dsimp only at hlive hf ⊢
      rw [e1] at hf
      exact hF (by rw [← isDisconnected_congr e2]; exact hlive) c r hf ho
    · cases hs
  | flushB =>
    simp only [Sys.step] at hs
    split at hs
    · next b' bs hm =>
      cases hs
      obtain ⟨-, -, -, -, e1, -, e2⟩ := flush_facts h1.invB.1 hm
      intro hlive c r hf ho
      dsimp only at hlive hf ⊢
      rw [e1] at hf
      exact hF (e2 hlive) c r hf ho
    · cases hs
  | recvB ch =>
    simp only [Sys.step] at hs
    have key : ∀ b' (m : Option Bytes), s.b.receiveMessage ch = .ok (b', m) → b'.isDisconnected = false →
        ∀ c r, SMap.find? b'.recvRel c = some r → r.ordered = false →
          UFull (s.submitted c) r (if c = ch then s.obtained c ++ m.toList else s.obtained c) := by
      intro b' m hm hlive c r hf ho
      rcases receiveMessage_cases hm with ⟨hd, rfl, rfl⟩ | ⟨hd, r0, r1, hf0, hr, rfl⟩ | ⟨hd, hn, e, -⟩
      · have := hF hlive c r hf ho
        split
        · simpa using this
        · exact this
      · dsimp only at hf
        rw [SMap.find?_insert] at hf
        split at hf
        · next e =>
          subst e; cases hf
          rw [if_pos rfl]
          have hbs := (h2.recvB hd).2 ch r0 hf0
          have ho0 : r0.ordered = false := by
            have := step_ordered (s.submitted ch) ⟨r0, s.obtained ch, false⟩ .recv hbs trivial
            rw [step_recv_eq hr] at this
            dsimp only at this
            rw [← this]; exact ho
          exact ufull_receive (hbs.2 ho0) (hF hd ch r0 hf0 ho0) hr
        · next e =>
          rw [if_neg (fun e' => e e'.symm)]
          exact hF hd c r hf ho
      · rw [e] at hf
        have hne : c ≠ ch := by intro e'; subst e'; rw [hn] at hf; cases hf
        rw [if_neg hne]
        exact hF hd c r hf ho
    split at hs
    · next b' m hm =>
      cases hs
      intro hlive c r hf ho
      have := key b' (some m) hm hlive c r hf ho
      dsimp only
      unfold push
      split
      · next e => rw [if_pos e] at this; simpa using this
      · next e => rw [if_neg e] at this; exact this
    · next b' hm =>
      cases hs
      intro hlive c r hf ho
      have := key b' none hm hlive c r hf ho
      dsimp only
      split at this
      · simpa using this
      · exact this
    · cases hs
  | deliverToB k0 =>
    simp only [Sys.step] at hs
    split at hs
    · cases hs
    · next bytes hb =>
      split at hs
      · next b' hm =>
        cases hs
        intro hlive c r hf ho
        dsimp only at hlive hf ⊢
        rcases processPacket_recv h1.invB.1 hm with hdis | ⟨hd, p', hdec, heff⟩
        · rw [hlive] at hdis; cases hdis
        · obtain ⟨hgen, -⟩ := decoded_genuine h1 h2 hb hdec
          cases p' with
          | smallReliable sq ch msgs =>
            obtain ⟨r0, r1, hf0, hl, e⟩ := heff
            rw [e, SMap.find?_insert] at hf
            split at hf
            · next e' =>
              subst e'; cases hf
              have hbs := (h2.recvB hd).2 ch r0 hf0
              have ho0 : r0.ordered = false := by
                obtain ⟨-, -, -⟩ := relMsgLoop_have msgs r0 r hl
                cases hh : r0.ordered with
                | false => rfl
                | true =>
                  exfalso
                  have : ∀ (msgs : List (Nat × Bytes)) (x y : RecvRel), Conn.relMsgLoop x msgs = .ok y → y.ordered = x.ordered := by
                    intro msgs
                    induction msgs with
                    | nil => intro x y h; simp only [Conn.relMsgLoop, Res.ok.injEq] at h; subst h; rfl
                    | cons a rest ih =>
                      intro x y h
                      obtain ⟨id, m⟩ := a
                      simp only [Conn.relMsgLoop] at h
                      cases hp : x.processMessage m id with
                      | ok x1 =>
                        rw [hp] at h
                        rw [ih x1 y h, (processMessage_ok hp).1.2.1]
                      | err e => rw [hp] at h; cases h
                      | panic s => rw [hp] at h; cases h
                  rw [this msgs r0 r hl, hh] at ho; cases ho
              exact ufull_msgLoop msgs r0 r ho0 (hF hd ch r0 hf0 ho0) hl
            · exact hF hd c r hf ho
          | reliableSlice sq ch sl =>
            obtain ⟨r0, r1, hf0, hl, e⟩ := heff
            rw [e, SMap.find?_insert] at hf
            split at hf
            · next e' =>
              subst e'; cases hf
              have hbs := (h2.recvB hd).2 ch r0 hf0
              obtain ⟨-, m, -, hacc⟩ := processSlice_ok (slicesOK_of_chanBS hbs) hgen hl
              have ho0 : r0.ordered = false := by rw [← hacc.2.1]; exact ho
              exact ufull_accept ho0 (hF hd ch r0 hf0 ho0) hacc
            · exact hF hd c r hf ho
          | smallUnreliable _ _ _ => dsimp only at heff; rw [heff] at hf; exact hF hd c r hf ho
          | unreliableSlice _ _ _ => dsimp only at heff; rw [heff] at hf; exact hF hd c r hf ho
          | ack _ _ => dsimp only at heff; rw [heff] at hf; exact hF hd c r hf ho
      · cases hs

/-! ## Part 10 — the lossless round on a ReliableUnordered channel -/

theorem invF_run (cfg : Cfg) : ∀ (ops : List SysOp) (s s' : Sys) (pkA : List Packet), AllInv cfg s pkA → InvF s →
    s.run ops = some s' → CountersOK cfg s' → InvF s'
  | [], s, s', pkA, _, hF, hr, _ => by
    simp only [Sys.run, Option.some.injEq] at hr; subst hr; exact hF
  | op :: ops, s, s', pkA, h, hF, hr, hc => by
    simp only [Sys.run] at hr
    cases hs : s.step op with
    | none => rw [hs] at hr; cases hr
    | some s1 =>
      rw [hs] at hr
      have hc1 : CountersOK cfg s1 := counters_run_from cfg ops s1 s' _ (inv1_step h.i1 hs) hr hc
      exact invF_run cfg ops s1 s' _ (allInv_step h hs hc1) (invF_step h.i1 h.i2 hF hs) hr hc

theorem invF_reach (cfg : Cfg) (ops : List SysOp) (s : Sys) (hr : (Sys.init cfg).run ops = some s)
    (hc : CountersOK cfg s) : InvF s :=
  invF_run cfg ops _ s [] ⟨inv1_init cfg, inv2_init cfg, invR_init cfg, invD_init cfg⟩ (invF_init cfg) hr hc

theorem receive_unordered {r r' : RecvRel} {m : Option Bytes} (ho : r.ordered = false) (h : r.receive = .ok (r', m)) :
    r'.ordered = false ∧ r'.messages = r.messages.drop 1 := by
  unfold RecvRel.receive at h
  rw [if_neg (by simp [ho])] at h
  split at h
  · next hm => cases h; exact ⟨ho, by rw [hm]; rfl⟩
  · next id x rest hm =>
    generalize (if r.oldest = id then advanceOldest (r.received.length) r.oldest r.received
      else (r.oldest, r.received)) = p at h
    obtain ⟨o1, rec⟩ := p
    dsimp only at h
    unfold Res.csub at h
    split at h
    · simp only [Res.bind_ok, Res.pure_eq, Res.ok.injEq, Prod.mk.injEq] at h
      obtain ⟨rfl, -⟩ := h
      exact ⟨ho, by dsimp only; rw [hm]; rfl⟩
    · cases h

/-- draining an unordered channel: each call removes the head of the queue; nothing that has arrived is forgotten -/
theorem drain_progress_u (cfg : Cfg) (ch j : Nat) : ∀ (n : Nat) (t u : Sys) (pk : List Packet) (rt : RecvRel),
    AllInv cfg t pk → InvF t → CountersOK cfg t → t.b.isDisconnected = false → SMap.find? t.b.recvRel ch = some rt →
    rt.ordered = false → (∀ id, id < j → Have rt id) → t.run (List.replicate n (SysOp.recvB ch)) = some u →
    ∃ ru, SMap.find? u.b.recvRel ch = some ru ∧ ru.ordered = false ∧ ru.messages = rt.messages.drop n ∧
      (∀ id, id < j → Have ru id) ∧ AllInv cfg u pk ∧ InvF u
  | 0, t, u, pk, rt, hA, hF, _, _, hrt, ho, hv, hrun => by
    simp only [List.replicate_zero, Sys.run, Option.some.injEq] at hrun; subst hrun
    exact ⟨rt, hrt, ho, by simp, hv, hA, hF⟩
  | n + 1, t, u, pk, rt, hA, hF, hc, hlive, hrt, ho, hv, hrun => by
    simp only [List.replicate_succ, Sys.run] at hrun
    cases hs : t.step (.recvB ch) with
    | none => rw [hs] at hrun; cases hrun
    | some t1 =>
      rw [hs] at hrun
      obtain ⟨b1, b2, b3, b4, b5, b6⟩ := recv_step_frame hs
      have hc1 : CountersOK cfg t1 := countersOK_congr (by rw [b1]) b4 b5 hc
      have hA1 : AllInv cfg t1 pk := allInv_step hA hs hc1
      have hF1 : InvF t1 := invF_step hA.i1 hA.i2 hF hs
      have key : ∃ r' m, rt.receive = .ok (r', m) ∧ SMap.find? t1.b.recvRel ch = some r' ∧ t1.b.isDisconnected = false := by
        simp only [Sys.step] at hs
        have aux : ∀ b' m, t.b.receiveMessage ch = .ok (b', m) →
            ∃ r', rt.receive = .ok (r', m) ∧ SMap.find? b'.recvRel ch = some r' ∧ b'.isDisconnected = false := by
          intro b' m hm
          rcases receiveMessage_cases hm with ⟨hd, -, -⟩ | ⟨hd, r, r', hf, hr, rfl⟩ | ⟨-, hn, -, -⟩
          · rw [hlive] at hd; cases hd
          · rw [hrt] at hf; cases hf
            exact ⟨r', hr, by dsimp only; rw [SMap.find?_insert, if_pos rfl], hlive⟩
          · rw [hrt] at hn; cases hn
        split at hs
        · next b' m hm => cases hs; obtain ⟨r', x1, x2, x3⟩ := aux b' _ hm; exact ⟨r', _, x1, x2, x3⟩
        · next b' hm => cases hs; obtain ⟨r', x1, x2, x3⟩ := aux b' _ hm; exact ⟨r', _, x1, x2, x3⟩
        · cases hs
      obtain ⟨r', m, hrec, hf1, hlive1⟩ := key
      obtain ⟨o1, o2⟩ := receive_unordered ho hrec
      have hbs := (hA.i2.recvB hlive).2 ch rt hrt
      obtain ⟨m1, -⟩ := receive_have (wf_of_chanBS hbs) hrec
      obtain ⟨ru, hru, horu, hmsg, hvu, hAu, hFu⟩ := drain_progress_u cfg ch j n t1 u pk r' hA1 hF1 hc1 hlive1 hf1 o1
        (fun id hid => m1 id (hv id hid)) hrun
      exact ⟨ru, hru, horu, by rw [hmsg, o2, List.drop_drop]; congr 1; omega, hvu, hAu, hFu⟩

theorem nodup_len_le {n : Nat} {l : List Nat} (hn : l.Nodup) (hb : ∀ x ∈ l, x < n) : l.length ≤ n := by
  have := filter_len_le (fun _ => true) n l hn hb
  rw [List.filter_eq_self.mpr (fun _ _ => rfl), List.filter_eq_self.mpr (fun _ _ => rfl), List.length_range] at this
  exact this

/-- the queue and the obtained messages together never exceed the log -/
theorem queue_bound {L : List Bytes} {r : RecvRel} {o : List Bytes} (hinv : UnordInv L ⟨r, o, false⟩) (hF : UFull L r o) :
    r.messages.length + o.length ≤ L.length := by
  obtain ⟨ids, h1, h2, h3⟩ := hF
  have hlen : o.length = ids.length := by simpa using congrArg List.length h2
  have hkeys : (SMap.keys r.messages).Nodup := by
    have : r.messages.Pairwise (fun a b => a.1 ≠ b.1) := (hinv.wfM : r.messages.Pairwise _).imp (fun h => Nat.ne_of_lt h)
    simpa [SMap.keys, List.Nodup, List.pairwise_map] using this
  have hall : (SMap.keys r.messages ++ ids).Nodup := by
    rw [List.nodup_append]
    refine ⟨hkeys, h1, ?_⟩
    intro a ha b hb e
    subst e
    obtain ⟨x, hx, rfl⟩ := List.mem_map.mp ha
    have hf : SMap.find? r.messages x.1 = some x.2 := by
      have hs : SI.Sorted r.messages := hinv.wfM
      exact SI.mem_find?_of_sorted hs hx
    have := ((h3 x.1).mp hb).2
    rw [hf] at this; cases this
  have hbound : ∀ x ∈ SMap.keys r.messages ++ ids, x < L.length := by
    intro x hx
    rcases List.mem_append.mp hx with hx | hx
    · obtain ⟨y, hy, rfl⟩ := List.mem_map.mp hx
      have hs : SI.Sorted r.messages := hinv.wfM
      have := (hinv.msgs y.1 y.2 (SI.mem_find?_of_sorted hs hy)).1
      exact (List.getElem?_eq_some_iff.mp this).1
    · have : L[x]? ∈ o.map some := by rw [h2]; exact List.mem_map.mpr ⟨x, hx, rfl⟩
      obtain ⟨y, -, hy⟩ := List.mem_map.mp this
      exact (List.getElem?_eq_some_iff.mp hy.symm).1
  have := nodup_len_le hall hbound
  simp only [List.length_append, SMap.keys, List.length_map] at this
  omega

theorem range_map_getElem? (L : List Bytes) : (List.range L.length).map (fun id => L[id]?) = L.map some := by
  apply List.ext_getElem?
  intro i
  simp only [List.getElem?_map]
  by_cases h : i < L.length
  · simp [h]
  · simp [h]

/-- when every logged message has arrived and the queue is empty, the application has obtained a permutation of the log -/
theorem perm_of_ufull {L : List Bytes} {r : RecvRel} {o : List Bytes} (hF : UFull L r o) (hm : r.messages = [])
    (hv : ∀ id, id < L.length → Have r id) : o.Perm L := by
  obtain ⟨ids, h1, h2, h3⟩ := hF
  have hp : ids.Perm (List.range L.length) := by
    rw [List.perm_ext_iff_of_nodup h1 List.nodup_range]
    intro a
    rw [List.mem_range]
    constructor
    · intro ha
      have : L[a]? ∈ o.map some := by rw [h2]; exact List.mem_map.mpr ⟨a, ha, rfl⟩
      obtain ⟨y, -, hy⟩ := List.mem_map.mp this
      exact (List.getElem?_eq_some_iff.mp hy.symm).1
    · intro ha
      exact (h3 a).mpr ⟨hv a ha, by rw [hm]; rfl⟩
  have h4 : (o.map some).Perm (L.map some) := by
    rw [h2, ← range_map_getElem?]
    exact hp.map _
  have h5 := h4.map (fun x : Option Bytes => x.getD [])
  simpa [List.map_map, Function.comp_def] using h5

/-- **C02 liveness: one lossless round delivers everything (ReliableUnordered).**  Same hypotheses as the ordered
    theorem, except H3/H4 (this is the "unless B has been disconnected" form: `ks` may be ANY datagrams of `outA` that
    include those of this flush — any order, repetitions, stale ones).  Nothing panics, A stays live, and unless B has
    been disconnected its application has obtained every submitted message exactly once. -/
theorem round_delivers_unordered (cfg : Cfg) (ops : List SysOp) (s : Sys) (hr : (Sys.init cfg).run ops = some s)
    (hc : CountersOK cfg s) (hcA : s.a.CountersOK) (hda : s.a.isDisconnected = false)
    (ch : Nat) (ho : cfg.Unordered ch) (sA : SendRel) (hfA : SMap.find? s.a.sendRel ch = some sA)
    (H1 : AllDue s.a.now sA.resend sA.unacked) (H2 : backlog sA.unacked ≤ availAtTurn s.a ch)
    (ks : List Nat) (hks1 : ∀ k ∈ newIdx s, k ∈ ks) (hks2 : ∀ k ∈ ks, k < s.outA.length + (flushPk s.a).length)
    (n : Nat) (hn : (s.submitted ch).length ≤ (s.obtained ch).length + n) :
    ∃ t u, s.run (SysOp.flushA :: ks.map SysOp.deliverToB) = some t ∧ t.run (List.replicate n (SysOp.recvB ch)) = some u ∧
      s.run (roundOps ch ks n) = some u ∧
      u.submitted = s.submitted ∧ u.a.isDisconnected = false ∧ u.b.isDisconnected = t.b.isDisconnected ∧
      (u.b.isDisconnected = false → (u.obtained ch).Perm (s.submitted ch)) := by
  obtain ⟨pkA, hA⟩ := allInv_reach cfg ops s hr hc
  have hFs := invF_reach cfg ops s hr hc
  obtain ⟨a1, bs, e, hd1, hseq1, hsm, hsl⟩ :=
    flush_covers (pre := sA.unacked) (post := []) (reach_conn hA.i1.reachA).1 hcA hda hfA (order_mem hA.i1.reachA hfA)
      (by simp) H1 H2
  have hs1 : s.step .flushA = some { s with a := a1, outA := s.outA ++ bs } := by simp only [Sys.step, e]
  generalize hs1d : ({ s with a := a1, outA := s.outA ++ bs } : Sys) = s1 at hs1
  have f1 : s1.a = a1 := by rw [← hs1d]
  have f2 : s1.outA = s.outA ++ bs := by rw [← hs1d]
  have f3 : s1.submitted = s.submitted := by rw [← hs1d]
  have f4 : s1.submittedU = s.submittedU := by rw [← hs1d]
  have f5 : s1.obtained = s.obtained := by rw [← hs1d]
  have f6 : s1.deliveredToB = s.deliveredToB := by rw [← hs1d]
  have hc1 : CountersOK cfg s1 :=
    ⟨hc.chan, by rw [f1]; exact hseq1, by rw [f3]; exact hc.ids, by rw [f3]; exact hc.lens, by rw [f4]; exact hc.lensU⟩
  have hA1 : AllInv cfg s1 (pkA ++ flushPk s.a) := allInv_step hA hs1 hc1
  have hF1 : InvF s1 := invF_step hA.i1 hA.i2 hFs hs1
  have hbl := flush_len hA.i1 e
  obtain ⟨t, ht⟩ := deliver_total cfg ks s1 _ hA1.i1 (by
    intro k hk; rw [f2, List.length_append, hbl]; exact hks2 k hk)
  obtain ⟨g1, g2, g3, g4, g5, g6, g7⟩ := deliver_frame ks s1 t ht
  have hct : CountersOK cfg t := countersOK_congr (by rw [g1]) g4 g5 hc1
  have hAt : AllInv cfg t (pkA ++ flushPk s.a) := by
    have := allInv_run cfg _ s1 t _ hA1 ht hct
    rwa [runPk_noflush _ _ _ (by intro op hop; obtain ⟨k, -, rfl⟩ := List.mem_map.mp hop; exact fun h => by cases h)] at this
  have hFt : InvF t := invF_run cfg _ s1 t _ hA1 hF1 ht hct
  have hrk := relKind_unordered ho
  obtain ⟨u, hu, u1, u2, u3, u4, u5⟩ := drain_total cfg ch n t _ hAt.i1 (hasRecv_of_relKind hAt.i1 hrk)
  have hrun : s.run (roundOps ch ks n) = some u := by
    simp only [roundOps, Sys.run, hs1]
    rw [Sys.run_append, ht]; exact hu
  have hrunt : s.run (SysOp.flushA :: ks.map SysOp.deliverToB) = some t := by
    simp only [Sys.run, hs1]; exact ht
  refine ⟨t, u, hrunt, hu, hrun, by rw [u2, g4, f3], by rw [u1, g1, f1]; exact hd1, u5, ?_⟩
  intro hliveu
  have hlivet : t.b.isDisconnected = false := by rw [← u5]; exact hliveu
  obtain ⟨hkind, hchan⟩ := hAt.i2.recvB hlivet
  have hk1 := hkind ch
  rw [hrk] at hk1
  cases hrt : SMap.find? t.b.recvRel ch with
  | none => rw [hrt] at hk1; cases hk1
  | some rt =>
    rw [hrt] at hk1
    have hord : rt.ordered = false := by simpa using hk1
    have hsubt : t.submitted ch = s.submitted ch := by rw [g4, f3]
    have hv := all_have (j := (s.submitted ch).length) hA hfA (pre := sA.unacked) (post := []) (by simp)
      (fun _ h => by cases h) hsm hsl hAt hsubt
      (by intro k hk; rw [g7, f6]; exact List.mem_append_left _ hk)
      (by
        intro i hi
        rw [g7]
        apply List.mem_append_right
        apply hks1
        unfold newIdx
        rw [List.mem_range'_1, pk_len hA.i1]; omega)
      hlivet hrt
    obtain ⟨ru, hru, horu, hmsg, hvu, hAu, hFu⟩ := drain_progress_u cfg ch (s.submitted ch).length n t u _ rt hAt hFt hct
      hlivet hrt hord (fun id hid => hv id hid hid) hu
    have hbt := hchan ch rt hrt
    have hqb := queue_bound (hbt.2 hord) (hFt hlivet ch rt hrt hord)
    rw [hsubt, g6, f5] at hqb
    have hempty : ru.messages = [] := by
      rw [hmsg]; exact List.drop_eq_nil_of_le (by omega)
    have hsubu : u.submitted ch = s.submitted ch := by rw [u2, g4, f3]
    have hfu := hFu hliveu ch ru hru horu
    rw [hsubu] at hfu
    exact perm_of_ufull hfu hempty hvu

/-- … and with H3/H4, B is not disconnected (`round_live` does not depend on the channel kind), so the permutation
    is obtained unconditionally -/
theorem round_delivers_unordered_live (cfg : Cfg) (ops : List SysOp) (s : Sys) (hr : (Sys.init cfg).run ops = some s)
    (hc : CountersOK cfg s) (hcA : s.a.CountersOK) (hda : s.a.isDisconnected = false) (hdb : s.b.isDisconnected = false)
    (ch : Nat) (ho : cfg.Unordered ch) (sA : SendRel) (hfA : SMap.find? s.a.sendRel ch = some sA)
    (rB : RecvRel) (hfB : SMap.find? s.b.recvRel ch = some rB)
    (H1 : AllDue s.a.now sA.resend sA.unacked) (H2 : backlog sA.unacked ≤ availAtTurn s.a ch)
    (H3 : Room (s.submitted ch) rB) (H4 : ∀ p ∈ flushPk s.a, OnlyCh ch p)
    (ks : List Nat) (hks1 : ∀ k ∈ newIdx s, k ∈ ks) (hks2 : ∀ k ∈ ks, k ∈ newIdx s)
    (n : Nat) (hn : (s.submitted ch).length ≤ (s.obtained ch).length + n) :
    ∃ u, s.run (roundOps ch ks n) = some u ∧ u.a.isDisconnected = false ∧ u.b.isDisconnected = false ∧
      u.submitted ch = s.submitted ch ∧ (u.obtained ch).Perm (s.submitted ch) := by
  obtain ⟨t, u, ht, -, hu, e1, e2, e3, hcon⟩ := round_delivers_unordered cfg ops s hr hc hcA hda ch ho sA hfA H1 H2 ks hks1
    (by
      intro k hk
      have := hks2 k hk
      unfold newIdx at this
      rw [List.mem_range'_1] at this; exact this.2)
    n hn
  have hlt := round_live cfg ops s hr hc hcA hda hdb ch sA hfA rB hfB H3 H4 ks hks2 t ht
  have hlu : u.b.isDisconnected = false := by rw [e3]; exact hlt
  exact ⟨u, hu, e2, hlu, by rw [e1], hcon hlu⟩

/-! ## Part 11 — the acknowledgement path back: what an ack packet releases at the sender -/

/-- ack processing only releases: what is gone stays gone, a slice that is not pending does not become pending -/
def AckMono (s s' : SendRel) : Prop :=
  (∀ j, SMap.find? s.unacked j = none → SMap.find? s'.unacked j = none) ∧ (∀ j i, s'.Pending j i → s.Pending j i) ∧
  (∀ j u', SMap.find? s'.unacked j = some u' → ∃ u, SMap.find? s.unacked j = some u ∧ u.Kin u')

theorem AckMono.refl (s : SendRel) : AckMono s s := ⟨fun _ h => h, fun _ _ h => h, fun _ u h => ⟨u, h, Unacked.Kin.refl u⟩⟩

theorem AckMono.trans {a b c : SendRel} (h1 : AckMono a b) (h2 : AckMono b c) : AckMono a c :=
  ⟨fun j h => h2.1 j (h1.1 j h), fun j i h => h1.2.1 j i (h2.2.1 j i h), fun j u' h => by
    obtain ⟨u1, hu1, k1⟩ := h2.2.2 j u' h
    obtain ⟨u0, hu0, k0⟩ := h1.2.2 j u1 hu1
    exact ⟨u0, hu0, k0.trans k1⟩⟩

theorem processMessageAck_forward {s s' : SendRel} {id : Nat} (hs : SI.Sorted s.unacked) (h : s.processMessageAck id = .ok s') :
    SMap.find? s'.unacked id = none ∧ AckMono s s' ∧ SI.Sorted s'.unacked := by
  unfold SendRel.processMessageAck at h
  split at h
  · next hf => cases h; exact ⟨hf, AckMono.refl _, hs⟩
  · next m ls hf =>
    cases hc : (Res.csub s.mem m.length "reliable.rs memory_usage_bytes -= payload.len() (message ack)" : Res Empty Nat) with
    | ok v =>
      rw [hc] at h
      simp only [Res.bind_ok, Res.pure_eq, Res.ok.injEq] at h
      subst h
      refine ⟨SI.find?_erase_self id hs, ⟨?_, ?_, ?_⟩, SI.sorted_erase id hs⟩
      · intro j hj
        dsimp only
        rw [SI.find?_erase hs]; split
        · rfl
        · exact hj
      · rintro j i ⟨m2, n2, k2, nx2, a2, ls2, hf2, ha2⟩
        dsimp only at hf2
        rw [SI.find?_erase hs] at hf2
        split at hf2
        · cases hf2
        · exact ⟨m2, n2, k2, nx2, a2, ls2, hf2, ha2⟩
      · intro j u' hj
        dsimp only at hj
        rw [SI.find?_erase hs] at hj
        split at hj
        · cases hj
        · exact ⟨u', hj, Unacked.Kin.refl u'⟩
    | err e => exact e.elim
    | panic p => rw [hc] at h; cases h
  · cases h

theorem ackMsgLoop_forward : ∀ (ids : List Nat) (s s' : SendRel), SI.Sorted s.unacked → Conn.ackMsgLoop s ids = .ok s' →
    (∀ id ∈ ids, SMap.find? s'.unacked id = none) ∧ AckMono s s' ∧ SI.Sorted s'.unacked
  | [], s, s', hs, h => by
    simp only [Conn.ackMsgLoop, Res.ok.injEq] at h; subst h
    exact ⟨fun _ h => (by cases h), AckMono.refl _, hs⟩
  | id :: rest, s, s', hs, h => by
    simp only [Conn.ackMsgLoop] at h
    cases h1 : s.processMessageAck id with
    | ok s1 =>
      rw [h1] at h; simp only [Res.bind_ok] at h
      obtain ⟨a1, a2, a3⟩ := processMessageAck_forward hs h1
      obtain ⟨b1, b2, b3⟩ := ackMsgLoop_forward rest s1 s' a3 h
      refine ⟨?_, a2.trans b2, b3⟩
      intro x hx
      rcases List.mem_cons.mp hx with rfl | hx
      · exact b2.1 _ a1
      · exact b1 x hx
    | err e => exact e.elim
    | panic m => rw [h1] at h; cases h

theorem processSliceAck_forward {s s' : SendRel} {id idx : Nat} (hs : SI.Sorted s.unacked)
    (h : s.processSliceAck id idx = .ok s') : ¬ s'.Pending id idx ∧ AckMono s s' := by
  unfold SendRel.processSliceAck at h
  split at h
  · next hf =>
    cases h
    refine ⟨?_, AckMono.refl _⟩
    rintro ⟨m2, n2, k2, nx2, a2, ls2, hf2, -⟩
    rw [hf] at hf2; cases hf2
  · cases h
  · next m n numAcked next acked lastSent hf =>
    split at h
    · cases h
    · next ht =>
      cases h
      refine ⟨?_, AckMono.refl _⟩
      rintro ⟨m2, n2, k2, nx2, a2, ls2, hf2, ha2⟩
      rw [hf] at hf2; cases hf2
      rw [ht] at ha2; cases ha2
    · next hfa =>
      dsimp only at h
      split at h
      · cases hc : (Res.csub s.mem m.length "reliable.rs memory_usage_bytes -= message.len() (slice ack)" : Res Empty Nat) with
        | ok v =>
          rw [hc] at h
          simp only [Res.bind_ok, Res.pure_eq, Res.ok.injEq] at h
          subst h
          refine ⟨?_, ⟨?_, ?_, ?_⟩⟩
          · rintro ⟨m2, n2, k2, nx2, a2, ls2, hf2, -⟩
            dsimp only at hf2
            rw [SI.find?_erase_self id hs] at hf2; cases hf2
          · intro j hj
            dsimp only
            rw [SI.find?_erase hs]; split
            · rfl
            · exact hj
          · rintro j i ⟨m2, n2, k2, nx2, a2, ls2, hf2, ha2⟩
            dsimp only at hf2
            rw [SI.find?_erase hs] at hf2
            split at hf2
            · cases hf2
            · exact ⟨m2, n2, k2, nx2, a2, ls2, hf2, ha2⟩
          · intro j u' hj
            dsimp only at hj
            rw [SI.find?_erase hs] at hj
            split at hj
            · cases hj
            · exact ⟨u', hj, Unacked.Kin.refl u'⟩
        | err e => exact e.elim
        | panic p => rw [hc] at h; cases h
      · simp only [Res.pure_eq, Res.ok.injEq] at h
        subst h
        have hlen : idx < acked.length := (List.getElem?_eq_some_iff.mp hfa).1
        refine ⟨?_, ⟨?_, ?_, ?_⟩⟩
        · rintro ⟨m2, n2, k2, nx2, a2, ls2, hf2, ha2⟩
          dsimp only at hf2
          rw [SI.find?_insert_self] at hf2
          cases hf2
          rw [List.getElem?_set_self hlen] at ha2; cases ha2
        · intro j hj
          dsimp only
          rw [SI.find?_insert]
          split
          · next e => subst e; rw [hf] at hj; cases hj
          · exact hj
        · rintro j i ⟨m2, n2, k2, nx2, a2, ls2, hf2, ha2⟩
          dsimp only at hf2
          rw [SI.find?_insert] at hf2
          split at hf2
          · next e =>
            subst e
            cases hf2
            refine ⟨m, n, numAcked, next, acked, lastSent, hf, ?_⟩
            rw [List.getElem?_set] at ha2
            split at ha2
            · first | cases ha2 | (split at ha2 <;> cases ha2)
            · exact ha2
          · exact ⟨m2, n2, k2, nx2, a2, ls2, hf2, ha2⟩
        · intro j u' hj
          dsimp only at hj
          rw [SI.find?_insert] at hj
          split at hj
          · next e => subst e; cases hj; exact ⟨_, hf, ⟨rfl, rfl⟩⟩
          · exact ⟨u', hj, Unacked.Kin.refl u'⟩

/-- every reliable send channel of `c` is still there in `c'`, and only released -/
def ConnAckMono (c c' : Conn) : Prop :=
  ∀ ch s, SMap.find? c.sendRel ch = some s → ∃ s', SMap.find? c'.sendRel ch = some s' ∧ AckMono s s'

theorem ConnAckMono.refl (c : Conn) : ConnAckMono c c := fun _ s h => ⟨s, h, AckMono.refl _⟩

theorem ConnAckMono.trans {a b c : Conn} (h1 : ConnAckMono a b) (h2 : ConnAckMono b c) : ConnAckMono a c := by
  intro ch s hs
  obtain ⟨s1, hs1, m1⟩ := h1 ch s hs
  obtain ⟨s2, hs2, m2⟩ := h2 ch s1 hs1
  exact ⟨s2, hs2, m1.trans m2⟩

/-- what acknowledging a recorded packet achieves: the small messages it carried are released; the slice it carried
    is no longer pending (marked acknowledged, or its message released) -/
def Eff (c' : Conn) : SentInfo → Prop
  | .relMsgs ch ids => ∃ s', SMap.find? c'.sendRel ch = some s' ∧ ∀ id ∈ ids, SMap.find? s'.unacked id = none
  | .relSlice ch id idx => ∃ s', SMap.find? c'.sendRel ch = some s' ∧ ¬ s'.Pending id idx
  | _ => True

theorem Eff.mono {c c' : Conn} (hm : ConnAckMono c c') : ∀ {info : SentInfo}, Eff c info → Eff c' info
  | .relMsgs ch ids, ⟨s, hs, hg⟩ => by
    obtain ⟨s', hs', m⟩ := hm ch s hs
    exact ⟨s', hs', fun id hid => m.1 id (hg id hid)⟩
  | .relSlice ch id idx, ⟨s, hs, hg⟩ => by
    obtain ⟨s', hs', m⟩ := hm ch s hs
    exact ⟨s', hs', fun hp => hg (m.2.1 id idx hp)⟩
  | .none, _ => trivial
  | .ack _, _ => trivial

theorem connAckMono_insert {c : Conn} {ch : Nat} {s s' : SendRel} {c' : Conn} (hf : SMap.find? c.sendRel ch = some s)
    (hm : AckMono s s') (hc' : c'.sendRel = SMap.insert c.sendRel ch s') : ConnAckMono c c' := by
  intro ch0 s0 hs0
  rw [hc', SI.find?_insert]
  split
  · next e => subst e; rw [hf] at hs0; cases hs0; exact ⟨s', rfl, hm⟩
  · exact ⟨s0, hs0, AckMono.refl _⟩

theorem ackOne_forward {c c' : Conn} (h : c.SendInv) {seq t : Nat} {info : SentInfo}
    (hv : SMap.find? c.sent seq = some (t, info)) (e : Conn.ackOne c seq = .ok c') :
    c'.SendInv ∧ c'.sent = SMap.erase c.sent seq ∧ ConnAckMono c c' ∧ Eff c' info := by
  obtain ⟨c2, e2, i2, s2, -⟩ := SI.Conn.ackOne_spec h ⟨_, hv⟩
  rw [e] at e2; cases e2
  refine ⟨i2, s2, ?_⟩
  unfold Conn.ackOne at e
  rw [hv] at e
  dsimp only at e
  cases info with
  | none => cases e; exact ⟨ConnAckMono.refl _, trivial⟩
  | ack largest => cases e; exact ⟨fun _ s hs => ⟨s, hs, AckMono.refl _⟩, trivial⟩
  | relMsgs ch ids =>
    dsimp only at e
    split at e
    · cases e
    · next s hf =>
      cases h1 : Conn.ackMsgLoop s ids with
      | ok s1 =>
        rw [h1] at e; simp only [Res.bind_ok, Res.pure_eq, Res.ok.injEq] at e
        subst e
        obtain ⟨a1, a2, -⟩ := ackMsgLoop_forward ids s s1 (h.chans ch s hf).1.sorted h1
        exact ⟨connAckMono_insert hf a2 rfl, ⟨s1, by dsimp only; rw [SI.find?_insert_self], a1⟩⟩
      | err e0 => exact e0.elim
      | panic m => rw [h1] at e; cases e
  | relSlice ch id idx =>
    dsimp only at e
    split at e
    · cases e
    · next s hf =>
      cases h1 : s.processSliceAck id idx with
      | ok s1 =>
        rw [h1] at e; simp only [Res.bind_ok, Res.pure_eq, Res.ok.injEq] at e
        subst e
        obtain ⟨a1, a2⟩ := processSliceAck_forward (h.chans ch s hf).1.sorted h1
        exact ⟨connAckMono_insert hf a2 rfl, ⟨s1, by dsimp only; rw [SI.find?_insert_self], a1⟩⟩
      | err e0 => exact e0.elim
      | panic m => rw [h1] at e; cases e

theorem ackLoop_forward : ∀ (L : List Nat) (c c' : Conn), c.SendInv → L.Nodup → Conn.ackLoop c L = .ok c' →
    ConnAckMono c c' ∧ ∀ seq ∈ L, ∀ t info, SMap.find? c.sent seq = some (t, info) → Eff c' info
  | [], c, c', _, _, h => by
    simp only [Conn.ackLoop, Res.ok.injEq] at h; subst h
    exact ⟨ConnAckMono.refl _, fun _ h => (by cases h)⟩
  | seq0 :: rest, c, c', hinv, hnd, h => by
    simp only [Conn.ackLoop] at h
    rw [List.nodup_cons] at hnd
    cases h1 : Conn.ackOne c seq0 with
    | ok c1 =>
      rw [h1] at h; simp only [Res.bind_ok] at h
      -- the entry of `seq0` exists (otherwise `ackOne` panics)
      have hex : ∃ t info, SMap.find? c.sent seq0 = some (t, info) := by
        unfold Conn.ackOne at h1
        split at h1
        · cases h1
        · next t info hf => exact ⟨t, info, hf⟩
      obtain ⟨t0, info0, hv0⟩ := hex
      obtain ⟨i1, s1, m1, e1⟩ := ackOne_forward hinv hv0 h1
      obtain ⟨m2, e2⟩ := ackLoop_forward rest c1 c' i1 hnd.2 h
      refine ⟨m1.trans m2, ?_⟩
      intro seq hseq t info hv
      rcases List.mem_cons.mp hseq with rfl | hseq
      · rw [hv0] at hv; cases hv
        exact e1.mono m2
      · have hne : seq0 ≠ seq := by intro e; subst e; exact hnd.1 hseq
        exact e2 seq hseq t info (by rw [s1, SI.find?_erase_ne _ hne]; exact hv)
    | err e0 => exact e0.elim
    | panic m => rw [h1] at h; cases h

theorem newAcks_complete {sent : SMap (Nat × SentInfo)} : ∀ (ranges : List AckRange) (L : List Nat),
    Conn.newAcks sent ranges = .ok L → ∀ seq v, SMap.find? sent seq = some v → Acks.Mem seq ranges → seq ∈ L
  | [], L, _, seq, v, _, hm => by cases hm
  | (s, e) :: rest, L, h, seq, v, hf, hm => by
    simp only [Conn.newAcks] at h
    split at h
    · cases h
    · cases h1 : Conn.newAcks sent rest with
      | ok more =>
        rw [h1] at h; simp only [Res.bind_ok, Res.pure_eq, Res.ok.injEq] at h
        subst h
        rw [List.mem_append]
        rcases hm with hm | hm
        · left
          exact List.mem_map.mpr ⟨(seq, v), List.mem_filter.mpr ⟨SI.find?_some_mem hf, by simpa using hm⟩, rfl⟩
        · right
          exact newAcks_complete rest more h1 seq v hf hm
      | err e0 => exact e0.elim
      | panic m => rw [h1] at h; cases h

/-- **What an ack packet releases.**  A live sender that processes an ack packet: for every sequence number the packet
    covers that is still in the sent table, the small messages of that packet leave `unacked`, resp. its slice stops
    being pending; nothing else is touched except by releasing. -/
theorem processPacket_ack_forward {c c' : Conn} {bytes : Bytes} {aseq : Nat} {ranges : List AckRange} (h : c.SendInv)
    (hd : c.isDisconnected = false) (hp : Packet.fromBytes bytes = .ok (.ack aseq ranges))
    (he : c.processPacket bytes = .ok c') :
    ConnAckMono c c' ∧ c'.isDisconnected = false ∧
      ∀ seq t info, Acks.Mem seq ranges → SMap.find? c.sent seq = some (t, info) → Eff c' info := by
  obtain ⟨L, c2, hL, e2, -, eff, hmem, -⟩ := SI.Conn.processPacket_ack_spec h hd hp
  rw [he] at e2; cases e2
  obtain ⟨L', hL', hnd, -⟩ := SI.Conn.newAcks_spec h.sentSorted ranges (SI.fromBytes_ack_wf hp)
  rw [hL] at hL'; cases hL'
  have hloop : Conn.ackLoop { c with pendingAcks := Acks.add ACK_RANGE_CAP aseq c.pendingAcks } L = .ok c' := by
    have := SI.Conn.processPacket_ack_eq hd hp
    rw [he, hL] at this
    exact this.symm
  generalize hc0 : ({ c with pendingAcks := Acks.add ACK_RANGE_CAP aseq c.pendingAcks } : Conn) = c0 at hloop
  have hi0 : c0.SendInv := by rw [← hc0]; exact h.same ⟨rfl, rfl, rfl, rfl, rfl⟩
  have hs0 : c0.sent = c.sent := by rw [← hc0]
  have hr0 : c0.sendRel = c.sendRel := by rw [← hc0]
  obtain ⟨m, ef⟩ := ackLoop_forward L c0 c' hi0 hnd hloop
  refine ⟨fun ch s hs => m ch s (by rw [hr0]; exact hs), by rw [isDisconnected_congr eff.frame.2.2.1]; exact hd, ?_⟩
  intro seq t info hm hv
  exact ef seq (newAcks_complete ranges L hL seq _ hv hm) t info (by rw [hs0]; exact hv)

/-! ## Part 12 — the acknowledgement round at system level -/

/-- index in `outB` of the last datagram B's next flush emits (its ack packet, when it has pending acks) -/
def ackIdx (u : Sys) : Nat := u.outB.length + (flushPk u.b).length - 1

/-- **The acknowledgement round.**  From a reachable state with both endpoints live and B holding pending acks: B
    flushes (its last datagram is the ack packet carrying exactly its pending list, C08) and that datagram is handed
    to A.  Nothing panics, A stays live, and for every packet sequence number in B's pending list that A still has in
    its sent table, A releases what that packet carried (`Eff`): small messages leave `unacked`, a slice stops
    being pending.  Nothing else changes in A's reliable send channels except by releasing (`ConnAckMono`). -/
theorem acks_release (cfg : Cfg) (ops : List SysOp) (u : Sys) (hr : (Sys.init cfg).run ops = some u)
    (hda : u.a.isDisconnected = false) (hdb : u.b.isDisconnected = false) (hcB : u.b.CountersOK)
    (hne : u.b.pendingAcks ≠ []) :
    ∃ v, u.run [.flushB, .deliverToA (ackIdx u)] = some v ∧ v.a.isDisconnected = false ∧
      v.submitted = u.submitted ∧ v.obtained = u.obtained ∧ ConnAckMono u.a v.a ∧ v.a.SendInv ∧
      ∀ seq t info, Acks.Mem seq u.b.pendingAcks → SMap.find? u.a.sent seq = some (t, info) → Eff v.a info := by
  obtain ⟨pkA, h1, -⟩ := system_inv cfg ops u hr
  obtain ⟨b1, bs, e, -, hst, -⟩ := CI.getPacketsToSend_totalP (reach_conn h1.reachB).1 hcB
  have hlive1 : b1.isDisconnected = false := by rw [isDisconnected_congr hst]; exact hdb
  have hlen : bs.length = (flushPk u.b).length := by
    have := congrArg List.length (flush_facts h1.invB.1 e).1
    simpa using this.symm
  -- the flush is not empty: it ends with the ack packet
  have hbs : bs ≠ [] := by
    rcases getPacketsToSend_unfold e with ⟨hd1, -, -⟩ | ⟨-, sr, su, pk0, seq0, avail, sent, -, -, hser⟩
    · rw [hdb] at hd1; cases hd1
    · have hemp : u.b.pendingAcks.isEmpty = false := by
        cases hl : u.b.pendingAcks with
        | nil => exact absurd hl hne
        | cons a t => rfl
      rcases hser with ⟨hok, -⟩ | ⟨er, -, -, rfl⟩
      · rw [hemp] at hok
        simp only [Bool.false_eq_true, ↓reduceIte] at hok
        have := congrArg List.length (serialiseAll_enc _ _ hok)
        intro hnil
        rw [hnil] at this
        simp at this
      · rw [disconnectWith_isDisconnected] at hlive1; cases hlive1
  obtain ⟨seq0, b, hlast, hdec⟩ := SI.Conn.getPacketsToSend_wire_ack h1.invB.1 h1.invB.2 hdb hne e hbs
  have hs1 : u.step .flushB = some { u with b := b1, outB := u.outB ++ bs } := by simp only [Sys.step, e]
  have hidx : (u.outB ++ bs)[ackIdx u]? = some b := by
    have hpos : 0 < bs.length := List.length_pos_iff.mpr hbs
    unfold ackIdx
    rw [← hlen, List.getElem?_append_right (by omega)]
    rw [List.getLast?_eq_getElem?] at hlast
    have : u.outB.length + bs.length - 1 - u.outB.length = bs.length - 1 := by omega
    rw [this]; exact hlast
  obtain ⟨L, a', -, ea, ia, -, -, -⟩ := SI.Conn.processPacket_ack_spec h1.invA.1 hda hdec
  obtain ⟨hm, hl', heff⟩ := processPacket_ack_forward h1.invA.1 hda hdec ea
  have hs2 : ({ u with b := b1, outB := u.outB ++ bs } : Sys).step (.deliverToA (ackIdx u)) =
      some { u with b := b1, outB := u.outB ++ bs, a := a' } := by
    simp only [Sys.step, hidx, ea]
  refine ⟨{ u with b := b1, outB := u.outB ++ bs, a := a' }, ?_, hl', rfl, rfl, hm, ia, heff⟩
  simp only [Sys.run, hs1, hs2]

/-! ### a flush records every packet it emits -/

theorem recordSent_complete (now : Nat) : ∀ (pk : List Packet) (m m' : SMap (Nat × SentInfo)),
    Conn.recordSent now pk m = .ok m' → (pk.map Packet.sequence).Pairwise (· < ·) →
    ∀ p ∈ pk, ∃ info, Conn.sentInfoOf p = .ok info ∧ SMap.find? m' p.sequence = some (now, info)
  | [], _, _, _, _, p, hp => by cases hp
  | q :: rest, m, m', h, hpw, p, hp => by
    simp only [Conn.recordSent] at h
    cases hi : Conn.sentInfoOf q with
    | err e => exact e.elim
    | panic s => rw [hi] at h; cases h
    | ok info =>
      rw [hi] at h
      simp only [Res.bind_ok] at h
      simp only [List.map_cons, List.pairwise_cons] at hpw
      rcases List.mem_cons.mp hp with rfl | hp
      · refine ⟨info, hi, ?_⟩
        rw [SI.Conn.recordSent_keeps now rest _ m' h p.sequence (by
          intro r hr e
          have := hpw.1 r.sequence (List.mem_map.mpr ⟨r, hr, rfl⟩)
          omega)]
        exact SI.find?_insert_self _ _ _
      · exact recordSent_complete now rest _ m' h hpw.2 p hp

theorem flush_records {c c' : Conn} {bs : List Bytes} (hinv : c.SendInv) (h : c.getPacketsToSend = .ok (c', bs))
    (hd' : c'.isDisconnected = false) :
    ∀ p ∈ flushPk c, ∃ info, Conn.sentInfoOf p = .ok info ∧ SMap.find? c'.sent p.sequence = some (c.now, info) := by
  have hpw := (flush_facts hinv h).2.1
  rcases getPacketsToSend_unfold h with ⟨hd, -, -⟩ | ⟨hd, sr, su, pk0, seq0, avail, sent, hl, hrec, hser⟩
  · intro p hp
    have : flushPk c = [] := by unfold flushPk; rw [if_pos hd]
    rw [this] at hp; cases hp
  · rcases hser with ⟨hok, rfl⟩ | ⟨e, herr, rfl, rfl⟩
    · have hfp : flushPk c = (if c.pendingAcks.isEmpty then pk0 else pk0 ++ [Packet.ack seq0 c.pendingAcks]) := by
        unfold flushPk; rw [hd]; simp only [Bool.false_eq_true, ↓reduceIte, hl, hok]
      rw [hfp] at hpw ⊢
      exact recordSent_complete c.now _ _ _ hrec hpw
    · rw [disconnectWith_isDisconnected] at hd'; cases hd'


theorem recv_run_frame (ch : Nat) : ∀ (n : Nat) (t u : Sys), t.run (List.replicate n (SysOp.recvB ch)) = some u → u.a = t.a
  | 0, t, u, h => by simp only [List.replicate_zero, Sys.run, Option.some.injEq] at h; subst h; rfl
  | n + 1, t, u, h => by
    simp only [List.replicate_succ, Sys.run] at h
    cases hs : t.step (.recvB ch) with
    | none => rw [hs] at h; cases h
    | some t1 =>
      rw [hs] at h
      rw [recv_run_frame ch n t1 u h, (recv_step_frame hs).1]

/-- **No livelock of the budget by delivered messages.**  After a lossless round that covered the whole backlog of
    channel `ch` (H1, H2), if B — still live, counters in range — holds the sequence numbers of that flush's data
    packets in its pending-ack list (`hpend`: some pending range covers each of them), then B's next flush and the delivery of its ack datagram to A empty
    A's `unacked` on channel `ch`: the next tick retransmits nothing.
    (`hpend` is what remains to be derived from the round itself: B appends every received sequence number
    (`Acks.add`), which is kept as long as fewer than ACK_RANGE_CAP = 64 ranges are pending and `acked_largest` —
    run when A's own ack packet arrives — only drops older numbers.  It is checked by evaluation in the example.) -/
theorem acks_release_prefix (cfg : Cfg) (ops : List SysOp) (s : Sys) (hr : (Sys.init cfg).run ops = some s)
    (hc : CountersOK cfg s) (hcA : s.a.CountersOK) (hda : s.a.isDisconnected = false)
    (ch : Nat) (sA : SendRel) (hfA : SMap.find? s.a.sendRel ch = some sA)
    (pre post : SMap Unacked) (hun : sA.unacked = pre ++ post)
    (H1 : AllDue s.a.now sA.resend pre) (H2 : backlog pre ≤ availAtTurn s.a ch)
    (ks : List Nat) (n : Nat) (u : Sys) (hu : s.run (roundOps ch ks n) = some u)
    (hdb : u.b.isDisconnected = false) (hcB : u.b.CountersOK) (hne : u.b.pendingAcks ≠ [])
    (hpend : ∀ p ∈ flushPk s.a, isRel p = true → ∃ r ∈ u.b.pendingAcks, r.1 ≤ p.sequence ∧ p.sequence < r.2) :
    ∃ v, u.run [.flushB, .deliverToA (ackIdx u)] = some v ∧ v.a.isDisconnected = false ∧
      ∃ sA', SMap.find? v.a.sendRel ch = some sA' ∧ ∀ x ∈ sA'.unacked, ∃ u0, (x.1, u0) ∈ post := by
  obtain ⟨pkA, hA⟩ := allInv_reach cfg ops s hr hc
  obtain ⟨a1, bs, e, hd1, hseq1, hsm, hsl⟩ :=
    flush_covers (pre := pre) (post := post) (reach_conn hA.i1.reachA).1 hcA hda hfA (order_mem hA.i1.reachA hfA)
      hun H1 H2
  have hs1 : s.step .flushA = some { s with a := a1, outA := s.outA ++ bs } := by simp only [Sys.step, e]
  generalize hs1d : ({ s with a := a1, outA := s.outA ++ bs } : Sys) = s1 at hs1
  have f1 : s1.a = a1 := by rw [← hs1d]
  -- decompose the round
  have hu' := hu
  simp only [roundOps, Sys.run, hs1] at hu'
  rw [Sys.run_append] at hu'
  cases ht : s1.run (ks.map SysOp.deliverToB) with
  | none => rw [ht] at hu'; cases hu'
  | some t =>
    rw [ht] at hu'
    simp only [Option.bind_some] at hu'
    have hua : u.a = a1 := by
      rw [recv_run_frame ch n t u hu', (deliver_frame ks s1 t ht).1, f1]
    have hreach : (Sys.init cfg).run (ops ++ roundOps ch ks n) = some u := by
      rw [Sys.run_append, hr]; exact hu
    obtain ⟨v, hv, hlv, -, -, hmono, hinvv, heff⟩ := acks_release cfg _ u hreach (by rw [hua]; exact hd1) hdb hcB hne
    -- A's channel after the flush
    obtain ⟨-, -, hget, -⟩ := SI.Conn.getPacketsToSend_spec hA.i1.invA.1 hA.i1.invA.2 e
    obtain ⟨sA1, hf1, -⟩ := hget.keeps hfA
    obtain ⟨hsim, -⟩ := hget.2 ch sA sA1 hfA hf1
    obtain ⟨sA', hf', hm'⟩ := hmono ch sA1 (by rw [hua]; exact hf1)
    have hrec := flush_records hA.i1.invA.1 e hd1
    refine ⟨v, hv, hlv, sA', hf', ?_⟩
    rintro ⟨id, u'⟩ hx
    obtain ⟨hinv', -⟩ := hinvv.chans ch sA' hf'
    have hfind' : SMap.find? sA'.unacked id = some u' := SI.mem_find?_of_sorted hinv'.sorted hx
    obtain ⟨u1, hfind1, hkin1⟩ := hm'.2.2 id u' hfind'
    rcases hsim.find id with ⟨-, h2⟩ | ⟨u0, u1', hfind0, h2, hsim0⟩
    · rw [hfind1] at h2; cases h2
    · rw [hfind1] at h2; cases h2
      have hmem0' := SI.find?_some_mem hfind0
      rw [hun] at hmem0'
      refine (List.mem_append.mp hmem0').elim (fun hmem0 => False.elim ?_) (fun h => ⟨u0, h⟩)
      -- the effect of the ack on a packet of the flush
      have effOf : ∀ p ∈ flushPk s.a, isRel p = true → ∀ info, Conn.sentInfoOf p = .ok info → Eff v.a info := by
        intro p hp hrel info hinfo
        obtain ⟨info', hi', hfs⟩ := hrec p hp
        rw [hinfo] at hi'; cases hi'
        exact heff p.sequence _ info (SI.Acks.mem_iff_exists.mpr (hpend p hp hrel)) (by rw [hua]; exact hfs)
      cases u0 with
      | small m ls =>
        obtain ⟨sq, msgs, hp, hin⟩ := hsm id m ls hmem0
        obtain ⟨s2, hs2, hgone⟩ := effOf _ hp rfl (.relMsgs ch (msgs.map (·.1))) rfl
        rw [hf'] at hs2; cases hs2
        have := hgone id (List.mem_map.mpr ⟨(id, m), hin, rfl⟩)
        rw [hfind'] at this; cases this
      | sliced m n k nx ak ls =>
        cases u1 with
        | small _ _ => exact hsim0.elim
        | sliced m1 n1 k1 nx1 ak1 ls1 =>
          obtain ⟨rfl, rfl, rfl, rfl, -⟩ := hsim0
          cases u' with
          | small _ _ => exact hkin1.elim
          | sliced m2 n2 k2 nx2 a2 ls2 =>
            obtain ⟨rfl, rfl⟩ := hkin1
            obtain ⟨-, -, o3, -, o5, o6⟩ := hinv'.find_ok hfind'
            obtain ⟨i, hi1, hi2⟩ := exists_not_true_of_count_lt a2 (by omega)
            have hfalse : a2[i]? = some false := by
              rw [List.getElem?_eq_getElem hi1] at hi2 ⊢
              cases hb : a2[i] with
              | false => rfl
              | true => rw [hb] at hi2; exact absurd rfl hi2
            have hpendI : sA'.Pending id i := ⟨_, _, _, _, _, _, hfind', hfalse⟩
            have hin : i < n := by omega
            cases hak : ak.getD i false with
            | false =>
              obtain ⟨sq, hp⟩ := hsl id m n k nx ak ls hmem0 i hin hak
              obtain ⟨s2, hs2, hnp⟩ := effOf _ hp rfl (.relSlice ch id i) rfl
              rw [hf'] at hs2; cases hs2
              exact hnp hpendI
            | true =>
              obtain ⟨m3, n3, k3, nx3, a3, ls3, hf3, ha3⟩ := hm'.2.1 id i hpendI
              rw [hfind1] at hf3; cases hf3
              rw [List.getD_eq_getElem?_getD, ha3] at hak
              cases hak

/-- the whole backlog: nothing is left to retransmit -/
theorem acks_release_next_round (cfg : Cfg) (ops : List SysOp) (s : Sys) (hr : (Sys.init cfg).run ops = some s)
    (hc : CountersOK cfg s) (hcA : s.a.CountersOK) (hda : s.a.isDisconnected = false)
    (ch : Nat) (sA : SendRel) (hfA : SMap.find? s.a.sendRel ch = some sA)
    (H1 : AllDue s.a.now sA.resend sA.unacked) (H2 : backlog sA.unacked ≤ availAtTurn s.a ch)
    (ks : List Nat) (n : Nat) (u : Sys) (hu : s.run (roundOps ch ks n) = some u)
    (hdb : u.b.isDisconnected = false) (hcB : u.b.CountersOK) (hne : u.b.pendingAcks ≠ [])
    (hpend : ∀ p ∈ flushPk s.a, isRel p = true → ∃ r ∈ u.b.pendingAcks, r.1 ≤ p.sequence ∧ p.sequence < r.2) :
    ∃ v, u.run [.flushB, .deliverToA (ackIdx u)] = some v ∧ v.a.isDisconnected = false ∧
      ∃ sA', SMap.find? v.a.sendRel ch = some sA' ∧ sA'.unacked = [] := by
  obtain ⟨v, hv, hl, sA', hf', hall⟩ := acks_release_prefix cfg ops s hr hc hcA hda ch sA hfA sA.unacked [] (by simp)
    H1 H2 ks n u hu hdb hcB hne hpend
  refine ⟨v, hv, hl, sA', hf', ?_⟩
  rw [List.eq_nil_iff_forall_not_mem]
  intro x hx
  obtain ⟨u0, h0⟩ := hall x hx
  cases h0

/-! ## Part 13 — B keeps the sequence numbers of the round in its pending-ack list -/

theorem capFront_len_le (cap : Nat) (l : List AckRange) : (Acks.capFront cap l).length ≤ l.length := by
  unfold Acks.capFront
  split
  · simp only [List.length_tail]; omega
  · exact Nat.le_refl _

theorem add_len_le (cap seq : Nat) (l : List AckRange) (h : Acks.WF l) : (Acks.add cap seq l).length ≤ l.length + 1 := by
  unfold Acks.add
  cases l with
  | nil => simp
  | cons r l =>
    simp only
    cases ha : Acks.addAux seq (r :: l) with
    | some l' =>
      have := (Acks.addAux_spec seq _ _ h ha).2.2.2
      have := capFront_len_le cap l'
      simp only []
      omega
    | none =>
      have := capFront_len_le cap (r :: l ++ [(seq, seq + 1)])
      simp only [] at this ⊢
      simp only [List.length_append, List.length_cons, List.length_nil] at this ⊢
      omega

/-- `acked_largest` only drops sequence numbers up to `largest` -/
theorem ackedLargest_keeps (largest : Nat) : ∀ (l : List AckRange) (x : Nat), largest < x → Acks.Mem x l →
    Acks.Mem x (Acks.ackedLargest largest l)
  | [], _, _, h => h
  | (s, e) :: rest, x, hx, h => by
    rw [Acks.mem_cons] at h
    simp only [Acks.ackedLargest]
    split
    · exact Acks.mem_cons.mpr h
    · split
      · rcases h with h | h
        · simp only at h; omega
        · exact ackedLargest_keeps largest rest x hx h
      · split
        · rcases h with h | h
          · simp only at h; omega
          · exact h
        · rcases h with h | h
          · simp only at h
            exact Acks.mem_cons.mpr (Or.inl ⟨by simp only; omega, h.2⟩)
          · exact Acks.mem_cons.mpr (Or.inr h)

/-- the ack loop keeps a pending sequence number that lies above every `largest` it may apply -/
theorem ackLoop_keeps_pending (x : Nat) : ∀ (L : List Nat) (c c' : Conn), c.SendInv →
    (∀ seq t largest, SMap.find? c.sent seq = some (t, .ack largest) → largest < x) →
    Acks.Mem x c.pendingAcks → Conn.ackLoop c L = .ok c' → Acks.Mem x c'.pendingAcks
  | [], c, c', _, _, hm, h => by
    simp only [Conn.ackLoop, Res.ok.injEq] at h; subst h; exact hm
  | seq0 :: rest, c, c', hinv, hb, hm, h => by
    simp only [Conn.ackLoop] at h
    cases h1 : Conn.ackOne c seq0 with
    | ok c1 =>
      rw [h1] at h; simp only [Res.bind_ok] at h
      have hex : ∃ t info, SMap.find? c.sent seq0 = some (t, info) := by
        unfold Conn.ackOne at h1
        split at h1
        · cases h1
        · next t info hf => exact ⟨t, info, hf⟩
      obtain ⟨t0, info0, hv0⟩ := hex
      obtain ⟨i1, s1, -, -⟩ := ackOne_forward hinv hv0 h1
      have hm1 : Acks.Mem x c1.pendingAcks := by
        unfold Conn.ackOne at h1
        rw [hv0] at h1
        dsimp only at h1
        cases info0 with
        | none => cases h1; exact hm
        | ack largest => cases h1; exact ackedLargest_keeps largest _ x (hb seq0 t0 largest hv0) hm
        | relMsgs ch ids =>
          dsimp only at h1
          split at h1
          · cases h1
          · cases h2 : Conn.ackMsgLoop _ ids with
            | ok s' => rw [h2] at h1; simp only [Res.bind_ok, Res.pure_eq, Res.ok.injEq] at h1; subst h1; exact hm
            | err e0 => exact e0.elim
            | panic m => rw [h2] at h1; cases h1
        | relSlice ch id idx =>
          dsimp only at h1
          split at h1
          · cases h1
          · next s hf =>
            cases h2 : s.processSliceAck id idx with
            | ok s' => rw [h2] at h1; simp only [Res.bind_ok, Res.pure_eq, Res.ok.injEq] at h1; subst h1; exact hm
            | err e0 => exact e0.elim
            | panic m => rw [h2] at h1; cases h1
      refine ackLoop_keeps_pending x rest c1 c' i1 ?_ hm1 h
      intro seq t largest hf
      rw [s1] at hf
      exact hb seq t largest (SI.find?_erase_some hinv.sentSorted hf).2
    | err e0 => exact e0.elim
    | panic m => rw [h1] at h; cases h

/-! ### the largest sequence number B ever claimed in an ack packet was a packet A had emitted before -/

def InvL (s : Sys) : Prop :=
  s.b.isDisconnected = false → ∀ seq t largest, SMap.find? s.b.sent seq = some (t, SentInfo.ack largest) → largest < s.a.packetSeq

theorem invL_init (cfg : Cfg) : InvL (Sys.init cfg) := by
  intro _ seq t largest hf
  simp [Sys.init, Conn.fromChannels] at hf

theorem invL_step {cfg : Cfg} {s s' : Sys} {pkA : List Packet} {op : SysOp} (h1 : Inv1 cfg s pkA) (hR : InvR cfg s pkA)
    (hL : InvL s) (hs : s.step op = some s') : InvL s' := by
  cases op with
  | sendA ch m =>
    simp only [Sys.step] at hs
    split at hs
    · next a' hm =>
      cases hs
      intro hl seq t lg hf
      dsimp only at hl hf ⊢
      rw [sendMessage_packetSeq hm]; exact hL hl seq t lg hf
    · cases hs
  | updA dt =>
    simp only [Sys.step] at hs
    split at hs
    · next a' hm =>
      cases hs
      intro hl seq t lg hf
      dsimp only at hl hf ⊢
      rw [(SI.Conn.update_spec hm).2.2.1]; exact hL hl seq t lg hf
    · cases hs
  | flushA =>
    simp only [Sys.step] at hs
    split at hs
    · next a' bs hm =>
      cases hs
      intro hl seq t lg hf
      dsimp only at hl hf ⊢
      exact Nat.lt_of_lt_of_le (hL hl seq t lg hf) (flush_facts h1.invA.1 hm).2.2.2.1
    · cases hs
  | deliverToA k =>
    simp only [Sys.step] at hs
    split at hs
    · cases hs
    · split at hs
      · next a' hm =>
        cases hs
        intro hl seq t lg hf
        dsimp only at hl hf ⊢
        rw [processPacket_packetSeq h1.invA.1 hm]; exact hL hl seq t lg hf
      · cases hs
  | recvB ch =>
    simp only [Sys.step] at hs
    have key : ∀ b' (m : Option Bytes), s.b.receiveMessage ch = .ok (b', m) → b'.isDisconnected = false →
        ∀ seq t lg, SMap.find? b'.sent seq = some (t, SentInfo.ack lg) → lg < s.a.packetSeq := by
      intro b' m hm hl seq t lg hf
      have hsame := (SI.Conn.receiveMessage_same hm).1
      rw [hsame.2.2.1] at hf
      refine hL ?_ seq t lg hf
      rcases receiveMessage_cases hm with ⟨hd, rfl, -⟩ | ⟨hd, -⟩ | ⟨hd, -⟩
      · exact hl
      · exact hd
      · exact hd
    split at hs
    · next b' m hm => cases hs; exact fun hl => key b' _ hm hl
    · next b' hm => cases hs; exact fun hl => key b' _ hm hl
    · cases hs
  | updB dt =>
    simp only [Sys.step] at hs
    split at hs
    · next b' hm =>
      cases hs
      intro hl seq t lg hf
      dsimp only at hl hf ⊢
      obtain ⟨-, e2⟩ := update_recv hm
      have e6 := (SI.Conn.update_spec hm).2.2.2.2.2
      have hsub := List.dropWhile_sublist (l := s.b.sent) (fun (_, (t, _)) => s.b.now + dt - t ≥ DISCARD_AFTER_NS)
      have hmem : (seq, (t, SentInfo.ack lg)) ∈ s.b.sent := by
        apply hsub.subset
        rw [← e6]; exact SI.find?_some_mem hf
      exact hL (by rw [← isDisconnected_congr e2]; exact hl) seq t lg (SI.mem_find?_of_sorted h1.invB.1.sentSorted hmem)
    · cases hs
  | deliverToB k =>
    simp only [Sys.step] at hs
    split at hs
    · cases hs
    · split at hs
      · next b' hm =>
        cases hs
        intro hl seq t lg hf
        dsimp only at hl hf ⊢
        obtain ⟨p1, p2⟩ := processPacket_sent h1.invB.1 hm
        exact hL (p2 hl) seq t lg (p1 _ _ hf)
      · cases hs
  | flushB =>
    simp only [Sys.step] at hs
    split at hs
    · next b' bs hm =>
      cases hs
      intro hl seq t lg hf
      dsimp only at hl hf ⊢
      have hlive : s.b.isDisconnected = false := (flush_facts h1.invB.1 hm).2.2.2.2.2.2 hl
      rcases flush_sent h1.invB.1 hm hl seq t _ hf with hold | ⟨p, hp, hps, hpi⟩
      · exact hL hlive seq t lg hold
      · -- a new entry: the ack packet of this flush
        cases p with
        | smallReliable _ _ _ => simp only [Conn.sentInfoOf, Res.ok.injEq] at hpi; cases hpi
        | reliableSlice _ _ _ => simp only [Conn.sentInfoOf, Res.ok.injEq] at hpi; cases hpi
        | smallUnreliable _ _ _ => simp only [Conn.sentInfoOf, Res.ok.injEq] at hpi; cases hpi
        | unreliableSlice _ _ _ => simp only [Conn.sentInfoOf, Res.ok.injEq] at hpi; cases hpi
        | ack sq ranges =>
          obtain ⟨sq', e'⟩ := flush_acks hm _ hp rfl
          cases e'
          simp only [Conn.sentInfoOf] at hpi
          split at hpi
          · cases hpi
          · next s0 e hlast =>
            unfold Res.csub at hpi
            split at hpi
            · next hge =>
              simp only [Res.bind_ok, Res.pure_eq, Res.ok.injEq, SentInfo.ack.injEq] at hpi
              subst hpi
              have hin := List.mem_of_getLast? hlast
              have hpos := SI.Acks.wf_pos h1.invB.2 _ hin
              simp only at hpos
              have hmem : Acks.Mem (e - 1) s.b.pendingAcks :=
                SI.Acks.mem_iff_exists.mpr ⟨(s0, e), hin, by simp only; omega, by simp only; omega⟩
              obtain ⟨k, hk, p, hpk, hsq⟩ := hR.ackB _ hmem
              have := h1.seqA.2 p (List.mem_of_getElem? hpk)
              omega
            · cases hpi
    · cases hs

theorem invL_run (cfg : Cfg) : ∀ (ops : List SysOp) (s s' : Sys) (pkA : List Packet), Inv1 cfg s pkA → InvR cfg s pkA →
    InvL s → s.run ops = some s' → InvL s'
  | [], s, s', _, _, _, hL, hr => by
    simp only [Sys.run, Option.some.injEq] at hr; subst hr; exact hL
  | op :: ops, s, s', pkA, h1, hR, hL, hr => by
    simp only [Sys.run] at hr
    cases hs : s.step op with
    | none => rw [hs] at hr; cases hr
    | some s1 =>
      rw [hs] at hr
      exact invL_run cfg ops s1 s' _ (inv1_step h1 hs) (invR_step h1 hR hs) (invL_step h1 hR hL hs) hr

theorem invL_reach (cfg : Cfg) (ops : List SysOp) (s : Sys) (hr : (Sys.init cfg).run ops = some s) : InvL s :=
  invL_run cfg ops _ s [] (inv1_init cfg) (invR_init cfg) (invL_init cfg) hr

/-! ### the delivery phase: every sequence number handed to a live B stays in its pending list -/

theorem deliver_step_pending {cfg : Cfg} {t t1 : Sys} {pk : List Packet} (h1 : Inv1 cfg t pk) {k lo : Nat}
    (hb : ∀ seq tt largest, SMap.find? t.b.sent seq = some (tt, SentInfo.ack largest) → largest < lo)
    (hcap : t.b.pendingAcks.length < ACK_RANGE_CAP) (hs : t.step (.deliverToB k) = some t1)
    (hl1 : t1.b.isDisconnected = false) :
    t1.b.pendingAcks.length ≤ t.b.pendingAcks.length + 1 ∧
    (∀ seq tt largest, SMap.find? t1.b.sent seq = some (tt, SentInfo.ack largest) → largest < lo) ∧
    (∀ x, lo ≤ x → Acks.Mem x t.b.pendingAcks → Acks.Mem x t1.b.pendingAcks) ∧
    (∀ p, pk[k]? = some p → lo ≤ p.sequence → Acks.Mem p.sequence t1.b.pendingAcks) := by
  simp only [Sys.step] at hs
  split at hs
  · cases hs
  · next bytes hbytes =>
    split at hs
    · next b' hm =>
      cases hs
      dsimp only at hl1 ⊢
      have hwf := h1.invB.2
      obtain ⟨p0, hp0, he⟩ := enc_lookup h1.encA hbytes
      obtain ⟨hsent, -⟩ := processPacket_sent h1.invB.1 hm
      have hb' : ∀ seq tt largest, SMap.find? b'.sent seq = some (tt, SentInfo.ack largest) → largest < lo :=
        fun seq tt lg hf => hb seq tt lg (hsent _ _ hf)
      rcases processPacket_recv h1.invB.1 hm with hdis | ⟨hd, p', hdec, -⟩
      · rw [hl1] at hdis; cases hdis
      · have hseq : p'.sequence = p0.sequence := (fromBytes_of_enc he hdec).1
        have hadd : ∀ x, Acks.Mem x (Acks.add ACK_RANGE_CAP p'.sequence t.b.pendingAcks) ↔
            (Acks.Mem x t.b.pendingAcks ∨ x = p'.sequence) := Acks.add_mem_iff _ _ _ hwf hcap
        have hlen := add_len_le ACK_RANGE_CAP p'.sequence t.b.pendingAcks hwf
        rcases SI.Conn.processPacket_cases hm with ⟨-, -, (hd1 | ⟨e, he1⟩)⟩ | ⟨p2, hdec2, -, -, hpa⟩ | ⟨aseq, ranges, L, -, hdec3, -, hloop⟩
        · rw [hd] at hd1; cases hd1
        · rw [hdec] at he1; cases he1
        · rw [hdec] at hdec2; cases hdec2
          rw [hpa]
          refine ⟨hlen, hb', fun x _ hx => (hadd x).mpr (Or.inl hx), ?_⟩
          intro p hp _
          rw [hp0] at hp; cases hp
          exact (hadd _).mpr (Or.inr hseq.symm)
        · rw [hdec] at hdec3; cases hdec3
          generalize hc0 : ({ t.b with pendingAcks := Acks.add ACK_RANGE_CAP aseq t.b.pendingAcks } : Conn) = c0 at hloop
          have hi0 : c0.SendInv := by rw [← hc0]; exact h1.invB.1.same ⟨rfl, rfl, rfl, rfl, rfl⟩
          have hs0 : c0.sent = t.b.sent := by rw [← hc0]
          have hp0' : c0.pendingAcks = Acks.add ACK_RANGE_CAP aseq t.b.pendingAcks := by rw [← hc0]
          have hkeep : ∀ x, lo ≤ x → Acks.Mem x c0.pendingAcks → Acks.Mem x b'.pendingAcks := by
            intro x hx hmx
            refine ackLoop_keeps_pending x L c0 b' hi0 ?_ hmx hloop
            intro seq tt lg hf
            rw [hs0] at hf
            exact Nat.lt_of_lt_of_le (hb seq tt lg hf) hx
          have hl := CI.ackLoop_acksLen L c0 b' hloop
          rw [hp0'] at hl hkeep
          have hseq' : aseq = p0.sequence := hseq
          have hadd' : ∀ x, Acks.Mem x (Acks.add ACK_RANGE_CAP aseq t.b.pendingAcks) ↔
              (Acks.Mem x t.b.pendingAcks ∨ x = aseq) := hadd
          have hlen' : (Acks.add ACK_RANGE_CAP aseq t.b.pendingAcks).length ≤ t.b.pendingAcks.length + 1 := hlen
          refine ⟨by omega, hb', fun x hx hmx => hkeep x hx ((hadd' x).mpr (Or.inl hmx)), ?_⟩
          intro p hp hlo
          rw [hp0] at hp; cases hp
          rw [← hseq']
          exact hkeep _ (by rw [hseq']; exact hlo) ((hadd' _).mpr (Or.inr rfl))
    · cases hs

theorem deliver_live_back (cfg : Cfg) : ∀ (ks : List Nat) (t t' : Sys) (pk : List Packet), Inv1 cfg t pk →
    t.run (ks.map SysOp.deliverToB) = some t' → t'.b.isDisconnected = false → t.b.isDisconnected = false
  | [], t, t', _, _, h, hl => by
    simp only [List.map_nil, Sys.run, Option.some.injEq] at h; subst h; exact hl
  | k :: ks, t, t', pk, h1, h, hl => by
    simp only [List.map_cons, Sys.run] at h
    cases hs : t.step (.deliverToB k) with
    | none => rw [hs] at h; cases h
    | some t1 =>
      rw [hs] at h
      have hl1 := deliver_live_back cfg ks t1 t' _ (inv1_step h1 hs) h hl
      simp only [Sys.step] at hs
      split at hs
      · cases hs
      · split at hs
        · next b' hm =>
          cases hs
          exact (processPacket_sent h1.invB.1 hm).2 hl1
        · cases hs

theorem deliver_pending (cfg : Cfg) (lo : Nat) : ∀ (ks : List Nat) (t t' : Sys) (pk : List Packet), Inv1 cfg t pk →
    (∀ seq tt largest, SMap.find? t.b.sent seq = some (tt, SentInfo.ack largest) → largest < lo) →
    t.b.pendingAcks.length + ks.length < ACK_RANGE_CAP → t.run (ks.map SysOp.deliverToB) = some t' →
    t'.b.isDisconnected = false →
    (∀ x, lo ≤ x → Acks.Mem x t.b.pendingAcks → Acks.Mem x t'.b.pendingAcks) ∧
    (∀ k ∈ ks, ∀ p, pk[k]? = some p → lo ≤ p.sequence → Acks.Mem p.sequence t'.b.pendingAcks)
  | [], t, t', _, _, _, _, h, _ => by
    simp only [List.map_nil, Sys.run, Option.some.injEq] at h; subst h
    exact ⟨fun _ _ hx => hx, fun _ hk => (by cases hk)⟩
  | k :: ks, t, t', pk, h1, hb, hcap, h, hl => by
    simp only [List.map_cons, Sys.run] at h
    cases hs : t.step (.deliverToB k) with
    | none => rw [hs] at h; cases h
    | some t1 =>
      rw [hs] at h
      have h11 : Inv1 cfg t1 pk := inv1_step h1 hs
      have hl1 := deliver_live_back cfg ks t1 t' _ h11 h hl
      simp only [List.length_cons] at hcap
      obtain ⟨a1, a2, a3, a4⟩ := deliver_step_pending h1 hb (by omega) hs hl1
      obtain ⟨b1, b2⟩ := deliver_pending cfg lo ks t1 t' pk h11 a2 (by omega) h hl
      refine ⟨fun x hx hm => b1 x hx (a3 x hx hm), ?_⟩
      intro k' hk' p hp hlo
      rcases List.mem_cons.mp hk' with rfl | hk'
      · exact b1 _ hlo (a4 p hp hlo)
      · exact b2 k' hk' p hp hlo

theorem recv_run_b (ch : Nat) : ∀ (n : Nat) (t u : Sys), t.run (List.replicate n (SysOp.recvB ch)) = some u →
    u.b.pendingAcks = t.b.pendingAcks ∧ u.b.isDisconnected = t.b.isDisconnected
  | 0, t, u, h => by simp only [List.replicate_zero, Sys.run, Option.some.injEq] at h; subst h; exact ⟨rfl, rfl⟩
  | n + 1, t, u, h => by
    simp only [List.replicate_succ, Sys.run] at h
    cases hs : t.step (.recvB ch) with
    | none => rw [hs] at h; cases h
    | some t1 =>
      rw [hs] at h
      obtain ⟨a1, a2⟩ := recv_run_b ch n t1 u h
      have key : ∀ b' (m : Option Bytes), t.b.receiveMessage ch = .ok (b', m) →
          b'.pendingAcks = t.b.pendingAcks ∧ b'.isDisconnected = t.b.isDisconnected := by
        intro b' m hm
        refine ⟨(SI.Conn.receiveMessage_same hm).2, ?_⟩
        rcases receiveMessage_cases hm with ⟨-, rfl, -⟩ | ⟨-, r, r', -, -, rfl⟩ | ⟨-, -, -, e⟩
        · rfl
        · rfl
        · exact isDisconnected_congr e
      simp only [Sys.step] at hs
      split at hs
      · next b' m hm => cases hs; obtain ⟨k1, k2⟩ := key b' _ hm; exact ⟨a1.trans k1, a2.trans k2⟩
      · next b' hm => cases hs; obtain ⟨k1, k2⟩ := key b' _ hm; exact ⟨a1.trans k1, a2.trans k2⟩
      · cases hs

/-- **No livelock of the budget by delivered messages (complete form, prefix version).**  A lossless round that
    covers the entries `pre` of channel `ch`'s backlog (H1, H2; `ks` = datagram indices including those of this
    flush), B still live afterwards and fewer than ACK_RANGE_CAP pending ack ranges in play; then after B's next flush
    and the delivery of its ack datagram, A's `unacked` on `ch` holds only entries of the uncovered rest `post`:
    what was delivered is not retransmitted and does not use up the budget of later ticks. -/
theorem acks_release_after_round (cfg : Cfg) (ops : List SysOp) (s : Sys) (hr : (Sys.init cfg).run ops = some s)
    (hc : CountersOK cfg s) (hcA : s.a.CountersOK) (hda : s.a.isDisconnected = false)
    (ch : Nat) (sA : SendRel) (hfA : SMap.find? s.a.sendRel ch = some sA)
    (pre post : SMap Unacked) (hun : sA.unacked = pre ++ post)
    (H1 : AllDue s.a.now sA.resend pre) (H2 : backlog pre ≤ availAtTurn s.a ch)
    (ks : List Nat) (hks1 : ∀ k ∈ newIdx s, k ∈ ks) (n : Nat) (u : Sys) (hu : s.run (roundOps ch ks n) = some u)
    (hdb : u.b.isDisconnected = false) (hcB : u.b.CountersOK) (hne : u.b.pendingAcks ≠ [])
    (hcap : s.b.pendingAcks.length + ks.length < ACK_RANGE_CAP) :
    ∃ v, u.run [.flushB, .deliverToA (ackIdx u)] = some v ∧ v.a.isDisconnected = false ∧
      ∃ sA', SMap.find? v.a.sendRel ch = some sA' ∧ ∀ x ∈ sA'.unacked, ∃ u0, (x.1, u0) ∈ post := by
  refine acks_release_prefix cfg ops s hr hc hcA hda ch sA hfA pre post hun H1 H2 ks n u hu hdb hcB hne ?_
  obtain ⟨pkA, h1, -, hR, -⟩ := system_inv cfg ops s hr
  have hL := invL_reach cfg ops s hr
  -- decompose the round
  have hu' := hu
  simp only [roundOps, Sys.run] at hu'
  cases hs1 : s.step .flushA with
  | none => rw [hs1] at hu'; cases hu'
  | some s1 =>
    rw [hs1] at hu'
    dsimp only at hu'
    rw [Sys.run_append] at hu'
    cases ht : s1.run (ks.map SysOp.deliverToB) with
    | none => rw [ht] at hu'; cases hu'
    | some t =>
      rw [ht] at hu'
      simp only [Option.bind_some] at hu'
      obtain ⟨r1, r2⟩ := recv_run_b ch n t u hu'
      have hlt : t.b.isDisconnected = false := by rw [← r2]; exact hdb
      have h11 : Inv1 cfg s1 (pkA ++ flushPk s.a) := inv1_step h1 hs1
      have hl1 : s1.b.isDisconnected = false := deliver_live_back cfg ks s1 t _ h11 ht hlt
      have hsb : s1.b = s.b ∧ s1.a.packetSeq ≥ s.a.packetSeq := by
        simp only [Sys.step] at hs1
        split at hs1
        · next a' bs hm => cases hs1; exact ⟨rfl, (flush_facts h1.invA.1 hm).2.2.2.1⟩
        · cases hs1
      have hbound : ∀ seq tt largest, SMap.find? s1.b.sent seq = some (tt, SentInfo.ack largest) → largest < s.a.packetSeq := by
        rw [hsb.1]
        exact hL (by rw [← hsb.1]; exact hl1)
      obtain ⟨-, hnew⟩ := deliver_pending cfg s.a.packetSeq ks s1 t _ h11 hbound (by rw [hsb.1]; exact hcap) ht hlt
      intro p hp _
      obtain ⟨i, hi⟩ := List.mem_iff_getElem?.mp hp
      have hil : i < (flushPk s.a).length := (List.getElem?_eq_some_iff.mp hi).1
      have hk : pkA.length + i ∈ ks := by
        apply hks1
        unfold newIdx
        rw [List.mem_range'_1, pk_len h1]; omega
      have hpk : (pkA ++ flushPk s.a)[pkA.length + i]? = some p := by
        rw [List.getElem?_append_right (by omega)]
        have : pkA.length + i - pkA.length = i := by omega
        rw [this]; exact hi
      have hlo : s.a.packetSeq ≤ p.sequence := by
        simp only [Sys.step] at hs1
        split at hs1
        · next a' bs hm => exact ((flush_facts h1.invA.1 hm).2.2.1 p hp).1
        · cases hs1
      have := hnew _ hk p hpk hlo
      rw [← r1] at this
      exact SI.Acks.mem_iff_exists.mp this

/-- the whole backlog: afterwards A has nothing left to retransmit on `ch` -/
theorem acks_release_after_round_all (cfg : Cfg) (ops : List SysOp) (s : Sys) (hr : (Sys.init cfg).run ops = some s)
    (hc : CountersOK cfg s) (hcA : s.a.CountersOK) (hda : s.a.isDisconnected = false)
    (ch : Nat) (sA : SendRel) (hfA : SMap.find? s.a.sendRel ch = some sA)
    (H1 : AllDue s.a.now sA.resend sA.unacked) (H2 : backlog sA.unacked ≤ availAtTurn s.a ch)
    (ks : List Nat) (hks1 : ∀ k ∈ newIdx s, k ∈ ks) (n : Nat) (u : Sys) (hu : s.run (roundOps ch ks n) = some u)
    (hdb : u.b.isDisconnected = false) (hcB : u.b.CountersOK) (hne : u.b.pendingAcks ≠ [])
    (hcap : s.b.pendingAcks.length + ks.length < ACK_RANGE_CAP) :
    ∃ v, u.run [.flushB, .deliverToA (ackIdx u)] = some v ∧ v.a.isDisconnected = false ∧
      ∃ sA', SMap.find? v.a.sendRel ch = some sA' ∧ sA'.unacked = [] := by
  obtain ⟨v, hv, hl, sA', hf', hall⟩ := acks_release_after_round cfg ops s hr hc hcA hda ch sA hfA sA.unacked [] (by simp)
    H1 H2 ks hks1 n u hu hdb hcB hne hcap
  refine ⟨v, hv, hl, sA', hf', ?_⟩
  rw [List.eq_nil_iff_forall_not_mem]
  intro x hx
  obtain ⟨u0, h0⟩ := hall x hx
  cases h0

end RenetVerif.Live
