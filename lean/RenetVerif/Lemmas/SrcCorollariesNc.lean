/-
  Transfer lemmas for `Props/SrcPropsNcServer.lean` / `Props/SrcPropsNcClient.lean`: the netcode property theorems (C04, C05,
  C07, C10, C17, C18, C19; proved over the hand-written model `Netcode/Server.lean`, `Netcode/Client.lean`) carried to
  statements about the GENERATED `Src.renetcode.server.NetcodeServer` / `Src.renetcode.client.NetcodeClient` functions
  (the Lean text the translator derives from the current `renetcode/src/{server,client}.rs`).

  * `SrvRepr g s` / `CliRepr g c`: the generated state `g` is the image of the model state (`reprNS g.out s` /
    `reprNC g.out c`) and its scratch buffer `out` has `NETCODE_MAX_PACKET_BYTES` entries.
  * inputs are intrinsic: `BytesOk` byte lists (entries `< 256`), `AddrOk` socket addresses (octets `< 256`, IPv6 flow
    info / scope id 0 — the model does not have them).
  * for each tied function a `*_tie` lemma: "model returns `ok` and the generated function returns the image, or both
    panic" (`process_packet`, `update_client`, `disconnect`, `update`, `generate_payload_packet`; client
    `process_packet`, `update_internal_state`, `update`, `generate_payload_packet`), from the `SrcTie` theorems.
  * images of results / lookups: what `reprNSR r = .Payload …` says about `r`, the finders on `g.clients`, pending entries.
-/
import RenetVerif.Props.SrcTieNcServerQuery
import RenetVerif.Props.SrcTieNcServerSend
import RenetVerif.Props.SrcTieNcServerRecv
import RenetVerif.Props.SrcTieNcClient
import RenetVerif.Props.SrcTieNcCodec
import RenetVerif.Lemmas.SrcCorollaries
import RenetVerif.Lemmas.NcTablePP
import RenetVerif.Lemmas.NcWire
import RenetVerif.Lemmas.NcExamples
set_option maxRecDepth 10000
namespace RenetVerif.SrcCorNc
open RenetVerif RenetVerif.SrcEquiv RenetVerif.SrcTie RenetVerif.SrcCor RenetVerif.RustSem RenetVerif.Netcode
open Src.renetcode.server

/-! ### inputs: bytes and addresses, intrinsically -/

/-- a `SocketAddr` of the generated code that the model can name: octets are bytes; IPv6 flow info and scope id are 0 -/
def AddrOk : RustSem.SocketAddr → Prop
  | .v4 ip _ => BytesOk ip
  | .v6 ip _ fl sc => BytesOk ip ∧ fl = 0 ∧ sc = 0

/-- the model address of a well-formed generated one -/
def absAddr : RustSem.SocketAddr → Addr
  | .v4 ip port => .v4 (ofNats ip) port
  | .v6 ip port _ _ => .v6 (ofNats ip) port

theorem reprAddr_absAddr {ga : RustSem.SocketAddr} (h : AddrOk ga) : reprAddr (absAddr ga) = ga := by
  cases ga with
  | v4 ip port => simp only [absAddr, reprAddr, toNats_ofNats (show BytesOk ip from h)]
  | v6 ip port fl sc =>
    obtain ⟨h1, rfl, rfl⟩ := h
    simp only [absAddr, reprAddr, toNats_ofNats h1]

theorem addrOk_reprAddr (addr : Addr) : AddrOk (reprAddr addr) := by
  cases addr with
  | v4 ip port => exact bytesOk_toNats ip
  | v6 ip port => exact ⟨bytesOk_toNats ip, rfl, rfl⟩

theorem addrOk_iff (ga : RustSem.SocketAddr) : AddrOk ga ↔ ∃ addr, ga = reprAddr addr :=
  ⟨fun h => ⟨absAddr ga, (reprAddr_absAddr h).symm⟩, fun ⟨addr, e⟩ => e ▸ addrOk_reprAddr addr⟩

theorem bytesOk_iff (l : List Nat) : BytesOk l ↔ ∃ b : Bytes, l = toNats b :=
  ⟨fun h => ⟨ofNats l, (toNats_ofNats h).symm⟩, fun ⟨b, e⟩ => e ▸ bytesOk_toNats b⟩

/-! ### states -/

/-- the generated server `g` is the image of the model server `s`, with a scratch buffer of the right length -/
def SrvRepr (g : SNetcodeServer) (s : Netcode.NetcodeServer) : Prop :=
  g.out.length = C.NETCODE_MAX_PACKET_BYTES ∧ g = reprNS g.out s

theorem srvRepr_mk {out : List Nat} (hout : out.length = C.NETCODE_MAX_PACKET_BYTES) (s : Netcode.NetcodeServer) :
    SrvRepr (reprNS out s) s := ⟨hout, rfl⟩

theorem SrvRepr.clients {g : SNetcodeServer} {s : Netcode.NetcodeServer} (h : SrvRepr g s) :
    g.clients = s.clients.map (Option.map reprNConn) := by rw [h.2]; rfl
theorem SrvRepr.pending {g : SNetcodeServer} {s : Netcode.NetcodeServer} (h : SrvRepr g s) :
    g.pending_clients = s.pendingClients.map (fun p => (reprAddr p.1, reprNConn p.2)) := by rw [h.2]; rfl
theorem SrvRepr.entries {g : SNetcodeServer} {s : Netcode.NetcodeServer} (h : SrvRepr g s) :
    g.connect_token_entries = s.connectTokenEntries.map (Option.map reprEntry) := by rw [h.2]; rfl
theorem SrvRepr.protocol_id {g : SNetcodeServer} {s : Netcode.NetcodeServer} (h : SrvRepr g s) :
    g.protocol_id = s.protocolId := by rw [h.2]; rfl
theorem SrvRepr.current_time {g : SNetcodeServer} {s : Netcode.NetcodeServer} (h : SrvRepr g s) :
    g.current_time = s.currentTime := by rw [h.2]; rfl
theorem SrvRepr.global_sequence {g : SNetcodeServer} {s : Netcode.NetcodeServer} (h : SrvRepr g s) :
    g.global_sequence = s.globalSequence := by rw [h.2]; rfl
theorem SrvRepr.challenge_sequence {g : SNetcodeServer} {s : Netcode.NetcodeServer} (h : SrvRepr g s) :
    g.challenge_sequence = s.challengeSequence := by rw [h.2]; rfl
theorem SrvRepr.challenge_key {g : SNetcodeServer} {s : Netcode.NetcodeServer} (h : SrvRepr g s) :
    g.challenge_key = toNats s.challengeKey := by rw [h.2]; rfl
theorem SrvRepr.connect_key {g : SNetcodeServer} {s : Netcode.NetcodeServer} (h : SrvRepr g s) :
    g.connect_key = toNats s.connectKey := by rw [h.2]; rfl
theorem SrvRepr.max_clients {g : SNetcodeServer} {s : Netcode.NetcodeServer} (h : SrvRepr g s) :
    g.max_clients = s.maxClients := by rw [h.2]; rfl
theorem SrvRepr.entries_pos {g : SNetcodeServer} {s : Netcode.NetcodeServer} (h : SrvRepr g s) :
    0 < g.connect_token_entries.length ↔ 0 < s.connectTokenEntries.length := by rw [h.entries, List.length_map]

/-- a generated server state the model can name (every byte list holds bytes, addresses are `AddrOk`, replay windows have
    256 entries, the scratch buffer has `NETCODE_MAX_PACKET_BYTES` entries) -/
def WfS (g : SNetcodeServer) : Prop := ∃ s, SrvRepr g s

/-! ### connections and results -/

/-- slot `i` of the generated table holds the image of what slot `i` of the model table holds -/
theorem slot_of_repr {g : SNetcodeServer} {s : Netcode.NetcodeServer} (h : SrvRepr g s) {i : Nat} {gc : SConnection}
    (hi : g.clients[i]? = some (some gc)) : ∃ c, s.clients[i]? = some (some c) ∧ gc = reprNConn c := by
  rw [h.clients, List.getElem?_map] at hi
  cases hs : s.clients[i]? with
  | none => rw [hs] at hi; cases hi
  | some oc =>
    rw [hs] at hi
    cases oc with
    | none => cases hi
    | some c => exact ⟨c, rfl, by simpa using hi.symm⟩

theorem slot_to_repr {g : SNetcodeServer} {s : Netcode.NetcodeServer} (h : SrvRepr g s) {i : Nat} {c : Netcode.Connection}
    (hi : s.clients[i]? = some (some c)) : g.clients[i]? = some (some (reprNConn c)) := by
  rw [h.clients, List.getElem?_map, hi]; rfl

theorem reprNSR_none {r : Netcode.ServerResult} (h : reprNSR r = .None) : r = .none := by
  cases r <;> simp [reprNSR] at h ⊢
theorem reprNSR_packetToSend {r : Netcode.ServerResult} {ga : RustSem.SocketAddr} {o : List Nat}
    (h : reprNSR r = .PacketToSend ga o) : ∃ addr p, r = .packetToSend addr p ∧ ga = reprAddr addr ∧ o = toNats p := by
  cases r <;> simp [reprNSR] at h
  exact ⟨_, _, rfl, h.1.symm, h.2.symm⟩
theorem reprNSR_payload {r : Netcode.ServerResult} {id : Nat} {o : List Nat}
    (h : reprNSR r = .Payload id o) : ∃ p, r = .payload id p ∧ o = toNats p := by
  cases r <;> simp [reprNSR] at h
  obtain ⟨rfl, h2⟩ := h
  exact ⟨_, rfl, h2.symm⟩
theorem reprNSR_clientConnected {r : Netcode.ServerResult} {id : Nat} {ga : RustSem.SocketAddr} {ud o : List Nat}
    (h : reprNSR r = .ClientConnected id ga ud o) :
    ∃ addr u p, r = .clientConnected id addr u p ∧ ga = reprAddr addr ∧ ud = toNats u ∧ o = toNats p := by
  cases r <;> simp [reprNSR] at h
  obtain ⟨rfl, h2, h3, h4⟩ := h
  exact ⟨_, _, _, rfl, h2.symm, h3.symm, h4.symm⟩
theorem reprNSR_clientDisconnected {r : Netcode.ServerResult} {id : Nat} {ga : RustSem.SocketAddr} {o : Option (List Nat)}
    (h : reprNSR r = .ClientDisconnected id ga o) :
    ∃ addr p, r = .clientDisconnected id addr p ∧ ga = reprAddr addr ∧ o = p.map toNats := by
  cases r <;> simp [reprNSR] at h
  obtain ⟨rfl, h2, h3⟩ := h
  exact ⟨_, _, rfl, h2.symm, h3.symm⟩

/-! ### lookups on the generated state -/

theorem find_by_addr_none {ε : Type} {g : SNetcodeServer} {s : Netcode.NetcodeServer} (h : SrvRepr g s) {addr : Addr} :
    (find_client_mut_by_addr g.clients (reprAddr addr) : Res ε _) = .ok none ↔ findClientByAddr s.clients addr = none := by
  rw [h.clients, nc_find_client_mut_by_addr]
  cases findClientByAddr s.clients addr <;> simp

theorem find_by_addr_some {ε : Type} {g : SNetcodeServer} {s : Netcode.NetcodeServer} (h : SrvRepr g s) {addr : Addr} {i : Nat}
    (hf : (find_client_mut_by_addr g.clients (reprAddr addr) : Res ε _) = .ok (some i)) :
    ∃ c, findClientByAddr s.clients addr = some (i, c) := by
  rw [h.clients, nc_find_client_mut_by_addr] at hf
  cases hm : findClientByAddr s.clients addr with
  | none => rw [hm] at hf; cases hf
  | some x =>
    obtain ⟨j, c⟩ := x
    rw [hm] at hf
    simp only [Option.map_some, Res.ok.injEq, Option.some.injEq] at hf
    subst hf; exact ⟨c, rfl⟩

theorem find_slot_by_id {ε : Type} {g : SNetcodeServer} {s : Netcode.NetcodeServer} (h : SrvRepr g s) (id : Nat) :
    (find_client_mut_by_id g.clients id : Res ε _) = .ok (findClientSlotById s.clients id) := by
  rw [h.clients, nc_find_client_mut_by_id]

/-- the pending entry of an address: `HashMap::get` on the generated side is the image of `pendingFind` -/
theorem SrvRepr.pendingFind {g : SNetcodeServer} {s : Netcode.NetcodeServer} (h : SrvRepr g s) (addr : Addr) :
    RustSem.AMap.find? g.pending_clients (reprAddr addr) = (Netcode.pendingFind s.pendingClients addr).map reprNConn := by
  rw [h.pending]; exact amap_find addr s.pendingClients

/-! ### the ties, in the shape the property files use -/

/-- outcome pair: model `ok` with generated image, or both panic -/
theorem process_packet_tie {ε : Type} (a : AEAD) (hl : a.Laws) {g : SNetcodeServer} {s : Netcode.NetcodeServer}
    (hr : SrvRepr g s) (hent : 0 < s.connectTokenEntries.length) (addr : Addr) (buf : Bytes)
    (hbl : buf.length + 16 < 2 ^ 64) :
    (∃ r s' g' buf', s.processPacket a addr buf = .ok (r, s') ∧ SrvRepr g' s' ∧
        @NetcodeServer.process_packet (aeadOf a) ε g (reprAddr addr) (toNats buf) = .ok (g', buf', reprNSR r)) ∨
    ((∃ m, s.processPacket a addr buf = .panic m) ∧
      ∃ m, @NetcodeServer.process_packet (aeadOf a) ε g (reprAddr addr) (toNats buf) = .panic m) := by
  have t := nc_server_process_packet (ε := ε) a hl g.out hr.1 s hent addr buf hbl
  rw [← hr.2] at t
  cases hm : s.processPacket a addr buf with
  | ok v =>
    obtain ⟨r, s'⟩ := v
    rw [hm] at t
    obtain ⟨out', buf', hol, hg⟩ := t
    exact .inl ⟨r, s', _, buf', rfl, srvRepr_mk hol s', hg⟩
  | err e => exact e.elim
  | panic m =>
    rw [hm] at t
    exact .inr ⟨⟨m, rfl⟩, t⟩

theorem update_client_tie {ε : Type} (a : AEAD) (hl : a.Laws) {g : SNetcodeServer} {s : Netcode.NetcodeServer}
    (hr : SrvRepr g s) (hto : ∀ c, some c ∈ s.clients → c.timeoutSeconds < 2 ^ 31) (id : Nat) :
    (∃ r s' g', s.updateClient a id = .ok (r, s') ∧ SrvRepr g' s' ∧
        @NetcodeServer.update_client (aeadOf a) ε g id = .ok (g', reprNSR r)) ∨
    ((∃ m, s.updateClient a id = .panic m) ∧ ∃ m, @NetcodeServer.update_client (aeadOf a) ε g id = .panic m) := by
  have t := nc_server_update_client (ε := ε) a hl g.out hr.1 s hto id
  rw [← hr.2] at t
  cases hm : s.updateClient a id with
  | ok v =>
    obtain ⟨r, s'⟩ := v
    rw [hm] at t
    obtain ⟨out', hol, hg⟩ := t
    exact .inl ⟨r, s', _, rfl, srvRepr_mk hol s', hg⟩
  | err e => exact e.elim
  | panic m => rw [hm] at t; exact .inr ⟨⟨m, rfl⟩, t⟩

theorem disconnect_tie {ε : Type} (a : AEAD) (hl : a.Laws) {g : SNetcodeServer} {s : Netcode.NetcodeServer}
    (hr : SrvRepr g s) (id : Nat) :
    (∃ r s' g', s.disconnect a id = .ok (r, s') ∧ SrvRepr g' s' ∧
        @Src.renetcode.server.NetcodeServer.disconnect (aeadOf a) ε g id = .ok (g', reprNSR r)) ∨
    ((∃ m, s.disconnect a id = .panic m) ∧
      ∃ m, @Src.renetcode.server.NetcodeServer.disconnect (aeadOf a) ε g id = .panic m) := by
  have t := nc_server_disconnect (ε := ε) a hl g.out hr.1 s id
  rw [← hr.2] at t
  cases hm : s.disconnect a id with
  | ok v =>
    obtain ⟨r, s'⟩ := v
    rw [hm] at t
    obtain ⟨out', hol, hg⟩ := t
    exact .inl ⟨r, s', _, rfl, srvRepr_mk hol s', hg⟩
  | err e => exact e.elim
  | panic m => rw [hm] at t; exact .inr ⟨⟨m, rfl⟩, t⟩

theorem update_tie {ε : Type} {g : SNetcodeServer} {s : Netcode.NetcodeServer} (hr : SrvRepr g s)
    (hst : ∀ p ∈ s.pendingClients, p.2.state ≠ .disconnected) (dt : Nat) :
    (∃ s' g', s.update dt = .ok s' ∧ SrvRepr g' s' ∧
        (Src.renetcode.server.NetcodeServer.update g dt : Res ε _) = .ok (g', ())) ∨
    ((∃ m, s.update dt = .panic m) ∧ ∃ m, (Src.renetcode.server.NetcodeServer.update g dt : Res ε _) = .panic m) := by
  have t := nc_server_update (ε := ε) g.out s dt hst
  rw [← hr.2] at t
  cases hm : s.update dt with
  | ok s' =>
    rw [hm] at t
    exact .inl ⟨s', _, rfl, srvRepr_mk hr.1 s', sameOutcome_ok t⟩
  | err e => exact e.elim
  | panic m =>
    rw [hm] at t
    exact .inr ⟨⟨m, rfl⟩, so_panic t⟩

theorem generate_payload_tie (a : AEAD) (hl : a.Laws) {g : SNetcodeServer} {s : Netcode.NetcodeServer}
    (hr : SrvRepr g s) (id : Nat) (payload : Bytes) :
    (∃ addr out s' g', s.generatePayloadPacket a id payload = .ok ((addr, out), s') ∧ SrvRepr g' s' ∧
        @NetcodeServer.generate_payload_packet (aeadOf a) g id (toNats payload) = .ok (g', (reprAddr addr, toNats out))) ∨
    (∃ e g', s.generatePayloadPacket a id payload = .err e ∧ SrvRepr g' s ∧
        @NetcodeServer.generate_payload_packet (aeadOf a) g id (toNats payload) = .err (reprNErr e, g')) ∨
    ((∃ m, s.generatePayloadPacket a id payload = .panic m) ∧
      ∃ m, @NetcodeServer.generate_payload_packet (aeadOf a) g id (toNats payload) = .panic m) := by
  have t := nc_server_generate_payload_packet a hl g.out hr.1 s id payload
  rw [← hr.2] at t
  cases hm : s.generatePayloadPacket a id payload with
  | ok v =>
    obtain ⟨⟨addr, out⟩, s'⟩ := v
    rw [hm] at t
    obtain ⟨out', hol, hg⟩ := t
    exact .inl ⟨addr, out, s', _, rfl, srvRepr_mk hol s', hg⟩
  | err e =>
    rw [hm] at t
    obtain ⟨out', hol, hg⟩ := t
    exact .inr (.inl ⟨e, _, rfl, srvRepr_mk hol s, hg⟩)
  | panic m => rw [hm] at t; exact .inr (.inr ⟨⟨m, rfl⟩, t⟩)

/-! ### `Packet::decode` / `ChallengeToken::decode` results, pulled back to the model and pushed forward -/

abbrev SDecRes := Res (SNErr × (List Nat × Option Src.renetcode.replay_protection.ReplayProtection))
  (List Nat × Option Src.renetcode.replay_protection.ReplayProtection × (Nat × SNcPacket))

/-- the generated `Packet::decode` on images -/
abbrev gDecode (a : AEAD) (buf : Bytes) (pid : Nat) (key : Option Bytes) (rp : Option RP) : SDecRes :=
  @Src.renetcode.packet.Packet.decode (aeadOf a) (toNats buf) pid (key.map toNats) (rp.map reprRP)

theorem decode_pull_ok (a : AEAD) (hl : a.Laws) (buf : Bytes) (hbl : buf.length + 16 < 2 ^ 64) (pid : Nat)
    (key : Option Bytes) (rp : Option RP) {buf' : List Nat} {grp : Option Src.renetcode.replay_protection.ReplayProtection}
    {sq : Nat} {gp : SNcPacket} (h : gDecode a buf pid key rp = .ok (buf', grp, (sq, gp))) :
    ∃ p rp', Netcode.Packet.decode a buf pid key rp = (.ok (sq, p), rp') ∧ gp = reprNP p ∧ grp = rp'.map reprRP := by
  have t := nc_packet_decode a hl buf hbl pid key rp
  generalize Netcode.Packet.decode a buf pid key rp = D at t
  obtain ⟨m1, m2⟩ := D
  unfold DecOut at t
  dsimp only at t
  cases m1 with
  | ok v =>
    obtain ⟨sq', p⟩ := v
    dsimp only at t
    obtain ⟨b, hg⟩ := t
    rw [gDecode, hg] at h
    simp only [Res.ok.injEq, Prod.mk.injEq] at h
    obtain ⟨_, h2, h3, h4⟩ := h
    subst h3
    exact ⟨p, m2, rfl, h4.symm, h2.symm⟩
  | err e => dsimp only at t; obtain ⟨b, hg⟩ := t; rw [gDecode, hg] at h; cases h
  | panic m => dsimp only at t; obtain ⟨msg, hg⟩ := t; rw [gDecode, hg] at h; cases h

theorem decode_pull_err (a : AEAD) (hl : a.Laws) (buf : Bytes) (hbl : buf.length + 16 < 2 ^ 64) (pid : Nat)
    (key : Option Bytes) (rp : Option RP) {ge : SNErr} {st : List Nat × Option Src.renetcode.replay_protection.ReplayProtection}
    (h : gDecode a buf pid key rp = .err (ge, st)) :
    ∃ e rp', Netcode.Packet.decode a buf pid key rp = (.err e, rp') ∧ ge = reprNErr e ∧ st.2 = rp'.map reprRP := by
  have t := nc_packet_decode a hl buf hbl pid key rp
  generalize Netcode.Packet.decode a buf pid key rp = D at t
  obtain ⟨m1, m2⟩ := D
  unfold DecOut at t
  dsimp only at t
  cases m1 with
  | ok v => obtain ⟨sq', p⟩ := v; dsimp only at t; obtain ⟨b, hg⟩ := t; rw [gDecode, hg] at h; cases h
  | err e =>
    dsimp only at t
    obtain ⟨b, hg⟩ := t
    rw [gDecode, hg] at h
    simp only [Res.err.injEq, Prod.mk.injEq] at h
    obtain ⟨h1, h2⟩ := h
    exact ⟨e, m2, rfl, h1.symm, by rw [← h2]⟩
  | panic m => dsimp only at t; obtain ⟨msg, hg⟩ := t; rw [gDecode, hg] at h; cases h

theorem decode_push_ok (a : AEAD) (hl : a.Laws) (buf : Bytes) (hbl : buf.length + 16 < 2 ^ 64) (pid : Nat)
    (key : Option Bytes) (rp : Option RP) {sq : Nat} {p : Netcode.Packet} {rp' : Option RP}
    (h : Netcode.Packet.decode a buf pid key rp = (.ok (sq, p), rp')) :
    ∃ buf', gDecode a buf pid key rp = .ok (buf', rp'.map reprRP, (sq, reprNP p)) := by
  have t := nc_packet_decode a hl buf hbl pid key rp
  rw [h] at t
  exact t

theorem decode_push_err (a : AEAD) (hl : a.Laws) (buf : Bytes) (hbl : buf.length + 16 < 2 ^ 64) (pid : Nat)
    (key : Option Bytes) (rp : Option RP) {e : NetcodeError} {rp' : Option RP}
    (h : Netcode.Packet.decode a buf pid key rp = (.err e, rp')) :
    ∃ buf', gDecode a buf pid key rp = .err (reprNErr e, (buf', rp'.map reprRP)) := by
  have t := nc_packet_decode a hl buf hbl pid key rp
  rw [h] at t
  exact t

theorem reprNP_request {p : Netcode.Packet} {gv gx gd : List Nat} {pid e : Nat}
    (h : reprNP p = .ConnectionRequest gv pid e gx gd) :
    ∃ v x d, p = .connectionRequest v pid e x d ∧ gv = toNats v ∧ gx = toNats x ∧ gd = toNats d := by
  cases p <;> simp [reprNP] at h
  obtain ⟨h1, rfl, rfl, h4, h5⟩ := h
  exact ⟨_, _, _, rfl, h1.symm, h4.symm, h5.symm⟩
theorem reprNP_response {p : Netcode.Packet} {ts : Nat} {gd : List Nat} (h : reprNP p = .Response ts gd) :
    ∃ d, p = .response ts d ∧ gd = toNats d := by
  cases p <;> simp [reprNP] at h
  obtain ⟨rfl, h2⟩ := h
  exact ⟨_, rfl, h2.symm⟩
theorem reprNP_payload {p : Netcode.Packet} {gd : List Nat} (h : reprNP p = .Payload gd) :
    ∃ d, p = .payload d ∧ gd = toNats d := by
  cases p <;> simp [reprNP] at h
  exact ⟨_, rfl, h.symm⟩

/-- `ChallengeToken::decode` of a 300-byte token: generated `Ok` ↔ model `ok` -/
theorem challenge_push (a : AEAD) (hl : a.Laws) {td : Bytes} (hlen : td.length = C.NETCODE_CHALLENGE_TOKEN_BYTES)
    (sq : Nat) (key : Bytes) {t : Netcode.ChallengeToken} (h : Netcode.ChallengeToken.decode a td sq key = .ok t) :
    @Src.renetcode.packet.ChallengeToken.decode (aeadOf a) (toNats td) sq (toNats key) = .ok (reprCT t) := by
  have t' := nc_challenge_token_decode a hl td hlen sq key
  rw [h] at t'
  exact sameOutcome_ok t'

/-! ### post-states: what `SrvRepr g' s'` says about `g'` in terms of `g` -/

/-- same model state: only the scratch buffer may differ -/
theorem same_of_repr {g g' : SNetcodeServer} {s : Netcode.NetcodeServer} (hr : SrvRepr g s) (hr' : SrvRepr g' s) :
    g' = { g with out := g'.out } := by
  have e : ({ reprNS g.out s with out := g'.out } : SNetcodeServer) = reprNS g'.out s := rfl
  rw [hr.2, e]; exact hr'.2

theorem repr_set_client {g g' : SNetcodeServer} {s : Netcode.NetcodeServer} {i : Nat} {oc : Option Netcode.Connection}
    (hr : SrvRepr g s) (hr' : SrvRepr g' { s with clients := s.clients.set i oc }) :
    g' = { g with out := g'.out, clients := g.clients.set i (oc.map reprNConn) } := by
  have e : ({ reprNS g.out s with out := g'.out, clients := (reprNS g.out s).clients.set i (oc.map reprNConn) } : SNetcodeServer)
      = reprNS g'.out { s with clients := s.clients.set i oc } := by
    simp [reprNS, List.map_set]
  rw [hr.2, e]; exact hr'.2

theorem repr_set_pending {g g' : SNetcodeServer} {s : Netcode.NetcodeServer} {addr : Addr} {c : Netcode.Connection}
    (hr : SrvRepr g s) (hr' : SrvRepr g' { s with pendingClients := pendingSet s.pendingClients addr c }) :
    g' = { g with out := g'.out,
                  pending_clients := RustSem.AMap.insert g.pending_clients (reprAddr addr) (reprNConn c) } := by
  let pc := RustSem.AMap.insert (reprNS g.out s).pending_clients (reprAddr addr) (reprNConn c)
  have e : ({ reprNS g.out s with out := g'.out, pending_clients := pc } : SNetcodeServer)
      = reprNS g'.out { s with pendingClients := pendingSet s.pendingClients addr c } := by
    have := amap_insert addr c s.pendingClients
    simp only [pendR] at this
    simp only [pc, reprNS, this]
  rw [hr.2]; exact hr'.2.trans e.symm

/-- the connected session of an address, seen from the generated side -/
theorem connected_session {ε : Type} {g : SNetcodeServer} {s : Netcode.NetcodeServer} (hr : SrvRepr g s) {addr : Addr}
    {i : Nat} {gc : SConnection} (hf : (find_client_mut_by_addr g.clients (reprAddr addr) : Res ε _) = .ok (some i))
    (hi : g.clients[i]? = some (some gc)) : ∃ c, findClientByAddr s.clients addr = some (i, c) ∧ gc = reprNConn c := by
  obtain ⟨c, hc⟩ := find_by_addr_some hr hf
  have h2 := slot_to_repr hr (nc_find_client_by_addr_slot hc)
  rw [hi] at h2
  simp only [Option.some.injEq] at h2
  exact ⟨c, hc, h2⟩

/-- the pending session of an address, seen from the generated side -/
theorem pending_session {g : SNetcodeServer} {s : Netcode.NetcodeServer} (hr : SrvRepr g s) {addr : Addr} {gp : SConnection}
    (hp : RustSem.AMap.find? g.pending_clients (reprAddr addr) = some gp) :
    ∃ c, Netcode.pendingFind s.pendingClients addr = some c ∧ gp = reprNConn c := by
  rw [hr.pendingFind] at hp
  cases hm : Netcode.pendingFind s.pendingClients addr with
  | none => rw [hm] at hp; cases hp
  | some c => rw [hm] at hp; exact ⟨c, rfl, by simpa using hp.symm⟩

theorem pending_none {g : SNetcodeServer} {s : Netcode.NetcodeServer} (hr : SrvRepr g s) {addr : Addr}
    (hp : RustSem.AMap.find? g.pending_clients (reprAddr addr) = none) :
    Netcode.pendingFind s.pendingClients addr = none := by
  rw [hr.pendingFind] at hp
  cases hm : Netcode.pendingFind s.pendingClients addr with
  | none => rfl
  | some c => rw [hm] at hp; cases hp

/-! ### identities of sessions, keys of the pending map -/

/-- what identifies a session (the model's `NS.Ident`), read off a generated `Connection` -/
def gIdent (c : SConnection) : Nat × RustSem.SocketAddr × List Nat × List Nat × List Nat × Int × Nat :=
  (c.client_id, c.addr, c.user_data, c.send_key, c.receive_key, c.timeout_seconds, c.expire_timestamp)

def reprIdent (x : NS.Ident) : Nat × RustSem.SocketAddr × List Nat × List Nat × List Nat × Int × Nat :=
  (x.clientId, reprAddr x.addr, toNats x.userData, toNats x.sendKey, toNats x.receiveKey, x.timeoutSeconds, x.expireTimestamp)

theorem gIdent_repr (c : Netcode.Connection) : gIdent (reprNConn c) = reprIdent (NS.ident c) := rfl

theorem gSessions_repr (cl : List (Option Netcode.Connection)) :
    (cl.map (Option.map reprNConn)).map (Option.map gIdent) = (NS.sessions cl).map (Option.map reprIdent) := by
  simp only [NS.sessions, List.map_map]
  apply List.map_congr_left
  intro oc _
  cases oc <;> rfl

/-- every key of the generated pending map is the image of a model address -/
theorem amap_find_key {l : List (Addr × Netcode.Connection)} {gy : RustSem.SocketAddr} {gp : SConnection}
    (h : RustSem.AMap.find? (pendR l) gy = some gp) : ∃ y, gy = reprAddr y := by
  induction l with
  | nil => cases h
  | cons p r ih =>
    obtain ⟨k, c0⟩ := p
    simp only [pendR, List.map_cons, RustSem.AMap.find?] at h ih
    by_cases hk : reprAddr k = gy
    · exact ⟨k, hk.symm⟩
    · rw [if_neg hk] at h; exact ih h

/-! ### private connect tokens -/

theorem tokenOpens_iff_decode {a : AEAD} {s : Netcode.NetcodeServer} {e : Nat} {x d : Bytes} {t : Netcode.PrivateConnectToken}
    (hd : C.NETCODE_MAC_BYTES ≤ d.length) :
    NS.TokenOpens a s e x d t ↔ Netcode.PrivateConnectToken.decode a d s.protocolId e x s.connectKey = .ok t := by
  unfold NS.TokenOpens Netcode.PrivateConnectToken.decode
  rw [if_neg (by omega)]
  cases hx : a.xopen s.connectKey x (Netcode.PrivateConnectToken.additionalData s.protocolId e) d with
  | none => simp
  | some plain =>
    cases hrd : Netcode.PrivateConnectToken.read (plain ++ d.drop plain.length) with
    | none => simp [hrd]
    | some t' => simp [hrd]

theorem ptok_pull_ok (a : AEAD) (hl : a.Laws) {d : Bytes} (hlen : d.length = C.NETCODE_CONNECT_TOKEN_PRIVATE_BYTES)
    (pid e : Nat) (x key : Bytes) {gt : SPrivateConnectToken}
    (h : @Src.renetcode.token.PrivateConnectToken.decode (aeadOf a) (toNats d) pid e (toNats x) (toNats key) = .ok gt) :
    ∃ t, Netcode.PrivateConnectToken.decode a d pid e x key = .ok t ∧ gt = reprPTok t := by
  have t' := nc_private_token_decode a hl d hlen pid e x key
  rw [h] at t'
  cases hm : Netcode.PrivateConnectToken.decode a d pid e x key with
  | ok t => rw [hm] at t'; exact ⟨t, rfl, t'⟩
  | err e' => rw [hm] at t'; exact t'.elim
  | panic m => rw [hm] at t'; exact t'.elim

theorem ptok_pull_err (a : AEAD) (hl : a.Laws) {d : Bytes} (hlen : d.length = C.NETCODE_CONNECT_TOKEN_PRIVATE_BYTES)
    (pid e : Nat) (x key : Bytes) {ge : STGErr}
    (h : @Src.renetcode.token.PrivateConnectToken.decode (aeadOf a) (toNats d) pid e (toNats x) (toNats key) = .err ge) :
    ∃ e', Netcode.PrivateConnectToken.decode a d pid e x key = .err e' := by
  have t' := nc_private_token_decode a hl d hlen pid e x key
  rw [h] at t'
  cases hm : Netcode.PrivateConnectToken.decode a d pid e x key with
  | ok t => rw [hm] at t'; exact t'.elim
  | err e' => exact ⟨e', rfl⟩
  | panic m => rw [hm] at t'; exact t'.elim

/-! ### what the server seals: the generated `Packet::encode` into the scratch buffer -/

/-- `o` is what the generated `Packet::encode` makes of `pkt` (into the server's scratch buffer) under the server's
    protocol id, the sequence number `sq` and the key `key` -/
def GEncodes (a : AEAD) (g : SNetcodeServer) (pkt : SNcPacket) (sq : Nat) (key o : List Nat) : Prop :=
  ∃ st : List Nat, @Src.renetcode.packet.Packet.encode (aeadOf a) pkt g.out g.protocol_id (some (sq, key)) = .ok (st, o.length) ∧
    st.take o.length = o

theorem gencodes_push (a : AEAD) (hl : a.Laws) {g : SNetcodeServer} {s : Netcode.NetcodeServer} (hr : SrvRepr g s)
    {p : Netcode.Packet} {sq : Nat} {key out : Bytes}
    (h : Netcode.Packet.encode a p C.NETCODE_MAX_PACKET_BYTES s.protocolId (some (sq, key)) = .ok out) :
    GEncodes a g (reprNP p) sq (toNats key) (toNats out) := by
  have t := enc_out a hl p g.out hr.1 s.protocolId sq key
  rw [h] at t
  obtain ⟨st, hst, htake, _⟩ := t
  refine ⟨st, ?_, ?_⟩
  · rw [hr.protocol_id, toNats_length]; exact hst
  · rw [toNats_length]; exact htake

theorem gencodes_pull (a : AEAD) (hl : a.Laws) {g : SNetcodeServer} {s : Netcode.NetcodeServer} (hr : SrvRepr g s)
    {p : Netcode.Packet} {sq : Nat} {key : Bytes} {o : List Nat} (h : GEncodes a g (reprNP p) sq (toNats key) o) :
    ∃ out, Netcode.Packet.encode a p C.NETCODE_MAX_PACKET_BYTES s.protocolId (some (sq, key)) = .ok out ∧ o = toNats out := by
  have t := enc_out a hl p g.out hr.1 s.protocolId sq key
  obtain ⟨st, hst, htake⟩ := h
  rw [hr.protocol_id] at hst
  cases hm : Netcode.Packet.encode a p C.NETCODE_MAX_PACKET_BYTES s.protocolId (some (sq, key)) with
  | ok out =>
    rw [hm] at t
    obtain ⟨st', hst', htake', _⟩ := t
    rw [hst] at hst'
    simp only [Res.ok.injEq, Prod.mk.injEq] at hst'
    obtain ⟨rfl, hlen⟩ := hst'
    exact ⟨out, rfl, by rw [← htake, hlen, htake']⟩
  | err e => rw [hm] at t; obtain ⟨st', hst', _⟩ := t; rw [hst] at hst'; cases hst'
  | panic m => rw [hm] at t; obtain ⟨msg, hst'⟩ := t; rw [hst] at hst'; cases hst'

/-! ### the sequence number a datagram carries, read off the generated byte list -/

/-- little-endian value of a list of byte values -/
def leValN : List Nat → Nat
  | [] => 0
  | b :: r => b + 256 * leValN r

/-- the sequence number a sealed datagram carries: the `prefix >> 4` bytes that follow the prefix byte, little endian -/
def gWireSeq (gbuf : List Nat) : Nat := leValN ((gbuf.drop 1).take (gbuf.headD 0 / 16))

theorem leValN_toNats (b : Bytes) : leValN (toNats b) = leVal b := by
  induction b with
  | nil => rfl
  | cons x r ih => simp only [toNats, List.map_cons, leValN, leVal] at ih ⊢; rw [ih]

theorem gWireSeq_toNats (buf : Bytes) : gWireSeq (toNats buf) = Netcode.Packet.wireSeq buf := by
  unfold gWireSeq Netcode.Packet.wireSeq Netcode.Packet.wireSeqLen Netcode.Packet.wirePrefix
  have h0 : (toNats buf).headD 0 = (buf.headD 0).toNat := by cases buf <;> rfl
  rw [h0, ← toNats_drop, ← toNats_take, leValN_toNats]

/-! ## client -/
section client
open Src.renetcode.client

/-- the generated client `g` is the image of the model client `c`, with a scratch buffer of the right length -/
def CliRepr (g : SNetcodeClient) (c : Netcode.NetcodeClient) : Prop :=
  g.out.length = C.NETCODE_MAX_PACKET_BYTES ∧ g = reprNC g.out c

theorem cliRepr_mk {out : List Nat} (hout : out.length = C.NETCODE_MAX_PACKET_BYTES) (c : Netcode.NetcodeClient) :
    CliRepr (reprNC out c) c := ⟨hout, rfl⟩

/-- a generated client state the model can name -/
def WfC (g : SNetcodeClient) : Prop := ∃ c, CliRepr g c

theorem CliRepr.state {g : SNetcodeClient} {c : Netcode.NetcodeClient} (h : CliRepr g c) : g.state = reprCSt c.state := by
  rw [h.2]; rfl
theorem CliRepr.current_time {g : SNetcodeClient} {c : Netcode.NetcodeClient} (h : CliRepr g c) :
    g.current_time = c.currentTime := by rw [h.2]; rfl
theorem CliRepr.sequence {g : SNetcodeClient} {c : Netcode.NetcodeClient} (h : CliRepr g c) :
    g.sequence = c.sequence := by rw [h.2]; rfl
theorem CliRepr.token {g : SNetcodeClient} {c : Netcode.NetcodeClient} (h : CliRepr g c) :
    g.connect_token = reprTok c.connectToken := by rw [h.2]; rfl
theorem CliRepr.window {g : SNetcodeClient} {c : Netcode.NetcodeClient} (h : CliRepr g c) :
    g.replay_protection = reprRP c.replayProtection := by rw [h.2]; rfl
theorem CliRepr.recv_time {g : SNetcodeClient} {c : Netcode.NetcodeClient} (h : CliRepr g c) :
    g.last_packet_received_time = c.lastPacketReceivedTime := by rw [h.2]; rfl
theorem CliRepr.start_time {g : SNetcodeClient} {c : Netcode.NetcodeClient} (h : CliRepr g c) :
    g.connect_start_time = c.connectStartTime := by rw [h.2]; rfl
theorem CliRepr.addr_index {g : SNetcodeClient} {c : Netcode.NetcodeClient} (h : CliRepr g c) :
    g.server_addr_index = c.serverAddrIndex := by rw [h.2]; rfl
theorem CliRepr.server_addr {g : SNetcodeClient} {c : Netcode.NetcodeClient} (h : CliRepr g c) :
    g.server_addr = reprAddr c.serverAddr := by rw [h.2]; rfl

theorem cli_same_of_repr {g g' : SNetcodeClient} {c : Netcode.NetcodeClient} (hr : CliRepr g c) (hr' : CliRepr g' c) :
    g' = { g with out := g'.out } := by
  have e : ({ reprNC g.out c with out := g'.out } : SNetcodeClient) = reprNC g'.out c := rfl
  rw [hr.2, e]; exact hr'.2

theorem cli_process_packet_tie {ε : Type} (a : AEAD) (hl : a.Laws) {g : SNetcodeClient} {c : Netcode.NetcodeClient}
    (hr : CliRepr g c) (buf : Bytes) (hbl : buf.length + 16 < 2 ^ 64) :
    (∃ r c' g' buf', c.processPacket a buf = .ok (r, c') ∧ CliRepr g' c' ∧ g'.out = g.out ∧
        @NetcodeClient.process_packet (aeadOf a) ε g (toNats buf) = .ok (g', buf', r.map toNats)) ∨
    ((∃ m, c.processPacket a buf = .panic m) ∧ ∃ m, @NetcodeClient.process_packet (aeadOf a) ε g (toNats buf) = .panic m) := by
  have t := nc_client_process_packet (ε := ε) a hl g.out c buf hbl
  rw [← hr.2] at t
  cases hm : c.processPacket a buf with
  | ok v =>
    obtain ⟨r, c'⟩ := v
    rw [hm] at t
    obtain ⟨buf', hg⟩ := t
    exact .inl ⟨r, c', _, buf', rfl, cliRepr_mk hr.1 c', rfl, hg⟩
  | err e => exact e.elim
  | panic m => rw [hm] at t; exact .inr ⟨⟨m, rfl⟩, t⟩

theorem cli_update_internal_tie {g : SNetcodeClient} {c : Netcode.NetcodeClient} (hr : CliRepr g c)
    (hto : c.connectToken.timeoutSeconds < 2 ^ 31) (hidx : c.serverAddrIndex + 1 < 2 ^ 64) (dt : Nat) :
    (∃ c' g', c.updateInternalState dt = .ok (none, c') ∧ CliRepr g' c' ∧ g'.out = g.out ∧
        NetcodeClient.update_internal_state g dt = .ok (g', ())) ∨
    (∃ e c' g', c.updateInternalState dt = .ok (some e, c') ∧ CliRepr g' c' ∧ g'.out = g.out ∧
        NetcodeClient.update_internal_state g dt = .err (reprNErr e, g')) ∨
    ((∃ m, c.updateInternalState dt = .panic m) ∧ ∃ m, NetcodeClient.update_internal_state g dt = .panic m) := by
  have t := nc_client_update_internal_state g.out c hto hidx dt
  rw [← hr.2] at t
  cases hm : c.updateInternalState dt with
  | ok v =>
    obtain ⟨oe, c'⟩ := v
    rw [hm] at t
    cases oe with
    | none => exact .inl ⟨c', _, rfl, cliRepr_mk hr.1 c', rfl, t⟩
    | some e => exact .inr (.inl ⟨e, c', _, rfl, cliRepr_mk hr.1 c', rfl, t⟩)
  | err e => exact e.elim
  | panic m => rw [hm] at t; exact .inr (.inr ⟨⟨m, rfl⟩, t⟩)

theorem cli_update_tie {ε : Type} (a : AEAD) (hl : a.Laws) {g : SNetcodeClient} {c : Netcode.NetcodeClient}
    (hr : CliRepr g c) (hto : c.connectToken.timeoutSeconds < 2 ^ 31) (hidx : c.serverAddrIndex + 1 < 2 ^ 64) (dt : Nat) :
    (∃ r c' g', c.update a dt = .ok (r, c') ∧ CliRepr g' c' ∧
        @NetcodeClient.update (aeadOf a) ε g dt = .ok (g', r.map (fun x => (toNats x.1, reprAddr x.2)))) ∨
    ((∃ m, c.update a dt = .panic m) ∧ ∃ m, @NetcodeClient.update (aeadOf a) ε g dt = .panic m) := by
  have t := nc_client_update (ε := ε) a hl g.out hr.1 c hto hidx dt
  rw [← hr.2] at t
  cases hm : c.update a dt with
  | ok v =>
    obtain ⟨r, c'⟩ := v
    rw [hm] at t
    obtain ⟨out', hol, hg⟩ := t
    exact .inl ⟨r, c', _, rfl, cliRepr_mk hol c', hg⟩
  | err e => exact e.elim
  | panic m => rw [hm] at t; exact .inr ⟨⟨m, rfl⟩, t⟩

theorem cli_generate_packet_tie {ε : Type} (a : AEAD) (hl : a.Laws) {g : SNetcodeClient} {c : Netcode.NetcodeClient}
    (hr : CliRepr g c) :
    (∃ r c' g', c.generatePacket a = .ok (r, c') ∧ CliRepr g' c' ∧
        @NetcodeClient.generate_packet (aeadOf a) ε g = .ok (g', r.map (fun x => (toNats x.1, reprAddr x.2)))) ∨
    ((∃ m, c.generatePacket a = .panic m) ∧ ∃ m, @NetcodeClient.generate_packet (aeadOf a) ε g = .panic m) := by
  have t := nc_client_generate_packet (ε := ε) a hl g.out hr.1 c
  rw [← hr.2] at t
  cases hm : c.generatePacket a with
  | ok v =>
    obtain ⟨r, c'⟩ := v
    rw [hm] at t
    obtain ⟨out', hol, hg⟩ := t
    exact .inl ⟨r, c', _, rfl, cliRepr_mk hol c', hg⟩
  | err e => exact e.elim
  | panic m => rw [hm] at t; exact .inr ⟨⟨m, rfl⟩, t⟩

theorem cli_generate_payload_tie (a : AEAD) (hl : a.Laws) {g : SNetcodeClient} {c : Netcode.NetcodeClient}
    (hr : CliRepr g c) (payload : Bytes) :
    (∃ addr out c' g', c.generatePayloadPacket a payload = .ok ((addr, out), c') ∧ CliRepr g' c' ∧
        @NetcodeClient.generate_payload_packet (aeadOf a) g (toNats payload) = .ok (g', (reprAddr addr, toNats out))) ∨
    (∃ e g', c.generatePayloadPacket a payload = .err e ∧ CliRepr g' c ∧
        @NetcodeClient.generate_payload_packet (aeadOf a) g (toNats payload) = .err (reprNErr e, g')) ∨
    ((∃ m, c.generatePayloadPacket a payload = .panic m) ∧
      ∃ m, @NetcodeClient.generate_payload_packet (aeadOf a) g (toNats payload) = .panic m) := by
  have t := nc_client_generate_payload_packet a hl g.out hr.1 c payload
  rw [← hr.2] at t
  cases hm : c.generatePayloadPacket a payload with
  | ok v =>
    obtain ⟨⟨addr, out⟩, c'⟩ := v
    rw [hm] at t
    obtain ⟨out', hol, hg⟩ := t
    exact .inl ⟨addr, out, c', _, rfl, cliRepr_mk hol c', hg⟩
  | err e =>
    rw [hm] at t
    obtain ⟨out', hol, hg⟩ := t
    exact .inr (.inl ⟨e, _, rfl, cliRepr_mk hol c, hg⟩)
  | panic m => rw [hm] at t; exact .inr (.inr ⟨⟨m, rfl⟩, t⟩)

/-- `o` is what the generated `Packet::encode` makes of `pkt` (into the client's scratch buffer) under the protocol id of the
    client's connect token, the sequence number `sq` and the key `key` -/
def CEncodes (a : AEAD) (g : SNetcodeClient) (pkt : SNcPacket) (sq : Nat) (key o : List Nat) : Prop :=
  ∃ st : List Nat, @Src.renetcode.packet.Packet.encode (aeadOf a) pkt g.out g.connect_token.protocol_id (some (sq, key))
      = .ok (st, o.length) ∧ st.take o.length = o

theorem cencodes_push (a : AEAD) (hl : a.Laws) {g : SNetcodeClient} {c : Netcode.NetcodeClient} (hr : CliRepr g c)
    {p : Netcode.Packet} {sq : Nat} {key out : Bytes}
    (h : Netcode.Packet.encode a p C.NETCODE_MAX_PACKET_BYTES c.connectToken.protocolId (some (sq, key)) = .ok out) :
    CEncodes a g (reprNP p) sq (toNats key) (toNats out) := by
  have t := enc_out a hl p g.out hr.1 c.connectToken.protocolId sq key
  rw [h] at t
  obtain ⟨st, hst, htake, _⟩ := t
  refine ⟨st, ?_, ?_⟩
  · rw [hr.token, toNats_length]; exact hst
  · rw [toNats_length]; exact htake

theorem cencodes_pull (a : AEAD) (hl : a.Laws) {g : SNetcodeClient} {c : Netcode.NetcodeClient} (hr : CliRepr g c)
    {p : Netcode.Packet} {sq : Nat} {key : Bytes} {o : List Nat} (h : CEncodes a g (reprNP p) sq (toNats key) o) :
    ∃ out, Netcode.Packet.encode a p C.NETCODE_MAX_PACKET_BYTES c.connectToken.protocolId (some (sq, key)) = .ok out ∧
      o = toNats out := by
  have t := enc_out a hl p g.out hr.1 c.connectToken.protocolId sq key
  obtain ⟨st, hst, htake⟩ := h
  rw [hr.token] at hst
  have hst : @Src.renetcode.packet.Packet.encode (aeadOf a) (reprNP p) g.out c.connectToken.protocolId
      (some (sq, toNats key)) = .ok (st, o.length) := hst
  cases hm : Netcode.Packet.encode a p C.NETCODE_MAX_PACKET_BYTES c.connectToken.protocolId (some (sq, key)) with
  | ok out =>
    rw [hm] at t
    obtain ⟨st', hst', htake', _⟩ := t
    rw [hst] at hst'
    simp only [Res.ok.injEq, Prod.mk.injEq] at hst'
    obtain ⟨rfl, hlen⟩ := hst'
    exact ⟨out, rfl, by rw [← htake, hlen, htake']⟩
  | err e => rw [hm] at t; obtain ⟨st', hst', _⟩ := t; rw [hst] at hst'; cases hst'
  | panic m => rw [hm] at t; obtain ⟨msg, hst'⟩ := t; rw [hst] at hst'; cases hst'

/-- the model's `generate_payload_packet`, when it returns `ok` -/
theorem cli_generatePayload_ok {a : AEAD} {c c' : Netcode.NetcodeClient} {payload out : Bytes} {ad : Addr}
    (h : c.generatePayloadPacket a payload = .ok ((ad, out), c')) :
    c.state = .connected ∧ ad = c.serverAddr ∧
      (Netcode.Packet.payload payload).encode a C.NETCODE_MAX_PACKET_BYTES c.connectToken.protocolId
        (some (c.sequence, c.connectToken.clientToServerKey)) = .ok out ∧
      c' = { c with sequence := c.sequence + 1, lastPacketSendTime := some c.currentTime } := by
  unfold Netcode.NetcodeClient.generatePayloadPacket at h
  split at h
  · cases h
  · split at h
    · cases h
    · rename_i hst
      have hst' : c.state = .connected := by
        cases hcs : c.state <;> first | rfl | (exfalso; apply hst; rw [hcs]; intro hh; cases hh)
      cases he : (Netcode.Packet.payload payload).encode a C.NETCODE_MAX_PACKET_BYTES c.connectToken.protocolId
          (some (c.sequence, c.connectToken.clientToServerKey)) with
      | ok o =>
        rw [he] at h
        simp only [NS.bind_ok'] at h
        unfold incU64 at h
        split at h
        · simp only [NS.bind_ok', NS.pure_eq'] at h
          cases h
          exact ⟨hst', rfl, rfl, rfl⟩
        · cases h
      | err e => rw [he] at h; cases h
      | panic m => rw [he] at h; cases h

end client

/-! ### pushing a model result forward (used by the concrete instances) -/

theorem process_packet_push {ε : Type} (a : AEAD) (hl : a.Laws) {g : SNetcodeServer} {s s' : Netcode.NetcodeServer}
    (hr : SrvRepr g s) (hent : 0 < s.connectTokenEntries.length) {addr : Addr} {buf : Bytes}
    (hbl : buf.length + 16 < 2 ^ 64) {r : Netcode.ServerResult} (hm : s.processPacket a addr buf = .ok (r, s')) :
    ∃ g' buf', SrvRepr g' s' ∧
      @NetcodeServer.process_packet (aeadOf a) ε g (reprAddr addr) (toNats buf) = .ok (g', buf', reprNSR r) := by
  rcases process_packet_tie (ε := ε) a hl hr hent addr buf hbl with ⟨r2, s2, g', buf', hm2, hr', hg⟩ | ⟨⟨m, hp⟩, _⟩
  · rw [hm] at hm2; cases hm2; exact ⟨g', buf', hr', hg⟩
  · rw [hm] at hp; cases hp

theorem cli_process_packet_push {ε : Type} (a : AEAD) (hl : a.Laws) {g : SNetcodeClient} {c c' : Netcode.NetcodeClient}
    (hr : CliRepr g c) {buf : Bytes} (hbl : buf.length + 16 < 2 ^ 64) {r : Option Bytes}
    (hm : c.processPacket a buf = .ok (r, c')) :
    ∃ g' buf', CliRepr g' c' ∧
      @Src.renetcode.client.NetcodeClient.process_packet (aeadOf a) ε g (toNats buf) = .ok (g', buf', r.map toNats) := by
  rcases cli_process_packet_tie (ε := ε) a hl hr buf hbl with ⟨r2, c2, g', buf', hm2, hr', _, hg⟩ | ⟨⟨m, hp⟩, _⟩
  · rw [hm] at hm2; cases hm2; exact ⟨g', buf', hr', hg⟩
  · rw [hm] at hp; cases hp

/-- the AEAD of the example world `Lemmas/NcExamples.lean` satisfies the length laws -/
theorem exA_laws : NS.Ex.a.Laws := by
  have hlen : ∀ (t c p : Bytes), t.length = 16 → (if c.length < 16 then none
      else if c.drop (c.length - 16) = t then some (c.take (c.length - 16)) else none) = some p →
      p.length + 16 = c.length := by
    intro t c p _ h
    by_cases hc : c.length < 16
    · simp [hc] at h
    · simp only [hc, if_false] at h
      split at h
      · cases h; simp [List.length_take]; omega
      · cases h
  refine ⟨?_, ?_, ?_, ?_, ?_, ?_⟩
  · intro k n ad p; simp [NS.Ex.a]
  · intro k n ad p; simp [NS.Ex.a]
  · intro k n ad c p h; exact hlen _ c p (by simp) h
  · intro k n ad p; simp [NS.Ex.a]
  · intro k n ad p; simp [NS.Ex.a]
  · intro k n ad c p h; exact hlen _ c p (by simp) h

/-- a zeroed scratch buffer `[0u8; NETCODE_MAX_PACKET_BYTES]` -/
def out0 : List Nat := List.replicate C.NETCODE_MAX_PACKET_BYTES 0
theorem out0_len : out0.length = C.NETCODE_MAX_PACKET_BYTES := List.length_replicate ..

/-- `decode_push_ok` from the first component only -/
theorem decode_push_ok' (a : AEAD) (hl : a.Laws) (buf : Bytes) (hbl : buf.length + 16 < 2 ^ 64) (pid : Nat)
    (key : Option Bytes) (rp : Option RP) {sq : Nat} {p : Netcode.Packet}
    (h : (Netcode.Packet.decode a buf pid key rp).1 = .ok (sq, p)) :
    ∃ buf' rp', gDecode a buf pid key rp = .ok (buf', rp', (sq, reprNP p)) := by
  obtain ⟨buf', hg⟩ := decode_push_ok a hl buf hbl pid key rp (rp' := (Netcode.Packet.decode a buf pid key rp).2)
    (by rw [← h])
  exact ⟨buf', _, hg⟩

theorem decode_push_err' (a : AEAD) (hl : a.Laws) (buf : Bytes) (hbl : buf.length + 16 < 2 ^ 64) (pid : Nat)
    (key : Option Bytes) (rp : Option RP) {e : NetcodeError}
    (h : (Netcode.Packet.decode a buf pid key rp).1 = .err e) :
    ∃ st, gDecode a buf pid key rp = .err (reprNErr e, st) := by
  obtain ⟨buf', hg⟩ := decode_push_err a hl buf hbl pid key rp (rp' := (Netcode.Packet.decode a buf pid key rp).2)
    (by rw [← h])
  exact ⟨_, hg⟩

/-- a datagram of connection-request shape (type nibble 0, at least 18 bytes) is decoded by reading it as a request,
    whatever key / window is supplied -/
theorem decode_request_shape (a : AEAD) {buf : Bytes} (proto : Nat) (key : Option Bytes) (rp : Option RP)
    (h18 : 18 ≤ buf.length) (ht : Netcode.Packet.wireType buf = 0) :
    Netcode.Packet.decode a buf proto key rp =
      (Netcode.Packet.read .connectionRequest (buf.drop 1) >>= fun p => pure (0, p), rp) := by
  generalize hD : Netcode.Packet.decode a buf proto key rp = D
  unfold Netcode.Packet.decode at hD
  rw [if_neg (by simp only [Netcode.Packet.mac_eq]; omega)] at hD
  cases buf with
  | nil => simp at h18
  | cons pfx rest =>
    simp only [Netcode.Packet.decodePrefix] at hD
    have hty : PacketType.fromU8 (pfx.toNat % 16) = .ok .connectionRequest := by
      have : pfx.toNat % 16 = 0 := ht
      rw [this]; rfl
    rw [hty] at hD
    rw [← hD]; simp

theorem ptok_push_ok (a : AEAD) (hl : a.Laws) {d : Bytes} (hlen : d.length = C.NETCODE_CONNECT_TOKEN_PRIVATE_BYTES)
    (pid e : Nat) (x key : Bytes) {t : Netcode.PrivateConnectToken}
    (h : Netcode.PrivateConnectToken.decode a d pid e x key = .ok t) :
    @Src.renetcode.token.PrivateConnectToken.decode (aeadOf a) (toNats d) pid e (toNats x) (toNats key) = .ok (reprPTok t) := by
  have t' := nc_private_token_decode a hl d hlen pid e x key
  rw [h] at t'
  exact sameOutcome_ok t'

end RenetVerif.SrcCorNc
