import RenetVerif.Renet.Packet
namespace RenetVerif
namespace Varint

theorem beBytes_length (n k : Nat) : (beBytes n k).length = k := by
  induction k with
  | zero => rfl
  | succ k ih => simp [beBytes, ih]

theorem beVal_append (a b : Bytes) (acc : Nat) : beVal (a ++ b) acc = beVal b (beVal a acc) := by
  induction a generalizing acc with
  | nil => rfl
  | cons x xs ih => simp [beVal, ih]

theorem beVal_beBytes (n k acc : Nat) : beVal (beBytes n k) acc = acc * 256 ^ k + n % 256 ^ k := by
  induction k generalizing acc with
  | zero => simp [beBytes, beVal, Nat.mod_one]
  | succ k ih =>
    simp only [beBytes, beVal, ih]
    have h1 : (UInt8.ofNat (n / 256 ^ k % 256)).toNat = n / 256 ^ k % 256 := by
      simp [UInt8.toNat_ofNat']
    rw [h1]
    have h2 : n % 256 ^ (k + 1) = (n / 256 ^ k % 256) * 256 ^ k + n % 256 ^ k := by
      rw [Nat.pow_succ, Nat.mod_mul, Nat.add_comm, Nat.mul_comm]
    rw [h2, Nat.pow_succ, Nat.add_mul, Nat.mul_assoc, Nat.mul_comm 256 (256 ^ k), Nat.add_assoc]

theorem enc_length (v : Nat) : (enc v).length = (len? v).getD 8 := by
  unfold enc len?
  by_cases h1 : v ≤ 63
  · simp [h1, beBytes_length]
  · by_cases h2 : v ≤ 16383
    · simp [h1, h2, beBytes_length]
    · by_cases h3 : v ≤ 1073741823
      · simp [h1, h2, h3, beBytes_length]
      · by_cases h4 : v ≤ MAX <;> simp [h1, h2, h3, h4, beBytes_length]

/-- the head byte of an `n`-byte big-endian encoding -/
theorem head_beBytes (n k : Nat) (rest : Bytes) :
    (beBytes n (k + 1) ++ rest) = UInt8.ofNat (n / 256 ^ k % 256) :: (beBytes n k ++ rest) := by
  simp [beBytes]

theorem get_enc (v : Nat) (rest : Bytes) (h : v ≤ MAX) : get (enc v ++ rest) = some (v, rest) := by
  unfold enc
  by_cases h1 : v ≤ 63
  · simp only [h1, ↓reduceIte]
    have hb : beBytes v 1 ++ rest = UInt8.ofNat (v % 256) :: rest := by simp [beBytes]
    rw [hb]
    have ht : (UInt8.ofNat (v % 256)).toNat = v := by simp [UInt8.toNat_ofNat']; omega
    simp only [get, ht]
    have : v / 64 = 0 := by omega
    simp [this, beVal, ht]
    omega
  · by_cases h2 : v ≤ 16383
    · simp only [h1, h2, ↓reduceIte]
      have hlen : (beBytes (v + 0x4000) 2 ++ rest).length = 2 + rest.length := by simp [beBytes_length]
      have hb := head_beBytes (v + 0x4000) 1 rest
      rw [hb]
      have ht : (UInt8.ofNat ((v + 0x4000) / 256 ^ 1 % 256)).toNat = (v + 0x4000) / 256 := by
        simp [UInt8.toNat_ofNat']; omega
      simp only [get, ht]
      have : (v + 0x4000) / 256 / 64 = 1 := by omega
      rw [← hb]
      simp only [this, hlen]
      have htake : (beBytes (v + 0x4000) 2 ++ rest).take 2 = beBytes (v + 0x4000) 2 := by
        rw [List.take_append_of_le_length (by simp [beBytes_length])]
        rw [List.take_of_length_le (by simp [beBytes_length])]
      have hdrop : (beBytes (v + 0x4000) 2 ++ rest).drop 2 = rest := by
        rw [List.drop_append_of_le_length (by simp [beBytes_length])]
        rw [List.drop_of_length_le (by simp [beBytes_length])]; simp
      simp only [htake, hdrop, beVal_beBytes]
      have : ¬ (2 > 2 + rest.length) := by omega
      simp [this]
      omega
    · by_cases h3 : v ≤ 1073741823
      · simp only [h1, h2, h3, ↓reduceIte]
        have hlen : (beBytes (v + 0x80000000) 4 ++ rest).length = 4 + rest.length := by simp [beBytes_length]
        have hb := head_beBytes (v + 0x80000000) 3 rest
        rw [hb]
        have ht : (UInt8.ofNat ((v + 0x80000000) / 256 ^ 3 % 256)).toNat = (v + 0x80000000) / 16777216 := by
          simp [UInt8.toNat_ofNat']; omega
        simp only [get, ht]
        have : (v + 0x80000000) / 16777216 / 64 = 2 := by omega
        rw [← hb]
        simp only [this, hlen]
        have htake : (beBytes (v + 0x80000000) 4 ++ rest).take 4 = beBytes (v + 0x80000000) 4 := by
          rw [List.take_append_of_le_length (by simp [beBytes_length])]
          rw [List.take_of_length_le (by simp [beBytes_length])]
        have hdrop : (beBytes (v + 0x80000000) 4 ++ rest).drop 4 = rest := by
          rw [List.drop_append_of_le_length (by simp [beBytes_length])]
          rw [List.drop_of_length_le (by simp [beBytes_length])]; simp
        simp only [htake, hdrop, beVal_beBytes]
        have : ¬ (4 > 4 + rest.length) := by omega
        simp [this]
        omega
      · simp only [h1, h2, h3, ↓reduceIte]
        have hv : v % 2 ^ 62 = v := Nat.mod_eq_of_lt (by unfold MAX at h; omega)
        rw [hv]
        have hlen : (beBytes (v + 0xc000000000000000) 8 ++ rest).length = 8 + rest.length := by simp [beBytes_length]
        have hb := head_beBytes (v + 0xc000000000000000) 7 rest
        rw [hb]
        have ht : (UInt8.ofNat ((v + 0xc000000000000000) / 256 ^ 7 % 256)).toNat = (v + 0xc000000000000000) / 72057594037927936 := by
          simp [UInt8.toNat_ofNat']; unfold MAX at h; omega
        simp only [get, ht]
        have : (v + 0xc000000000000000) / 72057594037927936 / 64 = 3 := by unfold MAX at h; omega
        rw [← hb]
        simp only [this, hlen]
        have htake : (beBytes (v + 0xc000000000000000) 8 ++ rest).take 8 = beBytes (v + 0xc000000000000000) 8 := by
          rw [List.take_append_of_le_length (by simp [beBytes_length])]
          rw [List.take_of_length_le (by simp [beBytes_length])]
        have hdrop : (beBytes (v + 0xc000000000000000) 8 ++ rest).drop 8 = rest := by
          rw [List.drop_append_of_le_length (by simp [beBytes_length])]
          rw [List.drop_of_length_le (by simp [beBytes_length])]; simp
        simp only [htake, hdrop, beVal_beBytes]
        have : ¬ (8 > 8 + rest.length) := by omega
        simp [this]
        unfold MAX at h; omega

end Varint
end RenetVerif
