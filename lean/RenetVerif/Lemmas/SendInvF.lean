import RenetVerif.Lemmas.SendInvE
namespace RenetVerif
open C SMap

/-! ### get_packets_to_send (connection) -/

def Packet.isAck : Packet → Bool
  | .ack .. => true
  | _ => false

theorem Unacked.Sim.trans : ∀ {a b c : Unacked}, a.Sim b → b.Sim c → a.Sim c
  | .small .., .small .., .small .., h1, h2 => Eq.trans h1 h2
  | .sliced .., .sliced .., .sliced .., h1, h2 =>
    ⟨h1.1.trans h2.1, h1.2.1.trans h2.2.1, h1.2.2.1.trans h2.2.2.1, h1.2.2.2.1.trans h2.2.2.2.1, h1.2.2.2.2.trans h2.2.2.2.2⟩
  | .small .., .sliced .., _, h1, _ => h1.elim
  | .sliced .., .small .., _, h1, _ => h1.elim
  | .small .., .small .., .sliced .., _, h2 => h2.elim
  | .sliced .., .sliced .., .small .., _, h2 => h2.elim

theorem MapSim.trans : ∀ {a b c : SMap Unacked}, MapSim a b → MapSim b c → MapSim a c
  | [], [], [], _, _ => trivial
  | (_, _) :: _, (_, _) :: _, (_, _) :: _, h1, h2 => ⟨h1.1.trans h2.1, h1.2.1.trans h2.2.1, MapSim.trans h1.2.2 h2.2.2⟩
  | [], _ :: _, _, h1, _ => h1.elim
  | _ :: _, [], _, h1, _ => h1.elim
  | [], [], _ :: _, _, h2 => h2.elim
  | _ :: _, _ :: _, [], _, h2 => h2.elim

/-- relation between the reliable send channels before and after `get_packets_to_send` -/
def SRGet (sr sr' : SMap SendRel) : Prop :=
  SRStep sr sr' ∧ ∀ ch s s', find? sr ch = some s → find? sr' ch = some s' →
    MapSim s.unacked s'.unacked ∧ s'.mem = s.mem

theorem SRGet.refl (sr : SMap SendRel) : SRGet sr sr :=
  ⟨SRStep.refl _, fun _ s s' h h' => by rw [h] at h'; cases h'; exact ⟨MapSim.refl _, rfl⟩⟩

theorem SRGet.trans {a b c : SMap SendRel} (h1 : SRGet a b) (h2 : SRGet b c) : SRGet a c := by
  refine ⟨h1.1.trans h2.1, ?_⟩
  intro ch s s'' hs hs''
  have := h1.1.1 ch
  rw [hs] at this
  cases hb : find? b ch with
  | none => rw [hb] at this; cases this
  | some s' =>
    obtain ⟨a1, a2⟩ := h1.2 ch s s' hs hb
    obtain ⟨b1, b2⟩ := h2.2 ch s' s'' hb hs''
    exact ⟨a1.trans b1, b2.trans a2⟩

theorem SRGet.update {sr : SMap SendRel} {ch : Nat} {s s' : SendRel} (hf : find? sr ch = some s) (hst : s.Step s')
    (hsim : MapSim s.unacked s'.unacked) (hm : s'.mem = s.mem) : SRGet sr (SMap.insert sr ch s') := by
  refine ⟨SRStep.update hf hst, ?_⟩
  intro ch' s0 s0' h0 h0'
  rw [find?_insert] at h0'
  by_cases c : ch = ch'
  · rw [if_pos c] at h0'; cases h0'; subst c; rw [hf] at h0; cases h0; exact ⟨hsim, hm⟩
  · rw [if_neg c, h0] at h0'; cases h0'; exact ⟨MapSim.refl _, rfl⟩

/-- the info recorded for a non-ack packet is consistent with the channels -/
def PInfoOK (sr : SMap SendRel) (p : Packet) : Prop :=
  p.isAck = false ∧ ∀ info, Conn.sentInfoOf p = .ok info → InfoOKC sr info

theorem PInfoOK.step {sr sr' : SMap SendRel} (h : SRStep sr sr') {p : Packet} (hp : PInfoOK sr p) : PInfoOK sr' p :=
  ⟨hp.1, fun info hi => (hp.2 info hi).step h⟩

theorem sentInfoOf_of_not_ack : ∀ {p : Packet}, p.isAck = false → ∃ info, Conn.sentInfoOf p = .ok info
  | .smallReliable .., _ => ⟨_, rfl⟩
  | .smallUnreliable .., _ => ⟨_, rfl⟩
  | .reliableSlice .., _ => ⟨_, rfl⟩
  | .unreliableSlice .., _ => ⟨_, rfl⟩
  | .ack .., h => by cases h

/-- a packet emitted by reliable channel `s` (registered under its own id) records a consistent info -/
theorem PktOK.pinfo {sr : SMap SendRel} {s : SendRel} (hf : find? sr s.ch = some s) (hi : s.Inv) :
    ∀ {p : Packet}, PktOK s.ch s.unacked p → PInfoOK sr p
  | .smallReliable _ ch' msgs, hp => by
    obtain ⟨rfl, hm⟩ := hp
    refine ⟨rfl, ?_⟩
    intro info hinfo
    simp only [Conn.sentInfoOf, Res.ok.injEq] at hinfo
    subst hinfo
    intro ch hch
    simp only [SentInfo.chan?, Option.some.injEq] at hch
    subst hch
    refine ⟨s, hf, ?_⟩
    intro id hid
    simp only [List.mem_map] at hid
    obtain ⟨x, hx, rfl⟩ := hid
    obtain ⟨ls, hfx⟩ := hm x hx
    refine ⟨hi.find_lt hfx, ?_⟩
    intro u hu
    rw [hfx] at hu; cases hu; trivial
  | .reliableSlice _ ch' sl, hp => by
    obtain ⟨rfl, hidx, m, k, nx, a, ls, hfx, -⟩ := hp
    refine ⟨rfl, ?_⟩
    intro info hinfo
    simp only [Conn.sentInfoOf, Res.ok.injEq] at hinfo
    subst hinfo
    intro ch hch
    simp only [SentInfo.chan?, Option.some.injEq] at hch
    subst hch
    refine ⟨s, hf, hi.find_lt hfx, ?_⟩
    intro u hu
    rw [hfx] at hu; cases hu; exact hidx
  | .smallUnreliable .., hp => hp.elim
  | .unreliableSlice .., hp => hp.elim
  | .ack .., hp => hp.elim

/-! #### unreliable channels: only sequence numbers matter here -/
def UP (seq0 : Nat) (pk : List Packet) (seq : Nat) : Prop :=
  (∀ p ∈ pk, Conn.sentInfoOf p = .ok .none ∧ p.isAck = false ∧ seq0 ≤ p.sequence ∧ p.sequence < seq) ∧ seq0 ≤ seq

theorem UP.append {seq0 : Nat} {pk : List Packet} {seq : Nat} {ps : List Packet} {sq : Nat} (h : UP seq0 pk seq)
    (hps : ∀ p ∈ ps, Conn.sentInfoOf p = .ok .none ∧ p.isAck = false ∧ seq ≤ p.sequence ∧ p.sequence < sq) (hle : seq ≤ sq) :
    UP seq0 (pk ++ ps) sq := by
  refine ⟨?_, Nat.le_trans h.2 hle⟩
  intro p hp
  simp only [List.mem_append] at hp
  rcases hp with hp | hp
  · obtain ⟨a1, a2, a3, a4⟩ := h.1 p hp
    exact ⟨a1, a2, a3, by omega⟩
  · obtain ⟨a1, a2, a3, a4⟩ := hps p hp
    exact ⟨a1, a2, by have := h.2; omega, a4⟩

theorem unrelSlices_spec (ch id : Nat) (m : Bytes) (n : Nat) : ∀ (l : List Nat) (seq : Nat) (p : Packet),
    p ∈ unrelSlices ch id m n l seq →
    Conn.sentInfoOf p = .ok .none ∧ p.isAck = false ∧ seq ≤ p.sequence ∧ p.sequence < seq + l.length
  | [], _, _, h => by cases h
  | i :: rest, seq, p, h => by
    simp only [unrelSlices, List.mem_cons] at h
    rcases h with rfl | h
    · exact ⟨rfl, rfl, Nat.le_refl _, by simp [Packet.sequence]⟩
    · obtain ⟨a1, a2, a3, a4⟩ := unrelSlices_spec ch id m n rest (seq + 1) p h
      refine ⟨a1, a2, by omega, by simp only [List.length_cons]; omega⟩

theorem unrelLoop_spec (ch seq0 : Nat) : ∀ (l : List Bytes) (g : GPU), UP seq0 g.packets g.seq →
    UP seq0 (unrelLoop ch l g).packets (unrelLoop ch l g).seq
  | [], _, h => h
  | m :: rest, g, h => by
    rw [unrelLoop]
    dsimp only
    split
    · exact unrelLoop_spec ch seq0 rest _ h
    · split
      · apply unrelLoop_spec
        dsimp only
        refine h.append ?_ (by omega)
        intro p hp
        have := unrelSlices_spec _ _ _ _ _ _ p hp
        simpa using this
      · apply unrelLoop_spec
        dsimp only
        split
        · dsimp only
          refine h.append ?_ (Nat.le_succ _)
          intro p hp
          simp only [List.mem_singleton] at hp
          subst hp
          exact ⟨rfl, rfl, Nat.le_refl _, by simp [Packet.sequence]⟩
        · exact h

theorem SendUnrel.getPackets_spec (s : SendUnrel) (seq avail : Nat) :
    ∀ (s' : SendUnrel) (ps : List Packet) (seq' avail' : Nat), s.getPackets seq avail = (s', ps, seq', avail') →
      UP seq ps seq' := by
  intro s' ps seq' avail' hr
  unfold SendUnrel.getPackets at hr
  have h0 : UP seq (⟨[], [], 0, seq, avail, s.slicedId, s.mem⟩ : GPU).packets (⟨[], [], 0, seq, avail, s.slicedId, s.mem⟩ : GPU).seq :=
    ⟨fun p hp => (by cases hp), Nat.le_refl _⟩
  have h1 := unrelLoop_spec s.ch seq s.queue _ h0
  generalize unrelLoop s.ch s.queue ⟨[], [], 0, seq, avail, s.slicedId, s.mem⟩ = g at hr h1
  dsimp only at hr
  simp only [Prod.mk.injEq] at hr
  obtain ⟨-, rfl, rfl, -⟩ := hr
  split
  · exact h1
  · dsimp only
    refine h1.append ?_ (Nat.le_succ _)
    intro p hp
    simp only [List.mem_singleton] at hp
    subst hp
    exact ⟨rfl, rfl, Nat.le_refl _, by simp [Packet.sequence]⟩

/-! #### the channel loop -/
def OrderOK (ord : List (Bool × Nat)) (sr : SMap SendRel) (su : SMap SendUnrel) : Prop :=
  ∀ x ∈ ord, if x.1 = true then (find? sr x.2).isSome = true else (find? su x.2).isSome = true

theorem Conn.chanLoop_spec (now : Nat) : ∀ (ord : List (Bool × Nat)) (sr : SMap SendRel) (su : SMap SendUnrel)
    (pk : List Packet) (seq avail : Nat),
    ChansOK sr → OrderOK ord sr su → (∀ p ∈ pk, PInfoOK sr p ∧ p.sequence < seq) →
    ∃ sr' su' pk' seq' avail', Conn.chanLoop now ord (sr, su, pk, seq, avail) = .ok (sr', su', pk', seq', avail') ∧
      ChansOK sr' ∧ SRGet sr sr' ∧ (∀ ch, (find? su' ch).isSome = (find? su ch).isSome) ∧
      (∀ p ∈ pk', PInfoOK sr' p ∧ p.sequence < seq') ∧ seq ≤ seq'
  | [], sr, su, pk, seq, avail, hc, _, hp =>
    ⟨sr, su, pk, seq, avail, rfl, hc, SRGet.refl _, fun _ => rfl, hp, Nat.le_refl _⟩
  | (true, ch) :: rest, sr, su, pk, seq, avail, hc, ho, hp => by
    have h0 := ho (true, ch) (by simp)
    simp only [if_true] at h0
    cases hf : find? sr ch with
    | none => rw [hf] at h0; cases h0
    | some s =>
      obtain ⟨hinv, hch⟩ := hc ch s hf
      cases hg : s.getPackets seq avail now with
      | mk s' r1 =>
        obtain ⟨ps, seq1, avail1⟩ := r1
        obtain ⟨g1, g2, g3, g4, g5, g6, g7⟩ := SendRel.getPackets_spec hinv seq avail now s' ps seq1 avail1 hg
        have hch' : s'.ch = ch := g2.1.trans hch
        have hget := SRGet.update hf g2 g5 g3
        have hc1 : ChansOK (SMap.insert sr ch s') := hc.update g1 hch'
        have ho1 : OrderOK rest (SMap.insert sr ch s') su := by
          intro x hx
          have := ho x (List.mem_cons_of_mem _ hx)
          split
          · rename_i hb; rw [if_pos hb] at this; rw [hget.1.1]; exact this
          · rename_i hb; rw [if_neg hb] at this; exact this
        have hp1 : ∀ p ∈ pk ++ ps, PInfoOK (SMap.insert sr ch s') p ∧ p.sequence < seq1 := by
          intro p hpp
          simp only [List.mem_append] at hpp
          rcases hpp with hpp | hpp
          · obtain ⟨a1, a2⟩ := hp p hpp
            exact ⟨a1.step hget.1, by omega⟩
          · obtain ⟨a1, a2, a3⟩ := g7 p hpp
            refine ⟨PktOK.pinfo (sr := SMap.insert sr ch s') (s := s') ?_ g1 a1, a3⟩
            rw [hch']; exact find?_insert_self _ _ _
        obtain ⟨sr', su', pk', seq', avail', e, r1, r2, r3, r4, r5⟩ :=
          Conn.chanLoop_spec now rest (SMap.insert sr ch s') su (pk ++ ps) seq1 avail1 hc1 ho1 hp1
        refine ⟨sr', su', pk', seq', avail', ?_, r1, hget.trans r2, r3, r4, by omega⟩
        simp only [Conn.chanLoop, hf, hg]
        exact e
  | (false, ch) :: rest, sr, su, pk, seq, avail, hc, ho, hp => by
    have h0 := ho (false, ch) (by simp)
    simp only [Bool.false_eq_true, if_false] at h0
    cases hf : find? su ch with
    | none => rw [hf] at h0; cases h0
    | some s =>
      cases hg : s.getPackets seq avail with
      | mk s' r1 =>
        obtain ⟨ps, seq1, avail1⟩ := r1
        have hup := SendUnrel.getPackets_spec s seq avail s' ps seq1 avail1 hg
        have hsome : ∀ ch', (find? (SMap.insert su ch s') ch').isSome = (find? su ch').isSome := by
          intro ch'
          rw [find?_insert]
          by_cases c : ch = ch'
          · rw [if_pos c, ← c, hf]; rfl
          · rw [if_neg c]
        have ho1 : OrderOK rest sr (SMap.insert su ch s') := by
          intro x hx
          have := ho x (List.mem_cons_of_mem _ hx)
          split
          · rename_i hb; rw [if_pos hb] at this; exact this
          · rename_i hb; rw [if_neg hb] at this; rw [hsome]; exact this
        have hp1 : ∀ p ∈ pk ++ ps, PInfoOK sr p ∧ p.sequence < seq1 := by
          intro p hpp
          simp only [List.mem_append] at hpp
          rcases hpp with hpp | hpp
          · obtain ⟨a1, a2⟩ := hp p hpp
            exact ⟨a1, by have := hup.2; omega⟩
          · obtain ⟨a1, a2, a3, a4⟩ := hup.1 p hpp
            refine ⟨⟨a2, ?_⟩, a4⟩
            intro info hi
            rw [a1] at hi; cases hi
            intro ch' hch'; cases hch'
        obtain ⟨sr', su', pk', seq', avail', e, r1, r2, r3, r4, r5⟩ :=
          Conn.chanLoop_spec now rest sr (SMap.insert su ch s') (pk ++ ps) seq1 avail1 hc ho1 hp1
        refine ⟨sr', su', pk', seq', avail', ?_, r1, r2, fun ch' => (r3 ch').trans (hsome ch'), r4,
          by have := hup.2; omega⟩
        simp only [Conn.chanLoop, hf, hg]
        exact e

theorem Conn.recordSent_spec (now : Nat) : ∀ (pk : List Packet) (m m' : SMap (Nat × SentInfo)),
    Conn.recordSent now pk m = .ok m' → Sorted m →
    Sorted m' ∧ ∀ x ∈ m', x ∈ m ∨ ∃ p ∈ pk, x.1 = p.sequence ∧ Conn.sentInfoOf p = .ok x.2.2
  | [], m, m', h, hs => by
    simp only [Conn.recordSent, Res.ok.injEq] at h; subst h
    exact ⟨hs, fun x hx => Or.inl hx⟩
  | p :: rest, m, m', h, hs => by
    simp only [Conn.recordSent] at h
    cases hi : Conn.sentInfoOf p with
    | err e => exact e.elim
    | panic s => rw [hi] at h; cases h
    | ok info =>
      rw [hi] at h
      simp only [Res.bind_ok] at h
      obtain ⟨r1, r2⟩ := Conn.recordSent_spec now rest _ m' h (sorted_insert _ _ hs)
      refine ⟨r1, ?_⟩
      intro x hx
      rcases r2 x hx with hx | ⟨q, hq, hq2⟩
      · rcases mem_insert hx with rfl | hx
        · exact Or.inr ⟨p, by simp, rfl, hi⟩
        · exact Or.inl hx
      · exact Or.inr ⟨q, List.mem_cons_of_mem _ hq, hq2⟩

theorem Conn.recordSent_ok (now : Nat) : ∀ (pk : List Packet) (m : SMap (Nat × SentInfo)),
    (∀ p ∈ pk, ∃ info, Conn.sentInfoOf p = .ok info) → ∃ m', Conn.recordSent now pk m = .ok m'
  | [], m, _ => ⟨m, rfl⟩
  | p :: rest, m, h => by
    obtain ⟨info, hi⟩ := h p (by simp)
    simp only [Conn.recordSent, hi, Res.bind_ok]
    exact Conn.recordSent_ok now rest _ (fun q hq => h q (List.mem_cons_of_mem _ hq))

/-- the ack packet appended by `get_packets_to_send` can always be recorded when the pending list is well formed -/
theorem sentInfoOf_ack {seq : Nat} {l : List AckRange} (hw : Acks.WF l) (hne : l ≠ []) :
    ∃ largest, Conn.sentInfoOf (.ack seq l) = .ok (.ack largest) := by
  have hpos : ∀ r ∈ l, r.1 < r.2 := by
    intro r hr
    induction l with
    | nil => cases hr
    | cons a t ih =>
      rw [Acks.wf_cons_iff] at hw
      simp only [List.mem_cons] at hr
      rcases hr with rfl | hr
      · exact hw.1
      · cases t with
        | nil => cases hr
        | cons b t' => exact ih hw.2.1 (by simp) hr
  cases hl : l.getLast? with
  | none => rw [List.getLast?_eq_none_iff] at hl; exact absurd hl hne
  | some r =>
    obtain ⟨s, e⟩ := r
    have := hpos (s, e) (List.mem_of_getLast? hl)
    simp only at this
    refine ⟨e - 1, ?_⟩
    simp only [Conn.sentInfoOf, hl, Res.csub]
    rw [if_pos (by omega)]
    rfl

/-- Characterisation of `get_packets_to_send` on a live connection: everything up to serialisation
    succeeds; the only possible unwinding is inside `serialiseAll` (varint ≥ 2^62: see C16). -/
theorem Conn.getPacketsToSend_char {c : Conn} (h : c.SendInv) (hw : Acks.WF c.pendingAcks) (hd : c.isDisconnected = false) :
    ∃ (c1 : Conn) (pk0 : List Packet) (seq0 : Nat),
      c.getPacketsToSend =
        (match Conn.serialiseAll (if c.pendingAcks.isEmpty then pk0 else pk0 ++ [Packet.ack seq0 c.pendingAcks]) with
         | .ok bs => .ok (c1, bs)
         | .err e => .ok (c1.disconnectWith (.packetSer e), [])
         | .panic s => .panic s) ∧
      c1.SendInv ∧ (∀ p ∈ pk0, p.isAck = false) ∧ c1.pendingAcks = c.pendingAcks ∧
      SRGet c.sendRel c1.sendRel ∧ c.packetSeq ≤ c1.packetSeq ∧ c1.order = c.order ∧
      c1.recvRel = c.recvRel ∧ c1.recvUnrel = c.recvUnrel ∧ c1.status = c.status := by
  obtain ⟨h1, h2, h3, h4⟩ := h
  obtain ⟨sr, su, pk0, seq0, avail0, e, r1, r2, r3, r4, r5⟩ :=
    Conn.chanLoop_spec c.now c.order c.sendRel c.sendUnrel [] c.packetSeq c.budget h1 h4 (fun p hp => by cases hp)
  -- the final list of packets and sequence number
  have hinfo : ∀ p ∈ (if c.pendingAcks.isEmpty then pk0 else pk0 ++ [Packet.ack seq0 c.pendingAcks]),
      ∃ info, Conn.sentInfoOf p = .ok info := by
    intro p hp
    split at hp
    · exact sentInfoOf_of_not_ack (r4 p hp).1.1
    · rename_i hne
      simp only [List.mem_append, List.mem_singleton] at hp
      rcases hp with hp | rfl
      · exact sentInfoOf_of_not_ack (r4 p hp).1.1
      · obtain ⟨l, hl⟩ := sentInfoOf_ack (seq := seq0) hw (by intro e0; rw [e0] at hne; exact hne rfl)
        exact ⟨_, hl⟩
  obtain ⟨sent, hsent⟩ := Conn.recordSent_ok c.now _ c.sent hinfo
  obtain ⟨s1, s2⟩ := Conn.recordSent_spec c.now _ c.sent sent hsent h2
  refine ⟨{ c with sendRel := sr, sendUnrel := su,
                   packetSeq := if c.pendingAcks.isEmpty then seq0 else seq0 + 1, sent := sent }, pk0, seq0, ?_, ?_,
    fun p hp => (r4 p hp).1.1, rfl, r2, ?_, rfl, rfl, rfl, rfl⟩
  · unfold Conn.getPacketsToSend
    rw [hd]
    simp only [Bool.false_eq_true, if_false, e, Res.bind_ok]
    cases hE : c.pendingAcks.isEmpty
    · simp only [hE, Bool.false_eq_true, if_false] at hsent ⊢
      rw [hsent]
      simp only [Res.bind_ok]
      cases Conn.serialiseAll (pk0 ++ [Packet.ack seq0 c.pendingAcks]) <;> rfl
    · simp only [hE, if_true] at hsent ⊢
      rw [hsent]
      simp only [Res.bind_ok]
      cases Conn.serialiseAll pk0 <;> rfl
  · refine ⟨r1, s1, ?_, ?_⟩
    · intro x hx
      dsimp only
      rcases s2 x hx with hx | ⟨p, hp, hp1, hp2⟩
      · obtain ⟨a1, a2⟩ := h3 x hx
        refine ⟨?_, a2.step r2.1⟩
        split <;> omega
      · split at hp
        · obtain ⟨⟨-, b1⟩, b2⟩ := r4 p hp
          rename_i hem
          rw [if_pos hem]
          exact ⟨by omega, b1 _ hp2⟩
        · rename_i hem
          rw [if_neg hem]
          simp only [List.mem_append, List.mem_singleton] at hp
          rcases hp with hp | rfl
          · obtain ⟨⟨-, b1⟩, b2⟩ := r4 p hp
            exact ⟨by omega, b1 _ hp2⟩
          · refine ⟨by rw [hp1]; simp [Packet.sequence], ?_⟩
            obtain ⟨l, hl⟩ := sentInfoOf_ack (seq := seq0) hw (by intro e0; rw [e0] at hem; exact hem rfl)
            rw [hl] at hp2
            simp only [Res.ok.injEq] at hp2
            rw [← hp2]
            intro ch hch; cases hch
    · intro x hx
      have := h4 x hx
      dsimp only
      split
      · rename_i hb; rw [if_pos hb] at this; rw [r2.1.1]; exact this
      · rename_i hb; rw [if_neg hb] at this; rw [r3]; exact this
  · dsimp only
    split <;> omega

end RenetVerif
