/-
  Helper lemmas for C11 / C12: association-list facts, the status of a connection under every
  operation, per-channel frames of `Conn`, per-client frames of `Server`.
-/
import RenetVerif.Renet.Server
namespace RenetVerif.SL
open RenetVerif

/-! ### SMap -/
namespace SMap
open RenetVerif.SMap
variable {α : Type}

/-- keys strictly ascending (the `BTreeMap` / `HashMap` uniqueness invariant) -/
def Sorted (m : SMap α) : Prop := (keys m).Pairwise (· < ·)

@[simp] theorem keys_nil : keys ([] : SMap α) = [] := rfl
@[simp] theorem keys_cons (k : Nat) (v : α) (r : SMap α) : keys ((k, v) :: r) = k :: keys r := rfl

theorem sorted_nil : Sorted ([] : SMap α) := List.Pairwise.nil

theorem sorted_cons {k : Nat} {v : α} {r : SMap α} :
    Sorted ((k, v) :: r) ↔ (∀ k' ∈ keys r, k < k') ∧ Sorted r := by
  simp [Sorted, List.pairwise_cons]

theorem find?_insert_self (m : SMap α) (k : Nat) (v : α) : find? (insert m k v) k = some v := by
  induction m with
  | nil => simp [SMap.insert, find?]
  | cons p r ih =>
    obtain ⟨k', v'⟩ := p
    simp only [SMap.insert]
    split
    · simp [find?]
    · split
      · simp [find?]
      · rename_i h1 h2
        have : ¬ k' = k := fun h => h2 h.symm
        simp [find?, this, ih]

theorem find?_insert_ne (m : SMap α) (k j : Nat) (v : α) (h : j ≠ k) :
    find? (insert m k v) j = find? m j := by
  induction m with
  | nil => simp [SMap.insert, find?, Ne.symm h]
  | cons p r ih =>
    obtain ⟨k', v'⟩ := p
    simp only [SMap.insert]
    split
    · simp [find?, Ne.symm h]
    · split
      · rename_i h1 h2
        subst h2
        simp [find?, Ne.symm h]
      · simp only [find?, ih]

theorem find?_erase_ne (m : SMap α) (k j : Nat) (h : j ≠ k) :
    find? (erase m k) j = find? m j := by
  induction m with
  | nil => simp [erase]
  | cons p r ih =>
    obtain ⟨k', v'⟩ := p
    simp only [erase]
    split
    · rename_i h1
      subst h1
      simp [find?, Ne.symm h]
    · simp only [find?, ih]

theorem find?_eq_none_iff (m : SMap α) (k : Nat) : find? m k = none ↔ k ∉ keys m := by
  induction m with
  | nil => simp [find?]
  | cons p r ih =>
    obtain ⟨k', v'⟩ := p
    simp only [find?, keys_cons, List.mem_cons, not_or]
    split
    · rename_i h; subst h; simp
    · rename_i h
      rw [ih]
      constructor
      · intro h2; exact ⟨fun e => h e.symm, h2⟩
      · intro h2; exact h2.2

theorem contains_iff (m : SMap α) (k : Nat) : contains m k = true ↔ find? m k ≠ none := by
  simp [contains, Option.isSome_iff_ne_none]

theorem contains_eq_false_iff (m : SMap α) (k : Nat) : contains m k = false ↔ find? m k = none := by
  simp [contains]

theorem mem_keys_insert (m : SMap α) (k : Nat) (v : α) (x : Nat) :
    x ∈ keys (insert m k v) ↔ x = k ∨ x ∈ keys m := by
  have h1 := find?_eq_none_iff (insert m k v) x
  have h2 := find?_eq_none_iff m x
  by_cases hx : x = k
  · subst hx
    rw [find?_insert_self] at h1
    simp at h1
    simp [h1]
  · rw [find?_insert_ne m k x v hx] at h1
    simp only [hx, false_or]
    constructor
    · intro h; apply Classical.byContradiction; intro hn; exact (h1.mp (h2.mpr hn)) h
    · intro h; apply Classical.byContradiction; intro hn; exact (h2.mp (h1.mpr hn)) h

theorem mem_keys_erase (m : SMap α) (k x : Nat) (h : x ∈ keys (erase m k)) : x ∈ keys m := by
  induction m with
  | nil => simp [erase] at h
  | cons p r ih =>
    obtain ⟨k', v'⟩ := p
    simp only [erase] at h
    split at h
    · simp [h]
    · simp only [keys_cons, List.mem_cons] at h ⊢
      rcases h with h | h
      · exact Or.inl h
      · exact Or.inr (ih h)

theorem sorted_insert (m : SMap α) (k : Nat) (v : α) (h : Sorted m) : Sorted (insert m k v) := by
  induction m with
  | nil => simp [SMap.insert, Sorted]
  | cons p r ih =>
    obtain ⟨k', v'⟩ := p
    rw [sorted_cons] at h
    simp only [SMap.insert]
    split
    · rename_i hlt
      rw [sorted_cons]
      refine ⟨?_, sorted_cons.mpr h⟩
      intro x hx
      simp only [keys_cons, List.mem_cons] at hx
      rcases hx with rfl | hx
      · exact hlt
      · exact Nat.lt_trans hlt (h.1 x hx)
    · split
      · rename_i h1 h2
        subst h2
        exact sorted_cons.mpr h
      · rename_i h1 h2
        rw [sorted_cons]
        refine ⟨?_, ih h.2⟩
        intro x hx
        rw [mem_keys_insert] at hx
        rcases hx with rfl | hx
        · omega
        · exact h.1 x hx

theorem sorted_erase (m : SMap α) (k : Nat) (h : Sorted m) : Sorted (erase m k) := by
  induction m with
  | nil => simpa [erase] using h
  | cons p r ih =>
    obtain ⟨k', v'⟩ := p
    rw [sorted_cons] at h
    simp only [erase]
    split
    · exact h.2
    · rw [sorted_cons]
      exact ⟨fun x hx => h.1 x (mem_keys_erase r k x hx), ih h.2⟩

theorem find?_erase_self (m : SMap α) (k : Nat) (h : Sorted m) : find? (erase m k) k = none := by
  induction m with
  | nil => simp [erase, find?]
  | cons p r ih =>
    obtain ⟨k', v'⟩ := p
    rw [sorted_cons] at h
    simp only [erase]
    split
    · rename_i h1
      subst h1
      rw [find?_eq_none_iff]
      intro hk
      exact Nat.lt_irrefl _ (h.1 _ hk)
    · rename_i h1
      simp [find?, h1, ih h.2]

/-- pointwise map keeping the keys -/
theorem find?_map (f : Nat → α → α) (m : SMap α) (j : Nat) :
    find? (m.map (fun (k, c) => (k, f k c))) j = (find? m j).map (f j) := by
  induction m with
  | nil => simp [find?]
  | cons p r ih =>
    obtain ⟨k', v'⟩ := p
    simp only [List.map_cons, find?]
    split
    · rename_i h; subst h; simp
    · exact ih

theorem keys_map (f : Nat → α → α) (m : SMap α) :
    keys (m.map (fun (k, c) => (k, f k c))) = keys m := by
  induction m with
  | nil => rfl
  | cons p r ih =>
    obtain ⟨k', v'⟩ := p
    simp only [List.map_cons, keys_cons, ih]

end SMap

/-- drop the new state, keep the output -/
def Res.outOf {ε α β : Type} : Res ε (α × β) → Res ε β
  | .ok (_, b) => .ok b
  | .err e => .err e
  | .panic s => .panic s

/-- drop the output, keep the new state -/
def Res.stateOf {ε α β : Type} : Res ε (α × β) → Res ε α
  | .ok (a, _) => .ok a
  | .err e => .err e
  | .panic s => .panic s

/-! ### Conn: status -/
namespace Conn
open RenetVerif.Conn

theorem isDisconnected_of_status {c : Conn} {r : Reason} (h : c.status = .disconnected r) :
    c.isDisconnected = true := by simp [isDisconnected, h]

theorem isDisconnected_iff (c : Conn) : c.isDisconnected = true ↔ ∃ r, c.status = .disconnected r := by
  unfold isDisconnected
  split <;> simp_all

theorem disconnectReason_eq (c : Conn) (r : Reason) (h : c.status = .disconnected r) :
    c.disconnectReason = some r := by simp [disconnectReason, h]

theorem disconnectReason_none (c : Conn) (h : c.isDisconnected = false) : c.disconnectReason = none := by
  unfold isDisconnected at h
  unfold disconnectReason
  split <;> simp_all

@[simp] theorem disconnectWith_packetSeq (c : Conn) (r : Reason) : (c.disconnectWith r).packetSeq = c.packetSeq := by
  unfold disconnectWith; split <;> rfl
@[simp] theorem disconnectWith_now (c : Conn) (r : Reason) : (c.disconnectWith r).now = c.now := by
  unfold disconnectWith; split <;> rfl
@[simp] theorem disconnectWith_sent (c : Conn) (r : Reason) : (c.disconnectWith r).sent = c.sent := by
  unfold disconnectWith; split <;> rfl
@[simp] theorem disconnectWith_pendingAcks (c : Conn) (r : Reason) : (c.disconnectWith r).pendingAcks = c.pendingAcks := by
  unfold disconnectWith; split <;> rfl
@[simp] theorem disconnectWith_order (c : Conn) (r : Reason) : (c.disconnectWith r).order = c.order := by
  unfold disconnectWith; split <;> rfl
@[simp] theorem disconnectWith_sendUnrel (c : Conn) (r : Reason) : (c.disconnectWith r).sendUnrel = c.sendUnrel := by
  unfold disconnectWith; split <;> rfl
@[simp] theorem disconnectWith_recvUnrel (c : Conn) (r : Reason) : (c.disconnectWith r).recvUnrel = c.recvUnrel := by
  unfold disconnectWith; split <;> rfl
@[simp] theorem disconnectWith_sendRel (c : Conn) (r : Reason) : (c.disconnectWith r).sendRel = c.sendRel := by
  unfold disconnectWith; split <;> rfl
@[simp] theorem disconnectWith_recvRel (c : Conn) (r : Reason) : (c.disconnectWith r).recvRel = c.recvRel := by
  unfold disconnectWith; split <;> rfl
@[simp] theorem disconnectWith_budget (c : Conn) (r : Reason) : (c.disconnectWith r).budget = c.budget := by
  unfold disconnectWith; split <;> rfl

theorem disconnectWith_status (c : Conn) (r : Reason) :
    (c.disconnectWith r).status = if c.isDisconnected then c.status else .disconnected r := by
  unfold disconnectWith; split <;> rfl

theorem disconnectWith_isDisconnected (c : Conn) (r : Reason) : (c.disconnectWith r).isDisconnected = true := by
  unfold disconnectWith
  split
  · assumption
  · rfl

/-- `Keeps c c'`: if `c` is disconnected then `c'` is disconnected with the same reason -/
def Keeps (c c' : Conn) : Prop := ∀ r, c.status = .disconnected r → c'.status = .disconnected r

theorem Keeps.refl (c : Conn) : Keeps c c := fun _ h => h
theorem Keeps.trans {a b c : Conn} (h1 : Keeps a b) (h2 : Keeps b c) : Keeps a c := fun r h => h2 r (h1 r h)
theorem Keeps.of_status_eq {c c' : Conn} (h : c'.status = c.status) : Keeps c c' := fun r hr => by rw [h, hr]

theorem disconnectWith_of_disconnected {c : Conn} {r : Reason} (h : c.status = .disconnected r) (r' : Reason) :
    c.disconnectWith r' = c := by simp [disconnectWith, isDisconnected_of_status h]
theorem setConnected_of_disconnected {c : Conn} {r : Reason} (h : c.status = .disconnected r) :
    c.setConnected = c := by simp [setConnected, isDisconnected_of_status h]
theorem setConnecting_of_disconnected {c : Conn} {r : Reason} (h : c.status = .disconnected r) :
    c.setConnecting = c := by simp [setConnecting, isDisconnected_of_status h]
theorem sendMessage_of_disconnected {c : Conn} {r : Reason} (h : c.status = .disconnected r) (ch : Nat) (m : Bytes) :
    c.sendMessage ch m = .ok c := by simp [sendMessage, isDisconnected_of_status h]
theorem receiveMessage_of_disconnected {c : Conn} {r : Reason} (h : c.status = .disconnected r) (ch : Nat) :
    c.receiveMessage ch = .ok (c, none) := by simp [receiveMessage, isDisconnected_of_status h]
theorem processPacket_of_disconnected {c : Conn} {r : Reason} (h : c.status = .disconnected r) (b : Bytes) :
    c.processPacket b = .ok c := by simp [processPacket, isDisconnected_of_status h]
theorem getPacketsToSend_of_disconnected {c : Conn} {r : Reason} (h : c.status = .disconnected r) :
    c.getPacketsToSend = .ok (c, []) := by simp [getPacketsToSend, isDisconnected_of_status h]

theorem disconnectWith_keeps (c : Conn) (r : Reason) : Keeps c (c.disconnectWith r) :=
  fun _ h => by rw [disconnectWith_of_disconnected h]; exact h
theorem setConnected_keeps (c : Conn) : Keeps c c.setConnected :=
  fun _ h => by rw [setConnected_of_disconnected h]; exact h
theorem setConnecting_keeps (c : Conn) : Keeps c c.setConnecting :=
  fun _ h => by rw [setConnecting_of_disconnected h]; exact h
theorem sendMessage_keeps {c c' : Conn} {ch : Nat} {m : Bytes} (h : c.sendMessage ch m = .ok c') : Keeps c c' :=
  fun _ hr => by rw [sendMessage_of_disconnected hr] at h; cases h; exact hr
theorem receiveMessage_keeps {c c' : Conn} {ch : Nat} {m : Option Bytes} (h : c.receiveMessage ch = .ok (c', m)) :
    Keeps c c' :=
  fun _ hr => by rw [receiveMessage_of_disconnected hr] at h; cases h; exact hr
theorem processPacket_keeps {c c' : Conn} {b : Bytes} (h : c.processPacket b = .ok c') : Keeps c c' :=
  fun _ hr => by rw [processPacket_of_disconnected hr] at h; cases h; exact hr
theorem getPacketsToSend_keeps {c c' : Conn} {out : List Bytes} (h : c.getPacketsToSend = .ok (c', out)) :
    Keeps c c' :=
  fun _ hr => by rw [getPacketsToSend_of_disconnected hr] at h; cases h; exact hr

/-- `update` is not guarded by the status, but never writes it -/
theorem update_status {c c' : Conn} {dt : Nat} (h : c.update dt = .ok c') : c'.status = c.status := by
  unfold update at h
  cases hd : discardAll (c.now + dt) c.recvUnrel with
  | ok ru => simp [hd] at h; cases h; rfl
  | err e => simp [hd] at h
  | panic s => simp [hd] at h

theorem update_keeps {c c' : Conn} {dt : Nat} (h : c.update dt = .ok c') : Keeps c c' :=
  Keeps.of_status_eq (update_status h)

end Conn

/-! ### every public operation of a connection, as data -/
inductive ConnOp where
  | setConnected
  | setConnecting
  | disconnect                       -- `RenetClient::disconnect` (reason DisconnectedByClient)
  | disconnectWith (r : Reason)      -- `disconnect_with_reason` (used by the transports and the server)
  | sendMessage (ch : Nat) (m : Bytes)
  | receiveMessage (ch : Nat)
  | processPacket (bytes : Bytes)
  | getPacketsToSend
  | update (dt : Nat)

/-- apply one operation, dropping its output -/
def ConnOp.apply (c : Conn) : ConnOp → Res Empty Conn
  | .setConnected => .ok c.setConnected
  | .setConnecting => .ok c.setConnecting
  | .disconnect => .ok (c.disconnectWith .byClient)
  | .disconnectWith r => .ok (c.disconnectWith r)
  | .sendMessage ch m => c.sendMessage ch m
  | .receiveMessage ch => Res.stateOf (c.receiveMessage ch)
  | .processPacket b => c.processPacket b
  | .getPacketsToSend => Res.stateOf c.getPacketsToSend
  | .update dt => c.update dt

def Conn.runOps (c : Conn) : List ConnOp → Res Empty Conn
  | [] => .ok c
  | op :: rest =>
    match op.apply c with
    | .ok c' => Conn.runOps c' rest
    | .err e => .err e
    | .panic s => .panic s

theorem Res.stateOf_ok {ε α β : Type} {x : Res ε (α × β)} {a : α} (h : Res.stateOf x = .ok a) :
    ∃ b, x = .ok (a, b) := by
  unfold Res.stateOf at h
  split at h <;> simp at h
  subst h
  exact ⟨_, rfl⟩

theorem ConnOp.apply_keeps {c c' : Conn} {op : ConnOp} (h : op.apply c = .ok c') : Conn.Keeps c c' := by
  cases op with
  | setConnected => cases h; exact Conn.setConnected_keeps c
  | setConnecting => cases h; exact Conn.setConnecting_keeps c
  | disconnect => cases h; exact Conn.disconnectWith_keeps c _
  | disconnectWith r => cases h; exact Conn.disconnectWith_keeps c r
  | sendMessage ch m => exact Conn.sendMessage_keeps h
  | receiveMessage ch =>
    obtain ⟨m, hm⟩ := Res.stateOf_ok h
    exact Conn.receiveMessage_keeps hm
  | processPacket b => exact Conn.processPacket_keeps h
  | getPacketsToSend =>
    obtain ⟨m, hm⟩ := Res.stateOf_ok h
    exact Conn.getPacketsToSend_keeps hm
  | update dt => exact Conn.update_keeps h

theorem Conn.runOps_keeps : ∀ (ops : List ConnOp) (c c' : Conn), Conn.runOps c ops = .ok c' → Conn.Keeps c c'
  | [], c, c', h => by cases h; exact Conn.Keeps.refl c
  | op :: rest, c, c', h => by
    unfold Conn.runOps at h
    split at h
    · rename_i c1 h1
      exact (ConnOp.apply_keeps h1).trans (Conn.runOps_keeps rest c1 c' h)
    · cases h
    · cases h

/-- while disconnected, every operation except `update` leaves the whole connection untouched -/
theorem ConnOp.apply_of_disconnected {c : Conn} {r : Reason} (hr : c.status = .disconnected r) (op : ConnOp)
    (hop : ∀ dt, op ≠ .update dt) : op.apply c = .ok c := by
  cases op with
  | setConnected => simp [ConnOp.apply, Conn.setConnected_of_disconnected hr]
  | setConnecting => simp [ConnOp.apply, Conn.setConnecting_of_disconnected hr]
  | disconnect => simp [ConnOp.apply, Conn.disconnectWith_of_disconnected hr]
  | disconnectWith r => simp [ConnOp.apply, Conn.disconnectWith_of_disconnected hr]
  | sendMessage ch m => simp [ConnOp.apply, Conn.sendMessage_of_disconnected hr]
  | receiveMessage ch => simp [ConnOp.apply, Conn.receiveMessage_of_disconnected hr, Res.stateOf]
  | processPacket b => simp [ConnOp.apply, Conn.processPacket_of_disconnected hr]
  | getPacketsToSend => simp [ConnOp.apply, Conn.getPacketsToSend_of_disconnected hr, Res.stateOf]
  | update dt => exact absurd rfl (hop dt)

/-! ### Conn: per-channel frames -/

/-- the channel a data packet is addressed to (`none` for acknowledgement packets) -/
def Packet.dataChannel : Packet → Option Nat
  | .smallReliable _ ch _ | .smallUnreliable _ ch _ | .reliableSlice _ ch _ | .unreliableSlice _ ch _ => some ch
  | .ack .. => none

namespace Conn
open RenetVerif.Conn

/-- everything on the sending side except the send channels themselves -/
def SameSendSide (c c' : Conn) : Prop :=
  c'.sendRel = c.sendRel ∧ c'.sendUnrel = c.sendUnrel ∧ c'.sent = c.sent ∧ c'.packetSeq = c.packetSeq

/-- the configuration-like fields no message operation touches -/
def SameFixed (c c' : Conn) : Prop := c'.now = c.now ∧ c'.order = c.order ∧ c'.budget = c.budget

/-- all receive channels other than `ch` are untouched -/
def RecvFrame (ch : Nat) (c c' : Conn) : Prop :=
  ∀ ch', ch' ≠ ch → SMap.find? c'.recvRel ch' = SMap.find? c.recvRel ch' ∧
                    SMap.find? c'.recvUnrel ch' = SMap.find? c.recvUnrel ch'

/-- all send channels other than `ch` are untouched -/
def SendFrame (ch : Nat) (c c' : Conn) : Prop :=
  ∀ ch', ch' ≠ ch → SMap.find? c'.sendRel ch' = SMap.find? c.sendRel ch' ∧
                    SMap.find? c'.sendUnrel ch' = SMap.find? c.sendUnrel ch'

theorem sendMessage_frame {c c' : Conn} {ch : Nat} {m : Bytes} (h : c.sendMessage ch m = .ok c') :
    SendFrame ch c c' ∧ c'.recvRel = c.recvRel ∧ c'.recvUnrel = c.recvUnrel ∧ c'.sent = c.sent ∧
    c'.pendingAcks = c.pendingAcks ∧ c'.packetSeq = c.packetSeq ∧ SameFixed c c' := by
  unfold sendMessage at h
  split at h
  · cases h; simp [SendFrame, SameFixed]
  · split at h
    · split at h
      · cases h
        refine ⟨?_, rfl, rfl, rfl, rfl, rfl, rfl, rfl, rfl⟩
        intro ch' hne
        exact ⟨SMap.find?_insert_ne _ _ _ _ hne, rfl⟩
      · cases h; simp [SendFrame, SameFixed]
    · split at h
      · cases h
        refine ⟨?_, rfl, rfl, rfl, rfl, rfl, rfl, rfl, rfl⟩
        intro ch' hne
        exact ⟨rfl, SMap.find?_insert_ne _ _ _ _ hne⟩
      · cases h

theorem receiveMessage_frame {c c' : Conn} {ch : Nat} {m : Option Bytes} (h : c.receiveMessage ch = .ok (c', m)) :
    RecvFrame ch c c' ∧ SameSendSide c c' ∧ c'.pendingAcks = c.pendingAcks ∧ c'.status = c.status ∧
    SameFixed c c' := by
  unfold receiveMessage at h
  split at h
  · cases h; simp [RecvFrame, SameSendSide, SameFixed]
  · split at h
    · rename_i r hr
      cases hrr : r.receive with
      | ok x =>
        obtain ⟨r', m'⟩ := x
        simp [hrr] at h
        obtain ⟨h1, h2⟩ := h
        subst h1
        refine ⟨?_, ⟨rfl, rfl, rfl, rfl⟩, rfl, rfl, rfl, rfl, rfl⟩
        intro ch' hne
        exact ⟨SMap.find?_insert_ne _ _ _ _ hne, rfl⟩
      | err e => simp [hrr] at h
      | panic s => simp [hrr] at h
    · split at h
      · rename_i r hr
        cases hrr : r.receive with
        | ok x =>
          obtain ⟨r', m'⟩ := x
          simp [hrr] at h
          obtain ⟨h1, h2⟩ := h
          subst h1
          refine ⟨?_, ⟨rfl, rfl, rfl, rfl⟩, rfl, rfl, rfl, rfl, rfl⟩
          intro ch' hne
          exact ⟨rfl, SMap.find?_insert_ne _ _ _ _ hne⟩
        | err e => simp [hrr] at h
        | panic s => simp [hrr] at h
      · cases h

/-- what `receive_message` returns is determined by the status and by receive channel `ch` alone -/
theorem receiveMessage_local (c1 c2 : Conn) (ch : Nat) (hs : c1.isDisconnected = c2.isDisconnected)
    (h1 : SMap.find? c1.recvRel ch = SMap.find? c2.recvRel ch)
    (h2 : SMap.find? c1.recvUnrel ch = SMap.find? c2.recvUnrel ch) :
    Res.outOf (c1.receiveMessage ch) = Res.outOf (c2.receiveMessage ch) := by
  unfold receiveMessage
  rw [hs, h1, h2]
  split
  · rfl
  · split
    · rename_i r hr
      cases hrr : r.receive with
      | ok x => obtain ⟨r', m'⟩ := x; simp [Res.outOf]
      | err e => simp [Res.outOf]
      | panic s => simp [Res.outOf]
    · split
      · rename_i r hr
        cases hrr : r.receive with
        | ok x => obtain ⟨r', m'⟩ := x; simp [Res.outOf]
        | err e => simp [Res.outOf]
        | panic s => simp [Res.outOf]
      · rfl

/-- the receive side, the status and the fixed fields -/
def SameRecvSide (c c' : Conn) : Prop :=
  c'.recvRel = c.recvRel ∧ c'.recvUnrel = c.recvUnrel ∧ c'.status = c.status ∧ SameFixed c c'

theorem SameRecvSide.refl (c : Conn) : SameRecvSide c c := ⟨rfl, rfl, rfl, rfl, rfl, rfl⟩
theorem SameRecvSide.trans {a b c : Conn} (h1 : SameRecvSide a b) (h2 : SameRecvSide b c) : SameRecvSide a c := by
  obtain ⟨a1, a2, a3, a4, a5, a6⟩ := h1
  obtain ⟨b1, b2, b3, b4, b5, b6⟩ := h2
  exact ⟨b1.trans a1, b2.trans a2, b3.trans a3, b4.trans a4, b5.trans a5, b6.trans a6⟩

theorem ackOne_recv {c c' : Conn} {seq : Nat} (h : c.ackOne seq = .ok c') : SameRecvSide c c' := by
  unfold ackOne at h
  split at h
  · cases h
  · rename_i t info hf
    cases info with
    | none => simp at h; cases h; exact ⟨rfl, rfl, rfl, rfl, rfl, rfl⟩
    | ack l => simp at h; cases h; exact ⟨rfl, rfl, rfl, rfl, rfl, rfl⟩
    | relMsgs ch ids =>
      simp only at h
      split at h
      · cases h
      · rename_i s hs
        cases hl : ackMsgLoop s ids with
        | ok s' => simp [hl] at h; cases h; exact ⟨rfl, rfl, rfl, rfl, rfl, rfl⟩
        | err e => simp [hl] at h
        | panic p => simp [hl] at h
    | relSlice ch id idx =>
      simp only at h
      split at h
      · cases h
      · rename_i s hs
        cases hl : s.processSliceAck id idx with
        | ok s' => simp [hl] at h; cases h; exact ⟨rfl, rfl, rfl, rfl, rfl, rfl⟩
        | err e => simp [hl] at h
        | panic p => simp [hl] at h

theorem ackLoop_recv : ∀ (l : List Nat) (c c' : Conn), c.ackLoop l = .ok c' → SameRecvSide c c'
  | [], c, c', h => by cases h; exact SameRecvSide.refl c
  | seq :: rest, c, c', h => by
    unfold ackLoop at h
    cases h1 : c.ackOne seq with
    | ok c1 =>
      simp [h1] at h
      exact (ackOne_recv h1).trans (ackLoop_recv rest c1 c' h)
    | err e => simp [h1] at h
    | panic p => simp [h1] at h

/-- a data packet for channel `ch`: only receive channel `ch`, the pending acks and the status can change -/
theorem processPacket_data_frame {c c' : Conn} {bytes : Bytes} {p : Packet} {ch : Nat}
    (hp : Packet.fromBytes bytes = .ok p) (hch : Packet.dataChannel p = some ch)
    (h : c.processPacket bytes = .ok c') :
    RecvFrame ch c c' ∧ SameSendSide c c' ∧ SameFixed c c' := by
  unfold processPacket at h
  split at h
  · cases h; simp [RecvFrame, SameSendSide, SameFixed]
  · rw [hp] at h
    simp only at h
    cases p with
    | ack seq ranges => simp [Packet.dataChannel] at hch
    | smallReliable seq ch0 msgs =>
      simp only [Packet.dataChannel, Option.some.injEq] at hch
      subst hch
      simp only at h
      split at h
      · cases h; simp [RecvFrame, SameSendSide, SameFixed]
      · split at h
        · cases h
          refine ⟨?_, ⟨rfl, rfl, rfl, rfl⟩, rfl, rfl, rfl⟩
          intro ch' hne
          exact ⟨SMap.find?_insert_ne _ _ _ _ hne, rfl⟩
        · cases h
          refine ⟨?_, by simp [SameSendSide], by simp [SameFixed]⟩
          intro ch' hne
          simp only [disconnectWith_recvRel, disconnectWith_recvUnrel]
          exact ⟨SMap.find?_insert_ne _ _ _ _ hne, trivial⟩
        · cases h
    | reliableSlice seq ch0 sl =>
      simp only [Packet.dataChannel, Option.some.injEq] at hch
      subst hch
      simp only at h
      split at h
      · cases h; simp [RecvFrame, SameSendSide, SameFixed]
      · split at h
        · cases h
          refine ⟨?_, ⟨rfl, rfl, rfl, rfl⟩, rfl, rfl, rfl⟩
          intro ch' hne
          exact ⟨SMap.find?_insert_ne _ _ _ _ hne, rfl⟩
        · cases h
          refine ⟨?_, by simp [SameSendSide], by simp [SameFixed]⟩
          intro ch' hne
          simp only [disconnectWith_recvRel, disconnectWith_recvUnrel]
          exact ⟨SMap.find?_insert_ne _ _ _ _ hne, trivial⟩
        · cases h
    | smallUnreliable seq ch0 msgs =>
      simp only [Packet.dataChannel, Option.some.injEq] at hch
      subst hch
      simp only at h
      split at h
      · cases h; simp [RecvFrame, SameSendSide, SameFixed]
      · cases h
        refine ⟨?_, ⟨rfl, rfl, rfl, rfl⟩, rfl, rfl, rfl⟩
        intro ch' hne
        exact ⟨rfl, SMap.find?_insert_ne _ _ _ _ hne⟩
    | unreliableSlice seq ch0 sl =>
      simp only [Packet.dataChannel, Option.some.injEq] at hch
      subst hch
      simp only at h
      split at h
      · cases h; simp [RecvFrame, SameSendSide, SameFixed]
      · split at h
        · cases h
          refine ⟨?_, ⟨rfl, rfl, rfl, rfl⟩, rfl, rfl, rfl⟩
          intro ch' hne
          exact ⟨rfl, SMap.find?_insert_ne _ _ _ _ hne⟩
        · cases h
          refine ⟨?_, by simp [SameSendSide], by simp [SameFixed]⟩
          intro ch' hne
          simp only [disconnectWith_recvRel, disconnectWith_recvUnrel]
          exact ⟨trivial, SMap.find?_insert_ne _ _ _ _ hne⟩
        · cases h

/-- an acknowledgement packet touches no receive channel and never changes the status -/
theorem processPacket_ack_frame {c c' : Conn} {bytes : Bytes} {seq : Nat} {ranges : List AckRange}
    (hp : Packet.fromBytes bytes = .ok (.ack seq ranges)) (h : c.processPacket bytes = .ok c') :
    SameRecvSide c c' := by
  unfold processPacket at h
  split at h
  · cases h; exact SameRecvSide.refl c
  · rw [hp] at h
    simp only at h
    cases hn : newAcks c.sent ranges with
    | ok acks =>
      simp [hn] at h
      obtain ⟨a1, a2, a3, a4, a5, a6⟩ := ackLoop_recv _ _ _ h
      exact ⟨a1, a2, a3, a4, a5, a6⟩
    | err e => simp [hn] at h
    | panic s => simp [hn] at h

/-- an undecodable packet changes nothing but the status -/
theorem processPacket_garbage {c : Conn} {bytes : Bytes} {e : SerErr}
    (hp : Packet.fromBytes bytes = .error e) :
    c.processPacket bytes = .ok (c.disconnectWith (.packetDeser e)) := by
  unfold processPacket
  split
  · rename_i hd
    simp [disconnectWith, hd]
  · rw [hp]

end Conn

/-! ### Server: per-client frames -/

/-- `QuietC m m'`: same key set; every connection evolved by status-monotone steps -/
structure QuietC (m m' : SMap Conn) : Prop where
  sorted : SMap.Sorted m → SMap.Sorted m'
  absent : ∀ j, SMap.find? m j = none → SMap.find? m' j = none
  present : ∀ j c, SMap.find? m j = some c → ∃ c', SMap.find? m' j = some c' ∧ Conn.Keeps c c'

theorem QuietC.refl (m : SMap Conn) : QuietC m m :=
  ⟨id, fun _ h => h, fun _ c h => ⟨c, h, Conn.Keeps.refl c⟩⟩

theorem QuietC.trans {a b c : SMap Conn} (h1 : QuietC a b) (h2 : QuietC b c) : QuietC a c := by
  refine ⟨fun h => h2.sorted (h1.sorted h), fun j h => h2.absent j (h1.absent j h), ?_⟩
  intro j x hx
  obtain ⟨y, hy, k1⟩ := h1.present j x hx
  obtain ⟨z, hz, k2⟩ := h2.present j y hy
  exact ⟨z, hz, k1.trans k2⟩

theorem QuietC.contains {m m' : SMap Conn} (h : QuietC m m') (j : Nat) :
    SMap.contains m' j = SMap.contains m j := by
  unfold SMap.contains
  cases hf : SMap.find? m j with
  | none => rw [h.absent j hf]
  | some c =>
    obtain ⟨c', hc', _⟩ := h.present j c hf
    rw [hc']; rfl

/-- replacing the value under an existing key -/
theorem QuietC.replace {m : SMap Conn} {i : Nat} {c c' : Conn} (hf : SMap.find? m i = some c)
    (hk : Conn.Keeps c c') : QuietC m (SMap.insert m i c') := by
  refine ⟨SMap.sorted_insert m i c', ?_, ?_⟩
  · intro j hj
    have : j ≠ i := by intro e; subst e; rw [hf] at hj; cases hj
    rw [SMap.find?_insert_ne _ _ _ _ this]; exact hj
  · intro j x hx
    by_cases e : j = i
    · subst e
      rw [hf] at hx; cases hx
      exact ⟨c', SMap.find?_insert_self _ _ _, hk⟩
    · exact ⟨x, by rw [SMap.find?_insert_ne _ _ _ _ e]; exact hx, Conn.Keeps.refl x⟩

namespace Server
open RenetVerif.Server

/-- an operation addressed to client `i`: events, configuration and every other client untouched -/
structure Addressed (i : Nat) (s s' : Server) : Prop where
  events : s'.events = s.events
  budget : s'.budget = s.budget
  serverCh : s'.serverCh = s.serverCh
  clientCh : s'.clientCh = s.clientCh
  others : ∀ j, j ≠ i → SMap.find? s'.conns j = SMap.find? s.conns j

theorem Addressed.refl (i : Nat) (s : Server) : Addressed i s s := ⟨rfl, rfl, rfl, rfl, fun _ _ => rfl⟩

theorem Addressed.trans {i : Nat} {a b c : Server} (h1 : Addressed i a b) (h2 : Addressed i b c) :
    Addressed i a c :=
  ⟨h2.events.trans h1.events, h2.budget.trans h1.budget, h2.serverCh.trans h1.serverCh,
   h2.clientCh.trans h1.clientCh, fun j hj => (h2.others j hj).trans (h1.others j hj)⟩

theorem Addressed.setConn (s : Server) (i : Nat) (c' : Conn) :
    Addressed i s { s with conns := SMap.insert s.conns i c' } :=
  ⟨rfl, rfl, rfl, rfl, fun _ hj => SMap.find?_insert_ne _ _ _ _ hj⟩

theorem mapConnsM_spec (f : Nat → Conn → Res Empty Conn) : ∀ (m m' : SMap Conn), mapConnsM f m = .ok m' →
    SMap.keys m' = SMap.keys m ∧
    ∀ j, (SMap.find? m j = none → SMap.find? m' j = none) ∧
         (∀ c, SMap.find? m j = some c → ∃ c', f j c = .ok c' ∧ SMap.find? m' j = some c')
  | [], m', h => by
    cases h
    exact ⟨rfl, fun j => ⟨fun _ => rfl, fun c hc => by simp [SMap.find?] at hc⟩⟩
  | (k, c0) :: rest, m', h => by
    unfold mapConnsM at h
    cases h1 : f k c0 with
    | err e => simp [h1] at h
    | panic p => simp [h1] at h
    | ok c1 =>
      cases h2 : mapConnsM f rest with
      | err e => simp [h1, h2] at h
      | panic p => simp [h1, h2] at h
      | ok rest' =>
        simp [h1, h2] at h
        subst h
        obtain ⟨ihk, ih⟩ := mapConnsM_spec f rest rest' h2
        refine ⟨by simp [ihk], ?_⟩
        intro j
        simp only [SMap.find?]
        split
        · rename_i e
          subst e
          refine ⟨?_, ?_⟩
          · intro hh; cases hh
          · intro c hc
            cases hc
            exact ⟨c1, h1, rfl⟩
        · exact ih j

theorem mapConnsM_quiet (f : Nat → Conn → Res Empty Conn)
    (hk : ∀ k c c', f k c = .ok c' → Conn.Keeps c c') {m m' : SMap Conn} (h : mapConnsM f m = .ok m') :
    QuietC m m' := by
  obtain ⟨hkeys, hp⟩ := mapConnsM_spec f m m' h
  refine ⟨fun hs => by unfold SMap.Sorted; rw [hkeys]; exact hs, fun j => (hp j).1, ?_⟩
  intro j c hc
  obtain ⟨c', h1, h2⟩ := (hp j).2 c hc
  exact ⟨c', h2, hk j c c' h1⟩

/-! #### what each operation does to client `i`, and that it does nothing else -/

theorem disconnect_spec (s : Server) (i : Nat) :
    Addressed i s (s.disconnect i) ∧ QuietC s.conns (s.disconnect i).conns ∧
    SMap.find? (s.disconnect i).conns i = (SMap.find? s.conns i).map (·.disconnectWith .byServer) := by
  unfold disconnect
  cases hf : SMap.find? s.conns i with
  | none => exact ⟨Addressed.refl i s, QuietC.refl _, by simp [hf]⟩
  | some c =>
    exact ⟨Addressed.setConn s i _, QuietC.replace hf (Conn.disconnectWith_keeps c _),
      by simp [SMap.find?_insert_self]⟩

theorem sendMessage_spec {s s' : Server} {i ch : Nat} {m : Bytes} (h : s.sendMessage i ch m = .ok s') :
    Addressed i s s' ∧ QuietC s.conns s'.conns ∧
    ((SMap.find? s.conns i = none ∧ s' = s) ∨
     (∃ c c', SMap.find? s.conns i = some c ∧ c.sendMessage ch m = .ok c' ∧ SMap.find? s'.conns i = some c')) := by
  unfold sendMessage at h
  split at h
  · rename_i hf
    cases h
    exact ⟨Addressed.refl i s, QuietC.refl _, Or.inl ⟨hf, rfl⟩⟩
  · rename_i c hf
    cases hc : c.sendMessage ch m with
    | err e => simp [hc] at h
    | panic p => simp [hc] at h
    | ok c' =>
      simp [hc] at h
      subst h
      exact ⟨Addressed.setConn s i c', QuietC.replace hf (Conn.sendMessage_keeps hc),
        Or.inr ⟨c, c', hf, hc, SMap.find?_insert_self _ _ _⟩⟩

theorem receiveMessage_spec {s s' : Server} {i ch : Nat} {out : Option Bytes}
    (h : s.receiveMessage i ch = .ok (s', out)) :
    Addressed i s s' ∧ QuietC s.conns s'.conns ∧
    ((SMap.find? s.conns i = none ∧ s' = s ∧ out = none) ∨
     (∃ c c', SMap.find? s.conns i = some c ∧ c.receiveMessage ch = .ok (c', out) ∧
        SMap.find? s'.conns i = some c')) := by
  unfold receiveMessage at h
  split at h
  · rename_i hf
    cases h
    exact ⟨Addressed.refl i s, QuietC.refl _, Or.inl ⟨hf, rfl, rfl⟩⟩
  · rename_i c hf
    cases hc : c.receiveMessage ch with
    | err e => simp [hc] at h
    | panic p => simp [hc] at h
    | ok x =>
      obtain ⟨c', o⟩ := x
      simp [hc] at h
      obtain ⟨h1, h2⟩ := h
      subst h1; subst h2
      exact ⟨Addressed.setConn s i c', QuietC.replace hf (Conn.receiveMessage_keeps hc),
        Or.inr ⟨c, c', hf, hc, SMap.find?_insert_self _ _ _⟩⟩

theorem getPacketsToSend_spec {s s' : Server} {i : Nat} {out : Option (List Bytes)}
    (h : s.getPacketsToSend i = .ok (s', out)) :
    Addressed i s s' ∧ QuietC s.conns s'.conns ∧
    ((SMap.find? s.conns i = none ∧ s' = s ∧ out = none) ∨
     (∃ c c' ps, SMap.find? s.conns i = some c ∧ c.getPacketsToSend = .ok (c', ps) ∧ out = some ps ∧
        SMap.find? s'.conns i = some c')) := by
  unfold getPacketsToSend at h
  split at h
  · rename_i hf
    cases h
    exact ⟨Addressed.refl i s, QuietC.refl _, Or.inl ⟨hf, rfl, rfl⟩⟩
  · rename_i c hf
    cases hc : c.getPacketsToSend with
    | err e => simp [hc] at h
    | panic p => simp [hc] at h
    | ok x =>
      obtain ⟨c', ps⟩ := x
      simp [hc] at h
      obtain ⟨h1, h2⟩ := h
      subst h1; subst h2
      exact ⟨Addressed.setConn s i c', QuietC.replace hf (Conn.getPacketsToSend_keeps hc),
        Or.inr ⟨c, c', ps, hf, hc, rfl, SMap.find?_insert_self _ _ _⟩⟩

theorem processPacketFrom_spec {s s' : Server} {i : Nat} {bytes : Bytes} {out : Bool}
    (h : s.processPacketFrom bytes i = .ok (s', out)) :
    Addressed i s s' ∧ QuietC s.conns s'.conns ∧
    ((SMap.find? s.conns i = none ∧ s' = s ∧ out = false) ∨
     (∃ c c', SMap.find? s.conns i = some c ∧ c.processPacket bytes = .ok c' ∧ out = true ∧
        SMap.find? s'.conns i = some c')) := by
  unfold processPacketFrom at h
  split at h
  · rename_i hf
    cases h
    exact ⟨Addressed.refl i s, QuietC.refl _, Or.inl ⟨hf, rfl, rfl⟩⟩
  · rename_i c hf
    cases hc : c.processPacket bytes with
    | err e => simp [hc] at h
    | panic p => simp [hc] at h
    | ok c' =>
      simp [hc] at h
      obtain ⟨h1, h2⟩ := h
      subst h1; subst h2
      exact ⟨Addressed.setConn s i c', QuietC.replace hf (Conn.processPacket_keeps hc),
        Or.inr ⟨c, c', hf, hc, rfl, SMap.find?_insert_self _ _ _⟩⟩

/-- outputs are functions of the addressed client's connection alone -/
theorem receiveMessage_out (s : Server) (i ch : Nat) :
    Res.outOf (s.receiveMessage i ch) =
      match SMap.find? s.conns i with
      | none => .ok none
      | some c => Res.outOf (c.receiveMessage ch) := by
  cases hf : SMap.find? s.conns i with
  | none => simp [receiveMessage, hf, Res.outOf]
  | some c =>
    cases hc : c.receiveMessage ch with
    | ok x => obtain ⟨c', o⟩ := x; simp [receiveMessage, hf, hc, Res.outOf]
    | err e => simp [receiveMessage, hf, hc, Res.outOf]
    | panic p => simp [receiveMessage, hf, hc, Res.outOf]

theorem getPacketsToSend_out (s : Server) (i : Nat) :
    Res.outOf (s.getPacketsToSend i) =
      match SMap.find? s.conns i with
      | none => .ok none
      | some c => match c.getPacketsToSend with
        | .ok (_, ps) => .ok (some ps)
        | .err e => .err e
        | .panic p => .panic p := by
  cases hf : SMap.find? s.conns i with
  | none => simp [getPacketsToSend, hf, Res.outOf]
  | some c =>
    cases hc : c.getPacketsToSend with
    | ok x => obtain ⟨c', o⟩ := x; simp [getPacketsToSend, hf, hc, Res.outOf]
    | err e => simp [getPacketsToSend, hf, hc, Res.outOf]
    | panic p => simp [getPacketsToSend, hf, hc, Res.outOf]

theorem processPacketFrom_out (s : Server) (bytes : Bytes) (i : Nat) :
    Res.outOf (s.processPacketFrom bytes i) =
      match SMap.find? s.conns i with
      | none => .ok false
      | some c => match c.processPacket bytes with
        | .ok _ => .ok true
        | .err e => .err e
        | .panic p => .panic p := by
  cases hf : SMap.find? s.conns i with
  | none => simp [processPacketFrom, hf, Res.outOf]
  | some c =>
    cases hc : c.processPacket bytes with
    | ok x => simp [processPacketFrom, hf, hc, Res.outOf]
    | err e => simp [processPacketFrom, hf, hc, Res.outOf]
    | panic p => simp [processPacketFrom, hf, hc, Res.outOf]

/-! #### operations on all clients -/

theorem disconnectAll_find (s : Server) (j : Nat) :
    SMap.find? s.disconnectAll.conns j = (SMap.find? s.conns j).map (·.disconnectWith .byServer) :=
  SMap.find?_map (fun (_ : Nat) (c : Conn) => c.disconnectWith .byServer) s.conns j

theorem disconnectAll_quiet (s : Server) : QuietC s.conns s.disconnectAll.conns := by
  refine ⟨?_, ?_, ?_⟩
  · intro hs
    unfold SMap.Sorted disconnectAll
    rw [SMap.keys_map (fun (_ : Nat) (c : Conn) => c.disconnectWith .byServer)]
    exact hs
  · intro j hj; rw [disconnectAll_find, hj]; rfl
  · intro j c hj
    rw [disconnectAll_find, hj]
    exact ⟨_, rfl, Conn.disconnectWith_keeps c _⟩

theorem broadcast_spec {s s' : Server} {ch : Nat} {m : Bytes} (h : s.broadcast ch m = .ok s') :
    s'.events = s.events ∧ QuietC s.conns s'.conns ∧
    ∀ j, (SMap.find? s.conns j = none → SMap.find? s'.conns j = none) ∧
         (∀ c, SMap.find? s.conns j = some c →
            ∃ c', c.sendMessage ch m = .ok c' ∧ SMap.find? s'.conns j = some c') := by
  unfold broadcast at h
  cases hm : mapConnsM (fun _ c => c.sendMessage ch m) s.conns with
  | err e => simp [hm] at h
  | panic p => simp [hm] at h
  | ok cs =>
    simp [hm] at h
    subst h
    exact ⟨rfl, mapConnsM_quiet _ (fun _ _ _ hh => Conn.sendMessage_keeps hh) hm,
      (mapConnsM_spec _ _ _ hm).2⟩

theorem broadcastExcept_spec {s s' : Server} {ex ch : Nat} {m : Bytes}
    (h : s.broadcastExcept ex ch m = .ok s') :
    s'.events = s.events ∧ QuietC s.conns s'.conns ∧
    SMap.find? s'.conns ex = SMap.find? s.conns ex ∧
    ∀ j, j ≠ ex → (SMap.find? s.conns j = none → SMap.find? s'.conns j = none) ∧
         (∀ c, SMap.find? s.conns j = some c →
            ∃ c', c.sendMessage ch m = .ok c' ∧ SMap.find? s'.conns j = some c') := by
  unfold broadcastExcept at h
  cases hm : mapConnsM (fun k c => if k = ex then .ok c else c.sendMessage ch m) s.conns with
  | err e => simp [hm] at h
  | panic p => simp [hm] at h
  | ok cs =>
    simp [hm] at h
    subst h
    have hp := (mapConnsM_spec _ _ _ hm).2
    refine ⟨rfl, mapConnsM_quiet _ ?_ hm, ?_, ?_⟩
    · intro k c c' hh
      split at hh
      · cases hh; exact Conn.Keeps.refl c
      · exact Conn.sendMessage_keeps hh
    · cases hf : SMap.find? s.conns ex with
      | none => exact (hp ex).1 hf
      | some c =>
        obtain ⟨c', h1, h2⟩ := (hp ex).2 c hf
        simp at h1
        subst h1
        exact h2
    · intro j hj
      refine ⟨(hp j).1, ?_⟩
      intro c hc
      obtain ⟨c', h1, h2⟩ := (hp j).2 c hc
      simp [hj] at h1
      exact ⟨c', h1, h2⟩

theorem update_spec {s s' : Server} {dt : Nat} (h : s.update dt = .ok s') :
    s'.events = s.events ∧ QuietC s.conns s'.conns ∧
    ∀ j, (SMap.find? s.conns j = none → SMap.find? s'.conns j = none) ∧
         (∀ c, SMap.find? s.conns j = some c →
            ∃ c', c.update dt = .ok c' ∧ SMap.find? s'.conns j = some c') := by
  unfold update at h
  cases hm : mapConnsM (fun _ c => c.update dt) s.conns with
  | err e => simp [hm] at h
  | panic p => simp [hm] at h
  | ok cs =>
    simp [hm] at h
    subst h
    exact ⟨rfl, mapConnsM_quiet _ (fun _ _ _ hh => Conn.update_keeps hh) hm,
      (mapConnsM_spec _ _ _ hm).2⟩

/-! #### local clients -/

theorem feedServer_spec : ∀ (ps : List Bytes) (s s' : Server) (i : Nat) (ok : Bool),
    feedServer s i ps = .ok (s', ok) → Addressed i s s' ∧ QuietC s.conns s'.conns
  | [], s, s', i, ok, h => by
    cases h; exact ⟨Addressed.refl i s, QuietC.refl _⟩
  | p :: rest, s, s', i, ok, h => by
    unfold feedServer at h
    cases h1 : s.processPacketFrom p i with
    | err e => simp [h1] at h
    | panic q => simp [h1] at h
    | ok x =>
      obtain ⟨s1, ok1⟩ := x
      obtain ⟨a1, q1, _⟩ := processPacketFrom_spec h1
      simp [h1] at h
      split at h
      · obtain ⟨a2, q2⟩ := feedServer_spec rest s1 s' i ok h
        exact ⟨a1.trans a2, q1.trans q2⟩
      · simp at h
        obtain ⟨e1, e2⟩ := h
        subst e1
        exact ⟨a1, q1⟩

theorem processLocalClient_spec {s s' : Server} {i : Nat} {cl cl' : Conn} {ok : Bool}
    (h : s.processLocalClient i cl = .ok (s', cl', ok)) :
    Addressed i s s' ∧ QuietC s.conns s'.conns := by
  unfold processLocalClient at h
  cases h1 : s.getPacketsToSend i with
  | err e => simp [h1] at h
  | panic q => simp [h1] at h
  | ok x =>
    obtain ⟨s1, ps⟩ := x
    obtain ⟨a1, q1, _⟩ := getPacketsToSend_spec h1
    simp [h1] at h
    cases ps with
    | none =>
      simp at h
      obtain ⟨e1, _⟩ := h
      subst e1
      exact ⟨a1, q1⟩
    | some ps =>
      simp only at h
      cases h2 : feedClient cl ps with
      | err e => simp [h2] at h
      | panic q => simp [h2] at h
      | ok cl1 =>
        simp [h2] at h
        cases h3 : cl1.getPacketsToSend with
        | err e => simp [h3] at h
        | panic q => simp [h3] at h
        | ok y =>
          obtain ⟨cl2, out⟩ := y
          simp [h3] at h
          cases h4 : feedServer s1 i out with
          | err e => simp [h4] at h
          | panic q => simp [h4] at h
          | ok z =>
            obtain ⟨s2, ok2⟩ := z
            simp [h4] at h
            obtain ⟨e1, _⟩ := h
            subst e1
            obtain ⟨a2, q2⟩ := feedServer_spec out s1 s2 i ok2 h4
            exact ⟨a1.trans a2, q1.trans q2⟩

end Server

/-! ### Server: the event log -/

/-- every public operation of `RenetServer`, as data.  The local-client operations take the client
    object as an arbitrary argument: nothing below depends on which one is passed. -/
inductive SrvOp where
  | add (id : Nat)
  | remove (id : Nat)
  | disconnect (id : Nat)
  | disconnectAll
  | broadcast (ch : Nat) (m : Bytes)
  | broadcastExcept (ex ch : Nat) (m : Bytes)
  | send (id ch : Nat) (m : Bytes)
  | receive (id ch : Nat)
  | update (dt : Nat)
  | getPacketsToSend (id : Nat)
  | processPacketFrom (bytes : Bytes) (id : Nat)
  | getEvent
  | newLocalClient (id : Nat)
  | disconnectLocalClient (id : Nat) (cl : Conn)
  | processLocalClient (id : Nat) (cl : Conn)

/-- the server together with the events `get_event` has already handed out (ghost state) -/
abbrev SrvState := Server × List Event

/-- all events ever pushed, in order -/
def eventLog (st : SrvState) : List Event := st.2 ++ st.1.events

def keepPopped (popped : List Event) : Res Empty Server → Res Empty SrvState
  | .ok s => .ok (s, popped)
  | .err e => .err e
  | .panic p => .panic p

/-- apply one operation, dropping its output -/
def SrvOp.apply (st : SrvState) : SrvOp → Res Empty SrvState
  | .add id => .ok (st.1.addConnection id, st.2)
  | .remove id => .ok (st.1.removeConnection id, st.2)
  | .disconnect id => .ok (st.1.disconnect id, st.2)
  | .disconnectAll => .ok (st.1.disconnectAll, st.2)
  | .broadcast ch m => keepPopped st.2 (st.1.broadcast ch m)
  | .broadcastExcept ex ch m => keepPopped st.2 (st.1.broadcastExcept ex ch m)
  | .send id ch m => keepPopped st.2 (st.1.sendMessage id ch m)
  | .receive id ch => keepPopped st.2 (Res.stateOf (st.1.receiveMessage id ch))
  | .update dt => keepPopped st.2 (st.1.update dt)
  | .getPacketsToSend id => keepPopped st.2 (Res.stateOf (st.1.getPacketsToSend id))
  | .processPacketFrom b id => keepPopped st.2 (Res.stateOf (st.1.processPacketFrom b id))
  | .getEvent => .ok ((st.1.getEvent).1, st.2 ++ (st.1.getEvent).2.toList)
  | .newLocalClient id => .ok ((st.1.newLocalClient id).1, st.2)
  | .disconnectLocalClient id cl => .ok ((st.1.disconnectLocalClient id cl).1, st.2)
  | .processLocalClient id cl => keepPopped st.2 (Res.stateOf (st.1.processLocalClient id cl))

def runSrv (st : SrvState) : List SrvOp → Res Empty SrvState
  | [] => .ok st
  | op :: rest =>
    match op.apply st with
    | .ok st' => runSrv st' rest
    | .err e => .err e
    | .panic p => .panic p

theorem keepPopped_ok {popped : List Event} {x : Res Empty Server} {st' : SrvState}
    (h : keepPopped popped x = .ok st') : x = .ok st'.1 ∧ st'.2 = popped := by
  unfold keepPopped at h
  split at h <;> simp at h
  subst h
  exact ⟨rfl, rfl⟩

/-- what one operation can do to the connection table and the log -/
def Step (st st' : SrvState) : Prop :=
  (QuietC st.1.conns st'.1.conns ∧ eventLog st' = eventLog st) ∨
  (∃ id c0, SMap.find? st.1.conns id = none ∧ st'.1.conns = SMap.insert st.1.conns id c0 ∧
     eventLog st' = eventLog st ++ [.connected id]) ∨
  (∃ id c r, SMap.find? st.1.conns id = some c ∧ st'.1.conns = SMap.erase st.1.conns id ∧
     eventLog st' = eventLog st ++ [.disconnected id r] ∧ ∀ r0, c.status = .disconnected r0 → r = r0)

theorem Step.quiet_of {st st' : SrvState} (hq : QuietC st.1.conns st'.1.conns)
    (he : st'.1.events = st.1.events) (hp : st'.2 = st.2) : Step st st' :=
  Or.inl ⟨hq, by simp [eventLog, he, hp]⟩

theorem addConnection_step (s : Server) (popped : List Event) (id : Nat) :
    Step (s, popped) (s.addConnection id, popped) := by
  unfold Server.addConnection
  split
  · exact Step.quiet_of (QuietC.refl _) rfl rfl
  · rename_i hc
    refine Or.inr (Or.inl ⟨id, _, ?_, rfl, ?_⟩)
    · simpa [SMap.contains] using hc
    · simp [eventLog]

theorem SrvOp.apply_step {st st' : SrvState} {op : SrvOp} (h : op.apply st = .ok st') : Step st st' := by
  obtain ⟨s, popped⟩ := st
  cases op with
  | add id => cases h; exact addConnection_step s popped id
  | newLocalClient id => cases h; exact addConnection_step s popped id
  | remove id =>
    cases h
    simp only [Server.removeConnection]
    split
    · exact Step.quiet_of (QuietC.refl _) rfl rfl
    · rename_i c hf
      refine Or.inr (Or.inr ⟨id, c, c.disconnectReason.getD .transport, hf, rfl, ?_, ?_⟩)
      · simp [eventLog]
      · intro r0 hr0; simp [Conn.disconnectReason_eq c r0 hr0]
  | disconnectLocalClient id cl =>
    cases h
    simp only [Server.disconnectLocalClient]
    split
    · exact Step.quiet_of (QuietC.refl _) rfl rfl
    · split
      · exact Step.quiet_of (QuietC.refl _) rfl rfl
      · rename_i c hf
        refine Or.inr (Or.inr ⟨id, c, c.disconnectReason.getD .byClient, hf, rfl, ?_, ?_⟩)
        · simp [eventLog]
        · intro r0 hr0; simp [Conn.disconnectReason_eq c r0 hr0]
  | disconnect id =>
    cases h
    exact Step.quiet_of (Server.disconnect_spec s id).2.1 (Server.disconnect_spec s id).1.events rfl
  | disconnectAll =>
    cases h
    exact Step.quiet_of (Server.disconnectAll_quiet s) rfl rfl
  | broadcast ch m =>
    obtain ⟨h1, h2⟩ := keepPopped_ok h
    obtain ⟨e, q, _⟩ := Server.broadcast_spec h1
    exact Step.quiet_of q e h2
  | broadcastExcept ex ch m =>
    obtain ⟨h1, h2⟩ := keepPopped_ok h
    obtain ⟨e, q, _⟩ := Server.broadcastExcept_spec h1
    exact Step.quiet_of q e h2
  | update dt =>
    obtain ⟨h1, h2⟩ := keepPopped_ok h
    obtain ⟨e, q, _⟩ := Server.update_spec h1
    exact Step.quiet_of q e h2
  | send id ch m =>
    obtain ⟨h1, h2⟩ := keepPopped_ok h
    obtain ⟨a, q, _⟩ := Server.sendMessage_spec h1
    exact Step.quiet_of q a.events h2
  | receive id ch =>
    obtain ⟨h1, h2⟩ := keepPopped_ok h
    obtain ⟨out, h3⟩ := Res.stateOf_ok h1
    obtain ⟨a, q, _⟩ := Server.receiveMessage_spec h3
    exact Step.quiet_of q a.events h2
  | getPacketsToSend id =>
    obtain ⟨h1, h2⟩ := keepPopped_ok h
    obtain ⟨out, h3⟩ := Res.stateOf_ok h1
    obtain ⟨a, q, _⟩ := Server.getPacketsToSend_spec h3
    exact Step.quiet_of q a.events h2
  | processPacketFrom b id =>
    obtain ⟨h1, h2⟩ := keepPopped_ok h
    obtain ⟨out, h3⟩ := Res.stateOf_ok h1
    obtain ⟨a, q, _⟩ := Server.processPacketFrom_spec h3
    exact Step.quiet_of q a.events h2
  | processLocalClient id cl =>
    obtain ⟨h1, h2⟩ := keepPopped_ok h
    obtain ⟨out, h3⟩ := Res.stateOf_ok h1
    obtain ⟨cl', ok⟩ := out
    obtain ⟨a, q⟩ := Server.processLocalClient_spec h3
    exact Step.quiet_of q a.events h2
  | getEvent =>
    cases h
    refine Or.inl ⟨?_, ?_⟩
    · unfold Server.getEvent
      split <;> exact QuietC.refl _
    · unfold Server.getEvent eventLog
      split
      · rename_i he
        have he' : s.events = [] := he
        simp [he']
      · rename_i e rest he
        have he' : s.events = e :: rest := he
        simp [he']

/-! #### alternation -/

/-- the event concerns client `id` -/
def Event.about (id : Nat) : Event → Bool
  | .connected i => i == id
  | .disconnected i _ => i == id

/-- `AltFrom b l`: starting in state `b` ("currently connected"), `l` strictly alternates -/
def AltFrom : Bool → List Event → Prop
  | _, [] => True
  | b, .connected _ :: r => b = false ∧ AltFrom true r
  | b, .disconnected _ _ :: r => b = true ∧ AltFrom false r

/-- ClientConnected, ClientDisconnected, ClientConnected, … starting with ClientConnected -/
def Alternates (l : List Event) : Prop := AltFrom false l

/-- state after the list (its last entry decides, `b` if empty) -/
def curState : Bool → List Event → Bool
  | b, [] => b
  | _, .connected _ :: r => curState true r
  | _, .disconnected _ _ :: r => curState false r

def lastIsConnected (l : List Event) : Bool :=
  match l.getLast? with
  | some (.connected _) => true
  | _ => false

theorem curState_snoc (b : Bool) (l : List Event) (e : Event) :
    curState b (l ++ [e]) = match e with | .connected _ => true | .disconnected _ _ => false := by
  induction l generalizing b with
  | nil => cases e <;> rfl
  | cons x r ih => cases x <;> simp [curState, ih]

theorem curState_false_eq (l : List Event) : curState false l = lastIsConnected l := by
  rcases List.eq_nil_or_concat l with rfl | ⟨r, e, rfl⟩
  · rfl
  · rw [List.concat_eq_append, curState_snoc]
    cases e <;> simp [lastIsConnected]

theorem altFrom_snoc (b : Bool) (l : List Event) (e : Event) :
    AltFrom b (l ++ [e]) ↔ AltFrom b l ∧
      (match e with | .connected _ => curState b l = false | .disconnected _ _ => curState b l = true) := by
  induction l generalizing b with
  | nil => cases e <;> simp [AltFrom, curState]
  | cons x r ih => cases x <;> simp [AltFrom, curState, ih, and_assoc]

def Event.isConnect : Event → Bool
  | .connected _ => true
  | .disconnected _ _ => false

theorem altFrom_append (b : Bool) (l1 l2 : List Event) :
    AltFrom b (l1 ++ l2) ↔ AltFrom b l1 ∧ AltFrom (curState b l1) l2 := by
  induction l1 generalizing b with
  | nil => simp [AltFrom, curState]
  | cons x r ih => cases x <;> simp [AltFrom, curState, ih, and_assoc]

/-- the first event is a connect -/
theorem alternates_head {e : Event} {l : List Event} (h : Alternates (e :: l)) : Event.isConnect e = true := by
  cases e with
  | connected i => rfl
  | disconnected i r => exact absurd h.1 (by decide)

/-- two consecutive events are never of the same kind -/
theorem alternates_adjacent {l1 l2 : List Event} {a b : Event} (h : Alternates (l1 ++ a :: b :: l2)) :
    Event.isConnect a ≠ Event.isConnect b := by
  unfold Alternates at h
  rw [altFrom_append] at h
  have h2 := h.2
  cases a <;> cases b <;> simp [AltFrom, Event.isConnect] at h2 ⊢

theorem filter_snoc_about (id : Nat) (l : List Event) (e : Event) :
    (l ++ [e]).filter (Event.about id) = if Event.about id e then l.filter (Event.about id) ++ [e] else l.filter (Event.about id) := by
  simp [List.filter_append, List.filter_cons]
  split <;> simp

/-- the invariant: keys unique; per client the log alternates and its last entry says whether the
    client is in the table -/
def SrvInv (st : SrvState) : Prop :=
  SMap.Sorted st.1.conns ∧
  ∀ id, Alternates ((eventLog st).filter (Event.about id)) ∧
        curState false ((eventLog st).filter (Event.about id)) = SMap.contains st.1.conns id

theorem srvInv_new (budget : Nat) (sc cc : List ChanCfg) : SrvInv (Server.new budget sc cc, []) :=
  ⟨SMap.sorted_nil, fun _ => ⟨trivial, rfl⟩⟩

theorem Step.inv {st st' : SrvState} (hs : Step st st') (hi : SrvInv st) : SrvInv st' := by
  obtain ⟨hsorted, hall⟩ := hi
  rcases hs with ⟨q, hl⟩ | ⟨id0, c0, hf, hc, hl⟩ | ⟨id0, c, r, hf, hc, hl, _⟩
  · refine ⟨q.sorted hsorted, fun id => ?_⟩
    rw [hl, q.contains id]
    exact hall id
  · refine ⟨by rw [hc]; exact SMap.sorted_insert _ _ _ hsorted, fun id => ?_⟩
    obtain ⟨ha, hcur⟩ := hall id
    rw [hl, filter_snoc_about, hc]
    by_cases e : id0 = id
    · subst e
      have hcf : SMap.contains st.1.conns id0 = false := by simp [SMap.contains, hf]
      simp only [Event.about, beq_self_eq_true, if_true]
      refine ⟨?_, ?_⟩
      · unfold Alternates
        rw [altFrom_snoc]
        exact ⟨ha, by simp only; rw [hcur, hcf]⟩
      · rw [curState_snoc]
        simp [SMap.contains, SMap.find?_insert_self]
    · have : (id0 == id) = false := by simp [e]
      simp only [Event.about, this]
      refine ⟨ha, ?_⟩
      simp only [SMap.contains] at hcur ⊢
      rw [SMap.find?_insert_ne _ _ _ _ (Ne.symm e)]
      simpa using hcur
  · refine ⟨by rw [hc]; exact SMap.sorted_erase _ _ hsorted, fun id => ?_⟩
    obtain ⟨ha, hcur⟩ := hall id
    rw [hl, filter_snoc_about, hc]
    by_cases e : id0 = id
    · subst e
      have hcf : SMap.contains st.1.conns id0 = true := by simp [SMap.contains, hf]
      simp only [Event.about, beq_self_eq_true, if_true]
      refine ⟨?_, ?_⟩
      · unfold Alternates
        rw [altFrom_snoc]
        exact ⟨ha, by simp only; rw [hcur, hcf]⟩
      · rw [curState_snoc]
        simp [SMap.contains, SMap.find?_erase_self _ _ hsorted]
    · have : (id0 == id) = false := by simp [e]
      simp only [Event.about, this]
      refine ⟨ha, ?_⟩
      simp only [SMap.contains] at hcur ⊢
      rw [SMap.find?_erase_ne _ _ _ (Ne.symm e)]
      simpa using hcur

theorem runSrv_inv : ∀ (ops : List SrvOp) (st st' : SrvState), runSrv st ops = .ok st' → SrvInv st → SrvInv st'
  | [], st, st', h, hi => by cases h; exact hi
  | op :: rest, st, st', h, hi => by
    unfold runSrv at h
    split at h
    · rename_i st1 h1
      exact runSrv_inv rest st1 st' h ((SrvOp.apply_step h1).inv hi)
    · cases h
    · cases h

/-! #### the first reason is the one reported -/

/-- what has happened to client `id` (stored disconnected with `r`) in terms of the events `new`
    pushed since: still stored with `r` and no event, or the next event about it reports `r` -/
def FirstReasonOutcome (id : Nat) (r : Reason) (st' : SrvState) (new : List Event) : Prop :=
  (new.filter (Event.about id) = [] ∧ ∃ c', SMap.find? st'.1.conns id = some c' ∧ c'.status = .disconnected r) ∨
  (∃ tl, new.filter (Event.about id) = .disconnected id r :: tl)

theorem Step.first_reason {st st' : SrvState} (hs : Step st st') (hsorted : SMap.Sorted st.1.conns)
    {id : Nat} {c : Conn} {r : Reason} (hf : SMap.find? st.1.conns id = some c)
    (hr : c.status = .disconnected r) :
    (eventLog st' = eventLog st ∧ ∃ c', SMap.find? st'.1.conns id = some c' ∧ c'.status = .disconnected r) ∨
    (∃ e, eventLog st' = eventLog st ++ [e] ∧ Event.about id e = false ∧
       ∃ c', SMap.find? st'.1.conns id = some c' ∧ c'.status = .disconnected r) ∨
    (eventLog st' = eventLog st ++ [.disconnected id r] ∧ SMap.find? st'.1.conns id = none) := by
  rcases hs with ⟨q, hl⟩ | ⟨id0, c0, hf0, hc, hl⟩ | ⟨id0, c1, r1, hf0, hc, hl, hr1⟩
  · obtain ⟨c', h1, h2⟩ := q.present id c hf
    exact Or.inl ⟨hl, c', h1, h2 r hr⟩
  · have hne : id ≠ id0 := by intro e; subst e; rw [hf] at hf0; cases hf0
    refine Or.inr (Or.inl ⟨_, hl, ?_, c, ?_, hr⟩)
    · simp [Event.about, Ne.symm hne]
    · rw [hc, SMap.find?_insert_ne _ _ _ _ hne]; exact hf
  · by_cases e : id = id0
    · subst e
      rw [hf] at hf0; cases hf0
      have := hr1 r hr
      subst this
      exact Or.inr (Or.inr ⟨hl, by rw [hc]; exact SMap.find?_erase_self _ _ hsorted⟩)
    · refine Or.inr (Or.inl ⟨_, hl, ?_, c, ?_, hr⟩)
      · simp [Event.about, Ne.symm e]
      · rw [hc, SMap.find?_erase_ne _ _ _ e]; exact hf

theorem Step.log_extends {st st' : SrvState} (hs : Step st st') : ∃ new, eventLog st' = eventLog st ++ new := by
  rcases hs with ⟨_, hl⟩ | ⟨_, _, _, _, hl⟩ | ⟨_, _, _, _, _, hl, _⟩
  · exact ⟨[], by simp [hl]⟩
  · exact ⟨_, hl⟩
  · exact ⟨_, hl⟩

theorem runSrv_log_extends : ∀ (ops : List SrvOp) (st st' : SrvState), runSrv st ops = .ok st' →
    ∃ new, eventLog st' = eventLog st ++ new
  | [], st, st', h => by cases h; exact ⟨[], by simp⟩
  | op :: rest, st, st', h => by
    unfold runSrv at h
    split at h
    · rename_i st1 h1
      obtain ⟨n1, e1⟩ := (SrvOp.apply_step h1).log_extends
      obtain ⟨n2, e2⟩ := runSrv_log_extends rest st1 st' h
      exact ⟨n1 ++ n2, by rw [e2, e1, List.append_assoc]⟩
    · cases h
    · cases h

theorem runSrv_first_reason : ∀ (ops : List SrvOp) (st st' : SrvState), runSrv st ops = .ok st' →
    SrvInv st → ∀ (id : Nat) (c : Conn) (r : Reason), SMap.find? st.1.conns id = some c →
    c.status = .disconnected r →
    ∃ new, eventLog st' = eventLog st ++ new ∧ FirstReasonOutcome id r st' new
  | [], st, st', h, _, id, c, r, hf, hr => by
    cases h
    exact ⟨[], by simp, Or.inl ⟨rfl, c, hf, hr⟩⟩
  | op :: rest, st, st', h, hi, id, c, r, hf, hr => by
    unfold runSrv at h
    split at h
    · rename_i st1 h1
      have hstep := SrvOp.apply_step h1
      have hi1 := hstep.inv hi
      rcases hstep.first_reason hi.1 hf hr with ⟨hl, c', hf', hr'⟩ | ⟨e, hl, he, c', hf', hr'⟩ | ⟨hl, _⟩
      · obtain ⟨new, hn, ho⟩ := runSrv_first_reason rest st1 st' h hi1 id c' r hf' hr'
        exact ⟨new, by rw [hn, hl], ho⟩
      · obtain ⟨new, hn, ho⟩ := runSrv_first_reason rest st1 st' h hi1 id c' r hf' hr'
        refine ⟨e :: new, by rw [hn, hl]; simp, ?_⟩
        unfold FirstReasonOutcome at ho ⊢
        simp only [List.filter_cons, he]
        exact ho
      · obtain ⟨new, hn⟩ := runSrv_log_extends rest st1 st' h
        refine ⟨.disconnected id r :: new, by rw [hn, hl]; simp, Or.inr ⟨new.filter (Event.about id), ?_⟩⟩
        simp [Event.about]
    · cases h
    · cases h

/-! ### Server: what a client-addressed operation returns and does to its client depends on that client only -/
namespace Server
open RenetVerif.Server

/-- the addressed client's new connection together with the output -/
def viewAt {β : Type} (j : Nat) : Res Empty (Server × β) → Res Empty (Option Conn × β)
  | .ok (s, b) => .ok (SMap.find? s.conns j, b)
  | .err e => .err e
  | .panic p => .panic p

def slotAt (j : Nat) : Res Empty Server → Res Empty (Option Conn)
  | .ok s => .ok (SMap.find? s.conns j)
  | .err e => .err e
  | .panic p => .panic p

theorem receiveMessage_local (s1 s2 : Server) (j ch : Nat) (h : SMap.find? s1.conns j = SMap.find? s2.conns j) :
    viewAt j (s1.receiveMessage j ch) = viewAt j (s2.receiveMessage j ch) := by
  unfold receiveMessage
  rw [h]
  cases hf : SMap.find? s2.conns j with
  | none => simp [viewAt, h, hf]
  | some c =>
    cases hc : c.receiveMessage ch with
    | ok x => obtain ⟨c', o⟩ := x; simp [viewAt, hc, SMap.find?_insert_self]
    | err e => simp [viewAt, hc]
    | panic p => simp [viewAt, hc]

theorem getPacketsToSend_local (s1 s2 : Server) (j : Nat) (h : SMap.find? s1.conns j = SMap.find? s2.conns j) :
    viewAt j (s1.getPacketsToSend j) = viewAt j (s2.getPacketsToSend j) := by
  unfold getPacketsToSend
  rw [h]
  cases hf : SMap.find? s2.conns j with
  | none => simp [viewAt, h, hf]
  | some c =>
    cases hc : c.getPacketsToSend with
    | ok x => obtain ⟨c', o⟩ := x; simp [viewAt, hc, SMap.find?_insert_self]
    | err e => simp [viewAt, hc]
    | panic p => simp [viewAt, hc]

theorem processPacketFrom_local (s1 s2 : Server) (bytes : Bytes) (j : Nat)
    (h : SMap.find? s1.conns j = SMap.find? s2.conns j) :
    viewAt j (s1.processPacketFrom bytes j) = viewAt j (s2.processPacketFrom bytes j) := by
  unfold processPacketFrom
  rw [h]
  cases hf : SMap.find? s2.conns j with
  | none => simp [viewAt, h, hf]
  | some c =>
    cases hc : c.processPacket bytes with
    | ok x => simp [viewAt, hc, SMap.find?_insert_self]
    | err e => simp [viewAt, hc]
    | panic p => simp [viewAt, hc]

theorem sendMessage_local (s1 s2 : Server) (j ch : Nat) (m : Bytes)
    (h : SMap.find? s1.conns j = SMap.find? s2.conns j) :
    slotAt j (s1.sendMessage j ch m) = slotAt j (s2.sendMessage j ch m) := by
  unfold sendMessage
  rw [h]
  cases hf : SMap.find? s2.conns j with
  | none => simp [slotAt, h, hf]
  | some c =>
    cases hc : c.sendMessage ch m with
    | ok x => simp [slotAt, hc, SMap.find?_insert_self]
    | err e => simp [slotAt, hc]
    | panic p => simp [slotAt, hc]

end Server

/-! ### operations addressed to other clients -/

/-- the client an operation is addressed to (`none` for the operations on all clients and `get_event`) -/
def SrvOp.target : SrvOp → Option Nat
  | .add id | .remove id | .disconnect id | .send id _ _ | .receive id _ | .getPacketsToSend id
  | .processPacketFrom _ id | .newLocalClient id | .disconnectLocalClient id _ | .processLocalClient id _ => some id
  | .disconnectAll | .broadcast .. | .broadcastExcept .. | .update _ | .getEvent => none

theorem addConnection_frame (s : Server) (i j : Nat) (h : j ≠ i) :
    SMap.find? (s.addConnection i).conns j = SMap.find? s.conns j := by
  unfold Server.addConnection
  split
  · rfl
  · exact SMap.find?_insert_ne _ _ _ _ h

theorem removeConnection_frame (s : Server) (i j : Nat) (h : j ≠ i) :
    SMap.find? (s.removeConnection i).conns j = SMap.find? s.conns j := by
  unfold Server.removeConnection
  split
  · rfl
  · exact SMap.find?_erase_ne _ _ _ h

theorem disconnectLocalClient_frame (s : Server) (i j : Nat) (cl : Conn) (h : j ≠ i) :
    SMap.find? (s.disconnectLocalClient i cl).1.conns j = SMap.find? s.conns j := by
  unfold Server.disconnectLocalClient
  split
  · rfl
  · split
    · rfl
    · exact SMap.find?_erase_ne _ _ _ h

theorem SrvOp.apply_frame {st st' : SrvState} {op : SrvOp} {i : Nat} (ht : op.target = some i)
    (h : op.apply st = .ok st') (j : Nat) (hj : j ≠ i) :
    SMap.find? st'.1.conns j = SMap.find? st.1.conns j := by
  obtain ⟨s, popped⟩ := st
  cases op <;> simp only [SrvOp.target, Option.some.injEq] at ht <;> try (cases ht)
  case add => cases h; exact addConnection_frame s _ j hj
  case newLocalClient => cases h; exact addConnection_frame s _ j hj
  case remove => cases h; exact removeConnection_frame s _ j hj
  case disconnectLocalClient cl => cases h; exact disconnectLocalClient_frame s _ j cl hj
  case disconnect => cases h; exact (Server.disconnect_spec s _).1.others j hj
  case send ch m =>
    obtain ⟨h1, _⟩ := keepPopped_ok h
    exact (Server.sendMessage_spec h1).1.others j hj
  case receive ch =>
    obtain ⟨h1, _⟩ := keepPopped_ok h
    obtain ⟨out, h3⟩ := Res.stateOf_ok h1
    exact (Server.receiveMessage_spec h3).1.others j hj
  case getPacketsToSend =>
    obtain ⟨h1, _⟩ := keepPopped_ok h
    obtain ⟨out, h3⟩ := Res.stateOf_ok h1
    exact (Server.getPacketsToSend_spec h3).1.others j hj
  case processPacketFrom b =>
    obtain ⟨h1, _⟩ := keepPopped_ok h
    obtain ⟨out, h3⟩ := Res.stateOf_ok h1
    exact (Server.processPacketFrom_spec h3).1.others j hj
  case processLocalClient cl =>
    obtain ⟨h1, _⟩ := keepPopped_ok h
    obtain ⟨out, h3⟩ := Res.stateOf_ok h1
    obtain ⟨cl', ok⟩ := out
    exact (Server.processLocalClient_spec h3).1.others j hj

/-- any run of operations addressed to clients other than `j` leaves `j`'s connection untouched -/
theorem runSrv_frame : ∀ (ops : List SrvOp) (st st' : SrvState) (j : Nat), runSrv st ops = .ok st' →
    (∀ op ∈ ops, ∃ i, op.target = some i ∧ i ≠ j) → SMap.find? st'.1.conns j = SMap.find? st.1.conns j
  | [], st, st', j, h, _ => by cases h; rfl
  | op :: rest, st, st', j, h, hall => by
    unfold runSrv at h
    split at h
    · rename_i st1 h1
      obtain ⟨i, ht, hne⟩ := hall op (by simp)
      have e1 := SrvOp.apply_frame ht h1 j (Ne.symm hne)
      have e2 := runSrv_frame rest st1 st' j h (fun o ho => hall o (by simp [ho]))
      rw [e2, e1]
    · cases h
    · cases h

end RenetVerif.SL
