/-
  The total connection invariant `Conn.InvP` (properties C06 / C09): composition of
    * the send-side invariant `Conn.SendInv`                (Lemmas/SendInv.lean),
    * the pending-ack invariants                            (Lemmas/Acks.lean, Lemmas/Flush.lean),
    * the receive-channel invariants `RecvRel.InvP`, `RecvUnrel.InvP` (Lemmas/RecvInv.lean),
    * exact accounting of the unreliable send channels      (here).

  The invariant is parametrised by the per-constructor predicate `P` exactly like the receive-channel
  invariants: `Conn.Inv` (`P := SliceCtor.WInv`, dead zero-slice constructors tolerated) and `Conn.SInv`
  (`P := SliceCtor.Inv`, strict).  Because `process_packet` only ever sees slices produced by the packet
  decoder (which rejects `num_slices = 0`), BOTH instances are preserved by every operation on every input.

  Helper lemmas live in namespace `RenetVerif.CI`.
-/
import RenetVerif.Lemmas.RecvInv
import RenetVerif.Lemmas.SendInv
import RenetVerif.Lemmas.Flush
import RenetVerif.Lemmas.ServerLemmas
import RenetVerif.Lemmas.Acks
import RenetVerif.Lemmas.DecodeWF
namespace RenetVerif
open C

/-! ## definitions -/

/-- exact accounting of an unreliable send channel: the counter is the sum of the queued message lengths -/
def SendUnrel.Acct (s : SendUnrel) : Prop := s.mem = sumLen s.queue ∧ s.mem ≤ s.maxMem

/-- what the connection proofs need of the per-constructor predicate -/
structure GoodP (P : SliceCtor → Prop) : Prop where
  pred : CtorPred P
  new : ∀ n, 1 ≤ n → P (SliceCtor.new n)

theorem goodP_inv : GoodP SliceCtor.Inv := ⟨ctorPred_inv, SliceCtor.new_inv⟩
theorem goodP_winv : GoodP SliceCtor.WInv := ⟨ctorPred_winv, fun n _ => SliceCtor.new_winv n⟩

/-- the total connection invariant.  The channel clauses quantify over the ENTRIES of the association lists
    (stronger than quantifying over `find?` hits, and needs no sortedness of the channel maps). -/
structure Conn.InvP (P : SliceCtor → Prop) (c : Conn) : Prop where
  send : c.SendInv
  acksWF : Acks.WF c.pendingAcks
  acksLen : c.pendingAcks.length ≤ ACK_RANGE_CAP
  acksBound : ∀ r ∈ c.pendingAcks, r.2 ≤ Varint.MAX + 1
  recvRel : ∀ x ∈ c.recvRel, x.2.InvP P
  recvUnrel : ∀ x ∈ c.recvUnrel, x.2.InvP P
  sendUnrel : ∀ x ∈ c.sendUnrel, x.2.Acct

/-- all-inputs instance (dead zero-slice constructors tolerated) -/
def Conn.Inv (c : Conn) : Prop := c.InvP SliceCtor.WInv
/-- strict instance -/
def Conn.SInv (c : Conn) : Prop := c.InvP SliceCtor.Inv

/-- `ch` names a receive channel of the connection -/
def Conn.hasRecv (c : Conn) (ch : Nat) : Prop :=
  SMap.find? c.recvRel ch ≠ none ∨ SMap.find? c.recvUnrel ch ≠ none
/-- `ch` names a send channel of the connection -/
def Conn.hasSend (c : Conn) (ch : Nat) : Prop :=
  SMap.find? c.sendRel ch ≠ none ∨ SMap.find? c.sendUnrel ch ≠ none

/-- the channel tables have the same key sets, and the send order is the same -/
structure Conn.SameChans (c c' : Conn) : Prop where
  sendRel : ∀ ch, (SMap.find? c'.sendRel ch).isSome = (SMap.find? c.sendRel ch).isSome
  sendUnrel : ∀ ch, (SMap.find? c'.sendUnrel ch).isSome = (SMap.find? c.sendUnrel ch).isSome
  recvRel : ∀ ch, (SMap.find? c'.recvRel ch).isSome = (SMap.find? c.recvRel ch).isSome
  recvUnrel : ∀ ch, (SMap.find? c'.recvUnrel ch).isSome = (SMap.find? c.recvUnrel ch).isSome
  order : c'.order = c.order

namespace CI

/-! ## channel key sets -/

theorem ne_none_iff_isSome {α : Type} (o : Option α) : o ≠ none ↔ o.isSome = true := by
  cases o <;> simp

theorem _root_.RenetVerif.Conn.SameChans.refl (c : Conn) : c.SameChans c :=
  ⟨fun _ => rfl, fun _ => rfl, fun _ => rfl, fun _ => rfl, rfl⟩

theorem _root_.RenetVerif.Conn.SameChans.trans {a b c : Conn} (h1 : a.SameChans b) (h2 : b.SameChans c) :
    a.SameChans c :=
  ⟨fun k => (h2.sendRel k).trans (h1.sendRel k), fun k => (h2.sendUnrel k).trans (h1.sendUnrel k),
   fun k => (h2.recvRel k).trans (h1.recvRel k), fun k => (h2.recvUnrel k).trans (h1.recvUnrel k),
   h2.order.trans h1.order⟩

theorem _root_.RenetVerif.Conn.SameChans.symm {a b : Conn} (h : a.SameChans b) : b.SameChans a :=
  ⟨fun k => (h.sendRel k).symm, fun k => (h.sendUnrel k).symm, fun k => (h.recvRel k).symm,
   fun k => (h.recvUnrel k).symm, h.order.symm⟩

theorem _root_.RenetVerif.Conn.SameChans.hasSend {a b : Conn} (h : a.SameChans b) (ch : Nat) :
    b.hasSend ch ↔ a.hasSend ch := by
  unfold Conn.hasSend
  rw [ne_none_iff_isSome, ne_none_iff_isSome, ne_none_iff_isSome, ne_none_iff_isSome, h.sendRel, h.sendUnrel]

theorem _root_.RenetVerif.Conn.SameChans.hasRecv {a b : Conn} (h : a.SameChans b) (ch : Nat) :
    b.hasRecv ch ↔ a.hasRecv ch := by
  unfold Conn.hasRecv
  rw [ne_none_iff_isSome, ne_none_iff_isSome, ne_none_iff_isSome, ne_none_iff_isSome, h.recvRel, h.recvUnrel]

theorem sameChans_of_eq {c c' : Conn} (h1 : c'.sendRel = c.sendRel) (h2 : c'.sendUnrel = c.sendUnrel)
    (h3 : c'.recvRel = c.recvRel) (h4 : c'.recvUnrel = c.recvUnrel) (h5 : c'.order = c.order) : c.SameChans c' :=
  ⟨fun _ => by rw [h1], fun _ => by rw [h2], fun _ => by rw [h3], fun _ => by rw [h4], h5⟩

theorem sameChans_dw (c : Conn) (r : Reason) : c.SameChans (c.disconnectWith r) :=
  sameChans_of_eq (by simp) (by simp) (by simp) (by simp) (by simp)

theorem sameChans_setConnected (c : Conn) : c.SameChans c.setConnected := by
  unfold Conn.setConnected; split
  · exact Conn.SameChans.refl c
  · exact sameChans_of_eq rfl rfl rfl rfl rfl

theorem sameChans_setConnecting (c : Conn) : c.SameChans c.setConnecting := by
  unfold Conn.setConnecting; split
  · exact Conn.SameChans.refl c
  · exact sameChans_of_eq rfl rfl rfl rfl rfl

theorem sameChans_dw_of {c c2 : Conn} (h : c.SameChans c2) (r : Reason) : c.SameChans (c2.disconnectWith r) :=
  h.trans (sameChans_dw c2 r)

/-- overwriting an existing key does not change the key set -/
theorem isSome_insert {α : Type} {m : SMap α} {k : Nat} {v0 : α} (hf : SMap.find? m k = some v0) (v : α) (k' : Nat) :
    (SMap.find? (SMap.insert m k v) k').isSome = (SMap.find? m k').isSome := by
  rw [SMap.find?_insert]
  split
  · rename_i e; subst e; rw [hf]; rfl
  · rfl

theorem sameChans_recvRel {c : Conn} {ch : Nat} {r : RecvRel} (hf : SMap.find? c.recvRel ch = some r)
    (A : List AckRange) (r' : RecvRel) :
    c.SameChans { c with pendingAcks := A, recvRel := SMap.insert c.recvRel ch r' } :=
  ⟨fun _ => rfl, fun _ => rfl, fun k => isSome_insert hf _ k, fun _ => rfl, rfl⟩

theorem sameChans_recvUnrel {c : Conn} {ch : Nat} {r : RecvUnrel} (hf : SMap.find? c.recvUnrel ch = some r)
    (A : List AckRange) (r' : RecvUnrel) :
    c.SameChans { c with pendingAcks := A, recvUnrel := SMap.insert c.recvUnrel ch r' } :=
  ⟨fun _ => rfl, fun _ => rfl, fun _ => rfl, fun k => isSome_insert hf _ k, rfl⟩

theorem sameChans_acks_dw (c : Conn) (A : List AckRange) (r : Reason) :
    c.SameChans (({ c with pendingAcks := A } : Conn).disconnectWith r) :=
  sameChans_dw_of (c := c) (c2 := { c with pendingAcks := A }) (sameChans_of_eq rfl rfl rfl rfl rfl) r

/-! ## small facts -/

theorem slicesOk_mono {P Q : SliceCtor → Prop} (hpq : ∀ c, P c → Q c) {s : SMap SliceCtor} (h : SlicesOk P s) :
    SlicesOk Q s := h.mono hpq

theorem recvRel_mono {P Q : SliceCtor → Prop} (hpq : ∀ c, P c → Q c) {r : RecvRel} (h : r.InvP P) : r.InvP Q :=
  ⟨h.acct, h.budget, h.slicesOk.mono hpq, h.pending⟩

theorem recvUnrel_mono {P Q : SliceCtor → Prop} (hpq : ∀ c, P c → Q c) {r : RecvUnrel} (h : r.InvP P) : r.InvP Q :=
  ⟨h.acct, h.budget, h.slicesOk.mono hpq, h.lastSorted, h.lastSub⟩

theorem invP_mono {P Q : SliceCtor → Prop} (hpq : ∀ c, P c → Q c) {c : Conn} (h : c.InvP P) : c.InvP Q :=
  ⟨h.send, h.acksWF, h.acksLen, h.acksBound, fun x hx => recvRel_mono hpq (h.recvRel x hx),
   fun x hx => recvUnrel_mono hpq (h.recvUnrel x hx), h.sendUnrel⟩

/-- the strict invariant implies the all-inputs one -/
theorem sinv_inv {c : Conn} (h : c.SInv) : c.Inv := invP_mono (fun _ hc => Or.inr hc) h

theorem cap_pos : 1 ≤ ACK_RANGE_CAP := by decide

theorem unrelSmallSum_eq_sumLen : ∀ (q : List Bytes), unrelSmallSum q = sumLen q
  | [] => rfl
  | m :: r => by
    have := unrelSmallSum_eq_sumLen r
    simp only [unrelSmallSum, List.map_cons, List.sum_cons, sumLen_cons] at *
    omega

theorem le_sumLen : ∀ {q : List Bytes} {m : Bytes}, m ∈ q → m.length ≤ sumLen q
  | x :: r, m, h => by
    simp only [List.mem_cons] at h
    rcases h with rfl | h
    · simp
    · have := le_sumLen h; simp; omega

/-- find-based views of the entry-based clauses -/
theorem _root_.RenetVerif.Conn.InvP.recvRel_find {P} {c : Conn} (h : c.InvP P) {ch : Nat} {r : RecvRel}
    (hf : SMap.find? c.recvRel ch = some r) : r.InvP P := h.recvRel _ (SMap.mem_of_find? hf)
theorem _root_.RenetVerif.Conn.InvP.recvUnrel_find {P} {c : Conn} (h : c.InvP P) {ch : Nat} {r : RecvUnrel}
    (hf : SMap.find? c.recvUnrel ch = some r) : r.InvP P := h.recvUnrel _ (SMap.mem_of_find? hf)
theorem _root_.RenetVerif.Conn.InvP.sendUnrel_find {P} {c : Conn} (h : c.InvP P) {ch : Nat} {s : SendUnrel}
    (hf : SMap.find? c.sendUnrel ch = some s) : s.Acct := h.sendUnrel _ (SMap.mem_of_find? hf)
theorem _root_.RenetVerif.Conn.InvP.sendRel_find {P} {c : Conn} (h : c.InvP P) {ch : Nat} {s : SendRel}
    (hf : SMap.find? c.sendRel ch = some s) : s.Inv ∧ s.ch = ch := h.send.chans ch s hf

/-- replacing / adding one entry keeps an entry-wise property -/
theorem forall_insert {α : Type} {Q : α → Prop} {m : SMap α} (h : ∀ x ∈ m, Q x.2) (k : Nat) {v : α} (hv : Q v) :
    ∀ x ∈ SMap.insert m k v, Q x.2 := by
  intro x hx
  rcases SMap.mem_insert hx with rfl | hx
  · exact hv
  · exact h x hx

/-- the invariant only reads the send side, the pending acks and the receive maps -/
theorem _root_.RenetVerif.Conn.InvP.same {P} {c c' : Conn} (h : c.InvP P) (hs : c.SendSame c')
    (ha : c'.pendingAcks = c.pendingAcks) (hr : c'.recvRel = c.recvRel) (hu : c'.recvUnrel = c.recvUnrel) :
    c'.InvP P :=
  ⟨h.send.same hs, ha ▸ h.acksWF, ha ▸ h.acksLen, ha ▸ h.acksBound, hr ▸ h.recvRel, hu ▸ h.recvUnrel,
   hs.2.1 ▸ h.sendUnrel⟩

/-- new pending acks and new receive maps -/
theorem _root_.RenetVerif.Conn.InvP.rebuild {P} {c : Conn} (h : c.InvP P) {A : List AckRange} {rr : SMap RecvRel}
    {ru : SMap RecvUnrel} (a1 : Acks.WF A) (a2 : A.length ≤ ACK_RANGE_CAP) (a3 : ∀ r ∈ A, r.2 ≤ Varint.MAX + 1)
    (hrr : ∀ x ∈ rr, x.2.InvP P) (hru : ∀ x ∈ ru, x.2.InvP P) :
    ({ c with pendingAcks := A, recvRel := rr, recvUnrel := ru } : Conn).InvP P :=
  ⟨h.send.same ⟨rfl, rfl, rfl, rfl, rfl⟩, a1, a2, a3, hrr, hru, h.sendUnrel⟩

theorem dw_status (c : Conn) (r : Reason) :
    (c.disconnectWith r).status = c.status ∨ ∃ r', (c.disconnectWith r).status = .disconnected r' := by
  unfold Conn.disconnectWith
  split
  · exact Or.inl rfl
  · exact Or.inr ⟨r, rfl⟩

theorem _root_.RenetVerif.Conn.InvP.disconnectWith {P} {c : Conn} (h : c.InvP P) (r : Reason) :
    (c.disconnectWith r).InvP P := by
  obtain ⟨a, b, c1, d⟩ := Conn.disconnectWith_same c r
  exact h.same a b c1 d

theorem _root_.RenetVerif.Conn.InvP.setConnected {P} {c : Conn} (h : c.InvP P) : c.setConnected.InvP P := by
  unfold Conn.setConnected
  split
  · exact h
  · exact h.same ⟨rfl, rfl, rfl, rfl, rfl⟩ rfl rfl rfl

theorem _root_.RenetVerif.Conn.InvP.setConnecting {P} {c : Conn} (h : c.InvP P) : c.setConnecting.InvP P := by
  unfold Conn.setConnecting
  split
  · exact h
  · exact h.same ⟨rfl, rfl, rfl, rfl, rfl⟩ rfl rfl rfl

/-! ## `Conn.fromChannels` -/

theorem foldl_insert_mem {α β : Type} (key : β → Nat) (val : β → α) : ∀ (l : List β) (m0 : SMap α) (x : Nat × α),
    x ∈ l.foldl (fun m c => SMap.insert m (key c) (val c)) m0 → x ∈ m0 ∨ ∃ c ∈ l, x = (key c, val c)
  | [], _, _, h => Or.inl h
  | c :: l, m0, x, h => by
    simp only [List.foldl_cons] at h
    rcases foldl_insert_mem key val l _ x h with h1 | ⟨c', hc', rfl⟩
    · rcases SMap.mem_insert h1 with rfl | h2
      · exact Or.inr ⟨c, List.mem_cons_self .., rfl⟩
      · exact Or.inl h2
    · exact Or.inr ⟨c', List.mem_cons_of_mem _ hc', rfl⟩

theorem sendUnrel_new_acct (ch maxMem : Nat) : (SendUnrel.new ch maxMem).Acct := ⟨rfl, Nat.zero_le _⟩

/-- a freshly configured connection satisfies the invariant — for ANY channel configuration (duplicate ids and
    ids ≥ 256 included: a later duplicate simply replaces the earlier channel object) -/
theorem fromChannels_invP {P} (budget : Nat) (send recv : List ChanCfg) :
    (Conn.fromChannels budget send recv).InvP P := by
  refine ⟨SI.Conn.fromChannels_inv budget send recv, trivial, Nat.zero_le _, fun _ h => (by cases h), ?_, ?_, ?_⟩
  · intro x hx
    rcases foldl_insert_mem (fun c : ChanCfg => c.id) (fun c => RecvRel.new c.maxMem (c.kind == .ordered)) _ _ x hx
      with h | ⟨c, -, rfl⟩
    · cases h
    · exact RecvRel.new_invP _ _
  · intro x hx
    rcases foldl_insert_mem (fun c : ChanCfg => c.id) (fun c => RecvUnrel.new c.id c.maxMem) _ _ x hx
      with h | ⟨c, -, rfl⟩
    · cases h
    · exact RecvUnrel.new_invP _ _
  · intro x hx
    rcases foldl_insert_mem (fun c : ChanCfg => c.id) (fun c => SendUnrel.new c.id c.maxMem) _ _ x hx
      with h | ⟨c, -, rfl⟩
    · cases h
    · exact sendUnrel_new_acct _ _

/-! ## `process_packet` -/

theorem fromBytes_wf {b : Bytes} {p : Packet} (h : Packet.fromBytes b = .ok p) : p.WF := by
  unfold Packet.fromBytes at h
  split at h
  · cases h; rename_i rest hd; exact Packet.decode_wf b _ rest hd
  · cases h

theorem fromBytes_seq_le {b : Bytes} {p : Packet} (h : Packet.fromBytes b = .ok p) : p.sequence ≤ Varint.MAX := by
  have hw := fromBytes_wf h
  cases p <;> exact hw.1

/-- bounds travel along set inclusion of the covered sequence numbers -/
theorem acks_bound_of_sub {l l' : List AckRange} {B : Nat} (hw : Acks.WF l')
    (hsub : ∀ x, Acks.Mem x l' → Acks.Mem x l) (hb : ∀ r ∈ l, r.2 ≤ B) : ∀ r ∈ l', r.2 ≤ B := by
  intro r hr
  have hne := Acks.wf_mem_nonempty hw r hr
  have hm := Acks.mem_of_mem_range (x := r.2 - 1) hr (by omega) (by omega)
  obtain ⟨r', hr', hx⟩ := Acks.range_of_mem (hsub _ hm)
  have := hb r' hr'
  omega

/-- recording a decoded packet's sequence number keeps all three ack clauses -/
theorem acks_add {l : List AckRange} {seq : Nat} (h1 : Acks.WF l) (h2 : l.length ≤ ACK_RANGE_CAP)
    (h3 : ∀ r ∈ l, r.2 ≤ Varint.MAX + 1) (hs : seq ≤ Varint.MAX) :
    Acks.WF (Acks.add ACK_RANGE_CAP seq l) ∧ (Acks.add ACK_RANGE_CAP seq l).length ≤ ACK_RANGE_CAP ∧
    ∀ r ∈ Acks.add ACK_RANGE_CAP seq l, r.2 ≤ Varint.MAX + 1 :=
  ⟨Acks.add_wf _ _ _ h1, Acks.add_length _ _ _ cap_pos h1 h2, Acks.add_bound _ _ _ _ h1 h3 (by omega)⟩

theorem relMsgLoop_safeP {P} : ∀ (msgs : List (Nat × Bytes)) (r : RecvRel), r.InvP P →
    (∃ r', Conn.relMsgLoop r msgs = .ok r' ∧ r'.InvP P) ∨
    (∃ e r', Conn.relMsgLoop r msgs = .err (e, r') ∧ r'.InvP P)
  | [], r, h => Or.inl ⟨r, rfl, h⟩
  | (id, m) :: rest, r, h => by
    rcases RecvRel.processMessage_safeP r h m id with ⟨r1, he, h1⟩ | ⟨e, r1, he, h1⟩
    · simp only [Conn.relMsgLoop, he]
      exact relMsgLoop_safeP rest r1 h1
    · simp only [Conn.relMsgLoop, he]
      exact Or.inr ⟨e, r1, rfl, h1⟩

theorem foldl_processMessage_safeP {P} : ∀ (msgs : List Bytes) (r : RecvUnrel), r.InvP P →
    (msgs.foldl RecvUnrel.processMessage r).InvP P
  | [], _, h => h
  | m :: rest, r, h => by
    simp only [List.foldl_cons]
    exact foldl_processMessage_safeP rest _ (RecvUnrel.processMessage_safeP r h m)

/-- the pending-ack list never grows inside the ack branch -/
theorem ackOne_acksLen {c c' : Conn} {seq : Nat} (h : c.ackOne seq = .ok c') :
    c'.pendingAcks.length ≤ c.pendingAcks.length := by
  unfold Conn.ackOne at h
  split at h
  · cases h
  · rename_i t info hf
    cases info with
    | none => simp at h; cases h; exact Nat.le_refl _
    | ack l => simp at h; cases h; exact Acks.ackedLargest_length _ _
    | relMsgs ch ids =>
      simp only at h
      split at h
      · cases h
      · rename_i s hs
        cases hl : Conn.ackMsgLoop s ids with
        | ok s' => simp [hl] at h; cases h; exact Nat.le_refl _
        | err e => simp [hl] at h
        | panic p => simp [hl] at h
    | relSlice ch id idx =>
      simp only at h
      split at h
      · cases h
      · rename_i s hs
        cases hl : s.processSliceAck id idx with
        | ok s' => simp [hl] at h; cases h; exact Nat.le_refl _
        | err e => simp [hl] at h
        | panic p => simp [hl] at h

theorem ackLoop_acksLen : ∀ (l : List Nat) (c c' : Conn), c.ackLoop l = .ok c' →
    c'.pendingAcks.length ≤ c.pendingAcks.length
  | [], c, c', h => by cases h; exact Nat.le_refl _
  | seq :: rest, c, c', h => by
    unfold Conn.ackLoop at h
    cases h1 : c.ackOne seq with
    | ok c1 =>
      simp [h1] at h
      exact Nat.le_trans (ackLoop_acksLen rest c1 c' h) (ackOne_acksLen h1)
    | err e => simp [h1] at h
    | panic p => simp [h1] at h

/-- **C06 core.**  Whatever bytes arrive, in whatever state satisfying the invariant: `process_packet` returns
    normally, the invariant holds again, and the status is unchanged or the connection is disconnected with a
    reason. -/
theorem processPacket_totalP {P} (hP : GoodP P) {c : Conn} (h : c.InvP P) (bytes : Bytes) :
    ∃ c', c.processPacket bytes = .ok c' ∧ c'.InvP P ∧
      (c'.status = c.status ∨ ∃ r, c'.status = .disconnected r) ∧ c.SameChans c' := by
  cases hd : c.isDisconnected with
  | true => exact ⟨c, by unfold Conn.processPacket; rw [hd]; rfl, h, Or.inl rfl, Conn.SameChans.refl c⟩
  | false =>
    cases hp : Packet.fromBytes bytes with
    | error e =>
      exact ⟨_, by unfold Conn.processPacket; rw [hd, hp]; rfl, h.disconnectWith _, dw_status c _, sameChans_dw c _⟩
    | ok p =>
      obtain ⟨a1, a2, a3⟩ := acks_add h.acksWF h.acksLen h.acksBound (fromBytes_seq_le hp)
      cases p with
      | ack aseq ranges =>
        obtain ⟨L, c', -, e, i, eff, -, -⟩ := SI.Conn.processPacket_ack_spec h.send hd hp
        obtain ⟨f1, f2, f3, -, -, -, -, f8⟩ := eff.frame
        have hw' : Acks.WF c'.pendingAcks := eff.acksWF a1
        obtain ⟨-, -, -, -, -, -, f7, -⟩ := eff.frame
        have hsc : c.SameChans c' := by
          refine ⟨fun k => ?_, fun _ => by rw [f8], fun _ => by rw [f1], fun _ => by rw [f2], f7⟩
          cases hk : SMap.find? c.sendRel k with
          | none => rw [eff.nochan k hk]
          | some s0 => obtain ⟨s1, h1, -⟩ := eff.chan k s0 hk; rw [h1]; rfl
        refine ⟨c', e, ⟨i, hw', ?_, ?_, f1 ▸ h.recvRel, f2 ▸ h.recvUnrel, f8 ▸ h.sendUnrel⟩, Or.inl f3, hsc⟩
        · rcases SI.Conn.processPacket_cases e with ⟨-, -, hx | ⟨e', he'⟩⟩ | ⟨p, hp', hna, -, -⟩ | ⟨aseq', ranges', L', -, hp', -, hl⟩
          · rw [hd] at hx; cases hx
          · rw [hp] at he'; cases he'
          · rw [hp] at hp'; cases hp'; cases hna
          · rw [hp] at hp'; cases hp'
            exact Nat.le_trans (ackLoop_acksLen _ _ _ hl) a2
        · exact acks_bound_of_sub hw' eff.acksSub a3
      | smallReliable seq ch msgs =>
        unfold Conn.processPacket; rw [hd, hp]
        simp only [Bool.false_eq_true, if_false]
        cases hf : SMap.find? c.recvRel ch with
        | none =>
          exact ⟨_, rfl, (h.rebuild a1 a2 a3 h.recvRel h.recvUnrel).disconnectWith _, dw_status _ _,
            sameChans_acks_dw _ _ _⟩
        | some r =>
          simp only
          rcases relMsgLoop_safeP msgs r (h.recvRel_find hf) with ⟨r', he, hr'⟩ | ⟨e, r', he, hr'⟩
          · rw [he]
            exact ⟨_, rfl, h.rebuild a1 a2 a3 (forall_insert h.recvRel ch hr') h.recvUnrel, Or.inl rfl,
              ⟨fun _ => rfl, fun _ => rfl, fun k => isSome_insert hf _ k, fun _ => rfl, rfl⟩⟩
          · rw [he]
            exact ⟨_, rfl, (h.rebuild a1 a2 a3 (forall_insert h.recvRel ch hr') h.recvUnrel).disconnectWith _,
              dw_status _ _, sameChans_dw_of (sameChans_recvRel hf _ _) _⟩
      | smallUnreliable seq ch msgs =>
        unfold Conn.processPacket; rw [hd, hp]
        simp only [Bool.false_eq_true, if_false]
        cases hf : SMap.find? c.recvUnrel ch with
        | none =>
          exact ⟨_, rfl, (h.rebuild a1 a2 a3 h.recvRel h.recvUnrel).disconnectWith _, dw_status _ _,
            sameChans_acks_dw _ _ _⟩
        | some r =>
          exact ⟨_, rfl, h.rebuild a1 a2 a3 h.recvRel
            (forall_insert h.recvUnrel ch (foldl_processMessage_safeP msgs r (h.recvUnrel_find hf))), Or.inl rfl,
            ⟨fun _ => rfl, fun _ => rfl, fun _ => rfl, fun k => isSome_insert hf _ k, rfl⟩⟩
      | reliableSlice seq ch sl =>
        have hn := (Packet.fromBytes_numSlices bytes _ hp seq ch sl (Or.inl rfl)).1
        unfold Conn.processPacket; rw [hd, hp]
        simp only [Bool.false_eq_true, if_false]
        cases hf : SMap.find? c.recvRel ch with
        | none =>
          exact ⟨_, rfl, (h.rebuild a1 a2 a3 h.recvRel h.recvUnrel).disconnectWith _, dw_status _ _,
            sameChans_acks_dw _ _ _⟩
        | some r =>
          simp only
          rcases RecvRel.processSlice_safeP hP.pred r (h.recvRel_find hf) sl (hP.new _ hn) with
            ⟨r', he, hr'⟩ | ⟨e, r', he, hr'⟩
          · rw [he]
            exact ⟨_, rfl, h.rebuild a1 a2 a3 (forall_insert h.recvRel ch hr') h.recvUnrel, Or.inl rfl,
              ⟨fun _ => rfl, fun _ => rfl, fun k => isSome_insert hf _ k, fun _ => rfl, rfl⟩⟩
          · rw [he]
            exact ⟨_, rfl, (h.rebuild a1 a2 a3 (forall_insert h.recvRel ch hr') h.recvUnrel).disconnectWith _,
              dw_status _ _, sameChans_dw_of (sameChans_recvRel hf _ _) _⟩
      | unreliableSlice seq ch sl =>
        have hn := (Packet.fromBytes_numSlices bytes _ hp seq ch sl (Or.inr rfl)).1
        unfold Conn.processPacket; rw [hd, hp]
        simp only [Bool.false_eq_true, if_false]
        cases hf : SMap.find? c.recvUnrel ch with
        | none =>
          exact ⟨_, rfl, (h.rebuild a1 a2 a3 h.recvRel h.recvUnrel).disconnectWith _, dw_status _ _,
            sameChans_acks_dw _ _ _⟩
        | some r =>
          simp only
          rcases RecvUnrel.processSlice_safeP hP.pred r (h.recvUnrel_find hf) sl c.now (hP.new _ hn) with
            ⟨r', he, hr'⟩ | ⟨e, r', he, hr'⟩
          · rw [he]
            exact ⟨_, rfl, h.rebuild a1 a2 a3 h.recvRel (forall_insert h.recvUnrel ch hr'), Or.inl rfl,
              ⟨fun _ => rfl, fun _ => rfl, fun _ => rfl, fun k => isSome_insert hf _ k, rfl⟩⟩
          · rw [he]
            exact ⟨_, rfl, (h.rebuild a1 a2 a3 h.recvRel (forall_insert h.recvUnrel ch hr')).disconnectWith _,
              dw_status _ _, sameChans_dw_of (sameChans_recvUnrel hf _ _) _⟩


/-! ## `update` -/

theorem find?_erase_some {α : Type} {m : SMap α} (hs : SMap.Sorted m) {k k' : Nat} {v : α}
    (h : SMap.find? (SMap.erase m k) k' = some v) : SMap.find? m k' = some v := by
  by_cases e : k = k'
  · subst e; rw [SMap.find?_erase_self hs] at h; cases h
  · rwa [SMap.find?_erase_ne m e] at h

/-- the discard loop only erases time stamps -/
theorem discardLoop_last_mono : ∀ (ids : List Nat) (r r' : RecvUnrel), SMap.Sorted r.lastReceived →
    discardLoop ids r = .ok r' →
    ∀ k t, SMap.find? r'.lastReceived k = some t → SMap.find? r.lastReceived k = some t
  | [], r, r', _, h, k, t, hk => by cases h; exact hk
  | id :: rest, r, r', hs, h, k, t, hk => by
    unfold discardLoop at h
    split at h
    · cases h
    · rename_i c hc
      simp only [Res.csub] at h
      split at h
      · simp only [Res.bind_ok] at h
        have := discardLoop_last_mono rest _ r' (SMap.sorted_erase hs id) h k t hk
        exact find?_erase_some hs this
      · cases h

theorem discardAll_specP {P} (now : Nat) : ∀ (m : SMap RecvUnrel), (∀ x ∈ m, x.2.InvP P) →
    ∃ m', Conn.discardAll now m = .ok m' ∧ (∀ x ∈ m', x.2.InvP P) ∧
      (∀ k, SMap.find? m k = none → SMap.find? m' k = none) ∧
      (∀ k r, SMap.find? m k = some r → ∃ r', r.discardOld now = .ok r' ∧ SMap.find? m' k = some r')
  | [], _ => ⟨[], rfl, fun _ hx => (by cases hx), fun _ hk => hk, fun _ _ hk => (by cases hk)⟩
  | (k0, r0) :: rest, h => by
    obtain ⟨r0', e0, i0⟩ := RecvUnrel.discardOld_safeP r0 (h (k0, r0) (List.mem_cons_self ..)) now
    obtain ⟨rest', e1, i1, n1, f1⟩ := discardAll_specP now rest (fun x hx => h x (List.mem_cons_of_mem _ hx))
    refine ⟨(k0, r0') :: rest', by simp [Conn.discardAll, e0, e1], ?_, ?_, ?_⟩
    · intro x hx
      simp only [List.mem_cons] at hx
      rcases hx with rfl | hx
      · exact i0
      · exact i1 x hx
    · intro k hk
      rw [SMap.find?_cons] at hk ⊢
      split
      · rename_i e; rw [if_pos e] at hk; cases hk
      · rename_i e; rw [if_neg e] at hk; exact n1 k hk
    · intro k r hk
      rw [SMap.find?_cons] at hk ⊢
      split
      · rename_i e; rw [if_pos e] at hk; cases hk; exact ⟨r0', e0, rfl⟩
      · rename_i e; rw [if_neg e] at hk; exact f1 k r hk

/-- `update` returns normally for every `dt`, keeps the invariant and the status; each unreliable receive channel
    is replaced by the result of its own `discardOld` -/
theorem update_totalP {P} {c : Conn} (h : c.InvP P) (dt : Nat) :
    ∃ c', c.update dt = .ok c' ∧ c'.InvP P ∧ c'.status = c.status ∧ c'.now = c.now + dt ∧
      c'.recvRel = c.recvRel ∧ c.SameChans c' ∧
      (∀ ch, SMap.find? c.recvUnrel ch = none → SMap.find? c'.recvUnrel ch = none) ∧
      (∀ ch r, SMap.find? c.recvUnrel ch = some r →
        ∃ r', r.discardOld (c.now + dt) = .ok r' ∧ SMap.find? c'.recvUnrel ch = some r') := by
  obtain ⟨ru, e0, i0, n0, f0⟩ := discardAll_specP (c.now + dt) c.recvUnrel h.recvUnrel
  have e : c.update dt = .ok
      { c with now := c.now + dt
               recvUnrel := ru
               sent := c.sent.dropWhile (fun (_, (t, _)) => c.now + dt - t ≥ DISCARD_AFTER_NS) } := by
    simp only [Conn.update, e0, Res.bind_ok, Res.pure_eq]
  refine ⟨_, e, ⟨SI.Conn.update_inv h.send e, h.acksWF, h.acksLen, h.acksBound, h.recvRel, i0, h.sendUnrel⟩,
    rfl, rfl, rfl, ⟨fun _ => rfl, fun _ => rfl, fun _ => rfl, fun k => ?_, rfl⟩, n0, f0⟩
  show (SMap.find? ru k).isSome = (SMap.find? c.recvUnrel k).isSome
  cases hk : SMap.find? c.recvUnrel k with
  | none => rw [n0 k hk]
  | some r => obtain ⟨r', -, h1⟩ := f0 k r hk; rw [h1]; rfl

/-- C09: after `update`, every time stamp still held by an unreliable receive channel is younger than
    `DISCARD_FRAGMENT_AFTER_NS` (so every fragment that made no progress for 3 s is gone, and by the accounting
    equality of the invariant it no longer counts) -/
theorem update_no_staleP {P} {c c' : Conn} (h : c.InvP P) {dt : Nat} (hu : c.update dt = .ok c') :
    ∀ ch r', SMap.find? c'.recvUnrel ch = some r' →
      ∀ id t, SMap.find? r'.lastReceived id = some t → c'.now - t < DISCARD_FRAGMENT_AFTER_NS := by
  obtain ⟨c2, e, i, -, hnow, -, -, n0, f0⟩ := update_totalP h dt
  rw [e] at hu; cases hu
  intro ch r' hr' id t ht
  cases hf : SMap.find? c.recvUnrel ch with
  | none => rw [n0 ch hf] at hr'; cases hr'
  | some r =>
    obtain ⟨r2, ed, hr2⟩ := f0 ch r hf
    rw [hr'] at hr2; cases hr2
    have hri := h.recvUnrel_find hf
    have hri' := i.recvUnrel_find hr'
    have hold : SMap.find? r.lastReceived id = some t := by
      rw [RecvUnrel.discardOld_eq] at ed
      exact discardLoop_last_mono _ r r' hri.lastSorted ed id t ht
    rw [hnow]
    apply Classical.byContradiction
    intro hge
    have hgone := RecvUnrel.discardOld_removes_staleP r r' hri (c.now + dt) id t hold (by omega) ed
    have hin := hri'.lastSub id (SMap.contains_of_find? ht)
    rw [SMap.contains_eq_false_iff.mpr hgone] at hin
    cases hin

/-! ## `receive_message` / `send_message` -/

theorem receiveMessage_totalP {P} {c : Conn} (h : c.InvP P) (ch : Nat) (hch : c.hasRecv ch) :
    ∃ c' m, c.receiveMessage ch = .ok (c', m) ∧ c'.InvP P ∧ c'.status = c.status ∧ c.SameChans c' := by
  cases hd : c.isDisconnected with
  | true => exact ⟨c, none, by unfold Conn.receiveMessage; rw [hd]; rfl, h, rfl, Conn.SameChans.refl c⟩
  | false =>
    unfold Conn.receiveMessage; rw [hd]
    simp only [Bool.false_eq_true, if_false]
    cases hf : SMap.find? c.recvRel ch with
    | some r =>
      obtain ⟨r', m, e, i⟩ := RecvRel.receive_safeP r (h.recvRel_find hf)
      simp only [e, Res.bind_ok, Res.pure_eq]
      exact ⟨_, m, rfl, h.rebuild h.acksWF h.acksLen h.acksBound (forall_insert h.recvRel ch i) h.recvUnrel, rfl,
        ⟨fun _ => rfl, fun _ => rfl, fun k => isSome_insert hf _ k, fun _ => rfl, rfl⟩⟩
    | none =>
      simp only
      cases hg : SMap.find? c.recvUnrel ch with
      | some r =>
        obtain ⟨r', m, e, i⟩ := RecvUnrel.receive_safeP r (h.recvUnrel_find hg)
        simp only [e, Res.bind_ok, Res.pure_eq]
        exact ⟨_, m, rfl, h.rebuild h.acksWF h.acksLen h.acksBound h.recvRel (forall_insert h.recvUnrel ch i), rfl,
          ⟨fun _ => rfl, fun _ => rfl, fun _ => rfl, fun k => isSome_insert hg _ k, rfl⟩⟩
      | none =>
        rcases hch with hx | hx
        · exact absurd hf hx
        · exact absurd hg hx

/-- the documented contract violation (an id that names no receive channel, on a live connection) is the ONLY
    way `receive_message` unwinds -/
theorem receiveMessage_panic_iffP {P} {c : Conn} (h : c.InvP P) (ch : Nat) :
    (∃ s, c.receiveMessage ch = .panic s) ↔ (c.isDisconnected = false ∧ ¬ c.hasRecv ch) := by
  constructor
  · rintro ⟨s, hs⟩
    cases hd : c.isDisconnected with
    | true => unfold Conn.receiveMessage at hs; rw [hd] at hs; cases hs
    | false =>
      refine ⟨rfl, fun hch => ?_⟩
      obtain ⟨c', m, e, -⟩ := receiveMessage_totalP h ch hch
      rw [e] at hs; cases hs
  · rintro ⟨hd, hn⟩
    have h1 : SMap.find? c.recvRel ch = none := Classical.byContradiction fun hx => hn (Or.inl hx)
    have h2 : SMap.find? c.recvUnrel ch = none := Classical.byContradiction fun hx => hn (Or.inr hx)
    exact ⟨_, by unfold Conn.receiveMessage; rw [hd, h1, h2]; rfl⟩

theorem sendUnrel_sendMessage_acct {s : SendUnrel} (h : s.Acct) (m : Bytes) : (s.sendMessage m).Acct := by
  unfold SendUnrel.sendMessage
  split
  · exact h
  · refine ⟨?_, by show s.mem + m.length ≤ s.maxMem; omega⟩
    show s.mem + m.length = sumLen (s.queue ++ [m])
    rw [sumLen_append, ← h.1]; simp

theorem sendMessage_totalP {P} {c : Conn} (h : c.InvP P) (ch : Nat) (m : Bytes) (hch : c.hasSend ch) :
    ∃ c', c.sendMessage ch m = .ok c' ∧ c'.InvP P ∧
      (c'.status = c.status ∨ ∃ e, c'.status = .disconnected (.sendChan ch e)) ∧ c.SameChans c' := by
  have key : ∀ c', c.sendMessage ch m = .ok c' → c'.recvRel = c.recvRel → c'.recvUnrel = c.recvUnrel →
      c'.pendingAcks = c.pendingAcks → (∀ x ∈ c'.sendUnrel, x.2.Acct) → c'.InvP P := by
    intro c' e h1 h2 h3 h4
    exact ⟨SI.Conn.sendMessage_inv h.send e, h3 ▸ h.acksWF, h3 ▸ h.acksLen, h3 ▸ h.acksBound, h1 ▸ h.recvRel,
      h2 ▸ h.recvUnrel, h4⟩
  cases hd : c.isDisconnected with
  | true =>
    have e : c.sendMessage ch m = .ok c := by unfold Conn.sendMessage; rw [hd]; rfl
    exact ⟨c, e, h, Or.inl rfl, Conn.SameChans.refl c⟩
  | false =>
    cases hf : SMap.find? c.sendRel ch with
    | some s =>
      cases hs : s.sendMessage m with
      | ok s' =>
        have e : c.sendMessage ch m = .ok { c with sendRel := SMap.insert c.sendRel ch s' } := by
          unfold Conn.sendMessage; rw [hd, hf]; simp only [Bool.false_eq_true, if_false, hs]
        exact ⟨_, e, key _ e rfl rfl rfl h.sendUnrel, Or.inl rfl,
          ⟨fun k => isSome_insert hf _ k, fun _ => rfl, fun _ => rfl, fun _ => rfl, rfl⟩⟩
      | error err =>
        have e : c.sendMessage ch m = .ok (c.disconnectWith (.sendChan ch err)) := by
          unfold Conn.sendMessage; rw [hd, hf]; simp only [Bool.false_eq_true, if_false, hs]
        refine ⟨_, e, h.disconnectWith _, Or.inr ⟨err, ?_⟩, sameChans_dw c _⟩
        rw [SL.Conn.disconnectWith_status, hd]; rfl
    | none =>
      cases hg : SMap.find? c.sendUnrel ch with
      | some s =>
        have e : c.sendMessage ch m = .ok { c with sendUnrel := SMap.insert c.sendUnrel ch (s.sendMessage m) } := by
          unfold Conn.sendMessage; rw [hd, hf, hg]; rfl
        exact ⟨_, e, key _ e rfl rfl rfl
          (forall_insert h.sendUnrel ch (sendUnrel_sendMessage_acct (h.sendUnrel_find hg) m)), Or.inl rfl,
          ⟨fun _ => rfl, fun k => isSome_insert hg _ k, fun _ => rfl, fun _ => rfl, rfl⟩⟩
      | none =>
        rcases hch with hx | hx
        · exact absurd hf hx
        · exact absurd hg hx

theorem sendMessage_panic_iffP {P} {c : Conn} (h : c.InvP P) (ch : Nat) (m : Bytes) :
    (∃ s, c.sendMessage ch m = .panic s) ↔ (c.isDisconnected = false ∧ ¬ c.hasSend ch) := by
  constructor
  · rintro ⟨s, hs⟩
    cases hd : c.isDisconnected with
    | true => unfold Conn.sendMessage at hs; rw [hd] at hs; cases hs
    | false =>
      refine ⟨rfl, fun hch => ?_⟩
      obtain ⟨c', e, -⟩ := sendMessage_totalP h ch m hch
      rw [e] at hs; cases hs
  · rintro ⟨hd, hn⟩
    have h1 : SMap.find? c.sendRel ch = none := Classical.byContradiction fun hx => hn (Or.inl hx)
    have h2 : SMap.find? c.sendUnrel ch = none := Classical.byContradiction fun hx => hn (Or.inr hx)
    exact ⟨_, by unfold Conn.sendMessage; rw [hd, h1, h2]; rfl⟩

/-- `channel_available_memory`: same contract -/
theorem availableMemory_total (c : Conn) (ch : Nat) (hch : c.hasSend ch) : ∃ n, c.availableMemory ch = .ok n := by
  unfold Conn.availableMemory
  cases hf : SMap.find? c.sendRel ch with
  | some s => exact ⟨_, rfl⟩
  | none =>
    cases hg : SMap.find? c.sendUnrel ch with
    | some s => exact ⟨_, rfl⟩
    | none =>
      rcases hch with hx | hx
      · exact absurd hf hx
      · exact absurd hg hx


/-! ## `get_packets_to_send` -/

end CI

/-- the counters the wire format cannot carry beyond `2^62 - 1` (octets varints): message ids, slice-message ids,
    packet sequence numbers, and (via the configured budgets) message lengths.  `flushSeq` is the value
    `packet_sequence` has after this flush. -/
structure Conn.CountersOK (c : Conn) : Prop where
  rel : ∀ ch s, SMap.find? c.sendRel ch = some s → s.nextId ≤ Varint.MAX + 1 ∧ s.maxMem ≤ Varint.MAX
  unrel : ∀ ch s, SMap.find? c.sendUnrel ch = some s →
    s.slicedId + s.queue.length ≤ Varint.MAX + 1 ∧ s.maxMem ≤ Varint.MAX
  seq : c.flushSeq ≤ Varint.MAX + 1

namespace CI

theorem sendRel_wf_of_inv {s : SendRel} (h : s.Inv) (hm : s.maxMem ≤ Varint.MAX) : s.WF := by
  refine ⟨?_, fun id u hx => h.keys _ hx, ?_⟩
  · unfold SMap.keys List.Nodup
    exact List.pairwise_map.mpr (h.sorted.imp (fun hlt => Nat.ne_of_lt hlt))
  · intro id u hx
    have hok := h.entries _ hx
    have hlen : u.msg.length ≤ Varint.MAX := by
      have := SI.msum_ge (SI.mem_find?_of_sorted h.sorted hx)
      have := h.mem; have := h.bound; omega
    cases u with
    | small m ls => exact hok
    | sliced m n na nx ak ls =>
      obtain ⟨o1, o2, o3, o4, -, -⟩ := hok
      exact ⟨o2, by omega, hlen, o3, o4⟩

/-- the hypotheses of C13's `connection_fits` follow from the invariant and the counter bounds -/
theorem flushInv_of {P} {c : Conn} (h : c.InvP P) (hc : c.CountersOK) : c.FlushInv := by
  refine ⟨?_, ?_, ?_, h.acksWF, h.acksLen, h.acksBound⟩
  · intro x hx
    have := h.send.order x hx
    split
    · rename_i hb; rw [if_pos hb] at this
      intro hn; rw [hn] at this; cases this
    · rename_i hb; rw [if_neg hb] at this
      intro hn; rw [hn] at this; cases this
  · intro ch s hs
    obtain ⟨c1, c2⟩ := hc.rel ch s hs
    exact ⟨sendRel_wf_of_inv (h.sendRel_find hs).1 c2, c1⟩
  · intro ch s hs
    obtain ⟨c1, c2⟩ := hc.unrel ch s hs
    have ha := h.sendUnrel_find hs
    refine ⟨fun m hm => ?_, c1⟩
    have := le_sumLen hm
    have := ha.1; have := ha.2; omega

/-- an unreliable send channel whose queue is empty and whose counter is zero -/
def Drained (su : SMap SendUnrel) (ch : Nat) : Prop :=
  ∀ s, SMap.find? su ch = some s → s.queue = [] ∧ s.mem = 0

theorem sendUnrel_getPackets_acct {s : SendUnrel} (h : s.Acct) (seq avail : Nat) :
    (s.getPackets seq avail).1.Acct ∧ (s.getPackets seq avail).1.queue = [] ∧ (s.getPackets seq avail).1.mem = 0 ∧
    (s.getPackets seq avail).1.maxMem = s.maxMem := by
  obtain ⟨d1, d2, -, d4⟩ := SendUnrel.getPackets_drains (s := s) (s' := (s.getPackets seq avail).1)
    (ps := (s.getPackets seq avail).2.1) (seq' := (s.getPackets seq avail).2.2.1)
    (avail' := (s.getPackets seq avail).2.2.2) rfl
  have h0 : (s.getPackets seq avail).1.mem = 0 := by
    rw [d2, unrelSmallSum_eq_sumLen, h.1]; omega
  refine ⟨⟨?_, by omega⟩, d1, h0, d4⟩
  rw [h0, d1]; rfl

/-- the channel loop keeps the accounting of every unreliable send channel, and leaves every unreliable channel
    of the send order drained -/
theorem chanLoop_unrel (now : Nat) : ∀ (ord : List (Bool × Nat)) (sr : SMap SendRel) (su : SMap SendUnrel)
    (pk : List Packet) (seq avail : Nat) (sr' : SMap SendRel) (su' : SMap SendUnrel) (pk' : List Packet)
    (seq' avail' : Nat),
    Conn.chanLoop now ord (sr, su, pk, seq, avail) = .ok (sr', su', pk', seq', avail') →
    (∀ x ∈ su, x.2.Acct) →
    (∀ x ∈ su', x.2.Acct) ∧ (∀ ch, Drained su ch → Drained su' ch) ∧ (∀ ch, (false, ch) ∈ ord → Drained su' ch) ∧
    (∀ ch s, SMap.find? su ch = some s → ∃ s', SMap.find? su' ch = some s' ∧ s'.maxMem = s.maxMem) ∧
    (∀ ch, (SMap.find? su' ch).isSome = (SMap.find? su ch).isSome) ∧
    (∀ ch, (SMap.find? sr' ch).isSome = (SMap.find? sr ch).isSome)
  | [], sr, su, pk, seq, avail, sr', su', pk', seq', avail', h, ha => by
    simp only [Conn.chanLoop, Res.ok.injEq, Prod.mk.injEq] at h
    obtain ⟨rfl, rfl, -, -, -⟩ := h
    exact ⟨ha, fun _ hd => hd, fun _ hm => (by cases hm), fun _ s hs => ⟨s, hs, rfl⟩, fun _ => rfl, fun _ => rfl⟩
  | (true, ch0) :: rest, sr, su, pk, seq, avail, sr', su', pk', seq', avail', h, ha => by
    rw [chanLoop_rel_step] at h
    split at h
    · cases h
    · rename_i s hs
      obtain ⟨i1, i2, i3, i4, i5, i6⟩ := chanLoop_unrel now rest _ _ _ _ _ _ _ _ _ _ h ha
      refine ⟨i1, i2, fun ch hm => ?_, i4, i5, fun k => (i6 k).trans (isSome_insert hs _ k)⟩
      simp only [List.mem_cons, Prod.mk.injEq, Bool.false_eq_true, false_and, false_or] at hm
      exact i3 ch hm
  | (false, ch0) :: rest, sr, su, pk, seq, avail, sr', su', pk', seq', avail', h, ha => by
    rw [chanLoop_unrel_step] at h
    split at h
    · cases h
    · rename_i s hs
      obtain ⟨g1, g2, g3, g4⟩ := sendUnrel_getPackets_acct (ha _ (SMap.mem_of_find? hs)) seq avail
      obtain ⟨i1, i2, i3, i4, i5, i6⟩ := chanLoop_unrel now rest _ _ _ _ _ _ _ _ _ _ h (forall_insert ha ch0 g1)
      have hd0 : Drained (SMap.insert su ch0 (s.getPackets seq avail).1) ch0 := by
        intro s1 h1
        rw [SMap.find?_insert, if_pos rfl] at h1
        cases h1; exact ⟨g2, g3⟩
      refine ⟨i1, fun ch hd => i2 ch ?_, fun ch hm => ?_, fun ch s1 h1 => ?_,
        fun k => (i5 k).trans (isSome_insert hs _ k), i6⟩
      · by_cases e : ch0 = ch
        · subst e; exact hd0
        · intro s1 h1
          rw [SMap.find?_insert, if_neg e] at h1
          exact hd s1 h1
      · simp only [List.mem_cons, Prod.mk.injEq, true_and] at hm
        rcases hm with rfl | hm
        · exact i2 _ hd0
        · exact i3 ch hm
      · by_cases e : ch0 = ch
        · subst e
          rw [hs] at h1; cases h1
          obtain ⟨s2, h2, h3⟩ := i4 ch0 _ (by rw [SMap.find?_insert, if_pos rfl])
          exact ⟨s2, h2, h3.trans g4⟩
        · exact i4 ch s1 (by rw [SMap.find?_insert, if_neg e]; exact h1)

/-- what a returning `get_packets_to_send` of a live connection did outside the reliable send side -/
theorem getPacketsToSend_shape {c c' : Conn} {out : List Bytes} (hd : c.isDisconnected = false)
    (h : c.getPacketsToSend = .ok (c', out)) :
    ∃ sr su pk seq avail,
      Conn.chanLoop c.now c.order (c.sendRel, c.sendUnrel, [], c.packetSeq, c.budget) = .ok (sr, su, pk, seq, avail) ∧
      c'.sendUnrel = su ∧ c'.recvRel = c.recvRel ∧ c'.recvUnrel = c.recvUnrel ∧ c'.now = c.now ∧
      c'.budget = c.budget ∧ c'.sendRel = sr ∧ c'.order = c.order := by
  unfold Conn.getPacketsToSend at h
  simp only [hd, Bool.false_eq_true, ↓reduceIte] at h
  cases hr : Conn.chanLoop c.now c.order (c.sendRel, c.sendUnrel, [], c.packetSeq, c.budget) with
  | panic s => rw [hr] at h; cases h
  | err e => cases e
  | ok r =>
    obtain ⟨sr, su, pk, seq, avail⟩ := r
    rw [hr] at h
    simp only [Res.bind_ok] at h
    refine ⟨sr, su, pk, seq, avail, rfl, ?_⟩
    by_cases hempty : c.pendingAcks.isEmpty = true
    · simp only [hempty, ↓reduceIte] at h
      cases hs : Conn.recordSent c.now pk c.sent with
      | panic s => rw [hs] at h; cases h
      | err e => cases e
      | ok m =>
        rw [hs] at h
        simp only [Res.bind_ok] at h
        cases hser : Conn.serialiseAll pk with
        | ok bs' =>
          rw [hser] at h; simp only [Res.pure_eq, Res.ok.injEq, Prod.mk.injEq] at h
          obtain ⟨rfl, -⟩ := h; exact ⟨rfl, rfl, rfl, rfl, rfl, rfl, rfl⟩
        | err e =>
          rw [hser] at h; simp only [Res.pure_eq, Res.ok.injEq, Prod.mk.injEq] at h
          obtain ⟨rfl, -⟩ := h; simp
        | panic s => rw [hser] at h; cases h
    · simp only [hempty, Bool.false_eq_true, ↓reduceIte] at h
      cases hs : Conn.recordSent c.now (pk ++ [Packet.ack seq c.pendingAcks]) c.sent with
      | panic s => rw [hs] at h; cases h
      | err e => cases e
      | ok m =>
        rw [hs] at h
        simp only [Res.bind_ok] at h
        cases hser : Conn.serialiseAll (pk ++ [Packet.ack seq c.pendingAcks]) with
        | ok bs' =>
          rw [hser] at h; simp only [Res.pure_eq, Res.ok.injEq, Prod.mk.injEq] at h
          obtain ⟨rfl, -⟩ := h; exact ⟨rfl, rfl, rfl, rfl, rfl, rfl, rfl⟩
        | err e =>
          rw [hser] at h; simp only [Res.pure_eq, Res.ok.injEq, Prod.mk.injEq] at h
          obtain ⟨rfl, -⟩ := h; simp
        | panic s => rw [hser] at h; cases h

/-- whenever `get_packets_to_send` returns, the invariant holds again (no counter hypothesis needed here) -/
theorem getPacketsToSend_invP {P} {c c' : Conn} {out : List Bytes} (h : c.InvP P)
    (hr : c.getPacketsToSend = .ok (c', out)) : c'.InvP P := by
  cases hd : c.isDisconnected with
  | true =>
    unfold Conn.getPacketsToSend at hr; rw [hd] at hr
    simp only [if_true, Res.ok.injEq, Prod.mk.injEq] at hr
    obtain ⟨rfl, -⟩ := hr; exact h
  | false =>
    obtain ⟨i, a, -, -⟩ := SI.Conn.getPacketsToSend_spec h.send h.acksWF hr
    obtain ⟨sr, su, pk, seq, avail, hl, e1, e2, e3, -⟩ := getPacketsToSend_shape hd hr
    obtain ⟨u1, -⟩ := chanLoop_unrel _ _ _ _ _ _ _ _ _ _ _ _ hl h.sendUnrel
    exact ⟨i, a ▸ h.acksWF, a ▸ h.acksLen, a ▸ h.acksBound, e2 ▸ h.recvRel, e3 ▸ h.recvUnrel, e1 ▸ u1⟩

/-- `get_packets_to_send`, counters in range: returns normally, invariant kept, status unchanged (in particular no
    `PacketSerialization` self-disconnect), every datagram at most `NETCODE_MAX_PAYLOAD_BYTES` long -/
theorem getPacketsToSend_totalP {P} {c : Conn} (h : c.InvP P) (hc : c.CountersOK) :
    ∃ c' out, c.getPacketsToSend = .ok (c', out) ∧ c'.InvP P ∧ c'.status = c.status ∧
      (∀ b ∈ out, b.length ≤ NETCODE_MAX_PAYLOAD_BYTES) := by
  obtain ⟨c', out, e, hs, hl, -⟩ := Conn.getPacketsToSend_fits c (flushInv_of h hc) hc.seq
  exact ⟨c', out, e, getPacketsToSend_invP h e, hs, hl⟩

/-- C09: after a flush of a live connection every unreliable send channel of the send order is empty and accounts
    zero bytes -/
theorem getPacketsToSend_drainsP {P} {c c' : Conn} {out : List Bytes} (h : c.InvP P) (hd : c.isDisconnected = false)
    (hr : c.getPacketsToSend = .ok (c', out)) :
    ∀ ch, (false, ch) ∈ c.order → ∀ s', SMap.find? c'.sendUnrel ch = some s' → s'.queue = [] ∧ s'.mem = 0 := by
  obtain ⟨sr, su, pk, seq, avail, hl, e1, -⟩ := getPacketsToSend_shape hd hr
  obtain ⟨-, -, u3, -⟩ := chanLoop_unrel _ _ _ _ _ _ _ _ _ _ _ _ hl h.sendUnrel
  intro ch hch s' hs'
  rw [e1] at hs'
  exact u3 ch hch s' hs'


theorem getPacketsToSend_sameChansP {P} {c c' : Conn} {out : List Bytes} (h : c.InvP P)
    (hr : c.getPacketsToSend = .ok (c', out)) : c.SameChans c' := by
  cases hd : c.isDisconnected with
  | true =>
    unfold Conn.getPacketsToSend at hr; rw [hd] at hr
    simp only [if_true, Res.ok.injEq, Prod.mk.injEq] at hr
    obtain ⟨rfl, -⟩ := hr; exact Conn.SameChans.refl _
  | false =>
    obtain ⟨sr, su, pk, seq, avail, hl, e1, e2, e3, -, -, e6, e7⟩ := getPacketsToSend_shape hd hr
    obtain ⟨-, -, -, -, u5, u6⟩ := chanLoop_unrel _ _ _ _ _ _ _ _ _ _ _ _ hl h.sendUnrel
    exact ⟨fun k => by rw [e6]; exact u6 k, fun k => by rw [e1]; exact u5 k, fun _ => by rw [e2],
      fun _ => by rw [e3], e7⟩

/-! ## every public operation, and sequences of them -/

/-- the channel id an operation names exists (the documented contract of `send_message` / `receive_message`) -/
def ChanValid (c : Conn) : SL.ConnOp → Prop
  | .sendMessage ch _ => c.hasSend ch
  | .receiveMessage ch => c.hasRecv ch
  | _ => True

theorem ChanValid.same {c c' : Conn} (h : c.SameChans c') {op : SL.ConnOp} (hv : ChanValid c op) : ChanValid c' op := by
  cases op <;> first | trivial | exact (h.hasSend _).mpr hv | exact (h.hasRecv _).mpr hv

def isFlush : SL.ConnOp → Bool
  | .getPacketsToSend => true
  | _ => false

/-- one operation: returns normally, keeps the invariant and the channel tables' key sets.  The only side
    condition besides valid channel ids is `CountersOK` for a flush (counters below 2^62). -/
theorem apply_totalP {P} (hP : GoodP P) {c : Conn} (h : c.InvP P) (op : SL.ConnOp) (hv : ChanValid c op)
    (hc : isFlush op = true → c.CountersOK) :
    ∃ c', op.apply c = .ok c' ∧ c'.InvP P ∧ c.SameChans c' := by
  cases op with
  | setConnected => exact ⟨_, rfl, h.setConnected, sameChans_setConnected c⟩
  | setConnecting => exact ⟨_, rfl, h.setConnecting, sameChans_setConnecting c⟩
  | disconnect => exact ⟨_, rfl, h.disconnectWith _, sameChans_dw c _⟩
  | disconnectWith r => exact ⟨_, rfl, h.disconnectWith _, sameChans_dw c _⟩
  | sendMessage ch m =>
    obtain ⟨c', e, i, -, sc⟩ := sendMessage_totalP h ch m hv
    exact ⟨c', e, i, sc⟩
  | receiveMessage ch =>
    obtain ⟨c', m, e, i, -, sc⟩ := receiveMessage_totalP h ch hv
    exact ⟨c', by simp only [SL.ConnOp.apply, e, SL.Res.stateOf], i, sc⟩
  | processPacket b =>
    obtain ⟨c', e, i, -, sc⟩ := processPacket_totalP hP h b
    exact ⟨c', e, i, sc⟩
  | getPacketsToSend =>
    obtain ⟨c', out, e, i, -, -⟩ := getPacketsToSend_totalP h (hc rfl)
    exact ⟨c', by simp only [SL.ConnOp.apply, e, SL.Res.stateOf], i, getPacketsToSend_sameChansP h e⟩
  | update dt =>
    obtain ⟨c', e, i, -, -, -, sc, -⟩ := update_totalP h dt
    exact ⟨c', e, i, sc⟩

/-- for every flush of the sequence, the counters are in range in the state in which the flush is called -/
def FlushOK (c : Conn) : List SL.ConnOp → Prop
  | [] => True
  | op :: rest => (isFlush op = true → c.CountersOK) ∧ ∀ c', op.apply c = .ok c' → FlushOK c' rest

/-- **"subsequent API calls keep working"**: any sequence of public operations with valid channel ids — hostile
    bytes anywhere — runs to completion without unwinding and ends in a state satisfying the invariant.  For each
    flush in the sequence the counters must be in range in the state in which it is called (`FlushOK`). -/
theorem runOps_totalP {P} (hP : GoodP P) : ∀ (ops : List SL.ConnOp) (c : Conn), c.InvP P →
    (∀ op ∈ ops, ChanValid c op) → FlushOK c ops →
    ∃ c', SL.Conn.runOps c ops = .ok c' ∧ c'.InvP P ∧ c.SameChans c'
  | [], c, h, _, _ => ⟨c, rfl, h, Conn.SameChans.refl c⟩
  | op :: rest, c, h, hv, hc => by
    obtain ⟨c1, e1, i1, s1⟩ := apply_totalP hP h op (hv op (List.mem_cons_self ..)) hc.1
    obtain ⟨c2, e2, i2, s2⟩ := runOps_totalP hP rest c1 i1
      (fun o ho => ChanValid.same s1 (hv o (List.mem_cons_of_mem _ ho))) (hc.2 c1 e1)
    exact ⟨c2, by simp only [SL.Conn.runOps, e1]; exact e2, i2, s1.trans s2⟩

theorem flushOK_of_noflush : ∀ (ops : List SL.ConnOp) (c : Conn), (∀ op ∈ ops, isFlush op = false) → FlushOK c ops
  | [], _, _ => trivial
  | op :: rest, c, h =>
    ⟨fun hf => (by
        have := h op (List.mem_cons_self ..)
        rw [this] at hf; cases hf),
     fun c' _ => flushOK_of_noflush rest c' (fun o ho => h o (List.mem_cons_of_mem _ ho))⟩

/-- without flushes no side condition remains -/
theorem runOps_total_noflushP {P} (hP : GoodP P) (ops : List SL.ConnOp) (c : Conn) (h : c.InvP P)
    (hv : ∀ op ∈ ops, ChanValid c op) (hn : ∀ op ∈ ops, isFlush op = false) :
    ∃ c', SL.Conn.runOps c ops = .ok c' ∧ c'.InvP P ∧ c.SameChans c' :=
  runOps_totalP hP ops c h hv (flushOK_of_noflush ops c hn)

/-! ### executable checkers for the side conditions (used for concrete examples) -/

def countersOKb (c : Conn) : Bool :=
  c.sendRel.all (fun x => decide (x.2.nextId ≤ Varint.MAX + 1) && decide (x.2.maxMem ≤ Varint.MAX)) &&
  c.sendUnrel.all (fun x => decide (x.2.slicedId + x.2.queue.length ≤ Varint.MAX + 1) &&
    decide (x.2.maxMem ≤ Varint.MAX)) &&
  decide (c.flushSeq ≤ Varint.MAX + 1)

theorem countersOK_of_b {c : Conn} (h : countersOKb c = true) : c.CountersOK := by
  simp only [countersOKb, Bool.and_eq_true, List.all_eq_true, decide_eq_true_eq] at h
  obtain ⟨⟨h1, h2⟩, h3⟩ := h
  exact ⟨fun ch s hf => h1 _ (SMap.mem_of_find? hf), fun ch s hf => h2 _ (SMap.mem_of_find? hf), h3⟩

def flushOKb (c : Conn) : List SL.ConnOp → Bool
  | [] => true
  | op :: rest => (!isFlush op || countersOKb c) &&
    (match op.apply c with
     | .ok c' => flushOKb c' rest
     | _ => true)

theorem flushOK_of_b : ∀ (ops : List SL.ConnOp) (c : Conn), flushOKb c ops = true → FlushOK c ops
  | [], _, _ => trivial
  | op :: rest, c, h => by
    simp only [flushOKb, Bool.and_eq_true, Bool.or_eq_true, Bool.not_eq_true'] at h
    refine ⟨fun hf => ?_, fun c' e => ?_⟩
    · rcases h.1 with h1 | h1
      · rw [h1] at hf; cases hf
      · exact countersOK_of_b h1
    · have := h.2
      rw [e] at this
      exact flushOK_of_b rest c' this

instance (c : Conn) (ch : Nat) : Decidable (c.hasSend ch) := by unfold Conn.hasSend; infer_instance
instance (c : Conn) (ch : Nat) : Decidable (c.hasRecv ch) := by unfold Conn.hasRecv; infer_instance

/-- the channels of a fresh connection are exactly the configured ones -/
theorem fromChannels_hasSend (budget : Nat) (send recv : List ChanCfg) (ch : Nat) (h : ch ∈ send.map (·.id)) :
    (Conn.fromChannels budget send recv).hasSend ch := by
  obtain ⟨cfg, hcfg, rfl⟩ := List.mem_map.mp h
  unfold Conn.hasSend
  rw [ne_none_iff_isSome, ne_none_iff_isSome]
  by_cases hk : cfg.kind = .unreliable
  · right
    exact SI.foldl_insert_isSome (fun c : ChanCfg => c.id) (fun c => SendUnrel.new c.id c.maxMem) _ _ _
      (Or.inr ⟨cfg, List.mem_filter.mpr ⟨hcfg, by simp [hk]⟩, rfl⟩)
  · left
    exact SI.foldl_insert_isSome (fun c : ChanCfg => c.id) (fun c => SendRel.new c.id c.resend c.maxMem) _ _ _
      (Or.inr ⟨cfg, List.mem_filter.mpr ⟨hcfg, by simp [hk]⟩, rfl⟩)

theorem fromChannels_hasRecv (budget : Nat) (send recv : List ChanCfg) (ch : Nat) (h : ch ∈ recv.map (·.id)) :
    (Conn.fromChannels budget send recv).hasRecv ch := by
  obtain ⟨cfg, hcfg, rfl⟩ := List.mem_map.mp h
  unfold Conn.hasRecv
  rw [ne_none_iff_isSome, ne_none_iff_isSome]
  by_cases hk : cfg.kind = .unreliable
  · right
    exact SI.foldl_insert_isSome (fun c : ChanCfg => c.id) (fun c => RecvUnrel.new c.id c.maxMem) _ _ _
      (Or.inr ⟨cfg, List.mem_filter.mpr ⟨hcfg, by simp [hk]⟩, rfl⟩)
  · left
    exact SI.foldl_insert_isSome (fun c : ChanCfg => c.id) (fun c => RecvRel.new c.maxMem (c.kind == .ordered)) _ _ _
      (Or.inr ⟨cfg, List.mem_filter.mpr ⟨hcfg, by simp [hk]⟩, rfl⟩)

/-- channel ids taken from the configuration -/
def CfgValid (send recv : List ChanCfg) : SL.ConnOp → Prop
  | .sendMessage ch _ => ch ∈ send.map (·.id)
  | .receiveMessage ch => ch ∈ recv.map (·.id)
  | _ => True

theorem CfgValid.chanValid {budget : Nat} {send recv : List ChanCfg} {op : SL.ConnOp} (h : CfgValid send recv op) :
    ChanValid (Conn.fromChannels budget send recv) op := by
  cases op <;> first | trivial | exact fromChannels_hasSend _ _ _ _ h | exact fromChannels_hasRecv _ _ _ _ h


/-! ## the server -/

end CI

/-- every connection of the table satisfies the connection invariant and has exactly the channels the server
    configures for its clients -/
structure Server.InvP (P : SliceCtor → Prop) (s : Server) : Prop where
  conns : ∀ x ∈ s.conns, x.2.InvP P
  chans : ∀ x ∈ s.conns, s.newConn.SameChans x.2

def Server.Inv (s : Server) : Prop := s.InvP SliceCtor.WInv
def Server.SInv (s : Server) : Prop := s.InvP SliceCtor.Inv

namespace CI

theorem server_new_invP {P} (budget : Nat) (sc cc : List ChanCfg) : (Server.new budget sc cc).InvP P :=
  ⟨fun _ hx => (by cases hx), fun _ hx => (by cases hx)⟩

theorem _root_.RenetVerif.Server.InvP.find {P} {s : Server} (h : s.InvP P) {i : Nat} {c : Conn}
    (hf : SMap.find? s.conns i = some c) : c.InvP P ∧ s.newConn.SameChans c :=
  ⟨h.conns _ (SMap.mem_of_find? hf), h.chans _ (SMap.mem_of_find? hf)⟩

theorem _root_.RenetVerif.Server.InvP.setConn {P} {s : Server} (h : s.InvP P) (i : Nat) {c' : Conn} (hc : c'.InvP P)
    (hs : s.newConn.SameChans c') : ({ s with conns := SMap.insert s.conns i c' } : Server).InvP P :=
  ⟨forall_insert h.conns i hc, forall_insert (Q := fun c => s.newConn.SameChans c) h.chans i hs⟩

theorem server_addConnection_invP {P} {s : Server} (h : s.InvP P) (id : Nat) : (s.addConnection id).InvP P := by
  unfold Server.addConnection
  split
  · exact h
  · exact ⟨forall_insert h.conns id (fromChannels_invP _ _ _).setConnected,
      forall_insert (Q := fun c => s.newConn.SameChans c) h.chans id (sameChans_setConnected _)⟩

theorem server_removeConnection_invP {P} {s : Server} (h : s.InvP P) (id : Nat) : (s.removeConnection id).InvP P := by
  unfold Server.removeConnection
  split
  · exact h
  · exact ⟨fun x hx => h.conns x (SMap.mem_erase hx), fun x hx => h.chans x (SMap.mem_erase hx)⟩

theorem server_disconnect_invP {P} {s : Server} (h : s.InvP P) (id : Nat) : (s.disconnect id).InvP P := by
  unfold Server.disconnect
  split
  · exact h
  · rename_i c hf
    obtain ⟨i, sc⟩ := h.find hf
    exact h.setConn id (i.disconnectWith _) (sameChans_dw_of sc _)

theorem server_disconnectAll_invP {P} {s : Server} (h : s.InvP P) : s.disconnectAll.InvP P := by
  unfold Server.disconnectAll
  constructor
  · intro x hx
    obtain ⟨y, hy, rfl⟩ := List.mem_map.mp hx
    exact (h.conns y hy).disconnectWith _
  · intro x hx
    obtain ⟨y, hy, rfl⟩ := List.mem_map.mp hx
    exact sameChans_dw_of (h.chans y hy) _

theorem server_getEvent_invP {P} {s : Server} (h : s.InvP P) : s.getEvent.1.InvP P := by
  unfold Server.getEvent
  split
  · exact h
  · exact ⟨h.conns, h.chans⟩

/-- **C06, server.**  Whatever bytes are attributed to whatever client id: `process_packet_from` returns normally;
    the server invariant holds again; only slot `id` of the table can differ (`Addressed`), no connection appears or
    disappears and every other connection — indeed every connection that was already disconnected — keeps its status
    (`QuietC`); the addressed connection has processed the packet or is disconnected with a reason. -/
theorem server_processPacketFrom_totalP {P} (hP : GoodP P) {s : Server} (h : s.InvP P) (bytes : Bytes) (i : Nat) :
    ∃ s' ok, s.processPacketFrom bytes i = .ok (s', ok) ∧ s'.InvP P ∧ SL.Server.Addressed i s s' ∧
      SL.QuietC s.conns s'.conns ∧
      ((SMap.find? s.conns i = none ∧ s' = s ∧ ok = false) ∨
       (∃ c c', SMap.find? s.conns i = some c ∧ c.processPacket bytes = .ok c' ∧ ok = true ∧
          SMap.find? s'.conns i = some c' ∧ (c'.status = c.status ∨ ∃ r, c'.status = .disconnected r))) := by
  cases hf : SMap.find? s.conns i with
  | none =>
    have e : s.processPacketFrom bytes i = .ok (s, false) := by unfold Server.processPacketFrom; rw [hf]
    exact ⟨s, false, e, h, SL.Server.Addressed.refl i s, SL.QuietC.refl _, Or.inl ⟨rfl, rfl, rfl⟩⟩
  | some c =>
    obtain ⟨ic, sc⟩ := h.find hf
    obtain ⟨c', e', i', st, sc'⟩ := processPacket_totalP hP ic bytes
    have e : s.processPacketFrom bytes i = .ok ({ s with conns := SMap.insert s.conns i c' }, true) := by
      unfold Server.processPacketFrom; rw [hf]; simp only [e', Res.bind_ok, Res.pure_eq]
    obtain ⟨ad, q, -⟩ := SL.Server.processPacketFrom_spec e
    exact ⟨_, true, e, h.setConn i i' (sc.trans sc'), ad, q,
      Or.inr ⟨c, c', rfl, e', rfl, SL.SMap.find?_insert_self _ _ _, st⟩⟩

theorem server_sendMessage_totalP {P} {s : Server} (h : s.InvP P) (i ch : Nat) (m : Bytes)
    (hch : s.newConn.hasSend ch) :
    ∃ s', s.sendMessage i ch m = .ok s' ∧ s'.InvP P ∧ SL.Server.Addressed i s s' ∧ SL.QuietC s.conns s'.conns := by
  cases hf : SMap.find? s.conns i with
  | none =>
    have e : s.sendMessage i ch m = .ok s := by unfold Server.sendMessage; rw [hf]
    exact ⟨s, e, h, SL.Server.Addressed.refl i s, SL.QuietC.refl _⟩
  | some c =>
    obtain ⟨ic, sc⟩ := h.find hf
    obtain ⟨c', e', i', -, sc'⟩ := sendMessage_totalP ic ch m ((sc.hasSend ch).mpr hch)
    have e : s.sendMessage i ch m = .ok { s with conns := SMap.insert s.conns i c' } := by
      unfold Server.sendMessage; rw [hf]; simp only [e', Res.bind_ok, Res.pure_eq]
    obtain ⟨ad, q, -⟩ := SL.Server.sendMessage_spec e
    exact ⟨_, e, h.setConn i i' (sc.trans sc'), ad, q⟩

theorem server_receiveMessage_totalP {P} {s : Server} (h : s.InvP P) (i ch : Nat) (hch : s.newConn.hasRecv ch) :
    ∃ s' m, s.receiveMessage i ch = .ok (s', m) ∧ s'.InvP P ∧ SL.Server.Addressed i s s' ∧
      SL.QuietC s.conns s'.conns := by
  cases hf : SMap.find? s.conns i with
  | none =>
    have e : s.receiveMessage i ch = .ok (s, none) := by unfold Server.receiveMessage; rw [hf]
    exact ⟨s, none, e, h, SL.Server.Addressed.refl i s, SL.QuietC.refl _⟩
  | some c =>
    obtain ⟨ic, sc⟩ := h.find hf
    obtain ⟨c', m, e', i', -, sc'⟩ := receiveMessage_totalP ic ch ((sc.hasRecv ch).mpr hch)
    have e : s.receiveMessage i ch = .ok ({ s with conns := SMap.insert s.conns i c' }, m) := by
      unfold Server.receiveMessage; rw [hf]; simp only [e', Res.bind_ok, Res.pure_eq]
    obtain ⟨ad, q, -⟩ := SL.Server.receiveMessage_spec e
    exact ⟨_, m, e, h.setConn i i' (sc.trans sc'), ad, q⟩

theorem server_getPacketsToSend_totalP {P} {s : Server} (h : s.InvP P) (i : Nat)
    (hc : ∀ c, SMap.find? s.conns i = some c → c.CountersOK) :
    ∃ s' out, s.getPacketsToSend i = .ok (s', out) ∧ s'.InvP P ∧ SL.Server.Addressed i s s' ∧
      SL.QuietC s.conns s'.conns ∧ (∀ ps, out = some ps → ∀ b ∈ ps, b.length ≤ NETCODE_MAX_PAYLOAD_BYTES) := by
  cases hf : SMap.find? s.conns i with
  | none =>
    have e : s.getPacketsToSend i = .ok (s, none) := by unfold Server.getPacketsToSend; rw [hf]
    exact ⟨s, none, e, h, SL.Server.Addressed.refl i s, SL.QuietC.refl _, fun _ hn => (by cases hn)⟩
  | some c =>
    obtain ⟨ic, sc⟩ := h.find hf
    obtain ⟨c', out, e', i', -, hl⟩ := getPacketsToSend_totalP ic (hc c hf)
    have e : s.getPacketsToSend i = .ok ({ s with conns := SMap.insert s.conns i c' }, some out) := by
      unfold Server.getPacketsToSend; rw [hf]; simp only [e', Res.bind_ok, Res.pure_eq]
    obtain ⟨ad, q, -⟩ := SL.Server.getPacketsToSend_spec e
    exact ⟨_, some out, e, h.setConn i i' (sc.trans (getPacketsToSend_sameChansP ic e')), ad, q,
      fun ps hps => by cases hps; exact hl⟩

/-- a total, invariant-preserving function mapped over the table -/
theorem mapConnsM_total {Q : Conn → Prop} (f : Nat → Conn → Res Empty Conn)
    (hf : ∀ k c, Q c → ∃ c', f k c = .ok c' ∧ Q c') : ∀ (m : SMap Conn), (∀ x ∈ m, Q x.2) →
    ∃ m', Server.mapConnsM f m = .ok m' ∧ ∀ x ∈ m', Q x.2
  | [], _ => ⟨[], rfl, fun _ hx => (by cases hx)⟩
  | (k, c) :: rest, h => by
    obtain ⟨c', e1, q1⟩ := hf k c (h (k, c) (List.mem_cons_self ..))
    obtain ⟨rest', e2, q2⟩ := mapConnsM_total f hf rest (fun x hx => h x (List.mem_cons_of_mem _ hx))
    refine ⟨(k, c') :: rest', by simp only [Server.mapConnsM, e1, e2, Res.bind_ok, Res.pure_eq], ?_⟩
    intro x hx
    simp only [List.mem_cons] at hx
    rcases hx with rfl | hx
    · exact q1
    · exact q2 x hx

theorem server_update_totalP {P} {s : Server} (h : s.InvP P) (dt : Nat) :
    ∃ s', s.update dt = .ok s' ∧ s'.InvP P ∧ s'.events = s.events ∧ SL.QuietC s.conns s'.conns ∧
      s'.newConn = s.newConn := by
  obtain ⟨m', e', q⟩ := mapConnsM_total (Q := fun c => c.InvP P ∧ s.newConn.SameChans c) (fun _ c => c.update dt)
    (fun k c hq => by
      obtain ⟨c', e, i, -, -, -, sc, -⟩ := update_totalP hq.1 dt
      exact ⟨c', e, i, hq.2.trans sc⟩) s.conns (fun x hx => ⟨h.conns x hx, h.chans x hx⟩)
  have e : s.update dt = .ok { s with conns := m' } := by
    unfold Server.update; simp only [e', Res.bind_ok, Res.pure_eq]
  obtain ⟨ev, qu, -⟩ := SL.Server.update_spec e
  exact ⟨_, e, ⟨fun x hx => (q x hx).1, fun x hx => (q x hx).2⟩, ev, qu, rfl⟩

theorem server_broadcast_totalP {P} {s : Server} (h : s.InvP P) (ch : Nat) (m : Bytes) (hch : s.newConn.hasSend ch) :
    ∃ s', s.broadcast ch m = .ok s' ∧ s'.InvP P ∧ s'.events = s.events ∧ SL.QuietC s.conns s'.conns ∧
      s'.newConn = s.newConn := by
  obtain ⟨m', e', q⟩ := mapConnsM_total (Q := fun c => c.InvP P ∧ s.newConn.SameChans c)
    (fun _ c => c.sendMessage ch m)
    (fun k c hq => by
      obtain ⟨c', e, i, -, sc⟩ := sendMessage_totalP hq.1 ch m ((hq.2.hasSend ch).mpr hch)
      exact ⟨c', e, i, hq.2.trans sc⟩) s.conns (fun x hx => ⟨h.conns x hx, h.chans x hx⟩)
  have e : s.broadcast ch m = .ok { s with conns := m' } := by
    unfold Server.broadcast; simp only [e', Res.bind_ok, Res.pure_eq]
  obtain ⟨ev, qu, -⟩ := SL.Server.broadcast_spec e
  exact ⟨_, e, ⟨fun x hx => (q x hx).1, fun x hx => (q x hx).2⟩, ev, qu, rfl⟩

theorem server_broadcastExcept_totalP {P} {s : Server} (h : s.InvP P) (ex ch : Nat) (m : Bytes)
    (hch : s.newConn.hasSend ch) :
    ∃ s', s.broadcastExcept ex ch m = .ok s' ∧ s'.InvP P ∧ s'.events = s.events ∧ SL.QuietC s.conns s'.conns ∧
      SMap.find? s'.conns ex = SMap.find? s.conns ex ∧ s'.newConn = s.newConn := by
  obtain ⟨m', e', q⟩ := mapConnsM_total (Q := fun c => c.InvP P ∧ s.newConn.SameChans c)
    (fun k c => if k = ex then .ok c else c.sendMessage ch m)
    (fun k c hq => by
      by_cases hk : k = ex
      · exact ⟨c, by simp only [hk, if_true], hq⟩
      · obtain ⟨c', e, i, -, sc⟩ := sendMessage_totalP hq.1 ch m ((hq.2.hasSend ch).mpr hch)
        exact ⟨c', by simp only [hk, if_false]; exact e, i, hq.2.trans sc⟩) s.conns
    (fun x hx => ⟨h.conns x hx, h.chans x hx⟩)
  have e : s.broadcastExcept ex ch m = .ok { s with conns := m' } := by
    unfold Server.broadcastExcept; simp only [e', Res.bind_ok, Res.pure_eq]
  obtain ⟨ev, qu, hex, -⟩ := SL.Server.broadcastExcept_spec e
  exact ⟨_, e, ⟨fun x hx => (q x hx).1, fun x hx => (q x hx).2⟩, ev, qu, hex, rfl⟩


/-! ### sequences of server operations -/

theorem newConn_of_addressed {i : Nat} {s s' : Server} (h : SL.Server.Addressed i s s') : s'.newConn = s.newConn := by
  unfold Server.newConn; rw [h.budget, h.serverCh, h.clientCh]

theorem server_disconnectLocalClient_invP {P} {s : Server} (h : s.InvP P) (id : Nat) (cl : Conn) :
    (s.disconnectLocalClient id cl).1.InvP P ∧ (s.disconnectLocalClient id cl).1.newConn = s.newConn := by
  unfold Server.disconnectLocalClient
  split
  · exact ⟨h, rfl⟩
  · dsimp only
    split
    · exact ⟨h, rfl⟩
    · exact ⟨⟨fun x hx => h.conns x (SMap.mem_erase hx), fun x hx => h.chans x (SMap.mem_erase hx)⟩, rfl⟩

/-! #### local (in-process) clients -/

theorem feedClient_totalP {P} (hP : GoodP P) : ∀ (ps : List Bytes) (cl : Conn), cl.InvP P →
    ∃ cl', Server.feedClient cl ps = .ok cl' ∧ cl'.InvP P ∧ cl.SameChans cl'
  | [], cl, h => ⟨cl, rfl, h, Conn.SameChans.refl cl⟩
  | p :: rest, cl, h => by
    obtain ⟨c1, e1, i1, -, s1⟩ := processPacket_totalP hP h p
    obtain ⟨c2, e2, i2, s2⟩ := feedClient_totalP hP rest c1 i1
    exact ⟨c2, by simp only [Server.feedClient, e1, Res.bind_ok]; exact e2, i2, s1.trans s2⟩

theorem feedServer_totalP {P} (hP : GoodP P) (id : Nat) : ∀ (ps : List Bytes) (s : Server), s.InvP P →
    ∃ s' ok, Server.feedServer s id ps = .ok (s', ok) ∧ s'.InvP P ∧ s'.newConn = s.newConn
  | [], s, h => ⟨s, true, rfl, h, rfl⟩
  | p :: rest, s, h => by
    obtain ⟨s1, ok, e1, i1, ad, -⟩ := server_processPacketFrom_totalP hP h p id
    cases ok with
    | false =>
      exact ⟨s1, false, by simp only [Server.feedServer, e1, Res.bind_ok, Bool.false_eq_true, if_false, Res.pure_eq],
        i1, newConn_of_addressed ad⟩
    | true =>
      obtain ⟨s2, ok2, e2, i2, n2⟩ := feedServer_totalP hP id rest s1 i1
      exact ⟨s2, ok2, by simp only [Server.feedServer, e1, Res.bind_ok, if_true]; exact e2, i2,
        n2.trans (newConn_of_addressed ad)⟩

/-- `process_local_client`: server and client object both satisfying the invariant, counters in range for the two
    flushes it performs (the server-side connection's, and the client's after it has been fed) -/
theorem server_processLocalClient_totalP {P} (hP : GoodP P) {s : Server} (h : s.InvP P) (id : Nat) {cl : Conn}
    (hcl : cl.InvP P) (hc1 : ∀ c, SMap.find? s.conns id = some c → c.CountersOK)
    (hc2 : ∀ s1 ps cl1, s.getPacketsToSend id = .ok (s1, some ps) → Server.feedClient cl ps = .ok cl1 →
      cl1.CountersOK) :
    ∃ s' cl' ok, s.processLocalClient id cl = .ok (s', cl', ok) ∧ s'.InvP P ∧ cl'.InvP P ∧
      s'.newConn = s.newConn := by
  obtain ⟨s1, out, e1, i1, ad, -⟩ := server_getPacketsToSend_totalP h id hc1
  cases out with
  | none =>
    exact ⟨s1, cl, false, by simp only [Server.processLocalClient, e1, Res.bind_ok, Res.pure_eq], i1, hcl,
      newConn_of_addressed ad⟩
  | some ps =>
    obtain ⟨cl1, e2, i2, -⟩ := feedClient_totalP hP ps cl hcl
    obtain ⟨cl2, out2, e3, i3, -, -⟩ := getPacketsToSend_totalP i2 (hc2 s1 ps cl1 e1 e2)
    obtain ⟨s2, ok, e4, i4, n4⟩ := feedServer_totalP hP id out2 s1 i1
    exact ⟨s2, cl2, ok, by simp only [Server.processLocalClient, e1, e2, e3, e4, Res.bind_ok, Res.pure_eq], i4, i3,
      n4.trans (newConn_of_addressed ad)⟩

/-- side conditions of one server operation: channel ids from the configuration, counters in range for a flush.
    `process_local_client` (which takes an arbitrary client object as argument) is not covered. -/
def SrvValid (s : Server) : SL.SrvOp → Prop
  | .broadcast ch _ => s.newConn.hasSend ch
  | .broadcastExcept _ ch _ => s.newConn.hasSend ch
  | .send _ ch _ => s.newConn.hasSend ch
  | .receive _ ch => s.newConn.hasRecv ch
  | .getPacketsToSend id => ∀ c, SMap.find? s.conns id = some c → c.CountersOK
  | .processLocalClient _ _ => False
  | _ => True

theorem srvApply_totalP {P} (hP : GoodP P) {st : SL.SrvState} (h : st.1.InvP P) (op : SL.SrvOp)
    (hv : SrvValid st.1 op) :
    ∃ st', op.apply st = .ok st' ∧ st'.1.InvP P ∧ st'.1.newConn = st.1.newConn := by
  cases op with
  | add id =>
    refine ⟨_, rfl, server_addConnection_invP h id, ?_⟩
    show (st.1.addConnection id).newConn = _
    unfold Server.addConnection; split <;> rfl
  | remove id =>
    refine ⟨_, rfl, server_removeConnection_invP h id, ?_⟩
    show (st.1.removeConnection id).newConn = _
    unfold Server.removeConnection; split <;> rfl
  | disconnect id =>
    refine ⟨_, rfl, server_disconnect_invP h id, ?_⟩
    show (st.1.disconnect id).newConn = _
    unfold Server.disconnect; split <;> rfl
  | disconnectAll => exact ⟨_, rfl, server_disconnectAll_invP h, rfl⟩
  | broadcast ch m =>
    obtain ⟨s', e, i, -, -, n⟩ := server_broadcast_totalP h ch m hv
    exact ⟨(s', st.2), by simp only [SL.SrvOp.apply, e, SL.keepPopped], i, n⟩
  | broadcastExcept ex ch m =>
    obtain ⟨s', e, i, -, -, -, n⟩ := server_broadcastExcept_totalP h ex ch m hv
    exact ⟨(s', st.2), by simp only [SL.SrvOp.apply, e, SL.keepPopped], i, n⟩
  | send id ch m =>
    obtain ⟨s', e, i, ad, -⟩ := server_sendMessage_totalP h id ch m hv
    exact ⟨(s', st.2), by simp only [SL.SrvOp.apply, e, SL.keepPopped], i, newConn_of_addressed ad⟩
  | receive id ch =>
    obtain ⟨s', m, e, i, ad, -⟩ := server_receiveMessage_totalP h id ch hv
    exact ⟨(s', st.2), by simp only [SL.SrvOp.apply, e, SL.Res.stateOf, SL.keepPopped], i, newConn_of_addressed ad⟩
  | update dt =>
    obtain ⟨s', e, i, -, -, n⟩ := server_update_totalP h dt
    exact ⟨(s', st.2), by simp only [SL.SrvOp.apply, e, SL.keepPopped], i, n⟩
  | getPacketsToSend id =>
    obtain ⟨s', out, e, i, ad, -⟩ := server_getPacketsToSend_totalP h id hv
    exact ⟨(s', st.2), by simp only [SL.SrvOp.apply, e, SL.Res.stateOf, SL.keepPopped], i, newConn_of_addressed ad⟩
  | processPacketFrom b id =>
    obtain ⟨s', ok, e, i, ad, -⟩ := server_processPacketFrom_totalP hP h b id
    exact ⟨(s', st.2), by simp only [SL.SrvOp.apply, e, SL.Res.stateOf, SL.keepPopped], i, newConn_of_addressed ad⟩
  | getEvent =>
    refine ⟨_, rfl, server_getEvent_invP h, ?_⟩
    show st.1.getEvent.1.newConn = _
    unfold Server.getEvent; split <;> rfl
  | newLocalClient id =>
    refine ⟨_, rfl, server_addConnection_invP h id, ?_⟩
    show (st.1.addConnection id).newConn = _
    unfold Server.addConnection; split <;> rfl
  | disconnectLocalClient id cl =>
    exact ⟨_, rfl, (server_disconnectLocalClient_invP h id cl).1, (server_disconnectLocalClient_invP h id cl).2⟩
  | processLocalClient id cl => exact hv.elim

/-- the side conditions hold at every step of the sequence -/
def SrvPre (st : SL.SrvState) : List SL.SrvOp → Prop
  | [] => True
  | op :: rest => SrvValid st.1 op ∧ ∀ st', op.apply st = .ok st' → SrvPre st' rest

/-- **the server keeps working**: any sequence of server operations (hostile bytes attributed to any client id
    anywhere in it) runs to completion and ends in a state whose connections all satisfy the invariant -/
theorem runSrv_totalP {P} (hP : GoodP P) : ∀ (ops : List SL.SrvOp) (st : SL.SrvState), st.1.InvP P → SrvPre st ops →
    ∃ st', SL.runSrv st ops = .ok st' ∧ st'.1.InvP P
  | [], st, h, _ => ⟨st, rfl, h⟩
  | op :: rest, st, h, hp => by
    obtain ⟨st1, e1, i1, -⟩ := srvApply_totalP hP h op hp.1
    obtain ⟨st2, e2, i2⟩ := runSrv_totalP hP rest st1 i1 (hp.2 st1 e1)
    exact ⟨st2, by simp only [SL.runSrv, e1]; exact e2, i2⟩

def srvValidb (s : Server) : SL.SrvOp → Bool
  | .broadcast ch _ => decide (s.newConn.hasSend ch)
  | .broadcastExcept _ ch _ => decide (s.newConn.hasSend ch)
  | .send _ ch _ => decide (s.newConn.hasSend ch)
  | .receive _ ch => decide (s.newConn.hasRecv ch)
  | .getPacketsToSend id => match SMap.find? s.conns id with
    | some c => countersOKb c
    | none => true
  | .processLocalClient _ _ => false
  | _ => true

theorem srvValid_of_b {s : Server} {op : SL.SrvOp} (h : srvValidb s op = true) : SrvValid s op := by
  cases op <;> simp only [srvValidb, decide_eq_true_eq] at h <;> try trivial
  all_goals first
    | exact h
    | (intro c hc; rw [hc] at h; exact countersOK_of_b h)
    | cases h

def srvPreb (st : SL.SrvState) : List SL.SrvOp → Bool
  | [] => true
  | op :: rest => srvValidb st.1 op &&
    (match op.apply st with
     | .ok st' => srvPreb st' rest
     | _ => true)

theorem srvPre_of_b : ∀ (ops : List SL.SrvOp) (st : SL.SrvState), srvPreb st ops = true → SrvPre st ops
  | [], _, _ => trivial
  | op :: rest, st, h => by
    simp only [srvPreb, Bool.and_eq_true] at h
    refine ⟨srvValid_of_b h.1, fun st' e => ?_⟩
    have := h.2
    rw [e] at this
    exact srvPre_of_b rest st' this

/-! ## C09: memory accounting -/

/-- (a) every channel's counter equals the bytes it actually holds and is within the configured maximum -/
theorem memory_accountingP {P} {c : Conn} (h : c.InvP P) :
    (∀ ch s, SMap.find? c.sendRel ch = some s → s.mem = SI.msum s.unacked ∧ s.mem ≤ s.maxMem) ∧
    (∀ ch s, SMap.find? c.sendUnrel ch = some s → s.mem = sumLen s.queue ∧ s.mem ≤ s.maxMem) ∧
    (∀ ch r, SMap.find? c.recvRel ch = some r →
      r.mem = SMap.sumBy List.length r.messages + SMap.sumBy SliceCtor.reserved r.slices ∧ r.mem ≤ r.maxMem) ∧
    (∀ ch r, SMap.find? c.recvUnrel ch = some r →
      r.mem = sumLen r.messages + SMap.sumBy SliceCtor.reserved r.slices ∧ r.mem ≤ r.maxMem) :=
  ⟨fun _ _ hf => ⟨(h.sendRel_find hf).1.mem, (h.sendRel_find hf).1.bound⟩,
   fun _ _ hf => h.sendUnrel_find hf,
   fun _ _ hf => ⟨(h.recvRel_find hf).acct, (h.recvRel_find hf).budget⟩,
   fun _ _ hf => ⟨(h.recvUnrel_find hf).acct, (h.recvUnrel_find hf).budget⟩⟩

/-- (c) handing a message to the application lowers the reliable channel's counter by exactly its length -/
theorem recvRel_receive_mem {r r' : RecvRel} {m : Bytes} (h : r.receive = .ok (r', some m)) :
    r.mem = r'.mem + m.length ∧ r'.maxMem = r.maxMem ∧ r'.slices = r.slices := by
  unfold RecvRel.receive at h
  split at h
  · split at h
    · cases h
    · simp only [Res.csub] at h
      split at h
      · simp only [Res.bind_ok, Res.pure_eq, Res.ok.injEq, Prod.mk.injEq, Option.some.injEq] at h
        obtain ⟨rfl, rfl⟩ := h
        exact ⟨by dsimp only; omega, rfl, rfl⟩
      · cases h
  · split at h
    · cases h
    · simp only [Res.csub] at h
      split at h
      · simp only [Res.bind_ok, Res.pure_eq, Res.ok.injEq, Prod.mk.injEq, Option.some.injEq] at h
        obtain ⟨rfl, rfl⟩ := h
        exact ⟨by dsimp only; omega, rfl, rfl⟩
      · cases h

theorem recvRel_receive_none {r r' : RecvRel} (h : r.receive = .ok (r', none)) : r' = r := by
  unfold RecvRel.receive at h
  split at h
  · split at h
    · cases h; rfl
    · simp only [Res.csub] at h
      split at h
      · simp only [Res.bind_ok, Res.pure_eq, Res.ok.injEq, Prod.mk.injEq] at h
        obtain ⟨-, h2⟩ := h; cases h2
      · cases h
  · split at h
    · cases h; rfl
    · simp only [Res.csub] at h
      split at h
      · simp only [Res.bind_ok, Res.pure_eq, Res.ok.injEq, Prod.mk.injEq] at h
        obtain ⟨-, h2⟩ := h; cases h2
      · cases h

theorem recvUnrel_receive_mem {r r' : RecvUnrel} {m : Bytes} (h : r.receive = .ok (r', some m)) :
    r.mem = r'.mem + m.length ∧ r'.maxMem = r.maxMem ∧ r'.slices = r.slices ∧ r.messages = m :: r'.messages := by
  unfold RecvUnrel.receive at h
  split at h
  · cases h
  · rename_i m0 rest hm
    simp only [Res.csub] at h
    split at h
    · simp only [Res.bind_ok, Res.pure_eq, Res.ok.injEq, Prod.mk.injEq, Option.some.injEq] at h
      obtain ⟨rfl, rfl⟩ := h
      exact ⟨by dsimp only; omega, rfl, rfl, hm⟩
    · cases h

theorem recvUnrel_receive_none {r r' : RecvUnrel} (h : r.receive = .ok (r', none)) : r' = r := by
  unfold RecvUnrel.receive at h
  split at h
  · cases h; rfl
  · simp only [Res.csub] at h
    split at h
    · simp only [Res.bind_ok, Res.pure_eq, Res.ok.injEq, Prod.mk.injEq] at h
      obtain ⟨-, h2⟩ := h; cases h2
    · cases h

/-- (c) at connection level: `receive_message` returning a message gives exactly its bytes back to channel `ch` -/
theorem receiveMessage_returns_bytes {c c' : Conn} {ch : Nat} {m : Bytes}
    (h : c.receiveMessage ch = .ok (c', some m)) :
    (∃ r r', SMap.find? c.recvRel ch = some r ∧ SMap.find? c'.recvRel ch = some r' ∧
        r.mem = r'.mem + m.length ∧ r'.maxMem = r.maxMem) ∨
    (∃ r r', SMap.find? c.recvUnrel ch = some r ∧ SMap.find? c'.recvUnrel ch = some r' ∧
        r.mem = r'.mem + m.length ∧ r'.maxMem = r.maxMem) := by
  unfold Conn.receiveMessage at h
  split at h
  · cases h
  · split at h
    · rename_i r hf
      cases hr : r.receive with
      | ok x =>
        obtain ⟨r', om⟩ := x
        rw [hr] at h
        simp only [Res.bind_ok, Res.pure_eq, Res.ok.injEq, Prod.mk.injEq] at h
        obtain ⟨rfl, rfl⟩ := h
        obtain ⟨a, b, -⟩ := recvRel_receive_mem hr
        exact Or.inl ⟨r, r', hf, by rw [SMap.find?_insert, if_pos rfl], a, b⟩
      | err e => exact e.elim
      | panic s => rw [hr] at h; cases h
    · split at h
      · rename_i r hf
        cases hr : r.receive with
        | ok x =>
          obtain ⟨r', om⟩ := x
          rw [hr] at h
          simp only [Res.bind_ok, Res.pure_eq, Res.ok.injEq, Prod.mk.injEq] at h
          obtain ⟨rfl, rfl⟩ := h
          obtain ⟨a, b, -⟩ := recvUnrel_receive_mem hr
          exact Or.inr ⟨r, r', hf, by rw [SMap.find?_insert, if_pos rfl], a, b⟩
        | err e => exact e.elim
        | panic s => rw [hr] at h; cases h
      · cases h

/-- (e) quiescence: nothing unacknowledged, nothing queued, nothing waiting for the application, nothing partially
    reassembled ⇒ every counter is zero and every send channel offers its whole budget again -/
theorem quiescentP {P} {c : Conn} (h : c.InvP P)
    (h1 : ∀ ch s, SMap.find? c.sendRel ch = some s → s.unacked = [])
    (h2 : ∀ ch s, SMap.find? c.sendUnrel ch = some s → s.queue = [])
    (h3 : ∀ ch r, SMap.find? c.recvRel ch = some r → r.messages = [] ∧ r.slices = [])
    (h4 : ∀ ch r, SMap.find? c.recvUnrel ch = some r → r.messages = [] ∧ r.slices = []) :
    (∀ ch s, SMap.find? c.sendRel ch = some s → s.mem = 0 ∧ c.availableMemory ch = .ok s.maxMem) ∧
    (∀ ch s, SMap.find? c.sendUnrel ch = some s → s.mem = 0 ∧
      (SMap.find? c.sendRel ch = none → c.availableMemory ch = .ok s.maxMem)) ∧
    (∀ ch r, SMap.find? c.recvRel ch = some r → r.mem = 0) ∧
    (∀ ch r, SMap.find? c.recvUnrel ch = some r → r.mem = 0) := by
  refine ⟨fun ch s hf => ?_, fun ch s hf => ?_, fun ch r hf => ?_, fun ch r hf => ?_⟩
  · have hm : s.mem = 0 := by rw [(h.sendRel_find hf).1.mem, h1 ch s hf]; rfl
    refine ⟨hm, ?_⟩
    simp only [Conn.availableMemory, hf, SendRel.available, hm, Nat.sub_zero]
  · have hm : s.mem = 0 := by rw [(h.sendUnrel_find hf).1, h2 ch s hf]; rfl
    refine ⟨hm, fun hn => ?_⟩
    simp only [Conn.availableMemory, hn, hf, SendUnrel.available, hm, Nat.sub_zero]
  · exact RecvRel.quiescent r (h.recvRel_find hf) (h3 ch r hf).1 (h3 ch r hf).2
  · exact RecvUnrel.quiescent r (h.recvUnrel_find hf) (h4 ch r hf).1 (h4 ch r hf).2

/-! ### (f) already-delivered / already-complete messages are ignored entirely (repaired defect D1) -/

theorem recvRel_processSlice_ignored (r : RecvRel) (sl : Slice)
    (h : SMap.contains r.messages sl.messageId = true ∨ sl.messageId < r.oldest ∨
      (r.ordered = false ∧ sl.messageId ∈ r.received)) : r.processSlice sl = .ok r := by
  rw [RecvRel.processSlice_eq]
  rcases h with h | h | ⟨h1, h2⟩
  · rw [if_pos (Or.inl h)]
  · rw [if_pos (Or.inr h)]
  · split
    · rfl
    · rw [if_pos ⟨by simp [h1], by simpa using h2⟩]

theorem recvRel_processMessage_ignored (r : RecvRel) (m : Bytes) (id : Nat)
    (h : id < r.oldest ∨ (r.ordered = true ∧ SMap.contains r.messages id = true) ∨
      (r.ordered = false ∧ id ∈ r.received)) : r.processMessage m id = .ok r := by
  unfold RecvRel.processMessage
  rcases h with h | ⟨h1, h2⟩ | ⟨h1, h2⟩
  · rw [if_pos h]
  · by_cases h0 : id < r.oldest
    · rw [if_pos h0]
    · rw [if_neg h0, h1, if_pos rfl, h2, if_pos rfl]
  · by_cases h0 : id < r.oldest
    · rw [if_pos h0]
    · have : r.received.contains id = true := by simpa using h2
      rw [if_neg h0, h1, if_neg (by simp), this, if_pos rfl]

/-! ### (g) a reliable receive channel refuses only what does not fit -/

theorem bind_err_cases {ε α β : Type} {x : Res ε α} {f : α → Res ε β} {e : ε} (h : (x >>= f) = .err e) :
    x = .err e ∨ ∃ a, x = .ok a ∧ f a = .err e := by
  cases x with
  | ok a => exact Or.inr ⟨a, rfl, h⟩
  | err e' => simp only [Res.bind_err] at h; cases h; exact Or.inl rfl
  | panic s => simp only [Res.bind_panic] at h; cases h

theorem setRange_not_err {ε : Type} (l : Bytes) (start : Nat) (src : Bytes) (site : String) (e : ε) :
    (setRange l start src site : Res ε Bytes) ≠ .err e := by
  unfold setRange; split <;> intro h <;> cases h

theorem ctor_err_invalid {c : SliceCtor} {idx : Nat} {bytes : Bytes} {e : ChanErr}
    (h : c.processSlice idx bytes = .err e) : e = .invalidSlice := by
  unfold SliceCtor.processSlice at h
  split at h
  · cases h; rfl
  dsimp only at h
  split at h
  · cases h; rfl
  split at h
  · cases h; rfl
  split at h
  · cases h
  · rename_i got hg
    cases got with
    | true =>
      simp only [if_true, Res.pure_eq, Res.bind_ok] at h
      split at h <;> cases h
    | false =>
      simp only [Bool.false_eq_true, if_false] at h
      rcases bind_err_cases h with h1 | ⟨a, -, h2⟩
      · exact absurd h1 (setRange_not_err _ _ _ _ _)
      · simp only [Res.pure_eq, Res.bind_ok] at h2
        split at h2 <;> cases h2

theorem recvRel_processMessage_refusal (r : RecvRel) (m : Bytes) (id : Nat) (e : ChanErr) (r' : RecvRel)
    (h : r.processMessage m id = .err (e, r')) : e = .maxMemory ∧ r' = r ∧ r.mem + m.length > r.maxMem := by
  rcases RecvRel.processMessage_cases r m id with he | ⟨hgt, he⟩ | ⟨-, -, rec, he, -⟩
  · rw [he] at h; cases h
  · rw [he] at h; cases h; exact ⟨rfl, rfl, hgt⟩
  · rw [he] at h; cases h

/-- once the constructor exists, feeding it slices never fails for lack of memory -/
theorem recvRel_sliceStep_no_maxMemory {P} (hP : CtorPred P) (r : RecvRel) (h : r.InvP P) (sl : Slice)
    (hc : SMap.contains r.slices sl.messageId = true) (r' : RecvRel) : r.sliceStep sl ≠ .err (.maxMemory, r') := by
  obtain ⟨c, hf⟩ := SMap.find?_of_contains hc
  unfold RecvRel.sliceStep
  rw [hf]
  simp only []
  by_cases hn : c.numSlices ≠ sl.numSlices
  · rw [if_pos hn]; intro hx; cases hx
  rw [if_neg hn]
  rcases hP.step c (h.slicesOk.of_find? hf) sl.sliceIndex sl.payload with
    ⟨e, he⟩ | ⟨c', he, -, -⟩ | ⟨c', m, he, hml, -⟩
  · rw [he]; intro hx
    have := ctor_err_invalid he
    subst this; cases hx
  · rw [he]; intro hx; cases hx
  · rw [he]
    simp only []
    obtain ⟨hle, -⟩ := h.dropCtor hf
    have hle' : c.numSlices * SLICE_SIZE ≤ r.mem := hle
    unfold Res.csub
    rw [if_pos hle']
    simp only [Res.bind_ok]
    have hbud := h.budget
    rcases RecvRel.processMessage_cases
        { r with mem := r.mem - c.numSlices * SLICE_SIZE, slices := SMap.insert r.slices sl.messageId c' }
        m sl.messageId with he2 | ⟨hgt, _⟩ | ⟨-, -, rec, he2, -⟩
    · rw [he2]; intro hx; cases hx
    · exfalso
      have : r.mem - c.numSlices * SLICE_SIZE + m.length > r.maxMem := hgt
      omega
    · rw [he2]; intro hx; cases hx

/-- **refusal only over budget**: `ReliableChannelMaxMemoryReached` is returned only
    * by `process_message` for a message that does not fit in what is left of the budget, or
    * by `process_slice` for the FIRST slice seen of a message whose reservation `num_slices * SLICE_SIZE` does
      not fit;
    never for a slice of a message whose constructor already exists (its memory is already reserved), and never
    at completion.  In both cases the channel state is unchanged. -/
theorem refusal_only_over_budget {P} (hP : CtorPred P) (r : RecvRel) (h : r.InvP P) :
    (∀ m id r', r.processMessage m id = .err (.maxMemory, r') → r' = r ∧ r.mem + m.length > r.maxMem) ∧
    (∀ sl r', P (SliceCtor.new sl.numSlices) → r.processSlice sl = .err (.maxMemory, r') →
      r' = r ∧ SMap.contains r.slices sl.messageId = false ∧ r.mem + sl.numSlices * SLICE_SIZE > r.maxMem) := by
  refine ⟨fun m id r' he => (recvRel_processMessage_refusal r m id _ r' he).2, ?_⟩
  intro sl r' hnew he
  rw [RecvRel.processSlice_eq] at he
  split at he
  · cases he
  split at he
  · cases he
  rcases RecvRel.reserveStep_spec r h sl hnew with hr | ⟨r1, hr, hr1, hc1, -⟩
  · have hshape := hr
    unfold RecvRel.reserveStep at hshape
    split at hshape
    · cases hshape
    · rename_i hnc
      simp only [] at hshape
      split at hshape
      · rename_i hgt
        rw [hr] at he
        simp only [Res.bind_err, Res.err.injEq, Prod.mk.injEq] at he
        exact ⟨he.2.symm, by simpa using hnc, hgt⟩
      · cases hshape
  · rw [hr, Res.bind_ok] at he
    exact absurd he (recvRel_sliceStep_no_maxMemory hP r1 hr1 sl hc1 r')

/-- an unreliable receive channel never reports a memory error at all (what does not fit is dropped) -/
theorem recvUnrel_never_refuses (r : RecvUnrel) (sl : Slice) (now : Nat) (e : ChanErr) (r' : RecvUnrel)
    (h : r.processSlice sl now = .err (e, r')) : e = .invalidSlice := by
  rw [RecvUnrel.processSlice_eq] at h
  have key : ∀ r0 : RecvUnrel, r0.sliceStep sl now = .err (e, r') → e = .invalidSlice := by
    intro r0 h0
    unfold RecvUnrel.sliceStep at h0
    split at h0
    · cases h0
    · split at h0
      · cases h0; rfl
      · split at h0
        · cases h0
        · rename_i e0 he0
          cases h0
          exact ctor_err_invalid he0
        · simp only [Res.csub] at h0
          split at h0
          · cases h0
          · cases h0
        · cases h0
  split at h
  · exact key _ h
  · split at h
    · cases h
    · exact key _ h


/-! ### (g) at connection level: a `ReliableChannelMaxMemoryReached` disconnect needs over-budget traffic -/

theorem relSmallSum_cons (id : Nat) (m : Bytes) (rest : List (Nat × Bytes)) :
    relSmallSum ((id, m) :: rest) = m.length + relSmallSum rest := by
  simp [relSmallSum]

theorem recvRel_processMessage_mem {r r' : RecvRel} {m : Bytes} {id : Nat} (h : r.processMessage m id = .ok r') :
    r'.mem ≤ r.mem + m.length ∧ r'.maxMem = r.maxMem := by
  rcases RecvRel.processMessage_cases r m id with he | ⟨-, he⟩ | ⟨-, -, rec, he, -⟩
  · rw [he] at h; cases h; exact ⟨by omega, rfl⟩
  · rw [he] at h; cases h
  · rw [he] at h; cases h; exact ⟨Nat.le_refl _, rfl⟩

/-- the small-message loop fails only with `MaxMemory`, and only when the packet's messages together exceed
    what is left of the channel budget -/
theorem relMsgLoop_refusal : ∀ (msgs : List (Nat × Bytes)) (r : RecvRel) (e : ChanErr) (r' : RecvRel),
    Conn.relMsgLoop r msgs = .err (e, r') → e = .maxMemory ∧ r.mem + relSmallSum msgs > r.maxMem
  | [], r, e, r', h => by cases h
  | (id, m) :: rest, r, e, r', h => by
    rw [relSmallSum_cons]
    cases hp : r.processMessage m id with
    | ok r1 =>
      simp only [Conn.relMsgLoop, hp] at h
      obtain ⟨h1, h2⟩ := relMsgLoop_refusal rest r1 e r' h
      obtain ⟨m1, m2⟩ := recvRel_processMessage_mem hp
      exact ⟨h1, by omega⟩
    | err x =>
      obtain ⟨e0, r0⟩ := x
      simp only [Conn.relMsgLoop, hp, Res.err.injEq, Prod.mk.injEq] at h
      obtain ⟨rfl, rfl⟩ := h
      obtain ⟨a, -, b⟩ := recvRel_processMessage_refusal r m id _ _ hp
      exact ⟨a, by omega⟩
    | panic s => simp only [Conn.relMsgLoop, hp] at h; cases h

theorem dw_status_live {c2 : Conn} (hd : c2.isDisconnected = false) (R : Reason) :
    (c2.disconnectWith R).status = .disconnected R := by
  rw [SL.Conn.disconnectWith_status, hd]; rfl

theorem dw_status_eq {c2 : Conn} {R : Reason} {S : Status} (hs : (c2.disconnectWith R).status = S)
    (hd : c2.isDisconnected = false) : S = .disconnected R := by
  rw [← hs, dw_status_live hd]

theorem status_live_ne {c : Conn} (hd : c.isDisconnected = false) (R : Reason) : c.status ≠ .disconnected R := by
  intro h
  rw [SL.Conn.isDisconnected_of_status h] at hd; cases hd

/-- **in-budget traffic is never refused** (connection level): if `process_packet` leaves a live connection
    disconnected with `ReceiveChannelError(ch, ReliableChannelMaxMemoryReached)`, then `ch` is a reliable receive
    channel and the packet either carried small messages whose total length exceeds the free budget of `ch`, or
    was the first slice seen of a message whose reservation `num_slices * SLICE_SIZE` exceeds it.  Packets for
    unreliable channels, slices of messages already being reassembled, duplicates, and completions never cause
    this disconnect. -/
theorem maxMemory_disconnect_only_over_budgetP {P} (hP : GoodP P) {c c' : Conn} (h : c.InvP P) {bytes : Bytes}
    {ch : Nat} (hd : c.isDisconnected = false) (e : c.processPacket bytes = .ok c')
    (hs : c'.status = .disconnected (.recvChan ch .maxMemory)) :
    ∃ r, SMap.find? c.recvRel ch = some r ∧
      ((∃ seq msgs, Packet.fromBytes bytes = .ok (.smallReliable seq ch msgs) ∧
          r.mem + relSmallSum msgs > r.maxMem) ∨
       (∃ seq sl, Packet.fromBytes bytes = .ok (.reliableSlice seq ch sl) ∧
          SMap.contains r.slices sl.messageId = false ∧ r.mem + sl.numSlices * SLICE_SIZE > r.maxMem)) := by
  cases hp : Packet.fromBytes bytes with
  | error e0 =>
    have e1 : c.processPacket bytes = .ok (c.disconnectWith (.packetDeser e0)) := by
      unfold Conn.processPacket; rw [hd, hp]; rfl
    rw [e1] at e; cases e
    have := dw_status_eq hs hd; cases this
  | ok p =>
    cases p with
    | ack aseq ranges =>
      obtain ⟨L, c2, -, e2, -, eff, -, -⟩ := SI.Conn.processPacket_ack_spec h.send hd hp
      rw [e2] at e; cases e
      obtain ⟨-, -, f3, -⟩ := eff.frame
      rw [f3] at hs
      exact absurd hs (status_live_ne hd _)
    | smallReliable seq ch0 msgs =>
      unfold Conn.processPacket at e; rw [hd, hp] at e
      simp only [Bool.false_eq_true, if_false] at e
      cases hf : SMap.find? c.recvRel ch0 with
      | none =>
        rw [hf] at e; simp only [Res.ok.injEq] at e; subst e
        have := dw_status_eq hs hd; cases this
      | some r =>
        rw [hf] at e; simp only at e
        cases hl : Conn.relMsgLoop r msgs with
        | ok r' =>
          rw [hl] at e; simp only [Res.ok.injEq] at e; subst e
          exact absurd hs (status_live_ne hd _)
        | err x =>
          obtain ⟨e0, r'⟩ := x
          rw [hl] at e; simp only [Res.ok.injEq] at e; subst e
          have hs' := dw_status_eq hs hd
          simp only [Status.disconnected.injEq, Reason.recvChan.injEq] at hs'
          obtain ⟨rfl, rfl⟩ := hs'
          exact ⟨r, hf, Or.inl ⟨seq, msgs, rfl, (relMsgLoop_refusal msgs r _ r' hl).2⟩⟩
        | panic s => rw [hl] at e; cases e
    | smallUnreliable seq ch0 msgs =>
      unfold Conn.processPacket at e; rw [hd, hp] at e
      simp only [Bool.false_eq_true, if_false] at e
      cases hf : SMap.find? c.recvUnrel ch0 with
      | none =>
        rw [hf] at e; simp only [Res.ok.injEq] at e; subst e
        have := dw_status_eq hs hd; cases this
      | some r =>
        rw [hf] at e; simp only [Res.ok.injEq] at e; subst e
        exact absurd hs (status_live_ne hd _)
    | reliableSlice seq ch0 sl =>
      have hn := (Packet.fromBytes_numSlices bytes _ hp seq ch0 sl (Or.inl rfl)).1
      unfold Conn.processPacket at e; rw [hd, hp] at e
      simp only [Bool.false_eq_true, if_false] at e
      cases hf : SMap.find? c.recvRel ch0 with
      | none =>
        rw [hf] at e; simp only [Res.ok.injEq] at e; subst e
        have := dw_status_eq hs hd; cases this
      | some r =>
        rw [hf] at e; simp only at e
        cases hl : r.processSlice sl with
        | ok r' =>
          rw [hl] at e; simp only [Res.ok.injEq] at e; subst e
          exact absurd hs (status_live_ne hd _)
        | err x =>
          obtain ⟨e0, r'⟩ := x
          rw [hl] at e; simp only [Res.ok.injEq] at e; subst e
          have hs' := dw_status_eq hs hd
          simp only [Status.disconnected.injEq, Reason.recvChan.injEq] at hs'
          obtain ⟨rfl, rfl⟩ := hs'
          obtain ⟨-, b1, b2⟩ := (refusal_only_over_budget hP.pred r (h.recvRel_find hf)).2 sl r' (hP.new _ hn) hl
          exact ⟨r, hf, Or.inr ⟨seq, sl, rfl, b1, b2⟩⟩
        | panic s => rw [hl] at e; cases e
    | unreliableSlice seq ch0 sl =>
      unfold Conn.processPacket at e; rw [hd, hp] at e
      simp only [Bool.false_eq_true, if_false] at e
      cases hf : SMap.find? c.recvUnrel ch0 with
      | none =>
        rw [hf] at e; simp only [Res.ok.injEq] at e; subst e
        have := dw_status_eq hs hd; cases this
      | some r =>
        rw [hf] at e; simp only at e
        cases hl : r.processSlice sl c.now with
        | ok r' =>
          rw [hl] at e; simp only [Res.ok.injEq] at e; subst e
          exact absurd hs (status_live_ne hd _)
        | err x =>
          obtain ⟨e0, r'⟩ := x
          rw [hl] at e; simp only [Res.ok.injEq] at e; subst e
          have hs' := dw_status_eq hs hd
          simp only [Status.disconnected.injEq, Reason.recvChan.injEq] at hs'
          obtain ⟨rfl, rfl⟩ := hs'
          have := recvUnrel_never_refuses r sl c.now _ r' hl
          cases this
        | panic s => rw [hl] at e; cases e


/-! ### (f) continued: once handed to the application, a message id is ignored forever -/

end CI

/-- message `id` has been handed to the application (ordered: the cursor passed it; unordered: the cursor passed it
    or it is remembered in `received`) -/
def RecvRel.Done (r : RecvRel) (id : Nat) : Prop := id < r.oldest ∨ (r.ordered = false ∧ id ∈ r.received)

/-- the delivery cursor only moves forward, and remembered ids are only forgotten below the cursor -/
def RecvRel.Keeps (r r' : RecvRel) : Prop :=
  r'.ordered = r.ordered ∧ r.oldest ≤ r'.oldest ∧ ∀ k ∈ r.received, k < r'.oldest ∨ k ∈ r'.received

namespace CI

theorem keeps_refl (r : RecvRel) : r.Keeps r := ⟨rfl, Nat.le_refl _, fun _ hk => Or.inr hk⟩

theorem keeps_of_eq {r r' : RecvRel} (h1 : r'.ordered = r.ordered) (h2 : r'.oldest = r.oldest)
    (h3 : r'.received = r.received) : r.Keeps r' := ⟨h1, by omega, fun k hk => Or.inr (h3 ▸ hk)⟩

theorem keeps_trans {a b c : RecvRel} (h1 : a.Keeps b) (h2 : b.Keeps c) : a.Keeps c := by
  refine ⟨h2.1.trans h1.1, Nat.le_trans h1.2.1 h2.2.1, fun k hk => ?_⟩
  rcases h1.2.2 k hk with h | h
  · left; have := h2.2.1; omega
  · exact h2.2.2 k h

theorem done_keeps {r r' : RecvRel} {id : Nat} (hd : r.Done id) (hk : r.Keeps r') : r'.Done id := by
  rcases hd with h | ⟨h1, h2⟩
  · left; have := hk.2.1; omega
  · rcases hk.2.2 id h2 with h | h
    · exact Or.inl h
    · exact Or.inr ⟨hk.1.trans h1, h⟩

/-- a delivered id is ignored entirely: the channel state does not change at all (in particular no reservation is
    made — the leak of defect D1) -/
theorem done_ignored {r : RecvRel} {id : Nat} (hd : r.Done id) :
    (∀ sl : Slice, sl.messageId = id → r.processSlice sl = .ok r) ∧ (∀ m, r.processMessage m id = .ok r) := by
  refine ⟨fun sl hs => recvRel_processSlice_ignored r sl ?_, fun m => recvRel_processMessage_ignored r m id ?_⟩
  · rw [hs]; rcases hd with h | h
    · exact Or.inr (Or.inl h)
    · exact Or.inr (Or.inr h)
  · rcases hd with h | h
    · exact Or.inl h
    · exact Or.inr (Or.inr h)

theorem processMessage_keeps {r r' : RecvRel} {m : Bytes} {id : Nat}
    (h : r.processMessage m id = .ok r' ∨ ∃ e, r.processMessage m id = .err (e, r')) : r.Keeps r' := by
  rcases RecvRel.processMessage_cases r m id with he | ⟨-, he⟩ | ⟨-, -, rec, he, h1, h2⟩
  · rcases h with h | ⟨e, h⟩ <;> rw [he] at h <;> cases h
    exact keeps_refl r
  · rcases h with h | ⟨e, h⟩ <;> rw [he] at h <;> cases h
    exact keeps_refl r
  · rcases h with h | ⟨e, h⟩ <;> rw [he] at h <;> cases h
    refine ⟨rfl, Nat.le_refl _, fun k hk => Or.inr ?_⟩
    show k ∈ rec
    cases ho : r.ordered with
    | true => rw [(h1 ho).2]; exact hk
    | false => rw [(h2 ho).2]; exact List.mem_cons_of_mem _ hk

theorem bind_ok_cases {ε α β : Type} {x : Res ε α} {f : α → Res ε β} {b : β} (h : (x >>= f) = .ok b) :
    ∃ a, x = .ok a ∧ f a = .ok b := by
  cases x with
  | ok a => exact ⟨a, rfl, h⟩
  | err e' => simp only [Res.bind_err] at h; cases h
  | panic s => simp only [Res.bind_panic] at h; cases h

theorem reserveStep_keeps {r r1 : RecvRel} {sl : Slice}
    (h : r.reserveStep sl = .ok r1 ∨ ∃ e, r.reserveStep sl = .err (e, r1)) : r.Keeps r1 := by
  unfold RecvRel.reserveStep at h
  split at h
  · rcases h with h | ⟨e, h⟩ <;> cases h
    exact keeps_refl r
  · dsimp only at h
    split at h
    · rcases h with h | ⟨e, h⟩ <;> cases h
      exact keeps_refl r
    · rcases h with h | ⟨e, h⟩ <;> cases h
      exact keeps_of_eq rfl rfl rfl

theorem sliceStep_keeps {r r' : RecvRel} {sl : Slice}
    (h : r.sliceStep sl = .ok r' ∨ ∃ e, r.sliceStep sl = .err (e, r')) : r.Keeps r' := by
  unfold RecvRel.sliceStep at h
  split at h
  · rcases h with h | ⟨e, h⟩ <;> cases h
  · split at h
    · rcases h with h | ⟨e, h⟩ <;> cases h
      exact keeps_refl r
    · split at h
      · rcases h with h | ⟨e, h⟩ <;> cases h
      · rcases h with h | ⟨e, h⟩ <;> cases h
        exact keeps_refl r
      · rcases h with h | ⟨e, h⟩ <;> cases h
        exact keeps_of_eq rfl rfl rfl
      · rename_i c hf hn x c' m hm
        simp only [Res.csub] at h
        split at h
        · simp only [Res.bind_ok] at h
          rcases h with h | ⟨e, h⟩
          · obtain ⟨r2, h2, h3⟩ := bind_ok_cases h
            simp only [Res.pure_eq, Res.ok.injEq] at h3
            subst h3
            have k1 := processMessage_keeps (Or.inl h2)
            refine keeps_trans ?_ (keeps_trans k1 (keeps_of_eq rfl rfl rfl))
            exact keeps_of_eq rfl rfl rfl
          · rcases bind_err_cases h with h2 | ⟨r2, -, h3⟩
            · have k1 := processMessage_keeps (Or.inr ⟨e, h2⟩)
              refine keeps_trans ?_ k1
              exact keeps_of_eq rfl rfl rfl
            · simp only [Res.pure_eq] at h3; cases h3
        · rcases h with h | ⟨e, h⟩ <;> cases h

theorem processSlice_keeps {r r' : RecvRel} {sl : Slice}
    (h : r.processSlice sl = .ok r' ∨ ∃ e, r.processSlice sl = .err (e, r')) : r.Keeps r' := by
  rw [RecvRel.processSlice_eq] at h
  split at h
  · rcases h with h | ⟨e, h⟩ <;> cases h
    exact keeps_refl r
  split at h
  · rcases h with h | ⟨e, h⟩ <;> cases h
    exact keeps_refl r
  rcases h with h | ⟨e, h⟩
  · obtain ⟨r1, h1, h2⟩ := bind_ok_cases h
    exact keeps_trans (reserveStep_keeps (Or.inl h1)) (sliceStep_keeps (Or.inl h2))
  · rcases bind_err_cases h with h1 | ⟨r1, h1, h2⟩
    · exact reserveStep_keeps (Or.inr ⟨e, h1⟩)
    · exact keeps_trans (reserveStep_keeps (Or.inl h1)) (sliceStep_keeps (Or.inr ⟨e, h2⟩))

/-- `receive`: the cursor/remembered set evolve monotonically, and the id just delivered is `Done` afterwards -/
theorem receive_keeps_done {P} {r r' : RecvRel} {m : Bytes} (hi : r.InvP P) (h : r.receive = .ok (r', some m)) :
    r.Keeps r' ∧ ∃ id, SMap.find? r.messages id = some m ∧ r'.Done id := by
  unfold RecvRel.receive at h
  split at h
  · rename_i ho
    split at h
    · cases h
    · rename_i m0 hm0
      simp only [Res.csub] at h
      split at h
      · simp only [Res.bind_ok, Res.pure_eq, Res.ok.injEq, Prod.mk.injEq, Option.some.injEq] at h
        obtain ⟨rfl, rfl⟩ := h
        refine ⟨⟨rfl, by show r.oldest ≤ r.oldest + 1; omega, fun k hk => Or.inr hk⟩, r.oldest, hm0, Or.inl ?_⟩
        show r.oldest < r.oldest + 1; omega
      · cases h
  · rename_i ho
    have ho' : r.ordered = false := by simpa using ho
    split at h
    · cases h
    · rename_i id m0 rest hm
      simp only [Res.csub] at h
      split at h
      · simp only [Res.bind_ok, Res.pure_eq, Res.ok.injEq, Prod.mk.injEq, Option.some.injEq] at h
        obtain ⟨rfl, rfl⟩ := h
        have hfind : SMap.find? r.messages id = some m0 := by rw [hm, SMap.find?_cons, if_pos rfl]
        have hpend := hi.pending ho' id (SMap.contains_of_find? hfind)
        by_cases hid : r.oldest = id
        · subst hid
          have hin : r.oldest ∈ r.received := by
            rcases hpend with hp | hp
            · omega
            · exact hp
          obtain ⟨a1, a2⟩ := advanceOldest_spec r.received.length r.oldest r.received
          simp only [↓reduceIte]
          refine ⟨⟨rfl, a1, a2⟩, r.oldest, hfind, ?_⟩
          rcases a2 r.oldest hin with hx | hx
          · exact Or.inl hx
          · exact Or.inr ⟨ho', hx⟩
        · simp only [hid, if_false]
          refine ⟨⟨rfl, Nat.le_refl _, fun k hk => Or.inr hk⟩, id, hfind, ?_⟩
          rcases hpend with hp | hp
          · exact Or.inl hp
          · exact Or.inr ⟨ho', hp⟩
      · cases h


/-- `receive` (whatever it returns) moves the cursor / remembered set monotonically; no invariant needed -/
theorem receive_keeps {r r' : RecvRel} {m : Option Bytes} (h : r.receive = .ok (r', m)) : r.Keeps r' := by
  cases m with
  | none => rw [recvRel_receive_none h]; exact keeps_refl r
  | some m =>
    unfold RecvRel.receive at h
    split at h
    · split at h
      · cases h
      · simp only [Res.csub] at h
        split at h
        · simp only [Res.bind_ok, Res.pure_eq, Res.ok.injEq, Prod.mk.injEq, Option.some.injEq] at h
          obtain ⟨rfl, rfl⟩ := h
          exact ⟨rfl, by show r.oldest ≤ r.oldest + 1; omega, fun k hk => Or.inr hk⟩
        · cases h
    · split at h
      · cases h
      · rename_i id m0 rest hm
        simp only [Res.csub] at h
        split at h
        · simp only [Res.bind_ok, Res.pure_eq, Res.ok.injEq, Prod.mk.injEq, Option.some.injEq] at h
          obtain ⟨rfl, rfl⟩ := h
          by_cases hid : r.oldest = id
          · subst hid
            obtain ⟨a1, a2⟩ := advanceOldest_spec r.received.length r.oldest r.received
            simp only [↓reduceIte]
            exact ⟨rfl, a1, a2⟩
          · simp only [hid, if_false]
            exact ⟨rfl, Nat.le_refl _, fun k hk => Or.inr hk⟩
        · cases h

end CI

/-- any later history of a reliable receive channel: messages and slices arriving (accepted, ignored or refused)
    and the application draining -/
inductive RecvRel.Steps : RecvRel → RecvRel → Prop
  | refl (r : RecvRel) : RecvRel.Steps r r
  | message {r r1 r2 : RecvRel} {m : Bytes} {id : Nat} :
      (r.processMessage m id = .ok r1 ∨ ∃ e, r.processMessage m id = .err (e, r1)) → RecvRel.Steps r1 r2 →
      RecvRel.Steps r r2
  | slice {r r1 r2 : RecvRel} {sl : Slice} :
      (r.processSlice sl = .ok r1 ∨ ∃ e, r.processSlice sl = .err (e, r1)) → RecvRel.Steps r1 r2 → RecvRel.Steps r r2
  | receive {r r1 r2 : RecvRel} {m : Option Bytes} : r.receive = .ok (r1, m) → RecvRel.Steps r1 r2 → RecvRel.Steps r r2

namespace CI

theorem steps_keeps {r r' : RecvRel} (h : RecvRel.Steps r r') : r.Keeps r' := by
  induction h with
  | refl r => exact keeps_refl r
  | message h1 _ ih => exact keeps_trans (processMessage_keeps h1) ih
  | slice h1 _ ih => exact keeps_trans (processSlice_keeps h1) ih
  | receive h1 _ ih => exact keeps_trans (receive_keeps h1) ih

/-- **D1 repaired (honest-peer leak freedom).**  Once a message has been handed to the application, every later
    slice or copy of it — after any further history of the channel — leaves the channel state completely unchanged:
    no reservation, no constructor, no byte accounted.  Holds for ordered and unordered channels alike. -/
theorem delivered_ignored_forever {P} {r r1 r2 : RecvRel} {m : Bytes} (hi : r.InvP P)
    (hrecv : r.receive = .ok (r1, some m)) (hsteps : RecvRel.Steps r1 r2) :
    ∃ id, SMap.find? r.messages id = some m ∧
      (∀ sl : Slice, sl.messageId = id → r2.processSlice sl = .ok r2) ∧ (∀ m', r2.processMessage m' id = .ok r2) := by
  obtain ⟨-, id, hf, hd⟩ := receive_keeps_done hi hrecv
  exact ⟨id, hf, done_ignored (done_keeps hd (steps_keeps hsteps))⟩

/-! ### (g) send side -/

theorem sendRel_refusal {s : SendRel} {m : Bytes} {e : ChanErr} (h : s.sendMessage m = .error e) :
    e = .maxMemory ∧ s.mem + m.length > s.maxMem := by
  unfold SendRel.sendMessage at h
  split at h
  · cases h; exact ⟨rfl, by assumption⟩
  · cases h

/-- `send_message` disconnects a live connection (`SendChannelError`) only when the message does not fit in what is
    left of the reliable channel's budget; an unreliable channel never disconnects (the message is dropped) -/
theorem sendChan_disconnect_only_over_budget {c c' : Conn} {ch ch' : Nat} {m : Bytes} {e : ChanErr}
    (hd : c.isDisconnected = false) (h : c.sendMessage ch m = .ok c')
    (hs : c'.status = .disconnected (.sendChan ch' e)) :
    ch' = ch ∧ e = .maxMemory ∧ ∃ s, SMap.find? c.sendRel ch = some s ∧ s.mem + m.length > s.maxMem := by
  unfold Conn.sendMessage at h
  rw [hd] at h
  simp only [Bool.false_eq_true, if_false] at h
  split at h
  · rename_i s hf
    split at h
    · cases h; exact absurd hs (status_live_ne hd _)
    · rename_i e0 he0
      cases h
      have := dw_status_eq hs hd
      simp only [Status.disconnected.injEq, Reason.sendChan.injEq] at this
      obtain ⟨rfl, rfl⟩ := this
      obtain ⟨a, b⟩ := sendRel_refusal he0
      exact ⟨rfl, a, s, hf, b⟩
  · split at h
    · cases h; exact absurd hs (status_live_ne hd _)
    · cases h

/-! ### every unreliable send channel is in the send order -/

theorem fresh_order_complete {budget : Nat} {send recv : List ChanCfg} {c : Conn}
    (hsc : (Conn.fromChannels budget send recv).SameChans c) {ch : Nat} {s : SendUnrel}
    (hf : SMap.find? c.sendUnrel ch = some s) : (false, ch) ∈ c.order := by
  rw [hsc.order]
  have h1 := hsc.sendUnrel ch
  rw [hf] at h1
  cases hg : SMap.find? (Conn.fromChannels budget send recv).sendUnrel ch with
  | none => rw [hg] at h1; cases h1
  | some s0 =>
    simp only [Conn.fromChannels] at hg
    rcases SI.foldl_insert_find (fun c : ChanCfg => c.id) (fun c => SendUnrel.new c.id c.maxMem) _ _ ch s0 hg
      with h | ⟨cfg, hc, h2, -⟩
    · cases h
    · obtain ⟨hc1, hc2⟩ := List.mem_filter.mp hc
      simp only [Conn.fromChannels, List.mem_map]
      refine ⟨cfg, hc1, ?_⟩
      have : cfg.kind = .unreliable := by simpa using hc2
      simp [this, h2]

end CI
end RenetVerif
