/-
  The total connection invariant `Conn.InvP` (properties C06 / C09): composition of
    * the send-side invariant `Conn.SendInv`                (Lemmas/SendInv.lean),
    * the pending-ack invariants                            (Lemmas/Acks.lean, Lemmas/Flush.lean),
    * the receive-channel invariants `RecvRel.InvP`, `RecvUnrel.InvP` (Lemmas/RecvInv.lean),
    * exact accounting of the unreliable send channels      (here).

  The invariant is parametrised by the per-constructor predicate `P` exactly like the receive-channel
  invariants: `Conn.Inv` (`P := SliceCtor.WInv`, dead zero-slice constructors tolerated) and `Conn.SInv`
  (`P := SliceCtor.Inv`, strict).  Because `process_packet` only ever sees slices produced by the packet
  decoder (which rejects `num_slices = 0`), BOTH instances are preserved by every operation on every input.

  Helper lemmas live in namespace `RenetVerif.CI`.
-/
import RenetVerif.Lemmas.RecvInv
import RenetVerif.Lemmas.SendInv
import RenetVerif.Lemmas.Flush
import RenetVerif.Lemmas.ServerLemmas
import RenetVerif.Lemmas.Acks
import RenetVerif.Lemmas.DecodeWF
namespace RenetVerif
open C

/-! ## definitions -/

/-- exact accounting of an unreliable send channel: the counter is the sum of the queued message lengths -/
def SendUnrel.Acct (s : SendUnrel) : Prop := s.mem = sumLen s.queue ∧ s.mem ≤ s.maxMem

/-- what the connection proofs need of the per-constructor predicate -/
structure GoodP (P : SliceCtor → Prop) : Prop where
  pred : CtorPred P
  new : ∀ n, 1 ≤ n → P (SliceCtor.new n)

theorem goodP_inv : GoodP SliceCtor.Inv := ⟨ctorPred_inv, SliceCtor.new_inv⟩
theorem goodP_winv : GoodP SliceCtor.WInv := ⟨ctorPred_winv, fun n _ => SliceCtor.new_winv n⟩

/-- the total connection invariant.  The channel clauses quantify over the ENTRIES of the association lists
    (stronger than quantifying over `find?` hits, and needs no sortedness of the channel maps). -/
structure Conn.InvP (P : SliceCtor → Prop) (c : Conn) : Prop where
  send : c.SendInv
  acksWF : Acks.WF c.pendingAcks
  acksLen : c.pendingAcks.length ≤ ACK_RANGE_CAP
  acksBound : ∀ r ∈ c.pendingAcks, r.2 ≤ Varint.MAX + 1
  recvRel : ∀ x ∈ c.recvRel, x.2.InvP P
  recvUnrel : ∀ x ∈ c.recvUnrel, x.2.InvP P
  sendUnrel : ∀ x ∈ c.sendUnrel, x.2.Acct

/-- all-inputs instance (dead zero-slice constructors tolerated) -/
def Conn.Inv (c : Conn) : Prop := c.InvP SliceCtor.WInv
/-- strict instance -/
def Conn.SInv (c : Conn) : Prop := c.InvP SliceCtor.Inv

/-- `ch` names a receive channel of the connection -/
def Conn.hasRecv (c : Conn) (ch : Nat) : Prop :=
  SMap.find? c.recvRel ch ≠ none ∨ SMap.find? c.recvUnrel ch ≠ none
/-- `ch` names a send channel of the connection -/
def Conn.hasSend (c : Conn) (ch : Nat) : Prop :=
  SMap.find? c.sendRel ch ≠ none ∨ SMap.find? c.sendUnrel ch ≠ none

/-- the channel tables have the same key sets, and the send order is the same -/
structure Conn.SameChans (c c' : Conn) : Prop where
  sendRel : ∀ ch, (SMap.find? c'.sendRel ch).isSome = (SMap.find? c.sendRel ch).isSome
  sendUnrel : ∀ ch, (SMap.find? c'.sendUnrel ch).isSome = (SMap.find? c.sendUnrel ch).isSome
  recvRel : ∀ ch, (SMap.find? c'.recvRel ch).isSome = (SMap.find? c.recvRel ch).isSome
  recvUnrel : ∀ ch, (SMap.find? c'.recvUnrel ch).isSome = (SMap.find? c.recvUnrel ch).isSome
  order : c'.order = c.order

namespace CI

/-! ## channel key sets -/

theorem ne_none_iff_isSome {α : Type} (o : Option α) : o ≠ none ↔ o.isSome = true := by
  cases o <;> simp

theorem _root_.RenetVerif.Conn.SameChans.refl (c : Conn) : c.SameChans c :=
  ⟨fun _ => rfl, fun _ => rfl, fun _ => rfl, fun _ => rfl, rfl⟩

theorem _root_.RenetVerif.Conn.SameChans.trans {a b c : Conn} (h1 : a.SameChans b) (h2 : b.SameChans c) :
    a.SameChans c :=
  ⟨fun k => (h2.sendRel k).trans (h1.sendRel k), fun k => (h2.sendUnrel k).trans (h1.sendUnrel k),
   fun k => (h2.recvRel k).trans (h1.recvRel k), fun k => (h2.recvUnrel k).trans (h1.recvUnrel k),
   h2.order.trans h1.order⟩

theorem _root_.RenetVerif.Conn.SameChans.symm {a b : Conn} (h : a.SameChans b) : b.SameChans a :=
  ⟨fun k => (h.sendRel k).symm, fun k => (h.sendUnrel k).symm, fun k => (h.recvRel k).symm,
   fun k => (h.recvUnrel k).symm, h.order.symm⟩

theorem _root_.RenetVerif.Conn.SameChans.hasSend {a b : Conn} (h : a.SameChans b) (ch : Nat) :
    b.hasSend ch ↔ a.hasSend ch := by
  unfold Conn.hasSend
  rw [ne_none_iff_isSome, ne_none_iff_isSome, ne_none_iff_isSome, ne_none_iff_isSome, h.sendRel, h.sendUnrel]

theorem _root_.RenetVerif.Conn.SameChans.hasRecv {a b : Conn} (h : a.SameChans b) (ch : Nat) :
    b.hasRecv ch ↔ a.hasRecv ch := by
  unfold Conn.hasRecv
  rw [ne_none_iff_isSome, ne_none_iff_isSome, ne_none_iff_isSome, ne_none_iff_isSome, h.recvRel, h.recvUnrel]

theorem sameChans_of_eq {c c' : Conn} (h1 : c'.sendRel = c.sendRel) (h2 : c'.sendUnrel = c.sendUnrel)
    (h3 : c'.recvRel = c.recvRel) (h4 : c'.recvUnrel = c.recvUnrel) (h5 : c'.order = c.order) : c.SameChans c' :=
  ⟨fun _ => by rw [h1], fun _ => by rw [h2], fun _ => by rw [h3], fun _ => by rw [h4], h5⟩

theorem sameChans_dw (c : Conn) (r : Reason) : c.SameChans (c.disconnectWith r) :=
  sameChans_of_eq (by simp) (by simp) (by simp) (by simp) (by simp)

theorem sameChans_setConnected (c : Conn) : c.SameChans c.setConnected := by
  unfold Conn.setConnected; split
  · exact Conn.SameChans.refl c
  · exact sameChans_of_eq rfl rfl rfl rfl rfl

theorem sameChans_setConnecting (c : Conn) : c.SameChans c.setConnecting := by
  unfold Conn.setConnecting; split
  · exact Conn.SameChans.refl c
  · exact sameChans_of_eq rfl rfl rfl rfl rfl

theorem sameChans_dw_of {c c2 : Conn} (h : c.SameChans c2) (r : Reason) : c.SameChans (c2.disconnectWith r) :=
  h.trans (sameChans_dw c2 r)

/-- overwriting an existing key does not change the key set -/
theorem isSome_insert {α : Type} {m : SMap α} {k : Nat} {v0 : α} (hf : SMap.find? m k = some v0) (v : α) (k' : Nat) :
    (SMap.find? (SMap.insert m k v) k').isSome = (SMap.find? m k').isSome := by
  rw [SMap.find?_insert]
  split
  · rename_i e; subst e; rw [hf]; rfl
  · rfl

theorem sameChans_recvRel {c : Conn} {ch : Nat} {r : RecvRel} (hf : SMap.find? c.recvRel ch = some r)
    (A : List AckRange) (r' : RecvRel) :
    c.SameChans { c with pendingAcks := A, recvRel := SMap.insert c.recvRel ch r' } :=
  ⟨fun _ => rfl, fun _ => rfl, fun k => isSome_insert hf _ k, fun _ => rfl, rfl⟩

theorem sameChans_recvUnrel {c : Conn} {ch : Nat} {r : RecvUnrel} (hf : SMap.find? c.recvUnrel ch = some r)
    (A : List AckRange) (r' : RecvUnrel) :
    c.SameChans { c with pendingAcks := A, recvUnrel := SMap.insert c.recvUnrel ch r' } :=
  ⟨fun _ => rfl, fun _ => rfl, fun _ => rfl, fun k => isSome_insert hf _ k, rfl⟩

theorem sameChans_acks_dw (c : Conn) (A : List AckRange) (r : Reason) :
    c.SameChans (({ c with pendingAcks := A } : Conn).disconnectWith r) :=
  sameChans_dw_of (c2 := { c with pendingAcks := A }) (sameChans_of_eq rfl rfl rfl rfl rfl) r

/-! ## small facts -/

theorem slicesOk_mono {P Q : SliceCtor → Prop} (hpq : ∀ c, P c → Q c) {s : SMap SliceCtor} (h : SlicesOk P s) :
    SlicesOk Q s := h.mono hpq

theorem recvRel_mono {P Q : SliceCtor → Prop} (hpq : ∀ c, P c → Q c) {r : RecvRel} (h : r.InvP P) : r.InvP Q :=
  ⟨h.acct, h.budget, h.slicesOk.mono hpq, h.pending⟩

theorem recvUnrel_mono {P Q : SliceCtor → Prop} (hpq : ∀ c, P c → Q c) {r : RecvUnrel} (h : r.InvP P) : r.InvP Q :=
  ⟨h.acct, h.budget, h.slicesOk.mono hpq, h.lastSorted, h.lastSub⟩

theorem invP_mono {P Q : SliceCtor → Prop} (hpq : ∀ c, P c → Q c) {c : Conn} (h : c.InvP P) : c.InvP Q :=
  ⟨h.send, h.acksWF, h.acksLen, h.acksBound, fun x hx => recvRel_mono hpq (h.recvRel x hx),
   fun x hx => recvUnrel_mono hpq (h.recvUnrel x hx), h.sendUnrel⟩

/-- the strict invariant implies the all-inputs one -/
theorem sinv_inv {c : Conn} (h : c.SInv) : c.Inv := invP_mono (fun _ hc => Or.inr hc) h

theorem cap_pos : 1 ≤ ACK_RANGE_CAP := by decide

theorem unrelSmallSum_eq_sumLen : ∀ (q : List Bytes), unrelSmallSum q = sumLen q
  | [] => rfl
  | m :: r => by
    have := unrelSmallSum_eq_sumLen r
    simp only [unrelSmallSum, List.map_cons, List.sum_cons, sumLen_cons] at *
    omega

theorem le_sumLen : ∀ {q : List Bytes} {m : Bytes}, m ∈ q → m.length ≤ sumLen q
  | x :: r, m, h => by
    simp only [List.mem_cons] at h
    rcases h with rfl | h
    · simp
    · have := le_sumLen h; simp; omega

/-- find-based views of the entry-based clauses -/
theorem _root_.RenetVerif.Conn.InvP.recvRel_find {P} {c : Conn} (h : c.InvP P) {ch : Nat} {r : RecvRel}
    (hf : SMap.find? c.recvRel ch = some r) : r.InvP P := h.recvRel _ (SMap.mem_of_find? hf)
theorem _root_.RenetVerif.Conn.InvP.recvUnrel_find {P} {c : Conn} (h : c.InvP P) {ch : Nat} {r : RecvUnrel}
    (hf : SMap.find? c.recvUnrel ch = some r) : r.InvP P := h.recvUnrel _ (SMap.mem_of_find? hf)
theorem _root_.RenetVerif.Conn.InvP.sendUnrel_find {P} {c : Conn} (h : c.InvP P) {ch : Nat} {s : SendUnrel}
    (hf : SMap.find? c.sendUnrel ch = some s) : s.Acct := h.sendUnrel _ (SMap.mem_of_find? hf)
theorem _root_.RenetVerif.Conn.InvP.sendRel_find {P} {c : Conn} (h : c.InvP P) {ch : Nat} {s : SendRel}
    (hf : SMap.find? c.sendRel ch = some s) : s.Inv ∧ s.ch = ch := h.send.chans ch s hf

/-- replacing / adding one entry keeps an entry-wise property -/
theorem forall_insert {α : Type} {Q : α → Prop} {m : SMap α} (h : ∀ x ∈ m, Q x.2) (k : Nat) {v : α} (hv : Q v) :
    ∀ x ∈ SMap.insert m k v, Q x.2 := by
  intro x hx
  rcases SMap.mem_insert hx with rfl | hx
  · exact hv
  · exact h x hx

/-- the invariant only reads the send side, the pending acks and the receive maps -/
theorem _root_.RenetVerif.Conn.InvP.same {P} {c c' : Conn} (h : c.InvP P) (hs : c.SendSame c')
    (ha : c'.pendingAcks = c.pendingAcks) (hr : c'.recvRel = c.recvRel) (hu : c'.recvUnrel = c.recvUnrel) :
    c'.InvP P :=
  ⟨h.send.same hs, ha ▸ h.acksWF, ha ▸ h.acksLen, ha ▸ h.acksBound, hr ▸ h.recvRel, hu ▸ h.recvUnrel,
   hs.2.1 ▸ h.sendUnrel⟩

/-- new pending acks and new receive maps -/
theorem _root_.RenetVerif.Conn.InvP.rebuild {P} {c : Conn} (h : c.InvP P) {A : List AckRange} {rr : SMap RecvRel}
    {ru : SMap RecvUnrel} (a1 : Acks.WF A) (a2 : A.length ≤ ACK_RANGE_CAP) (a3 : ∀ r ∈ A, r.2 ≤ Varint.MAX + 1)
    (hrr : ∀ x ∈ rr, x.2.InvP P) (hru : ∀ x ∈ ru, x.2.InvP P) :
    ({ c with pendingAcks := A, recvRel := rr, recvUnrel := ru } : Conn).InvP P :=
  ⟨h.send.same ⟨rfl, rfl, rfl, rfl, rfl⟩, a1, a2, a3, hrr, hru, h.sendUnrel⟩

theorem dw_status (c : Conn) (r : Reason) :
    (c.disconnectWith r).status = c.status ∨ ∃ r', (c.disconnectWith r).status = .disconnected r' := by
  unfold Conn.disconnectWith
  split
  · exact Or.inl rfl
  · exact Or.inr ⟨r, rfl⟩

theorem _root_.RenetVerif.Conn.InvP.disconnectWith {P} {c : Conn} (h : c.InvP P) (r : Reason) :
    (c.disconnectWith r).InvP P := by
  obtain ⟨a, b, c1, d⟩ := Conn.disconnectWith_same c r
  exact h.same a b c1 d

theorem _root_.RenetVerif.Conn.InvP.setConnected {P} {c : Conn} (h : c.InvP P) : c.setConnected.InvP P := by
  unfold Conn.setConnected
  split
  · exact h
  · exact h.same ⟨rfl, rfl, rfl, rfl, rfl⟩ rfl rfl rfl

theorem _root_.RenetVerif.Conn.InvP.setConnecting {P} {c : Conn} (h : c.InvP P) : c.setConnecting.InvP P := by
  unfold Conn.setConnecting
  split
  · exact h
  · exact h.same ⟨rfl, rfl, rfl, rfl, rfl⟩ rfl rfl rfl

/-! ## `Conn.fromChannels` -/

theorem foldl_insert_mem {α β : Type} (key : β → Nat) (val : β → α) : ∀ (l : List β) (m0 : SMap α) (x : Nat × α),
    x ∈ l.foldl (fun m c => SMap.insert m (key c) (val c)) m0 → x ∈ m0 ∨ ∃ c ∈ l, x = (key c, val c)
  | [], _, _, h => Or.inl h
  | c :: l, m0, x, h => by
    simp only [List.foldl_cons] at h
    rcases foldl_insert_mem key val l _ x h with h1 | ⟨c', hc', rfl⟩
    · rcases SMap.mem_insert h1 with rfl | h2
      · exact Or.inr ⟨c, List.mem_cons_self .., rfl⟩
      · exact Or.inl h2
    · exact Or.inr ⟨c', List.mem_cons_of_mem _ hc', rfl⟩

theorem sendUnrel_new_acct (ch maxMem : Nat) : (SendUnrel.new ch maxMem).Acct := ⟨rfl, Nat.zero_le _⟩

/-- a freshly configured connection satisfies the invariant — for ANY channel configuration (duplicate ids and
    ids ≥ 256 included: a later duplicate simply replaces the earlier channel object) -/
theorem fromChannels_invP {P} (budget : Nat) (send recv : List ChanCfg) :
    (Conn.fromChannels budget send recv).InvP P := by
  refine ⟨SI.Conn.fromChannels_inv budget send recv, trivial, Nat.zero_le _, fun _ h => (by cases h), ?_, ?_, ?_⟩
  · intro x hx
    rcases foldl_insert_mem (fun c : ChanCfg => c.id) (fun c => RecvRel.new c.maxMem (c.kind == .ordered)) _ _ x hx
      with h | ⟨c, -, rfl⟩
    · cases h
    · exact RecvRel.new_invP _ _
  · intro x hx
    rcases foldl_insert_mem (fun c : ChanCfg => c.id) (fun c => RecvUnrel.new c.id c.maxMem) _ _ x hx
      with h | ⟨c, -, rfl⟩
    · cases h
    · exact RecvUnrel.new_invP _ _
  · intro x hx
    rcases foldl_insert_mem (fun c : ChanCfg => c.id) (fun c => SendUnrel.new c.id c.maxMem) _ _ x hx
      with h | ⟨c, -, rfl⟩
    · cases h
    · exact sendUnrel_new_acct _ _

/-! ## `process_packet` -/

theorem fromBytes_wf {b : Bytes} {p : Packet} (h : Packet.fromBytes b = .ok p) : p.WF := by
  unfold Packet.fromBytes at h
  split at h
  · cases h; rename_i rest hd; exact Packet.decode_wf b _ rest hd
  · cases h

theorem fromBytes_seq_le {b : Bytes} {p : Packet} (h : Packet.fromBytes b = .ok p) : p.sequence ≤ Varint.MAX := by
  have hw := fromBytes_wf h
  cases p <;> exact hw.1

/-- bounds travel along set inclusion of the covered sequence numbers -/
theorem acks_bound_of_sub {l l' : List AckRange} {B : Nat} (hw : Acks.WF l')
    (hsub : ∀ x, Acks.Mem x l' → Acks.Mem x l) (hb : ∀ r ∈ l, r.2 ≤ B) : ∀ r ∈ l', r.2 ≤ B := by
  intro r hr
  have hne := Acks.wf_mem_nonempty hw r hr
  have hm := Acks.mem_of_mem_range (x := r.2 - 1) hr (by omega) (by omega)
  obtain ⟨r', hr', hx⟩ := Acks.range_of_mem (hsub _ hm)
  have := hb r' hr'
  omega

/-- recording a decoded packet's sequence number keeps all three ack clauses -/
theorem acks_add {l : List AckRange} {seq : Nat} (h1 : Acks.WF l) (h2 : l.length ≤ ACK_RANGE_CAP)
    (h3 : ∀ r ∈ l, r.2 ≤ Varint.MAX + 1) (hs : seq ≤ Varint.MAX) :
    Acks.WF (Acks.add ACK_RANGE_CAP seq l) ∧ (Acks.add ACK_RANGE_CAP seq l).length ≤ ACK_RANGE_CAP ∧
    ∀ r ∈ Acks.add ACK_RANGE_CAP seq l, r.2 ≤ Varint.MAX + 1 :=
  ⟨Acks.add_wf _ _ _ h1, Acks.add_length _ _ _ cap_pos h1 h2, Acks.add_bound _ _ _ _ h1 h3 (by omega)⟩

theorem relMsgLoop_safeP {P} : ∀ (msgs : List (Nat × Bytes)) (r : RecvRel), r.InvP P →
    (∃ r', Conn.relMsgLoop r msgs = .ok r' ∧ r'.InvP P) ∨
    (∃ e r', Conn.relMsgLoop r msgs = .err (e, r') ∧ r'.InvP P)
  | [], r, h => Or.inl ⟨r, rfl, h⟩
  | (id, m) :: rest, r, h => by
    rcases RecvRel.processMessage_safeP r h m id with ⟨r1, he, h1⟩ | ⟨e, r1, he, h1⟩
    · simp only [Conn.relMsgLoop, he]
      exact relMsgLoop_safeP rest r1 h1
    · simp only [Conn.relMsgLoop, he]
      exact Or.inr ⟨e, r1, rfl, h1⟩

theorem foldl_processMessage_safeP {P} : ∀ (msgs : List Bytes) (r : RecvUnrel), r.InvP P →
    (msgs.foldl RecvUnrel.processMessage r).InvP P
  | [], _, h => h
  | m :: rest, r, h => by
    simp only [List.foldl_cons]
    exact foldl_processMessage_safeP rest _ (RecvUnrel.processMessage_safeP r h m)

/-- the pending-ack list never grows inside the ack branch -/
theorem ackOne_acksLen {c c' : Conn} {seq : Nat} (h : c.ackOne seq = .ok c') :
    c'.pendingAcks.length ≤ c.pendingAcks.length := by
  unfold Conn.ackOne at h
  split at h
  · cases h
  · rename_i t info hf
    cases info with
    | none => simp at h; cases h; exact Nat.le_refl _
    | ack l => simp at h; cases h; exact Acks.ackedLargest_length _ _
    | relMsgs ch ids =>
      simp only at h
      split at h
      · cases h
      · rename_i s hs
        cases hl : Conn.ackMsgLoop s ids with
        | ok s' => simp [hl] at h; cases h; exact Nat.le_refl _
        | err e => simp [hl] at h
        | panic p => simp [hl] at h
    | relSlice ch id idx =>
      simp only at h
      split at h
      · cases h
      · rename_i s hs
        cases hl : s.processSliceAck id idx with
        | ok s' => simp [hl] at h; cases h; exact Nat.le_refl _
        | err e => simp [hl] at h
        | panic p => simp [hl] at h

theorem ackLoop_acksLen : ∀ (l : List Nat) (c c' : Conn), c.ackLoop l = .ok c' →
    c'.pendingAcks.length ≤ c.pendingAcks.length
  | [], c, c', h => by cases h; exact Nat.le_refl _
  | seq :: rest, c, c', h => by
    unfold Conn.ackLoop at h
    cases h1 : c.ackOne seq with
    | ok c1 =>
      simp [h1] at h
      exact Nat.le_trans (ackLoop_acksLen rest c1 c' h) (ackOne_acksLen h1)
    | err e => simp [h1] at h
    | panic p => simp [h1] at h

/-- **C06 core.**  Whatever bytes arrive, in whatever state satisfying the invariant: `process_packet` returns
    normally, the invariant holds again, and the status is unchanged or the connection is disconnected with a
    reason. -/
theorem processPacket_totalP {P} (hP : GoodP P) {c : Conn} (h : c.InvP P) (bytes : Bytes) :
    ∃ c', c.processPacket bytes = .ok c' ∧ c'.InvP P ∧
      (c'.status = c.status ∨ ∃ r, c'.status = .disconnected r) ∧ c.SameChans c' := by
  cases hd : c.isDisconnected with
  | true => exact ⟨c, by unfold Conn.processPacket; rw [hd]; rfl, h, Or.inl rfl, Conn.SameChans.refl c⟩
  | false =>
    cases hp : Packet.fromBytes bytes with
    | error e =>
      exact ⟨_, by unfold Conn.processPacket; rw [hd, hp]; rfl, h.disconnectWith _, dw_status c _, sameChans_dw c _⟩
    | ok p =>
      obtain ⟨a1, a2, a3⟩ := acks_add h.acksWF h.acksLen h.acksBound (fromBytes_seq_le hp)
      cases p with
      | ack aseq ranges =>
        obtain ⟨L, c', -, e, i, eff, -, -⟩ := SI.Conn.processPacket_ack_spec h.send hd hp
        obtain ⟨f1, f2, f3, -, -, -, -, f8⟩ := eff.frame
        have hw' : Acks.WF c'.pendingAcks := eff.acksWF a1
        obtain ⟨-, -, -, -, -, -, f7, -⟩ := eff.frame
        have hsc : c.SameChans c' := by
          refine ⟨fun k => ?_, fun _ => by rw [f8], fun _ => by rw [f1], fun _ => by rw [f2], f7⟩
          cases hk : SMap.find? c.sendRel k with
          | none => rw [eff.nochan k hk]
          | some s0 => obtain ⟨s1, h1, -⟩ := eff.chan k s0 hk; rw [h1]; rfl
        refine ⟨c', e, ⟨i, hw', ?_, ?_, f1 ▸ h.recvRel, f2 ▸ h.recvUnrel, f8 ▸ h.sendUnrel⟩, Or.inl f3, hsc⟩
        · rcases SI.Conn.processPacket_cases e with ⟨-, -, hx | ⟨e', he'⟩⟩ | ⟨p, hp', hna, -, -⟩ | ⟨aseq', ranges', L', -, hp', -, hl⟩
          · rw [hd] at hx; cases hx
          · rw [hp] at he'; cases he'
          · rw [hp] at hp'; cases hp'; cases hna
          · rw [hp] at hp'; cases hp'
            exact Nat.le_trans (ackLoop_acksLen _ _ _ hl) a2
        · exact acks_bound_of_sub hw' eff.acksSub a3
      | smallReliable seq ch msgs =>
        unfold Conn.processPacket; rw [hd, hp]
        simp only [Bool.false_eq_true, if_false]
        cases hf : SMap.find? c.recvRel ch with
        | none =>
          exact ⟨_, rfl, (h.rebuild a1 a2 a3 h.recvRel h.recvUnrel).disconnectWith _, dw_status _ _,
            sameChans_acks_dw _ _ _⟩
        | some r =>
          simp only
          rcases relMsgLoop_safeP msgs r (h.recvRel_find hf) with ⟨r', he, hr'⟩ | ⟨e, r', he, hr'⟩
          · rw [he]
            exact ⟨_, rfl, h.rebuild a1 a2 a3 (forall_insert h.recvRel ch hr') h.recvUnrel, Or.inl rfl,
              ⟨fun _ => rfl, fun _ => rfl, fun k => isSome_insert hf _ k, fun _ => rfl, rfl⟩⟩
          · rw [he]
            exact ⟨_, rfl, (h.rebuild a1 a2 a3 (forall_insert h.recvRel ch hr') h.recvUnrel).disconnectWith _,
              dw_status _ _, sameChans_dw_of (sameChans_recvRel hf _ _) _⟩
      | smallUnreliable seq ch msgs =>
        unfold Conn.processPacket; rw [hd, hp]
        simp only [Bool.false_eq_true, if_false]
        cases hf : SMap.find? c.recvUnrel ch with
        | none =>
          exact ⟨_, rfl, (h.rebuild a1 a2 a3 h.recvRel h.recvUnrel).disconnectWith _, dw_status _ _,
            sameChans_acks_dw _ _ _⟩
        | some r =>
          exact ⟨_, rfl, h.rebuild a1 a2 a3 h.recvRel
            (forall_insert h.recvUnrel ch (foldl_processMessage_safeP msgs r (h.recvUnrel_find hf))), Or.inl rfl,
            ⟨fun _ => rfl, fun _ => rfl, fun _ => rfl, fun k => isSome_insert hf _ k, rfl⟩⟩
      | reliableSlice seq ch sl =>
        have hn := (Packet.fromBytes_numSlices bytes _ hp seq ch sl (Or.inl rfl)).1
        unfold Conn.processPacket; rw [hd, hp]
        simp only [Bool.false_eq_true, if_false]
        cases hf : SMap.find? c.recvRel ch with
        | none =>
          exact ⟨_, rfl, (h.rebuild a1 a2 a3 h.recvRel h.recvUnrel).disconnectWith _, dw_status _ _,
            sameChans_acks_dw _ _ _⟩
        | some r =>
          simp only
          rcases RecvRel.processSlice_safeP hP.pred r (h.recvRel_find hf) sl (hP.new _ hn) with
            ⟨r', he, hr'⟩ | ⟨e, r', he, hr'⟩
          · rw [he]
            exact ⟨_, rfl, h.rebuild a1 a2 a3 (forall_insert h.recvRel ch hr') h.recvUnrel, Or.inl rfl,
              ⟨fun _ => rfl, fun _ => rfl, fun k => isSome_insert hf _ k, fun _ => rfl, rfl⟩⟩
          · rw [he]
            exact ⟨_, rfl, (h.rebuild a1 a2 a3 (forall_insert h.recvRel ch hr') h.recvUnrel).disconnectWith _,
              dw_status _ _, sameChans_dw_of (sameChans_recvRel hf _ _) _⟩
      | unreliableSlice seq ch sl =>
        have hn := (Packet.fromBytes_numSlices bytes _ hp seq ch sl (Or.inr rfl)).1
        unfold Conn.processPacket; rw [hd, hp]
        simp only [Bool.false_eq_true, if_false]
        cases hf : SMap.find? c.recvUnrel ch with
        | none =>
          exact ⟨_, rfl, (h.rebuild a1 a2 a3 h.recvRel h.recvUnrel).disconnectWith _, dw_status _ _,
            sameChans_acks_dw _ _ _⟩
        | some r =>
          simp only
          rcases RecvUnrel.processSlice_safeP hP.pred r (h.recvUnrel_find hf) sl c.now (hP.new _ hn) with
            ⟨r', he, hr'⟩ | ⟨e, r', he, hr'⟩
          · rw [he]
            exact ⟨_, rfl, h.rebuild a1 a2 a3 h.recvRel (forall_insert h.recvUnrel ch hr'), Or.inl rfl,
              ⟨fun _ => rfl, fun _ => rfl, fun _ => rfl, fun k => isSome_insert hf _ k, rfl⟩⟩
          · rw [he]
            exact ⟨_, rfl, (h.rebuild a1 a2 a3 h.recvRel (forall_insert h.recvUnrel ch hr')).disconnectWith _,
              dw_status _ _, sameChans_dw_of (sameChans_recvUnrel hf _ _) _⟩


/-! ## `update` -/

theorem find?_erase_some {α : Type} {m : SMap α} (hs : SMap.Sorted m) {k k' : Nat} {v : α}
    (h : SMap.find? (SMap.erase m k) k' = some v) : SMap.find? m k' = some v := by
  by_cases e : k = k'
  · subst e; rw [SMap.find?_erase_self hs] at h; cases h
  · rwa [SMap.find?_erase_ne m e] at h

/-- the discard loop only erases time stamps -/
theorem discardLoop_last_mono : ∀ (ids : List Nat) (r r' : RecvUnrel), SMap.Sorted r.lastReceived →
    discardLoop ids r = .ok r' →
    ∀ k t, SMap.find? r'.lastReceived k = some t → SMap.find? r.lastReceived k = some t
  | [], r, r', _, h, k, t, hk => by cases h; exact hk
  | id :: rest, r, r', hs, h, k, t, hk => by
    unfold discardLoop at h
    split at h
    · cases h
    · rename_i c hc
      simp only [Res.csub] at h
      split at h
      · simp only [Res.bind_ok] at h
        have := discardLoop_last_mono rest _ r' (SMap.sorted_erase hs id) h k t hk
        exact find?_erase_some hs this
      · cases h

theorem discardAll_specP {P} (now : Nat) : ∀ (m : SMap RecvUnrel), (∀ x ∈ m, x.2.InvP P) →
    ∃ m', Conn.discardAll now m = .ok m' ∧ (∀ x ∈ m', x.2.InvP P) ∧
      (∀ k, SMap.find? m k = none → SMap.find? m' k = none) ∧
      (∀ k r, SMap.find? m k = some r → ∃ r', r.discardOld now = .ok r' ∧ SMap.find? m' k = some r')
  | [], _ => ⟨[], rfl, fun _ hx => (by cases hx), fun _ hk => hk, fun _ _ hk => (by cases hk)⟩
  | (k0, r0) :: rest, h => by
    obtain ⟨r0', e0, i0⟩ := RecvUnrel.discardOld_safeP r0 (h (k0, r0) (List.mem_cons_self ..)) now
    obtain ⟨rest', e1, i1, n1, f1⟩ := discardAll_specP now rest (fun x hx => h x (List.mem_cons_of_mem _ hx))
    refine ⟨(k0, r0') :: rest', by simp [Conn.discardAll, e0, e1], ?_, ?_, ?_⟩
    · intro x hx
      simp only [List.mem_cons] at hx
      rcases hx with rfl | hx
      · exact i0
      · exact i1 x hx
    · intro k hk
      rw [SMap.find?_cons] at hk ⊢
      split
      · rename_i e; rw [if_pos e] at hk; cases hk
      · rename_i e; rw [if_neg e] at hk; exact n1 k hk
    · intro k r hk
      rw [SMap.find?_cons] at hk ⊢
      split
      · rename_i e; rw [if_pos e] at hk; cases hk; exact ⟨r0', e0, rfl⟩
      · rename_i e; rw [if_neg e] at hk; exact f1 k r hk

/-- `update` returns normally for every `dt`, keeps the invariant and the status; each unreliable receive channel
    is replaced by the result of its own `discardOld` -/
theorem update_totalP {P} {c : Conn} (h : c.InvP P) (dt : Nat) :
    ∃ c', c.update dt = .ok c' ∧ c'.InvP P ∧ c'.status = c.status ∧ c'.now = c.now + dt ∧
      c'.recvRel = c.recvRel ∧ c.SameChans c' ∧
      (∀ ch, SMap.find? c.recvUnrel ch = none → SMap.find? c'.recvUnrel ch = none) ∧
      (∀ ch r, SMap.find? c.recvUnrel ch = some r →
        ∃ r', r.discardOld (c.now + dt) = .ok r' ∧ SMap.find? c'.recvUnrel ch = some r') := by
  obtain ⟨ru, e0, i0, n0, f0⟩ := discardAll_specP (c.now + dt) c.recvUnrel h.recvUnrel
  have e : c.update dt = .ok
      { c with now := c.now + dt
               recvUnrel := ru
               sent := c.sent.dropWhile (fun (_, (t, _)) => c.now + dt - t ≥ DISCARD_AFTER_NS) } := by
    simp only [Conn.update, e0, Res.bind_ok, Res.pure_eq]
  refine ⟨_, e, ⟨SI.Conn.update_inv h.send e, h.acksWF, h.acksLen, h.acksBound, h.recvRel, i0, h.sendUnrel⟩,
    rfl, rfl, rfl, ⟨fun _ => rfl, fun _ => rfl, fun _ => rfl, fun k => ?_, rfl⟩, n0, f0⟩
  show (SMap.find? ru k).isSome = (SMap.find? c.recvUnrel k).isSome
  cases hk : SMap.find? c.recvUnrel k with
  | none => rw [n0 k hk]
  | some r => obtain ⟨r', -, h1⟩ := f0 k r hk; rw [h1]; rfl

/-- C09: after `update`, every time stamp still held by an unreliable receive channel is younger than
    `DISCARD_FRAGMENT_AFTER_NS` (so every fragment that made no progress for 3 s is gone, and by the accounting
    equality of the invariant it no longer counts) -/
theorem update_no_staleP {P} {c c' : Conn} (h : c.InvP P) {dt : Nat} (hu : c.update dt = .ok c') :
    ∀ ch r', SMap.find? c'.recvUnrel ch = some r' →
      ∀ id t, SMap.find? r'.lastReceived id = some t → c'.now - t < DISCARD_FRAGMENT_AFTER_NS := by
  obtain ⟨c2, e, i, -, hnow, -, -, n0, f0⟩ := update_totalP h dt
  rw [e] at hu; cases hu
  intro ch r' hr' id t ht
  cases hf : SMap.find? c.recvUnrel ch with
  | none => rw [n0 ch hf] at hr'; cases hr'
  | some r =>
    obtain ⟨r2, ed, hr2⟩ := f0 ch r hf
    rw [hr'] at hr2; cases hr2
    have hri := h.recvUnrel_find hf
    have hri' := i.recvUnrel_find hr'
    have hold : SMap.find? r.lastReceived id = some t := by
      rw [RecvUnrel.discardOld_eq] at ed
      exact discardLoop_last_mono _ r r' hri.lastSorted ed id t ht
    rw [hnow]
    apply Classical.byContradiction
    intro hge
    have hgone := RecvUnrel.discardOld_removes_staleP r r' hri (c.now + dt) id t hold (by omega) ed
    have hin := hri'.lastSub id (SMap.contains_of_find? ht)
    rw [SMap.contains_eq_false_iff.mpr hgone] at hin
    cases hin

/-! ## `receive_message` / `send_message` -/

theorem receiveMessage_totalP {P} {c : Conn} (h : c.InvP P) (ch : Nat) (hch : c.hasRecv ch) :
    ∃ c' m, c.receiveMessage ch = .ok (c', m) ∧ c'.InvP P ∧ c'.status = c.status ∧ c.SameChans c' := by
  cases hd : c.isDisconnected with
  | true => exact ⟨c, none, by unfold Conn.receiveMessage; rw [hd]; rfl, h, rfl, Conn.SameChans.refl c⟩
  | false =>
    unfold Conn.receiveMessage; rw [hd]
    simp only [Bool.false_eq_true, if_false]
    cases hf : SMap.find? c.recvRel ch with
    | some r =>
      obtain ⟨r', m, e, i⟩ := RecvRel.receive_safeP r (h.recvRel_find hf)
      simp only [e, Res.bind_ok, Res.pure_eq]
      exact ⟨_, m, rfl, h.rebuild h.acksWF h.acksLen h.acksBound (forall_insert h.recvRel ch i) h.recvUnrel, rfl,
        ⟨fun _ => rfl, fun _ => rfl, fun k => isSome_insert hf _ k, fun _ => rfl, rfl⟩⟩
    | none =>
      simp only
      cases hg : SMap.find? c.recvUnrel ch with
      | some r =>
        obtain ⟨r', m, e, i⟩ := RecvUnrel.receive_safeP r (h.recvUnrel_find hg)
        simp only [e, Res.bind_ok, Res.pure_eq]
        exact ⟨_, m, rfl, h.rebuild h.acksWF h.acksLen h.acksBound h.recvRel (forall_insert h.recvUnrel ch i), rfl,
          ⟨fun _ => rfl, fun _ => rfl, fun _ => rfl, fun k => isSome_insert hg _ k, rfl⟩⟩
      | none =>
        rcases hch with hx | hx
        · exact absurd hf hx
        · exact absurd hg hx

/-- the documented contract violation (an id that names no receive channel, on a live connection) is the ONLY
    way `receive_message` unwinds -/
theorem receiveMessage_panic_iffP {P} {c : Conn} (h : c.InvP P) (ch : Nat) :
    (∃ s, c.receiveMessage ch = .panic s) ↔ (c.isDisconnected = false ∧ ¬ c.hasRecv ch) := by
  constructor
  · rintro ⟨s, hs⟩
    cases hd : c.isDisconnected with
    | true => unfold Conn.receiveMessage at hs; rw [hd] at hs; cases hs
    | false =>
      refine ⟨rfl, fun hch => ?_⟩
      obtain ⟨c', m, e, -⟩ := receiveMessage_totalP h ch hch
      rw [e] at hs; cases hs
  · rintro ⟨hd, hn⟩
    have h1 : SMap.find? c.recvRel ch = none := Classical.byContradiction fun hx => hn (Or.inl hx)
    have h2 : SMap.find? c.recvUnrel ch = none := Classical.byContradiction fun hx => hn (Or.inr hx)
    exact ⟨_, by unfold Conn.receiveMessage; rw [hd, h1, h2]; rfl⟩

theorem sendUnrel_sendMessage_acct {s : SendUnrel} (h : s.Acct) (m : Bytes) : (s.sendMessage m).Acct := by
  unfold SendUnrel.sendMessage
  split
  · exact h
  · refine ⟨?_, by show s.mem + m.length ≤ s.maxMem; omega⟩
    show s.mem + m.length = sumLen (s.queue ++ [m])
    rw [sumLen_append, ← h.1]; simp

theorem sendMessage_totalP {P} {c : Conn} (h : c.InvP P) (ch : Nat) (m : Bytes) (hch : c.hasSend ch) :
    ∃ c', c.sendMessage ch m = .ok c' ∧ c'.InvP P ∧
      (c'.status = c.status ∨ ∃ e, c'.status = .disconnected (.sendChan ch e)) ∧ c.SameChans c' := by
  have key : ∀ c', c.sendMessage ch m = .ok c' → c'.recvRel = c.recvRel → c'.recvUnrel = c.recvUnrel →
      c'.pendingAcks = c.pendingAcks → (∀ x ∈ c'.sendUnrel, x.2.Acct) → c'.InvP P := by
    intro c' e h1 h2 h3 h4
    exact ⟨SI.Conn.sendMessage_inv h.send e, h3 ▸ h.acksWF, h3 ▸ h.acksLen, h3 ▸ h.acksBound, h1 ▸ h.recvRel,
      h2 ▸ h.recvUnrel, h4⟩
  cases hd : c.isDisconnected with
  | true =>
    have e : c.sendMessage ch m = .ok c := by unfold Conn.sendMessage; rw [hd]; rfl
    exact ⟨c, e, h, Or.inl rfl, Conn.SameChans.refl c⟩
  | false =>
    cases hf : SMap.find? c.sendRel ch with
    | some s =>
      cases hs : s.sendMessage m with
      | ok s' =>
        have e : c.sendMessage ch m = .ok { c with sendRel := SMap.insert c.sendRel ch s' } := by
          unfold Conn.sendMessage; rw [hd, hf]; simp only [Bool.false_eq_true, if_false, hs]
        exact ⟨_, e, key _ e rfl rfl rfl h.sendUnrel, Or.inl rfl,
          ⟨fun k => isSome_insert hf _ k, fun _ => rfl, fun _ => rfl, fun _ => rfl, rfl⟩⟩
      | error err =>
        have e : c.sendMessage ch m = .ok (c.disconnectWith (.sendChan ch err)) := by
          unfold Conn.sendMessage; rw [hd, hf]; simp only [Bool.false_eq_true, if_false, hs]
        refine ⟨_, e, h.disconnectWith _, Or.inr ⟨err, ?_⟩, sameChans_dw c _⟩
        rw [SL.Conn.disconnectWith_status, hd]; rfl
    | none =>
      cases hg : SMap.find? c.sendUnrel ch with
      | some s =>
        have e : c.sendMessage ch m = .ok { c with sendUnrel := SMap.insert c.sendUnrel ch (s.sendMessage m) } := by
          unfold Conn.sendMessage; rw [hd, hf, hg]; rfl
        exact ⟨_, e, key _ e rfl rfl rfl
          (forall_insert h.sendUnrel ch (sendUnrel_sendMessage_acct (h.sendUnrel_find hg) m)), Or.inl rfl,
          ⟨fun _ => rfl, fun k => isSome_insert hg _ k, fun _ => rfl, fun _ => rfl, rfl⟩⟩
      | none =>
        rcases hch with hx | hx
        · exact absurd hf hx
        · exact absurd hg hx

theorem sendMessage_panic_iffP {P} {c : Conn} (h : c.InvP P) (ch : Nat) (m : Bytes) :
    (∃ s, c.sendMessage ch m = .panic s) ↔ (c.isDisconnected = false ∧ ¬ c.hasSend ch) := by
  constructor
  · rintro ⟨s, hs⟩
    cases hd : c.isDisconnected with
    | true => unfold Conn.sendMessage at hs; rw [hd] at hs; cases hs
    | false =>
      refine ⟨rfl, fun hch => ?_⟩
      obtain ⟨c', e, -⟩ := sendMessage_totalP h ch m hch
      rw [e] at hs; cases hs
  · rintro ⟨hd, hn⟩
    have h1 : SMap.find? c.sendRel ch = none := Classical.byContradiction fun hx => hn (Or.inl hx)
    have h2 : SMap.find? c.sendUnrel ch = none := Classical.byContradiction fun hx => hn (Or.inr hx)
    exact ⟨_, by unfold Conn.sendMessage; rw [hd, h1, h2]; rfl⟩

/-- `channel_available_memory`: same contract -/
theorem availableMemory_total (c : Conn) (ch : Nat) (hch : c.hasSend ch) : ∃ n, c.availableMemory ch = .ok n := by
  unfold Conn.availableMemory
  cases hf : SMap.find? c.sendRel ch with
  | some s => exact ⟨_, rfl⟩
  | none =>
    cases hg : SMap.find? c.sendUnrel ch with
    | some s => exact ⟨_, rfl⟩
    | none =>
      rcases hch with hx | hx
      · exact absurd hf hx
      · exact absurd hg hx


/-! ## `get_packets_to_send` -/

end CI

/-- the counters the wire format cannot carry beyond `2^62 - 1` (octets varints): message ids, slice-message ids,
    packet sequence numbers, and (via the configured budgets) message lengths.  `flushSeq` is the value
    `packet_sequence` has after this flush. -/
structure Conn.CountersOK (c : Conn) : Prop where
  rel : ∀ ch s, SMap.find? c.sendRel ch = some s → s.nextId ≤ Varint.MAX + 1 ∧ s.maxMem ≤ Varint.MAX
  unrel : ∀ ch s, SMap.find? c.sendUnrel ch = some s →
    s.slicedId + s.queue.length ≤ Varint.MAX + 1 ∧ s.maxMem ≤ Varint.MAX
  seq : c.flushSeq ≤ Varint.MAX + 1

namespace CI

theorem sendRel_wf_of_inv {s : SendRel} (h : s.Inv) (hm : s.maxMem ≤ Varint.MAX) : s.WF := by
  refine ⟨?_, fun id u hx => h.keys _ hx, ?_⟩
  · unfold SMap.keys List.Nodup
    exact List.pairwise_map.mpr (h.sorted.imp (fun hlt => Nat.ne_of_lt hlt))
  · intro id u hx
    have hok := h.entries _ hx
    have hlen : u.msg.length ≤ Varint.MAX := by
      have := SI.msum_ge (SI.mem_find?_of_sorted h.sorted hx)
      have := h.mem; have := h.bound; omega
    cases u with
    | small m ls => exact hok
    | sliced m n na nx ak ls =>
      obtain ⟨o1, o2, o3, o4, -, -⟩ := hok
      exact ⟨o2, by omega, hlen, o3, o4⟩

/-- the hypotheses of C13's `connection_fits` follow from the invariant and the counter bounds -/
theorem flushInv_of {P} {c : Conn} (h : c.InvP P) (hc : c.CountersOK) : c.FlushInv := by
  refine ⟨?_, ?_, ?_, h.acksWF, h.acksLen, h.acksBound⟩
  · intro x hx
    have := h.send.order x hx
    split
    · rename_i hb; rw [if_pos hb] at this
      intro hn; rw [hn] at this; cases this
    · rename_i hb; rw [if_neg hb] at this
      intro hn; rw [hn] at this; cases this
  · intro ch s hs
    obtain ⟨c1, c2⟩ := hc.rel ch s hs
    exact ⟨sendRel_wf_of_inv (h.sendRel_find hs).1 c2, c1⟩
  · intro ch s hs
    obtain ⟨c1, c2⟩ := hc.unrel ch s hs
    have ha := h.sendUnrel_find hs
    refine ⟨fun m hm => ?_, c1⟩
    have := le_sumLen hm
    have := ha.1; have := ha.2; omega

/-- an unreliable send channel whose queue is empty and whose counter is zero -/
def Drained (su : SMap SendUnrel) (ch : Nat) : Prop :=
  ∀ s, SMap.find? su ch = some s → s.queue = [] ∧ s.mem = 0

theorem sendUnrel_getPackets_acct {s : SendUnrel} (h : s.Acct) (seq avail : Nat) :
    (s.getPackets seq avail).1.Acct ∧ (s.getPackets seq avail).1.queue = [] ∧ (s.getPackets seq avail).1.mem = 0 ∧
    (s.getPackets seq avail).1.maxMem = s.maxMem := by
  obtain ⟨d1, d2, -, d4⟩ := SendUnrel.getPackets_drains (s := s) (s' := (s.getPackets seq avail).1)
    (ps := (s.getPackets seq avail).2.1) (seq' := (s.getPackets seq avail).2.2.1)
    (avail' := (s.getPackets seq avail).2.2.2) rfl
  have h0 : (s.getPackets seq avail).1.mem = 0 := by
    rw [d2, unrelSmallSum_eq_sumLen, h.1]; omega
  refine ⟨⟨?_, by omega⟩, d1, h0, d4⟩
  rw [h0, d1]; rfl

/-- the channel loop keeps the accounting of every unreliable send channel, and leaves every unreliable channel
    of the send order drained -/
theorem chanLoop_unrel (now : Nat) : ∀ (ord : List (Bool × Nat)) (sr : SMap SendRel) (su : SMap SendUnrel)
    (pk : List Packet) (seq avail : Nat) (sr' : SMap SendRel) (su' : SMap SendUnrel) (pk' : List Packet)
    (seq' avail' : Nat),
    Conn.chanLoop now ord (sr, su, pk, seq, avail) = .ok (sr', su', pk', seq', avail') →
    (∀ x ∈ su, x.2.Acct) →
    (∀ x ∈ su', x.2.Acct) ∧ (∀ ch, Drained su ch → Drained su' ch) ∧ (∀ ch, (false, ch) ∈ ord → Drained su' ch) ∧
    (∀ ch s, SMap.find? su ch = some s → ∃ s', SMap.find? su' ch = some s' ∧ s'.maxMem = s.maxMem) ∧
    (∀ ch, (SMap.find? su' ch).isSome = (SMap.find? su ch).isSome) ∧
    (∀ ch, (SMap.find? sr' ch).isSome = (SMap.find? sr ch).isSome)
  | [], sr, su, pk, seq, avail, sr', su', pk', seq', avail', h, ha => by
    simp only [Conn.chanLoop, Res.ok.injEq, Prod.mk.injEq] at h
    obtain ⟨rfl, rfl, -, -, -⟩ := h
    exact ⟨ha, fun _ hd => hd, fun _ hm => (by cases hm), fun _ s hs => ⟨s, hs, rfl⟩, fun _ => rfl, fun _ => rfl⟩
  | (true, ch0) :: rest, sr, su, pk, seq, avail, sr', su', pk', seq', avail', h, ha => by
    rw [chanLoop_rel_step] at h
    split at h
    · cases h
    · rename_i s hs
      obtain ⟨i1, i2, i3, i4, i5, i6⟩ := chanLoop_unrel now rest _ _ _ _ _ _ _ _ _ _ h ha
      refine ⟨i1, i2, fun ch hm => ?_, i4, i5, fun k => (i6 k).trans (isSome_insert hs _ k)⟩
      simp only [List.mem_cons, Prod.mk.injEq, Bool.false_eq_true, false_and, false_or] at hm
      exact i3 ch hm
  | (false, ch0) :: rest, sr, su, pk, seq, avail, sr', su', pk', seq', avail', h, ha => by
    rw [chanLoop_unrel_step] at h
    split at h
    · cases h
    · rename_i s hs
      obtain ⟨g1, g2, g3, g4⟩ := sendUnrel_getPackets_acct (ha _ (SMap.mem_of_find? hs)) seq avail
      obtain ⟨i1, i2, i3, i4, i5, i6⟩ := chanLoop_unrel now rest _ _ _ _ _ _ _ _ _ _ h (forall_insert ha ch0 g1)
      have hd0 : Drained (SMap.insert su ch0 (s.getPackets seq avail).1) ch0 := by
        intro s1 h1
        rw [SMap.find?_insert, if_pos rfl] at h1
        cases h1; exact ⟨g2, g3⟩
      refine ⟨i1, fun ch hd => i2 ch ?_, fun ch hm => ?_, fun ch s1 h1 => ?_,
        fun k => (i5 k).trans (isSome_insert hs _ k), i6⟩
      · by_cases e : ch0 = ch
        · subst e; exact hd0
        · intro s1 h1
          rw [SMap.find?_insert, if_neg e] at h1
          exact hd s1 h1
      · simp only [List.mem_cons, Prod.mk.injEq, true_and] at hm
        rcases hm with rfl | hm
        · exact i2 _ hd0
        · exact i3 ch hm
      · by_cases e : ch0 = ch
        · subst e
          rw [hs] at h1; cases h1
          obtain ⟨s2, h2, h3⟩ := i4 ch0 _ (by rw [SMap.find?_insert, if_pos rfl])
          exact ⟨s2, h2, h3.trans g4⟩
        · exact i4 ch s1 (by rw [SMap.find?_insert, if_neg e]; exact h1)

/-- what a returning `get_packets_to_send` of a live connection did outside the reliable send side -/
theorem getPacketsToSend_shape {c c' : Conn} {out : List Bytes} (hd : c.isDisconnected = false)
    (h : c.getPacketsToSend = .ok (c', out)) :
    ∃ sr su pk seq avail,
      Conn.chanLoop c.now c.order (c.sendRel, c.sendUnrel, [], c.packetSeq, c.budget) = .ok (sr, su, pk, seq, avail) ∧
      c'.sendUnrel = su ∧ c'.recvRel = c.recvRel ∧ c'.recvUnrel = c.recvUnrel ∧ c'.now = c.now ∧
      c'.budget = c.budget ∧ c'.sendRel = sr ∧ c'.order = c.order := by
  unfold Conn.getPacketsToSend at h
  simp only [hd, Bool.false_eq_true, ↓reduceIte] at h
  cases hr : Conn.chanLoop c.now c.order (c.sendRel, c.sendUnrel, [], c.packetSeq, c.budget) with
  | panic s => rw [hr] at h; cases h
  | err e => cases e
  | ok r =>
    obtain ⟨sr, su, pk, seq, avail⟩ := r
    rw [hr] at h
    simp only [Res.bind_ok] at h
    refine ⟨sr, su, pk, seq, avail, rfl, ?_⟩
    by_cases hempty : c.pendingAcks.isEmpty = true
    · simp only [hempty, ↓reduceIte] at h
      cases hs : Conn.recordSent c.now pk c.sent with
      | panic s => rw [hs] at h; cases h
      | err e => cases e
      | ok m =>
        rw [hs] at h
        simp only [Res.bind_ok] at h
        cases hser : Conn.serialiseAll pk with
        | ok bs' =>
          rw [hser] at h; simp only [Res.pure_eq, Res.ok.injEq, Prod.mk.injEq] at h
          obtain ⟨rfl, -⟩ := h; exact ⟨rfl, rfl, rfl, rfl, rfl, rfl, rfl⟩
        | err e =>
          rw [hser] at h; simp only [Res.pure_eq, Res.ok.injEq, Prod.mk.injEq] at h
          obtain ⟨rfl, -⟩ := h; simp
        | panic s => rw [hser] at h; cases h
    · simp only [hempty, Bool.false_eq_true, ↓reduceIte] at h
      cases hs : Conn.recordSent c.now (pk ++ [Packet.ack seq c.pendingAcks]) c.sent with
      | panic s => rw [hs] at h; cases h
      | err e => cases e
      | ok m =>
        rw [hs] at h
        simp only [Res.bind_ok] at h
        cases hser : Conn.serialiseAll (pk ++ [Packet.ack seq c.pendingAcks]) with
        | ok bs' =>
          rw [hser] at h; simp only [Res.pure_eq, Res.ok.injEq, Prod.mk.injEq] at h
          obtain ⟨rfl, -⟩ := h; exact ⟨rfl, rfl, rfl, rfl, rfl, rfl, rfl⟩
        | err e =>
          rw [hser] at h; simp only [Res.pure_eq, Res.ok.injEq, Prod.mk.injEq] at h
          obtain ⟨rfl, -⟩ := h; simp
        | panic s => rw [hser] at h; cases h

/-- whenever `get_packets_to_send` returns, the invariant holds again (no counter hypothesis needed here) -/
theorem getPacketsToSend_invP {P} {c c' : Conn} {out : List Bytes} (h : c.InvP P)
    (hr : c.getPacketsToSend = .ok (c', out)) : c'.InvP P := by
  cases hd : c.isDisconnected with
  | true =>
    unfold Conn.getPacketsToSend at hr; rw [hd] at hr
    simp only [if_true, Res.ok.injEq, Prod.mk.injEq] at hr
    obtain ⟨rfl, -⟩ := hr; exact h
  | false =>
    obtain ⟨i, a, -, -⟩ := SI.Conn.getPacketsToSend_spec h.send h.acksWF hr
    obtain ⟨sr, su, pk, seq, avail, hl, e1, e2, e3, -⟩ := getPacketsToSend_shape hd hr
    obtain ⟨u1, -⟩ := chanLoop_unrel _ _ _ _ _ _ _ _ _ _ _ _ hl h.sendUnrel
    exact ⟨i, a ▸ h.acksWF, a ▸ h.acksLen, a ▸ h.acksBound, e2 ▸ h.recvRel, e3 ▸ h.recvUnrel, e1 ▸ u1⟩

/-- `get_packets_to_send`, counters in range: returns normally, invariant kept, status unchanged (in particular no
    `PacketSerialization` self-disconnect), every datagram at most `NETCODE_MAX_PAYLOAD_BYTES` long -/
theorem getPacketsToSend_totalP {P} {c : Conn} (h : c.InvP P) (hc : c.CountersOK) :
    ∃ c' out, c.getPacketsToSend = .ok (c', out) ∧ c'.InvP P ∧ c'.status = c.status ∧
      (∀ b ∈ out, b.length ≤ NETCODE_MAX_PAYLOAD_BYTES) := by
  obtain ⟨c', out, e, hs, hl, -⟩ := Conn.getPacketsToSend_fits c (flushInv_of h hc) hc.seq
  exact ⟨c', out, e, getPacketsToSend_invP h e, hs, hl⟩

/-- C09: after a flush of a live connection every unreliable send channel of the send order is empty and accounts
    zero bytes -/
theorem getPacketsToSend_drainsP {P} {c c' : Conn} {out : List Bytes} (h : c.InvP P) (hd : c.isDisconnected = false)
    (hr : c.getPacketsToSend = .ok (c', out)) :
    ∀ ch, (false, ch) ∈ c.order → ∀ s', SMap.find? c'.sendUnrel ch = some s' → s'.queue = [] ∧ s'.mem = 0 := by
  obtain ⟨sr, su, pk, seq, avail, hl, e1, -⟩ := getPacketsToSend_shape hd hr
  obtain ⟨-, -, u3, -⟩ := chanLoop_unrel _ _ _ _ _ _ _ _ _ _ _ _ hl h.sendUnrel
  intro ch hch s' hs'
  rw [e1] at hs'
  exact u3 ch hch s' hs'

end CI
end RenetVerif
