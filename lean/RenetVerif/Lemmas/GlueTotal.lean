/-
  No unwinding of the SERVER transport glue (renet_netcode/src/server.rs, model `Transport/Glue.lean`):
  `NetcodeServerTransport::update` and `::send_packets` return normally for every inbox, under
    * the netcode connection-table invariant `NS.ServerInv` (Lemmas/NcTable.lean),
    * room in the `u64` sequence counters of the netcode server for the datagrams this call can emit (`Room`),
    * the netcode clock staying below `Duration::MAX` minus the largest time-out (`update` only),
    * the renet invariant `Server.InvP P` (`GoodP P`) and the key order of the renet connection table (`RnOK`),
    * for `send_packets`: the renet wire counters in range (`Conn.CountersOK`, what `get_packets_to_send` needs),
  and all of these hold again afterwards (with the counter room reduced by what was budgeted).

  Part 1  `Room`, `Frame`: what one netcode server call does to clock, slot count and counters
  Part 2  the netcode calls one by one (`pp_ok`, `uc_ok`, `dc_ok`, `gp_cases`), on top of `NS.pp_spec`,
          `NS.updateClient_spec`, `NS.disconnect_spec`, `NS.generatePayload_ok`
  Part 3  the loops; `serverUpdate_total`, `serverSendPackets_total`, `serverDisconnectAll_total'`
  Part 4  traces: `runGlue_total`, executable checker `tpreb`

  Not covered: an a-priori (state-independent) bound on `sendBudget` — the number of datagrams one `send_packets`
  emits is what renet's `get_packets_to_send` returns on the current state; socket errors (`send_to`, `recv_from`) are
  outside the model.
-/
import RenetVerif.Lemmas.GlueInv
import RenetVerif.Lemmas.NcTablePP
namespace RenetVerif.GlueTotal
open RenetVerif RenetVerif.Netcode RenetVerif.Transport RenetVerif.GI

/-! ## Part 1 : counters -/

/-- the largest time-out a connect token can carry (`i32` seconds), in nanoseconds -/
abbrev TMO_MAX_NS : Nat := fromSecs (2 ^ 31)

/-- every `u64` sequence counter of the netcode server (global, challenge, one per connected client) can be
    incremented `n` more times.  (Half-open sessions have sequence 0: `NS.PendOK.seq`.) -/
structure Room (n : Nat) (s : NetcodeServer) : Prop where
  global : s.globalSequence + n ≤ U64_MAX
  challenge : s.challengeSequence + n ≤ U64_MAX
  seqs : ∀ i c, NS.At s.clients i c → c.sequence + n ≤ U64_MAX

theorem Room.mono {n m : Nat} {s : NetcodeServer} (h : Room n s) (hm : m ≤ n) : Room m s :=
  ⟨by have := h.global; omega, by have := h.challenge; omega, fun i c hc => by have := h.seqs i c hc; omega⟩

/-- what one netcode server call may do: the clock and the number of slots stay, every counter grows by at most one
    (a freshly connected client starts at 1) -/
structure Frame (s s' : NetcodeServer) : Prop where
  time : s'.currentTime = s.currentTime
  len : s'.clients.length = s.clients.length
  global : s'.globalSequence ≤ s.globalSequence + 1
  challenge : s'.challengeSequence ≤ s.challengeSequence + 1
  seqs : ∀ j c', NS.At s'.clients j c' → c'.sequence ≤ 1 ∨ ∃ c, NS.At s.clients j c ∧ c'.sequence ≤ c.sequence + 1

theorem Frame.refl (s : NetcodeServer) : Frame s s :=
  ⟨rfl, rfl, Nat.le_succ _, Nat.le_succ _, fun _ c' h => Or.inr ⟨c', h, Nat.le_succ _⟩⟩

theorem Frame.room {n : Nat} {s s' : NetcodeServer} (f : Frame s s') (h : Room (n + 1) s) : Room n s' := by
  refine ⟨?_, ?_, fun j c' hc => ?_⟩
  · have := f.global; have := h.global; omega
  · have := f.challenge; have := h.challenge; omega
  · rcases f.seqs j c' hc with h1 | ⟨c, hc0, h1⟩
    · have := h.global; omega
    · have := h.seqs j c hc0; omega

theorem frame_fields {s s' : NetcodeServer} (ht : s'.currentTime = s.currentTime) (hc : s'.clients = s.clients)
    (hg : s'.globalSequence ≤ s.globalSequence + 1) (hq : s'.challengeSequence ≤ s.challengeSequence + 1) :
    Frame s s' :=
  ⟨ht, by rw [hc], hg, hq, fun _ c' h => Or.inr ⟨c', by rw [← hc]; exact h, Nat.le_succ _⟩⟩

theorem frame_set {s s' : NetcodeServer} {i : Nat} {c : Connection} (c' : Connection) (hat : NS.At s.clients i c)
    (hc : s'.clients = s.clients.set i (some c')) (hsq : c'.sequence ≤ c.sequence + 1)
    (ht : s'.currentTime = s.currentTime) (hg : s'.globalSequence = s.globalSequence)
    (hq : s'.challengeSequence = s.challengeSequence) : Frame s s' := by
  refine ⟨ht, by rw [hc, List.length_set], by omega, by omega, fun j c'' h => ?_⟩
  rw [hc] at h
  rcases NS.at_set_some h with ⟨e, e'⟩ | ⟨_, h'⟩
  · subst e; subst e'; exact Or.inr ⟨c, hat, hsq⟩
  · exact Or.inr ⟨c'', h', Nat.le_succ _⟩

theorem frame_new {s s' : NetcodeServer} {i : Nat} (c' : Connection)
    (hc : s'.clients = s.clients.set i (some c')) (hsq : c'.sequence ≤ 1)
    (ht : s'.currentTime = s.currentTime) (hg : s'.globalSequence = s.globalSequence)
    (hq : s'.challengeSequence = s.challengeSequence) : Frame s s' := by
  refine ⟨ht, by rw [hc, List.length_set], by omega, by omega, fun j c'' h => ?_⟩
  rw [hc] at h
  rcases NS.at_set_some h with ⟨_, e'⟩ | ⟨_, h'⟩
  · subst e'; exact Or.inl hsq
  · exact Or.inr ⟨c'', h', Nat.le_succ _⟩

theorem frame_drop {s s' : NetcodeServer} {i : Nat} (hc : s'.clients = s.clients.set i none)
    (ht : s'.currentTime = s.currentTime) (hg : s'.globalSequence = s.globalSequence)
    (hq : s'.challengeSequence = s.challengeSequence) : Frame s s' := by
  refine ⟨ht, by rw [hc, List.length_set], by omega, by omega, fun j c'' h => ?_⟩
  rw [hc] at h
  exact Or.inr ⟨c'', (NS.at_set_none h).1, Nat.le_succ _⟩

theorem le_succ_of_eq {x y : Nat} (h : x = y) : x ≤ y + 1 := by omega

/-! ## Part 2 : the netcode calls -/

/-- `handle_connection_request` leaves clock and slot table alone and increments each global counter at most once -/
theorem hcr_fields {a : AEAD} {s : NetcodeServer} {addr : Addr} {v : Bytes} {pid expire : Nat} {xnonce data : Bytes}
    {R : NetcodeServer.SRes} {r : ServerResult} {s' : NetcodeServer}
    (ho : NS.HcrOut a s addr v pid expire xnonce data R) (hr : NS.HcrRes R r s') :
    s'.currentTime = s.currentTime ∧ s'.clients = s.clients ∧ s'.globalSequence ≤ s.globalSequence + 1 ∧
      s'.challengeSequence ≤ s.challengeSequence + 1 := by
  cases ho with
  | err e =>
    rcases hr with h | ⟨_, e', h⟩ <;> cases h
    exact ⟨rfl, rfl, Nat.le_succ _, Nat.le_succ _⟩
  | none =>
    rcases hr with h | ⟨_, e', h⟩ <;> cases h
    exact ⟨rfl, rfl, Nat.le_succ _, Nat.le_succ _⟩
  | deniedErr t s1 e hacc hstep hfull =>
    rcases hr with h | ⟨_, e', h⟩ <;> cases h
    obtain ⟨f1, _, _, _, _, f6, _, _, f9, f10, _⟩ := NS.entryStep_fields hstep
    exact ⟨f9, f1, le_succ_of_eq f10, le_succ_of_eq f6⟩
  | denied t s1 out hacc hstep hfull hen =>
    rcases hr with h | ⟨_, e', h⟩ <;> cases h
    obtain ⟨f1, _, _, _, _, f6, _, _, f9, f10, _⟩ := NS.entryStep_fields hstep
    exact ⟨f9, f1, Nat.le_refl _, le_succ_of_eq f6⟩
  | challengeErr t s1 e hacc hstep hfull =>
    rcases hr with h | ⟨_, e', h⟩ <;> cases h
    obtain ⟨f1, _, _, _, _, f6, _, _, f9, f10, _⟩ := NS.entryStep_fields hstep
    exact ⟨f9, f1, le_succ_of_eq f10, Nat.le_refl _⟩
  | challenge t s1 pkt out hacc hstep hfull hgen hen =>
    rcases hr with h | ⟨_, e', h⟩ <;> cases h
    obtain ⟨f1, _, _, _, _, f6, _, _, f9, f10, _⟩ := NS.entryStep_fields hstep
    exact ⟨f9, f1, Nat.le_refl _, Nat.le_refl _⟩

/-- every outcome of `process_packet` is a `Frame` step -/
theorem ppOut_frame {a : AEAD} {s : NetcodeServer} {addr : Addr} {buf : Bytes} {r : ServerResult} {s' : NetcodeServer}
    (hi : NS.ServerInv s) (ho : NS.PPOut a s addr buf r s') : Frame s s' := by
  cases ho with
  | short _ => exact Frame.refl s
  | connErr i c e w' hfa hdec =>
    exact frame_set { c with replayProtection := w' } (NS.findAddr_some hfa).1 rfl (Nat.le_succ _) rfl rfl rfl
  | connDisconnect i c sq w' hfa hdec => exact frame_drop rfl rfl rfl rfl
  | connPayload i c sq p w' hfa hdec =>
    exact frame_set (NS.refreshed c w' s.currentTime) (NS.findAddr_some hfa).1 rfl (Nat.le_succ _) rfl rfl rfl
  | connKeepAlive i c sq ci mc w' hfa hdec =>
    exact frame_set (NS.refreshed c w' s.currentTime) (NS.findAddr_some hfa).1 rfl (Nat.le_succ _) rfl rfl rfl
  | connOther i c sq pk w' hfa hdec _ _ _ =>
    exact frame_set { c with replayProtection := w' } (NS.findAddr_some hfa).1 rfl (Nat.le_succ _) rfl rfl rfl
  | pendErr p e w' hfa hpf hdec => exact frame_fields rfl rfl (Nat.le_succ _) (Nat.le_succ _)
  | pendRequest p sq v pid expire xnonce data w' R _ _ hfa hpf hdec hout hres =>
    obtain ⟨h1, h2, h3, h4⟩ := hcr_fields hout hres
    exact frame_fields h1 h2 h3 h4
  | pendOther p sq pk w' hfa hpf hdec _ _ => exact frame_fields rfl rfl (Nat.le_succ _) (Nat.le_succ _)
  | respRejected p sq ts td w' hfa hpf hdec _ => exact frame_fields rfl rfl (Nat.le_succ _) (Nat.le_succ _)
  | respDropped p sq ts td w' hfa hpf hdec _ => exact frame_fields rfl rfl (Nat.le_succ _) (Nat.le_succ _)
  | respFull p sq ts td w' out hfa hpf hdec _ _ _ _ => exact frame_fields rfl rfl (Nat.le_refl _) (Nat.le_succ _)
  | respConnected p sq ts td w' i out hfa hpf hdec hct hid hff hen =>
    have h0 : p.sequence = 0 := (hi.pend (addr, p) (NS.pendingFind_mem hpf)).seq
    refine frame_new (NS.promoted p w' s.currentTime) rfl ?_ rfl rfl rfl
    show p.sequence + 1 ≤ 1
    omega
  | newErr e hfa hpf hdec => exact Frame.refl s
  | newRequest sq v pid expire xnonce data R _ _ hfa hpf hdec hout hres =>
    obtain ⟨h1, h2, h3, h4⟩ := hcr_fields hout hres
    exact frame_fields h1 h2 h3 h4

/-- the netcode side of the glue invariant: table invariant, room for `n` increments, `L` slots, clock at `T` -/
structure NcOK (L T n : Nat) (s : NetcodeServer) : Prop where
  inv : NS.ServerInv s
  room : Room n s
  len : s.clients.length = L
  time : s.currentTime = T

theorem NcOK.mono {L T n m : Nat} {s : NetcodeServer} (h : NcOK L T n s) (hm : m ≤ n) : NcOK L T m s :=
  ⟨h.inv, h.room.mono hm, h.len, h.time⟩

theorem NcOK.step {L T n : Nat} {s s' : NetcodeServer} (h : NcOK L T (n + 1) s) (hi : NS.ServerInv s')
    (f : Frame s s') : NcOK L T n s' :=
  ⟨hi, f.room h.room, f.len.trans h.len, f.time.trans h.time⟩

/-- **`process_packet`**: any bytes from any address -/
theorem pp_ok (a : AEAD) {L T n : Nat} {s : NetcodeServer} (h : NcOK L T (n + 1) s) (addr : Addr) (buf : Bytes) :
    ∃ r s', s.processPacket a addr buf = .ok (r, s') ∧ NcOK L T n s' := by
  have hg : s.globalSequence < U64_MAX := by have := h.room.global; omega
  have hc : s.challengeSequence < U64_MAX := by have := h.room.challenge; omega
  obtain ⟨r, s', e, ho⟩ := NS.pp_spec a h.inv hg hc addr buf
  exact ⟨r, s', e, h.step (NS.ppOut_inv h.inv ho) (ppOut_frame h.inv ho)⟩

/-- **`update_client`** -/
theorem uc_ok (a : AEAD) {L T n : Nat} (hT : T + TMO_MAX_NS ≤ DURATION_MAX) {s : NetcodeServer}
    (h : NcOK L T (n + 1) s) (id : Nat) : ∃ r s', s.updateClient a id = .ok (r, s') ∧ NcOK L T n s' := by
  have hi := h.inv
  cases hf : findClientSlotById s.clients id with
  | none => exact ⟨_, _, NS.updateClient_absent a hf, h.mono (Nat.le_succ _)⟩
  | some i =>
    obtain ⟨c, hc, _, _⟩ := NS.findSlot_some hf
    rcases NS.updateClient_spec a hi hf hc with ⟨_, o, e⟩ | ⟨_, e | ⟨out, _, _, e⟩⟩ | ⟨_, hn⟩
    · exact ⟨_, _, e, h.step (hi.dropSlot i) (frame_drop rfl rfl rfl rfl)⟩
    · exact ⟨_, _, e, h.mono (Nat.le_succ _)⟩
    · exact ⟨_, _, e, h.step (NS.updateClient_inv hi e)
        (frame_set (NS.sentKeepAlive c s.currentTime) hc rfl (Nat.le_refl _) rfl rfl rfl)⟩
    · exfalso
      apply hn
      refine ⟨?_, ?_⟩
      · rw [h.time]; exact hT
      · have := h.room.seqs i c hc; omega

/-- **`disconnect`** -/
theorem dc_ok (a : AEAD) {L T n : Nat} {s : NetcodeServer} (h : NcOK L T n s) (id : Nat) :
    ∃ r s', s.disconnect a id = .ok (r, s') ∧ NcOK L T n s' := by
  rcases NS.disconnect_spec a s id with ⟨_, e⟩ | ⟨i, c, o, _, _, _, e⟩
  · exact ⟨_, _, e, h⟩
  · refine ⟨_, _, e, h.inv.dropSlot i, ⟨h.room.global, h.room.challenge, fun j c' hc' => ?_⟩, ?_, h.time⟩
    · exact h.room.seqs j c' (NS.at_set_none hc').1
    · show (s.clients.set i none).length = L
      rw [List.length_set]; exact h.len

/-- `generate_payload_packet` unwinds only on a full per-client counter -/
theorem gp_ne_panic (a : AEAD) {s : NetcodeServer} (id : Nat) (payload : Bytes)
    (hs : ∀ i c, NS.At s.clients i c → c.sequence < U64_MAX) (m : String) :
    s.generatePayloadPacket a id payload ≠ .panic m := by
  unfold NetcodeServer.generatePayloadPacket
  split
  · simp
  · cases hf : findClientSlotById s.clients id with
    | none => simp
    | some i =>
      obtain ⟨c, hc, hid, hb⟩ := NS.findSlot_some hf
      rw [hb]
      simp only
      refine NS.bind_ne_panic (NS.encode_ne_panic _ _ _ _ _ _) fun o => ?_
      rw [NS.incU64_ok _ (hs i c hc)]
      simp

/-- **`generate_payload_packet`**: an error (nothing changes) or a datagram -/
theorem gp_cases (a : AEAD) {L T n : Nat} {s : NetcodeServer} (h : NcOK L T (n + 1) s) (id : Nat) (p : Bytes) :
    (∃ e, s.generatePayloadPacket a id p = .err e) ∨
    ∃ ad dg s', s.generatePayloadPacket a id p = .ok ((ad, dg), s') ∧ NcOK L T n s' := by
  cases hgp : s.generatePayloadPacket a id p with
  | err e => exact Or.inl ⟨e, rfl⟩
  | panic m =>
    exact absurd hgp (gp_ne_panic a id p (fun i c hc => by have := h.room.seqs i c hc; omega) m)
  | ok v =>
    obtain ⟨⟨ad, dg⟩, s'⟩ := v
    obtain ⟨i, c, _, hc, _, _, _, hs'⟩ := NS.generatePayload_ok hgp
    refine Or.inr ⟨ad, dg, s', rfl, h.step (NS.generatePayload_inv h.inv hgp) ?_⟩
    rw [hs']
    exact frame_set { c with sequence := c.sequence + 1, lastPacketSendTime := s.currentTime } hc rfl (Nat.le_refl _)
      rfl rfl rfl

/-- **`NetcodeServer::update`** -/
theorem upd_ok {L n : Nat} {s : NetcodeServer} (d : Nat) (hi : NS.ServerInv s) (hr : Room n s)
    (hl : s.clients.length = L) (hd : s.currentTime + d ≤ DURATION_MAX) :
    ∃ s', s.update d = .ok s' ∧ NcOK L (s.currentTime + d) n s' := by
  obtain ⟨s', h0⟩ := NS.update_ne_panic (s := s) (d := d) hd
  have hi' := NS.update_inv hi h0
  have e0 := NS.update_ok h0
  subst e0
  exact ⟨_, h0, hi', ⟨hr.global, hr.challenge, hr.seqs⟩, hl, rfl⟩

/-! ## Part 3 : the renet side and the loops -/

/-- the renet side of the glue invariant -/
structure RnOK (P : SliceCtor → Prop) (rs : Server) : Prop where
  inv : rs.InvP P
  sorted : SL.SMap.Sorted rs.conns

theorem handle_sorted {r : ServerResult} {rs rs' : Server} {out out' : Array Dgram}
    (h : handleServerResult r rs out = .ok (rs', out')) (hs : SL.SMap.Sorted rs.conns) : SL.SMap.Sorted rs'.conns := by
  have hr := handle_renet h
  cases r with
  | none => simp only at hr; subst hr; exact hs
  | packetToSend addr p => simp only at hr; subst hr; exact hs
  | payload id p =>
    simp only at hr
    obtain ⟨ok, hp⟩ := hr
    exact (SL.Server.processPacketFrom_spec hp).2.1.sorted hs
  | clientConnected id addr ud p =>
    simp only at hr; subst hr
    unfold Server.addConnection
    split
    · exact hs
    · exact SL.SMap.sorted_insert _ _ _ hs
  | clientDisconnected id addr p =>
    simp only at hr; subst hr
    unfold Server.removeConnection
    split
    · exact hs
    · exact SL.SMap.sorted_erase _ _ hs

theorem handle_ok {P : SliceCtor → Prop} (hP : GoodP P) {rs : Server} (hr : RnOK P rs) (r : ServerResult)
    (out : Array Dgram) : ∃ rs' out', handleServerResult r rs out = .ok (rs', out') ∧ RnOK P rs' := by
  obtain ⟨rs', out', e, hi'⟩ := handle_total hP hr.inv r out
  exact ⟨rs', out', e, hi', handle_sorted e hr.sorted⟩

/-- a loop whose netcode call consumes at most one unit of an indexed netcode invariant per iteration -/
theorem handleLoop_total {P : SliceCtor → Prop} (hP : GoodP P) {α : Type}
    {f : NetcodeServer → α → Res Empty (ServerResult × NetcodeServer)} (J : Nat → NetcodeServer → Prop)
    (hf : ∀ n ns x, J (n + 1) ns → ∃ r ns', f ns x = .ok (r, ns') ∧ J n ns') :
    ∀ (l : List α) (g : ServerGlue) (out : Array Dgram) (n : Nat), J (n + l.length) g.netcode → RnOK P g.renet →
    ∃ g' out', handleLoop f g l out = .ok (g', out') ∧ J n g'.netcode ∧ RnOK P g'.renet
  | [], g, out, n, hj, hr => ⟨g, out, rfl, hj, hr⟩
  | x :: rest, g, out, n, hj, hr => by
    have hj' : J (n + rest.length + 1) g.netcode := by
      rw [List.length_cons, ← Nat.add_assoc] at hj; exact hj
    obtain ⟨r, ns', e1, j1⟩ := hf _ _ x hj'
    obtain ⟨rs', out1, e2, hr'⟩ := handle_ok hP hr r out
    obtain ⟨g', out', e3, j3, r3⟩ := handleLoop_total hP J hf rest ⟨ns', rs'⟩ out1 n j1 hr'
    refine ⟨g', out', ?_, j3, r3⟩
    simp only [handleLoop, e1, NS.bind_ok', e2]
    exact e3

/-- a loop whose netcode call preserves a netcode invariant -/
theorem handleLoop_total0 {P : SliceCtor → Prop} (hP : GoodP P) {α : Type}
    {f : NetcodeServer → α → Res Empty (ServerResult × NetcodeServer)} (J : NetcodeServer → Prop)
    (hf : ∀ ns x, J ns → ∃ r ns', f ns x = .ok (r, ns') ∧ J ns') :
    ∀ (l : List α) (g : ServerGlue) (out : Array Dgram), J g.netcode → RnOK P g.renet →
    ∃ g' out', handleLoop f g l out = .ok (g', out') ∧ J g'.netcode ∧ RnOK P g'.renet
  | [], g, out, hj, hr => ⟨g, out, rfl, hj, hr⟩
  | x :: rest, g, out, hj, hr => by
    obtain ⟨r, ns', e1, j1⟩ := hf _ x hj
    obtain ⟨rs', out1, e2, hr'⟩ := handle_ok hP hr r out
    obtain ⟨g', out', e3, j3, r3⟩ := handleLoop_total0 hP J hf rest ⟨ns', rs'⟩ out1 j1 hr'
    refine ⟨g', out', ?_, j3, r3⟩
    simp only [handleLoop, e1, NS.bind_ok', e2]
    exact e3

theorem clientsId_length_le (s : NetcodeServer) : s.clientsId.length ≤ s.clients.length := by
  unfold NetcodeServer.clientsId
  exact List.length_filterMap_le _ _

/-- **`NetcodeServerTransport::update` never unwinds**, whatever is queued at the socket.
    Hypotheses: netcode table invariant; every sequence counter has room for `n` + one increment per slot (keep-alives)
    + one per queued datagram (challenges, denials, first keep-alives); the clock after the step stays
    `TMO_MAX_NS` below `Duration::MAX`; renet invariant.  All of them hold again afterwards, with room `n`. -/
theorem serverUpdate_total {P : SliceCtor → Prop} (hP : GoodP P) (a : AEAD) {g : ServerGlue} (d : Nat)
    (inbox : List Dgram) {n : Nat} (hinv : NS.ServerInv g.netcode)
    (hroom : Room (n + g.netcode.clients.length + inbox.length) g.netcode)
    (hclock : g.netcode.currentTime + d + TMO_MAX_NS ≤ DURATION_MAX) (hr : RnOK P g.renet) :
    ∃ g' out, serverUpdate a g d inbox = .ok (g', out) ∧
      NcOK g.netcode.clients.length (g.netcode.currentTime + d) n g'.netcode ∧ RnOK P g'.renet := by
  obtain ⟨ns0, h0, k0⟩ := upd_ok d hinv hroom rfl (by omega)
  obtain ⟨g1, out1, h1, k1, r1⟩ := handleLoop_total hP (f := ppF a)
    (NcOK g.netcode.clients.length (g.netcode.currentTime + d))
    (fun _ _ x hj => pp_ok a hj x.1 x.2) inbox { g with netcode := ns0 } #[] _ k0 hr
  have k1' : NcOK g.netcode.clients.length (g.netcode.currentTime + d) (n + g1.netcode.clientsId.length) g1.netcode := by
    refine k1.mono ?_
    have := clientsId_length_le g1.netcode
    rw [k1.len] at this
    omega
  obtain ⟨g2, out2, h2, k2, r2⟩ := handleLoop_total hP (f := ucF a)
    (NcOK g.netcode.clients.length (g.netcode.currentTime + d))
    (fun _ _ x hj => uc_ok a hclock hj x) g1.netcode.clientsId g1 out1 n k1' r1
  obtain ⟨g3, out3, h3, k3, r3⟩ := handleLoop_total0 hP (f := dcF a)
    (NcOK g.netcode.clients.length (g.netcode.currentTime + d) n)
    (fun _ x hj => dc_ok a hj x) g2.renet.disconnectionsId g2 out2 k2 r2
  refine ⟨g3, out3, ?_, k3, r3⟩
  simp only [serverUpdate, recvLoop_eq, idLoop_eq, h0, NS.bind_ok']
  rw [h1]
  simp only [NS.bind_ok']
  rw [h2]
  simp only [NS.bind_ok']
  exact h3

/-- `disconnect_all` never unwinds and keeps the invariants (cf. `GI.serverDisconnectAll_total`) -/
theorem serverDisconnectAll_total' {P : SliceCtor → Prop} (hP : GoodP P) (a : AEAD) {g : ServerGlue} {L T n : Nat}
    (hk : NcOK L T n g.netcode) (hr : RnOK P g.renet) :
    ∃ g' out, serverDisconnectAll a g = .ok (g', out) ∧ NcOK L T n g'.netcode ∧ RnOK P g'.renet := by
  unfold serverDisconnectAll
  rw [idLoop_eq]
  exact handleLoop_total0 hP (f := dcF a) (NcOK L T n) (fun _ x hj => dc_ok a hj x) _ g #[] hk hr

/-- the same with the table invariant alone (no counter is touched) -/
theorem serverDisconnectAll_inv {P : SliceCtor → Prop} (hP : GoodP P) (a : AEAD) {g : ServerGlue}
    (hk : NS.ServerInv g.netcode) (hr : RnOK P g.renet) :
    ∃ g' out, serverDisconnectAll a g = .ok (g', out) ∧ NS.ServerInv g'.netcode ∧ RnOK P g'.renet := by
  unfold serverDisconnectAll
  rw [idLoop_eq]
  refine handleLoop_total0 hP (f := dcF a) NS.ServerInv (fun ns x hj => ?_) _ g #[] hk hr
  obtain ⟨r, s', e⟩ := disconnect_total a ns x
  exact ⟨r, s', e, NS.disconnect_inv hj e⟩

/-! ### `send_packets` -/

/-- number of packets `RenetClient::get_packets_to_send` returns on `c` (0 if it does not return) -/
def connPackets (c : Conn) : Nat :=
  match c.getPacketsToSend with
  | .ok (_, ps) => ps.length
  | _ => 0

def pktsOf (rs : Server) (id : Nat) : Nat :=
  match SMap.find? rs.conns id with
  | some c => connPackets c
  | none => 0

/-- the number of datagrams one `send_packets` can emit: what the connections reported connected have to send -/
def sendBudget (rs : Server) : Nat := (rs.clientsId.map (pktsOf rs)).sum

theorem sendClient_total (a : AEAD) (id : Nat) {L T : Nat} :
    ∀ (ps : List Bytes) (ns : NetcodeServer) (out : Array Dgram) (n : Nat), NcOK L T (n + ps.length) ns →
    ∃ ns' out', serverSendClient a ns id ps out = .ok (ns', out') ∧ NcOK L T n ns'
  | [], ns, out, n, h => ⟨ns, out, rfl, h⟩
  | p :: rest, ns, out, n, h => by
    have h' : NcOK L T (n + rest.length + 1) ns := by
      rw [List.length_cons, ← Nat.add_assoc] at h; exact h
    rcases gp_cases a h' id p with ⟨e, he⟩ | ⟨ad, dg, s', he, k'⟩
    · refine ⟨ns, out, ?_, h.mono (Nat.le_add_right _ _)⟩
      simp only [serverSendClient, he]
      rfl
    · obtain ⟨ns', out', e2, k2⟩ := sendClient_total a id rest s' (out.push (ad, dg)) n k'
      refine ⟨ns', out', ?_, k2⟩
      simp only [serverSendClient, he]
      exact e2

theorem renet_clientsId_nodup {rs : Server} (hs : SL.SMap.Sorted rs.conns) : rs.clientsId.Nodup := by
  unfold Server.clientsId
  have h1 : ((rs.conns.filter (·.2.isConnected)).map (·.1)).Pairwise (· < ·) :=
    List.Pairwise.sublist (List.Sublist.map _ List.filter_sublist) hs
  exact h1.imp (fun h => Nat.ne_of_lt h)

theorem sendLoop_total {P : SliceCtor → Prop} (a : AEAD) {L T : Nat} :
    ∀ (l : List Nat) (g : ServerGlue) (out : Array Dgram) (n : Nat), l.Nodup →
    (∀ id ∈ l, SMap.contains g.renet.conns id = true) →
    (∀ id ∈ l, ∀ c, SMap.find? g.renet.conns id = some c → c.CountersOK) →
    NcOK L T (n + (l.map (pktsOf g.renet)).sum) g.netcode → RnOK P g.renet →
    ∃ g' out', serverSendLoop a g l out = .ok (g', out') ∧ NcOK L T n g'.netcode ∧ RnOK P g'.renet
  | [], g, out, n, _, _, _, hk, hr => ⟨g, out, rfl, hk, hr⟩
  | id :: rest, g, out, n, hnd, hcon, hcnt, hk, hr => by
    obtain ⟨c, hf⟩ := find_of_contains (hcon id List.mem_cons_self)
    obtain ⟨ic, sc⟩ := hr.inv.find hf
    obtain ⟨c', ps, e', i', -, -⟩ := CI.getPacketsToSend_totalP ic (hcnt id List.mem_cons_self c hf)
    have hg : g.renet.getPacketsToSend id =
        .ok ({ g.renet with conns := SMap.insert g.renet.conns id c' }, some ps) := by
      unfold Server.getPacketsToSend
      rw [hf]
      simp only [e', Res.bind_ok, Res.pure_eq]
    have hp : pktsOf g.renet id = ps.length := by
      simp only [pktsOf, connPackets, hf, e']
    have hne : ∀ j ∈ rest, j ≠ id := fun j hj e => (List.nodup_cons.mp hnd).1 (e ▸ hj)
    have hoth : ∀ j ∈ rest, SMap.find? (SMap.insert g.renet.conns id c') j = SMap.find? g.renet.conns j :=
      fun j hj => SL.SMap.find?_insert_ne _ _ _ _ (hne j hj)
    have hsum : (rest.map (pktsOf { g.renet with conns := SMap.insert g.renet.conns id c' })).sum =
        (rest.map (pktsOf g.renet)).sum := by
      congr 1
      apply List.map_congr_left
      intro j hj
      simp only [pktsOf, hoth j hj]
    have hk' : NcOK L T (n + (rest.map (pktsOf g.renet)).sum + ps.length) g.netcode := by
      refine hk.mono ?_
      simp only [List.map_cons, List.sum_cons, hp]
      omega
    obtain ⟨ns1, out1, e1, k1⟩ := sendClient_total a id ps g.netcode out _ hk'
    have r1 : RnOK P { g.renet with conns := SMap.insert g.renet.conns id c' } :=
      ⟨hr.inv.setConn id i' (sc.trans (CI.getPacketsToSend_sameChansP ic e')),
       SL.SMap.sorted_insert _ _ _ hr.sorted⟩
    obtain ⟨g', out', e2, k2, r2⟩ := sendLoop_total a rest
      ⟨ns1, { g.renet with conns := SMap.insert g.renet.conns id c' }⟩ out1 n (List.nodup_cons.mp hnd).2
      (fun j hj => by
        have := hcon j (List.mem_cons_of_mem _ hj)
        unfold SMap.contains at this ⊢
        show (SMap.find? (SMap.insert g.renet.conns id c') j).isSome = true
        rw [hoth j hj]; exact this)
      (fun j hj c0 hc0 => hcnt j (List.mem_cons_of_mem _ hj) c0 (by rw [← hoth j hj]; exact hc0))
      (by rw [hsum]; exact k1) r1
    refine ⟨g', out', ?_, k2, r2⟩
    simp only [serverSendLoop, hg, NS.bind_ok', e1]
    exact e2

/-- **`NetcodeServerTransport::send_packets` never unwinds.**
    Hypotheses: netcode table invariant, slots/clock as recorded by `NcOK`; every sequence counter has room for `n` +
    the number of packets renet has to send (`sendBudget`); renet invariant; the renet wire counters of every connection
    in range (`CountersOK`: message ids and packet sequence below 2^62).  `NcOK … n` and `RnOK` hold again afterwards. -/
theorem serverSendPackets_total {P : SliceCtor → Prop} (a : AEAD) {g : ServerGlue} {L T n : Nat}
    (hk : NcOK L T (n + sendBudget g.renet) g.netcode) (hr : RnOK P g.renet)
    (hcnt : ∀ id ∈ g.renet.clientsId, ∀ c, SMap.find? g.renet.conns id = some c → c.CountersOK) :
    ∃ g' out, serverSendPackets a g = .ok (g', out) ∧ NcOK L T n g'.netcode ∧ RnOK P g'.renet :=
  sendLoop_total a g.renet.clientsId g #[] n (renet_clientsId_nodup hr.sorted)
    (fun _ hid => contains_of_mem_clientsId hid) hcnt hk hr

/-! ## Part 4 : traces -/

/-- the invariant of a server-side run, as far as "no unwinding" is concerned -/
structure TInv (P : SliceCtor → Prop) (st : GState) : Prop where
  nc : NS.ServerInv st.1.netcode
  rn : RnOK P st.1.renet

/-- clock / counter range of one glue operation in the state it is applied to -/
def opRange (st : GState) : GlueOp → Prop
  | .update d inbox =>
    st.1.netcode.currentTime + d + TMO_MAX_NS ≤ DURATION_MAX ∧
    Room (st.1.netcode.clients.length + inbox.length) st.1.netcode
  | .sendPackets =>
    Room (sendBudget st.1.renet) st.1.netcode ∧
    ∀ id ∈ st.1.renet.clientsId, ∀ c, SMap.find? st.1.renet.conns id = some c → c.CountersOK
  | .disconnectAll => True
  | .app _ => True

/-- side conditions of a run: `GI.opValid` (application calls are application calls on existing channels) and the
    ranges `opRange`, each in the state the operation is applied to -/
def TPre (a : AEAD) (st : GState) : List GlueOp → Prop
  | [] => True
  | op :: rest => opValid st op ∧ opRange st op ∧ ∀ st', op.apply a st = .ok st' → TPre a st' rest

theorem GlueOp.apply_total {P : SliceCtor → Prop} (hP : GoodP P) (a : AEAD) {st : GState} {op : GlueOp}
    (hi : TInv P st) (hv : opValid st op) (hg : opRange st op) : ∃ st', op.apply a st = .ok st' ∧ TInv P st' := by
  obtain ⟨g, popped⟩ := st
  obtain ⟨hnc, hrn⟩ := hi
  cases op with
  | update d inbox =>
    obtain ⟨h1, h2⟩ := hg
    obtain ⟨g', out, e, k, r⟩ := serverUpdate_total hP a d inbox (n := 0) hnc (by rw [Nat.zero_add]; exact h2) h1 hrn
    exact ⟨(g', popped), by simp only [GlueOp.apply, e, NS.bind_ok']; rfl, k.inv, r⟩
  | sendPackets =>
    obtain ⟨h1, h2⟩ := hg
    obtain ⟨g', out, e, k, r⟩ := serverSendPackets_total (P := P) a (g := g) (n := 0)
      ⟨hnc, by rw [Nat.zero_add]; exact h1, rfl, rfl⟩ hrn h2
    exact ⟨(g', popped), by simp only [GlueOp.apply, e, NS.bind_ok']; rfl, k.inv, r⟩
  | disconnectAll =>
    obtain ⟨g', out, e, k, r⟩ := serverDisconnectAll_inv hP a hnc hrn
    exact ⟨(g', popped), by simp only [GlueOp.apply, e, NS.bind_ok']; rfl, k, r⟩
  | app sop =>
    obtain ⟨ha, hsv⟩ := hv
    obtain ⟨st2, e, i2, _⟩ := CI.srvApply_totalP hP (st := (g.renet, popped)) hrn.inv sop hsv
    obtain ⟨q, _⟩ := appOp_quiet ha e
    exact ⟨({ g with renet := st2.1 }, st2.2), by simp only [GlueOp.apply, e, NS.bind_ok']; rfl, hnc, i2, q.sorted hrn.sorted⟩

/-- **any finite sequence of server-side calls stays `.ok`** as long as, at each step, clock and counters are in
    range for that step (`TPre`); the invariants hold at the end -/
theorem runGlue_total {P : SliceCtor → Prop} (hP : GoodP P) (a : AEAD) :
    ∀ (ops : List GlueOp) (st : GState), TInv P st → TPre a st ops → ∃ st', runGlue a st ops = .ok st' ∧ TInv P st'
  | [], st, hi, _ => ⟨st, rfl, hi⟩
  | op :: rest, st, hi, hp => by
    obtain ⟨st1, e1, i1⟩ := GlueOp.apply_total hP a hi hp.1 hp.2.1
    obtain ⟨st2, e2, i2⟩ := runGlue_total hP a rest st1 i1 (hp.2.2 st1 e1)
    refine ⟨st2, ?_, i2⟩
    simp only [runGlue, e1]
    exact e2

theorem tpre_gpre (a : AEAD) : ∀ (ops : List GlueOp) (st : GState), TPre a st ops → GPre a st ops
  | [], _, _ => trivial
  | _ :: rest, _, h => ⟨h.1, fun st' e => tpre_gpre a rest st' (h.2.2 st' e)⟩

/-- a fresh `NetcodeServerTransport` + `RenetServer` satisfies the run invariant -/
theorem tInv_fresh {P : SliceCtor → Prop} {now maxClients pid : Nat} {addrs : List Addr} {secure : Bool} {pk ck : Bytes}
    {ns : NetcodeServer} (h : NetcodeServer.new now maxClients pid addrs secure pk ck = .ok ns) (budget : Nat)
    (sc cc : List ChanCfg) : TInv P ({ netcode := ns, renet := Server.new budget sc cc }, []) :=
  ⟨(NS.new_inv h).1, CI.server_new_invP budget sc cc, SL.SMap.sorted_nil⟩

/-! ### executable checkers for the range conditions (for concrete examples) -/

def roomb (n : Nat) (s : NetcodeServer) : Bool :=
  decide (s.globalSequence + n ≤ U64_MAX) && decide (s.challengeSequence + n ≤ U64_MAX) &&
  s.clients.all fun x => match x with
    | some c => decide (c.sequence + n ≤ U64_MAX)
    | none => true

theorem room_of_b {n : Nat} {s : NetcodeServer} (h : roomb n s = true) : Room n s := by
  simp only [roomb, Bool.and_eq_true, decide_eq_true_eq, List.all_eq_true] at h
  obtain ⟨⟨h1, h2⟩, h3⟩ := h
  refine ⟨h1, h2, fun i c hc => ?_⟩
  have := h3 (some c) (NS.at_mem hc)
  simpa using this

def countersb (rs : Server) : Bool := rs.conns.all fun x => CI.countersOKb x.2

theorem counters_of_b {rs : Server} (h : countersb rs = true) :
    ∀ id c, SMap.find? rs.conns id = some c → c.CountersOK := by
  intro id c hf
  simp only [countersb, List.all_eq_true] at h
  exact CI.countersOK_of_b (h (id, c) (SMap.mem_of_find? hf))

def opRangeb (st : GState) : GlueOp → Bool
  | .update d inbox =>
    decide (st.1.netcode.currentTime + d + TMO_MAX_NS ≤ DURATION_MAX) &&
    roomb (st.1.netcode.clients.length + inbox.length) st.1.netcode
  | .sendPackets => roomb (sendBudget st.1.renet) st.1.netcode && countersb st.1.renet
  | .disconnectAll => true
  | .app _ => true

theorem opRange_of_b {st : GState} {op : GlueOp} (h : opRangeb st op = true) : opRange st op := by
  cases op with
  | update d inbox =>
    simp only [opRangeb, Bool.and_eq_true, decide_eq_true_eq] at h
    exact ⟨h.1, room_of_b h.2⟩
  | sendPackets =>
    simp only [opRangeb, Bool.and_eq_true] at h
    exact ⟨room_of_b h.1, fun id _ c hc => counters_of_b h.2 id c hc⟩
  | disconnectAll => trivial
  | app sop => trivial

def tpreb (a : AEAD) (st : GState) : List GlueOp → Bool
  | [] => true
  | op :: rest =>
    opValidb st op && opRangeb st op &&
    match op.apply a st with
    | .ok st' => tpreb a st' rest
    | _ => true

theorem tpre_of_b (a : AEAD) : ∀ (ops : List GlueOp) (st : GState), tpreb a st ops = true → TPre a st ops
  | [], _, _ => trivial
  | op :: rest, st, h => by
    simp only [tpreb, Bool.and_eq_true] at h
    refine ⟨opValid_of_b h.1.1, opRange_of_b h.1.2, fun st' e => ?_⟩
    have h2 := h.2
    rw [e] at h2
    exact tpre_of_b a rest st' h2

end RenetVerif.GlueTotal
