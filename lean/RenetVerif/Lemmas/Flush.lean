/-
  Lemmas about one `get_packets_to_send` call ("flush"): budget bookkeeping (C14), resend timing and
  genuineness of what is emitted (C15), serialised size of what is emitted (C13).
  One generalised invariant lemma per loop of the model (`slicedLoop`, `relLoop`, `unrelLoop`, `chanLoop`).
-/
import RenetVerif.Renet.Conn
import RenetVerif.Lemmas.Acks
namespace RenetVerif
open C

/-! ### message payload carried by a packet -/

/-- message payload bytes carried by one packet (what `available_bytes` is charged for) -/
def payloadBytes : Packet → Nat
  | .smallReliable _ _ msgs => (msgs.map (fun x => x.2.length)).sum
  | .smallUnreliable _ _ msgs => (msgs.map List.length).sum
  | .reliableSlice _ _ sl => sl.payload.length
  | .unreliableSlice _ _ sl => sl.payload.length
  | .ack _ _ => 0

def payloadSum (ps : List Packet) : Nat := (ps.map payloadBytes).sum

@[simp] theorem payloadSum_nil : payloadSum [] = 0 := rfl
@[simp] theorem payloadSum_append (a b : List Packet) : payloadSum (a ++ b) = payloadSum a + payloadSum b := by
  simp [payloadSum, List.sum_append]
@[simp] theorem payloadSum_cons (a : Packet) (b : List Packet) : payloadSum (a :: b) = payloadBytes a + payloadSum b := by
  simp [payloadSum]

def relSmallSum (l : List (Nat × Bytes)) : Nat := (l.map (fun x => x.2.length)).sum
def unrelSmallSum (l : List Bytes) : Nat := (l.map List.length).sum

@[simp] theorem relSmallSum_nil : relSmallSum [] = 0 := rfl
@[simp] theorem relSmallSum_append (a b : List (Nat × Bytes)) : relSmallSum (a ++ b) = relSmallSum a + relSmallSum b := by
  simp [relSmallSum, List.sum_append]
@[simp] theorem unrelSmallSum_nil : unrelSmallSum [] = 0 := rfl
@[simp] theorem unrelSmallSum_append (a b : List Bytes) : unrelSmallSum (a ++ b) = unrelSmallSum a + unrelSmallSum b := by
  simp [unrelSmallSum, List.sum_append]

/-! ### the loop bodies as named steps, and unfolding equations -/

/-- the `if let Some(last_sent) … current_time - last_sent < resend_time { continue }` test -/
def smallDue (now resend : Nat) : Option Nat → Bool
  | some t => !decide (now - t < resend)
  | none => true

theorem smallDue_iff (now resend : Nat) (ls : Option Nat) :
    smallDue now resend ls = true ↔ (ls = none ∨ ∃ t, ls = some t ∧ resend ≤ now - t) := by
  cases ls with
  | none => simp [smallDue]
  | some t => simp [smallDue]

/-- `*available_bytes -= k` -/
def charge (k : Nat) (gp : GP) : GP := { gp with avail := gp.avail - k }

/-- serialised size of one small reliable message as computed by the channel -/
def relSer (id : Nat) (m : Bytes) : Nat := m.length + varintLen m.length + varintLen id

/-- `small_messages_bytes += serialized_size; small_messages.push((message_id, message))` -/
def pushSmall (id : Nat) (m : Bytes) (gp : GP) : GP :=
  { gp with smallBytes := gp.smallBytes + relSer id m, small := gp.small ++ [(id, m)] }

/-- body of the `Small` arm once the message is accepted -/
def takeSmall (ch id : Nat) (m : Bytes) (gp : GP) : GP :=
  pushSmall id m (if gp.smallBytes + relSer id m > SLICE_SIZE then flushSmall ch (charge m.length gp) else charge m.length gp)

/-- body of the slice loop once slice `i` is accepted -/
def sliceStep (ch id : Nat) (msg : Bytes) (n i : Nat) (gp : GP) : GP :=
  { gp with
    avail := gp.avail - (sliceBytes msg n i).length,
    packets := gp.packets ++ [Packet.reliableSlice gp.seq ch ⟨id, i, n, sliceBytes msg n i⟩],
    seq := gp.seq + 1 }

theorem slicedLoop_nil (ch id now resend : Nat) (msg : Bytes) (n start : Nat) (acked : List Bool)
    (st : List (Option Nat) × Nat × GP) : slicedLoop ch id now resend msg n start acked [] st = st := by
  obtain ⟨a, b, c⟩ := st; rfl

theorem slicedLoop_cons (ch id now resend : Nat) (msg : Bytes) (n start : Nat) (acked : List Bool)
    (i0 : Nat) (rest : List Nat) (ls : List (Option Nat)) (next : Nat) (gp : GP) :
    slicedLoop ch id now resend msg n start acked (i0 :: rest) (ls, next, gp) =
      if gp.avail < SLICE_SIZE then (ls, next, gp) else
      if acked.getD ((start + i0) % n) false = true ∨ smallDue now resend (ls.getD ((start + i0) % n) none) = false then
        slicedLoop ch id now resend msg n start acked rest (ls, next, gp)
      else
        slicedLoop ch id now resend msg n start acked rest
          (ls.set ((start + i0) % n) (some now), (start + i0) % n + 1 % n, sliceStep ch id msg n ((start + i0) % n) gp) := by
  simp only [slicedLoop]
  generalize acked.getD ((start + i0) % n) false = a
  generalize ls.getD ((start + i0) % n) none = q
  by_cases h1 : gp.avail < SLICE_SIZE
  · simp only [h1, ↓reduceIte]
  · simp only [h1, ↓reduceIte]
    cases a
    · cases q with
      | none => simp [smallDue, sliceStep]
      | some t => by_cases h3 : now - t < resend <;> simp [smallDue, sliceStep, h3]
    · simp

theorem relLoop_nil (ch now resend : Nat) (gp : GP) : relLoop ch now resend [] gp = ([], gp) := rfl

theorem relLoop_small (ch now resend id : Nat) (m : Bytes) (ls : Option Nat) (rest : SMap Unacked) (gp : GP) :
    relLoop ch now resend ((id, .small m ls) :: rest) gp =
      if gp.avail < m.length ∨ smallDue now resend ls = false then
        ((id, .small m ls) :: (relLoop ch now resend rest gp).1, (relLoop ch now resend rest gp).2)
      else
        ((id, .small m (some now)) :: (relLoop ch now resend rest (takeSmall ch id m gp)).1,
         (relLoop ch now resend rest (takeSmall ch id m gp)).2) := by
  cases ls with
  | none =>
    simp only [relLoop, smallDue]
    by_cases h : gp.avail < m.length ∨ true = false
    · simp only [h, ↓reduceIte]
    · simp only [h, ↓reduceIte]; rfl
  | some t =>
    simp only [relLoop, smallDue]
    by_cases h : gp.avail < m.length ∨ (!decide (now - t < resend)) = false
    · simp only [h, ↓reduceIte]
    · simp only [h, ↓reduceIte]; rfl

theorem relLoop_sliced (ch now resend id : Nat) (m : Bytes) (n na nx : Nat) (ak : List Bool) (ls : List (Option Nat))
    (rest : SMap Unacked) (gp : GP) :
    relLoop ch now resend ((id, .sliced m n na nx ak ls) :: rest) gp =
      let r := slicedLoop ch id now resend m n nx ak (List.range n) (ls, nx, gp)
      ((id, .sliced m n na r.2.1 ak r.1) :: (relLoop ch now resend rest r.2.2).1, (relLoop ch now resend rest r.2.2).2) := by
  simp only [relLoop]

/-- the final `if !small_messages.is_empty() { push }` -/
def finishRel (ch : Nat) (g : GP) : GP := if g.small.isEmpty then g else flushSmall ch g

theorem SendRel.getPackets_eq (s : SendRel) (seq avail now : Nat) :
    s.getPackets seq avail now =
      ({ s with unacked := (relLoop s.ch now s.resend s.unacked ⟨[], [], 0, seq, avail⟩).1 },
       (finishRel s.ch (relLoop s.ch now s.resend s.unacked ⟨[], [], 0, seq, avail⟩).2).packets,
       (finishRel s.ch (relLoop s.ch now s.resend s.unacked ⟨[], [], 0, seq, avail⟩).2).seq,
       (finishRel s.ch (relLoop s.ch now s.resend s.unacked ⟨[], [], 0, seq, avail⟩).2).avail) := by
  unfold SendRel.getPackets
  cases hu : s.unacked with
  | nil => simp [relLoop_nil, finishRel]; cases s; simp_all
  | cons x xs => simp [finishRel]

/-! ### generic "relation along the loop" lemmas -/

theorem slicedLoop_rel (R : GP → GP → Prop) (hrefl : ∀ g, R g g) (htrans : ∀ a b c, R a b → R b c → R a c)
    (ch id now resend : Nat) (msg : Bytes) (n start : Nat) (acked : List Bool) :
    ∀ (l : List Nat) (ls : List (Option Nat)) (next : Nat) (gp : GP),
    (∀ g i0, i0 ∈ l → SLICE_SIZE ≤ g.avail → R g (sliceStep ch id msg n ((start + i0) % n) g)) →
    R gp (slicedLoop ch id now resend msg n start acked l (ls, next, gp)).2.2 := by
  intro l
  induction l with
  | nil => intro ls next gp _; rw [slicedLoop_nil]; exact hrefl _
  | cons i0 rest ih =>
    intro ls next gp hstep
    rw [slicedLoop_cons]
    have hstep' : ∀ g i, i ∈ rest → SLICE_SIZE ≤ g.avail → R g (sliceStep ch id msg n ((start + i) % n) g) :=
      fun g i h => hstep g i (List.mem_cons_of_mem _ h)
    split
    · exact hrefl _
    · split
      · exact ih _ _ _ hstep'
      · exact htrans _ _ _ (hstep gp i0 (List.mem_cons_self ..) (by omega)) (ih _ _ _ hstep')

theorem relLoop_rel (R : GP → GP → Prop) (hrefl : ∀ g, R g g) (htrans : ∀ a b c, R a b → R b c → R a c)
    (ch now resend : Nat) :
    ∀ (un : SMap Unacked) (gp : GP),
    (∀ g id m ls, (id, Unacked.small m ls) ∈ un → m.length ≤ g.avail → smallDue now resend ls = true →
        R g (takeSmall ch id m g)) →
    (∀ g id m n na nx ak ls, (id, Unacked.sliced m n na nx ak ls) ∈ un →
        R g (slicedLoop ch id now resend m n nx ak (List.range n) (ls, nx, g)).2.2) →
    R gp (relLoop ch now resend un gp).2 := by
  intro un
  induction un with
  | nil => intro gp _ _; exact hrefl _
  | cons x rest ih =>
    intro gp hsmall hsliced
    have hsmall' : ∀ g id m ls, (id, Unacked.small m ls) ∈ rest → m.length ≤ g.avail → smallDue now resend ls = true →
        R g (takeSmall ch id m g) := fun g id m ls h => hsmall g id m ls (List.mem_cons_of_mem _ h)
    have hsliced' : ∀ g id m n na nx ak ls, (id, Unacked.sliced m n na nx ak ls) ∈ rest →
        R g (slicedLoop ch id now resend m n nx ak (List.range n) (ls, nx, g)).2.2 :=
      fun g id m n na nx ak ls h => hsliced g id m n na nx ak ls (List.mem_cons_of_mem _ h)
    obtain ⟨id, u⟩ := x
    cases u with
    | small m ls =>
      rw [relLoop_small]
      split
      · exact ih gp hsmall' hsliced'
      · next h =>
        have h1 : m.length ≤ gp.avail := by
          have : ¬ gp.avail < m.length := fun c => h (Or.inl c)
          omega
        have h2 : smallDue now resend ls = true := by
          cases hd : smallDue now resend ls
          · exact absurd (Or.inr hd) h
          · rfl
        exact htrans _ _ _ (hsmall gp id m ls (List.mem_cons_self ..) h1 h2) (ih _ hsmall' hsliced')
    | sliced m n na nx ak ls =>
      rw [relLoop_sliced]
      exact htrans _ _ _ (hsliced gp id m n na nx ak ls (List.mem_cons_self ..)) (ih _ hsmall' hsliced')

/-! ### slices of a message -/

theorem sliceBytes_length (m : Bytes) (n i : Nat) :
    (sliceBytes m n i).length =
      min ((if i = n - 1 then m.length else (i + 1) * SLICE_SIZE) - i * SLICE_SIZE) (m.length - i * SLICE_SIZE) := by
  simp [sliceBytes]

/-- with `num_slices` large enough for the message, no slice exceeds `SLICE_SIZE` -/
theorem sliceBytes_length_le (m : Bytes) (n i : Nat) (h : m.length ≤ n * SLICE_SIZE) :
    (sliceBytes m n i).length ≤ SLICE_SIZE := by
  rw [sliceBytes_length]
  unfold SLICE_SIZE at *
  split
  · next hi => subst hi; omega
  · omega

theorem divCeil_mul_ge (a : Nat) : a ≤ divCeil a SLICE_SIZE * SLICE_SIZE := by
  unfold divCeil SLICE_SIZE; omega

theorem divCeil_pred_mul_lt (a : Nat) (h : 0 < a) : (divCeil a SLICE_SIZE - 1) * SLICE_SIZE < a := by
  unfold divCeil SLICE_SIZE; omega

theorem divCeil_pos (a : Nat) (h : 0 < a) : 0 < divCeil a SLICE_SIZE := by
  unfold divCeil SLICE_SIZE; omega

theorem divCeil_le (a : Nat) : divCeil a SLICE_SIZE ≤ a := by
  unfold divCeil SLICE_SIZE; omega

/-- every slice of a non-empty message cut into `div_ceil` slices is non-empty -/
theorem sliceBytes_length_pos (m : Bytes) (i : Nat) (h : 0 < m.length) (hi : i < divCeil m.length SLICE_SIZE) :
    0 < (sliceBytes m (divCeil m.length SLICE_SIZE) i).length := by
  rw [sliceBytes_length]
  have h1 := divCeil_pred_mul_lt m.length h
  unfold SLICE_SIZE at *
  generalize divCeil m.length 1200 = n at *
  split <;> omega

/-- the slices of a message add up to the message -/
theorem sliceBytes_sum (m : Bytes) (h : 0 < m.length) :
    ((List.range (divCeil m.length SLICE_SIZE)).map (fun i => (sliceBytes m (divCeil m.length SLICE_SIZE) i).length)).sum
      = m.length := by
  have h1 := divCeil_pred_mul_lt m.length h
  have h2 := divCeil_mul_ge m.length
  have h3 := divCeil_pos m.length h
  generalize divCeil m.length SLICE_SIZE = n at *
  obtain ⟨k, rfl⟩ : ∃ k, n = k + 1 := ⟨n - 1, by omega⟩
  have full : ∀ j, j ≤ k → ((List.range j).map (fun i => (sliceBytes m (k + 1) i).length)).sum = j * SLICE_SIZE := by
    intro j
    induction j with
    | zero => intro _; simp
    | succ j ih =>
      intro hj
      rw [List.range_succ, List.map_append, List.sum_append, ih (by omega)]
      simp only [List.map_cons, List.map_nil, List.sum_cons, List.sum_nil, sliceBytes_length]
      unfold SLICE_SIZE at *
      have : ¬ j = k + 1 - 1 := by omega
      simp only [this, ↓reduceIte]
      have : (j + 1) * 1200 ≤ k * 1200 := Nat.mul_le_mul_right _ hj
      omega
  rw [List.range_succ, List.map_append, List.sum_append, full k (Nat.le_refl _)]
  simp only [List.map_cons, List.map_nil, List.sum_cons, List.sum_nil, sliceBytes_length]
  unfold SLICE_SIZE at *
  simp at *
  omega

/-! ### reliable channel: budget bookkeeping, sequence numbers (C14) -/

/-- every sliced entry has enough slices for its message (true of `div_ceil`) -/
def SlicedFit (un : SMap Unacked) : Prop :=
  ∀ id m n na nx ak ls, (id, Unacked.sliced m n na nx ak ls) ∈ un → m.length ≤ n * SLICE_SIZE

/-- payload already packed + payload waiting in the small accumulator + what is left of the budget -/
def gpTotal (g : GP) : Nat := payloadSum g.packets + relSmallSum g.small + g.avail

theorem gpTotal_flushSmall (ch : Nat) (g : GP) : gpTotal (flushSmall ch g) = gpTotal g := by
  simp [gpTotal, flushSmall, payloadBytes, relSmallSum]

theorem gpTotal_takeSmall (ch id : Nat) (m : Bytes) (g : GP) (h : m.length ≤ g.avail) :
    gpTotal (takeSmall ch id m g) = gpTotal g := by
  unfold takeSmall
  split
  · simp [gpTotal, pushSmall, charge, flushSmall, payloadBytes, relSmallSum]; omega
  · simp [gpTotal, pushSmall, charge, relSmallSum]; omega

theorem gpTotal_sliceStep (ch id : Nat) (msg : Bytes) (n i : Nat) (g : GP) (h : (sliceBytes msg n i).length ≤ g.avail) :
    gpTotal (sliceStep ch id msg n i g) = gpTotal g := by
  simp [gpTotal, sliceStep, payloadBytes]; omega

theorem relLoop_total (ch now resend : Nat) (un : SMap Unacked) (gp : GP) (hfit : SlicedFit un) :
    gpTotal (relLoop ch now resend un gp).2 = gpTotal gp := by
  refine relLoop_rel (fun g g' => gpTotal g' = gpTotal g) (fun _ => rfl) (fun a b c h1 h2 => h2.trans h1)
    ch now resend un gp ?_ ?_
  · intro g id m ls _ h _; exact gpTotal_takeSmall ch id m g h
  · intro g id m n na nx ak ls hmem
    refine slicedLoop_rel (fun g g' => gpTotal g' = gpTotal g) (fun _ => rfl) (fun a b c h1 h2 => h2.trans h1)
      ch id now resend m n nx ak (List.range n) ls nx g ?_
    intro g i0 _ hav
    have := sliceBytes_length_le m n ((nx + i0) % n) (hfit id m n na nx ak ls hmem)
    exact gpTotal_sliceStep ch id m n _ g (by omega)

theorem gpTotal_finishRel (ch : Nat) (g : GP) : gpTotal (finishRel ch g) = gpTotal g := by
  unfold finishRel; split
  · rfl
  · exact gpTotal_flushSmall ch g

theorem finishRel_small (ch : Nat) (g : GP) : (finishRel ch g).small = [] := by
  unfold finishRel; split
  · next h => simpa using h
  · rfl

/-- C14, reliable channel: the payload of the emitted packets plus what is left is exactly the budget offered. -/
theorem SendRel.getPackets_budget {s s' : SendRel} {seq avail now seq' avail' : Nat} {ps : List Packet}
    (h : s.getPackets seq avail now = (s', ps, seq', avail')) (hfit : SlicedFit s.unacked) :
    payloadSum ps + avail' = avail := by
  rw [SendRel.getPackets_eq] at h
  simp only [Prod.mk.injEq] at h
  obtain ⟨_, rfl, _, rfl⟩ := h
  have h1 := gpTotal_finishRel s.ch (relLoop s.ch now s.resend s.unacked ⟨[], [], 0, seq, avail⟩).2
  rw [relLoop_total _ _ _ _ _ hfit] at h1
  simp only [gpTotal, finishRel_small] at h1
  simpa using h1

/-- packets carry consecutive sequence numbers starting at `seq0`, and `seq` is the next free one -/
def SeqInv (seq0 : Nat) (g : GP) : Prop :=
  g.packets.map Packet.sequence = List.range' seq0 g.packets.length ∧ g.seq = seq0 + g.packets.length

theorem SeqInv_flushSmall (seq0 ch : Nat) (g : GP) (h : SeqInv seq0 g) : SeqInv seq0 (flushSmall ch g) := by
  obtain ⟨h1, h2⟩ := h
  simp [SeqInv, flushSmall, List.range'_1_concat, h1, h2, Packet.sequence]; omega

theorem SeqInv_takeSmall (seq0 ch id : Nat) (m : Bytes) (g : GP) (h : SeqInv seq0 g) : SeqInv seq0 (takeSmall ch id m g) := by
  unfold takeSmall
  split
  · exact SeqInv_flushSmall seq0 ch _ h
  · exact h

theorem SeqInv_sliceStep (seq0 ch id : Nat) (msg : Bytes) (n i : Nat) (g : GP) (h : SeqInv seq0 g) :
    SeqInv seq0 (sliceStep ch id msg n i g) := by
  obtain ⟨h1, h2⟩ := h
  simp [SeqInv, sliceStep, List.range'_1_concat, h1, h2, Packet.sequence]; omega

theorem relLoop_seq (seq0 ch now resend : Nat) (un : SMap Unacked) (gp : GP) (h : SeqInv seq0 gp) :
    SeqInv seq0 (relLoop ch now resend un gp).2 := by
  refine relLoop_rel (fun g g' => SeqInv seq0 g → SeqInv seq0 g') (fun _ h => h) (fun a b c h1 h2 h => h2 (h1 h))
    ch now resend un gp ?_ ?_ h
  · intro g id m ls _ _ _; exact SeqInv_takeSmall seq0 ch id m g
  · intro g id m n na nx ak ls _
    refine slicedLoop_rel (fun g g' => SeqInv seq0 g → SeqInv seq0 g') (fun _ h => h) (fun a b c h1 h2 h => h2 (h1 h))
      ch id now resend m n nx ak (List.range n) ls nx g ?_
    intro g i0 _ _; exact SeqInv_sliceStep seq0 ch id m n _ g

theorem SeqInv_finishRel (seq0 ch : Nat) (g : GP) (h : SeqInv seq0 g) : SeqInv seq0 (finishRel ch g) := by
  unfold finishRel; split
  · exact h
  · exact SeqInv_flushSmall seq0 ch g h

/-- C14/C13 support: the emitted packets are numbered `seq, seq+1, …` and `seq'` is the next free number. -/
theorem SendRel.getPackets_seq {s s' : SendRel} {seq avail now seq' avail' : Nat} {ps : List Packet}
    (h : s.getPackets seq avail now = (s', ps, seq', avail')) :
    ps.map Packet.sequence = List.range' seq ps.length ∧ seq' = seq + ps.length := by
  rw [SendRel.getPackets_eq] at h
  simp only [Prod.mk.injEq] at h
  obtain ⟨_, rfl, rfl, _⟩ := h
  exact SeqInv_finishRel seq s.ch _ (relLoop_seq seq s.ch now s.resend s.unacked ⟨[], [], 0, seq, avail⟩ ⟨rfl, rfl⟩)

/-- the loop rewrites `last_sent`/`next_slice_to_send` in place: same keys, same order -/
theorem relLoop_keys (ch now resend : Nat) : ∀ (un : SMap Unacked) (gp : GP),
    SMap.keys (relLoop ch now resend un gp).1 = SMap.keys un := by
  intro un
  induction un with
  | nil => intro gp; rfl
  | cons x rest ih =>
    intro gp
    obtain ⟨id, u⟩ := x
    cases u with
    | small m ls =>
      rw [relLoop_small]
      split <;> simp [SMap.keys] <;> exact ih _
    | sliced m n na nx ak ls =>
      rw [relLoop_sliced]
      simp [SMap.keys]; exact ih _

/-- "what does not fit waits": a flush removes nothing from `unacked`, and does not touch the memory accounting. -/
theorem SendRel.getPackets_keeps {s s' : SendRel} {seq avail now seq' avail' : Nat} {ps : List Packet}
    (h : s.getPackets seq avail now = (s', ps, seq', avail')) :
    SMap.keys s'.unacked = SMap.keys s.unacked ∧ s'.mem = s.mem ∧ s'.nextId = s.nextId ∧ s'.ch = s.ch ∧
    s'.resend = s.resend ∧ s'.maxMem = s.maxMem := by
  rw [SendRel.getPackets_eq] at h
  simp only [Prod.mk.injEq] at h
  obtain ⟨rfl, _, _, _⟩ := h
  exact ⟨relLoop_keys _ _ _ _ _, rfl, rfl, rfl, rfl, rfl⟩

/-! ### unreliable channel: named steps, unfolding, generic relation lemma -/

/-- message popped and dropped: the budget cannot take it -/
def unrelDrop (m : Bytes) (g : GPU) : GPU := { g with mem := g.mem - m.length }

/-- message popped and sent as `div_ceil` slices -/
def unrelSliced (ch : Nat) (m : Bytes) (g : GPU) : GPU :=
  { g with
    mem := g.mem - m.length, avail := g.avail - m.length,
    packets := g.packets ++ unrelSlices ch g.slicedId m (divCeil m.length SLICE_SIZE)
      (List.range (divCeil m.length SLICE_SIZE)) g.seq,
    seq := g.seq + divCeil m.length SLICE_SIZE, slicedId := g.slicedId + 1 }

def flushUnrel (ch : Nat) (g : GPU) : GPU :=
  { g with packets := g.packets ++ [Packet.smallUnreliable g.seq ch g.small], small := [], smallBytes := 0, seq := g.seq + 1 }

def unrelSer (m : Bytes) : Nat := m.length + varintLen m.length

def pushUnrel (m : Bytes) (g : GPU) : GPU := { g with smallBytes := g.smallBytes + unrelSer m, small := g.small ++ [m] }

def chargeU (m : Bytes) (g : GPU) : GPU := { g with mem := g.mem - m.length, avail := g.avail - m.length }

/-- message popped and put into the small-message accumulator -/
def unrelSmall (ch : Nat) (m : Bytes) (g : GPU) : GPU :=
  pushUnrel m (if g.smallBytes + unrelSer m > SLICE_SIZE then flushUnrel ch (chargeU m g) else chargeU m g)

theorem unrelLoop_cons (ch : Nat) (m : Bytes) (rest : List Bytes) (g : GPU) :
    unrelLoop ch (m :: rest) g =
      if g.avail < m.length then unrelLoop ch rest (unrelDrop m g)
      else if m.length > SLICE_SIZE then unrelLoop ch rest (unrelSliced ch m g)
      else unrelLoop ch rest (unrelSmall ch m g) := by
  simp only [unrelLoop]
  by_cases h1 : g.avail < m.length
  · simp only [h1, ↓reduceIte]; rfl
  · simp only [h1, ↓reduceIte]
    by_cases h2 : m.length > SLICE_SIZE
    · simp only [h2, ↓reduceIte]; rfl
    · simp only [h2, ↓reduceIte]; rfl

theorem unrelLoop_rel (R : GPU → GPU → Prop) (hrefl : ∀ g, R g g) (htrans : ∀ a b c, R a b → R b c → R a c) (ch : Nat) :
    ∀ (q : List Bytes) (g : GPU),
    (∀ g m, m ∈ q → g.avail < m.length → R g (unrelDrop m g)) →
    (∀ g m, m ∈ q → m.length ≤ g.avail → SLICE_SIZE < m.length → R g (unrelSliced ch m g)) →
    (∀ g m, m ∈ q → m.length ≤ g.avail → m.length ≤ SLICE_SIZE → R g (unrelSmall ch m g)) →
    R g (unrelLoop ch q g) := by
  intro q
  induction q with
  | nil => intro g _ _ _; exact hrefl _
  | cons m rest ih =>
    intro g h1 h2 h3
    have ih' := fun g' => ih g' (fun g m hm => h1 g m (List.mem_cons_of_mem _ hm))
      (fun g m hm => h2 g m (List.mem_cons_of_mem _ hm)) (fun g m hm => h3 g m (List.mem_cons_of_mem _ hm))
    rw [unrelLoop_cons]
    split
    · next h => exact htrans _ _ _ (h1 g m (List.mem_cons_self ..) h) (ih' _)
    · split
      · next h h' => exact htrans _ _ _ (h2 g m (List.mem_cons_self ..) (by omega) (by omega)) (ih' _)
      · next h h' => exact htrans _ _ _ (h3 g m (List.mem_cons_self ..) (by omega) (by omega)) (ih' _)

/-- the final `if !small_messages.is_empty() { push }` -/
def finishUnrel (ch : Nat) (g : GPU) : GPU :=
  if g.small.isEmpty then g else
    { g with packets := g.packets ++ [Packet.smallUnreliable g.seq ch g.small], small := [], seq := g.seq + 1 }

theorem SendUnrel.getPackets_eq (s : SendUnrel) (seq avail : Nat) :
    s.getPackets seq avail =
      ({ s with queue := [],
                slicedId := (finishUnrel s.ch (unrelLoop s.ch s.queue ⟨[], [], 0, seq, avail, s.slicedId, s.mem⟩)).slicedId,
                mem := (finishUnrel s.ch (unrelLoop s.ch s.queue ⟨[], [], 0, seq, avail, s.slicedId, s.mem⟩)).mem },
       (finishUnrel s.ch (unrelLoop s.ch s.queue ⟨[], [], 0, seq, avail, s.slicedId, s.mem⟩)).packets,
       (finishUnrel s.ch (unrelLoop s.ch s.queue ⟨[], [], 0, seq, avail, s.slicedId, s.mem⟩)).seq,
       (finishUnrel s.ch (unrelLoop s.ch s.queue ⟨[], [], 0, seq, avail, s.slicedId, s.mem⟩)).avail) := by
  unfold SendUnrel.getPackets finishUnrel
  rfl

/-! ### unreliable channel: budget bookkeeping, sequence numbers, memory (C14) -/

theorem unrelSlices_length (ch id : Nat) (m : Bytes) (n : Nat) : ∀ (l : List Nat) (seq : Nat),
    (unrelSlices ch id m n l seq).length = l.length
  | [], _ => rfl
  | _ :: rest, seq => by simp [unrelSlices, unrelSlices_length ch id m n rest (seq + 1)]

theorem unrelSlices_payload (ch id : Nat) (m : Bytes) (n : Nat) : ∀ (l : List Nat) (seq : Nat),
    payloadSum (unrelSlices ch id m n l seq) = (l.map (fun i => (sliceBytes m n i).length)).sum
  | [], _ => rfl
  | _ :: rest, seq => by simp [unrelSlices, payloadBytes, unrelSlices_payload ch id m n rest (seq + 1)]

theorem unrelSlices_seq (ch id : Nat) (m : Bytes) (n : Nat) : ∀ (l : List Nat) (seq : Nat),
    (unrelSlices ch id m n l seq).map Packet.sequence = List.range' seq l.length
  | [], _ => rfl
  | _ :: rest, seq => by
    simp [unrelSlices, Packet.sequence, unrelSlices_seq ch id m n rest (seq + 1), List.range'_succ]

theorem mem_unrelSlices {ch id : Nat} {m : Bytes} {n : Nat} {p : Packet} : ∀ {l : List Nat} {seq : Nat},
    p ∈ unrelSlices ch id m n l seq → ∃ i ∈ l, ∃ sq, p = Packet.unreliableSlice sq ch ⟨id, i, n, sliceBytes m n i⟩
  | [], _, h => by simp [unrelSlices] at h
  | i :: rest, seq, h => by
    simp only [unrelSlices, List.mem_cons] at h
    rcases h with rfl | h
    · exact ⟨i, List.mem_cons_self .., seq, rfl⟩
    · obtain ⟨j, hj, sq, rfl⟩ := mem_unrelSlices h
      exact ⟨j, List.mem_cons_of_mem _ hj, sq, rfl⟩

theorem unrelSlices_complete (ch id : Nat) (m : Bytes) (n : Nat) : ∀ (l : List Nat) (seq : Nat) (i : Nat), i ∈ l →
    ∃ sq, Packet.unreliableSlice sq ch ⟨id, i, n, sliceBytes m n i⟩ ∈ unrelSlices ch id m n l seq
  | [], _, _, h => by cases h
  | j :: rest, seq, i, h => by
    simp only [List.mem_cons] at h
    rcases h with rfl | h
    · exact ⟨seq, by simp [unrelSlices]⟩
    · obtain ⟨sq, hsq⟩ := unrelSlices_complete ch id m n rest (seq + 1) i h
      exact ⟨sq, by simp [unrelSlices, hsq]⟩

def gpuTotal (g : GPU) : Nat := payloadSum g.packets + unrelSmallSum g.small + g.avail

theorem gpuTotal_unrelSliced (ch : Nat) (m : Bytes) (g : GPU) (h : m.length ≤ g.avail) (hpos : 0 < m.length) :
    gpuTotal (unrelSliced ch m g) = gpuTotal g := by
  simp only [gpuTotal, unrelSliced, payloadSum_append, unrelSlices_payload, sliceBytes_sum m hpos]
  omega

theorem gpuTotal_unrelSmall (ch : Nat) (m : Bytes) (g : GPU) (h : m.length ≤ g.avail) :
    gpuTotal (unrelSmall ch m g) = gpuTotal g := by
  unfold unrelSmall
  split
  · simp [gpuTotal, pushUnrel, chargeU, flushUnrel, payloadBytes, unrelSmallSum]; omega
  · simp [gpuTotal, pushUnrel, chargeU, unrelSmallSum]; omega

theorem unrelLoop_total (ch : Nat) (q : List Bytes) (g : GPU) : gpuTotal (unrelLoop ch q g) = gpuTotal g := by
  refine unrelLoop_rel (fun g g' => gpuTotal g' = gpuTotal g) (fun _ => rfl) (fun a b c h1 h2 => h2.trans h1) ch q g ?_ ?_ ?_
  · intro g m _ _; rfl
  · intro g m _ h1 h2; exact gpuTotal_unrelSliced ch m g h1 (by omega)
  · intro g m _ h1 _; exact gpuTotal_unrelSmall ch m g h1

theorem gpuTotal_finishUnrel (ch : Nat) (g : GPU) : gpuTotal (finishUnrel ch g) = gpuTotal g := by
  unfold finishUnrel; split
  · rfl
  · simp [gpuTotal, payloadBytes, unrelSmallSum]

theorem finishUnrel_small (ch : Nat) (g : GPU) : (finishUnrel ch g).small = [] := by
  unfold finishUnrel; split
  · next h => simpa using h
  · rfl

/-- C14, unreliable channel: payload of the emitted packets plus what is left is exactly the budget offered
    (dropped messages consume nothing). -/
theorem SendUnrel.getPackets_budget {s s' : SendUnrel} {seq avail seq' avail' : Nat} {ps : List Packet}
    (h : s.getPackets seq avail = (s', ps, seq', avail')) : payloadSum ps + avail' = avail := by
  rw [SendUnrel.getPackets_eq] at h
  simp only [Prod.mk.injEq] at h
  obtain ⟨_, rfl, _, rfl⟩ := h
  have h1 := gpuTotal_finishUnrel s.ch (unrelLoop s.ch s.queue ⟨[], [], 0, seq, avail, s.slicedId, s.mem⟩)
  rw [unrelLoop_total] at h1
  simp only [gpuTotal, finishUnrel_small] at h1
  simpa using h1

def SeqInvU (seq0 : Nat) (g : GPU) : Prop :=
  g.packets.map Packet.sequence = List.range' seq0 g.packets.length ∧ g.seq = seq0 + g.packets.length

theorem SeqInvU_flushUnrel (seq0 ch : Nat) (g : GPU) (h : SeqInvU seq0 g) : SeqInvU seq0 (flushUnrel ch g) := by
  obtain ⟨h1, h2⟩ := h
  simp [SeqInvU, flushUnrel, List.range'_1_concat, h1, h2, Packet.sequence]; omega

theorem SeqInvU_unrelSliced (seq0 ch : Nat) (m : Bytes) (g : GPU) (h : SeqInvU seq0 g) : SeqInvU seq0 (unrelSliced ch m g) := by
  obtain ⟨h1, h2⟩ := h
  refine ⟨?_, ?_⟩
  · simp only [unrelSliced, List.map_append, h1, unrelSlices_seq, List.length_append, unrelSlices_length, h2]
    rw [← List.range'_append]; simp
  · simp only [unrelSliced, List.length_append, unrelSlices_length, List.length_range, h2]; omega

theorem SeqInvU_unrelSmall (seq0 ch : Nat) (m : Bytes) (g : GPU) (h : SeqInvU seq0 g) : SeqInvU seq0 (unrelSmall ch m g) := by
  unfold unrelSmall
  split
  · exact SeqInvU_flushUnrel seq0 ch _ h
  · exact h

theorem unrelLoop_seq (seq0 ch : Nat) (q : List Bytes) (g : GPU) (h : SeqInvU seq0 g) : SeqInvU seq0 (unrelLoop ch q g) := by
  refine unrelLoop_rel (fun g g' => SeqInvU seq0 g → SeqInvU seq0 g') (fun _ h => h) (fun a b c h1 h2 h => h2 (h1 h))
    ch q g ?_ ?_ ?_ h
  · intro g m _ _ h; exact h
  · intro g m _ _ _; exact SeqInvU_unrelSliced seq0 ch m g
  · intro g m _ _ _; exact SeqInvU_unrelSmall seq0 ch m g

theorem SeqInvU_finishUnrel (seq0 ch : Nat) (g : GPU) (h : SeqInvU seq0 g) : SeqInvU seq0 (finishUnrel ch g) := by
  unfold finishUnrel; split
  · exact h
  · obtain ⟨h1, h2⟩ := h
    simp [SeqInvU, List.range'_1_concat, h1, h2, Packet.sequence]; omega

theorem SendUnrel.getPackets_seq {s s' : SendUnrel} {seq avail seq' avail' : Nat} {ps : List Packet}
    (h : s.getPackets seq avail = (s', ps, seq', avail')) :
    ps.map Packet.sequence = List.range' seq ps.length ∧ seq' = seq + ps.length := by
  rw [SendUnrel.getPackets_eq] at h
  simp only [Prod.mk.injEq] at h
  obtain ⟨_, rfl, rfl, _⟩ := h
  exact SeqInvU_finishUnrel seq s.ch _ (unrelLoop_seq seq s.ch s.queue _ ⟨rfl, rfl⟩)

theorem unrelLoop_mem (ch : Nat) : ∀ (q : List Bytes) (g : GPU), (unrelLoop ch q g).mem = g.mem - unrelSmallSum q := by
  intro q
  induction q with
  | nil => intro g; simp [unrelLoop]
  | cons m rest ih =>
    intro g
    rw [unrelLoop_cons]
    have e : unrelSmallSum (m :: rest) = m.length + unrelSmallSum rest := by simp [unrelSmallSum]
    split
    · rw [ih]; simp only [unrelDrop, e]; omega
    · split
      · rw [ih]; simp only [unrelSliced, e]; omega
      · rw [ih]; unfold unrelSmall; split <;> simp only [pushUnrel, chargeU, flushUnrel, e] <;> omega

theorem finishUnrel_mem (ch : Nat) (g : GPU) : (finishUnrel ch g).mem = g.mem := by
  unfold finishUnrel; split <;> rfl

/-- the queue is drained completely: sent or dropped, nothing waits; memory accounting returns to zero
    when it was exact before. -/
theorem SendUnrel.getPackets_drains {s s' : SendUnrel} {seq avail seq' avail' : Nat} {ps : List Packet}
    (h : s.getPackets seq avail = (s', ps, seq', avail')) :
    s'.queue = [] ∧ s'.mem = s.mem - unrelSmallSum s.queue ∧ s'.ch = s.ch ∧ s'.maxMem = s.maxMem := by
  rw [SendUnrel.getPackets_eq] at h
  simp only [Prod.mk.injEq] at h
  obtain ⟨rfl, _, _, _⟩ := h
  refine ⟨rfl, ?_, rfl, rfl⟩
  simp only [finishUnrel_mem, unrelLoop_mem]

/-! ### connection level: channels are served in configuration order from one shared budget (C14) -/

theorem SMap.find?_insert {α : Type} (m : SMap α) (k : Nat) (v : α) (k' : Nat) :
    SMap.find? (SMap.insert m k v) k' = if k = k' then some v else SMap.find? m k' := by
  induction m with
  | nil => simp [SMap.insert, SMap.find?]
  | cons x r ih =>
    obtain ⟨k0, v0⟩ := x
    simp only [SMap.insert]
    split
    · simp [SMap.find?]
    · split
      · next h1 h2 => subst h2; simp only [SMap.find?]; by_cases e : k = k' <;> simp [e]
      · next h1 h2 =>
        simp only [SMap.find?, ih]
        by_cases e : k0 = k'
        · subst e; simp [h2]
        · simp [e]

theorem relLoop_fit (ch now resend : Nat) : ∀ (un : SMap Unacked) (gp : GP), SlicedFit un →
    SlicedFit (relLoop ch now resend un gp).1 := by
  intro un
  induction un with
  | nil => intro gp h; exact h
  | cons x rest ih =>
    intro gp h
    have hrest : SlicedFit rest := fun id m n na nx ak ls hm => h id m n na nx ak ls (List.mem_cons_of_mem _ hm)
    obtain ⟨id, u⟩ := x
    cases u with
    | small m ls =>
      rw [relLoop_small]
      split
      · intro id' m' n na nx ak ls' hm
        simp only [List.mem_cons, Prod.mk.injEq, reduceCtorEq, and_false, false_or] at hm
        exact ih _ hrest id' m' n na nx ak ls' hm
      · intro id' m' n na nx ak ls' hm
        simp only [List.mem_cons, Prod.mk.injEq, reduceCtorEq, and_false, false_or] at hm
        exact ih _ hrest id' m' n na nx ak ls' hm
    | sliced m n na nx ak ls =>
      rw [relLoop_sliced]
      intro id' m' n' na' nx' ak' ls' hm
      simp only [List.mem_cons, Prod.mk.injEq, Unacked.sliced.injEq] at hm
      rcases hm with ⟨_, rfl, rfl, _⟩ | hm
      · exact h id m' n' na nx ak ls (List.mem_cons_self ..)
      · exact ih _ hrest id' m' n' na' nx' ak' ls' hm

/-- every reliable send channel satisfies `SlicedFit` -/
def RelMapFit (sr : SMap SendRel) : Prop := ∀ ch s, SMap.find? sr ch = some s → SlicedFit s.unacked

theorem RelMapFit_insert (sr : SMap SendRel) (ch : Nat) (s : SendRel) (h : RelMapFit sr) (hs : SlicedFit s.unacked) :
    RelMapFit (SMap.insert sr ch s) := by
  intro ch' s' hf
  rw [SMap.find?_insert] at hf
  split at hf
  · cases hf; exact hs
  · exact h ch' s' hf

theorem SendRel.getPackets_fit (s : SendRel) (seq avail now : Nat) (h : SlicedFit s.unacked) :
    SlicedFit (s.getPackets seq avail now).1.unacked := by
  rw [SendRel.getPackets_eq]; exact relLoop_fit _ _ _ _ _ h

theorem SendRel.getPackets_budget' (s : SendRel) (seq avail now : Nat) (hfit : SlicedFit s.unacked) :
    payloadSum (s.getPackets seq avail now).2.1 + (s.getPackets seq avail now).2.2.2 = avail :=
  SendRel.getPackets_budget (s' := (s.getPackets seq avail now).1) (seq' := (s.getPackets seq avail now).2.2.1) rfl hfit

theorem SendRel.getPackets_seq' (s : SendRel) (seq avail now : Nat) :
    (s.getPackets seq avail now).2.1.map Packet.sequence = List.range' seq (s.getPackets seq avail now).2.1.length ∧
    (s.getPackets seq avail now).2.2.1 = seq + (s.getPackets seq avail now).2.1.length :=
  SendRel.getPackets_seq (s' := (s.getPackets seq avail now).1) (avail' := (s.getPackets seq avail now).2.2.2) rfl

theorem SendUnrel.getPackets_budget' (s : SendUnrel) (seq avail : Nat) :
    payloadSum (s.getPackets seq avail).2.1 + (s.getPackets seq avail).2.2.2 = avail :=
  SendUnrel.getPackets_budget (s' := (s.getPackets seq avail).1) (seq' := (s.getPackets seq avail).2.2.1) rfl

theorem SendUnrel.getPackets_seq' (s : SendUnrel) (seq avail : Nat) :
    (s.getPackets seq avail).2.1.map Packet.sequence = List.range' seq (s.getPackets seq avail).2.1.length ∧
    (s.getPackets seq avail).2.2.1 = seq + (s.getPackets seq avail).2.1.length :=
  SendUnrel.getPackets_seq (s' := (s.getPackets seq avail).1) (avail' := (s.getPackets seq avail).2.2.2) rfl

abbrev ChanSt := SMap SendRel × SMap SendUnrel × List Packet × Nat × Nat

theorem chanLoop_rel_step (now ch : Nat) (rest : List (Bool × Nat)) (sr : SMap SendRel) (su : SMap SendUnrel)
    (pk : List Packet) (seq avail : Nat) :
    Conn.chanLoop now ((true, ch) :: rest) (sr, su, pk, seq, avail) =
      match SMap.find? sr ch with
      | none => .panic "remote_connection.rs send_reliable_channels.get_mut(channel_id).unwrap()"
      | some s => Conn.chanLoop now rest (SMap.insert sr ch (s.getPackets seq avail now).1, su,
          pk ++ (s.getPackets seq avail now).2.1, (s.getPackets seq avail now).2.2.1, (s.getPackets seq avail now).2.2.2) := by
  simp only [Conn.chanLoop]
  cases SMap.find? _ ch <;> rfl

theorem chanLoop_unrel_step (now ch : Nat) (rest : List (Bool × Nat)) (sr : SMap SendRel) (su : SMap SendUnrel)
    (pk : List Packet) (seq avail : Nat) :
    Conn.chanLoop now ((false, ch) :: rest) (sr, su, pk, seq, avail) =
      match SMap.find? su ch with
      | none => .panic "remote_connection.rs send_unreliable_channels.get_mut(channel_id).unwrap()"
      | some s => Conn.chanLoop now rest (sr, SMap.insert su ch (s.getPackets seq avail).1,
          pk ++ (s.getPackets seq avail).2.1, (s.getPackets seq avail).2.2.1, (s.getPackets seq avail).2.2.2) := by
  simp only [Conn.chanLoop]
  cases SMap.find? _ ch <;> rfl

/-- C14: whatever prefix of the channel order has been served, the packets appended so far carry exactly the
    part of the budget that is gone; numbering is consecutive. -/
theorem chanLoop_budget (now : Nat) : ∀ (order : List (Bool × Nat)) (sr : SMap SendRel) (su : SMap SendUnrel)
    (pk : List Packet) (seq avail : Nat) (sr' : SMap SendRel) (su' : SMap SendUnrel) (pk' : List Packet) (seq' avail' : Nat),
    RelMapFit sr →
    Conn.chanLoop now order (sr, su, pk, seq, avail) = .ok (sr', su', pk', seq', avail') →
    ∃ ps, pk' = pk ++ ps ∧ payloadSum ps + avail' = avail ∧ seq' = seq + ps.length ∧
      ps.map Packet.sequence = List.range' seq ps.length ∧ RelMapFit sr' := by
  intro order
  induction order with
  | nil =>
    intro sr su pk seq avail sr' su' pk' seq' avail' hfit h
    simp only [Conn.chanLoop, Res.ok.injEq, Prod.mk.injEq] at h
    obtain ⟨rfl, rfl, rfl, rfl, rfl⟩ := h
    exact ⟨[], by simp, by simp, rfl, rfl, hfit⟩
  | cons x rest ih =>
    intro sr su pk seq avail sr' su' pk' seq' avail' hfit h
    obtain ⟨rel, ch⟩ := x
    cases rel with
    | true =>
      rw [chanLoop_rel_step] at h
      split at h
      · cases h
      · next s hs =>
        have hb := SendRel.getPackets_budget' s seq avail now (hfit ch s hs)
        have hq := SendRel.getPackets_seq' s seq avail now
        obtain ⟨ps, h1, h2, h3, h4, h5⟩ := ih _ _ _ _ _ _ _ _ _ _
          (RelMapFit_insert sr ch _ hfit (SendRel.getPackets_fit s seq avail now (hfit ch s hs))) h
        refine ⟨(s.getPackets seq avail now).2.1 ++ ps, by rw [h1, List.append_assoc], ?_, ?_, ?_, h5⟩
        · rw [payloadSum_append]; omega
        · rw [List.length_append]; omega
        · rw [List.map_append, List.length_append, hq.1, h4, hq.2, ← List.range'_append]; simp
    | false =>
      rw [chanLoop_unrel_step] at h
      split at h
      · cases h
      · next s hs =>
        have hb := SendUnrel.getPackets_budget' s seq avail
        have hq := SendUnrel.getPackets_seq' s seq avail
        obtain ⟨ps, h1, h2, h3, h4, h5⟩ := ih _ _ _ _ _ _ _ _ _ _ hfit h
        refine ⟨(s.getPackets seq avail).2.1 ++ ps, by rw [h1, List.append_assoc], ?_, ?_, ?_, h5⟩
        · rw [payloadSum_append]; omega
        · rw [List.length_append]; omega
        · rw [List.map_append, List.length_append, hq.1, h4, hq.2, ← List.range'_append]; simp

theorem chanLoop_append (now : Nat) : ∀ (a b : List (Bool × Nat)) (st : ChanSt),
    Conn.chanLoop now (a ++ b) st = (Conn.chanLoop now a st >>= Conn.chanLoop now b) := by
  intro a
  induction a with
  | nil => intro b st; simp [Conn.chanLoop]
  | cons x rest ih =>
    intro b st
    obtain ⟨rel, ch⟩ := x
    obtain ⟨sr, su, pk, seq, avail⟩ := st
    cases rel with
    | true =>
      rw [List.cons_append, chanLoop_rel_step, chanLoop_rel_step]
      split
      · rfl
      · exact ih _ _
    | false =>
      rw [List.cons_append, chanLoop_unrel_step, chanLoop_unrel_step]
      split
      · rfl
      · exact ih _ _

/-! ### C15: what one slice loop does to `last_sent` and which slices it emits -/

theorem getD_set {α : Type} (l : List α) (i j : Nat) (a d : α) :
    (l.set i a).getD j d = if i = j ∧ i < l.length then a else l.getD j d := by
  simp only [List.getD_eq_getElem?_getD, List.getElem?_set]
  by_cases h : i = j
  · subst h
    by_cases h2 : i < l.length <;> simp [h2]
  · simp [h]

theorem mod_inj (start n i j : Nat) (hi : i < n) (hj : j < n) (h : (start + i) % n = (start + j) % n) : i = j := by
  rcases Nat.lt_trichotomy i j with hlt | heq | hgt
  · have := Nat.sub_mod_eq_zero_of_mod_eq h.symm
    have e : start + j - (start + i) = j - i := by omega
    rw [e, Nat.mod_eq_of_lt (by omega)] at this; omega
  · exact heq
  · have := Nat.sub_mod_eq_zero_of_mod_eq h
    have e : start + i - (start + j) = i - j := by omega
    rw [e, Nat.mod_eq_of_lt (by omega)] at this; omega

/-- a slot that was just stamped `now` can only be due again when `resend_time` is zero, and then everything is due -/
theorem smallDue_now (now resend : Nat) (x : Option Nat) (h : smallDue now resend (some now) = true) :
    smallDue now resend x = true := by
  have h0 : resend = 0 := by simp [smallDue] at h; omega
  subst h0
  cases x <;> simp [smallDue]

/-- One run of the slice loop of one message (`l` = remaining loop indices).  The new packets are slices of this
    message that were unacked and due according to the `last_sent` table the loop started with; every slot of the
    table is either untouched or was stamped `now` and its slice emitted. -/
theorem slicedLoop_spec (ch id now resend : Nat) (msg : Bytes) (n start : Nat) (acked : List Bool) :
    ∀ (l : List Nat) (ls : List (Option Nat)) (next : Nat) (gp : GP),
    ∃ suf, (slicedLoop ch id now resend msg n start acked l (ls, next, gp)).2.2.packets = gp.packets ++ suf ∧
      (slicedLoop ch id now resend msg n start acked l (ls, next, gp)).2.2.small = gp.small ∧
      (slicedLoop ch id now resend msg n start acked l (ls, next, gp)).2.2.smallBytes = gp.smallBytes ∧
      (slicedLoop ch id now resend msg n start acked l (ls, next, gp)).1.length = ls.length ∧
      (∀ p ∈ suf, ∃ sq i, p = Packet.reliableSlice sq ch ⟨id, i, n, sliceBytes msg n i⟩ ∧
          (∃ i0 ∈ l, i = (start + i0) % n) ∧ acked.getD i false = false ∧ smallDue now resend (ls.getD i none) = true ∧
          (i < ls.length → (slicedLoop ch id now resend msg n start acked l (ls, next, gp)).1.getD i none = some now)) ∧
      (∀ j, (slicedLoop ch id now resend msg n start acked l (ls, next, gp)).1.getD j none = ls.getD j none ∨
          ((slicedLoop ch id now resend msg n start acked l (ls, next, gp)).1.getD j none = some now ∧
            ∃ sq, Packet.reliableSlice sq ch ⟨id, j, n, sliceBytes msg n j⟩ ∈ suf)) := by
  intro l
  induction l with
  | nil =>
    intro ls next gp
    rw [slicedLoop_nil]
    exact ⟨[], by simp, rfl, rfl, rfl, by simp, fun j => Or.inl rfl⟩
  | cons i0 rest ih =>
    intro ls next gp
    rw [slicedLoop_cons]
    split
    · exact ⟨[], by simp, rfl, rfl, rfl, by simp, fun j => Or.inl rfl⟩
    · split
      · obtain ⟨suf, h1, h2, h3, h4, h5, h6⟩ := ih ls next gp
        refine ⟨suf, h1, h2, h3, h4, ?_, h6⟩
        intro p hp
        obtain ⟨sq, i, e1, ⟨j0, hj0, e2⟩, e3, e4, e5⟩ := h5 p hp
        exact ⟨sq, i, e1, ⟨j0, List.mem_cons_of_mem _ hj0, e2⟩, e3, e4, e5⟩
      · next hav hskip =>
        have hak : acked.getD ((start + i0) % n) false = false := by
          cases hh : acked.getD ((start + i0) % n) false
          · rfl
          · exact absurd (Or.inl hh) hskip
        have hdue : smallDue now resend (ls.getD ((start + i0) % n) none) = true := by
          cases hh : smallDue now resend (ls.getD ((start + i0) % n) none)
          · exact absurd (Or.inr hh) hskip
          · rfl
        generalize hi : (start + i0) % n = i at *
        obtain ⟨suf, h1, h2, h3, h4, h5, h6⟩ := ih (ls.set i (some now)) (i + 1 % n) (sliceStep ch id msg n i gp)
        generalize slicedLoop ch id now resend msg n start acked rest
          (ls.set i (some now), i + 1 % n, sliceStep ch id msg n i gp) = r at *
        have hfin : i < ls.length → r.1.getD i none = some now := by
          intro hlt
          rcases h6 i with h | h
          · rw [h, getD_set]; simp [hlt]
          · exact h.1
        refine ⟨Packet.reliableSlice gp.seq ch ⟨id, i, n, sliceBytes msg n i⟩ :: suf, ?_, ?_, ?_, ?_, ?_, ?_⟩
        · rw [h1]; simp [sliceStep]
        · rw [h2]; rfl
        · rw [h3]; rfl
        · rw [h4]; simp
        · intro p hp
          simp only [List.mem_cons] at hp
          rcases hp with rfl | hp
          · exact ⟨gp.seq, i, rfl, ⟨i0, List.mem_cons_self .., hi.symm⟩, hak, hdue, hfin⟩
          · obtain ⟨sq, i', e1, ⟨j0, hj0, e2⟩, e3, e4, e5⟩ := h5 p hp
            refine ⟨sq, i', e1, ⟨j0, List.mem_cons_of_mem _ hj0, e2⟩, e3, ?_, ?_⟩
            · rw [getD_set] at e4
              split at e4
              · exact smallDue_now now resend _ e4
              · exact e4
            · intro hlt; exact e5 (by simpa using hlt)
        · intro j
          rcases h6 j with h | ⟨h, sq, hsq⟩
          · rw [getD_set] at h
            split at h
            · next hc => right; obtain ⟨rfl, _⟩ := hc; exact ⟨h, gp.seq, List.mem_cons_self ..⟩
            · left; exact h
          · right; exact ⟨h, sq, List.mem_cons_of_mem _ hsq⟩

/-! ### C15: what one reliable flush does to the `unacked` map, and what it emits -/

def Packet.relMsgs : Packet → List (Nat × Bytes)
  | .smallReliable _ _ msgs => msgs
  | _ => []

/-- all small messages taken so far: already packed, or waiting in the accumulator -/
def GP.msgs (g : GP) : List (Nat × Bytes) := g.packets.flatMap Packet.relMsgs ++ g.small

theorem msgs_flushSmall (ch : Nat) (g : GP) : (flushSmall ch g).msgs = g.msgs := by
  simp [GP.msgs, flushSmall, Packet.relMsgs]

theorem msgs_takeSmall (ch id : Nat) (m : Bytes) (g : GP) : (takeSmall ch id m g).msgs = g.msgs ++ [(id, m)] := by
  unfold takeSmall
  split
  · simp [GP.msgs, pushSmall, charge, flushSmall, Packet.relMsgs]
  · simp [GP.msgs, pushSmall, charge]

theorem packets_takeSmall (ch id : Nat) (m : Bytes) (g : GP) :
    (takeSmall ch id m g).packets = g.packets ∨
    (takeSmall ch id m g).packets = g.packets ++ [Packet.smallReliable g.seq ch g.small] := by
  unfold takeSmall
  split
  · right; simp [pushSmall, charge, flushSmall]
  · left; simp [pushSmall, charge]

theorem msgs_slicedLoop (ch id now resend : Nat) (msg : Bytes) (n start : Nat) (acked : List Bool)
    (l : List Nat) (ls : List (Option Nat)) (next : Nat) (gp : GP) :
    (slicedLoop ch id now resend msg n start acked l (ls, next, gp)).2.2.msgs = gp.msgs := by
  obtain ⟨suf, h1, h2, _, _, h5, _⟩ := slicedLoop_spec ch id now resend msg n start acked l ls next gp
  have : suf.flatMap Packet.relMsgs = [] := by
    rw [List.flatMap_eq_nil_iff]
    intro p hp
    obtain ⟨sq, i, rfl, _⟩ := h5 p hp
    rfl
  simp [GP.msgs, h1, h2, this]

/-- how one flush may change one entry of `unacked`: the message and the ack state stay; a `last_sent` slot is
    either untouched, or it was due (and unacked) and is now stamped with the current time -/
def EntryStep (now resend : Nat) : Unacked → Unacked → Prop
  | .small m ls, .small m' ls' => m' = m ∧ (ls' = ls ∨ (ls' = some now ∧ smallDue now resend ls = true))
  | .sliced m n na _ ak ls, .sliced m' n' na' _ ak' ls' =>
    m' = m ∧ n' = n ∧ na' = na ∧ ak' = ak ∧ ls'.length = ls.length ∧
    ∀ j, ls'.getD j none = ls.getD j none ∨
      (ls'.getD j none = some now ∧ smallDue now resend (ls.getD j none) = true ∧ ak.getD j false = false)
  | _, _ => False

/-- entry-by-entry relation between two maps with the same keys in the same order -/
def MapStep (R : Unacked → Unacked → Prop) : SMap Unacked → SMap Unacked → Prop
  | [], [] => True
  | (k, u) :: r, (k', u') :: r' => k' = k ∧ R u u' ∧ MapStep R r r'
  | _, _ => False

theorem MapStep.find? {R : Unacked → Unacked → Prop} : ∀ {a b : SMap Unacked}, MapStep R a b → ∀ k,
    (SMap.find? a k = none ∧ SMap.find? b k = none) ∨ ∃ u u', SMap.find? a k = some u ∧ SMap.find? b k = some u' ∧ R u u'
  | [], [], _, k => Or.inl ⟨rfl, rfl⟩
  | (k0, u) :: r, (k0', u') :: r', h, k => by
    obtain ⟨rfl, h1, h2⟩ := h
    simp only [SMap.find?]
    split
    · exact Or.inr ⟨u, u', rfl, rfl, h1⟩
    · exact MapStep.find? h2 k
  | [], _ :: _, h, _ => by cases h
  | _ :: _, [], h, _ => by cases h

theorem relLoop_entries (ch now resend : Nat) : ∀ (un : SMap Unacked) (gp : GP),
    MapStep (EntryStep now resend) un (relLoop ch now resend un gp).1 := by
  intro un
  induction un with
  | nil => intro gp; trivial
  | cons x rest ih =>
    intro gp
    obtain ⟨id, u⟩ := x
    cases u with
    | small m ls =>
      rw [relLoop_small]
      split
      · exact ⟨rfl, ⟨rfl, Or.inl rfl⟩, ih _⟩
      · next h =>
        have h2 : smallDue now resend ls = true := by
          cases hd : smallDue now resend ls
          · exact absurd (Or.inr hd) h
          · rfl
        exact ⟨rfl, ⟨rfl, Or.inr ⟨rfl, h2⟩⟩, ih _⟩
    | sliced m n na nx ak ls =>
      rw [relLoop_sliced]
      obtain ⟨suf, _, _, _, h4, h5, h6⟩ := slicedLoop_spec ch id now resend m n nx ak (List.range n) ls nx gp
      refine ⟨rfl, ⟨rfl, rfl, rfl, rfl, h4, ?_⟩, ih _⟩
      intro j
      rcases h6 j with h | ⟨h, sq, hsq⟩
      · exact Or.inl h
      · obtain ⟨sq', i, e1, _, e3, e4, _⟩ := h5 _ hsq
        simp only [Packet.reliableSlice.injEq, Slice.mk.injEq] at e1
        obtain ⟨_, _, _, rfl, _⟩ := e1
        exact Or.inr ⟨h, e4, e3⟩

/-- Small messages taken by the loop: each comes from a due `Small` entry of `unacked` with exactly that id and
    payload, and that entry is stamped `now` in the resulting map. -/
theorem relLoop_small_spec (ch now resend : Nat) : ∀ (un : SMap Unacked) (gp : GP),
    ∃ more, (relLoop ch now resend un gp).2.msgs = gp.msgs ++ more ∧
      ∀ x ∈ more, ∃ ls, (x.1, Unacked.small x.2 ls) ∈ un ∧ smallDue now resend ls = true ∧
        (x.1, Unacked.small x.2 (some now)) ∈ (relLoop ch now resend un gp).1 := by
  intro un
  induction un with
  | nil => intro gp; exact ⟨[], by simp [relLoop_nil], by simp⟩
  | cons x rest ih =>
    intro gp
    obtain ⟨id, u⟩ := x
    cases u with
    | small m ls =>
      rw [relLoop_small]
      split
      · obtain ⟨more, h1, h2⟩ := ih gp
        refine ⟨more, h1, ?_⟩
        intro x hx
        obtain ⟨ls', a, b, c⟩ := h2 x hx
        exact ⟨ls', List.mem_cons_of_mem _ a, b, List.mem_cons_of_mem _ c⟩
      · next h =>
        have hdue : smallDue now resend ls = true := by
          cases hd : smallDue now resend ls
          · exact absurd (Or.inr hd) h
          · rfl
        obtain ⟨more, h1, h2⟩ := ih (takeSmall ch id m gp)
        refine ⟨(id, m) :: more, by simp only [h1, msgs_takeSmall]; simp, ?_⟩
        intro x hx
        simp only [List.mem_cons] at hx
        rcases hx with rfl | hx
        · exact ⟨ls, List.mem_cons_self .., hdue, List.mem_cons_self ..⟩
        · obtain ⟨ls', a, b, c⟩ := h2 x hx
          exact ⟨ls', List.mem_cons_of_mem _ a, b, List.mem_cons_of_mem _ c⟩
    | sliced m n na nx ak ls =>
      rw [relLoop_sliced]
      obtain ⟨more, h1, h2⟩ := ih (slicedLoop ch id now resend m n nx ak (List.range n) (ls, nx, gp)).2.2
      refine ⟨more, by simp only [h1, msgs_slicedLoop], ?_⟩
      intro x hx
      obtain ⟨ls', a, b, c⟩ := h2 x hx
      exact ⟨ls', List.mem_cons_of_mem _ a, b, List.mem_cons_of_mem _ c⟩

/-- Packets pushed by the loop: small-message packets of this channel, or slices of a `Sliced` entry of `unacked`
    that were unacked and due; the entry's slot is stamped `now` in the resulting map. -/
theorem relLoop_slice_spec (ch now resend : Nat) : ∀ (un : SMap Unacked) (gp : GP),
    ∃ suf, (relLoop ch now resend un gp).2.packets = gp.packets ++ suf ∧
      ∀ p ∈ suf, (∃ sq msgs, p = Packet.smallReliable sq ch msgs) ∨
        (∃ sq id i m n na nx ak ls nx' ls', p = Packet.reliableSlice sq ch ⟨id, i, n, sliceBytes m n i⟩ ∧
          (id, Unacked.sliced m n na nx ak ls) ∈ un ∧ i < n ∧ ak.getD i false = false ∧
          smallDue now resend (ls.getD i none) = true ∧
          (id, Unacked.sliced m n na nx' ak ls') ∈ (relLoop ch now resend un gp).1 ∧
          (i < ls.length → ls'.getD i none = some now)) := by
  intro un
  induction un with
  | nil => intro gp; exact ⟨[], by simp [relLoop_nil], by simp⟩
  | cons x rest ih =>
    intro gp
    obtain ⟨id, u⟩ := x
    have lift : ∀ {un' : SMap Unacked} {e e' : Nat × Unacked} {p : Packet},
        ((∃ sq msgs, p = Packet.smallReliable sq ch msgs) ∨
        (∃ sq id i m n na nx ak ls nx' ls', p = Packet.reliableSlice sq ch ⟨id, i, n, sliceBytes m n i⟩ ∧
          (id, Unacked.sliced m n na nx ak ls) ∈ rest ∧ i < n ∧ ak.getD i false = false ∧
          smallDue now resend (ls.getD i none) = true ∧
          (id, Unacked.sliced m n na nx' ak ls') ∈ un' ∧
          (i < ls.length → ls'.getD i none = some now))) →
        ((∃ sq msgs, p = Packet.smallReliable sq ch msgs) ∨
        (∃ sq id i m n na nx ak ls nx' ls', p = Packet.reliableSlice sq ch ⟨id, i, n, sliceBytes m n i⟩ ∧
          (id, Unacked.sliced m n na nx ak ls) ∈ e :: rest ∧ i < n ∧ ak.getD i false = false ∧
          smallDue now resend (ls.getD i none) = true ∧
          (id, Unacked.sliced m n na nx' ak ls') ∈ e' :: un' ∧
          (i < ls.length → ls'.getD i none = some now))) := by
      intro un' e e' p h
      rcases h with h | ⟨sq, id, i, m, n, na, nx, ak, ls, nx', ls', a, b, c, d, f, g, k⟩
      · exact Or.inl h
      · exact Or.inr ⟨sq, id, i, m, n, na, nx, ak, ls, nx', ls', a, List.mem_cons_of_mem _ b, c, d, f,
          List.mem_cons_of_mem _ g, k⟩
    cases u with
    | small m ls =>
      rw [relLoop_small]
      split
      · obtain ⟨suf, h1, h2⟩ := ih gp
        exact ⟨suf, h1, fun p hp => lift (h2 p hp)⟩
      · obtain ⟨suf, h1, h2⟩ := ih (takeSmall ch id m gp)
        rcases packets_takeSmall ch id m gp with hp | hp
        · exact ⟨suf, by rw [h1, hp], fun p hp => lift (h2 p hp)⟩
        · refine ⟨Packet.smallReliable gp.seq ch gp.small :: suf, by rw [h1, hp]; simp, ?_⟩
          intro p hp
          simp only [List.mem_cons] at hp
          rcases hp with rfl | hp
          · exact Or.inl ⟨_, _, rfl⟩
          · exact lift (h2 p hp)
    | sliced m n na nx ak ls =>
      rw [relLoop_sliced]
      obtain ⟨suf1, g1, _, _, g4, g5, g6⟩ := slicedLoop_spec ch id now resend m n nx ak (List.range n) ls nx gp
      obtain ⟨suf, h1, h2⟩ := ih (slicedLoop ch id now resend m n nx ak (List.range n) (ls, nx, gp)).2.2
      refine ⟨suf1 ++ suf, by rw [h1, g1, List.append_assoc], ?_⟩
      intro p hp
      simp only [List.mem_append] at hp
      rcases hp with hp | hp
      · obtain ⟨sq, i, e1, ⟨i0, hi0, e2⟩, e3, e4, e5⟩ := g5 p hp
        have hn : 0 < n := by
          have := List.mem_range.mp hi0; omega
        have hi : i < n := by rw [e2]; exact Nat.mod_lt _ hn
        exact Or.inr ⟨sq, id, i, m, n, na, nx, ak, ls, _, _, e1, List.mem_cons_self .., hi, e3, e4,
          List.mem_cons_self .., e5⟩
      · exact lift (h2 p hp)

/-! ### C15 / genuineness at the level of `SendRel.getPackets` -/

theorem SMap.mem_of_find? {α : Type} : ∀ {m : SMap α} {k : Nat} {v : α}, SMap.find? m k = some v → (k, v) ∈ m
  | [], _, _, h => by cases h
  | (k0, v0) :: r, k, v, h => by
    simp only [SMap.find?] at h
    split at h
    · next e => cases h; subst e; exact List.mem_cons_self ..
    · exact List.mem_cons_of_mem _ (SMap.mem_of_find? h)

theorem SMap.find?_of_mem_nodup {α : Type} : ∀ {m : SMap α} {k : Nat} {v : α}, (SMap.keys m).Nodup → (k, v) ∈ m →
    SMap.find? m k = some v
  | [], _, _, _, h => by cases h
  | (k0, v0) :: r, k, v, hn, h => by
    simp only [SMap.keys, List.map_cons, List.nodup_cons] at hn
    simp only [List.mem_cons, Prod.mk.injEq] at h
    simp only [SMap.find?]
    rcases h with ⟨rfl, rfl⟩ | h
    · simp
    · have : k0 ≠ k := by
        intro e; subst e
        exact hn.1 (List.mem_map.mpr ⟨(k0, v), h, rfl⟩)
      simp only [this, ↓reduceIte]
      exact SMap.find?_of_mem_nodup hn.2 h

theorem finishRel_msgs (ch : Nat) (g : GP) : (finishRel ch g).msgs = g.msgs := by
  unfold finishRel; split
  · rfl
  · exact msgs_flushSmall ch g

theorem finishRel_packets (ch : Nat) (g : GP) :
    (finishRel ch g).packets = g.packets ∨ (finishRel ch g).packets = g.packets ++ [Packet.smallReliable g.seq ch g.small] := by
  unfold finishRel; split
  · exact Or.inl rfl
  · exact Or.inr rfl

/-- Everything one reliable flush emits, described against the `unacked` map before (`s`) and after (`s'`):
    * a small-message packet of this channel: every `(id, payload)` in it is a due `Small` entry of `unacked`,
      stamped `now` afterwards;
    * a slice packet of this channel: slice `i < n` of a `Sliced` entry of `unacked`, not yet acked, due,
      stamped `now` afterwards. -/
theorem SendRel.getPackets_emitted {s s' : SendRel} {seq avail now seq' avail' : Nat} {ps : List Packet}
    (h : s.getPackets seq avail now = (s', ps, seq', avail')) :
    ∀ p ∈ ps,
      (∃ sq msgs, p = Packet.smallReliable sq s.ch msgs ∧
        ∀ x ∈ msgs, ∃ ls, (x.1, Unacked.small x.2 ls) ∈ s.unacked ∧ smallDue now s.resend ls = true ∧
          (x.1, Unacked.small x.2 (some now)) ∈ s'.unacked) ∨
      (∃ sq id i m n na nx ak ls nx' ls', p = Packet.reliableSlice sq s.ch ⟨id, i, n, sliceBytes m n i⟩ ∧
        (id, Unacked.sliced m n na nx ak ls) ∈ s.unacked ∧ i < n ∧ ak.getD i false = false ∧
        smallDue now s.resend (ls.getD i none) = true ∧
        (id, Unacked.sliced m n na nx' ak ls') ∈ s'.unacked ∧
        (i < ls.length → ls'.getD i none = some now)) := by
  rw [SendRel.getPackets_eq] at h
  simp only [Prod.mk.injEq] at h
  obtain ⟨rfl, rfl, _, _⟩ := h
  intro p hp
  obtain ⟨more, m1, m2⟩ := relLoop_small_spec s.ch now s.resend s.unacked ⟨[], [], 0, seq, avail⟩
  obtain ⟨suf, p1, p2⟩ := relLoop_slice_spec s.ch now s.resend s.unacked ⟨[], [], 0, seq, avail⟩
  have hmsgs : ∀ sq c msgs, Packet.smallReliable sq c msgs ∈
      (finishRel s.ch (relLoop s.ch now s.resend s.unacked ⟨[], [], 0, seq, avail⟩).2).packets → ∀ x ∈ msgs, x ∈ more := by
    intro sq c msgs hmem x hx
    have : x ∈ (finishRel s.ch (relLoop s.ch now s.resend s.unacked ⟨[], [], 0, seq, avail⟩).2).msgs := by
      unfold GP.msgs
      exact List.mem_append_left _ (List.mem_flatMap.mpr ⟨_, hmem, hx⟩)
    rw [finishRel_msgs, m1] at this
    simpa [GP.msgs] using this
  have hsmall : ∀ sq msgs, p = Packet.smallReliable sq s.ch msgs →
      (∃ sq msgs, p = Packet.smallReliable sq s.ch msgs ∧
        ∀ x ∈ msgs, ∃ ls, (x.1, Unacked.small x.2 ls) ∈ s.unacked ∧ smallDue now s.resend ls = true ∧
          (x.1, Unacked.small x.2 (some now)) ∈ (relLoop s.ch now s.resend s.unacked ⟨[], [], 0, seq, avail⟩).1) := by
    intro sq msgs e
    subst e
    exact ⟨sq, msgs, rfl, fun x hx => m2 x (hmsgs sq s.ch msgs hp x hx)⟩
  have hin : p ∈ suf ∨ p = Packet.smallReliable (relLoop s.ch now s.resend s.unacked ⟨[], [], 0, seq, avail⟩).2.seq s.ch
      (relLoop s.ch now s.resend s.unacked ⟨[], [], 0, seq, avail⟩).2.small := by
    rcases finishRel_packets s.ch (relLoop s.ch now s.resend s.unacked ⟨[], [], 0, seq, avail⟩).2 with e | e
    · rw [e, p1] at hp; left; simpa using hp
    · rw [e, p1] at hp; simpa using hp
  rcases hin with hin | hin
  · rcases p2 p hin with ⟨sq, msgs, e⟩ | h
    · exact Or.inl (hsmall sq msgs e)
    · exact Or.inr h
  · exact Or.inl (hsmall _ _ hin)

/-- what a packet of reliable channel `ch` may carry, relative to an `unacked` map -/
def GenuineRel (ch : Nat) (un : SMap Unacked) : Packet → Prop
  | .smallReliable _ c msgs => c = ch ∧ ∀ x ∈ msgs, ∃ ls, (x.1, Unacked.small x.2 ls) ∈ un
  | .reliableSlice _ c sl => c = ch ∧ ∃ m na nx ak ls, (sl.messageId, Unacked.sliced m sl.numSlices na nx ak ls) ∈ un ∧
      sl.sliceIndex < sl.numSlices ∧ sl.payload = sliceBytes m sl.numSlices sl.sliceIndex
  | _ => False

/-- the same with `find?` (what an ack-processing step looks up) -/
def GenuineRelFind (ch : Nat) (un : SMap Unacked) : Packet → Prop
  | .smallReliable _ c msgs => c = ch ∧ ∀ x ∈ msgs, ∃ ls, SMap.find? un x.1 = some (Unacked.small x.2 ls)
  | .reliableSlice _ c sl => c = ch ∧ ∃ m na nx ak ls, SMap.find? un sl.messageId = some (Unacked.sliced m sl.numSlices na nx ak ls) ∧
      sl.sliceIndex < sl.numSlices ∧ sl.payload = sliceBytes m sl.numSlices sl.sliceIndex
  | _ => False

theorem GenuineRel.toFind {ch : Nat} {un : SMap Unacked} (hn : (SMap.keys un).Nodup) {p : Packet} (h : GenuineRel ch un p) :
    GenuineRelFind ch un p := by
  cases p with
  | smallReliable sq c msgs =>
    refine ⟨h.1, fun x hx => ?_⟩
    obtain ⟨ls, hm⟩ := h.2 x hx
    exact ⟨ls, SMap.find?_of_mem_nodup hn hm⟩
  | reliableSlice sq c sl =>
    obtain ⟨h1, m, na, nx, ak, ls, hm, h2, h3⟩ := h
    exact ⟨h1, m, na, nx, ak, ls, SMap.find?_of_mem_nodup hn hm, h2, h3⟩
  | smallUnreliable _ _ _ => exact h
  | unreliableSlice _ _ _ => exact h
  | ack _ _ => exact h

/-- Genuineness: a reliable flush emits only small-message packets whose every `(id, payload)` is a `Small` entry of
    `unacked`, and slice packets that are slice `i < n` of a `Sliced` entry of `unacked` — nothing else.  In
    particular a message that an ack removed from `unacked` is never emitted again. -/
theorem SendRel.getPackets_genuine {s s' : SendRel} {seq avail now seq' avail' : Nat} {ps : List Packet}
    (h : s.getPackets seq avail now = (s', ps, seq', avail')) : ∀ p ∈ ps, GenuineRel s.ch s.unacked p := by
  intro p hp
  rcases SendRel.getPackets_emitted h p hp with ⟨sq, msgs, rfl, h1⟩ | ⟨sq, id, i, m, n, na, nx, ak, ls, nx', ls', rfl, h1, h2, _⟩
  · exact ⟨rfl, fun x hx => (h1 x hx).imp fun ls h => h.1⟩
  · exact ⟨rfl, m, na, nx, ak, ls, h1, h2, rfl⟩

/-- `relLoop` form of genuineness (the loop started from an empty accumulator, followed by the final flush) -/
theorem relLoop_genuine (ch now resend : Nat) (un : SMap Unacked) (seq avail : Nat) :
    ∀ p ∈ (finishRel ch (relLoop ch now resend un ⟨[], [], 0, seq, avail⟩).2).packets, GenuineRel ch un p := by
  have := SendRel.getPackets_genuine (s := ⟨ch, un, 0, resend, 0, 0⟩) (seq := seq) (avail := avail) (now := now)
    (SendRel.getPackets_eq _ seq avail now)
  exact this

/-! ### C13: exact encoded sizes -/

theorem varintLen_eq (v : Nat) : (Varint.enc v).length = varintLen v := Varint.enc_length v

theorem varintLen_le (v : Nat) : varintLen v ≤ 8 := by
  unfold varintLen Varint.len?; split
  · simp
  · split
    · simp
    · split
      · simp
      · split <;> simp

theorem varintLen_pos (v : Nat) : 1 ≤ varintLen v := by
  unfold varintLen Varint.len?; split
  · simp
  · split
    · simp
    · split
      · simp
      · split <;> simp

theorem varintLen_small (v : Nat) (h : v ≤ 16383) : varintLen v ≤ 2 := by
  unfold varintLen Varint.len?; split
  · simp
  · simp

def relSerSum (l : List (Nat × Bytes)) : Nat := (l.map (fun x => relSer x.1 x.2)).sum
def unrelSerSum (l : List Bytes) : Nat := (l.map unrelSer).sum

@[simp] theorem relSerSum_nil : relSerSum [] = 0 := rfl
@[simp] theorem relSerSum_append (a b : List (Nat × Bytes)) : relSerSum (a ++ b) = relSerSum a + relSerSum b := by
  simp [relSerSum, List.sum_append]
@[simp] theorem unrelSerSum_nil : unrelSerSum [] = 0 := rfl
@[simp] theorem unrelSerSum_append (a b : List Bytes) : unrelSerSum (a ++ b) = unrelSerSum a + unrelSerSum b := by
  simp [unrelSerSum, List.sum_append]

theorem relSerSum_ge (l : List (Nat × Bytes)) : 2 * l.length ≤ relSerSum l := by
  induction l with
  | nil => simp
  | cons x r ih =>
    have h1 := varintLen_pos x.2.length
    have h2 := varintLen_pos x.1
    simp only [relSerSum, List.map_cons, List.sum_cons, List.length_cons, relSer] at *
    omega

theorem unrelSerSum_ge (l : List Bytes) : l.length ≤ unrelSerSum l := by
  induction l with
  | nil => simp
  | cons x r ih =>
    have h1 := varintLen_pos x.length
    simp only [unrelSerSum, List.map_cons, List.sum_cons, List.length_cons, unrelSer] at *
    omega

theorem encSmallRel_len : ∀ (msgs : List (Nat × Bytes)), SmallRelWF msgs →
    ∃ b, encSmallRel msgs = .ok b ∧ b.length = relSerSum msgs
  | [], _ => ⟨[], rfl, rfl⟩
  | (id, m) :: r, h => by
    have hx := h (id, m) (by simp)
    obtain ⟨b, hb, hl⟩ := encSmallRel_len r (fun y hy => h y (by simp [hy]))
    refine ⟨Varint.enc id ++ Varint.enc m.length ++ m ++ b, ?_, ?_⟩
    · simp [encSmallRel, putVarint_ok hx.1, putVarint_ok hx.2, hb]
    · simp only [List.length_append, varintLen_eq, hl, relSerSum, List.map_cons, List.sum_cons, relSer]; omega

theorem encSmallUnrel_len : ∀ (msgs : List Bytes), SmallUnrelWF msgs →
    ∃ b, encSmallUnrel msgs = .ok b ∧ b.length = unrelSerSum msgs
  | [], _ => ⟨[], rfl, rfl⟩
  | m :: r, h => by
    have hx := h m (by simp)
    obtain ⟨b, hb, hl⟩ := encSmallUnrel_len r (fun y hy => h y (by simp [hy]))
    refine ⟨Varint.enc m.length ++ m ++ b, ?_, ?_⟩
    · simp [encSmallUnrel, putVarint_ok hx, hb]
    · simp only [List.length_append, varintLen_eq, hl, unrelSerSum, List.map_cons, List.sum_cons, unrelSer]; omega

theorem enc_smallReliable_len (seq ch : Nat) (msgs : List (Nat × Bytes)) (hs : seq ≤ Varint.MAX) (hm : SmallRelWF msgs) :
    ∃ b, (Packet.smallReliable seq ch msgs).enc = .ok b ∧ b.length = 1 + varintLen seq + 1 + 2 + relSerSum msgs := by
  obtain ⟨b, hb, hl⟩ := encSmallRel_len msgs hm
  refine ⟨[0] ++ Varint.enc seq ++ [UInt8.ofNat ch] ++ u16be msgs.length ++ b, ?_, ?_⟩
  · simp [Packet.enc, putVarint_ok hs, hb]
  · simp only [List.length_append, varintLen_eq, hl, u16be, List.length_cons, List.length_nil]

theorem enc_smallUnreliable_len (seq ch : Nat) (msgs : List Bytes) (hs : seq ≤ Varint.MAX) (hm : SmallUnrelWF msgs) :
    ∃ b, (Packet.smallUnreliable seq ch msgs).enc = .ok b ∧ b.length = 1 + varintLen seq + 1 + 2 + unrelSerSum msgs := by
  obtain ⟨b, hb, hl⟩ := encSmallUnrel_len msgs hm
  refine ⟨[1] ++ Varint.enc seq ++ [UInt8.ofNat ch] ++ u16be msgs.length ++ b, ?_, ?_⟩
  · simp [Packet.enc, putVarint_ok hs, hb]
  · simp only [List.length_append, varintLen_eq, hl, u16be, List.length_cons, List.length_nil]

def sliceEncLen (seq : Nat) (sl : Slice) : Nat :=
  1 + varintLen seq + 1 + varintLen sl.messageId + varintLen sl.sliceIndex + varintLen sl.numSlices +
    varintLen sl.payload.length + sl.payload.length

theorem encSlice_len (sl : Slice) (h1 : sl.messageId ≤ Varint.MAX) (h2 : sl.sliceIndex ≤ Varint.MAX)
    (h3 : sl.numSlices ≤ Varint.MAX) (h4 : sl.payload.length ≤ Varint.MAX) :
    ∃ b, encSlice sl = .ok b ∧ b.length = varintLen sl.messageId + varintLen sl.sliceIndex + varintLen sl.numSlices +
      varintLen sl.payload.length + sl.payload.length := by
  refine ⟨Varint.enc sl.messageId ++ Varint.enc sl.sliceIndex ++ Varint.enc sl.numSlices ++ Varint.enc sl.payload.length ++ sl.payload, ?_, ?_⟩
  · simp [encSlice, putVarint_ok h1, putVarint_ok h2, putVarint_ok h3, putVarint_ok h4]
  · simp only [List.length_append, varintLen_eq]

theorem enc_reliableSlice_len (seq ch : Nat) (sl : Slice) (hs : seq ≤ Varint.MAX) (h1 : sl.messageId ≤ Varint.MAX)
    (h2 : sl.sliceIndex ≤ Varint.MAX) (h3 : sl.numSlices ≤ Varint.MAX) (h4 : sl.payload.length ≤ Varint.MAX) :
    ∃ b, (Packet.reliableSlice seq ch sl).enc = .ok b ∧ b.length = sliceEncLen seq sl := by
  obtain ⟨b, hb, hl⟩ := encSlice_len sl h1 h2 h3 h4
  refine ⟨[2] ++ Varint.enc seq ++ [UInt8.ofNat ch] ++ b, ?_, ?_⟩
  · simp [Packet.enc, putVarint_ok hs, hb]
  · simp only [List.length_append, varintLen_eq, hl, List.length_cons, List.length_nil, sliceEncLen]; omega

theorem enc_unreliableSlice_len (seq ch : Nat) (sl : Slice) (hs : seq ≤ Varint.MAX) (h1 : sl.messageId ≤ Varint.MAX)
    (h2 : sl.sliceIndex ≤ Varint.MAX) (h3 : sl.numSlices ≤ Varint.MAX) (h4 : sl.payload.length ≤ Varint.MAX) :
    ∃ b, (Packet.unreliableSlice seq ch sl).enc = .ok b ∧ b.length = sliceEncLen seq sl := by
  obtain ⟨b, hb, hl⟩ := encSlice_len sl h1 h2 h3 h4
  refine ⟨[3] ++ Varint.enc seq ++ [UInt8.ofNat ch] ++ b, ?_, ?_⟩
  · simp [Packet.enc, putVarint_ok hs, hb]
  · simp only [List.length_append, varintLen_eq, hl, List.length_cons, List.length_nil, sliceEncLen]; omega

theorem descWF_length : ∀ (d : List AckRange) (prev : Nat), DescWF prev d → d.length ≤ prev
  | [], _, _ => Nat.zero_le _
  | (s, e) :: d, prev, hw => by
    obtain ⟨a, b, c⟩ := hw
    have := descWF_length d s c
    simp only [List.length_cons]; omega

theorem encAckRest_len : ∀ (d : List AckRange) (prev : Nat), prev ≤ Varint.MAX + 1 → DescWF prev d →
    ∃ b, encAckRest prev d = .ok b ∧ b.length ≤ 16 * d.length
  | [], _, _, _ => ⟨[], rfl, by simp⟩
  | (s, e) :: d, prev, hp, hwf => by
    obtain ⟨h1, h2, h3⟩ := hwf
    obtain ⟨b, hb, hl⟩ := encAckRest_len d s (by omega) h3
    have hgap : prev - e - 1 ≤ Varint.MAX := by omega
    have hsize : e - 1 - s ≤ Varint.MAX := by omega
    refine ⟨Varint.enc (prev - e - 1) ++ Varint.enc (e - 1 - s) ++ b, ?_, ?_⟩
    · simp only [encAckRest, Res.csub]
      have c1 : e ≤ prev := by omega
      have c2 : 1 ≤ prev - e := by omega
      have c3 : 1 ≤ e := by omega
      have c4 : s ≤ e - 1 := by omega
      simp [c1, c2, c3, c4, putVarint_ok hgap, putVarint_ok hsize, hb]
    · have a1 := varintLen_le (prev - e - 1)
      have a2 := varintLen_le (e - 1 - s)
      simp only [List.length_append, varintLen_eq, List.length_cons]; omega

/-- an encodable ack list with `k` ranges serialises into at most `1 + 8 + 8 + 8 + 8 + 16 (k - 1)` bytes -/
theorem enc_ack_len (seq : Nat) (ranges : List AckRange) (hs : seq ≤ Varint.MAX) (hw : AckWF ranges) :
    ∃ b, (Packet.ack seq ranges).enc = .ok b ∧ b.length ≤ 1 + 8 + 8 + 8 + 8 + 16 * (ranges.length - 1) := by
  obtain ⟨ls, le, d, hrev, hlt, hle, hd⟩ := hw
  obtain ⟨b, hb, hl⟩ := encAckRest_len d ls (by omega) hd
  have c1 : 1 ≤ le := by omega
  have c2 : ls ≤ le - 1 := by omega
  have hle1 : le - 1 ≤ Varint.MAX := by omega
  have hsz : le - 1 - ls ≤ Varint.MAX := by omega
  have hlen : d.length ≤ Varint.MAX := by have := descWF_length d ls hd; omega
  have hrl : ranges.length = d.length + 1 := by
    have := congrArg List.length hrev
    simpa using this
  refine ⟨[4] ++ Varint.enc seq ++ Varint.enc (le - 1) ++ Varint.enc (le - 1 - ls) ++ Varint.enc d.length ++ b, ?_, ?_⟩
  · simp [Packet.enc, putVarint_ok hs, hrev, Res.csub, c1, c2, putVarint_ok hle1, putVarint_ok hsz, putVarint_ok hlen, hb]
  · have a1 := varintLen_le seq
    have a2 := varintLen_le (le - 1)
    have a3 := varintLen_le (le - 1 - ls)
    have a4 := varintLen_le d.length
    simp only [List.length_append, varintLen_eq, List.length_cons, List.length_nil, hrl]; omega

/-! ### C13: sizes of what a reliable flush emits -/

/-- well-formedness of one `unacked` entry as `send_message` creates it (`m.length ≤ 2^62-1` stands for "the length
    is a machine integer the wire format can carry") -/
def Unacked.WF : Unacked → Prop
  | .small m _ => m.length ≤ SLICE_SIZE
  | .sliced m n _ _ ak ls =>
    n = divCeil m.length SLICE_SIZE ∧ 0 < m.length ∧ m.length ≤ Varint.MAX ∧ ak.length = n ∧ ls.length = n

structure SendRel.WF (s : SendRel) : Prop where
  nodup : (SMap.keys s.unacked).Nodup
  ids : ∀ id u, (id, u) ∈ s.unacked → id < s.nextId
  entries : ∀ id u, (id, u) ∈ s.unacked → u.WF

theorem SendRel.WF.fit {s : SendRel} (h : s.WF) : SlicedFit s.unacked := by
  intro id m n na nx ak ls hm
  obtain ⟨rfl, _⟩ := h.entries _ _ hm
  exact divCeil_mul_ge _

/-- the small-message accumulator tracks the serialised size exactly and never exceeds `SLICE_SIZE + 10` -/
def SmallAcc (g : GP) : Prop :=
  g.smallBytes = relSerSum g.small ∧ g.smallBytes ≤ SLICE_SIZE + 10 ∧
  ∀ p ∈ g.packets, ∀ sq c msgs, p = Packet.smallReliable sq c msgs → relSerSum msgs ≤ SLICE_SIZE + 10

theorem SmallAcc_flushSmall (ch : Nat) (g : GP) (h : SmallAcc g) : SmallAcc (flushSmall ch g) := by
  obtain ⟨h1, h2, h3⟩ := h
  refine ⟨rfl, by simp [flushSmall], ?_⟩
  intro p hp sq c msgs e
  simp only [flushSmall, List.mem_append, List.mem_singleton] at hp
  rcases hp with hp | hp
  · exact h3 p hp sq c msgs e
  · rw [hp] at e; cases e; omega

theorem relSer_le (id : Nat) (m : Bytes) (h : m.length ≤ SLICE_SIZE) : relSer id m ≤ SLICE_SIZE + 10 := by
  have h1 := varintLen_small m.length (by unfold SLICE_SIZE at h; omega)
  have h2 := varintLen_le id
  unfold relSer; omega

theorem SmallAcc_takeSmall (ch id : Nat) (m : Bytes) (g : GP) (hm : m.length ≤ SLICE_SIZE) (h : SmallAcc g) :
    SmallAcc (takeSmall ch id m g) := by
  have hser := relSer_le id m hm
  unfold takeSmall
  split
  · obtain ⟨h1, h2, h3⟩ := SmallAcc_flushSmall ch (charge m.length g) h
    refine ⟨?_, ?_, h3⟩
    · simp only [pushSmall, relSerSum_append, h1]; simp [relSerSum]
    · simp only [pushSmall, flushSmall]; omega
  · next hc =>
    obtain ⟨h1, h2, h3⟩ := h
    refine ⟨?_, ?_, h3⟩
    · simp only [pushSmall, charge, relSerSum_append, h1]; simp [relSerSum]
    · simp only [pushSmall, charge] at *; omega

theorem SmallAcc_sliceStep (ch id : Nat) (msg : Bytes) (n i : Nat) (g : GP) (h : SmallAcc g) :
    SmallAcc (sliceStep ch id msg n i g) := by
  obtain ⟨h1, h2, h3⟩ := h
  refine ⟨h1, h2, ?_⟩
  intro p hp sq c msgs e
  simp only [sliceStep, List.mem_append, List.mem_singleton] at hp
  rcases hp with hp | hp
  · exact h3 p hp sq c msgs e
  · rw [hp] at e; cases e

theorem relLoop_smallAcc (ch now resend : Nat) (un : SMap Unacked) (gp : GP)
    (hun : ∀ id m ls, (id, Unacked.small m ls) ∈ un → m.length ≤ SLICE_SIZE) (h : SmallAcc gp) :
    SmallAcc (relLoop ch now resend un gp).2 := by
  refine relLoop_rel (fun g g' => SmallAcc g → SmallAcc g') (fun _ h => h) (fun a b c h1 h2 h => h2 (h1 h))
    ch now resend un gp ?_ ?_ h
  · intro g id m ls hm _ _; exact SmallAcc_takeSmall ch id m g (hun id m ls hm)
  · intro g id m n na nx ak ls _
    refine slicedLoop_rel (fun g g' => SmallAcc g → SmallAcc g') (fun _ h => h) (fun a b c h1 h2 h => h2 (h1 h))
      ch id now resend m n nx ak (List.range n) ls nx g ?_
    intro g i0 _ _; exact SmallAcc_sliceStep ch id m n _ g

theorem SmallAcc_finishRel (ch : Nat) (g : GP) (h : SmallAcc g) : SmallAcc (finishRel ch g) := by
  unfold finishRel; split
  · exact h
  · exact SmallAcc_flushSmall ch g h

theorem mem_range'_lt {x s n : Nat} (h : x ∈ List.range' s n) : x < s + n := by
  have := List.mem_range'_1.mp h; omega

/-- every packet of a flush is numbered below the returned next sequence number -/
theorem SendRel.getPackets_seq_lt {s s' : SendRel} {seq avail now seq' avail' : Nat} {ps : List Packet}
    (h : s.getPackets seq avail now = (s', ps, seq', avail')) : ∀ p ∈ ps, p.sequence < seq' := by
  obtain ⟨h1, h2⟩ := SendRel.getPackets_seq h
  intro p hp
  have : p.sequence ∈ ps.map Packet.sequence := List.mem_map.mpr ⟨p, hp, rfl⟩
  rw [h1] at this
  have := mem_range'_lt this
  omega

def smallPacketBound : Nat := 12 + SLICE_SIZE + 10
def slicePacketBound : Nat := 1 + 8 + 1 + 8 + 8 + 8 + 2 + SLICE_SIZE

/-- C13, reliable channel: with counters in varint range, every packet of a flush encodes without panic; a
    small-message packet takes at most `12 + SLICE_SIZE + 10` bytes, a slice packet at most
    `1 + 8 + 1 + 8 + 8 + 8 + 2 + SLICE_SIZE`. -/
theorem SendRel.getPackets_sizes {s s' : SendRel} {seq avail now seq' avail' : Nat} {ps : List Packet}
    (h : s.getPackets seq avail now = (s', ps, seq', avail')) (hwf : s.WF)
    (hid : s.nextId ≤ Varint.MAX + 1) (hseq : seq' ≤ Varint.MAX + 1) :
    ∀ p ∈ ps, ∃ b, p.enc = .ok b ∧
      ((∃ sq msgs, p = Packet.smallReliable sq s.ch msgs ∧ b.length ≤ smallPacketBound) ∨
       (∃ sq sl, p = Packet.reliableSlice sq s.ch sl ∧ b.length ≤ slicePacketBound)) := by
  intro p hp
  have hsq := SendRel.getPackets_seq_lt h p hp
  have hem := SendRel.getPackets_emitted h p hp
  have hacc : ∀ sq c msgs, p = Packet.smallReliable sq c msgs → relSerSum msgs ≤ SLICE_SIZE + 10 := by
    have h' := h
    rw [SendRel.getPackets_eq] at h'
    simp only [Prod.mk.injEq] at h'
    obtain ⟨_, rfl, _, _⟩ := h'
    have := SmallAcc_finishRel s.ch _ (relLoop_smallAcc s.ch now s.resend s.unacked ⟨[], [], 0, seq, avail⟩
      (fun id m ls hm => hwf.entries _ _ hm) ⟨rfl, by simp, by simp⟩)
    exact this.2.2 p hp
  rcases hem with ⟨sq, msgs, rfl, h1⟩ | ⟨sq, id, i, m, n, na, nx, ak, ls, nx', ls', rfl, h1, h2, _⟩
  · have hsq' : sq ≤ Varint.MAX := by simp only [Packet.sequence] at hsq; omega
    have hm : SmallRelWF msgs := by
      intro x hx
      obtain ⟨ls, hmem, _⟩ := h1 x hx
      have a := hwf.ids _ _ hmem
      have b : x.2.length ≤ SLICE_SIZE := hwf.entries _ _ hmem
      unfold SLICE_SIZE at b; unfold Varint.MAX at *
      exact ⟨by omega, by omega⟩
    obtain ⟨b, hb, hl⟩ := enc_smallReliable_len sq s.ch msgs hsq' hm
    refine ⟨b, hb, Or.inl ⟨sq, msgs, rfl, ?_⟩⟩
    have := hacc sq s.ch msgs rfl
    have := varintLen_le sq
    unfold smallPacketBound; omega
  · have hsq' : sq ≤ Varint.MAX := by simp only [Packet.sequence] at hsq; omega
    have a := hwf.ids _ _ h1
    obtain ⟨hn, hpos, hmax, _, _⟩ := hwf.entries _ _ h1
    have hle := sliceBytes_length_le m n i (by rw [hn]; exact divCeil_mul_ge _)
    have hnle : n ≤ m.length := by rw [hn]; exact divCeil_le _
    obtain ⟨b, hb, hl⟩ := enc_reliableSlice_len sq s.ch ⟨id, i, n, sliceBytes m n i⟩ hsq' (by simp only; omega)
      (by simp only; omega) (by simp only; omega) (by simp only; unfold SLICE_SIZE at hle; unfold Varint.MAX; omega)
    refine ⟨b, hb, Or.inr ⟨sq, _, rfl, ?_⟩⟩
    have b1 := varintLen_le sq
    have b2 := varintLen_le id
    have b3 := varintLen_le i
    have b4 := varintLen_le n
    have b5 := varintLen_small (sliceBytes m n i).length (by unfold SLICE_SIZE at hle; omega)
    rw [hl]; unfold sliceEncLen slicePacketBound; simp only; omega

/-- … and, when no message needs more than `MAX_NUM_SLICES` slices (1.2 GB), every packet of a reliable flush is
    well-formed in the sense of the round-trip theorem (C16): the receiver decodes exactly what was sent. -/
theorem SendRel.getPackets_wf {s s' : SendRel} {seq avail now seq' avail' : Nat} {ps : List Packet}
    (h : s.getPackets seq avail now = (s', ps, seq', avail')) (hwf : s.WF) (hch : s.ch < 256)
    (hid : s.nextId ≤ Varint.MAX + 1) (hseq : seq' ≤ Varint.MAX + 1)
    (hbig : ∀ id m n na nx ak ls, (id, Unacked.sliced m n na nx ak ls) ∈ s.unacked → n ≤ MAX_NUM_SLICES) :
    ∀ p ∈ ps, p.WF := by
  intro p hp
  have hsq := SendRel.getPackets_seq_lt h p hp
  have hacc : ∀ sq c msgs, p = Packet.smallReliable sq c msgs → relSerSum msgs ≤ SLICE_SIZE + 10 := by
    have h' := h
    rw [SendRel.getPackets_eq] at h'
    simp only [Prod.mk.injEq] at h'
    obtain ⟨_, rfl, _, _⟩ := h'
    have := SmallAcc_finishRel s.ch _ (relLoop_smallAcc s.ch now s.resend s.unacked ⟨[], [], 0, seq, avail⟩
      (fun id m ls hm => hwf.entries _ _ hm) ⟨rfl, by simp, by simp⟩)
    exact this.2.2 p hp
  rcases SendRel.getPackets_emitted h p hp with ⟨sq, msgs, rfl, h1⟩ | ⟨sq, id, i, m, n, na, nx, ak, ls, nx', ls', rfl, h1, h2, _⟩
  · have hsq' : sq ≤ Varint.MAX := by simp only [Packet.sequence] at hsq; omega
    refine ⟨hsq', hch, ?_, ?_⟩
    · have := hacc sq s.ch msgs rfl
      have := relSerSum_ge msgs
      unfold SLICE_SIZE at *; omega
    · intro x hx
      obtain ⟨ls, hmem, _⟩ := h1 x hx
      have a := hwf.ids _ _ hmem
      have b : x.2.length ≤ SLICE_SIZE := hwf.entries _ _ hmem
      unfold SLICE_SIZE at b; unfold Varint.MAX at *
      exact ⟨by omega, by omega⟩
  · have hsq' : sq ≤ Varint.MAX := by simp only [Packet.sequence] at hsq; omega
    have a := hwf.ids _ _ h1
    obtain ⟨hn, hpos, hmax, _, _⟩ := hwf.entries _ _ h1
    have hle := sliceBytes_length_le m n i (by rw [hn]; exact divCeil_mul_ge _)
    have hnle : n ≤ m.length := by rw [hn]; exact divCeil_le _
    have hp1 : 0 < (sliceBytes m n i).length := by
      subst hn; exact sliceBytes_length_pos m i hpos h2
    exact ⟨hsq', hch, by simp only; omega, by simp only; omega, by simp only; omega,
      hbig id m n na nx ak ls h1, hp1, hle⟩

/-! ### unreliable channel: what is emitted (C14 "dropped whole", C15-style genuineness) and sizes (C13) -/

def UnrelPktOK (ch : Nat) (q : List Bytes) (sid0 sid : Nat) (all : List Packet) : Packet → Prop
  | .smallUnreliable _ c msgs => c = ch ∧ unrelSerSum msgs ≤ SLICE_SIZE + 2 ∧ ∀ x ∈ msgs, x ∈ q ∧ x.length ≤ SLICE_SIZE
  | .unreliableSlice _ c sl => c = ch ∧ sid0 ≤ sl.messageId ∧ sl.messageId < sid ∧
      ∃ m ∈ q, SLICE_SIZE < m.length ∧ sl.numSlices = divCeil m.length SLICE_SIZE ∧ sl.sliceIndex < sl.numSlices ∧
        sl.payload = sliceBytes m sl.numSlices sl.sliceIndex ∧
        ∀ j, j < sl.numSlices →
          ∃ sq, Packet.unreliableSlice sq ch ⟨sl.messageId, j, sl.numSlices, sliceBytes m sl.numSlices j⟩ ∈ all
  | _ => False

theorem UnrelPktOK.mono {ch : Nat} {q : List Bytes} {sid0 sid sid' : Nat} {all all' : List Packet} {p : Packet}
    (h : UnrelPktOK ch q sid0 sid all p) (hs : sid ≤ sid') (ha : ∀ x ∈ all, x ∈ all') : UnrelPktOK ch q sid0 sid' all' p := by
  cases p with
  | smallUnreliable sq c msgs => exact h
  | unreliableSlice sq c sl =>
    obtain ⟨h1, h2, h3, m, hm, h4, h5, h6, h7, h8⟩ := h
    refine ⟨h1, h2, by omega, m, hm, h4, h5, h6, h7, ?_⟩
    intro j hj
    obtain ⟨sq', hsq⟩ := h8 j hj
    exact ⟨sq', ha _ hsq⟩
  | smallReliable _ _ _ => exact h
  | reliableSlice _ _ _ => exact h
  | ack _ _ => exact h

def UnrelInv (ch : Nat) (q : List Bytes) (sid0 : Nat) (g : GPU) : Prop :=
  g.smallBytes = unrelSerSum g.small ∧ g.smallBytes ≤ SLICE_SIZE + 2 ∧ (∀ x ∈ g.small, x ∈ q ∧ x.length ≤ SLICE_SIZE) ∧
  sid0 ≤ g.slicedId ∧ ∀ p ∈ g.packets, UnrelPktOK ch q sid0 g.slicedId g.packets p

theorem UnrelInv_flushUnrel (ch : Nat) (q : List Bytes) (sid0 : Nat) (g : GPU) (h : UnrelInv ch q sid0 g) :
    UnrelInv ch q sid0 (flushUnrel ch g) := by
  obtain ⟨h1, h2, h3, h4, h5⟩ := h
  refine ⟨rfl, by simp [flushUnrel], by simp [flushUnrel], h4, ?_⟩
  intro p hp
  simp only [flushUnrel, List.mem_append, List.mem_singleton] at hp
  rcases hp with hp | rfl
  · exact (h5 p hp).mono (Nat.le_refl _) (fun x hx => List.mem_append_left _ hx)
  · exact ⟨rfl, by omega, h3⟩

theorem unrelSer_le (m : Bytes) (h : m.length ≤ SLICE_SIZE) : unrelSer m ≤ SLICE_SIZE + 2 := by
  have h1 := varintLen_small m.length (by unfold SLICE_SIZE at h; omega)
  unfold unrelSer; omega

theorem UnrelInv_unrelSmall (ch : Nat) (q : List Bytes) (sid0 : Nat) (m : Bytes) (g : GPU) (hq : m ∈ q)
    (hm : m.length ≤ SLICE_SIZE) (h : UnrelInv ch q sid0 g) : UnrelInv ch q sid0 (unrelSmall ch m g) := by
  have hser := unrelSer_le m hm
  have hc : UnrelInv ch q sid0 (chargeU m g) := h
  unfold unrelSmall
  split
  · obtain ⟨h1, h2, h3, h4, h5⟩ := UnrelInv_flushUnrel ch q sid0 (chargeU m g) hc
    refine ⟨?_, ?_, ?_, h4, h5⟩
    · simp only [pushUnrel, unrelSerSum_append, h1]; simp [unrelSerSum]
    · simp only [pushUnrel, flushUnrel]; omega
    · intro x hx
      simp only [pushUnrel, List.mem_append, List.mem_singleton] at hx
      rcases hx with hx | rfl
      · exact h3 x hx
      · exact ⟨hq, hm⟩
  · next hcnd =>
    obtain ⟨h1, h2, h3, h4, h5⟩ := hc
    refine ⟨?_, ?_, ?_, h4, h5⟩
    · simp only [pushUnrel, unrelSerSum_append, h1]; simp [unrelSerSum]
    · simp only [pushUnrel, chargeU] at *; omega
    · intro x hx
      simp only [pushUnrel, List.mem_append, List.mem_singleton] at hx
      rcases hx with hx | rfl
      · exact h3 x hx
      · exact ⟨hq, hm⟩

theorem UnrelInv_unrelSliced (ch : Nat) (q : List Bytes) (sid0 : Nat) (m : Bytes) (g : GPU) (hq : m ∈ q)
    (hm : SLICE_SIZE < m.length) (h : UnrelInv ch q sid0 g) : UnrelInv ch q sid0 (unrelSliced ch m g) := by
  obtain ⟨h1, h2, h3, h4, h5⟩ := h
  refine ⟨h1, h2, h3, by simp only [unrelSliced]; omega, ?_⟩
  intro p hp
  simp only [unrelSliced, List.mem_append] at hp
  rcases hp with hp | hp
  · exact (h5 p hp).mono (by simp only [unrelSliced]; omega) (fun x hx => by
      simp only [unrelSliced]; exact List.mem_append_left _ hx)
  · obtain ⟨i, hi, sq, rfl⟩ := mem_unrelSlices hp
    refine ⟨rfl, h4, by simp only [unrelSliced]; omega, m, hq, hm, rfl, List.mem_range.mp hi, rfl, ?_⟩
    intro j hj
    obtain ⟨sq', hsq⟩ := unrelSlices_complete ch g.slicedId m (divCeil m.length SLICE_SIZE)
      (List.range (divCeil m.length SLICE_SIZE)) g.seq j (List.mem_range.mpr hj)
    exact ⟨sq', by simp only [unrelSliced]; exact List.mem_append_right _ hsq⟩

theorem unrelLoop_inv (ch : Nat) (q : List Bytes) (sid0 : Nat) (g : GPU) (h : UnrelInv ch q sid0 g) :
    UnrelInv ch q sid0 (unrelLoop ch q g) := by
  refine unrelLoop_rel (fun g g' => UnrelInv ch q sid0 g → UnrelInv ch q sid0 g') (fun _ h => h)
    (fun a b c h1 h2 h => h2 (h1 h)) ch q g ?_ ?_ ?_ h
  · intro g m _ _ h; exact h
  · intro g m hm _ h2; exact UnrelInv_unrelSliced ch q sid0 m g hm h2
  · intro g m hm _ h2; exact UnrelInv_unrelSmall ch q sid0 m g hm h2

theorem UnrelInv_finishUnrel (ch : Nat) (q : List Bytes) (sid0 : Nat) (g : GPU) (h : UnrelInv ch q sid0 g) :
    ∀ p ∈ (finishUnrel ch g).packets, UnrelPktOK ch q sid0 (finishUnrel ch g).slicedId (finishUnrel ch g).packets p := by
  unfold finishUnrel; split
  · exact h.2.2.2.2
  · obtain ⟨h1, h2, h3, h4, h5⟩ := h
    intro p hp
    simp only [List.mem_append, List.mem_singleton] at hp
    rcases hp with hp | rfl
    · exact (h5 p hp).mono (Nat.le_refl _) (fun x hx => List.mem_append_left _ hx)
    · exact ⟨rfl, by omega, h3⟩

/-- Everything one unreliable flush emits: small-message packets whose messages are queued messages of at most
    `SLICE_SIZE` bytes; slice packets that are slice `i < n` of a queued message `m` longer than `SLICE_SIZE`,
    `n = div_ceil(len, SLICE_SIZE)`, under a fresh message id — and then all `n` slices of `m` are in this flush. -/
theorem SendUnrel.getPackets_emitted {s s' : SendUnrel} {seq avail seq' avail' : Nat} {ps : List Packet}
    (h : s.getPackets seq avail = (s', ps, seq', avail')) :
    s.slicedId ≤ s'.slicedId ∧ ∀ p ∈ ps, UnrelPktOK s.ch s.queue s.slicedId s'.slicedId ps p := by
  rw [SendUnrel.getPackets_eq] at h
  simp only [Prod.mk.injEq] at h
  obtain ⟨rfl, rfl, _, _⟩ := h
  have hinv := unrelLoop_inv s.ch s.queue s.slicedId ⟨[], [], 0, seq, avail, s.slicedId, s.mem⟩
    ⟨rfl, by simp, by simp, Nat.le_refl _, by simp⟩
  refine ⟨?_, UnrelInv_finishUnrel s.ch s.queue s.slicedId _ hinv⟩
  have : (finishUnrel s.ch (unrelLoop s.ch s.queue ⟨[], [], 0, seq, avail, s.slicedId, s.mem⟩)).slicedId =
      (unrelLoop s.ch s.queue ⟨[], [], 0, seq, avail, s.slicedId, s.mem⟩).slicedId := by
    unfold finishUnrel; split <;> rfl
  simp only [this]
  exact hinv.2.2.2.1

theorem SendUnrel.getPackets_seq_lt {s s' : SendUnrel} {seq avail seq' avail' : Nat} {ps : List Packet}
    (h : s.getPackets seq avail = (s', ps, seq', avail')) : ∀ p ∈ ps, p.sequence < seq' := by
  obtain ⟨h1, h2⟩ := SendUnrel.getPackets_seq h
  intro p hp
  have : p.sequence ∈ ps.map Packet.sequence := List.mem_map.mpr ⟨p, hp, rfl⟩
  rw [h1] at this
  have := mem_range'_lt this
  omega

def smallUnrelPacketBound : Nat := 12 + SLICE_SIZE + 2

/-- C13, unreliable channel: with counters in varint range (and message lengths machine-representable), every packet
    of a flush encodes without panic; small-message packets take at most `12 + SLICE_SIZE + 2` bytes, slice packets
    at most `1 + 8 + 1 + 8 + 8 + 8 + 2 + SLICE_SIZE`. -/
theorem SendUnrel.getPackets_sizes {s s' : SendUnrel} {seq avail seq' avail' : Nat} {ps : List Packet}
    (h : s.getPackets seq avail = (s', ps, seq', avail'))
    (hlen : ∀ m ∈ s.queue, m.length ≤ Varint.MAX)
    (hid : s'.slicedId ≤ Varint.MAX + 1) (hseq : seq' ≤ Varint.MAX + 1) :
    ∀ p ∈ ps, ∃ b, p.enc = .ok b ∧
      ((∃ sq msgs, p = Packet.smallUnreliable sq s.ch msgs ∧ b.length ≤ smallUnrelPacketBound) ∨
       (∃ sq sl, p = Packet.unreliableSlice sq s.ch sl ∧ b.length ≤ slicePacketBound)) := by
  intro p hp
  have hsq := SendUnrel.getPackets_seq_lt h p hp
  have hok := (SendUnrel.getPackets_emitted h).2 p hp
  cases p with
  | smallUnreliable sq c msgs =>
    obtain ⟨rfl, h1, h2⟩ := hok
    have hsq' : sq ≤ Varint.MAX := by simp only [Packet.sequence] at hsq; omega
    have hm : SmallUnrelWF msgs := by
      intro x hx
      have := (h2 x hx).2
      unfold SLICE_SIZE at this; unfold Varint.MAX; omega
    obtain ⟨b, hb, hl⟩ := enc_smallUnreliable_len sq _ msgs hsq' hm
    refine ⟨b, hb, Or.inl ⟨sq, msgs, rfl, ?_⟩⟩
    have := varintLen_le sq
    unfold smallUnrelPacketBound; omega
  | unreliableSlice sq c sl =>
    obtain ⟨rfl, h1, h2, m, hm, h3, h4, h5, h6, _⟩ := hok
    have hsq' : sq ≤ Varint.MAX := by simp only [Packet.sequence] at hsq; omega
    have hle : sl.payload.length ≤ SLICE_SIZE := by
      rw [h6]; exact sliceBytes_length_le m _ _ (by rw [h4]; exact divCeil_mul_ge _)
    have hnle : sl.numSlices ≤ m.length := by rw [h4]; exact divCeil_le _
    have hml := hlen m hm
    obtain ⟨b, hb, hl⟩ := enc_unreliableSlice_len sq _ sl hsq' (by omega) (by omega) (by omega)
      (by unfold SLICE_SIZE at hle; unfold Varint.MAX; omega)
    refine ⟨b, hb, Or.inr ⟨sq, sl, rfl, ?_⟩⟩
    have b1 := varintLen_le sq
    have b2 := varintLen_le sl.messageId
    have b3 := varintLen_le sl.sliceIndex
    have b4 := varintLen_le sl.numSlices
    have b5 := varintLen_small sl.payload.length (by unfold SLICE_SIZE at hle; omega)
    rw [hl]; unfold sliceEncLen slicePacketBound; omega
  | smallReliable _ _ _ => exact hok.elim
  | reliableSlice _ _ _ => exact hok.elim
  | ack _ _ => exact hok.elim

/-! ### unreliable channel: exactly the greedily accepted messages are sent, each one whole (C14) -/

/-- the messages an unreliable flush sends: scan the queue in order, take a message iff the remaining budget covers
    its whole length -/
def unrelTaken : List Bytes → Nat → List Bytes
  | [], _ => []
  | m :: r, avail => if avail < m.length then unrelTaken r avail else m :: unrelTaken r (avail - m.length)

theorem unrelTaken_sum_le : ∀ (q : List Bytes) (a : Nat), unrelSmallSum (unrelTaken q a) ≤ a
  | [], _ => by simp [unrelTaken]
  | m :: r, a => by
    simp only [unrelTaken]
    split
    · exact unrelTaken_sum_le r a
    · have := unrelTaken_sum_le r (a - m.length)
      simp only [unrelSmallSum, List.map_cons, List.sum_cons] at *
      omega

theorem unrelTaken_sub : ∀ (q : List Bytes) (a : Nat), ∀ m ∈ unrelTaken q a, m ∈ q
  | [], _, m, h => by simp [unrelTaken] at h
  | x :: r, a, m, h => by
    simp only [unrelTaken] at h
    split at h
    · exact List.mem_cons_of_mem _ (unrelTaken_sub r a m h)
    · simp only [List.mem_cons] at h
      rcases h with rfl | h
      · exact List.mem_cons_self ..
      · exact List.mem_cons_of_mem _ (unrelTaken_sub r _ m h)

def Packet.unrelMsgs : Packet → List Bytes
  | .smallUnreliable _ _ msgs => msgs
  | _ => []

def GPU.msgs (g : GPU) : List Bytes := g.packets.flatMap Packet.unrelMsgs ++ g.small

theorem unrelSlices_msgs (ch id : Nat) (m : Bytes) (n : Nat) : ∀ (l : List Nat) (seq : Nat),
    (unrelSlices ch id m n l seq).flatMap Packet.unrelMsgs = []
  | [], _ => rfl
  | _ :: rest, seq => by simp [unrelSlices, Packet.unrelMsgs, unrelSlices_msgs ch id m n rest (seq + 1)]

theorem msgs_unrelSmall (ch : Nat) (m : Bytes) (g : GPU) : (unrelSmall ch m g).msgs = g.msgs ++ [m] := by
  unfold unrelSmall
  split
  · simp [GPU.msgs, pushUnrel, chargeU, flushUnrel, Packet.unrelMsgs]
  · simp [GPU.msgs, pushUnrel, chargeU]

theorem unrelLoop_msgs (ch : Nat) : ∀ (q : List Bytes) (g : GPU),
    (unrelLoop ch q g).msgs = g.msgs ++ (unrelTaken q g.avail).filter (fun m => decide (m.length ≤ SLICE_SIZE)) ∧
    (unrelLoop ch q g).avail = g.avail - unrelSmallSum (unrelTaken q g.avail) := by
  intro q
  induction q with
  | nil => intro g; simp [unrelLoop, unrelTaken]
  | cons m rest ih =>
    intro g
    rw [unrelLoop_cons]
    simp only [unrelTaken]
    split
    · exact ih (unrelDrop m g)
    · next hav =>
      split
      · next hbig =>
        obtain ⟨h1, h2⟩ := ih (unrelSliced ch m g)
        have e : ¬ m.length ≤ SLICE_SIZE := by omega
        refine ⟨?_, ?_⟩
        · rw [h1]; simp [GPU.msgs, unrelSliced, unrelSlices_msgs, e]
        · rw [h2]; simp only [unrelSliced, unrelSmallSum, List.map_cons, List.sum_cons]; omega
      · next hsmall =>
        obtain ⟨h1, h2⟩ := ih (unrelSmall ch m g)
        have e : m.length ≤ SLICE_SIZE := by omega
        have ea : (unrelSmall ch m g).avail = g.avail - m.length := by
          unfold unrelSmall; split <;> rfl
        refine ⟨?_, ?_⟩
        · rw [h1, msgs_unrelSmall, ea]; simp [e]
        · rw [h2, ea]; simp only [unrelSmallSum, List.map_cons, List.sum_cons]; omega

theorem unrelLoop_packets_mono (ch : Nat) (q : List Bytes) (g : GPU) : ∀ p ∈ g.packets, p ∈ (unrelLoop ch q g).packets := by
  refine unrelLoop_rel (fun g g' => ∀ p ∈ g.packets, p ∈ g'.packets) (fun _ _ h => h)
    (fun a b c h1 h2 p hp => h2 p (h1 p hp)) ch q g ?_ ?_ ?_
  · intro g m _ _ p hp; exact hp
  · intro g m _ _ _ p hp; simp only [unrelSliced]; exact List.mem_append_left _ hp
  · intro g m _ _ _ p hp
    unfold unrelSmall
    split
    · simp only [pushUnrel, flushUnrel, chargeU]; exact List.mem_append_left _ hp
    · exact hp

/-- every accepted message longer than `SLICE_SIZE` has all its slices among the packets -/
theorem unrelLoop_big_complete (ch : Nat) : ∀ (q : List Bytes) (g : GPU),
    ∀ m ∈ unrelTaken q g.avail, SLICE_SIZE < m.length →
    ∃ id, g.slicedId ≤ id ∧ ∀ j, j < divCeil m.length SLICE_SIZE →
      ∃ sq, Packet.unreliableSlice sq ch ⟨id, j, divCeil m.length SLICE_SIZE, sliceBytes m (divCeil m.length SLICE_SIZE) j⟩
        ∈ (unrelLoop ch q g).packets := by
  intro q
  induction q with
  | nil => intro g m hm; simp [unrelTaken] at hm
  | cons x rest ih =>
    intro g m hm hbig
    rw [unrelLoop_cons]
    simp only [unrelTaken] at hm
    split
    · next hav => simp only [hav, ↓reduceIte] at hm; exact ih (unrelDrop x g) m hm hbig
    · next hav =>
      simp only [hav, ↓reduceIte, List.mem_cons] at hm
      split
      · next hx =>
        rcases hm with rfl | hm
        · refine ⟨g.slicedId, Nat.le_refl _, fun j hj => ?_⟩
          obtain ⟨sq, hsq⟩ := unrelSlices_complete ch g.slicedId m (divCeil m.length SLICE_SIZE)
            (List.range (divCeil m.length SLICE_SIZE)) g.seq j (List.mem_range.mpr hj)
          exact ⟨sq, unrelLoop_packets_mono ch rest _ _ (by simp only [unrelSliced]; exact List.mem_append_right _ hsq)⟩
        · obtain ⟨id, h1, h2⟩ := ih (unrelSliced ch x g) m hm hbig
          exact ⟨id, by simp only [unrelSliced] at h1; omega, h2⟩
      · next hx =>
        have ea : (unrelSmall ch x g).avail = g.avail - x.length := by
          unfold unrelSmall; split <;> rfl
        have es : (unrelSmall ch x g).slicedId = g.slicedId := by
          unfold unrelSmall; split <;> rfl
        rcases hm with rfl | hm
        · omega
        · obtain ⟨id, h1, h2⟩ := ih (unrelSmall ch x g) m (by rw [ea]; exact hm) hbig
          exact ⟨id, by omega, h2⟩

theorem finishUnrel_msgs (ch : Nat) (g : GPU) :
    (finishUnrel ch g).packets.flatMap Packet.unrelMsgs = g.msgs := by
  unfold finishUnrel; split
  · next h => simp [GPU.msgs, List.isEmpty_iff.mp h]
  · simp [GPU.msgs, Packet.unrelMsgs]

/-- C14 "dropped whole": an unreliable flush sends exactly the greedily accepted messages — the small ones, in queue
    order, inside the small-message packets; every large one as the complete set of its slices — and charges
    exactly their lengths.  A message that is not accepted contributes nothing and is gone (`getPackets_drains`). -/
theorem SendUnrel.getPackets_exact {s s' : SendUnrel} {seq avail seq' avail' : Nat} {ps : List Packet}
    (h : s.getPackets seq avail = (s', ps, seq', avail')) :
    ps.flatMap Packet.unrelMsgs = (unrelTaken s.queue avail).filter (fun m => decide (m.length ≤ SLICE_SIZE)) ∧
    payloadSum ps = unrelSmallSum (unrelTaken s.queue avail) ∧
    (∀ m ∈ unrelTaken s.queue avail, SLICE_SIZE < m.length →
      ∃ id, ∀ j, j < divCeil m.length SLICE_SIZE →
        ∃ sq, Packet.unreliableSlice sq s.ch ⟨id, j, divCeil m.length SLICE_SIZE, sliceBytes m (divCeil m.length SLICE_SIZE) j⟩ ∈ ps) := by
  have hb := SendUnrel.getPackets_budget h
  rw [SendUnrel.getPackets_eq] at h
  simp only [Prod.mk.injEq] at h
  obtain ⟨_, rfl, _, rfl⟩ := h
  obtain ⟨h1, h2⟩ := unrelLoop_msgs s.ch s.queue ⟨[], [], 0, seq, avail, s.slicedId, s.mem⟩
  have hle := unrelTaken_sum_le s.queue avail
  have hfa : (finishUnrel s.ch (unrelLoop s.ch s.queue ⟨[], [], 0, seq, avail, s.slicedId, s.mem⟩)).avail =
      (unrelLoop s.ch s.queue ⟨[], [], 0, seq, avail, s.slicedId, s.mem⟩).avail := by
    unfold finishUnrel; split <;> rfl
  refine ⟨?_, ?_, ?_⟩
  · rw [finishUnrel_msgs, h1]; simp [GPU.msgs]
  · rw [hfa, h2] at hb; simp only at hb; omega
  · intro m hm hbig
    obtain ⟨id, _, h3⟩ := unrelLoop_big_complete s.ch s.queue ⟨[], [], 0, seq, avail, s.slicedId, s.mem⟩ m hm hbig
    refine ⟨id, fun j hj => ?_⟩
    obtain ⟨sq, hsq⟩ := h3 j hj
    refine ⟨sq, ?_⟩
    unfold finishUnrel; split
    · exact hsq
    · exact List.mem_append_left _ hsq

/-! ### C15: resend timing, at the level of `SendRel.getPackets` -/

theorem SMap.find?_ne_none_of_mem {α : Type} : ∀ {m : SMap α} {k : Nat} {v : α}, (k, v) ∈ m → SMap.find? m k ≠ none
  | [], _, _, h => by cases h
  | (k0, v0) :: r, k, v, h => by
    simp only [SMap.find?]
    split
    · simp
    · next hne =>
      simp only [List.mem_cons, Prod.mk.injEq] at h
      rcases h with ⟨rfl, _⟩ | h
      · exact absurd rfl hne
      · exact SMap.find?_ne_none_of_mem h

/-- how a flush transforms the entry stored under one id -/
theorem SendRel.getPackets_entry {s s' : SendRel} {seq avail now seq' avail' : Nat} {ps : List Packet}
    (h : s.getPackets seq avail now = (s', ps, seq', avail')) (id : Nat) :
    (SMap.find? s.unacked id = none ∧ SMap.find? s'.unacked id = none) ∨
    ∃ u u', SMap.find? s.unacked id = some u ∧ SMap.find? s'.unacked id = some u' ∧ EntryStep now s.resend u u' := by
  rw [SendRel.getPackets_eq] at h
  simp only [Prod.mk.injEq] at h
  obtain ⟨rfl, _, _, _⟩ := h
  exact MapStep.find? (relLoop_entries s.ch now s.resend s.unacked _) id

theorem smallDue_false_of_lt {now resend t : Nat} (h : now - t < resend) : smallDue now resend (some t) = false := by
  simp [smallDue, h]

/-- C15 (no early resend, small message): a message last sent less than `resend_time` ago is not in any packet of
    this flush and keeps its `last_sent` stamp. -/
theorem SendRel.small_not_early {s s' : SendRel} {seq avail now seq' avail' : Nat} {ps : List Packet}
    (h : s.getPackets seq avail now = (s', ps, seq', avail')) {id t : Nat} {m : Bytes}
    (hf : SMap.find? s.unacked id = some (.small m (some t))) (hlt : now - t < s.resend) :
    SMap.find? s'.unacked id = some (.small m (some t)) ∧
    ((SMap.keys s.unacked).Nodup → ∀ sq c msgs, Packet.smallReliable sq c msgs ∈ ps → ∀ x ∈ msgs, x.1 ≠ id) := by
  have hnd := smallDue_false_of_lt hlt
  refine ⟨?_, ?_⟩
  · rcases SendRel.getPackets_entry h id with ⟨h1, _⟩ | ⟨u, u', h1, h2, h3⟩
    · rw [hf] at h1; cases h1
    · rw [hf] at h1; cases h1
      cases u' with
      | small m' ls' =>
        obtain ⟨rfl, h4 | ⟨_, h4⟩⟩ := h3
        · rw [h2, h4]
        · rw [hnd] at h4; cases h4
      | sliced => exact h3.elim
  · intro hn sq c msgs hp x hx e
    rcases SendRel.getPackets_emitted h _ hp with ⟨sq', msgs', e1, h1⟩ | ⟨sq', id', i, m', n, na, nx, ak, ls, nx', ls', e1, _⟩
    · cases e1
      obtain ⟨ls, hm, hd, _⟩ := h1 x hx
      have := SMap.find?_of_mem_nodup hn hm
      rw [e, hf] at this
      cases this
      rw [hnd] at hd; cases hd
    · cases e1

/-- C15 (every transmission is stamped; nothing but due unacked messages is transmitted): `find?` form of
    `getPackets_emitted` for small messages. -/
theorem SendRel.small_emitted {s s' : SendRel} {seq avail now seq' avail' : Nat} {ps : List Packet}
    (h : s.getPackets seq avail now = (s', ps, seq', avail')) (hn : (SMap.keys s.unacked).Nodup)
    {sq c : Nat} {msgs : List (Nat × Bytes)} (hp : Packet.smallReliable sq c msgs ∈ ps) :
    c = s.ch ∧ ∀ x ∈ msgs, ∃ ls, SMap.find? s.unacked x.1 = some (.small x.2 ls) ∧
      (ls = none ∨ ∃ t, ls = some t ∧ s.resend ≤ now - t) ∧
      SMap.find? s'.unacked x.1 = some (.small x.2 (some now)) := by
  have hn' : (SMap.keys s'.unacked).Nodup := by rw [(SendRel.getPackets_keeps h).1]; exact hn
  rcases SendRel.getPackets_emitted h _ hp with ⟨sq', msgs', e1, h1⟩ | ⟨sq', id', i, m', n, na, nx, ak, ls, nx', ls', e1, _⟩
  · cases e1
    refine ⟨rfl, fun x hx => ?_⟩
    obtain ⟨ls, hm, hd, hm'⟩ := h1 x hx
    exact ⟨ls, SMap.find?_of_mem_nodup hn hm, (smallDue_iff _ _ _).mp hd, SMap.find?_of_mem_nodup hn' hm'⟩
  · cases e1

/-- C15 (no early resend, slice; never after its ack): a slice that was acked, or was last sent less than
    `resend_time` ago, is not in any packet of this flush and keeps its `last_sent` stamp. -/
theorem SendRel.slice_not_early {s s' : SendRel} {seq avail now seq' avail' : Nat} {ps : List Packet}
    (h : s.getPackets seq avail now = (s', ps, seq', avail')) {id n na nx i : Nat} {m : Bytes} {ak : List Bool}
    {ls : List (Option Nat)}
    (hf : SMap.find? s.unacked id = some (.sliced m n na nx ak ls))
    (hskip : ak.getD i false = true ∨ ∃ t, ls.getD i none = some t ∧ now - t < s.resend) :
    (∃ nx' ls', SMap.find? s'.unacked id = some (.sliced m n na nx' ak ls') ∧ ls'.getD i none = ls.getD i none) ∧
    ((SMap.keys s.unacked).Nodup → ∀ sq c sl, Packet.reliableSlice sq c sl ∈ ps → sl.messageId = id → sl.sliceIndex ≠ i) := by
  have hno : ¬ (smallDue now s.resend (ls.getD i none) = true ∧ ak.getD i false = false) := by
    rintro ⟨a, b⟩
    rcases hskip with hs | ⟨t, e, hlt⟩
    · rw [hs] at b; cases b
    · rw [e, smallDue_false_of_lt hlt] at a; cases a
  refine ⟨?_, ?_⟩
  · rcases SendRel.getPackets_entry h id with ⟨h1, _⟩ | ⟨u, u', h1, h2, h3⟩
    · rw [hf] at h1; cases h1
    · rw [hf] at h1; cases h1
      cases u' with
      | small => exact h3.elim
      | sliced m' n' na' nx' ak' ls' =>
        obtain ⟨rfl, rfl, rfl, rfl, _, h4⟩ := h3
        refine ⟨nx', ls', h2, ?_⟩
        rcases h4 i with h5 | ⟨_, a, b⟩
        · exact h5
        · exact absurd ⟨a, b⟩ hno
  · intro hn sq c sl hp e1 e2
    rcases SendRel.getPackets_emitted h _ hp with ⟨sq', msgs', e, _⟩ | ⟨sq', id', i', m', n', na', nx', ak', ls', nx'', ls'', e, hm, _, a, b, _⟩
    · cases e
    · cases e
      simp only at e1 e2
      subst e1 e2
      have := SMap.find?_of_mem_nodup hn hm
      rw [hf] at this
      cases this
      exact hno ⟨b, a⟩

/-- C15 / genuineness, `find?` form for slices: an emitted slice is slice `i < n` of the `Sliced` entry stored under
    its message id, was not acked and was due, and its slot is stamped `now` afterwards. -/
theorem SendRel.slice_emitted {s s' : SendRel} {seq avail now seq' avail' : Nat} {ps : List Packet}
    (h : s.getPackets seq avail now = (s', ps, seq', avail')) (hn : (SMap.keys s.unacked).Nodup)
    {sq c : Nat} {sl : Slice} (hp : Packet.reliableSlice sq c sl ∈ ps) :
    c = s.ch ∧ ∃ m na nx ak ls nx' ls',
      SMap.find? s.unacked sl.messageId = some (.sliced m sl.numSlices na nx ak ls) ∧
      sl.sliceIndex < sl.numSlices ∧ sl.payload = sliceBytes m sl.numSlices sl.sliceIndex ∧
      ak.getD sl.sliceIndex false = false ∧
      (ls.getD sl.sliceIndex none = none ∨ ∃ t, ls.getD sl.sliceIndex none = some t ∧ s.resend ≤ now - t) ∧
      SMap.find? s'.unacked sl.messageId = some (.sliced m sl.numSlices na nx' ak ls') ∧
      (sl.sliceIndex < ls.length → ls'.getD sl.sliceIndex none = some now) := by
  have hn' : (SMap.keys s'.unacked).Nodup := by rw [(SendRel.getPackets_keeps h).1]; exact hn
  rcases SendRel.getPackets_emitted h _ hp with ⟨sq', msgs', e, _⟩ | ⟨sq', id', i', m', n', na', nx', ak', ls', nx'', ls'', e, hm, hi, a, b, hm', hst⟩
  · cases e
  · cases e
    exact ⟨rfl, m', na', nx', ak', ls', nx'', ls'', SMap.find?_of_mem_nodup hn hm, hi, rfl, a,
      (smallDue_iff _ _ _).mp b, SMap.find?_of_mem_nodup hn' hm', hst⟩

/-- C15 (never after the ack): an id that is absent from `unacked` — never sent, or removed by its ack — occurs in no
    packet of the flush. -/
theorem SendRel.acked_never {s s' : SendRel} {seq avail now seq' avail' : Nat} {ps : List Packet}
    (h : s.getPackets seq avail now = (s', ps, seq', avail')) {id : Nat} (hf : SMap.find? s.unacked id = none) :
    (∀ sq c msgs, Packet.smallReliable sq c msgs ∈ ps → ∀ x ∈ msgs, x.1 ≠ id) ∧
    (∀ sq c sl, Packet.reliableSlice sq c sl ∈ ps → sl.messageId ≠ id) := by
  refine ⟨?_, ?_⟩
  · intro sq c msgs hp x hx e
    have := SendRel.getPackets_genuine h _ hp
    obtain ⟨ls, hm⟩ := this.2 x hx
    rw [e] at hm
    exact SMap.find?_ne_none_of_mem hm hf
  · intro sq c sl hp e
    have := SendRel.getPackets_genuine h _ hp
    obtain ⟨_, m, na, nx, ak, ls, hm, _⟩ := this
    rw [e] at hm
    exact SMap.find?_ne_none_of_mem hm hf

/-! ### C15: liveness — what is due, unacked and affordable at its turn is transmitted by this flush -/

/-- nothing already taken is lost, and the budget only shrinks -/
def Mono (g g' : GP) : Prop :=
  (∀ p ∈ g.packets, p ∈ g'.packets) ∧ (∀ x ∈ g.msgs, x ∈ g'.msgs) ∧ g'.avail ≤ g.avail

theorem Mono.refl (g : GP) : Mono g g := ⟨fun _ h => h, fun _ h => h, Nat.le_refl _⟩
theorem Mono.trans {a b c : GP} (h1 : Mono a b) (h2 : Mono b c) : Mono a c :=
  ⟨fun p hp => h2.1 p (h1.1 p hp), fun x hx => h2.2.1 x (h1.2.1 x hx), Nat.le_trans h2.2.2 h1.2.2⟩

theorem avail_takeSmall (ch id : Nat) (m : Bytes) (g : GP) : (takeSmall ch id m g).avail = g.avail - m.length := by
  unfold takeSmall; split <;> rfl

theorem Mono_takeSmall (ch id : Nat) (m : Bytes) (g : GP) : Mono g (takeSmall ch id m g) := by
  refine ⟨?_, ?_, ?_⟩
  · intro p hp
    rcases packets_takeSmall ch id m g with e | e <;> rw [e]
    · exact hp
    · exact List.mem_append_left _ hp
  · intro x hx; rw [msgs_takeSmall]; exact List.mem_append_left _ hx
  · rw [avail_takeSmall]; omega

theorem Mono_sliceStep (ch id : Nat) (msg : Bytes) (n i : Nat) (g : GP) : Mono g (sliceStep ch id msg n i g) := by
  refine ⟨?_, ?_, ?_⟩
  · intro p hp; simp only [sliceStep]; exact List.mem_append_left _ hp
  · intro x hx; simpa [GP.msgs, sliceStep, Packet.relMsgs] using hx
  · simp only [sliceStep]; omega

theorem slicedLoop_mono (ch id now resend : Nat) (msg : Bytes) (n start : Nat) (acked : List Bool)
    (l : List Nat) (ls : List (Option Nat)) (next : Nat) (gp : GP) :
    Mono gp (slicedLoop ch id now resend msg n start acked l (ls, next, gp)).2.2 :=
  slicedLoop_rel Mono Mono.refl (fun _ _ _ => Mono.trans) ch id now resend msg n start acked l ls next gp
    (fun g _ _ _ => Mono_sliceStep ch id msg n _ g)

theorem relLoop_mono (ch now resend : Nat) (un : SMap Unacked) (gp : GP) : Mono gp (relLoop ch now resend un gp).2 :=
  relLoop_rel Mono Mono.refl (fun _ _ _ => Mono.trans) ch now resend un gp
    (fun g id m _ _ _ _ => Mono_takeSmall ch id m g)
    (fun g id m n _ nx ak ls _ => slicedLoop_mono ch id now resend m n nx ak (List.range n) ls nx g)

theorem Mono_finishRel (ch : Nat) (g : GP) : Mono g (finishRel ch g) := by
  refine ⟨?_, ?_, ?_⟩
  · intro p hp
    rcases finishRel_packets ch g with e | e <;> rw [e]
    · exact hp
    · exact List.mem_append_left _ hp
  · intro x hx; rw [finishRel_msgs]; exact hx
  · unfold finishRel; split <;> exact Nat.le_refl _

theorem relLoop_append (ch now resend : Nat) : ∀ (a b : SMap Unacked) (gp : GP),
    relLoop ch now resend (a ++ b) gp =
      ((relLoop ch now resend a gp).1 ++ (relLoop ch now resend b (relLoop ch now resend a gp).2).1,
       (relLoop ch now resend b (relLoop ch now resend a gp).2).2) := by
  intro a
  induction a with
  | nil => intro b gp; simp [relLoop_nil]
  | cons x rest ih =>
    intro b gp
    obtain ⟨id, u⟩ := x
    cases u with
    | small m ls =>
      rw [List.cons_append, relLoop_small, relLoop_small]
      split
      · rw [ih]; rfl
      · rw [ih]; rfl
    | sliced m n na nx ak ls =>
      rw [List.cons_append, relLoop_sliced, relLoop_sliced]
      simp only [ih, List.cons_append]

theorem slicedLoop_exit (ch id now resend : Nat) (msg : Bytes) (n start : Nat) (acked : List Bool)
    (l : List Nat) (ls : List (Option Nat)) (next : Nat) (gp : GP) (h : gp.avail < SLICE_SIZE) :
    slicedLoop ch id now resend msg n start acked l (ls, next, gp) = (ls, next, gp) := by
  cases l with
  | nil => rw [slicedLoop_nil]
  | cons i0 rest => rw [slicedLoop_cons, if_pos h]

theorem slicedLoop_append (ch id now resend : Nat) (msg : Bytes) (n start : Nat) (acked : List Bool) :
    ∀ (a b : List Nat) (st : List (Option Nat) × Nat × GP),
    slicedLoop ch id now resend msg n start acked (a ++ b) st =
      slicedLoop ch id now resend msg n start acked b (slicedLoop ch id now resend msg n start acked a st) := by
  intro a
  induction a with
  | nil => intro b st; rw [slicedLoop_nil]; rfl
  | cons i0 rest ih =>
    intro b st
    obtain ⟨ls, next, gp⟩ := st
    rw [List.cons_append, slicedLoop_cons, slicedLoop_cons]
    split
    · next h => rw [slicedLoop_exit _ _ _ _ _ _ _ _ _ _ _ _ h]
    · split
      · exact ih _ _
      · exact ih _ _

/-- C15 liveness for a small message: if it is unacked and due, and when its turn comes the remaining budget covers
    it, this flush takes it. -/
theorem relLoop_small_live (ch now resend : Nat) (pre post : SMap Unacked) (id : Nat) (m : Bytes) (ls : Option Nat)
    (gp : GP) (hdue : smallDue now resend ls = true) (hav : m.length ≤ (relLoop ch now resend pre gp).2.avail) :
    (id, m) ∈ (relLoop ch now resend (pre ++ (id, .small m ls) :: post) gp).2.msgs := by
  rw [relLoop_append, relLoop_small]
  have : ¬ ((relLoop ch now resend pre gp).2.avail < m.length ∨ smallDue now resend ls = false) := by
    rw [hdue]; simp; omega
  simp only [this, ↓reduceIte]
  apply (relLoop_mono ch now resend post _).2.1
  rw [msgs_takeSmall]; simp

/-- C15 liveness for a slice: if it is unacked and due, and when its turn comes the remaining budget is at least
    `SLICE_SIZE` (the code's acceptance test), this flush emits it. -/
theorem relLoop_slice_live (ch now resend : Nat) (pre post : SMap Unacked) (id : Nat) (m : Bytes) (n na nx : Nat)
    (ak : List Bool) (ls : List (Option Nat)) (gp : GP) (a b : List Nat) (i0 : Nat)
    (hr : List.range n = a ++ i0 :: b)
    (hak : ak.getD ((nx + i0) % n) false = false) (hdue : smallDue now resend (ls.getD ((nx + i0) % n) none) = true)
    (hav : SLICE_SIZE ≤ (slicedLoop ch id now resend m n nx ak a (ls, nx, (relLoop ch now resend pre gp).2)).2.2.avail) :
    ∃ sq, Packet.reliableSlice sq ch ⟨id, (nx + i0) % n, n, sliceBytes m n ((nx + i0) % n)⟩ ∈
      (relLoop ch now resend (pre ++ (id, .sliced m n na nx ak ls) :: post) gp).2.packets := by
  rw [relLoop_append, relLoop_sliced]
  simp only
  generalize (relLoop ch now resend pre gp).2 = g1 at *
  rw [hr, slicedLoop_append]
  obtain ⟨suf, h1, _, _, _, _, h6⟩ := slicedLoop_spec ch id now resend m n nx ak a ls nx g1
  generalize hst : slicedLoop ch id now resend m n nx ak a (ls, nx, g1) = st1 at *
  obtain ⟨ls1, nx1, gp1⟩ := st1
  simp only at h1 h6 hav
  have key : ∃ sq, Packet.reliableSlice sq ch ⟨id, (nx + i0) % n, n, sliceBytes m n ((nx + i0) % n)⟩ ∈
      (slicedLoop ch id now resend m n nx ak (i0 :: b) (ls1, nx1, gp1)).2.2.packets := by
    rcases h6 ((nx + i0) % n) with h | ⟨_, sq, hsq⟩
    · rw [slicedLoop_cons]
      have c1 : ¬ gp1.avail < SLICE_SIZE := by omega
      have c2 : ¬ (ak.getD ((nx + i0) % n) false = true ∨ smallDue now resend (ls1.getD ((nx + i0) % n) none) = false) := by
        rw [h, hak, hdue]; simp
      simp only [c1, c2, ↓reduceIte]
      refine ⟨gp1.seq, (slicedLoop_mono ch id now resend m n nx ak b _ _ _).1 _ ?_⟩
      simp [sliceStep]
    · refine ⟨sq, (slicedLoop_mono ch id now resend m n nx ak (i0 :: b) ls1 nx1 gp1).1 _ ?_⟩
      rw [h1]; exact List.mem_append_right _ hsq
  obtain ⟨sq, hsq⟩ := key
  exact ⟨sq, (relLoop_mono ch now resend post _).1 _ hsq⟩

theorem exists_loop_index (nx n i : Nat) (hi : i < n) : ∃ i0, i0 < n ∧ (nx + i0) % n = i := by
  have hr : nx % n < n := Nat.mod_lt _ (by omega)
  by_cases h : nx % n ≤ i
  · refine ⟨i - nx % n, by omega, ?_⟩
    rw [Nat.add_mod, Nat.mod_eq_of_lt (show i - nx % n < n by omega)]
    have : nx % n + (i - nx % n) = i := by omega
    rw [this, Nat.mod_eq_of_lt hi]
  · refine ⟨i + n - nx % n, by omega, ?_⟩
    rw [Nat.add_mod, Nat.mod_eq_of_lt (show i + n - nx % n < n by omega)]
    have : nx % n + (i + n - nx % n) = i + n := by omega
    rw [this, Nat.add_mod_right, Nat.mod_eq_of_lt hi]

theorem mem_packets_of_mem_msgs {g : GP} (hs : g.small = []) {x : Nat × Bytes} (hx : x ∈ g.msgs) :
    ∃ sq c msgs, Packet.smallReliable sq c msgs ∈ g.packets ∧ x ∈ msgs := by
  simp only [GP.msgs, hs, List.append_nil, List.mem_flatMap] at hx
  obtain ⟨p, hp, hxp⟩ := hx
  cases p with
  | smallReliable sq c msgs => exact ⟨sq, c, msgs, hp, hxp⟩
  | smallUnreliable _ _ _ => simp [Packet.relMsgs] at hxp
  | reliableSlice _ _ _ => simp [Packet.relMsgs] at hxp
  | unreliableSlice _ _ _ => simp [Packet.relMsgs] at hxp
  | ack _ _ => simp [Packet.relMsgs] at hxp

/-- C15 liveness, small message, exact form: "budget allows" = when the loop reaches the message (after the entries
    `pre` with smaller ids have been served) the remaining budget covers its length. -/
theorem SendRel.small_live_at_turn {s s' : SendRel} {seq avail now seq' avail' : Nat} {ps : List Packet}
    (h : s.getPackets seq avail now = (s', ps, seq', avail'))
    {pre post : SMap Unacked} {id : Nat} {m : Bytes} {ls : Option Nat}
    (hun : s.unacked = pre ++ (id, .small m ls) :: post)
    (hdue : ls = none ∨ ∃ t, ls = some t ∧ s.resend ≤ now - t)
    (hav : m.length ≤ (relLoop s.ch now s.resend pre ⟨[], [], 0, seq, avail⟩).2.avail) :
    ∃ sq msgs, Packet.smallReliable sq s.ch msgs ∈ ps ∧ (id, m) ∈ msgs := by
  have h0 := h
  rw [SendRel.getPackets_eq] at h
  simp only [Prod.mk.injEq] at h
  obtain ⟨_, rfl, _, _⟩ := h
  have hin := relLoop_small_live s.ch now s.resend pre post id m ls ⟨[], [], 0, seq, avail⟩
    ((smallDue_iff _ _ _).mpr hdue) hav
  rw [← hun] at hin
  have hin' := (Mono_finishRel s.ch _).2.1 _ hin
  obtain ⟨sq, c, msgs, hp, hx⟩ := mem_packets_of_mem_msgs (finishRel_small s.ch _) hin'
  have hc := (SendRel.getPackets_genuine h0 _ hp).1
  subst hc
  exact ⟨sq, msgs, hp, hx⟩

/-- C15 liveness, small message, simple form: if the budget left over after the flush would still cover the
    message, a due unacked message was transmitted by this flush. -/
theorem SendRel.small_live {s s' : SendRel} {seq avail now seq' avail' : Nat} {ps : List Packet}
    (h : s.getPackets seq avail now = (s', ps, seq', avail'))
    {id : Nat} {m : Bytes} {ls : Option Nat}
    (hf : SMap.find? s.unacked id = some (.small m ls))
    (hdue : ls = none ∨ ∃ t, ls = some t ∧ s.resend ≤ now - t)
    (hav : m.length ≤ avail') :
    ∃ sq msgs, Packet.smallReliable sq s.ch msgs ∈ ps ∧ (id, m) ∈ msgs := by
  obtain ⟨pre, post, hun⟩ := List.append_of_mem (SMap.mem_of_find? hf)
  refine SendRel.small_live_at_turn h hun hdue ?_
  have h' := h
  rw [SendRel.getPackets_eq] at h'
  simp only [Prod.mk.injEq] at h'
  obtain ⟨_, _, _, rfl⟩ := h'
  have m1 := (Mono_finishRel s.ch (relLoop s.ch now s.resend s.unacked ⟨[], [], 0, seq, avail⟩).2).2.2
  have m2 : (relLoop s.ch now s.resend s.unacked ⟨[], [], 0, seq, avail⟩).2.avail ≤
      (relLoop s.ch now s.resend pre ⟨[], [], 0, seq, avail⟩).2.avail := by
    rw [hun, relLoop_append]
    exact (relLoop_mono s.ch now s.resend _ _).2.2
  omega

/-- C15 liveness, slice, exact form: "budget allows" = when the slice loop of this message reaches loop index `i0`
    (after the entries `pre` and the loop indices `a`), at least `SLICE_SIZE` bytes of budget remain. -/
theorem SendRel.slice_live_at_turn {s s' : SendRel} {seq avail now seq' avail' : Nat} {ps : List Packet}
    (h : s.getPackets seq avail now = (s', ps, seq', avail'))
    {pre post : SMap Unacked} {id n na nx : Nat} {m : Bytes} {ak : List Bool} {ls : List (Option Nat)}
    {a b : List Nat} {i0 : Nat}
    (hun : s.unacked = pre ++ (id, .sliced m n na nx ak ls) :: post)
    (hr : List.range n = a ++ i0 :: b)
    (hak : ak.getD ((nx + i0) % n) false = false)
    (hdue : ls.getD ((nx + i0) % n) none = none ∨ ∃ t, ls.getD ((nx + i0) % n) none = some t ∧ s.resend ≤ now - t)
    (hav : SLICE_SIZE ≤ (slicedLoop s.ch id now s.resend m n nx ak a
      (ls, nx, (relLoop s.ch now s.resend pre ⟨[], [], 0, seq, avail⟩).2)).2.2.avail) :
    ∃ sq, Packet.reliableSlice sq s.ch ⟨id, (nx + i0) % n, n, sliceBytes m n ((nx + i0) % n)⟩ ∈ ps := by
  rw [SendRel.getPackets_eq] at h
  simp only [Prod.mk.injEq] at h
  obtain ⟨_, rfl, _, _⟩ := h
  obtain ⟨sq, hsq⟩ := relLoop_slice_live s.ch now s.resend pre post id m n na nx ak ls ⟨[], [], 0, seq, avail⟩ a b i0 hr hak
    ((smallDue_iff _ _ _).mpr hdue) hav
  rw [← hun] at hsq
  exact ⟨sq, (Mono_finishRel s.ch _).1 _ hsq⟩

/-- C15 liveness, slice, simple form: if at least `SLICE_SIZE` bytes of budget are left over after the flush, every
    due unacked slice was transmitted by this flush. -/
theorem SendRel.slice_live {s s' : SendRel} {seq avail now seq' avail' : Nat} {ps : List Packet}
    (h : s.getPackets seq avail now = (s', ps, seq', avail'))
    {id n na nx i : Nat} {m : Bytes} {ak : List Bool} {ls : List (Option Nat)}
    (hf : SMap.find? s.unacked id = some (.sliced m n na nx ak ls)) (hi : i < n)
    (hak : ak.getD i false = false)
    (hdue : ls.getD i none = none ∨ ∃ t, ls.getD i none = some t ∧ s.resend ≤ now - t)
    (hav : SLICE_SIZE ≤ avail') :
    ∃ sq, Packet.reliableSlice sq s.ch ⟨id, i, n, sliceBytes m n i⟩ ∈ ps := by
  obtain ⟨pre, post, hun⟩ := List.append_of_mem (SMap.mem_of_find? hf)
  obtain ⟨i0, hi0, rfl⟩ := exists_loop_index nx n i hi
  obtain ⟨a, b, hr⟩ := List.append_of_mem (List.mem_range.mpr hi0)
  refine SendRel.slice_live_at_turn h hun hr hak hdue ?_
  have h' := h
  rw [SendRel.getPackets_eq] at h'
  simp only [Prod.mk.injEq] at h'
  obtain ⟨_, _, _, rfl⟩ := h'
  have m1 := (Mono_finishRel s.ch (relLoop s.ch now s.resend s.unacked ⟨[], [], 0, seq, avail⟩).2).2.2
  have m2 : (relLoop s.ch now s.resend s.unacked ⟨[], [], 0, seq, avail⟩).2.avail ≤
      (slicedLoop s.ch id now s.resend m n nx ak a
        (ls, nx, (relLoop s.ch now s.resend pre ⟨[], [], 0, seq, avail⟩).2)).2.2.avail := by
    rw [hun, relLoop_append, relLoop_sliced]
    simp only
    rw [hr, slicedLoop_append]
    refine Nat.le_trans (relLoop_mono s.ch now s.resend post _).2.2 ?_
    generalize slicedLoop s.ch id now s.resend m n nx ak a
      (ls, nx, (relLoop s.ch now s.resend pre ⟨[], [], 0, seq, avail⟩).2) = st
    obtain ⟨l1, n1, g1⟩ := st
    exact (slicedLoop_mono s.ch id now s.resend m n nx ak (i0 :: b) l1 n1 g1).2.2
  omega

/-! ### the channel invariants are inductive -/

theorem MapStep.mem {R : Unacked → Unacked → Prop} : ∀ {a b : SMap Unacked}, MapStep R a b → ∀ k u', (k, u') ∈ b →
    ∃ u, (k, u) ∈ a ∧ R u u'
  | [], [], _, _, _, h => by cases h
  | (k0, u) :: r, (k0', u0') :: r', h, k, u', hm => by
    obtain ⟨rfl, h1, h2⟩ := h
    simp only [List.mem_cons, Prod.mk.injEq] at hm
    rcases hm with ⟨rfl, rfl⟩ | hm
    · exact ⟨u, List.mem_cons_self .., h1⟩
    · obtain ⟨u2, a, b⟩ := MapStep.mem h2 k u' hm
      exact ⟨u2, List.mem_cons_of_mem _ a, b⟩
  | [], _ :: _, h, _, _, _ => by cases h
  | _ :: _, [], h, _, _, _ => by cases h

theorem EntryStep.wf {now resend : Nat} {u u' : Unacked} (h : EntryStep now resend u u') (hw : u.WF) : u'.WF := by
  cases u with
  | small m ls =>
    cases u' with
    | small m' ls' => obtain ⟨rfl, _⟩ := h; exact hw
    | sliced => exact h.elim
  | sliced m n na nx ak ls =>
    cases u' with
    | small => exact h.elim
    | sliced m' n' na' nx' ak' ls' =>
      obtain ⟨rfl, rfl, rfl, rfl, hl, _⟩ := h
      obtain ⟨a, b, c, d, e⟩ := hw
      exact ⟨a, b, c, d, by rw [hl]; exact e⟩

/-- a flush preserves the well-formedness of the reliable send channel -/
theorem SendRel.getPackets_wf_preserved {s s' : SendRel} {seq avail now seq' avail' : Nat} {ps : List Packet}
    (h : s.getPackets seq avail now = (s', ps, seq', avail')) (hwf : s.WF) : s'.WF := by
  obtain ⟨hk, _, hid, _⟩ := SendRel.getPackets_keeps h
  have hstep : MapStep (EntryStep now s.resend) s.unacked s'.unacked := by
    rw [SendRel.getPackets_eq] at h
    simp only [Prod.mk.injEq] at h
    obtain ⟨rfl, _, _, _⟩ := h
    exact relLoop_entries s.ch now s.resend s.unacked _
  refine ⟨by rw [hk]; exact hwf.nodup, ?_, ?_⟩
  · intro id u' hm
    obtain ⟨u, hu, _⟩ := hstep.mem id u' hm
    rw [hid]; exact hwf.ids id u hu
  · intro id u' hm
    obtain ⟨u, hu, hs⟩ := hstep.mem id u' hm
    exact hs.wf (hwf.entries id u hu)

theorem SendRel.new_wf (ch resend maxMem : Nat) : (SendRel.new ch resend maxMem).WF :=
  ⟨by simp [SendRel.new, SMap.keys], by simp [SendRel.new], by simp [SendRel.new]⟩

theorem SMap.insert_above {α : Type} : ∀ (m : SMap α) (k : Nat) (v : α), (∀ x ∈ m, x.1 < k) →
    SMap.insert m k v = m ++ [(k, v)]
  | [], _, _, _ => rfl
  | (k0, v0) :: r, k, v, h => by
    have h0 : k0 < k := h (k0, v0) (List.mem_cons_self ..)
    have : ¬ k < k0 := by omega
    have : ¬ k = k0 := by omega
    simp only [SMap.insert, *, ↓reduceIte, List.cons_append]
    rw [SMap.insert_above r k v (fun x hx => h x (List.mem_cons_of_mem _ hx))]

/-- `send_message` establishes the entry invariant (the length bound stands for "machine-representable") -/
theorem SendRel.sendMessage_wf {s s' : SendRel} {m : Bytes} (h : s.sendMessage m = .ok s') (hwf : s.WF)
    (hlen : m.length ≤ Varint.MAX) : s'.WF := by
  unfold SendRel.sendMessage at h
  split at h
  · cases h
  · simp only [Except.ok.injEq] at h
    subst h
    have habove : ∀ x ∈ s.unacked, x.1 < s.nextId := fun x hx => hwf.ids x.1 x.2 hx
    simp only [SMap.insert_above _ _ _ habove]
    refine ⟨?_, ?_, ?_⟩
    · simp only [SMap.keys, List.map_append, List.map_cons, List.map_nil]
      rw [List.nodup_append]
      refine ⟨hwf.nodup, by simp, ?_⟩
      intro a ha b hb
      simp only [List.mem_singleton] at hb
      subst hb
      obtain ⟨x, hx, rfl⟩ := List.mem_map.mp ha
      have := habove x hx
      omega
    · intro id u hm
      simp only [List.mem_append, List.mem_singleton, Prod.mk.injEq] at hm
      rcases hm with hm | ⟨rfl, _⟩
      · have := hwf.ids id u hm; simp only; omega
      · simp only; omega
    · intro id u hm
      simp only [List.mem_append, List.mem_singleton, Prod.mk.injEq] at hm
      rcases hm with hm | ⟨_, rfl⟩
      · exact hwf.entries id u hm
      · split
        · next hbig =>
          refine ⟨rfl, by omega, hlen, by simp, by simp⟩
        · next hsmall => show m.length ≤ SLICE_SIZE; omega

/-! ### connection level: every datagram fits, serialisation never fails (C13); one shared budget (C14) -/

def ackPacketBound : Nat := 1 + 8 + 8 + 8 + 8 + 16 * (ACK_RANGE_CAP - 1)

/-- side conditions on the constants: each per-kind bound is within the netcode payload limit, which is within the
    serialisation scratch buffer.  A changed constant breaks exactly the lemma concerned. -/
theorem smallPacketBound_le : smallPacketBound ≤ NETCODE_MAX_PAYLOAD_BYTES := by decide
theorem smallUnrelPacketBound_le : smallUnrelPacketBound ≤ NETCODE_MAX_PAYLOAD_BYTES := by decide
theorem slicePacketBound_le : slicePacketBound ≤ NETCODE_MAX_PAYLOAD_BYTES := by decide
theorem ackPacketBound_le : ackPacketBound ≤ NETCODE_MAX_PAYLOAD_BYTES := by decide
theorem payload_le_buffer : NETCODE_MAX_PAYLOAD_BYTES ≤ SER_BUFFER := by decide

/-- the packet encodes without panic into at most `NETCODE_MAX_PAYLOAD_BYTES` bytes -/
def PktFits (p : Packet) : Prop := ∃ b, p.enc = .ok b ∧ b.length ≤ NETCODE_MAX_PAYLOAD_BYTES

def Packet.isAck : Packet → Bool
  | .ack _ _ => true
  | _ => false

theorem PktFits.toBytes {p : Packet} (h : PktFits p) :
    ∃ b, p.toBytes SER_BUFFER = .ok b ∧ b.length ≤ NETCODE_MAX_PAYLOAD_BYTES := by
  obtain ⟨b, hb, hl⟩ := h
  have := payload_le_buffer
  refine ⟨b, ?_, hl⟩
  have hc : b.length ≤ SER_BUFFER := by omega
  simp [Packet.toBytes, hb, hc]

theorem SendRel.getPackets_fits {s s' : SendRel} {seq avail now seq' avail' : Nat} {ps : List Packet}
    (h : s.getPackets seq avail now = (s', ps, seq', avail')) (hwf : s.WF)
    (hid : s.nextId ≤ Varint.MAX + 1) (hseq : seq' ≤ Varint.MAX + 1) :
    ∀ p ∈ ps, PktFits p ∧ p.isAck = false := by
  intro p hp
  have h1 := smallPacketBound_le
  have h2 := slicePacketBound_le
  obtain ⟨b, hb, ⟨sq, msgs, rfl, hl⟩ | ⟨sq, sl, rfl, hl⟩⟩ := SendRel.getPackets_sizes h hwf hid hseq p hp
  · exact ⟨⟨b, hb, by omega⟩, rfl⟩
  · exact ⟨⟨b, hb, by omega⟩, rfl⟩

theorem SendUnrel.getPackets_fits {s s' : SendUnrel} {seq avail seq' avail' : Nat} {ps : List Packet}
    (h : s.getPackets seq avail = (s', ps, seq', avail'))
    (hlen : ∀ m ∈ s.queue, m.length ≤ Varint.MAX)
    (hid : s'.slicedId ≤ Varint.MAX + 1) (hseq : seq' ≤ Varint.MAX + 1) :
    ∀ p ∈ ps, PktFits p ∧ p.isAck = false := by
  intro p hp
  have h1 := smallUnrelPacketBound_le
  have h2 := slicePacketBound_le
  obtain ⟨b, hb, ⟨sq, msgs, rfl, hl⟩ | ⟨sq, sl, rfl, hl⟩⟩ := SendUnrel.getPackets_sizes h hlen hid hseq p hp
  · exact ⟨⟨b, hb, by omega⟩, rfl⟩
  · exact ⟨⟨b, hb, by omega⟩, rfl⟩

theorem unrelLoop_slicedId (ch : Nat) : ∀ (q : List Bytes) (g : GPU), (unrelLoop ch q g).slicedId ≤ g.slicedId + q.length := by
  intro q
  induction q with
  | nil => intro g; simp [unrelLoop]
  | cons m rest ih =>
    intro g
    rw [unrelLoop_cons]
    split
    · have := ih (unrelDrop m g); simp only [unrelDrop, List.length_cons] at *; omega
    · split
      · have := ih (unrelSliced ch m g); simp only [unrelSliced, List.length_cons] at *; omega
      · have := ih (unrelSmall ch m g)
        have es : (unrelSmall ch m g).slicedId = g.slicedId := by unfold unrelSmall; split <;> rfl
        rw [es] at this; simp only [List.length_cons]; omega

theorem SendUnrel.getPackets_slicedId {s s' : SendUnrel} {seq avail seq' avail' : Nat} {ps : List Packet}
    (h : s.getPackets seq avail = (s', ps, seq', avail')) : s'.slicedId ≤ s.slicedId + s.queue.length := by
  rw [SendUnrel.getPackets_eq] at h
  simp only [Prod.mk.injEq] at h
  obtain ⟨rfl, _, _, _⟩ := h
  have : (finishUnrel s.ch (unrelLoop s.ch s.queue ⟨[], [], 0, seq, avail, s.slicedId, s.mem⟩)).slicedId =
      (unrelLoop s.ch s.queue ⟨[], [], 0, seq, avail, s.slicedId, s.mem⟩).slicedId := by
    unfold finishUnrel; split <;> rfl
  simp only [this]
  exact unrelLoop_slicedId s.ch s.queue _

/-- every reliable send channel is well-formed and its id counter is in varint range -/
def RelMapOK (sr : SMap SendRel) : Prop := ∀ ch s, SMap.find? sr ch = some s → s.WF ∧ s.nextId ≤ Varint.MAX + 1

/-- every unreliable send channel holds machine-representable messages and its slice-id counter stays in varint range -/
def UnrelMapOK (su : SMap SendUnrel) : Prop :=
  ∀ ch s, SMap.find? su ch = some s → (∀ m ∈ s.queue, m.length ≤ Varint.MAX) ∧ s.slicedId + s.queue.length ≤ Varint.MAX + 1

theorem RelMapOK.fit {sr : SMap SendRel} (h : RelMapOK sr) : RelMapFit sr := fun ch s hs => (h ch s hs).1.fit

theorem chanLoop_seq_mono (now : Nat) : ∀ (order : List (Bool × Nat)) (sr : SMap SendRel) (su : SMap SendUnrel)
    (pk : List Packet) (seq avail : Nat) (sr' : SMap SendRel) (su' : SMap SendUnrel) (pk' : List Packet) (seq' avail' : Nat),
    Conn.chanLoop now order (sr, su, pk, seq, avail) = .ok (sr', su', pk', seq', avail') → seq ≤ seq' := by
  intro order
  induction order with
  | nil =>
    intro sr su pk seq avail sr' su' pk' seq' avail' h
    simp only [Conn.chanLoop, Res.ok.injEq, Prod.mk.injEq] at h
    omega
  | cons x rest ih =>
    intro sr su pk seq avail sr' su' pk' seq' avail' h
    obtain ⟨rel, ch⟩ := x
    cases rel with
    | true =>
      rw [chanLoop_rel_step] at h
      split at h
      · cases h
      · next s hs =>
        have := ih _ _ _ _ _ _ _ _ _ _ h
        have := (SendRel.getPackets_seq' s seq avail now).2
        omega
    | false =>
      rw [chanLoop_unrel_step] at h
      split at h
      · cases h
      · next s hs =>
        have := ih _ _ _ _ _ _ _ _ _ _ h
        have := (SendUnrel.getPackets_seq' s seq avail).2
        omega

theorem chanLoop_fits (now : Nat) : ∀ (order : List (Bool × Nat)) (sr : SMap SendRel) (su : SMap SendUnrel)
    (pk : List Packet) (seq avail : Nat) (sr' : SMap SendRel) (su' : SMap SendUnrel) (pk' : List Packet) (seq' avail' : Nat),
    RelMapOK sr → UnrelMapOK su →
    Conn.chanLoop now order (sr, su, pk, seq, avail) = .ok (sr', su', pk', seq', avail') → seq' ≤ Varint.MAX + 1 →
    ∃ ps, pk' = pk ++ ps ∧ (∀ p ∈ ps, PktFits p ∧ p.isAck = false) ∧ RelMapOK sr' ∧ UnrelMapOK su' := by
  intro order
  induction order with
  | nil =>
    intro sr su pk seq avail sr' su' pk' seq' avail' hr hu h _
    simp only [Conn.chanLoop, Res.ok.injEq, Prod.mk.injEq] at h
    obtain ⟨rfl, rfl, rfl, rfl, rfl⟩ := h
    exact ⟨[], by simp, by simp, hr, hu⟩
  | cons x rest ih =>
    intro sr su pk seq avail sr' su' pk' seq' avail' hr hu h hseq
    obtain ⟨rel, ch⟩ := x
    cases rel with
    | true =>
      rw [chanLoop_rel_step] at h
      split at h
      · cases h
      · next s hs =>
        have hmono := chanLoop_seq_mono now _ _ _ _ _ _ _ _ _ _ _ h
        obtain ⟨hwf, hid⟩ := hr ch s hs
        have heq : s.getPackets seq avail now = ((s.getPackets seq avail now).1, (s.getPackets seq avail now).2.1,
          (s.getPackets seq avail now).2.2.1, (s.getPackets seq avail now).2.2.2) := rfl
        have hfit := SendRel.getPackets_fits heq hwf hid (by omega)
        have hr' : RelMapOK (SMap.insert sr ch (s.getPackets seq avail now).1) := by
          intro ch' s'' hf
          rw [SMap.find?_insert] at hf
          split at hf
          · cases hf
            exact ⟨SendRel.getPackets_wf_preserved heq hwf, by rw [(SendRel.getPackets_keeps heq).2.2.1]; exact hid⟩
          · exact hr ch' s'' hf
        obtain ⟨ps, h1, h2, h3, h4⟩ := ih _ _ _ _ _ _ _ _ _ _ hr' hu h hseq
        refine ⟨(s.getPackets seq avail now).2.1 ++ ps, by rw [h1, List.append_assoc], ?_, h3, h4⟩
        intro p hp
        simp only [List.mem_append] at hp
        rcases hp with hp | hp
        · exact hfit p hp
        · exact h2 p hp
    | false =>
      rw [chanLoop_unrel_step] at h
      split at h
      · cases h
      · next s hs =>
        have hmono := chanLoop_seq_mono now _ _ _ _ _ _ _ _ _ _ _ h
        obtain ⟨hlen, hid⟩ := hu ch s hs
        have heq : s.getPackets seq avail = ((s.getPackets seq avail).1, (s.getPackets seq avail).2.1,
          (s.getPackets seq avail).2.2.1, (s.getPackets seq avail).2.2.2) := rfl
        have hsid := SendUnrel.getPackets_slicedId heq
        have hfit := SendUnrel.getPackets_fits heq hlen (by omega) (by omega)
        have hu' : UnrelMapOK (SMap.insert su ch (s.getPackets seq avail).1) := by
          intro ch' s'' hf
          rw [SMap.find?_insert] at hf
          split at hf
          · cases hf
            have hq := (SendUnrel.getPackets_drains heq).1
            refine ⟨by rw [hq]; simp, by rw [hq]; simp only [List.length_nil]; omega⟩
          · exact hu ch' s'' hf
        obtain ⟨ps, h1, h2, h3, h4⟩ := ih _ _ _ _ _ _ _ _ _ _ hr hu' h hseq
        refine ⟨(s.getPackets seq avail).2.1 ++ ps, by rw [h1, List.append_assoc], ?_, h3, h4⟩
        intro p hp
        simp only [List.mem_append] at hp
        rcases hp with hp | hp
        · exact hfit p hp
        · exact h2 p hp

/-- every channel named in the send order exists -/
def ChansExist (order : List (Bool × Nat)) (sr : SMap SendRel) (su : SMap SendUnrel) : Prop :=
  ∀ x ∈ order, if x.1 = true then SMap.find? sr x.2 ≠ none else SMap.find? su x.2 ≠ none

theorem chanLoop_ok (now : Nat) : ∀ (order : List (Bool × Nat)) (st : ChanSt), ChansExist order st.1 st.2.1 →
    ∃ r, Conn.chanLoop now order st = .ok r := by
  intro order
  induction order with
  | nil => intro st _; exact ⟨st, rfl⟩
  | cons x rest ih =>
    intro st hex
    obtain ⟨sr, su, pk, seq, avail⟩ := st
    obtain ⟨rel, ch⟩ := x
    have hx := hex (rel, ch) (List.mem_cons_self ..)
    cases rel with
    | true =>
      simp only [↓reduceIte] at hx
      rw [chanLoop_rel_step]
      cases hs : SMap.find? sr ch with
      | none => exact absurd hs hx
      | some s =>
        apply ih
        intro y hy
        have := hex y (List.mem_cons_of_mem _ hy)
        split
        · next hy1 =>
          simp only [hy1, ↓reduceIte] at this
          simp only [SMap.find?_insert]
          split
          · simp
          · exact this
        · next hy1 => simp only [hy1] at this; exact this
    | false =>
      simp only [Bool.false_eq_true, ↓reduceIte] at hx
      rw [chanLoop_unrel_step]
      cases hs : SMap.find? su ch with
      | none => exact absurd hs hx
      | some s =>
        apply ih
        intro y hy
        have := hex y (List.mem_cons_of_mem _ hy)
        split
        · next hy1 => simp only [hy1, ↓reduceIte] at this; exact this
        · next hy1 =>
          simp only [hy1] at this
          simp only [SMap.find?_insert]
          split
          · simp
          · exact this

theorem recordSent_ok (now : Nat) : ∀ (pk : List Packet) (sent : SMap (Nat × SentInfo)),
    (∀ p ∈ pk, ∀ sq r, p = Packet.ack sq r → ∃ a e, r.getLast? = some (a, e) ∧ 1 ≤ e) →
    ∃ m, Conn.recordSent now pk sent = .ok m := by
  intro pk
  induction pk with
  | nil => intro sent _; exact ⟨sent, rfl⟩
  | cons p rest ih =>
    intro sent h
    have hrest := fun q hq => h q (List.mem_cons_of_mem _ hq)
    have hinfo : ∃ info, Conn.sentInfoOf p = .ok info := by
      cases p with
      | smallReliable _ _ _ => exact ⟨_, rfl⟩
      | smallUnreliable _ _ _ => exact ⟨_, rfl⟩
      | reliableSlice _ _ _ => exact ⟨_, rfl⟩
      | unreliableSlice _ _ _ => exact ⟨_, rfl⟩
      | ack sq r =>
        obtain ⟨a, e, hl, he⟩ := h _ (List.mem_cons_self ..) sq r rfl
        exact ⟨.ack (e - 1), by simp [Conn.sentInfoOf, hl, Res.csub, he]⟩
    obtain ⟨info, hi⟩ := hinfo
    obtain ⟨m, hm⟩ := ih (SMap.insert sent p.sequence (now, info)) hrest
    exact ⟨m, by simp [Conn.recordSent, hi, hm]⟩

theorem serialiseAll_ok : ∀ (pk : List Packet), (∀ p ∈ pk, PktFits p) →
    ∃ bs, Conn.serialiseAll pk = .ok bs ∧ bs.length = pk.length ∧ ∀ b ∈ bs, b.length ≤ NETCODE_MAX_PAYLOAD_BYTES := by
  intro pk
  induction pk with
  | nil => intro _; exact ⟨[], rfl, rfl, by simp⟩
  | cons p rest ih =>
    intro h
    obtain ⟨b, hb, hl⟩ := (h p (List.mem_cons_self ..)).toBytes
    obtain ⟨bs, hbs, hn, hall⟩ := ih (fun q hq => h q (List.mem_cons_of_mem _ hq))
    refine ⟨b :: bs, by simp [Conn.serialiseAll, hb, hbs], by simp [hn], ?_⟩
    intro x hx
    simp only [List.mem_cons] at hx
    rcases hx with rfl | hx
    · exact hl
    · exact hall x hx

theorem ack_last_of_wf {l : List AckRange} (h : AckWF l) : ∃ a e, l.getLast? = some (a, e) ∧ 1 ≤ e := by
  obtain ⟨ls, le, d, hrev, hlt, _, _⟩ := h
  refine ⟨ls, le, ?_, by omega⟩
  rw [List.getLast?_eq_head?_reverse, hrev]; rfl

/-- the explicit invariant under which a connection's flush is analysed -/
structure Conn.FlushInv (c : Conn) : Prop where
  chans : ChansExist c.order c.sendRel c.sendUnrel
  rel : RelMapOK c.sendRel
  unrel : UnrelMapOK c.sendUnrel
  acksWF : Acks.WF c.pendingAcks
  acksLen : c.pendingAcks.length ≤ ACK_RANGE_CAP
  acksBound : ∀ r ∈ c.pendingAcks, r.2 ≤ Varint.MAX + 1

/-- the value `packet_sequence` has after this flush if an ack packet is appended (0 if the channel loop panics) -/
def Conn.flushSeq (c : Conn) : Nat :=
  match Conn.chanLoop c.now c.order (c.sendRel, c.sendUnrel, [], c.packetSeq, c.budget) with
  | .ok (_, _, _, seq, _) => seq + 1
  | _ => 0

/-- C13 at connection level: under the invariant, and while `packet_sequence` stays below 2^62, a flush never panics,
    never fails to serialise (the connection status is unchanged), and every datagram handed to the transport is at
    most `NETCODE_MAX_PAYLOAD_BYTES` long. -/
theorem Conn.getPacketsToSend_fits (c : Conn) (hinv : c.FlushInv) (hseq : c.flushSeq ≤ Varint.MAX + 1) :
    ∃ c' bs, c.getPacketsToSend = .ok (c', bs) ∧ c'.status = c.status ∧
      (∀ b ∈ bs, b.length ≤ NETCODE_MAX_PAYLOAD_BYTES) ∧ c'.packetSeq ≤ c.flushSeq := by
  unfold Conn.getPacketsToSend
  split
  · refine ⟨c, [], rfl, rfl, by simp, ?_⟩
    obtain ⟨r, hr⟩ := chanLoop_ok c.now c.order (c.sendRel, c.sendUnrel, [], c.packetSeq, c.budget) hinv.chans
    obtain ⟨sr, su, pk, seq, avail⟩ := r
    have := chanLoop_seq_mono _ _ _ _ _ _ _ _ _ _ _ _ hr
    simp only [Conn.flushSeq, hr]; omega
  · obtain ⟨r, hr⟩ := chanLoop_ok c.now c.order (c.sendRel, c.sendUnrel, [], c.packetSeq, c.budget) hinv.chans
    obtain ⟨sr, su, pk, seq, avail⟩ := r
    have hfs : c.flushSeq = seq + 1 := by simp only [Conn.flushSeq, hr]
    obtain ⟨ps, h1, h2, _, _⟩ := chanLoop_fits c.now c.order _ _ _ _ _ _ _ _ _ _ hinv.rel hinv.unrel hr (by omega)
    simp only [List.nil_append] at h1
    subst h1
    simp only [hr, Res.bind_ok]
    by_cases hempty : c.pendingAcks.isEmpty = true
    · simp only [hempty, ↓reduceIte]
      obtain ⟨m, hm⟩ := recordSent_ok c.now pk c.sent (by
        intro p hp sq r e
        have := (h2 p hp).2
        rw [e] at this; cases this)
      obtain ⟨bs, hbs, _, hall⟩ := serialiseAll_ok pk (fun p hp => (h2 p hp).1)
      simp only [hm, Res.bind_ok, hbs]
      exact ⟨_, bs, rfl, rfl, hall, by simp only; omega⟩
    · simp only [hempty, Bool.false_eq_true, ↓reduceIte]
      have hne : c.pendingAcks ≠ [] := by
        intro e; rw [e] at hempty; exact hempty rfl
      have hackwf := Acks.ackWF_of_wf c.pendingAcks hne hinv.acksWF hinv.acksBound
      have hackfits : PktFits (Packet.ack seq c.pendingAcks) := by
        obtain ⟨b, hb, hl⟩ := enc_ack_len seq c.pendingAcks (by omega) hackwf
        refine ⟨b, hb, ?_⟩
        have := ackPacketBound_le
        have hc := hinv.acksLen
        have : 16 * (c.pendingAcks.length - 1) ≤ 16 * (ACK_RANGE_CAP - 1) := Nat.mul_le_mul_left _ (by omega)
        unfold ackPacketBound at *; omega
      obtain ⟨m, hm⟩ := recordSent_ok c.now (pk ++ [Packet.ack seq c.pendingAcks]) c.sent (by
        intro p hp sq r e
        simp only [List.mem_append, List.mem_singleton] at hp
        rcases hp with hp | hp
        · have := (h2 p hp).2
          rw [e] at this; cases this
        · rw [hp] at e; cases e
          exact ack_last_of_wf hackwf)
      obtain ⟨bs, hbs, _, hall⟩ := serialiseAll_ok (pk ++ [Packet.ack seq c.pendingAcks]) (by
        intro p hp
        simp only [List.mem_append, List.mem_singleton] at hp
        rcases hp with hp | rfl
        · exact (h2 p hp).1
        · exact hackfits)
      simp only [hm, Res.bind_ok, hbs]
      exact ⟨_, bs, rfl, rfl, hall, by simp only; omega⟩

/-- the packets one `get_packets_to_send` builds before serialising them: channel packets in configuration order,
    then the ack packet -/
def Conn.flushPackets (c : Conn) : Res Empty (List Packet) :=
  match Conn.chanLoop c.now c.order (c.sendRel, c.sendUnrel, [], c.packetSeq, c.budget) with
  | .ok (_, _, pk, seq, _) => .ok (if c.pendingAcks.isEmpty then pk else pk ++ [Packet.ack seq c.pendingAcks])
  | .err e => .err e
  | .panic s => .panic s

/-- what `get_packets_to_send` returns is the serialisation of `flushPackets` (or nothing, on a serialisation error) -/
theorem Conn.getPacketsToSend_serialises (c c' : Conn) (bs : List Bytes) (hd : c.isDisconnected = false)
    (h : c.getPacketsToSend = .ok (c', bs)) :
    ∃ pk, c.flushPackets = .ok pk ∧ (Conn.serialiseAll pk = .ok bs ∨ (bs = [] ∧ ∃ e, Conn.serialiseAll pk = .err e)) := by
  unfold Conn.getPacketsToSend at h
  simp only [hd, Bool.false_eq_true, ↓reduceIte] at h
  unfold Conn.flushPackets
  cases hr : Conn.chanLoop c.now c.order (c.sendRel, c.sendUnrel, [], c.packetSeq, c.budget) with
  | panic s => rw [hr] at h; cases h
  | err e => cases e
  | ok r =>
    obtain ⟨sr, su, pk, seq, avail⟩ := r
    rw [hr] at h
    simp only [Res.bind_ok] at h
    refine ⟨_, rfl, ?_⟩
    by_cases hempty : c.pendingAcks.isEmpty = true
    · simp only [hempty, ↓reduceIte] at h ⊢
      cases hs : Conn.recordSent c.now pk c.sent with
      | panic s => rw [hs] at h; cases h
      | err e => cases e
      | ok m =>
        rw [hs] at h
        simp only [Res.bind_ok] at h
        cases hser : Conn.serialiseAll pk with
        | ok bs' => rw [hser] at h; simp only [Res.pure_eq, Res.ok.injEq, Prod.mk.injEq] at h; exact Or.inl (by rw [h.2])
        | err e => rw [hser] at h; simp only [Res.pure_eq, Res.ok.injEq, Prod.mk.injEq] at h; exact Or.inr ⟨h.2.symm, e, rfl⟩
        | panic s => rw [hser] at h; cases h
    · simp only [hempty, Bool.false_eq_true, ↓reduceIte] at h ⊢
      cases hs : Conn.recordSent c.now (pk ++ [Packet.ack seq c.pendingAcks]) c.sent with
      | panic s => rw [hs] at h; cases h
      | err e => cases e
      | ok m =>
        rw [hs] at h
        simp only [Res.bind_ok] at h
        cases hser : Conn.serialiseAll (pk ++ [Packet.ack seq c.pendingAcks]) with
        | ok bs' => rw [hser] at h; simp only [Res.pure_eq, Res.ok.injEq, Prod.mk.injEq] at h; exact Or.inl (by rw [h.2])
        | err e => rw [hser] at h; simp only [Res.pure_eq, Res.ok.injEq, Prod.mk.injEq] at h; exact Or.inr ⟨h.2.symm, e, rfl⟩
        | panic s => rw [hser] at h; cases h

/-- C14 at connection level: the message payload carried by all packets of one flush is at most
    `available_bytes_per_tick`; the packets are numbered consecutively from `packet_sequence`. -/
theorem Conn.flushPackets_budget (c : Conn) (pk : List Packet) (hfit : RelMapFit c.sendRel)
    (h : c.flushPackets = .ok pk) :
    payloadSum pk ≤ c.budget ∧ pk.map Packet.sequence = List.range' c.packetSeq pk.length := by
  unfold Conn.flushPackets at h
  split at h
  · next sr su pk0 seq avail hr =>
    obtain ⟨ps, h1, h2, h3, h4, _⟩ := chanLoop_budget c.now c.order _ _ _ _ _ _ _ _ _ _ hfit hr
    simp only [List.nil_append] at h1
    subst h1
    simp only [Res.ok.injEq] at h
    subst h
    split
    · exact ⟨by omega, h4⟩
    · refine ⟨by simp [payloadBytes]; omega, ?_⟩
      simp only [List.map_append, List.map_cons, List.map_nil, List.length_append, List.length_cons, List.length_nil,
        h4, List.range'_1_concat, Packet.sequence, h3]
  · cases h
  · cases h

/-- C14, serving order: when the channel loop reaches the channel at position `pre.length` of the send order, the
    budget it is offered is exactly `available_bytes_per_tick` minus the payload of the packets the earlier channels
    produced; the rest of the loop continues from what that channel leaves. -/
theorem chanLoop_offered (now : Nat) (pre post : List (Bool × Nat)) (x : Bool × Nat) (sr : SMap SendRel) (su : SMap SendUnrel)
    (seq budget : Nat) (fin : ChanSt) (hfit : RelMapFit sr)
    (h : Conn.chanLoop now (pre ++ x :: post) (sr, su, [], seq, budget) = .ok fin) :
    ∃ sr1 su1 pk1 seq1 avail1,
      Conn.chanLoop now pre (sr, su, [], seq, budget) = .ok (sr1, su1, pk1, seq1, avail1) ∧
      avail1 = budget - payloadSum pk1 ∧ payloadSum pk1 ≤ budget ∧
      Conn.chanLoop now (x :: post) (sr1, su1, pk1, seq1, avail1) = .ok fin := by
  rw [chanLoop_append] at h
  cases hr : Conn.chanLoop now pre (sr, su, [], seq, budget) with
  | panic s => rw [hr] at h; cases h
  | err e => cases e
  | ok r =>
    obtain ⟨sr1, su1, pk1, seq1, avail1⟩ := r
    rw [hr] at h
    simp only [Res.bind_ok] at h
    obtain ⟨ps, h1, h2, _⟩ := chanLoop_budget now pre _ _ _ _ _ _ _ _ _ _ hfit hr
    simp only [List.nil_append] at h1
    subst h1
    exact ⟨sr1, su1, pk1, seq1, avail1, rfl, by omega, by omega, h⟩

/-! ### decidable forms of the invariants (to check concrete states by evaluation) -/

instance : DecidablePred Unacked.WF := fun u => by
  cases u <;> unfold Unacked.WF <;> infer_instance

/-- decidable reformulation of `SendRel.WF` -/
def SendRel.WFd (s : SendRel) : Prop :=
  (SMap.keys s.unacked).Nodup ∧ (∀ x ∈ s.unacked, x.1 < s.nextId) ∧ (∀ x ∈ s.unacked, x.2.WF)

instance (s : SendRel) : Decidable s.WFd := by unfold SendRel.WFd; infer_instance

theorem SendRel.WFd.wf {s : SendRel} (h : s.WFd) : s.WF :=
  ⟨h.1, fun id u hm => h.2.1 (id, u) hm, fun id u hm => h.2.2 (id, u) hm⟩

def RelMapOKd (sr : SMap SendRel) : Prop := ∀ x ∈ sr, x.2.WFd ∧ x.2.nextId ≤ Varint.MAX + 1
def UnrelMapOKd (su : SMap SendUnrel) : Prop :=
  ∀ x ∈ su, (∀ m ∈ x.2.queue, m.length ≤ Varint.MAX) ∧ x.2.slicedId + x.2.queue.length ≤ Varint.MAX + 1

instance (sr : SMap SendRel) : Decidable (RelMapOKd sr) := by unfold RelMapOKd; infer_instance
instance (su : SMap SendUnrel) : Decidable (UnrelMapOKd su) := by unfold UnrelMapOKd; infer_instance

theorem RelMapOKd.ok {sr : SMap SendRel} (h : RelMapOKd sr) : RelMapOK sr := by
  intro ch s hs
  have := h (ch, s) (SMap.mem_of_find? hs)
  exact ⟨this.1.wf, this.2⟩

theorem UnrelMapOKd.ok {su : SMap SendUnrel} (h : UnrelMapOKd su) : UnrelMapOK su := by
  intro ch s hs
  exact h (ch, s) (SMap.mem_of_find? hs)

instance (order : List (Bool × Nat)) (sr : SMap SendRel) (su : SMap SendUnrel) : Decidable (ChansExist order sr su) := by
  unfold ChansExist; infer_instance

/-- decidable check of `Acks.WF` -/
def acksWFb : List AckRange → Bool
  | [] => true
  | [r] => decide (r.1 < r.2)
  | r :: r2 :: rest => decide (r.1 < r.2) && decide (r.2 < r2.1) && acksWFb (r2 :: rest)

theorem acksWFb_wf : ∀ (l : List AckRange), acksWFb l = true → Acks.WF l
  | [], _ => trivial
  | [r], h => by simpa [acksWFb, Acks.WF] using h
  | r :: r2 :: rest, h => by
    simp only [acksWFb, Bool.and_eq_true, decide_eq_true_eq] at h
    exact ⟨h.1.1, h.1.2, acksWFb_wf (r2 :: rest) h.2⟩

/-- decidable sufficient condition for `Conn.FlushInv` -/
def Conn.FlushInvd (c : Conn) : Prop :=
  ChansExist c.order c.sendRel c.sendUnrel ∧ RelMapOKd c.sendRel ∧ UnrelMapOKd c.sendUnrel ∧
  acksWFb c.pendingAcks = true ∧ c.pendingAcks.length ≤ ACK_RANGE_CAP ∧ ∀ r ∈ c.pendingAcks, r.2 ≤ Varint.MAX + 1

instance (c : Conn) : Decidable c.FlushInvd := by unfold Conn.FlushInvd; infer_instance

theorem Conn.FlushInvd.inv {c : Conn} (h : c.FlushInvd) : c.FlushInv :=
  ⟨h.1, h.2.1.ok, h.2.2.1.ok, acksWFb_wf _ h.2.2.2.1, h.2.2.2.2.1, h.2.2.2.2.2⟩

/-! ### the pending-ack part of `Conn.FlushInv` is inductive -/

theorem Acks.wf_mem_nonempty : ∀ {l : List AckRange}, Acks.WF l → ∀ r ∈ l, r.1 < r.2
  | [], _, _, h => by cases h
  | x :: rest, hw, r, h => by
    rw [Acks.wf_cons_iff] at hw
    simp only [List.mem_cons] at h
    rcases h with rfl | h
    · exact hw.1
    · exact Acks.wf_mem_nonempty hw.2.1 r h

theorem Acks.mem_of_mem_range : ∀ {l : List AckRange} {r : AckRange} {x : Nat}, r ∈ l → r.1 ≤ x → x < r.2 → Acks.Mem x l
  | [], _, _, h, _, _ => by cases h
  | y :: rest, r, x, h, h1, h2 => by
    simp only [List.mem_cons] at h
    rcases h with rfl | h
    · exact Or.inl ⟨h1, h2⟩
    · exact Or.inr (Acks.mem_of_mem_range h h1 h2)

theorem Acks.range_of_mem : ∀ {l : List AckRange} {x : Nat}, Acks.Mem x l → ∃ r ∈ l, x < r.2
  | [], _, h => by cases h
  | y :: rest, x, h => by
    rcases h with h | h
    · exact ⟨y, List.mem_cons_self .., h.2⟩
    · obtain ⟨r, hr, hx⟩ := Acks.range_of_mem h
      exact ⟨r, List.mem_cons_of_mem _ hr, hx⟩

/-- recording a sequence number below `B` keeps every range end at most `B` -/
theorem Acks.add_bound (cap seq B : Nat) (l : List AckRange) (h : Acks.WF l) (hb : ∀ r ∈ l, r.2 ≤ B) (hs : seq < B) :
    ∀ r ∈ Acks.add cap seq l, r.2 ≤ B := by
  intro r hr
  have hne := Acks.wf_mem_nonempty (Acks.add_wf cap seq l h) r hr
  have hm := Acks.mem_of_mem_range (x := r.2 - 1) hr (by omega) (by omega)
  rcases Acks.add_mem_sub cap seq l h _ hm with h1 | h1
  · obtain ⟨r', hr', hx⟩ := Acks.range_of_mem h1
    have := hb r' hr'
    omega
  · omega

end RenetVerif
